#!/bin/bash
# usage: tools/confirm_seed.sh <dir with patch.diff + demo.cpp> [extra g++ flags for the demo]
# Lead's own confirmation of a seeded change, in a private scratch worktree: the patch applies to /repo's HEAD, the whole
# tree still builds and all 120 baseline tests pass with it (tools/seedbuild.sh), the demonstration fails with the change
# and passes on the pristine build (/tmp/crabwt_base, built by the same script).  Prints one verdict line.
d=$(readlink -f "$1"); shift
here="$(cd "$(dirname "$0")/.." && pwd)"
wt=$(mktemp -d /tmp/confirm.XXXXXX); rmdir "$wt"
git -C /repo worktree add -q --detach "$wt" HEAD || exit 3
trap 'git -C /repo worktree remove --force "$wt" >/dev/null 2>&1' EXIT
git -C "$wt" apply "$d/patch.diff" || { echo "CONFIRM $(basename $d): patch does not apply"; exit 3; }
bt=$(SEED_JOBS=${SEED_JOBS:-12} "$here/tools/seedbuild.sh" "$wt" | grep "BUILDTEST" | tr '\n' ' ')
base=/tmp/crabwt_base
# pristine build of /repo HEAD for the "passes without the change" half (scratch, not needed by any registered check):
# (re)created on demand, remove it with `git -C /repo worktree remove --force /tmp/crabwt_base` when done
if [ ! -f "$base/_build/lib/libCrab.a" ] || [ "$(git -C "$base" rev-parse HEAD 2>/dev/null)" != "$(git -C /repo rev-parse HEAD)" ]; then
  git -C /repo worktree remove --force "$base" >/dev/null 2>&1; rm -rf "$base"
  git -C /repo worktree add -q --detach "$base" HEAD && SEED_JOBS=${SEED_JOBS:-12} "$here/tools/seedbuild.sh" "$base" >/dev/null
fi
demo(){ t=$1; shift; g++ -std=c++14 -w -O0 -I$t/include -I$t/_build/include -I$t/tests "$@" "$d/demo.cpp" $t/_build/lib/libCrab.a -lgmp -o $wt.demo 2>$wt.demo.err || { echo compile-failed; return; }; timeout 300 $wt.demo >/dev/null 2>&1; echo $?; }
dm=$(demo "$wt" "${@:1}"); dp=$(demo "$base" "${@:1}")
rm -f $wt.demo $wt.demo.err
echo "CONFIRM $(basename $d): $bt demo_on_mutant=$dm demo_on_pristine=$dp"
