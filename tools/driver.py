#!/usr/bin/env python3
"""Contract-verification driver for seahorn/crab (see /verif/DESIGN.md).

  driver.py --property C13 [--tier quick|thorough] [--only <check-id-regex>] [--unit u] [--jobs N] [--keep]
  driver.py --replay <file.json>

exit 0: every obligation of the property discharged (known findings are printed, not raised)
exit 1: a property-level obligation fails; a line `VIOLATION property=<id> replay=<path>` is printed
exit 2: machinery fault / undecided (time-out, extraction break, missing function, vacuity guard, ...)
"""
import argparse, concurrent.futures as cf, hashlib, json, os, random, re, shlex, shutil, subprocess, sys, tempfile, threading, time

VERIF = os.path.dirname(os.path.dirname(os.path.abspath(__file__)))
REPO = os.environ.get('CRAB_REPO', '/repo')
CLANG_FLAGS = ['-std=c++14', '-O0', '-DNDEBUG', '-fno-exceptions', '-fno-rtti', '-fno-discard-value-names',
               '-fno-access-control', '-emit-llvm', '-S', '-w', '-DCRAB_VERIF']
CBMC_CHECKS = ['--bounds-check', '--pointer-check', '--signed-overflow-check', '--undefined-shift-check',
               '--div-by-zero-check', '--object-bits', '12']
BACKENDS = {
    'minisat': [],
    'cadical': ['--sat-solver', 'cadical'],
    'kissat': ['--external-sat-solver', 'kissat'],
    'cvc5': ['--cvc5'],
    'z3': ['--z3'],
}
MEM_KB = 16 * 1024 * 1024
print_lock = threading.Lock()
RUNNING = set()


class MemBudget:
    """checks declare mem=<GB> (default 2); at most VERIF_MEM_GB (default 40) GB worth of cbmc runs are in flight"""
    def __init__(self, total):
        self.total = total; self.used = 0; self.cv = threading.Condition()

    def acquire(self, n):
        n = min(n, self.total)
        with self.cv:
            while self.used + n > self.total:
                self.cv.wait()
            self.used += n
        return n

    def release(self, n):
        with self.cv:
            self.used -= n
            self.cv.notify_all()


MEMBUDGET = MemBudget(int(os.environ.get('VERIF_MEM_GB', '40')))
WORKDIR = [None, False]


def log(*a):
    with print_lock:
        print(*a, flush=True)


class Fault(Exception):
    """machinery fault -> exit 2"""


def run(cmd, timeout=None, cwd=None, mem=True, tmpdir=None, mem_gb=None):
    cap = MEM_KB if not mem_gb else max(MEM_KB, int(mem_gb * 1.6 * 1024 * 1024))
    pre = ('ulimit -v %d; ' % cap) if mem else ''
    if tmpdir:
        # cbmc --external-sat-solver leaves multi-GB CNF files in $TMPDIR when it is killed: keep them inside the work dir
        pre += 'export TMPDIR=%s; ' % shlex.quote(tmpdir)
    t0 = time.time()
    p = subprocess.Popen(['bash', '-c', pre + 'exec ' + ' '.join(shlex.quote(c) for c in cmd)], cwd=cwd,
                         stdout=subprocess.PIPE, stderr=subprocess.STDOUT, start_new_session=True)
    RUNNING.add(p.pid)
    try:
        out, _ = p.communicate(timeout=timeout)
        RUNNING.discard(p.pid)
        return p.returncode, out.decode('utf-8', 'replace'), time.time() - t0
    except subprocess.TimeoutExpired:
        try:
            os.killpg(p.pid, 9)
        except Exception:
            pass
        out, _ = p.communicate()
        return None, out.decode('utf-8', 'replace'), time.time() - t0


def demangle(names):
    try:
        p = subprocess.run(['c++filt'], input='\n'.join(names).encode(), stdout=subprocess.PIPE)
        return dict(zip(names, p.stdout.decode().split('\n')))
    except Exception:
        return {n: n for n in names}


# ------------------------------------------------------------------ units
class Unit:
    def __init__(self, name, work):
        self.name = name
        self.dir = os.path.join(VERIF, 'units', name)
        self.cfg = json.load(open(os.path.join(self.dir, 'unit.json')))
        self.work = os.path.join(work, name)
        os.makedirs(self.work, exist_ok=True)
        self.lock = threading.Lock()
        self.replay_bin = None
        self.replay_lock = threading.Lock()
        self.info = None
        self.model_gbs = {}
        self.checks, self.tags, self.contract_text = parse_checks(self)

    def source(self):
        s = self.cfg['source']
        return os.path.join(VERIF, s[6:]) if s.startswith('verif:') else os.path.join(REPO, s)

    def build(self):
        """clang -> IR -> C -> goto binary.  Anything that goes wrong here is an extraction fault."""
        w = self.work
        ll = os.path.join(w, 'unit.ll')
        cmd = ['clang++'] + CLANG_FLAGS + self.cfg.get('cxxflags', []) + \
              ['-I' + os.path.join(REPO, 'include'), '-I' + os.path.join(VERIF, 'units', 'config'), '-I' + self.dir,
               self.source(), '-o', ll]
        if self.cfg.get('mem2reg'):
            cmd[1:1] = ['-Xclang', '-disable-O0-optnone']
        rc, out, _ = run(cmd, timeout=900, mem=False)
        if rc != 0:
            raise Fault('clang failed on unit %s:\n%s' % (self.name, out[-3000:]))
        if self.cfg.get('mem2reg'):
            # promote allocas to SSA registers (no other optimisation): far fewer memory accesses for the checker
            ll0 = os.path.join(w, 'unit_O0.ll')
            os.rename(ll, ll0)
            rc, out, _ = run(['opt', '-S', '-passes=mem2reg', ll0, '-o', ll], timeout=900, mem=False)
            if rc != 0:
                raise Fault('opt -passes=mem2reg failed on unit %s:\n%s' % (self.name, out[-3000:]))
        ov = os.path.join(w, 'override.json')
        json.dump(self.cfg.get('override', {}), open(ov, 'w'))
        loops = os.path.join(self.dir, 'loops.json')
        cmd = [sys.executable, os.path.join(VERIF, 'tools', 'll2c.py'), ll, '--out', os.path.join(w, 'unit.c'),
               '--types', os.path.join(w, 'unit_types.h'), '--override', ov, '--info', os.path.join(w, 'info.json')]
        if os.path.exists(loops):
            cmd += ['--loops', loops]
        rc, out, _ = run(cmd, timeout=900, mem=False)
        if rc != 0:
            raise Fault('ll2c failed on unit %s:\n%s' % (self.name, out[-3000:]))
        self.info = json.load(open(os.path.join(w, 'info.json')))
        # a loop named by the loop-contract table that no longer exists (the function was rewritten without that
        # loop) is not a fault: checks of that function then run WITHOUT loop contracts (other loops get unwound)
        self.vanished_loops = set(fn for fn, lab in self.info.get('unused_loop_specs', []))
        defined = set(self.info['defined'])
        for c in self.checks:
            if c.fn not in defined:
                raise Fault('unit %s: function %s (check %s) is not defined by the extracted unit (renamed/removed?)' % (self.name, c.fn, c.id))
        rc, out, _ = run(['goto-cc', '-c', '-w', os.path.join(w, 'unit.c'), '-o', os.path.join(w, 'unit.gb')], timeout=900, mem=False)
        if rc != 0:
            raise Fault('goto-cc failed on translated unit %s:\n%s' % (self.name, out[-3000:]))
        return self

    def model_gb(self, defs):
        key = tuple(sorted(defs))
        with self.lock:
            if key in self.model_gbs:
                return self.model_gbs[key]
            outs = []
            for m in self.cfg.get('models', []):
                src = os.path.join(VERIF, m)
                o = os.path.join(self.work, 'model_%s_%s.gb' % (os.path.basename(m).replace('.', '_'), hashlib.md5(repr(key).encode()).hexdigest()[:8]))
                rc, out, _ = run(['goto-cc', '-c', '-w', '-I' + self.work, '-I' + os.path.join(VERIF, 'tools'), '-I' + self.dir, '-I' + os.path.join(VERIF, 'models')] +
                                 ['-D' + d for d in key] + [src, '-o', o], timeout=300, mem=False)
                if rc != 0:
                    raise Fault('goto-cc failed on model %s:\n%s' % (m, out[-3000:]))
                outs.append(o)
            self.model_gbs[key] = outs
            return outs

    def build_replay(self):
        """g++ build of the native replay driver against the WORKING TREE sources (never _build/libCrab.a)."""
        with self.replay_lock:
            if self.replay_bin is not None:
                return self.replay_bin
            rp = os.path.join(self.dir, 'replay.cpp')
            if not os.path.exists(rp):
                self.replay_bin = ''
                return ''
            exe = os.path.join(self.work, 'replay')
            srcs = [os.path.join(REPO, s) for s in self.cfg.get('replay_sources', [])]
            cmd = ['g++', '-std=c++14', '-O1', '-DNDEBUG', '-w', '-fno-access-control', '-fpermissive', '-I' + os.path.join(REPO, 'include'),
                   '-I' + os.path.join(VERIF, 'units', 'config'), '-I' + os.path.join(VERIF, 'tools'), '-I' + os.path.join(VERIF, 'models'), '-I' + self.dir, '-I' + self.work,
                   rp] + srcs + ['-o', exe, '-lgmp']
            rc, out, _ = run(cmd, timeout=1200, mem=False)
            if rc != 0:
                log('note: replay build failed for unit %s:\n%s' % (self.name, out[-2000:]))
                self.replay_bin = ''
            else:
                self.replay_bin = exe
            return self.replay_bin


# ------------------------------------------------------------------ checks
def expand_range(s):
    out = []
    for part in s.split(','):
        if '-' in part and not part.startswith('-'):
            a, b = part.split('-')
            out += list(range(int(a), int(b) + 1))
        else:
            out.append(int(part))
    return out


class Check:
    def __init__(self, unit, kv, line):
        self.unit = unit
        self.kv = kv
        self.id = kv['id']
        self.fn = kv['fn']
        self.harness = kv.get('harness', 'h_' + self.id)
        self.tag = kv.get('tag', self.id)
        self.props = kv.get('props', '').split(',')
        self.tier = kv.get('tier', 'quick')
        self.line = line

    def get(self, k, tier, default=None):
        if tier == 'thorough' and (k + '_thorough') in self.kv:
            return self.kv[k + '_thorough']
        return self.kv.get(k, default)

    def variants(self, tier):
        v = self.get('vary', tier)
        if not v:
            return [None]
        name, vals = v.split(':')
        return [(name, x) for x in expand_range(vals)]


def parse_checks(unit):
    path = os.path.join(unit.dir, 'contracts.c')
    checks = []
    txt = open(path).read()
    # contracts.c may include further files of the unit directory
    for inc in re.findall(r'#include "([\w./-]+)"', txt):
        p = os.path.join(unit.dir, inc)
        if os.path.exists(p) and inc.endswith('.c'):
            txt += '\n' + open(p).read()
    for ln_no, ln in enumerate(txt.split('\n'), 1):
        m = re.match(r'\s*//@check\s+(.*)$', ln)
        if not m:
            continue
        kv = {}
        for tok in shlex.split(m.group(1)):
            if '=' not in tok:
                raise Fault('%s:%d: bad //@check token %r' % (path, ln_no, tok))
            k, v = tok.split('=', 1)
            kv[k] = v
        for req in ('id', 'fn', 'props'):
            if req not in kv:
                raise Fault('%s:%d: //@check needs %s=' % (path, ln_no, req))
        checks.append(Check(unit, kv, ln_no))
    ids = [c.id for c in checks]
    if len(ids) != len(set(ids)):
        raise Fault('duplicate check ids in %s: %s' % (path, [i for i in ids if ids.count(i) > 1]))
    # FRESH/TOP tags may also come from contract headers shared between units
    alltxt = txt
    seen = set()
    todo = re.findall(r'#include "([\w./-]+)"', txt)
    while todo:
        inc = todo.pop()
        for base in (unit.dir, os.path.join(VERIF, 'units')):
            p = os.path.normpath(os.path.join(base, inc))
            if os.path.exists(p) and p not in seen and p.startswith(os.path.join(VERIF, 'units')):
                seen.add(p)
                t = open(p).read()
                alltxt += '\n' + t
                todo += [os.path.join(os.path.dirname(inc), i) if not os.path.exists(os.path.join(base, i)) else i for i in re.findall(r'#include "([\w./-]+)"', t)]
                break
    tags = set(re.findall(r'\b(?:FRESH|TOP)\(\s*(\w+)\s*,', alltxt)) | set(c.tag for c in checks)
    tags |= set(re.findall(r'_CONTRACT\(\s*(\w+)\s*,', alltxt))
    return checks, sorted(tags), txt


def contract_clauses(txt, fn):
    """(#requires, #ensures, has_assigns) of the contract declaration of fn, for the obligation census"""
    i = 0
    best = None
    for m in re.finditer(r'\b' + re.escape(fn) + r'\s*\(', txt):
        # skip to matching paren of the parameter list
        j = m.end(); depth = 1
        while j < len(txt) and depth:
            depth += txt[j] == '('; depth -= txt[j] == ')'; j += 1
        k = j
        ne = nr = 0; asg = False
        while True:
            mm = re.match(r'\s*(__CPROVER_(requires|ensures|assigns|frees))\s*\(', txt[k:])
            if not mm:
                break
            kind = mm.group(2)
            k += mm.end(); depth = 1
            while k < len(txt) and depth:
                depth += txt[k] == '('; depth -= txt[k] == ')'; k += 1
            ne += kind == 'ensures'; nr += kind == 'requires'; asg |= kind == 'assigns'
        if ne or nr or asg:
            if re.match(r'\s*;', txt[k:]) or re.match(r'\s*\{', txt[k:]):
                best = (nr, ne, asg)
    return best


RES_RE = re.compile(r'^\[([^\]]+)\] (?:line (\d+) )?(.*): (SUCCESS|FAILURE|UNKNOWN|ERROR)$')
WIT_RE = re.compile(r'^\s+(?:[\w:$]*::)?wit_(\w+?)((?:\.[\w$]+|\[\d+l*\])*)=(-?\d+)[ul]*\s+\(')
MUSTFAIL = ('reach', 'satguard')


class Result:
    def __init__(self, chk, variant):
        self.check = chk; self.variant = variant
        self.obligations = {}; self.mustfail = {}
        self.status = 'ok'; self.note = ''; self.backend = None; self.seconds = 0.0
        self.cmds = []; self.bounded = None; self.degraded = None; self.kfmode = None
        self.replaced = []; self.loop_contracts = False; self.log = ''

    @property
    def name(self):
        v = '' if self.variant is None else '[%s=%s]' % self.variant
        k = '' if not self.kfmode else '{%s}' % self.kfmode
        return '%s.%s%s%s' % (self.check.unit.name, self.check.id, v, k)

    def failed(self):
        return sorted(n for n, (st, _) in self.obligations.items() if st == 'FAILURE')

    def unknown(self):
        """UNKNOWN = cbmc left the obligation undecided because it lies behind a failed one"""
        return sorted(n for n, (st, _) in self.obligations.items() if st not in ('FAILURE', 'SUCCESS'))


def prepare(chk, variant, tier, work, kfmode=None, carve=None):
    r = Result(chk, variant)
    r.kfmode = kfmode
    unit = chk.unit
    vname = '' if variant is None else '_%s%s' % (variant[0], variant[1])
    d = os.path.join(work, unit.name, 'chk_' + chk.id + vname + ('_' + kfmode if kfmode else ''))
    os.makedirs(d, exist_ok=True)
    r.dir = d
    defs = [x for x in (chk.get('defs', tier) or '').split(',') if x]
    if variant is not None:
        defs.append('%s=%s' % (variant[0], variant[1]))
    if tier == 'thorough':
        defs.append('VERIF_THOROUGH=1')
    sel = ['#define ENF_%s %d' % (t, 1 if t == chk.tag else 0) for t in unit.tags]
    sel.append('#define CHECK_%s 1' % chk.id)
    for c in unit.checks:
        if c.id == chk.id and kfmode == 'carve':
            sel.append('#define KF_%s (%s)' % (c.id, carve))
        elif c.id == chk.id and kfmode == 'excl':
            sel.append('#define KF_%s (!(%s))' % (c.id, carve))
        else:
            sel.append('#define KF_%s 1' % c.id)
    open(os.path.join(d, 'check_sel.h'), 'w').write('\n'.join(sel) + '\n')
    r.defs = defs
    return r


def compile_and_instrument(chk, r, tier, inline_all=False, loop_contracts=None):
    unit = chk.unit
    d = r.dir
    spec = os.path.join(d, 'spec.gb')
    inc = ['-I' + d, '-I' + unit.work, '-I' + os.path.join(VERIF, 'tools'), '-I' + unit.dir, '-I' + os.path.join(VERIF, 'units'), '-I' + os.path.join(VERIF, 'models')]
    cmd = ['goto-cc', '-c', '-w'] + inc + ['-D' + x for x in r.defs] + ['-include', 'check_sel.h', os.path.join(unit.dir, 'contracts.c'), '-o', spec]
    rc, out, _ = run(cmd, timeout=300, mem=False)
    if rc != 0:
        raise Fault('goto-cc failed on contracts of %s (%s):\n%s' % (unit.name, chk.id, out[-3000:]))
    rc, out, _ = run(['gcc', '-E', '-P', '-w', '-x', 'c'] + inc + ['-D' + x for x in r.defs] + ['-include', 'check_sel.h', os.path.join(unit.dir, 'contracts.c')], timeout=120, mem=False)
    if rc != 0:
        raise Fault('preprocessing contracts of %s failed:\n%s' % (unit.name, out[-2000:]))
    r.pp_text = out
    mdefs = list(r.defs)
    if chk.get('allow_error', tier):
        mdefs.append('ALLOW_CRAB_ERROR=1')
    models = unit.model_gb(mdefs)
    allgb = os.path.join(d, 'all.gb')
    cmd = ['goto-cc', '--function', chk.harness, os.path.join(unit.work, 'unit.gb'), spec] + models + ['-o', allgb]
    rc, out, _ = run(cmd, timeout=300, mem=False)
    if rc != 0:
        raise Fault('goto-cc link failed for %s/%s:\n%s' % (unit.name, chk.id, out[-3000:]))
    if re.search(r'conflicting|duplicate definition', out):
        raise Fault('goto-cc reports conflicting declarations for %s/%s:\n%s' % (unit.name, chk.id, out[-3000:]))
    inst = os.path.join(d, 'inst.gb')
    cmd = ['goto-instrument', '--dfcc', chk.harness, '--enforce-contract-rec' if chk.get('rec', tier) == '1' else '--enforce-contract', chk.fn]
    repl = [x for x in (chk.get('replace', tier) or '').split(',') if x]
    # every function whose body the unit DROPS (override.drop) and that has a contract declaration is an assumed
    # contract of the whole unit: replace its calls in every check, so that a changed caller that starts calling it
    # is still judged (instead of hitting an undefined function)
    for g in unit.cfg.get('override', {}).get('drop', []):
        if g != chk.fn and g not in repl and contract_clauses(r.pp_text, g) is not None:
            repl.append(g)
    # unit-wide list of proved contracts that are expensive in line (recursion, loops): replaced in every check unless the
    # check opts out (noauto=1), so that a changed caller that starts calling them is judged instead of timing out
    if chk.get('noauto', tier) != '1':
        for g in unit.cfg.get('replace_always', []):
            if g != chk.fn and g not in repl and contract_clauses(r.pp_text, g) is not None:
                repl.append(g)
    # a callee that the extracted unit no longer mentions at all (a changed caller stopped calling it and nothing else
    # instantiates it) cannot be replaced: dfcc aborts on a name that is not in the goto model
    if getattr(unit, 'unit_c_text', None) is None:
        unit.unit_c_text = open(os.path.join(unit.work, 'unit.c')).read()
    gone = [g for g in repl if not re.search(r'\b' + re.escape(g) + r'\s*\(', unit.unit_c_text)]
    if gone:
        repl = [g for g in repl if g not in gone]
        r.note += 'callees no longer present in the unit (not replaced): %s; ' % ','.join(gone)
    if not inline_all:
        for g in repl:
            cmd += ['--replace-call-with-contract', g]
    use_loops = (chk.get('loops', tier) == '1') if loop_contracts is None else loop_contracts
    if use_loops and getattr(unit, 'vanished_loops', None) and unit.vanished_loops:
        use_loops = False
        r.note += 'loop contract dropped: the annotated loop no longer exists in %s; ' % ','.join(sorted(unit.vanished_loops))
    if use_loops:
        cmd += ['--apply-loop-contracts']
    cmd += [allgb, inst]
    rc, out, _ = run(cmd, timeout=900, mem=False)
    r.cmds.append('goto-instrument --dfcc %s --enforce-contract %s%s%s' % (chk.harness, chk.fn, ''.join(' --replace-call-with-contract ' + g for g in (repl if not inline_all else [])), ' --apply-loop-contracts' if use_loops else ''))
    if rc != 0:
        raise Fault('goto-instrument failed for %s/%s:\n%s' % (unit.name, chk.id, out[-3000:]))
    r.replaced = [] if inline_all else repl
    r.loop_contracts = use_loops
    return inst


def cbmc_flags(chk, tier, unwind_override=None):
    fl = list(CBMC_CHECKS)
    uw = unwind_override or chk.get('unwind', tier)
    if uw:
        fl += ['--unwind', str(uw), '--unwinding-assertions']
    extra = chk.get('cbmc', tier)
    if extra:
        fl += extra.split(',')
    return fl


def solve(chk, r, tier, inline_all=False, loop_contracts=None, unwind_override=None):
    inst = compile_and_instrument(chk, r, tier, inline_all, loop_contracts)
    backends = (chk.get('backends', tier) or 'minisat,kissat,cvc5').split(',')
    tmo = int(chk.get('timeout', tier) or 300)
    if chk.get('loops', tier) == '1' and not r.loop_contracts and unwind_override is None and not chk.get('unwind', tier):
        unwind_override = chk.kv.get('fallback_unwind', '70')
    flags = cbmc_flags(chk, tier, unwind_override)
    r.inst = inst; r.flags = flags
    r.obligations = {}; r.mustfail = {}
    last = ''
    for bi, be in enumerate(backends):
        cmd = ['cbmc', inst] + flags + BACKENDS[be]
        t_be = tmo if bi == len(backends) - 1 else min(tmo, int(chk.get('first_timeout', tier) or 90))
        need = MEMBUDGET.acquire(int(chk.get('mem', tier) or 2))
        try:
            rc, out, secs = run(cmd, timeout=t_be, tmpdir=r.dir, mem_gb=need)
        finally:
            MEMBUDGET.release(need)
        for f in os.listdir(r.dir):
            if f.startswith('external-sat'):
                os.unlink(os.path.join(r.dir, f))
        r.seconds += secs
        r.cmds.append(' '.join(['cbmc', 'inst.gb'] + flags + BACKENDS[be]))
        last = out
        open(os.path.join(r.dir, 'cbmc_%s.log' % be), 'w').write(out)
        if rc is None:
            r.note += '%s: timeout after %ds; ' % (be, t_be)
            continue
        if 'VERIFICATION SUCCESSFUL' not in out and 'VERIFICATION FAILED' not in out:
            r.note += '%s: no verdict (rc=%s); ' % (be, rc)
            continue
        if re.search(r'ignoring (forall|exists|quantif)', out) or re.search(r'no body for (function|callee)', out):
            bad = [l for l in out.split('\n') if 'ignoring' in l or 'no body for' in l][:5]
            raise Fault('%s/%s: cbmc log has %s' % (chk.unit.name, chk.id, bad))
        r.backend = be
        for ln in out.split('\n'):
            m = RES_RE.match(ln.strip())
            if m:
                name, desc, st = m.group(1), m.group(3), m.group(4)
                if desc.strip() in MUSTFAIL:
                    r.mustfail[name] = (st, desc)
                else:
                    r.obligations[name] = (st, desc)
        r.log = out
        r.status = 'ok'
        if chk.get('bounded', tier):
            r.bounded = chk.get('bounded', tier)
        return r
    r.status = 'undecided'
    r.log = last
    return r


def trace_witness(r, prop, tmo=900):
    cmd = ['cbmc', r.inst] + r.flags + ['--trace', '--property', prop]
    rc, out, _ = run(cmd, timeout=tmo, tmpdir=r.dir)
    if rc is None:
        return None, 'trace timed out'
    wit = {}
    for ln in out.split('\n'):
        m = WIT_RE.match(ln)
        if m:
            wit[m.group(1) + re.sub(r'\[(\d+)l*\]', r'[\1]', m.group(2))] = int(m.group(3))
    wit = {k: v for k, v in wit.items() if '$pad' not in k}
    # only the witness statics of this harness
    m = re.search(r'\bvoid\s+' + re.escape(r.check.harness) + r'\s*\(\s*void\s*\)\s*\{(.*?)\n?\}\s*(?:\n|$)', r.pp_text, re.S)
    if m:
        names = set(re.findall(r'\bwit_(\w+)', m.group(1)))
        wit = {k: v for k, v in wit.items() if re.match(r'\w+', k).group(0) in names}
    return wit, out


def native_replay(unit, chk_id, defs, wit):
    """returns ('violated'|'holds'|'unavailable', output)"""
    exe = unit.build_replay()
    if not exe:
        return 'unavailable', 'no replay driver for unit %s' % unit.name
    cmd = [exe, chk_id] + ['-D' + d for d in defs] + ['%s=%d' % kv for kv in sorted(wit.items())]
    rc, out, _ = run(cmd, timeout=120, mem=False)
    if rc == 1 and 'REPLAY: VIOLATED' in out:
        return 'violated', out
    if rc == 0 and 'REPLAY: holds' in out:
        return 'holds', out
    if rc == 3:
        return 'unavailable', out
    return 'unavailable', 'replay exit %s\n%s' % (rc, out[-1500:])


def census(r):
    """vacuity guards of DESIGN 2.5 (derived from the contract text of this run)"""
    chk = r.check
    cl = contract_clauses(r.pp_text, chk.fn)
    if cl is None:
        raise Fault('%s: no contract declaration found for %s' % (r.name, chk.fn))
    nr, ne, asg = cl
    obs = r.obligations
    npost = sum(1 for n in obs if re.match(re.escape(chk.fn) + r'\.postcondition\.\d+$', n))
    if npost < ne:
        raise Fault('%s: census: %d ensures clauses but %d postcondition obligations' % (r.name, ne, npost))
    if ne == 0:
        raise Fault('%s: contract of %s has no ensures clause' % (r.name, chk.fn))
    if not r.mustfail:
        raise Fault('%s: harness has no must-fail reach assertion' % r.name)
    for n, (st, desc) in r.mustfail.items():
        if st != 'FAILURE':
            raise Fault('%s: vacuity guard %s (%s) did not fail: precondition unsatisfiable or function never returns' % (r.name, n, desc))
    if r.loop_contracts:
        for kind in ('loop_invariant_base', 'loop_invariant_step'):
            if not any(kind in n for n in obs):
                raise Fault('%s: census: loop contracts requested but no %s obligation generated' % (r.name, kind))
    if len(obs) == 0:
        raise Fault('%s: zero obligations' % r.name)


# ------------------------------------------------------------------ property run
def load_kf():
    p = os.path.join(VERIF, 'known_findings.json')
    if not os.path.exists(p):
        return []
    return json.load(open(p)).get('findings', [])


def run_property(args):
    t0 = time.time()
    prop = args.property
    tier = args.tier
    work = tempfile.mkdtemp(prefix='crabverif_%s_' % prop, dir=os.environ.get('VERIF_TMP', '/var/tmp'))
    outdir = os.path.join(VERIF, 'out', prop)
    os.makedirs(outdir, exist_ok=True)
    rc = 2
    import signal
    def _term(signum, frame):
        for pid in list(RUNNING):
            try:
                os.killpg(pid, 9)
            except Exception:
                pass
        if not args.keep:
            shutil.rmtree(work, ignore_errors=True)
        print('INCONCLUSIVE property=%s (interrupted)' % prop, flush=True)
        os._exit(2)
    signal.signal(signal.SIGTERM, _term)
    try:
        rc = _run_property(args, prop, tier, work, outdir, t0)
    except Fault as e:
        log('FAULT: %s' % e)
        log('INCONCLUSIVE property=%s (machinery fault, exit 2)' % prop)
        rc = 2
    except KeyboardInterrupt:
        log('INCONCLUSIVE property=%s (interrupted)' % prop)
        os.system('pkill -9 -P %d >/dev/null 2>&1' % os.getpid())
        rc = 2
    finally:
        if not args.keep:
            shutil.rmtree(work, ignore_errors=True)
        else:
            log('work dir kept: ' + work)
    return rc


def _run_property(args, prop, tier, work, outdir, t0):
    units = []
    for name in sorted(os.listdir(os.path.join(VERIF, 'units'))):
        if not os.path.exists(os.path.join(VERIF, 'units', name, 'unit.json')):
            continue
        if args.unit and name != args.unit:
            continue
        if name in (args.skip_unit or '').split(',') or (not args.unit and os.path.exists(os.path.join(VERIF, 'units', name, 'DISABLED'))):
            continue
        cpath = os.path.join(VERIF, 'units', name, 'contracts.c')
        if not os.path.exists(cpath):
            continue
        if not re.search(r'//@check[^\n]*\bprops=[\w,]*\b' + re.escape(prop) + r'\b', open(cpath).read()):
            continue
        u = Unit(name, work)
        if any(prop in c.props for c in u.checks):
            units.append(u)
    if not units:
        raise Fault('no unit serves property %s' % prop)
    kfs = [k for k in load_kf() if k.get('property') == prop and k.get('status') == 'open']
    jobs = []
    for u in units:
        for c in u.checks:
            if prop not in c.props:
                continue
            if tier == 'quick' and c.tier != 'quick':
                continue
            if args.only and not re.search(args.only, c.id):
                continue
            kf = [k for k in kfs if k['unit'] == u.name and k['check'] == c.id]
            vs = c.variants(tier)
            if args.vary and vs != [None]:
                name, vals = args.vary.split(':')
                vs = [(name, x) for x in expand_range(vals)]
            for v in vs:
                if kf:
                    jobs.append((c, v, 'excl', kf[0]))
                    jobs.append((c, v, 'carve', kf[0]))
                else:
                    jobs.append((c, v, None, None))
    if not jobs:
        raise Fault('no checks selected for %s' % prop)
    random.Random(args.seed).shuffle(jobs)
    # scheduling only (no effect on verdicts): longest first, by the cost hint of the check and by the solver seconds of an
    # earlier run recorded in tools/timings.json (committed; regenerated by hand from the evidence files)
    try:
        timings = json.load(open(os.path.join(VERIF, 'tools', 'timings.json')))
    except Exception:
        timings = {}
    def _prio(j):
        c, v = j[0], j[1]
        name = '%s.%s%s' % (c.unit.name, c.id, '' if v is None else '[%s=%s]' % v)
        return -(int(c.kv.get('cost', '1')) * 100000 + timings.get(name, 30))
    jobs.sort(key=_prio)
    log('property %s tier %s: %d units, %d check runs, %d workers' % (prop, tier, len(units), len(jobs), args.jobs))
    with cf.ThreadPoolExecutor(max_workers=args.jobs) as ex:
        for f in [ex.submit(u.build) for u in units]:
            f.result()
    log('units extracted and translated in %.0fs: %s' % (time.time() - t0, ', '.join('%s(%d fns)' % (u.name, len(u.info['defined'])) for u in units)))
    # lemma files
    lemma_results = run_lemmas(units, prop)

    results = []
    faults = []

    def job(c, v, kfmode, kf):
        r = prepare(c, v, tier, work, kfmode, kf['carve_out'] if kf else None)
        r.kf = kf
        solve(c, r, tier)
        log('  %-46s %-9s %4d obligations, %d failed, %s %.0fs %s' % (r.name, r.status, len(r.obligations), len(r.failed()), r.backend, r.seconds, r.note))
        return r

    with cf.ThreadPoolExecutor(max_workers=args.jobs) as ex:
        futs = [ex.submit(job, *j) for j in jobs]
        for f in futs:
            try:
                results.append(f.result())
            except Fault as e:
                faults.append(str(e))
    violations = []; known = []; inconclusive = list(faults)
    for r in results:
        try:
            judge(r, prop, tier, work, outdir, violations, known, inconclusive)
        except Fault as e:
            inconclusive.append(str(e))
    for lr in lemma_results:
        if lr['result'] != 'unsat':
            inconclusive.append('lemma %s: %s says %s' % (lr['file'], lr['solver'], lr['result']))
    write_evidence(args, prop, tier, units, results, lemma_results, violations, known, inconclusive, time.time() - t0)
    for k in known:
        log('KNOWN-FINDING: property=%s %s' % (prop, k))
    for v in violations:
        log(v)
    if violations:
        return 1
    if inconclusive:
        for i in inconclusive:
            log('INCONCLUSIVE: ' + i)
        return 2
    nob = sum(len(r.obligations) for r in results if not r.bounded)
    nbd = sum(len(r.obligations) for r in results if r.bounded)
    log('OK property=%s tier=%s: %d obligations discharged (proof)%s over %d check runs in %.0fs' % (prop, tier, nob, (', %d more hold in bounded checks (not counted as proved)' % nbd) if nbd else '', len(results), time.time() - t0))
    return 0


def run_lemmas(units, prop):
    out = []
    seen = set()
    for u in units:
        for ent in u.cfg.get('lemmas', []):
            lf = ent if isinstance(ent, str) else ent['file']
            solvers = ['z3', 'cvc5'] if isinstance(ent, str) else ent.get('solvers', ['z3', 'cvc5'])
            if lf in seen:
                continue
            seen.add(lf)
            p = os.path.join(VERIF, lf)
            cmds = {'z3': ['z3', '-T:120', p], 'z3-new': ['z3-new', '-T:120', p], 'cvc5': ['cvc5', '--incremental', '--tlimit=120000', p]}
            for solver, cmd in [(sv, cmds[sv]) for sv in solvers]:
                rc, o, secs = run(cmd, timeout=150, mem=False)
                answers = [l.strip() for l in o.split('\n') if l.strip() in ('sat', 'unsat', 'unknown')]
                res = 'unsat' if answers and all(a == 'unsat' for a in answers) else ('sat' if 'sat' in answers else 'unknown')
                out.append(dict(file=lf, solver=solver, result=res, queries=len(answers), seconds=round(secs, 2)))
                log('  lemma %-40s %-5s %s (%d queries, %.1fs)' % (lf, solver, res, len(answers), secs))
    return out


def write_replay_file(outdir, r, prop, failed, wit, verdict, replay_out, extra=None):
    path = os.path.join(outdir, re.sub(r'[^\w.=-]', '_', r.name) + '.json')
    dm = demangle([r.check.fn])
    doc = dict(property=prop, unit=r.check.unit.name, check=r.check.id, variant=r.variant, function=dm[r.check.fn], mangled=r.check.fn,
               failed_obligations=[dict(id=n, description=r.obligations[n][1]) for n in failed], witness=wit, defs=r.defs,
               native_replay=verdict, native_replay_output=replay_out[-4000:] if replay_out else '',
               backend=r.backend, verifier_output='\n'.join(l for l in r.log.split('\n') if 'FAILURE' in l or 'VERIFICATION' in l)[:6000],
               rerun='python3 /verif/tools/driver.py --replay ' + path)
    if extra:
        doc.update(extra)
    json.dump(doc, open(path, 'w'), indent=1)
    return path


PROPERTY_LEVEL = re.compile(r'\.(postcondition|overflow|undefined-shift|division-by-zero|pointer_dereference|array_bounds|assertion|precondition)\.')


def judge(r, prop, tier, work, outdir, violations, known, inconclusive):
    chk = r.check
    if r.status == 'undecided':
        raise Fault('%s: no back end answered (%s)' % (r.name, r.note))
    failed = r.failed()
    if not failed and r.unknown():
        raise Fault('%s: %d obligations UNKNOWN without a failed one' % (r.name, len(r.unknown())))
    if not failed:
        census(r)
        if r.kfmode == 'carve':
            log('note: known finding %s/%s no longer fails on its carve-out (repaired?)' % (chk.unit.name, chk.id))
        return
    # ---- something failed
    if r.kfmode == 'carve':
        kf = r.kf
        verdict, out = native_replay(chk.unit, chk.id, r.defs, kf.get('witness', {}))
        if verdict == 'violated':
            known.append('%s/%s %s [witness %s reproduces on the real code; obligation %s fails on the carve-out only]' %
                         (chk.unit.name, chk.id, kf.get('what', ''), json.dumps(kf.get('witness', {}), sort_keys=True), failed[0]))
        else:
            inconclusive.append('%s: known finding fails under cbmc but its stored witness does not reproduce natively (%s)' % (r.name, verdict))
        return
    # failed obligations that cannot carry an input: try the degraded form first
    orig_failed = list(failed)
    structural = [n for n in failed if re.search(r'loop_invariant|loop_decreases|loop_assigns|\.assigns\.|unwind', n) or (r.replaced and '.precondition.' in n)]
    if structural and (r.loop_contracts or r.replaced):
        r2 = prepare(chk, r.variant, tier, work, r.kfmode, r.kf['carve_out'] if r.kf else None)
        r2.dir = r.dir + '_fallback'
        os.makedirs(r2.dir, exist_ok=True)
        shutil.copy(os.path.join(r.dir, 'check_sel.h'), r2.dir)
        r2.kf = r.kf
        uw = chk.kv.get('fallback_unwind', chk.kv.get('unwind', '34'))
        solve(chk, r2, tier, inline_all=True, loop_contracts=False, unwind_override=uw)
        if r2.status == 'ok' and not r2.failed():
            census(r2)
            r.degraded = 'modular proof failed at %s; callee bodies in line / loops unwound to %s: all obligations hold (bounded)' % (orig_failed[:3], uw)
            r.bounded = 'unwind %s' % uw
            r.obligations_modular = r.obligations
            r.obligations = r2.obligations
            r.mustfail = r2.mustfail
            log('note: %s degraded: %s' % (r.name, r.degraded))
            return
        if r2.status == 'ok':
            r2.fallback_of = orig_failed
            r = r2
            failed = r.failed()
    # counterexample + native replay
    first = None
    for n in failed:
        if n.startswith(chk.fn + '.postcondition.'):
            first = n
            break
    for n in failed:
        if first is None and PROPERTY_LEVEL.search(n) and not n.startswith('__CPROVER'):
            first = n
            break
    first = first or failed[0]
    wit, tout = trace_witness(r, first)
    verdict, rout = ('unavailable', 'no witness in trace')
    if wit:
        verdict, rout = native_replay(chk.unit, chk.id, r.defs, wit)
    if verdict == 'holds':
        p = write_replay_file(outdir, r, prop, failed, wit, verdict, rout, dict(note='counterexample does not reproduce on the real code: model/extraction disagreement'))
        inconclusive.append('%s: obligation %s fails but its counterexample does not reproduce natively (see %s)' % (r.name, first, p))
        return
    p = write_replay_file(outdir, r, prop, failed, wit or {}, verdict, rout)
    desc = r.obligations[first][1]
    line = 'VIOLATION property=%s replay=%s' % (prop, p)
    log('  failing obligation %s (%s) of %s; witness %s; native replay: %s' % (first, desc, demangle([chk.fn])[chk.fn], json.dumps(wit, sort_keys=True) if wit else None, verdict))
    if verdict != 'violated':
        line += ' no-failing-input-found'
    violations.append(line)


def scan_assumptions(units, results):
    out = []
    for u in units:
        for m in u.cfg.get('models', []):
            txt = open(os.path.join(VERIF, m)).read()
            n = len(re.findall(r'__CPROVER_assume', txt))
            ufs = sorted(set(re.findall(r'__CPROVER_uninterpreted_\w+', txt)))
            out.append('trusted model %s (%d __CPROVER_assume%s)' % (m, n, (', uninterpreted: ' + ','.join(ufs)) if ufs else ''))
        na = len(re.findall(r'__CPROVER_assume', u.contract_text))
        if na:
            out.append('%s: %d __CPROVER_assume in contracts.c (harness-level case splits / input shaping; each is a total case split or a stated restriction)' % (u.name, na))
        if u.cfg.get('mem2reg'):
            out.append('%s: IR passed through opt -passes=mem2reg before translation' % u.name)
        for a in u.cfg.get('assumptions', []):
            out.append('%s: %s' % (u.name, a))
    return sorted(set(out))


def write_evidence(args, prop, tier, units, results, lemmas, violations, known, inconclusive, wall):
    if args.no_evidence or args.only or args.unit or args.skip_unit or args.vary:
        return
    enforced = set((r.check.unit.name, r.check.fn) for r in results if r.status == 'ok')
    used = set()
    for r in results:
        for g in r.replaced:
            used.add((r.check.unit.name, g))
    assumed = sorted(used - enforced)
    allfn = sorted(set(f for _, f in enforced) | set(f for _, f in assumed))
    dm = demangle(allfn)
    nob = sum(len(r.obligations) for r in results)
    ndis = sum(1 for r in results if not r.bounded for n, (st, _) in r.obligations.items() if st == 'SUCCESS')
    nbounded = sum(len(r.obligations) for r in results if r.bounded)
    per = []
    for r in sorted(results, key=lambda r: r.name):
        per.append(dict(check=r.name, function=dm.get(r.check.fn, r.check.fn), status=r.status, backend=r.backend, seconds=round(r.seconds, 1),
                        obligations=len(r.obligations), failed=r.failed(), replaced_callees=[dm.get(g, g) for g in r.replaced],
                        loop_contracts=r.loop_contracts, unwind=r.check.get('unwind', tier), bounded=r.bounded, degraded=r.degraded,
                        vacuity_guards={n: st for n, (st, _) in r.mustfail.items()}))
    samples = []
    for r in sorted(results, key=lambda r: r.name)[:400]:
        post = [n for n in r.obligations if '.postcondition.' in n][:2]
        for n in post:
            samples.append(dict(check=r.name, obligation=n, text=r.obligations[n][1], status=r.obligations[n][0], backend=r.backend))
    samples = samples[:12]
    by_backend = {}
    for r in results:
        if r.backend:
            by_backend[r.backend] = by_backend.get(r.backend, 0) + len(r.obligations)
    ev = dict(
        property_id=prop, tier=tier, seed=args.seed, level='proof',
        coverage=dict(
            obligations=nob - nbounded, discharged=ndis,
            checker_cmd='clang++ -O0 -emit-llvm (real sources of the working tree) | tools/ll2c.py | goto-cc | goto-instrument --dfcc <harness> --enforce-contract <fn> [--replace-call-with-contract ..] [--apply-loop-contracts] | cbmc ' + ' '.join(CBMC_CHECKS) + ' [back end portfolio]',
            trusted_base=['clang 14 front end and -O0 lowering (code built by g++ 12 in the shipped library)', 'tools/ll2c.py IR->C printer (DESIGN 2.2)',
                          'cbmc 6.11.0 / goto-instrument dfcc', 'SAT/SMT back ends: ' + ', '.join(sorted(by_backend))] + scan_assumptions(units, results),
            functions_under_contract=sorted(set(dm[f] for _, f in enforced)),
            assumed_contracts_not_enforced_in_this_run=[dm[f] for _, f in assumed],
            obligations_by_backend=by_backend,
            bounded_obligations_not_counted=nbounded,
            bounded=[dict(check=r.name, bound=r.bounded, why=r.degraded) for r in results if r.bounded],
            check_runs=len(results), solver_seconds=round(sum(r.seconds for r in results), 1),
            lemmas=lemmas, per_check=per, samples=samples,
            known_findings=known, inconclusive=inconclusive,
        ),
        assumptions=scan_assumptions(units, results) + ['machine model of z_number: signed 128-bit integer with range obligations (|v| < 2^100); inputs bounded by each contract; larger magnitudes are assumed to behave alike'
                                                        if any('zmodel' in m for u in units for m in u.cfg.get('models', [])) else 'no big-number model in this property'],
        wall_s=round(wall, 1), violations=len(violations))
    os.makedirs(os.path.join(VERIF, 'evidence'), exist_ok=True)
    json.dump(ev, open(os.path.join(VERIF, 'evidence', prop + '.json'), 'w'), indent=1)


def do_replay_file(path):
    doc = json.load(open(path))
    work = tempfile.mkdtemp(prefix='crabreplay_', dir=os.environ.get('VERIF_TMP', '/var/tmp'))
    try:
        u = Unit(doc['unit'], work)
        u.build()  # unit_types.h is needed by the replay driver
        verdict, out = native_replay(u, doc['check'], doc.get('defs', []), doc.get('witness', {}))
        print(out)
        print('native replay: %s' % verdict)
        return 1 if verdict == 'violated' else (0 if verdict == 'holds' else 2)
    finally:
        shutil.rmtree(work, ignore_errors=True)


def main():
    ap = argparse.ArgumentParser()
    ap.add_argument('--property')
    ap.add_argument('--tier', default=os.environ.get('VERIF_TIER') or 'quick')
    ap.add_argument('--only')
    ap.add_argument('--unit')
    ap.add_argument('--skip-unit')
    ap.add_argument('--vary', help='override the vary= list of the selected checks, e.g. DCASE:5 (debugging)')
    ap.add_argument('--jobs', type=int, default=int(os.environ.get('VERIF_JOBS', '16')))
    ap.add_argument('--keep', action='store_true')
    ap.add_argument('--replay')
    ap.add_argument('--no-evidence', action='store_true')
    args = ap.parse_args()
    args.seed = int(os.environ.get('VERIF_SEED', '0') or 0)
    if args.replay:
        sys.exit(do_replay_file(args.replay))
    if not args.property:
        ap.error('--property required')
    sys.exit(run_property(args))


if __name__ == '__main__':
    main()
