#!/usr/bin/env python3
"""Prototype: LLVM-14 textual IR (clang -O0, typed pointers) -> C for CBMC.
Throw-away feasibility probe."""
import re, sys

class Err(Exception): pass

# ---------------------------------------------------------------- lexer
TOK = re.compile(r'''\s*(
   %"(?:[^"\\]|\\.)*"(?:\.\d+)?      # quoted local / type
 | @"(?:[^"\\]|\\.)*"
 | c"(?:[^"\\]|\\.)*"
 | "(?:[^"\\]|\\.)*"
 | [%@$][-a-zA-Z$._0-9]+
 | \.\.\.
 | <\{ | \}>
 | [-+]?\d+\.\d+(?:e[-+]?\d+)? | 0x[0-9A-Fa-f]+
 | -?\d+
 | [a-zA-Z_][a-zA-Z_0-9.]*
 | [(){}\[\]<>,=*!:#]
 )''', re.X)

def lex(s):
    out = []; i = 0; n = len(s)
    while i < n:
        if s[i] == ';' : break
        m = TOK.match(s, i)
        if not m:
            if s[i:].strip() == '': break
            raise Err('lex: ' + s[i:i+40])
        out.append(m.group(1)); i = m.end()
    return out

# ---------------------------------------------------------------- types
class T:
    def __init__(s, k, **kw): s.k = k; s.__dict__.update(kw)
    def __repr__(s): return tstr(s)
def tstr(t):
    if t.k == 'int': return 'i%d' % t.w
    if t.k == 'ptr': return tstr(t.to) + '*'
    if t.k == 'named': return t.name
    if t.k == 'void': return 'void'
    if t.k == 'arr': return '[%d x %s]' % (t.n, tstr(t.el))
    if t.k == 'struct': return '{' + ','.join(map(tstr, t.fs)) + '}'
    if t.k == 'fn': return tstr(t.ret) + '(' + ','.join(map(tstr, t.ps)) + (',...' if t.va else '') + ')'
    return t.k

class P:
    """token stream parser"""
    def __init__(s, toks): s.t = toks; s.i = 0
    def peek(s, k=0): return s.t[s.i+k] if s.i+k < len(s.t) else None
    def next(s): x = s.t[s.i]; s.i += 1; return x
    def eat(s, x):
        if s.peek() == x: s.i += 1; return True
        return False
    def expect(s, x):
        if s.next() != x: raise Err('expected %s got %s in %s' % (x, s.t[s.i-1], ' '.join(s.t[max(0,s.i-8):s.i+5])))
    def done(s): return s.i >= len(s.t)

    def type(s):
        t = s.t0()
        while True:
            if s.peek() == '*': s.next(); t = T('ptr', to=t)
            elif s.peek() == '(' and s.is_fn_suffix():
                s.next(); ps = []; va = False
                while not s.eat(')'):
                    if s.eat('...'): va = True
                    else:
                        ps.append(s.type())
                    s.eat(',')
                t = T('fn', ret=t, ps=ps, va=va)
            else: return t
    def is_fn_suffix(s):
        # '(' following a type begins a function type only in type context; caller guarantees
        return True
    def t0(s):
        x = s.next()
        if re.fullmatch(r'i\d+', x): return T('int', w=int(x[1:]))
        if x == 'void': return T('void')
        if x in ('float', 'double', 'x86_fp80', 'half'): return T('fp', name=x)
        if x == 'metadata': return T('fp', name='metadata')
        if x == 'opaque': return T('opaque')
        if x == 'ptr': return T('ptr', to=T('int', w=8))
        if x[0] == '%': return T('named', name=x)
        if x == '[':
            n = int(s.next()); s.expect('x'); el = s.type(); s.expect(']')
            return T('arr', n=n, el=el)
        if x == '{' or x == '<{':
            packed = x == '<{'; fs = []
            end = '}>' if packed else '}'
            while not s.eat(end):
                fs.append(s.type()); s.eat(',')
            return T('struct', fs=fs, packed=packed)
        if x == '<':
            n = int(s.next()); s.expect('x'); el = s.type(); s.expect('>')
            return T('vec', n=n, el=el)
        raise Err('type? ' + x)

PATTRS = {'noundef','nonnull','noalias','nocapture','readonly','readnone','writeonly','zeroext','signext','inreg','returned','nofree','immarg','nest','swiftself'}
def skip_pattrs(p):
    """skip parameter attributes; return dict with sret/byval"""
    info = {}
    while True:
        x = p.peek()
        if x in PATTRS: p.next()
        elif x in ('align',): p.next(); p.next()
        elif x in ('dereferenceable', 'dereferenceable_or_null'): p.next(); p.expect('('); p.next(); p.expect(')')
        elif x in ('sret', 'byval', 'byref', 'preallocated', 'inalloca', 'elementtype'):
            p.next(); p.expect('('); info[x] = p.type(); p.expect(')')
        else: return info

# ---------------------------------------------------------------- module
class Mod:
    def __init__(s):
        s.types = {}; s.globals = {}; s.decls = {}; s.funcs = {}; s.order = []

def cname(n):
    """LLVM identifier -> C identifier"""
    n = n[1:]
    if n.startswith('"'): n = n[1:-1] if n.endswith('"') else n[1:].replace('"','')
    return re.sub(r'[^A-Za-z0-9_]', lambda m: '_%02x' % ord(m.group(0)) if m.group(0) not in '.:< >,' else '_', n)

class Emit:
    def __init__(s, mod, overrides):
        s.m = mod; s.ov = overrides; s.arrs = {}; s.anon = {}; s.fnptrs = {}; s.pre = []
    def ct(s, t):
        k = t.k
        if k == 'int':
            if t.w == 1: return 'unsigned char'
            if t.w in (8,16,32,64): return 'uint%d_t' % t.w
            if t.w == 128: return 'unsigned __int128'
            # odd widths (i24, i48 ...: small structs returned in registers): next power-of-two carrier,
            # loads/stores move exactly ceil(w/8) bytes
            for cw in (8, 16, 32, 64):
                if t.w < cw: return 'uint%d_t' % cw
            if t.w < 128: return 'unsigned __int128'
            raise Err('int width %d' % t.w)
        if k == 'void': return 'void'
        if k == 'fp': return 'float' if t.name == 'float' else 'double'
        if k == 'named':
            return 'struct ' + s.sname(t.name)
        if k == 'ptr':
            if t.to.k == 'fn': return s.fnptr(t.to)
            if t.to.k == 'void': return 'void*'
            return s.ct(t.to) + '*'
        if k == 'arr':
            key = tstr(t)
            if key not in s.arrs:
                import hashlib
                nm = 'arr_' + hashlib.md5(key.encode()).hexdigest()[:10]
                s.arrs[key] = nm
                if t.n == 1:
                    # length-1 arrays (mpz_t, mpq_t ...) become a plain member `a`: CBMC 6.11 mis-simplifies reads through a
                    # length-1 array member behind a pointer to a symbolically indexed element (units/dis_interval/cbmc_simplifier_bug.c)
                    s.pre.append('struct %s { %s a; };' % (nm, s.ct(t.el)))
                else:
                    s.pre.append('struct %s { %s a[%d]; };' % (nm, s.ct(t.el), max(t.n,1)))
            return 'struct ' + s.arrs[key]
        if k == 'struct':
            key = tstr(t)
            if key not in s.anon:
                import hashlib
                nm = 'anon_' + hashlib.md5(key.encode()).hexdigest()[:10]
                s.anon[key] = nm
                s.pre.append('struct %s { %s };' % (nm, ' '.join('%s f%d;' % (s.ct(f), i) for i, f in enumerate(t.fs)) or 'char dummy;'))
            return 'struct ' + s.anon[key]
        if k == 'fn': return s.fnptr(t)[:-0]
        raise Err('ct ' + k)
    def fnptr(s, t):
        key = tstr(t)
        if key not in s.fnptrs:
            import hashlib
            nm = 'fnp_' + hashlib.md5(key.encode()).hexdigest()[:10]
            s.fnptrs[key] = nm
            ps = ', '.join(s.ct(p) for p in t.ps) or 'void'
            if t.va: ps = (ps + ', ...') if t.ps else ''
            s.pre.append('typedef %s (*%s)(%s);' % (s.ct(t.ret), nm, ps))
        return s.fnptrs[key]
    def sname(s, n): return 'S_' + cname(n)

def parse_module(text):
    m = Mod(); lines = text.split('\n'); i = 0
    while i < len(lines):
        ln = lines[i]; i += 1
        if not ln.strip() or ln.startswith(';') or ln.startswith('source_filename') or ln.startswith('target ') or ln.startswith('attributes ') or ln.startswith('!') or ln.startswith('$'):
            continue
        if ln.startswith('%') and ' = type ' in ln:
            toks = lex(ln); p = P(toks); name = p.next(); p.expect('='); p.expect('type')
            m.types[name] = p.type(); continue
        if ln.startswith('@'):
            m.globals[lex(ln)[0]] = ln; continue
        if ln.startswith('declare') and '@llvm.' in ln: continue
        if ln.startswith('declare'):
            p = P(lex(ln)); p.next(); f = parse_proto(p); m.decls[f['name']] = f; continue
        if ln.startswith('define'):
            p = P(lex(ln)); p.next(); f = parse_proto(p); body = []
            while lines[i] != '}':
                body.append(lines[i]); i += 1
            i += 1
            f['body'] = body; m.funcs[f['name']] = f; m.order.append(f['name']); continue
        raise Err('toplevel? ' + ln[:80])
    return m

LINK = {'private','internal','available_externally','linkonce','weak','common','appending','extern_weak','linkonce_odr','weak_odr','external','dso_local','dso_preemptable','hidden','protected','default','unnamed_addr','local_unnamed_addr','fastcc','ccc','coldcc'}
def parse_proto(p):
    while p.peek() in LINK: p.next()
    skip_pattrs(p)
    ret = p.t0()
    while p.peek() == '*': p.next(); ret = T('ptr', to=ret)
    # function-pointer return types are rare; ignore
    name = p.next()
    assert name[0] == '@', name
    p.expect('(')
    ps = []; va = False
    while not p.eat(')'):
        if p.eat('...'): va = True; continue
        t = p.type(); info = skip_pattrs(p)
        nm = None
        if p.peek() and p.peek()[0] == '%': nm = p.next()
        ps.append((t, nm, info)); p.eat(',')
    return dict(name=name, ret=ret, ps=ps, va=va)

# ---------------------------------------------------------------- function bodies
class FnEmit:
    def __init__(s, E, f):
        s.E = E; s.f = f; s.vt = {}; s.out = []; s.decl = []; s.tmp = 0
    def val(s, p, t):
        """parse an operand of known type t; return C expr"""
        x = p.next()
        if x[0] == '%':
            return 'r_' + cname(x)
        if x[0] == '@':
            g = cname(x)
            if x in s.E.m.funcs or x in s.E.m.decls or ' alias ' in s.E.m.globals.get(x, ''): return g
            return '(&%s)' % g
        if x in ('null',): return '((%s)0)' % s.E.ct(t)
        if x in ('true',): return '1'
        if x in ('false',): return '0'
        if x in ('undef', 'poison', 'zeroinitializer'):
            if t.k in ('int',): return '0'
            if t.k == 'ptr': return '((%s)0)' % s.E.ct(t)
            return '(%s){0}' % s.E.ct(t)
        if re.fullmatch(r'[-+]?\d+\.\d+(e[-+]?\d+)?', x): return x
        if re.fullmatch(r'-?\d+', x):
            v = int(x)
            if t.k == 'int':
                v &= (1 << t.w) - 1
                if t.w <= 64: return '((%s)%dULL)' % (s.E.ct(t), v)
                return '(((unsigned __int128)%dULL << 64) | %dULL)' % (v >> 64, v & (2**64-1))
            raise Err('int const of type ' + tstr(t))
        if x in ('getelementptr', 'bitcast', 'inttoptr', 'ptrtoint'):
            return s.constexpr(p, x)
        if x in ('{', '[', '<{'):
            end = {'{':'}','[':']','<{':'}>'}[x]; items = []
            while not p.eat(end):
                it = p.type(); items.append(s.val(p, it)); p.eat(',')
            inner = ', '.join(items)
            if x == '[' and not (t.k == 'arr' and t.n == 1): inner = '{' + inner + '}'
            return '{' + inner + '}'
        raise Err('val? %s' % x)
    def constexpr(s, p, op):
        if op == 'getelementptr':
            p.eat('inbounds'); p.expect('(')
            bt = p.type(); p.expect(','); pt = p.type(); base = s.val(p, pt)
            idx = []; its = []
            while p.eat(','):
                p.eat('inrange'); it = p.type(); idx.append(s.val(p, it)); its.append(it)
            p.expect(')')
            return s.gep(bt, base, idx, its)[0]
        if op in ('bitcast', 'inttoptr', 'ptrtoint'):
            p.expect('('); ft = p.type(); v = s.val(p, ft); p.expect('to'); tt = p.type(); p.expect(')')
            return '((%s)%s)' % (s.E.ct(tt), v)
    def resolve(s, t):
        while t.k == 'named': t = s.E.m.types[t.name]
        return t
    def sidx(s, ix, it):
        """GEP indices are SIGNED (LLVM sign-extends them to pointer width)"""
        m = re.fullmatch(r'\(\(uint(\d+)_t\)(\d+)ULL\)', ix)
        if m:
            w = int(m.group(1)); v = int(m.group(2))
            if v >= (1 << (w - 1)): v -= (1 << w)
            return '((int64_t)%dLL)' % v if v != -(1 << 63) else '((int64_t)(-9223372036854775807LL-1))'
        if it is not None and it.k == 'int' and it.w in (8, 16, 32, 64):
            return '((int64_t)%s)' % s.sx(it, ix)
        return ix
    def gep(s, bt, base, idx, its=None):
        its = its or [None] * len(idx)
        e = '%s[%s]' % (base, s.sidx(idx[0], its[0])) if idx[0] not in ('((uint32_t)0ULL)', '((uint64_t)0ULL)') else '(*%s)' % base
        t = bt
        for ix, it in zip(idx[1:], its[1:]):
            rt = s.resolve(t)
            if rt.k == 'struct':
                m = re.fullmatch(r'\(\(uint\d+_t\)(\d+)ULL\)', ix)
                n = int(m.group(1)); e = '%s.f%d' % (e, n); t = rt.fs[n]
            elif rt.k == 'arr':
                if rt.n == 1:
                    six = s.sidx(ix, it)
                    e = ('%s.a' % e) if six == '((int64_t)0LL)' else ('(&%s.a)[%s]' % (e, six))
                else:
                    e = '%s.a[%s]' % (e, s.sidx(ix, it))
                t = rt.el
            else: raise Err('gep into ' + tstr(rt))
        return '(&%s)' % e, t
    def setreg(s, name, t, expr):
        r = 'r_' + cname(name)
        s.decl.append('%s %s;' % (s.E.ct(t), r))
        s.vt[name] = t
        s.out.append('  %s = %s;' % (r, expr))
    def sx(s, t, e):
        """reinterpret unsigned C expr e of int type t as signed"""
        st = {1:'signed char',8:'int8_t',16:'int16_t',32:'int32_t',64:'int64_t',128:'__int128'}[t.w]
        if t.w == 1: return '((signed char)-(signed char)(%s & 1))' % e
        return '((%s)%s)' % (st, e)
    def run(s):
        E = s.E; f = s.f
        phis = {}  # block -> list of (reg, type, [(val,pred)])
        cur = '%entry0'
        blocks = []; curlines = []
        # first pass: split blocks
        first = True
        for ln in f['body']:
            m = re.match(r'^([-a-zA-Z$._0-9]+|"[^"]*"):', ln)
            if m:
                blocks.append((cur, curlines)); cur = '%' + m.group(1); curlines = []
            elif ln.strip():
                if curlines and curlines[-1].lstrip().startswith('switch ') and not curlines[-1].rstrip().endswith(']'):
                    curlines[-1] += ' ' + ln.strip()
                else: curlines.append(ln)
        blocks.append((cur, curlines))
        # the entry block's implicit label: number = count of unnamed params
        nparams = sum(1 for (_, nm, _) in f['ps'] if nm and re.fullmatch(r'%\d+', nm))
        entry_label = '%' + str(nparams)
        blocks[0] = (entry_label, blocks[0][1])
        # pre-scan phis
        for lab, lines in blocks:
            for ln in lines:
                if ' = phi ' in ln:
                    p = P(lex(ln)); reg = p.next(); p.expect('='); p.expect('phi'); t = p.type()
                    inc = []
                    while True:
                        p.expect('['); v = s.val(p, t); p.expect(','); pred = p.next(); p.expect(']')
                        inc.append((v, pred))
                        if not p.eat(','): break
                    phis.setdefault(lab, []).append((reg, t, inc))
        s.phis = phis
        idx = {lab: i for i, (lab, _) in enumerate(blocks)}
        loops = {}   # header index -> last latch index
        for i, (lab, lines) in enumerate(blocks):
            for ln in lines:
                if ln.lstrip().startswith(('br ', 'switch ')):
                    for t in re.findall(r'label (%[-a-zA-Z$._0-9]+|%"[^"]*")', ln):
                        if t in idx and idx[t] <= i:
                            loops[idx[t]] = max(loops.get(idx[t], 0), i)
        s.loopstack = []
        fname = cname(f['name'])
        def loop_temps(i0, i1):
            ts = set()
            for (lab2, lines2) in blocks[i0:i1+1]:
                for ln2 in lines2:
                    mm = re.match(r'^\s*(%[-a-zA-Z$._0-9]+|%"[^"]*") = (\w+)', ln2)
                    if mm and mm.group(2) != 'alloca':
                        ts.add('r_' + cname(mm.group(1)))
                        if mm.group(2) == 'phi': ts.add('phi_' + cname(mm.group(1)))
                for reg, t, inc in phis.get(lab2, []): ts.add('phi_' + cname(reg))
            return ts
        for i, (lab, lines) in enumerate(blocks):
            s.out.append('L_%s: ;' % cname(lab))
            if i in loops:
                LOOPS_SEEN.append((fname, cname(lab)))
                s.out.append('  while (1) %s {' % loop_annot(fname, cname(lab), loop_temps(i, loops[i])))
                s.loopstack.append((lab, loops[i]))
            s.cur = lab
            for ln in lines:
                s.inst(ln)
            while s.loopstack and s.loopstack[-1][1] == i:
                s.loopstack.pop(); s.out.append('  }')
        return s
    def phi_copies(s, target):
        out = []
        for reg, t, inc in s.phis.get(target, []):
            for v, pred in inc:
                if pred == s.cur:
                    out.append('phi_%s = %s;' % (cname(reg), v))
        return ' '.join(out)
    def goto(s, target):
        if getattr(s, 'loopstack', None) and s.loopstack[-1][0] == target:
            return '{ %s continue; }' % s.phi_copies(target)
        return '{ %s goto L_%s; }' % (s.phi_copies(target), cname(target))
    def inst(s, ln):
        E = s.E
        if '@llvm.experimental.noalias.scope.decl' in ln or '@llvm.dbg.' in ln or '@llvm.lifetime.' in ln: return
        p = P(lex(ln))
        reg = None
        if p.peek(1) == '=': reg = p.next(); p.next()
        op = p.next()
        if op in ('tail', 'musttail', 'notail'): op = p.next()
        if op == 'alloca':
            t = p.type()
            n = None
            if p.eat(','):
                if p.peek() != 'align': it = p.type(); n = s.val(p, it)
            if n: raise Err('dynamic alloca')
            r = 'r_' + cname(reg)
            s.decl.append('%s %s_mem; %s* %s;' % (E.ct(t), r, E.ct(t), r))
            s.vt[reg] = T('ptr', to=t)
            s.out.append('  %s = &%s_mem;' % (r, r))
        elif op == 'fence':
            pass
        elif op == 'atomicrmw':
            p.eat('volatile'); aop = p.next(); pt = p.type(); a = s.val(p, pt); p.expect(','); t = p.type(); v = s.val(p, t)
            s.setreg(reg, t, '*%s' % a)
            co = {'add':'+','sub':'-','and':'&','or':'|','xor':'^'}
            if aop == 'xchg': s.out.append('  *%s = %s;' % (a, v))
            else: s.out.append('  *%s = (%s)(*%s %s %s);' % (a, s.E.ct(t), a, co[aop], v))
        elif op == 'load':
            p.eat('atomic'); p.eat('volatile'); t = p.type(); p.expect(','); pt = p.type(); a = s.val(p, pt)
            if t.k == 'int' and t.w not in (1,8,16,32,64,128):
                s.setreg(reg, t, '0'); s.out.append('  memcpy(&r_%s, %s, %d);' % (cname(reg), a, (t.w + 7) // 8))
            else:
                s.setreg(reg, t, '*%s' % a)
        elif op == 'store':
            p.eat('atomic'); p.eat('volatile'); t = p.type(); v = s.val(p, t); p.expect(','); pt = p.type(); a = s.val(p, pt)
            if t.k == 'int' and t.w not in (1,8,16,32,64,128):
                s.tmp += 1
                s.decl.append('%s st_tmp%d;' % (E.ct(t), s.tmp))
                s.out.append('  st_tmp%d = %s; memcpy(%s, &st_tmp%d, %d);' % (s.tmp, v, a, s.tmp, (t.w + 7) // 8))
            else:
                s.out.append('  *%s = %s;' % (a, v))
        elif op == 'getelementptr':
            p.eat('inbounds'); bt = p.type(); p.expect(','); pt = p.type(); base = s.val(p, pt)
            idx = []; its = []
            while p.eat(','):
                it = p.type(); idx.append(s.val(p, it)); its.append(it)
            e, t = s.gep(bt, base, idx, its)
            s.setreg(reg, T('ptr', to=t), e)
        elif op in ('bitcast', 'inttoptr', 'ptrtoint', 'trunc', 'zext', 'sext', 'addrspacecast'):
            ft = p.type(); v = s.val(p, ft); p.expect('to'); tt = p.type()
            if op == 'sext': e = '((%s)%s)' % (E.ct(tt), s.sx(ft, v))
            elif op == 'trunc' and tt.w == 1: e = '(%s & 1)' % v
            elif op == 'trunc' and tt.w not in (8,16,32,64,128): e = '((%s)(%s & %dULL))' % (E.ct(tt), v, (1 << tt.w) - 1)
            else: e = '((%s)%s)' % (E.ct(tt), v)
            s.setreg(reg, tt, e)
        elif op in ('add','sub','mul','udiv','sdiv','urem','srem','and','or','xor','shl','lshr','ashr'):
            flags = set()
            while p.peek() in ('nsw','nuw','exact'): flags.add(p.next())
            t = p.type(); a = s.val(p, t); p.expect(','); b = s.val(p, t)
            co = {'add':'+','sub':'-','mul':'*','udiv':'/','urem':'%','and':'&','or':'|','xor':'^','shl':'<<','lshr':'>>'}
            ct = E.ct(t)
            if op in ('sdiv','srem'):
                e = '((%s)(%s %s %s))' % (ct, s.sx(t,a), '/' if op=='sdiv' else '%', s.sx(t,b))
            elif op == 'ashr':
                e = '((%s)(%s >> %s))' % (ct, s.sx(t,a), b)
            elif 'nsw' in flags and op in ('add','sub','mul'):
                # signed arithmetic whose overflow is UB in the source: keep it signed so CBMC's
                # --signed-overflow-check sees it
                e = '((%s)(%s %s %s))' % (ct, s.sx(t,a), co[op], s.sx(t,b))
            else:
                e = '((%s)(%s %s %s))' % (ct, a, co[op], b)
            s.setreg(reg, t, e)
        elif op in ('sitofp', 'uitofp', 'fptosi', 'fptoui', 'fpext', 'fptrunc'):
            ft = p.type(); v = s.val(p, ft); p.expect('to'); tt = p.type()
            if op == 'sitofp': v = s.sx(ft, v)
            if op == 'fptosi':
                st = {8:'int8_t',16:'int16_t',32:'int32_t',64:'int64_t'}[tt.w]
                s.setreg(reg, tt, '((%s)(%s)%s)' % (E.ct(tt), st, v))
            else: s.setreg(reg, tt, '((%s)%s)' % (E.ct(tt), v))
        elif op in ('fadd', 'fsub', 'fmul', 'fdiv'):
            while p.peek() in ('fast','nnan','ninf','nsz','arcp','contract','afn','reassoc'): p.next()
            t = p.type(); a = s.val(p, t); p.expect(','); b = s.val(p, t)
            s.setreg(reg, t, '(%s %s %s)' % (a, {'fadd':'+','fsub':'-','fmul':'*','fdiv':'/'}[op], b))
        elif op == 'fneg':
            t = p.type(); a = s.val(p, t); s.setreg(reg, t, '(-%s)' % a)
        elif op == 'fcmp':
            while p.peek() in ('fast','nnan','ninf','nsz','arcp','contract','afn','reassoc'): p.next()
            cc = p.next(); t = p.type(); a = s.val(p, t); p.expect(','); b = s.val(p, t)
            co = {'oeq':'==','one':'!=','ogt':'>','oge':'>=','olt':'<','ole':'<=','ueq':'==','une':'!=','ugt':'>','uge':'>=','ult':'<','ule':'<='}.get(cc)
            if co is None: raise Err('fcmp ' + cc)
            s.setreg(reg, T('int', w=1), '(%s %s %s)' % (a, co, b))
        elif op == 'icmp':
            cc = p.next(); t = p.type(); a = s.val(p, t); p.expect(','); b = s.val(p, t)
            co = {'eq':'==','ne':'!=','ugt':'>','uge':'>=','ult':'<','ule':'<=','sgt':'>','sge':'>=','slt':'<','sle':'<='}[cc]
            if cc[0] == 's': a, b = s.sx(t,a), s.sx(t,b)
            s.setreg(reg, T('int', w=1), '(%s %s %s)' % (a, co, b))
        elif op == 'select':
            ct_ = p.type(); c = s.val(p, ct_); p.expect(','); t = p.type(); a = s.val(p, t); p.expect(','); t2 = p.type(); b = s.val(p, t2)
            s.setreg(reg, t, '(%s ? %s : %s)' % (c, a, b))
        elif op == 'phi':
            t = p.type()
            s.decl.append('%s phi_%s;' % (E.ct(t), cname(reg)))
            s.setreg(reg, t, 'phi_%s' % cname(reg))
        elif op == 'br':
            if p.peek() == 'label':
                p.next(); s.out.append('  ' + s.goto(p.next()))
            else:
                t = p.type(); c = s.val(p, t); p.expect(','); p.expect('label'); a = p.next(); p.expect(','); p.expect('label'); b = p.next()
                s.out.append('  if (%s) %s else %s' % (c, s.goto(a), s.goto(b)))
        elif op == 'switch':
            t = p.type(); v = s.val(p, t); p.expect(','); p.expect('label'); d = p.next(); p.expect('[')
            cases = []
            while not p.eat(']'):
                ct_ = p.type(); cv = s.val(p, ct_); p.expect(','); p.expect('label'); cases.append((cv, p.next()))
            for cv, l in cases:
                s.out.append('  if (%s == %s) %s' % (v, cv, s.goto(l)))
            s.out.append('  ' + s.goto(d))
        elif op == 'ret':
            t = p.type()
            if t.k == 'void': s.out.append('  return;')
            else: s.out.append('  return %s;' % s.val(p, t))
        elif op == 'unreachable':
            s.out.append('  __CPROVER_assume(0);')
        elif op == 'call':
            while p.peek() in LINK: p.next()
            skip_pattrs(p)
            rt = p.type()   # may be a full function type for varargs
            if rt.k == 'fn': rt = rt.ret
            elif rt.k == 'ptr' and rt.to.k == 'fn' and p.peek() and p.peek()[0] in '%@' and p.peek(1) == '(' and False: pass
            callee = p.next()
            p.expect('(')
            args = []
            while not p.eat(')'):
                t = p.type(); info = skip_pattrs(p); v = s.val(p, t)
                args.append(v); p.eat(',')
            if callee[0] == '@':
                cn = cname(callee)
                if callee.startswith('@llvm.memcpy') or callee.startswith('@llvm.memmove'):
                    e = 'memcpy(%s, %s, %s)' % (args[0], args[1], args[2])
                elif callee.startswith('@llvm.memset'):
                    e = 'memset(%s, %s, %s)' % (args[0], args[1], args[2])
                elif callee.startswith('@llvm.is.constant'):
                    e = '0'
                elif callee.startswith('@llvm.trap'):
                    e = '__CPROVER_assume(0)'
                elif callee.startswith('@llvm.'):
                    raise Err('intrinsic ' + callee)
                else: e = '%s(%s)' % (cn, ', '.join(args))
            else:
                e = '%s(%s)' % ('r_' + cname(callee), ', '.join(args))
            if reg and rt.k != 'void': s.setreg(reg, rt, e)
            else: s.out.append('  %s;' % e)
        elif op == 'extractvalue':
            t = p.type(); v = s.val(p, t); e = v
            rt = t
            while p.eat(','):
                n = int(p.next()); r = s.resolve(rt)
                if r.k == 'struct': e += '.f%d' % n; rt = r.fs[n]
                else: e += ('.a' if r.n == 1 else '.a[%d]' % n); rt = r.el
            s.setreg(reg, rt, e)
        elif op == 'insertvalue':
            t = p.type(); v = s.val(p, t); p.expect(','); et = p.type(); ev = s.val(p, et)
            path = ''
            rt = t
            while p.eat(','):
                n = int(p.next()); r = s.resolve(rt)
                if r.k == 'struct': path += '.f%d' % n; rt = r.fs[n]
                else: path += ('.a' if r.n == 1 else '.a[%d]' % n); rt = r.el
            s.setreg(reg, t, v)
            s.out.append('  r_%s%s = %s;' % (cname(reg), path, ev))
        else:
            raise Err('inst? ' + ln.strip()[:100])

def proto_c(E, f, names=True):
    ps = []
    for i, (t, nm, info) in enumerate(f['ps']):
        ps.append(E.ct(t) + ((' r_' + cname(nm)) if (names and nm) else ''))
    if f['va']: ps.append('...')
    return '%s %s(%s)' % (E.ct(f['ret']), cname(f['name']), ', '.join(ps) or 'void')

LOOPSPEC = {}
def loop_annot(fname, lab, temps):
    """CBMC loop-contract clauses for loop `lab` of function `fname` (both C names), or ''.
    Table entry: {"assigns": [lvalues written by the author over source variables],
                  "invariant": "C expr" | [..], "decreases": "C expr"}.
    The SSA temporaries assigned inside the loop are appended to the assigns clause mechanically."""
    ent = LOOPSPEC.get(fname, {}).get(lab)
    if ent is None: return ''
    ent['_used'] = True
    asg = list(ent.get('assigns', [])) + sorted(temps)
    inv = ent.get('invariant', [])
    if isinstance(inv, str): inv = [inv]
    out = ' __CPROVER_assigns(%s)' % ', '.join(asg)
    for v in inv: out += ' __CPROVER_loop_invariant(%s)' % v
    if ent.get('decreases'): out += ' __CPROVER_decreases(%s)' % ent['decreases']
    return out

def main():
    import json, os, argparse
    global LOOPSPEC
    ap = argparse.ArgumentParser()
    ap.add_argument('ll'); ap.add_argument('--out', required=True); ap.add_argument('--types', required=True)
    ap.add_argument('--loops'); ap.add_argument('--override'); ap.add_argument('--info')
    ap.add_argument('--drop', default='', help='comma separated list of C function names whose bodies are dropped (become declarations)')
    a = ap.parse_args()
    if a.loops and os.path.exists(a.loops): LOOPSPEC = json.load(open(a.loops))
    src = open(a.ll).read()
    m = parse_module(src)
    ovr = json.load(open(a.override)) if a.override and os.path.exists(a.override) else {}
    for tn, tdef in ovr.get('types', {}).items():
        if tn in m.types: m.types[tn] = P(lex(tdef)).type()
    dropset = set(x for x in a.drop.split(',') if x) | set(ovr.get('drop', []))
    E = Emit(m, {})
    done = set(); sdefs = []
    def need(t, byval=True):
        if t.k == 'named':
            if byval: define(t.name)
        elif t.k == 'arr': need(t.el)
        elif t.k == 'struct':
            for f in t.fs: need(f)
        elif t.k == 'ptr': pass
    def define(n):
        if n in done: return
        done.add(n)
        t = m.types[n]
        if t.k == 'opaque': return
        for f in t.fs: need(f)
        fields = ' '.join('%s f%d;' % (E.ct(f), i) for i, f in enumerate(t.fs)) or 'char dummy;'
        sdefs.append(('PRE', len(E.pre), 'struct %s { %s }%s;' % (E.sname(n), fields, ' __attribute__((packed))' if t.packed else '')))
    fwd = ['struct %s;' % E.sname(n) for n in m.types]
    for n in m.types: define(n)
    fns = []; skipped = []; defined = []; dropped = []
    for name in m.order:
        f = m.funcs[name]
        if cname(name) in dropset:
            dropped.append(cname(name)); m.decls[name] = f; continue
        try:
            fe = FnEmit(E, f).run()
            fns.append('%s {\n%s\n%s\n}\n' % (proto_c(E, f), '\n'.join('  ' + d for d in fe.decl), '\n'.join(fe.out)))
            defined.append(cname(name))
        except Err as e:
            skipped.append((name, str(e)))
            m.decls[name] = f
    seen = set(); protos = []
    for f in list(m.decls.values()) + [m.funcs[n] for n in m.order]:
        if f['name'] in seen: continue
        seen.add(f['name']); protos.append(proto_c(E, f, False) + ';')
    gl = []
    for g, ln in m.globals.items():
        mm = re.match(r'^(\S+) = .*?(global|constant) (.*)$', ln)
        if not mm: continue
        p = P(lex(mm.group(3)))
        try:
            t = p.type()
        except Err: continue
        init = p.peek()
        st = 'static ' if re.search(r'= (private|internal) ', ln) else ''
        if mm.group(2) == 'constant': st += 'const '   # dfcc havocs non-const statics (v-tables, literals)
        ext = re.search(r'= external ', ln) is not None
        if init and init.startswith('c"'):
            raw = init[2:-1]
            vals = []
            i = 0
            while i < len(raw):
                if raw[i] == '\\': vals.append(int(raw[i+1:i+3], 16)); i += 3
                else: vals.append(ord(raw[i])); i += 1
            gl.append(('%s%s %s = {%s};' if (t.k == 'arr' and t.n == 1) else '%s%s %s = {{%s}};') % (st, E.ct(t), cname(g), ','.join(map(str, vals))))
        elif init in ('zeroinitializer', None) or ext:
            try: gl.append('%s%s %s;' % (('extern ' + ('const ' if mm.group(2) == 'constant' else '')) if ext else st, E.ct(t), cname(g)))
            except Err: pass
        else:
            try:
                fe = FnEmit(E, None)
                iv = fe.val(p, t)
                gl.append('%s%s %s = %s;' % (st, E.ct(t), cname(g), iv))
            except Err as e:
                gl.append('%s%s %s; /* initializer dropped: %s */' % (st, E.ct(t), cname(g), e))
    alias_fns = []; alias_protos = []
    for g, ln in m.globals.items():
        mm = re.search(r' alias .*@([-A-Za-z0-9_.$]+)\s*$', ln)
        if mm:
            tgt = m.funcs.get('@' + mm.group(1)) or m.decls.get('@' + mm.group(1))
            if tgt:
                al = dict(tgt); al['name'] = g
                if cname(g) in dropset:
                    dropped.append(cname(g)); alias_protos.append(proto_c(E, al, False) + ';'); continue
                args = ', '.join('r_' + cname(nm) for (_, nm, _) in tgt['ps'])
                ret = '' if tgt['ret'].k == 'void' else 'return '
                alias_fns.append('%s { %s%s(%s); }' % (proto_c(E, al), ret, cname(tgt['name']), args))
                alias_protos.append(proto_c(E, al, False) + ';')
                defined.append(cname(g))
    protos += alias_protos; fns += alias_fns
    guard = 'LL2C_TYPES_' + re.sub(r'[^A-Za-z0-9]', '_', os.path.basename(a.types)).upper()
    th = ['#ifndef %s' % guard, '#define %s' % guard, '#include <stdint.h>', '#include <stddef.h>', '#include <string.h>'] + fwd
    pre_i = 0
    for _, idx, sd in sdefs:
        while pre_i < idx and pre_i < len(E.pre): th.append(E.pre[pre_i]); pre_i += 1
        th.append(sd)
    th += E.pre[pre_i:]
    th.append('#endif')
    open(a.types, 'w').write('\n'.join(th) + '\n')
    gl_fwd = []
    for g in gl:
        if g.startswith('extern ') or ' = ' not in g: continue
        d = re.sub(r' = .*$', ';', g)
        gl_fwd.append(d if d.startswith('static ') else 'extern ' + d)
    out = ['#include "%s"' % os.path.basename(a.types)] + protos + gl_fwd + gl + fns
    open(a.out, 'w').write('\n'.join(out) + '\n')
    unused = [(fn, lab) for fn, d in LOOPSPEC.items() for lab, ent in d.items() if not ent.get('_used')]
    if a.info:
        json.dump(dict(defined=defined, declared=[cname(n) for n in m.decls if n not in m.funcs or cname(n) in dropset],
                       skipped=[(cname(n), e) for n, e in skipped], dropped=dropped,
                       loops=LOOPS_SEEN, unused_loop_specs=unused), open(a.info, 'w'), indent=0)
    for n, e in skipped: sys.stderr.write('SKIPPED %s: %s\n' % (n, e))
    for fn, lab in unused: sys.stderr.write('UNUSED-LOOP-SPEC %s %s\n' % (fn, lab))

LOOPS_SEEN = []
main()
