/* Common macros for contract files (C, read by goto-cc) and replay drivers (C++, read by g++).
 *
 * FRESH(tag,p,n): pointer-validity precondition of a contract.  When the contract with this tag is
 *   the one being ENFORCED (the driver defines ENF_<tag> as 1) the harness owns the argument objects
 *   (valid, pairwise distinct unless the harness aliases them on purpose, arbitrary content) and
 *   FRESH is `1`; when the contract is used to REPLACE a call (ENF_<tag> is 0) it is
 *   __CPROVER_is_fresh, i.e. the caller must pass valid, separated objects.
 * IN(T,a): declare an arbitrary input object in a harness and copy it to a witness static that the
 *   driver reads back from counterexample traces (wit_a.f0=..).
 * GHOST(T,g): same for a ghost point (a plain scalar).
 * REACH: must-fail assertion at the end of every harness: the precondition is satisfiable and the
 *   function returns on some input (vacuity guard).
 */
#ifndef VERIF_H
#define VERIF_H
#include <stdint.h>
#include <stdbool.h>
#include <stddef.h>

#ifdef __cplusplus
/* native replay: contracts are not parsed, only predicates and POST_* macros are used */
#define __CPROVER_assume(x) ((void)0)
#else
#define FRESH_0(p, n) __CPROVER_is_fresh(p, n)
#define FRESH_1(p, n) 1
#define FRESH_CAT(a, b) a##b
#define FRESH_SEL(v) FRESH_CAT(FRESH_, v)
#define FRESH(tag, p, n) FRESH_SEL(ENF_##tag)(p, n)
/* TOP(tag,e): a clause that only exists when the contract is the enforced one (ghost points, witnesses) */
#define TOP_0(e) 1
#define TOP_1(e) (e)
#define TOP_CAT(a, b) a##b
#define TOP_SEL(v) TOP_CAT(TOP_, v)
#define TOP(tag, e) TOP_SEL(ENF_##tag)(e)
#define IN(T, a) T a; static T wit_##a; wit_##a = a
/* GHOSTG(T,g): give the file-scope ghost point g an arbitrary value and record it as witness */
#define GHOSTG(T, g) { T tmp_##g; g = tmp_##g; } static T wit_##g; wit_##g = g
#define GHOST(T, g) T g; static T wit_##g; wit_##g = g
#define REACH __CPROVER_assert(0, "reach")
/* must-fail twin of a lemma-conditioned postcondition: hypotheses and lemma instances are jointly satisfiable */
#define SATGUARD(e) __CPROVER_assert(!(e), "satguard")
#endif

typedef unsigned __int128 u128;
typedef __int128 i128;
#endif
