#!/usr/bin/env python3
"""import_seed.py <src dir with patch.diff demo.cpp NOTES.md> <seed id> <property> <confirm verdict line> <detection: text>"""
import sys, os, json, shutil, re
src, sid, prop, confirm, detection = sys.argv[1:6]
dst = os.path.join(os.path.dirname(os.path.dirname(os.path.abspath(__file__))), 'seeded', sid)
os.makedirs(dst, exist_ok=True)
for f in ('patch.diff', 'demo.cpp', 'NOTES.md'):
    if os.path.exists(os.path.join(src, f)):
        shutil.copy(os.path.join(src, f), os.path.join(dst, f))
notes = open(os.path.join(src, 'NOTES.md')).read() if os.path.exists(os.path.join(src, 'NOTES.md')) else ''
files = re.findall(r'^\+\+\+ b/(\S+)', open(os.path.join(src, 'patch.diff')).read(), re.M)
meta = dict(id=sid, property=prop, files_changed=files,
            author="independent sub-agent given only the property text and a scratch copy of the repository (nothing from /verif)",
            needs_to_manifest=(re.search(r'(?is)(what.{0,40}needed.*?)(\n#|\n\n\n|\Z)', notes).group(1).strip()[:1200] if re.search(r'(?is)what.{0,40}needed', notes) else 'see NOTES.md'),
            confirmed_by_lead=dict(how="tools/confirm_seed.sh in a private scratch worktree: git apply patch.diff; full ccache build (-O0) + whole ctest suite compared with the 120 baseline tests; demo.cpp compiled and run against the changed tree and against a pristine build of the same commit",
                                   result=confirm),
            detection=detection)
json.dump(meta, open(os.path.join(dst, 'meta.json'), 'w'), indent=1)
print(dst)
