#!/bin/bash
# usage: tools/seedcheck.sh <patch.diff> <PROP> [driver options]
# Runs the property's check against seahorn/crab WITH a seeded change, without touching the evidence file.
# Default: a throw-away git worktree of /repo's HEAD under /tmp (safe while other runs use /repo), selected with
# CRAB_REPO.  With SEED_IN_PLACE=1 the patch is applied to /repo itself and undone straight afterwards.
patch=$(readlink -f "$1"); prop=$2; shift 2
here="$(cd "$(dirname "$0")/.." && pwd)"
if [ -n "$SEED_IN_PLACE" ]; then
  if [ -n "$(git -C /repo status --porcelain --untracked-files=no)" ]; then echo "/repo has local changes; refusing"; exit 3; fi
  git -C /repo apply "$patch" || { echo "patch does not apply"; exit 3; }
  trap 'git -C /repo checkout -- . ; echo "[/repo restored]"' EXIT
  tree=/repo
else
  tree=$(mktemp -d /tmp/seedwt.XXXXXX); rmdir "$tree"
  git -C /repo worktree add -q --detach "$tree" HEAD || exit 3
  trap 'git -C /repo worktree remove --force "$tree"; echo "[worktree removed]"' EXIT
  git -C "$tree" apply "$patch" || { echo "patch does not apply"; exit 3; }
fi
CRAB_REPO="$tree" python3 "$here/tools/driver.py" --property "$prop" --tier "${VERIF_TIER:-quick}" --no-evidence "$@" > /tmp/seedcheck.$$.log 2>&1
rc=$?
grep -E "VIOLATION|KNOWN-FINDING|INCONCLUSIVE|FAULT|failing obligation|^OK|degraded" /tmp/seedcheck.$$.log | cut -c1-700
echo "exit=$rc"
rm -f /tmp/seedcheck.$$.log
exit $rc
