#!/usr/bin/env python3
"""Regenerates /verif/MANIFEST.json.  Edit CLAIMED / NOT_APPLICABLE below, run, commit."""
import json, os, sys
VERIF = os.path.dirname(os.path.dirname(os.path.abspath(__file__)))
TECH = "contract-based deductive verification: CBMC function/loop contracts (goto-instrument --dfcc) on C mechanically extracted from clang IR of the real sources"
TRUST = ("Trusted: clang 14 front end and -O0(+mem2reg) lowering, tools/ll2c.py IR->C printer, cbmc 6.11/goto-instrument dfcc, "
         "SAT/SMT back ends, run-time model models/rt.c. ")
CLAIMED = {
 'C13': dict(
  text="Proof, per function, that every arithmetic, bitwise, shift, extension, truncation, comparison and big-integer conversion member of crab::wrapint equals the operation on mathematical integers reduced modulo 2^w and keeps the representation invariant — for all widths 1..64 and all operands in one query per function — plus (unit wrapped_interval) soundness of the wrapped-interval operations with ghost concrete operands for every operand at each enumerated width. The verified text is clang's lowering of lib/wrapint.cpp / lib/wrapped_interval.cpp of the working tree, re-extracted on every run. Value level only: the variable-level wrapped_interval_domain is not covered.",
  note=TRUST + "models/zmodel.c (z_number as a 128-bit integer; its / and % uninterpreted with sign/magnitude axioms; proved of lib/bignums.cpp against a GMP model under C20), models/qmodel.c. wrapped_interval: proved per enumerated bit width only (widths listed in the evidence), wrapint callees replaced by their (proved) contracts. Not covered: wrapint::hash/write/get_*_str/string constructor, wrapped_interval_domain.hpp."),
 'C08': dict(
  text="Proof of soundness, with arbitrary ghost concrete operands, of every operation of bound<z>, interval<z>, sign, constant, boolean_value, small_range congruence and the interval-congruence reduced product, and of exactness (tightness) of interval + - * unary-, join and meet as 'result equals the textbook least interval'. Non-linear facts (monotonicity of * and truncating /) are lemma schemas over the mathematical integers discharged by z3 and cvc5 on every run and used as explicit instances.",
  note=TRUST + "models/zmodel.c integer model of z_number with inputs bounded by 2^40 (larger magnitudes assumed to behave alike); lemma files lemmas/*.smt2; interval::operator/ recursion assumed to terminate (enforce-contract-rec); interval::Shl proved per shift amount 0..58; q_number instantiations not covered; disjunctive intervals (unit dis_interval): BOUNDED (<= 2 disjuncts per operand) and only constructors / normalisation, is_bottom, is_top, approx, ==, <= and meet - join, widening, narrowing and the arithmetic of dis_interval have no decided check; congruence meet/mul/div/rem/Shl bounded (small moduli)."),
 'C04': dict(
  text="Proof, for the scalar lattices (interval, sign, constant, boolean_value, small_range; congruence and wrapped_interval where enabled) that <= answers yes on the same object, with bottom on the left and top on the right, that a yes implies inclusion of concretisations (ghost point), that join/meet contain union/intersection, and that is_bottom/is_top agree with bottom()/top(); and for the environment layer (separate_domain, discrete_domain) proof of the bottom/top bookkeeping of <=, ==, |, &, ||, &&, set, at, forget and of the operation objects GIVEN finite-map contracts of the patricia trees; proof for basic_domain_product2<D1,D2> (component-wise order, canonical bottom, join, meet, is_bottom / is_top) over ghost component domains that satisfy the lattice hypotheses; plus (unit pttree, BOUNDED) the real tree::compare on small trees.",
  note=TRUST + "The patricia-tree algorithms (insert/remove/merge/compare/lookup) are ASSUMED to implement finite maps (uninterpreted observers); graph domains (split_dbm, split_oct, sparse_dbm), reduced / numerical products, powerset are not covered; unit prod ASSUMES the lattice hypotheses of its two ghost component domains (listed in the evidence)."),
 'C05': dict(
  text="Operator-level proof: widening of interval / sign / constant / boolean / small_range (and congruence, wrapped_interval, interval with thresholds where enabled) is an upper bound of both arguments, is stationary when the argument is included, and otherwise strictly increases a rank bounded by a constant (interval: number of infinite bounds <= 2), so every widening chain is stationary after finitely many strict steps; narrowing of a decreasing pair keeps every element of its second argument; the separate_domain widening/narrowing operation objects drop/keep bindings as required; (unit fixpo) the iterator's extrapolate() applies widening exactly when iteration > widening_delay; (unit fixvisit, BOUNDED) the real wto_iterator::visit(cycle) hands extrapolate the number of times the head has been iterated, on the value the pass was computed from and the join of all predecessors' posts, and leaves the ascending loop only after new_pre <= pre answered yes. Engine-level termination of whole analyses is NOT decided: it is reduced on paper to these facts plus the unverified WTO construction and domain-level widenings outside the scalar abstractions.",
  note=TRUST + "'bounded strictly increasing rank => stationary' is an arithmetic step stated, not machine-checked; graph-domain, powerset, term-domain widenings and inter-procedural recursion widening are not covered; thresholds: |T| <= 6 (bounded), rational bounds bounded (small numerators/denominators); unit fixvisit is bounded (<= 3 ascending passes, <= 2 descending, <= 2 predecessors, cycle body empty or one vertex) and has no native replay."),
 'C06': dict(
  text="Second sentence of the property only: proof that interleaved_fwd_fixpoint_iterator::extrapolate returns exactly the JOIN of its arguments (one application, nothing else) while iteration <= widening_delay, and otherwise the widening (or the widening with the thresholds of that loop head when thresholds are enabled), and that refine() applies the meet in the first descending iteration and the narrowing afterwards; the value type is an opaque ghost whose lattice operations are distinct uninterpreted symbols, so 'equal results' means 'this operation, these operands, once'. Plus (unit fixvisit, BOUNDED, ghost call-order monitor on the real wto_iterator::visit(wto_cycle_t&) / visit(wto_vertex_t&)): extrapolate is called with iteration = 1, 2, ... = the number of times the head has been iterated, only after new_pre <= pre answered no on exactly the values handed over; the first pass starts from the join of exactly the predecessors that are not nested deeper than the head (or the start block's stored value), strengthened by the head's assumption; components are skipped until the start block is met; refine gets iteration 1, 2, ... and at most descending_iterations calls; the stored pre-invariant of the head ends as the post-fixpoint or its last refinement. The first sentence as a whole (the iterator returns the exact least solution on finite-height types) additionally needs the WTO (C07) and is NOT decided.",
  note=TRUST + "Assumed: unordered_map::find on the thresholds table is a finite-map lookup (model); the table holds an entry for the head when thresholds are on; logging/statistics are effect-free (CrabVerbosity == 0 is a precondition). Unit fixvisit: bounded (loops unwound: <= 3 ascending passes, <= 2 descending, <= 2 predecessors, cycle body empty or one vertex), the WTO's construction of nestings assumed (compute_post is proved in unit fixcp, the invariant-table accessors in unit fixtab, the nesting comparison is checked, bounded, in unit wtonest), no native replay. Unit fixrun (bounded, <= 2 blocks): run(init) / run(entry, init, assumptions) / initialize_invariant_tables start the WTO walk from bottom everywhere except the start block (initial value), whatever the tables held, with the requested start block and assumption map. Not covered: the WTO construction, nested cycles, a start block that is itself a loop head (observed to lose the initial value; outside the property as stated)."),
 'C20': dict(
  text="Proof that every arithmetic / comparison / bitwise / shift / conversion member of ikos::z_number and q_number (lib/bignums.cpp) is the mathematical operation GIVEN GMP's documented behaviour of each __gmpz_*/__gmpq_* entry point it calls (truncating / and %, floor >>, two's-complement bitwise operations on either sign, int64/uint64 conversions in all branches, floor/ceil rounding of rationals, fill_ones with an inductive loop contract), and that crab::safe_i64 (lib/safeint.cpp) returns the exact result whenever it returns and reports overflow exactly when the 128-bit result does not fit; plus (unit lincst) constraint negation / tautology / contradiction tests over an abstract valuation, and (bounded, <= 2 terms, real boost flat_map) the evaluation homomorphism of linear_expression sum / difference / scaling / renaming; linear_constraint_system operator+= / is_false / is_true (bounded, <= 2 constraints of <= 1 term).",
  note=TRUST + "models/gmpmodel.c: GMP entry points modelled with their documented meaning on 2-limb values (|v| < 2^126; products, quotients and rational canonicalisation partly uninterpreted with axioms); magnitudes beyond are assumed to behave alike. Not decided: exact STRING round trips (get_str / string constructors are GMP externals), hash, get_double; linear_constraint_system::normalize() is NOT decided (contract written, no back end decides it even for 2 constraints). safe_i64 division requires a non-zero divisor."),
 'C19': dict(
  text="Proof for all 64-bit inputs of the patricia bit kernels (highest_bit with an inductive loop contract, mask, zero_bit, match_prefix, compute_branching_bit) and of the routing lemmas that make insert/lookup/merge route consistently and keep joined nodes well formed (incl. the 2^63 corner), and proof of the separate_domain / discrete_domain / patricia_tree_set glue (set, at, forget, <=, ==, join/meet/widening/narrowing bookkeeping, operation objects; set union / intersection / insertion / removal / membership / subset with their operation objects, iteration begin/end, rename of one pair) over ASSUMED finite-map contracts of the tree algorithms; plus (unit pttree, BOUNDED) the real tree algorithms insert / lookup / remove / merge_with / leq / transform / iteration run on small trees (<= 2 symbolic-key bindings per tree, keys < 8) against a model map.",
  note=TRUST + "The tree algorithms (insert, remove, merge, compare, transform, iteration over shared_ptr nodes with virtual dispatch) are assumed in unit sepdom and checked only on small instances in unit pttree (bounded, reference counting not modelled): a change inside merge/compare that needs more than 2 bindings per tree or keys >= 8 to manifest is not detected in the quick tier."),
}
# properties whose checks currently pass on the unchanged tree and are therefore claimed
ENABLED = ['C04', 'C05', 'C06', 'C08', 'C13', 'C19', 'C20']
PENDING = "pending: the contracts exist (see units/) but the check is not yet registered because not every unit of this property has been validated on the unchanged tree"
NOT_APPLICABLE = {
 'C01': "soundness of the forward analyzer over all CFGs x domains is a whole-history property of fwd_analyzer + abs_transformer + interleaved iterator + WTO acting through unordered_map/shared_ptr/virtual visitors; no function contract within CBMC's reach implies it and bounded runs of that code did not finish (DESIGN 4, A.5)",
 'C02': "the checker verdict depends on C01's invariants and on checker/analyzer code templated over the whole CFG statement hierarchy; same obstacle as C01",
 'C03': "per-domain transfer functions run on patricia trees, graphs and virtual domain APIs; only their scalar kernels are in reach and those are decided under C08/C13",
 'C06': "pending: the unit for interleaved_fwd_fixpoint_iterator::extrapolate/refine (second sentence of the property) is under construction; the first sentence (exact least solution) is a statement about WTO iteration and is out of reach",
 'C07': "Bourdoncle's WTO construction is a whole-history invariant over unordered_map/set/vector; an unbounded contract proof is not tractable with CBMC and the bounded run on all 3-node graphs never reached the solver (DESIGN A.5)",
 'C09': "top-down inter-procedural analyzer: call-graph fixpoints, summary tables and context maps, all container- and visitor-based; no leaf contract carries the property",
 'C10': "bottom-up summaries + top-down phase: same engine stack as C09",
 'C11': "backward analysis: the same engine stack reversed plus domain-level backward transformers",
 'C12': "exactness of zones/octagons is the shortest-path closure in split_dbm/split_oct/graph_ops (custom graph containers); not reachable. The interval part (exact meet, least join) is decided as the tightness postconditions of C08",
 'C14': "array domains are functors over a base domain with offset maps and virtual calls; no leaf kernel carries the property",
 'C15': "region/reference domain: ghost-variable managers and base-domain functor; no leaf kernel carries the property",
 'C16': "copy-on-write / structure sharing are properties of shared_ptr ownership across virtually dispatched calls; frame conditions cannot be attached to indirect calls with CBMC contracts",
 'C17': "CFG transformations: behaviour preservation is a simulation argument over cfg.hpp (Boost/std containers, statement class hierarchy), not a function contract",
 'C18': "liveness / assertion crawler are kill-gen fixpoints over the CFG classes and discrete_domain sets; not expressible as function contracts within reach",
 'C20': "pending: the units for lib/safeint.cpp, lib/bignums.cpp (against a GMP model) and linear_constraint are under construction",
}


def main():
    checks = []
    for pid in list(CLAIMED):
        if pid not in ENABLED:
            NOT_APPLICABLE[pid] = PENDING
            del CLAIMED[pid]
    for pid in sorted(CLAIMED):
        c = CLAIMED[pid]
        checks.append(dict(property_id=pid, quick_cmd="bin/check %s quick" % pid, thorough_cmd="bin/check %s thorough" % pid,
                           evidence_file="/verif/evidence/%s.json" % pid, replay_cmd_template="python3 tools/driver.py --replay {path}",
                           engine="cbmc-contracts", level_claimed=dict(category="proof", text=c['text'], design_ref="DESIGN.md sections 3 and 8"),
                           level_note=c['note'], technique=TECH))
    na = [dict(property_id=p, reason=r) for p, r in sorted(NOT_APPLICABLE.items()) if p not in CLAIMED]
    props = [json.loads(l)['id'] for l in open(os.path.join(VERIF, 'properties.jsonl'))]
    missing = [p for p in props if p not in CLAIMED and p not in NOT_APPLICABLE]
    assert not missing, missing
    m = dict(version=1, setup_cmd="true",
             hooks=dict(guard="CRAB_VERIF", enable="no hooks are needed: extraction uses clang -fno-access-control on the unmodified sources (-DCRAB_VERIF is passed but no source tests it)",
                        baseline_off_cmd="cmake --build /repo/_build -- -k 0 ; ctest --test-dir /repo/_build -j8 --timeout 900", source_commits=[], add_only=True),
             engines=[dict(name="cbmc-contracts", path="/verif/tools/driver.py", serves_properties=sorted(CLAIMED),
                           kind_free_text="clang -O0 IR -> C (tools/ll2c.py) -> goto-cc -> goto-instrument --dfcc --enforce-contract -> cbmc (minisat/kissat/cvc5/z3 portfolio); native replay of counterexamples with g++ against the working tree")],
             checks=checks, not_applicable=na, notes="see DESIGN.md (section 8 = as built) and HOWTO-contracts.md")
    json.dump(m, open(os.path.join(VERIF, 'MANIFEST.json'), 'w'), indent=1)
    print('claimed:', sorted(CLAIMED), 'not applicable:', [x['property_id'] for x in na])


if __name__ == '__main__':
    main()
