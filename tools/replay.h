/* Native replay support: rebuild a counterexample's inputs as real C++ objects, call the real function
 * of the working tree and evaluate the SAME postcondition macro the contract uses (spec.h).
 *   replay <check-id> [-DNAME=VAL ...] path=value ...
 * exit 0 "REPLAY: holds", exit 1 "REPLAY: VIOLATED", exit 3 unknown check id / not replayable. */
#ifndef REPLAY_H
#define REPLAY_H
#include <cstdio>
#include <cstdlib>
#include <cstring>
#include <map>
#include <string>
#include <functional>
#include <vector>
struct Wit {
  std::map<std::string, unsigned long long> v;
  std::map<std::string, std::string> defs;
  unsigned long long u(const std::string &k) const { auto i = v.find(k); if (i == v.end()) { fprintf(stderr, "replay: witness lacks %s\n", k.c_str()); fflush(stderr); _Exit(3); } return i->second; }
  long long s(const std::string &k) const { return (long long)u(k); }
  bool has(const std::string &k) const { return v.count(k) != 0; }
};
typedef std::function<bool(const Wit &)> ReplayFn;
inline std::map<std::string, ReplayFn> &registry() { static std::map<std::string, ReplayFn> r; return r; }
struct Reg { Reg(const char *id, ReplayFn f) { registry()[id] = f; } };
#define REPLAY(id) static bool replay_##id(const Wit &); static Reg reg_##id(#id, replay_##id); static bool replay_##id(const Wit &wit)
static bool replay_finished = false;
static void replay_atexit() { if (!replay_finished) { printf("REPLAY: VIOLATED (the real function did not return: it left through exit(), i.e. CRAB_ERROR)\n"); fflush(stdout); _Exit(1); } }
inline int replay_main(int argc, char **argv) {
  atexit(replay_atexit);
  if (argc < 2) { fprintf(stderr, "usage: replay <check-id> path=value...\n"); replay_finished = true; return 3; }
  Wit w;
  for (int i = 2; i < argc; i++) {
    std::string a = argv[i];
    if (a.rfind("-D", 0) == 0) { size_t e = a.find('='); w.defs[a.substr(2, e == std::string::npos ? e : e - 2)] = e == std::string::npos ? "1" : a.substr(e + 1); continue; }
    size_t e = a.find('=');
    if (e == std::string::npos) continue;
    w.v[a.substr(0, e)] = strtoull(a.c_str() + e + 1, 0, 10) ;
    if (a[e + 1] == '-') w.v[a.substr(0, e)] = (unsigned long long)strtoll(a.c_str() + e + 1, 0, 10);
  }
  auto it = registry().find(argv[1]);
  if (it == registry().end()) { printf("REPLAY: no native replay registered for check %s\n", argv[1]); replay_finished = true; return 3; }
  bool ok = it->second(w);
  replay_finished = true;
  printf(ok ? "REPLAY: holds (the real function satisfies the postcondition on this input)\n" : "REPLAY: VIOLATED (the real function breaks the postcondition on this input)\n");
  return ok ? 0 : 1;
}
#endif
