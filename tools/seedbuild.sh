#!/bin/bash
# usage: tools/seedbuild.sh <crab source tree (scratch git worktree)> [ctest|noctest]
# Fast confirmation build of a scratch copy of seahorn/crab: same cmake options as /repo/_build (tests on, external
# libraries off) but -O0 -g0 through ccache (shared cache, path-independent), then the whole ctest suite.
# Prints "BUILDTEST rc=<n> passed=<p> failed=<f>".  Used by the lead and by the seeding sub-agents.
tree=$(readlink -f "$1"); mode=${2:-ctest}
export CCACHE_DIR=${CCACHE_DIR:-/var/tmp/crab_ccache} CCACHE_BASEDIR="$tree" CCACHE_NOHASHDIR=1 CCACHE_MAXSIZE=20G CCACHE_SLOPPINESS=time_macros,include_file_mtime,include_file_ctime
b="$tree/_build"
if [ ! -f "$b/build.ninja" ]; then
  cmake -G Ninja -S "$tree" -B "$b" -DCMAKE_BUILD_TYPE=None -DCMAKE_CXX_FLAGS="-O0 -g0" -DCRAB_ENABLE_TESTS=ON \
    -DCMAKE_CXX_COMPILER_LAUNCHER=ccache -DCMAKE_C_COMPILER_LAUNCHER=ccache > "$b.configure.log" 2>&1 || { echo "BUILDTEST rc=configure-failed"; tail -20 "$b.configure.log"; exit 2; }
fi
nice cmake --build "$b" -- -k 0 -j ${SEED_JOBS:-8} > "$b.build.log" 2>&1
brc=$?
# tests/domains/wrapint does not compile on the pristine tree either (it is not one of the 120 baseline tests): any OTHER failed target is a build failure
bad=$(grep -E "^FAILED:" "$b.build.log" | grep -v "wrapint" | head -5)
if [ -n "$bad" ]; then echo "BUILDTEST rc=build-failed"; echo "$bad"; grep -E " error " "$b.build.log" | grep -v "tests/domains/wrapint" | head -20; exit 2; fi
[ "$mode" = noctest ] && { echo "BUILDTEST rc=0 (build only)"; exit 0; }
ctest --test-dir "$b" -j8 --timeout 900 > "$b.ctest.log" 2>&1
grep -E "tests passed|tests failed" "$b.ctest.log"
# verdict: every one of the 120 baseline tests (BASELINE.json stable_pass) must pass
python3 - "$b.ctest.log" <<'PY'
import json, re, sys
base = [t.split('::')[0] for t in json.load(open('/root/.vp/BASELINE.json'))['stable_pass']]
passed = set(re.findall(r'Test\s+#\d+:\s+(\S+)\s+\.+\s+Passed', open(sys.argv[1]).read()))
missing = [t for t in base if t not in passed]
print('BUILDTEST baseline_passed=%d/%d%s' % (len(base) - len(missing), len(base), (' NOT PASSING: ' + ' '.join(missing)) if missing else ''))
print('BUILDTEST rc=%d' % (1 if missing else 0))
sys.exit(1 if missing else 0)
PY
exit $?
