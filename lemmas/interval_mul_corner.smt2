; Corner lemma for interval multiplication over extended integers (used by units/interval: soundness of
; interval * = exactness of the corner formula (proved by CBMC: check interval.i_mul) + this lemma).
; A bound is a pair (inf, v): inf => v in {1,-1} (+oo / -oo), otherwise the finite value v.
; Transcribes spec.h: x_mul (with 0 * oo = 0), b_le_num, num_le_b; "min of the four corners <= g" is stated as
; "some corner <= g", "g <= max of the four corners" as "g <= some corner".
(set-logic ALL)
(define-fun okb ((i Bool) (v Int)) Bool (=> i (or (= v 1) (= v (- 1)))))
(define-fun pinf ((i Bool) (v Int)) Bool (and i (> v 0)))
(define-fun minf ((i Bool) (v Int)) Bool (and i (< v 0)))
(define-fun le_num ((i Bool) (v Int) (x Int)) Bool (ite i (< v 0) (<= v x)))
(define-fun num_le ((x Int) (i Bool) (v Int)) Bool (ite i (> v 0) (<= x v)))
(define-fun zerob ((i Bool) (v Int)) Bool (and (not i) (= v 0)))
(define-fun mul_inf ((ai Bool) (av Int) (bi Bool) (bv Int)) Bool (and (not (zerob ai av)) (not (zerob bi bv)) (or ai bi)))
(define-fun mul_val ((ai Bool) (av Int) (bi Bool) (bv Int)) Int
  (ite (or (zerob ai av) (zerob bi bv)) 0 (ite (or ai bi) (ite (= (> av 0) (> bv 0)) 1 (- 1)) (* av bv))))
(declare-const ai Bool) (declare-const a Int) (declare-const bi Bool) (declare-const b Int)
(declare-const ci Bool) (declare-const c Int) (declare-const di Bool) (declare-const d Int)
(declare-const gx Int) (declare-const gy Int)
(assert (and (okb ai a) (okb bi b) (okb ci c) (okb di d)))
; non-bottom operands in canonical form: lb is not +oo, ub is not -oo
(assert (and (not (pinf ai a)) (not (minf bi b)) (not (pinf ci c)) (not (minf di d))))
(assert (and (le_num ai a gx) (num_le gx bi b) (le_num ci c gy) (num_le gy di d)))
(push)
(assert (not (or (le_num (mul_inf ai a ci c) (mul_val ai a ci c) (* gx gy)) (le_num (mul_inf ai a di d) (mul_val ai a di d) (* gx gy))
                 (le_num (mul_inf bi b ci c) (mul_val bi b ci c) (* gx gy)) (le_num (mul_inf bi b di d) (mul_val bi b di d) (* gx gy)))))
(check-sat)
(pop)
(push)
(assert (not (or (num_le (* gx gy) (mul_inf ai a ci c) (mul_val ai a ci c)) (num_le (* gx gy) (mul_inf ai a di d) (mul_val ai a di d))
                 (num_le (* gx gy) (mul_inf bi b ci c) (mul_val bi b ci c)) (num_le (* gx gy) (mul_inf bi b di d) (mul_val bi b di d)))))
(check-sat)
(pop)
