; Sign / unit rules of the integer multiplication, truncating division and remainder symbols ZM_mul / ZM_div /
; ZM_rem of models/zmodel.c, discharged over the mathematical integers.  These are exactly the facts that the
; soundness contracts of units/sign (s_mul, s_div, s_srem) and units/constant (c_mul, c_sdiv, c_srem) use about the
; concrete operations on their ghost points: the proofs hold for any function with these rules, and this file shows
; that the mathematical operations are such functions.
(set-logic ALL)
(define-fun tdiv ((a Int) (b Int)) Int (ite (>= a 0) (ite (> b 0) (div a b) (- (div a (- b)))) (ite (> b 0) (- (div (- a) b)) (div (- a) (- b)))))
(define-fun trem ((a Int) (b Int)) Int (- a (* b (tdiv a b))))
(define-fun iabs ((a Int)) Int (ite (< a 0) (- a) a))
; M1: a product of non-zero integers is non-zero and its sign is the product of the signs
(push)
(declare-const a Int) (declare-const b Int)
(assert (and (not (= a 0)) (not (= b 0))))
(assert (not (and (not (= (* a b) 0)) (= (> (* a b) 0) (= (> a 0) (> b 0))))))
(check-sat)
(pop)
; M2: zero and unit operands
(push)
(declare-const b Int)
(assert (not (and (= (* 0 b) 0) (= (* b 0) 0) (= (* 1 b) b) (= (* b 1) b) (= (* (- 1) b) (- b)) (= (* b (- 1)) (- b)))))
(check-sat)
(pop)
; D1: exact cases of truncating division: zero dividend, unit divisors, |a| < |b|, a = +-b
(push)
(declare-const a Int) (declare-const b Int)
(assert (not (= b 0)))
(assert (not (and (=> (= a 0) (= (tdiv a b) 0)) (=> (= b 1) (= (tdiv a b) a)) (=> (= b (- 1)) (= (tdiv a b) (- a)))
                  (=> (< (iabs a) (iabs b)) (= (tdiv a b) 0)) (=> (= a b) (= (tdiv a b) 1)) (=> (= a (- b)) (= (tdiv a b) (- 1))))))
(check-sat)
(pop)
; D2: |a| >= |b| > 0: the quotient is non-zero, its sign is the product of the signs, and |q| <= |a|
(push)
(declare-const a Int) (declare-const b Int)
(assert (and (not (= b 0)) (>= (iabs a) (iabs b))))
(assert (not (and (not (= (tdiv a b) 0)) (= (> (tdiv a b) 0) (= (> a 0) (> b 0))) (<= (iabs (tdiv a b)) (iabs a)))))
(check-sat)
(pop)
; D3: a divisor of magnitude at least 2 at least halves the magnitude
(push)
(declare-const a Int) (declare-const b Int)
(assert (>= (iabs b) 2))
(assert (not (<= (* 2 (iabs (tdiv a b))) (iabs a))))
(check-sat)
(pop)
; R1: remainder of truncating division: smaller than the divisor in magnitude, zero or the sign of the dividend;
;     the dividend itself when |a| < |b|; zero for a zero dividend, unit divisors and a = +-b
(push)
(declare-const a Int) (declare-const b Int)
(assert (not (= b 0)))
(assert (not (and (< (iabs (trem a b)) (iabs b)) (or (= (trem a b) 0) (= (> (trem a b) 0) (> a 0)))
                  (=> (< (iabs a) (iabs b)) (= (trem a b) a)) (=> (= a 0) (= (trem a b) 0))
                  (=> (or (= b 1) (= b (- 1)) (= a b) (= a (- b))) (= (trem a b) 0)))))
(check-sat)
(pop)
