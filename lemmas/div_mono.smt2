; Lemma schemas for truncating integer division (used as instances by the interval division contracts).
(set-logic ALL)
(define-fun tdiv ((a Int) (b Int)) Int (ite (>= a 0) (ite (> b 0) (div a b) (- (div a (- b)))) (ite (> b 0) (- (div (- a) b)) (div (- a) (- b)))))
; D1: monotone in the dividend for a positive divisor, antitone for a negative one
(push)
(declare-const a Int) (declare-const g Int) (declare-const y Int)
(assert (and (<= a g) (not (= y 0))))
(assert (not (ite (> y 0) (<= (tdiv a y) (tdiv g y)) (<= (tdiv g y) (tdiv a y)))))
(check-sat)
(pop)
; D2: in the divisor, on one sign of the divisor: c <= g, same sign, x >= 0 ==> x/g <= x/c ; x <= 0 ==> x/c <= x/g
(push)
(declare-const x Int) (declare-const c Int) (declare-const g Int)
(assert (and (<= c g) (or (> c 0) (< g 0))))
(assert (not (ite (>= x 0) (<= (tdiv x g) (tdiv x c)) (<= (tdiv x c) (tdiv x g)))))
(check-sat)
(pop)
