// Forcing TU for the extrapolation / refinement dispatch of the fixpoint engine:
// ikos::interleaved_fwd_fixpoint_iterator<CFG,AbsDom>::extrapolate and ::refine
// (include/crab/fixpoint/interleaved_fixpoint_iterator.hpp).  No logic of its own:
//  * TCFG: a minimal CFG type: only the typedefs and DECLARATIONS the class template and the two members need
//    (label = unsigned long, number = z_number so that thresholds_t is the real crab::thresholds<z_number>);
//  * GV: an opaque GHOST abstract value, a handle whose lattice operations are only DECLARED (external functions
//    for the verifier: units/fixpo/gvmodel.c gives them distinct uninterpreted meanings J / MEET / W / NARROW / WT);
//  * two one-line shims that call the REAL private members on an iterator object that is never constructed here
//    (the class is abstract; extrapolate/refine are non-virtual, so no subclass and no constructor is needed:
//    the contracts are stated on the real mangled members, the shims only force their instantiation).
#include <crab/fixpoint/interleaved_fixpoint_iterator.hpp>
struct TFD { std::string get_func_name() const; };
struct TBB { using basic_block_label_t = unsigned long; };
struct TVAR;
struct TCFG {
  using basic_block_label_t = unsigned long;
  using basic_block_t = TBB;
  using number_t = ikos::z_number;
  using varname_t = long;
  using variable_t = TVAR;
  long id;
  bool has_func_decl() const;
  const TFD &get_func_decl() const;
};
namespace boost {
template <> struct graph_traits<TCFG> {
  using vertex_descriptor = unsigned long;
  using edge_descriptor = std::pair<unsigned long, unsigned long>;
  using out_edge_iterator = const edge_descriptor *;
};
} // namespace boost
struct GV { // ghost abstract value: an opaque handle, every operation external
  long id;
  GV make_top() const;
  GV make_bottom() const;
  bool is_top() const;
  bool is_bottom() const;
  GV operator|(const GV &) const;
  GV operator&(const GV &) const;
  GV operator||(const GV &) const;
  GV operator&&(const GV &) const;
  GV widening_thresholds(const GV &, const crab::thresholds<ikos::z_number> &) const;
  bool operator<=(const GV &) const;
  void write(crab::crab_os &o) const;
};
crab::crab_os &operator<<(crab::crab_os &o, const GV &v);
typedef ikos::interleaved_fwd_fixpoint_iterator<TCFG, GV> IT;
extern "C" {
void fx_extrapolate(GV *r, IT *self, unsigned long node, unsigned it, GV *before, GV *after) { *r = self->extrapolate(node, it, *before, *after); }
void fx_refine(GV *r, IT *self, unsigned long node, unsigned it, GV *before, GV *after) { *r = self->refine(node, it, *before, *after); }
}
