/* Contracts for the extrapolation / refinement dispatch of the fixpoint engine — properties C06 (second sentence:
 * "no extrapolation is applied while a loop head has been iterated at most widening_delay times") and C05 (what IS
 * applied afterwards: the domain's widening, or its widening with the thresholds of that loop head).
 *
 * PROVED on the REAL members interleaved_fwd_fixpoint_iterator<TCFG,GV>::extrapolate / ::refine (force.cpp), with the
 * REAL crab::fixpoint_parameters accessors, the REAL unordered_map::end / iterator comparison / operator-> and the
 * REAL copy constructor and destructor of crab::thresholds<z_number> (std::vector copy) in line.
 * GHOST: the abstract value GV (gvmodel.c): J / MEET / W / NARROW / WT are distinct uninterpreted symbols.
 * ASSUMED (body dropped, model in gvmodel.c): std::unordered_map::find on the thresholds table, as finite-map lookup.
 * EFFECT-FREE STUBS: statistics (CrabStats, ScopedCrabStats, their std::string names); logging is required to be
 * off (crab::CrabVerbosity == 0) and is then unreachable. */
#include "spec.h"
void *_Znwm(unsigned long);
#define EXTRAPOLATE _ZN4ikos33interleaved_fwd_fixpoint_iteratorI4TCFG2GVE11extrapolateEmjRS2_S4_
#define REFINE      _ZN4ikos33interleaved_fwd_fixpoint_iteratorI4TCFG2GVE6refineEmjRS2_S4_

/* The thresholds table m_thresholds_per_cycle is a finite map given by two ghosts (defined in gvmodel.c, chosen by the
 * harness): it binds the key g_key to the entry *g_node when g_node is not null, and binds nothing else.
 * ASSUMED: std::unordered_map<label,thresholds>::find is lookup in that finite map -- its body is dropped from the
 * extracted unit (unit.json override.drop) and MODELLED in gvmodel.c as
 *     find(key) = (key == g_key) ? g_node : end()
 * (a model rather than a replace= contract: with a contract the returned pointer is a havocked pointer that cbmc can
 * no longer resolve to the entry object, and every access through it becomes a case split over all objects). */

/* ===================== PROVED: extrapolate ===================== */
/* the entry for `node`, if any, is a well-formed table entry: its key is `node`, its thresholds vector is well formed */
#define ENTRY_OK (g_key == node && (g_node == 0 || (NODE_KEY(g_node) == node && ts_wf(NODE_TS(g_node)))))
#define AFTER_DELAY (iteration > DELAY(self))
/* extrapolate(node, iteration, before, after):
 *   iteration <= widening_delay                 ==> the result is J(before, after), exactly      (C06)
 *   otherwise, max_thresholds == 0              ==> the result is W(before, after)               (C05)
 *   otherwise (max_thresholds > 0)              ==> the result is WT(before, after, T) where T is the CONTENT of the
 *                                                   thresholds the table binds to `node`         (C05)
 * Precondition of the last case: the table has an entry for `node` (initialize_thresholds puts one for every loop
 * head; without it the real code stops in CRAB_ERROR) -- not verified here, see unit.json.
 * Frame: NOTHING is assigned (not `before`, not `after`, not the iterator); the result is returned by value.
 * BOUNDED (third case only): the thresholds entry has at most FTMAX = 4 elements (real std::vector copy in line). */
//@check id=extrapolate fn=_ZN4ikos33interleaved_fwd_fixpoint_iteratorI4TCFG2GVE11extrapolateEmjRS2_S4_ props=C06,C05 bounded="|T|<=4 (thresholds entry copied by the widening-with-thresholds branch; the other branches are unbounded)" unwind=7
uint64_t EXTRAPOLATE(IT *self, uint64_t node, uint32_t iteration, GV *before, GV *after)
__CPROVER_requires(FRESH(extrapolate, self, sizeof(IT)) && FRESH(extrapolate, self->f4, sizeof(PARAMS)) && FRESH(extrapolate, before, sizeof(GV)) && FRESH(extrapolate, after, sizeof(GV)))
__CPROVER_requires(VERBOSITY == 0)
__CPROVER_requires(ENTRY_OK && ((AFTER_DELAY && MAXTHR(self) > 0) ==> g_node != 0))
__CPROVER_assigns()
__CPROVER_ensures(!AFTER_DELAY ==> __CPROVER_return_value == GV_J(VID(before), VID(after)))
__CPROVER_ensures((AFTER_DELAY && MAXTHR(self) == 0) ==> __CPROVER_return_value == GV_W(VID(before), VID(after)))
__CPROVER_ensures((AFTER_DELAY && MAXTHR(self) > 0) ==> __CPROVER_return_value == GV_WT(VID(before), VID(after), ts_abs(NODE_TS(g_node))));

/* harness: arbitrary iterator object, parameters, values; the table entry is built directly (arbitrary bounds) */
static uint64_t wit_found, wit_n, wit_lim; static B wit_e[FTMAX + 1];
static NODE h_node;
static void mk_entry(uint64_t node){
  unsigned char found; uint8_t kn; uint64_t lim;
  long n = kn; if (n > FTMAX + 1) n = FTMAX + 1;
  B *st = _Znwm((FTMAX + 1) * sizeof(B));
  TS *t = NODE_TS(&h_node);
  NODE_PAIR(&h_node)->f0 = node;
  T_BEGIN(t) = st; T_END(t) = st + n; T_CAP(t) = st + (FTMAX + 1); T_LIMIT(t) = lim;
  for (long i = 0; i < FTMAX + 1; i++) if (i < n) wit_e[i] = st[i];
  g_key = node; g_node = found ? &h_node : (NODE *)0;
  wit_found = found; wit_n = n; wit_lim = lim; }
#define MK_IT(it) IT it; IN(PARAMS, params); it.f4 = &params; VERBOSITY = 0
#define MK_ENTRY(node) mk_entry(node); (void)&wit_found; (void)&wit_n; (void)&wit_lim; (void)&wit_e
void h_extrapolate(void){ MK_IT(it); GHOST(uint64_t, node); GHOST(uint32_t, iteration); IN(GV, before); IN(GV, after); MK_ENTRY(node);
  EXTRAPOLATE(&it, node, iteration, &before, &after); REACH; }
/* the same contract when `before` and `after` are the SAME object */
//@check id=extrapolate_alias fn=_ZN4ikos33interleaved_fwd_fixpoint_iteratorI4TCFG2GVE11extrapolateEmjRS2_S4_ tag=extrapolate props=C06,C05 bounded="|T|<=4 (thresholds branch only)" unwind=7
void h_extrapolate_alias(void){ MK_IT(it); GHOST(uint64_t, node); GHOST(uint32_t, iteration); IN(GV, before); MK_ENTRY(node);
  EXTRAPOLATE(&it, node, iteration, &before, &before); REACH; }
/* C06 read off the contract, as a harness-level statement over the REAL function: within the delay the result is
 * the join whatever the thresholds setting and whatever the table holds; J differs from W and WT as SYMBOLS, so this
 * is "no extrapolation operator was applied" */
//@check id=extrapolate_delay fn=_ZN4ikos33interleaved_fwd_fixpoint_iteratorI4TCFG2GVE11extrapolateEmjRS2_S4_ tag=extrapolate props=C06 unwind=7
void h_extrapolate_delay(void){ MK_IT(it); GHOST(uint64_t, node); GHOST(uint32_t, iteration); IN(GV, before); IN(GV, after);
  g_key = node; g_node = (NODE *)0;                /* no table entry at all: none is needed within the delay */
  if (iteration <= params.f0) {
    uint64_t r = EXTRAPOLATE(&it, node, iteration, &before, &after);
    __CPROVER_assert(r == GV_J(before.f0, after.f0), "iteration <= widening_delay: the result is the join of the two values");
    REACH; } }

/* ===================== PROVED: refine ===================== */
/* refine(node, iteration, before, after): iteration == 1 ==> MEET(before, after), otherwise NARROW(before, after);
 * nothing is assigned */
//@check id=refine fn=_ZN4ikos33interleaved_fwd_fixpoint_iteratorI4TCFG2GVE6refineEmjRS2_S4_ props=C06,C05
uint64_t REFINE(IT *self, uint64_t node, uint32_t iteration, GV *before, GV *after)
__CPROVER_requires(FRESH(refine, self, sizeof(IT)) && FRESH(refine, before, sizeof(GV)) && FRESH(refine, after, sizeof(GV)))
__CPROVER_requires(VERBOSITY == 0)
__CPROVER_assigns()
__CPROVER_ensures(iteration == 1 ==> __CPROVER_return_value == GV_MEET(VID(before), VID(after)))
__CPROVER_ensures(iteration != 1 ==> __CPROVER_return_value == GV_NARROW(VID(before), VID(after)));
void h_refine(void){ MK_IT(it); GHOST(uint64_t, node); GHOST(uint32_t, iteration); IN(GV, before); IN(GV, after);
  REFINE(&it, node, iteration, &before, &after); REACH; }
//@check id=refine_alias fn=_ZN4ikos33interleaved_fwd_fixpoint_iteratorI4TCFG2GVE6refineEmjRS2_S4_ tag=refine props=C06,C05
void h_refine_alias(void){ MK_IT(it); GHOST(uint64_t, node); GHOST(uint32_t, iteration); IN(GV, before);
  REFINE(&it, node, iteration, &before, &before); REACH; }
