// Native replay for unit fixpo: the REAL interleaved_fwd_fixpoint_iterator<TCFG,GV>::extrapolate / ::refine of the
// working tree (same TCFG / GV declarations as the forcing TU, which is included textually).  Here GV is CONCRETE:
// every lattice operation allocates a new handle and LOGS (operation, operands, thresholds content), so the
// postcondition "the result is J(before, after), exactly" is checked as: exactly ONE operation was applied, it is the
// expected one, on the expected operands, and its handle is what the function returned.
// The iterator object is not constructed (its constructor needs a full CFG): a layout mirror of the class (same
// members in the same order, the reference member as a pointer; size checked by static_assert) is filled in with the
// parameters and a REAL std::unordered_map holding the witness's thresholds entry.
#include "force.cpp"
#include <crab/domains/interval_impl.hpp>
#include "replay.h"
#include "verif.h"
using namespace ikos;
typedef bound<z_number> RB; typedef crab::thresholds<z_number> RT;
struct Op { char kind; long a, b; std::vector<RB> ts; size_t lim; };
static std::vector<Op> ops; static long next_id = 1000000;
static GV mk(char k, const GV &a, const GV &b, const RT *t = nullptr) { Op o{k, a.id, b.id, {}, 0}; if (t) { o.ts = t->m_thresholds; o.lim = t->m_size; } ops.push_back(o); GV r; r.id = next_id++; return r; }
GV GV::operator|(const GV &o) const { return mk('J', *this, o); }
GV GV::operator&(const GV &o) const { return mk('M', *this, o); }
GV GV::operator||(const GV &o) const { return mk('W', *this, o); }
GV GV::operator&&(const GV &o) const { return mk('N', *this, o); }
GV GV::widening_thresholds(const GV &o, const RT &t) const { return mk('T', *this, o, &t); }
crab::crab_os &operator<<(crab::crab_os &o, const GV &v) { o << "gv#" << v.id; return o; }
bool TCFG::has_func_decl() const { return false; }
const TFD &TCFG::get_func_decl() const { static TFD d; return d; }
std::string TFD::get_func_name() const { return "f"; }
namespace crab { template <> std::string basic_block_traits<TBB>::to_string(const unsigned long &l) { return std::to_string(l); } }
struct ITMirror {
  void *vptr; TCFG m_cfg; alignas(IT::wto_t) char m_wto[sizeof(IT::wto_t)]; GV m_absval_fac; const crab::fixpoint_parameters *m_params;
  IT::thresholds_map_t m_thresholds_per_cycle; bool m_enable_processor; alignas(IT::invariant_table_t) char m_pre[sizeof(IT::invariant_table_t)], m_post[sizeof(IT::invariant_table_t)]; };
static_assert(sizeof(ITMirror) == sizeof(IT), "layout mirror of interleaved_fwd_fixpoint_iterator<TCFG,GV> out of date");
static z_number mkz(i128 v) { bool neg = v < 0; u128 u = neg ? (u128)(-v) : (u128)v; z_number hi = z_number::from_uint64((uint64_t)(u >> 64)), lo = z_number::from_uint64((uint64_t)u);
  z_number r = (hi << z_number(64)) + lo; return neg ? -r : r; }
static RB mkb(const Wit &w, const std::string &p) { RB b(mkz((i128)(((u128)w.u(p + ".f1.f0.a.f1") << 64) | (u128)w.u(p + ".f1.f0.a.f0")))); b._is_infinite = w.u(p + ".f0") != 0; return b; }   // raw fields
static bool same(const std::vector<RB> &x, const std::vector<RB> &y) { if (x.size() != y.size()) return false; for (size_t i = 0; i < x.size(); i++) if (!(x[i]._is_infinite == y[i]._is_infinite && x[i]._n == y[i]._n)) return false; return true; }
struct Setup { crab::fixpoint_parameters params; ITMirror *m; IT *it; unsigned long node; unsigned iteration; GV before, after; bool found; RT entry;
  Setup(const Wit &w, bool table, bool alias) : entry(0) {
    params.widening_delay = (unsigned)w.u("params.f0"); params.descending_iterations = (unsigned)w.u("params.f1"); params.max_thresholds = (unsigned)w.u("params.f2");
    m = (ITMirror *)calloc(1, sizeof(ITMirror)); m->m_params = &params; new (&m->m_thresholds_per_cycle) IT::thresholds_map_t();
    it = (IT *)m; node = w.u("node"); iteration = (unsigned)w.u("iteration"); before.id = (long)w.u("before.f0"); after.id = alias ? before.id : (long)w.u("after.f0");
    found = table && w.u("found") != 0;
    if (found) { entry.m_size = (size_t)w.u("lim"); entry.m_thresholds.clear(); for (unsigned long i = 0; i < w.u("n"); i++) entry.m_thresholds.push_back(mkb(w, "e[" + std::to_string(i) + "]"));
      m->m_thresholds_per_cycle.insert({node, entry}); }
    printf("  widening_delay=%u max_thresholds=%u node=%lu iteration=%u before=gv#%ld after=gv#%ld table entry: %s\n", params.widening_delay, params.max_thresholds, node, iteration, before.id, after.id, found ? "yes" : "no"); } };
static bool one_op(const GV &r, char kind, const GV &a, const GV &b) {
  for (auto &o : ops) printf("  applied %c(gv#%ld, gv#%ld)\n", o.kind, o.a, o.b);
  return ops.size() == 1 && ops[0].kind == kind && ops[0].a == a.id && ops[0].b == b.id && r.id == next_id - 1; }
static bool rp_extrapolate(const Wit &wit, bool table, bool alias) { Setup s(wit, table, alias); GV &b = s.before, &a = alias ? s.before : s.after; long b0 = b.id, a0 = a.id;
  GV r = s.it->extrapolate(s.node, s.iteration, b, a);
  if (b.id != b0 || a.id != a0) return false;                                    // frame
  if (s.iteration <= s.params.widening_delay) return one_op(r, 'J', b, a);
  if (s.params.max_thresholds == 0) return one_op(r, 'W', b, a);
  return one_op(r, 'T', b, a) && ops[0].lim == s.entry.m_size && same(ops[0].ts, s.entry.m_thresholds); }
REPLAY(extrapolate) { return rp_extrapolate(wit, true, false); }
REPLAY(extrapolate_alias) { return rp_extrapolate(wit, true, true); }
REPLAY(extrapolate_delay) { if ((unsigned)wit.u("iteration") > (unsigned)wit.u("params.f0")) return true; return rp_extrapolate(wit, false, false); }
static bool rp_refine(const Wit &wit, bool alias) { Setup s(wit, false, alias); GV &b = s.before, &a = alias ? s.before : s.after; long b0 = b.id, a0 = a.id;
  GV r = s.it->refine(s.node, s.iteration, b, a);
  if (b.id != b0 || a.id != a0) return false;
  return one_op(r, s.iteration == 1 ? 'M' : 'N', b, a); }
REPLAY(refine) { return rp_refine(wit, false); }
REPLAY(refine_alias) { return rp_refine(wit, true); }
int main(int argc, char **argv) { return replay_main(argc, argv); }
