/* Models for unit fixpo.
 * 1. The GHOST value GV of units/fixpo/force.cpp: the fixpoint iterator is generic in the abstract domain, so the
 *    domain is an arbitrary one: every lattice operation is a DISTINCT UNINTERPRETED function of the operand handles
 *    (and, for widening_thresholds, of the abstract content of the thresholds object it is handed).  This is the
 *    universally quantified parameter of the proof, not an assumption about crab code.
 * 2. Statistics and logging are effect-free (DESIGN 2.4): crab::CrabStats::count, crab::ScopedCrabStats and the
 *    std::string temporaries holding their names do nothing; log streams (crab::outs() in models/rt.c,
 *    crab::get_msg_stream() here) end the path: the contracts REQUIRE crab::CrabVerbosity == 0, so logging is
 *    unreachable, and everything that only logging calls is an asserted-unreachable stub. */
#include "spec.h"
/* the join of a lattice is commutative: a change that computes `after | before` is the same join (hypothesis on the
 * parameter domain; without it the contract would flag a harmless reordering) */
uint64_t _ZNK2GVorERKS_(GV *a, GV *b){ uint64_t r = GV_J(VID(a), VID(b)); __CPROVER_assume(r == GV_J(VID(b), VID(a))); return r; }
uint64_t _ZNK2GVanERKS_(GV *a, GV *b){ return GV_MEET(VID(a), VID(b)); }
uint64_t _ZNK2GVooERKS_(GV *a, GV *b){ return GV_W(VID(a), VID(b)); }
uint64_t _ZNK2GVaaERKS_(GV *a, GV *b){ return GV_NARROW(VID(a), VID(b)); }
uint64_t _ZNK2GV19widening_thresholdsERKS_RKN4crab10thresholdsIN4ikos8z_numberEEE(GV *a, GV *b, TS *ts){ return GV_WT(VID(a), VID(b), ts_abs(ts)); }
/* crab::CrabVerbosity (defined in lib/debug.cpp, default 0).  dfcc havocs statics: the harnesses set it and the
 * contracts require it to be 0. */
uint32_t _ZN4crab13CrabVerbosityE = 0;
/* statistics: effect-free */
struct S_class_std____cxx11__basic_string; struct S_class_std__allocator; struct S_class_crab__ScopedCrabStats;
void _ZN4crab9CrabStats5countERKNSt7__cxx1112basic_stringIcSt11char_traitsIcESaIcEEE(void *name){}
void _ZN4crab15ScopedCrabStatsC1ERKNSt7__cxx1112basic_stringIcSt11char_traitsIcESaIcEEEb(void *self, void *name, unsigned char reset){}
void _ZN4crab15ScopedCrabStatsD1Ev(void *self){}
void _ZNSaIcEC1Ev(void *self){}
void _ZNSaIcED1Ev(void *self){}
void _ZNSt7__cxx1112basic_stringIcSt11char_traitsIcESaIcEEC1EPKcRKS3_(void *self, const char *s, void *a){}
void _ZNSt7__cxx1112basic_stringIcSt11char_traitsIcESaIcEED1Ev(void *self){}
/* logging: unreachable at verbosity 0 */
void *_ZN4crab14get_msg_streamEb(unsigned char ts){ __CPROVER_assume(0); return 0; }
#define UNREACHABLE_STUB(msg) { __CPROVER_assert(0, msg); __CPROVER_assume(0); }
void *_ZlsRN4crab7crab_osERK2GV(void *o, GV *v){ UNREACHABLE_STUB("only logging prints abstract values"); return o; }
void _ZN4crab18basic_block_traitsI3TBBE9to_stringB5cxx11ERKm(void *ret, uint64_t *l){ UNREACHABLE_STUB("only logging / CRAB_ERROR print block labels"); }
unsigned char _ZNK4TCFG13has_func_declEv(void *cfg){ UNREACHABLE_STUB("only logging asks for the function name"); return 0; }
void *_ZNK4TCFG13get_func_declEv(void *cfg){ UNREACHABLE_STUB("only logging asks for the function name"); return 0; }
void _ZNK3TFD13get_func_nameB5cxx11Ev(void *ret, void *fd){ UNREACHABLE_STUB("only logging asks for the function name"); }
/* ASSUMED: std::unordered_map<unsigned long, thresholds>::find is finite-map lookup.  The table is the finite map
 * { g_key -> *g_node } (or {} when g_node is null); the real body (hashing, bucket walk) is dropped (unit.json). */
uint64_t g_key;
NODE *g_node;
NODE *_ZNSt13unordered_mapImN4crab10thresholdsIN4ikos8z_numberEEESt4hashImESt8equal_toImESaISt4pairIKmS4_EEE4findERSA_(TSMAP *self, uint64_t *key){
  return (*key == g_key) ? g_node : (NODE *)0; }
