/* Specification vocabulary for the extrapolation / refinement dispatch of the fixpoint engine
 * (ikos::interleaved_fwd_fixpoint_iterator<TCFG,GV>::extrapolate / ::refine, units/fixpo/force.cpp).
 *
 * IT    = the iterator object: f1 = m_cfg, f3 = m_absval_fac, f4 = &m_params, f5 = m_thresholds_per_cycle, ...
 * PARAMS= crab::fixpoint_parameters { f0 = widening_delay, f1 = descending_iterations, f2 = max_thresholds }
 * GV    = the GHOST abstract value: a handle (f0 = id).  Its lattice operations are DISTINCT UNINTERPRETED symbols
 *         J (operator|), MEET (operator&), W (operator||), NARROW (operator&&), WT (widening_thresholds): equal
 *         operands give equal results and nothing else is known, so `ret == J(before, after)` means
 *         "this operation, on exactly these operands, and the result handed back untouched".
 * TS    = crab::thresholds<z_number> (REAL class, REAL std::vector copy): f0 = vector (begin, end, end of storage),
 *         f1 = m_size.  ts_abs(t) is the abstract CONTENT of a thresholds object: an uninterpreted hash chain over
 *         its length, m_size and the elements in order (bounded: at most FTMAX elements).
 * NODE  = a node of the thresholds table (std::unordered_map<label, thresholds>): f0 = next, f1 = storage of the
 *         std::pair<const label, thresholds>.
 * (the numeric suffixes of some struct names are LLVM's numbering for this forcing TU; look them up in unit_types.h
 *  if force.cpp or the included headers change) */
#ifndef FIXPO_SPEC_H
#define FIXPO_SPEC_H
#include "verif.h"
#ifndef __cplusplus
#include "unit_types.h"
typedef struct S_class_ikos__interleaved_fwd_fixpoint_iterator IT;
typedef struct S_class_crab__fixpoint_parameters PARAMS;
typedef struct S_struct_GV GV;
typedef struct S_class_crab__thresholds TS;
typedef struct S_class_ikos__bound B;
typedef struct S_struct_std____detail___Hash_node NODE;
typedef struct S_struct_std__pair PAIR;                 /* std::pair<const unsigned long, thresholds> */
typedef struct S_class_std__unordered_map_10 TSMAP;     /* std::unordered_map<unsigned long, thresholds> */
#define VID(v) ((v)->f0)
#define DELAY(self) ((self)->f4->f0)
#define MAXTHR(self) ((self)->f4->f2)
#define NODE_PAIR(n) ((PAIR *)&(n)->f1)
#define NODE_KEY(n) (NODE_PAIR(n)->f0)
#define NODE_TS(n) (&NODE_PAIR(n)->f1)
#define T_BEGIN(t) ((t)->f0.f0.f0.f0.f0)
#define T_END(t) ((t)->f0.f0.f0.f0.f1)
#define T_CAP(t) ((t)->f0.f0.f0.f0.f2)
#define T_LIMIT(t) ((t)->f1)
#ifndef FTMAX
#define FTMAX 4
#endif
/* ---- ghost value lattice: uninterpreted */
uint64_t __CPROVER_uninterpreted_fx_join(uint64_t, uint64_t);
uint64_t __CPROVER_uninterpreted_fx_meet(uint64_t, uint64_t);
uint64_t __CPROVER_uninterpreted_fx_widen(uint64_t, uint64_t);
uint64_t __CPROVER_uninterpreted_fx_narrow(uint64_t, uint64_t);
uint64_t __CPROVER_uninterpreted_fx_wt(uint64_t, uint64_t, uint64_t);
uint64_t __CPROVER_uninterpreted_fx_ts0(uint64_t, uint64_t);
uint64_t __CPROVER_uninterpreted_fx_ts1(uint64_t, uint64_t, uint64_t, uint64_t);
#define GV_J(a, b) __CPROVER_uninterpreted_fx_join(a, b)
#define GV_MEET(a, b) __CPROVER_uninterpreted_fx_meet(a, b)
#define GV_W(a, b) __CPROVER_uninterpreted_fx_widen(a, b)
#define GV_NARROW(a, b) __CPROVER_uninterpreted_fx_narrow(a, b)
#define GV_WT(a, b, ts) __CPROVER_uninterpreted_fx_wt(a, b, ts)
/* well-formed vector of at most FTMAX bounds (element VALUES are arbitrary: no thresholds invariant is needed here) */
/* an empty std::vector may have null pointers (the copy of an empty vector has) */
static inline long ts_n(const TS *t){ return T_BEGIN(t) == 0 ? 0 : (long)(T_END(t) - T_BEGIN(t)); }
/* well formed: valid storage, 0 <= n <= FTMAX, and every element's _is_infinite flag is a C++ bool (0 or 1: copying a
 * bound copies the flag AS A BOOL, so other byte values are not representable inputs) */
static inline bool ts_wf(const TS *t){
  if (T_BEGIN(t) == 0 || ts_n(t) < 0 || ts_n(t) > FTMAX || T_CAP(t) < T_END(t)) return false;
  bool ok = true;
  for (long i = 0; i < FTMAX; i++) if (i < ts_n(t)) ok = ok && T_BEGIN(t)[i].f0 <= 1;
  return ok; }
/* abstract content */
static inline uint64_t ts_abs(const TS *t){
  long n = ts_n(t);
  uint64_t h = __CPROVER_uninterpreted_fx_ts0((uint64_t)n, T_LIMIT(t));
  for (long i = 0; i < FTMAX; i++)
    if (i < n) h = __CPROVER_uninterpreted_fx_ts1(h, T_BEGIN(t)[i].f0, T_BEGIN(t)[i].f1.f0.a.f0, T_BEGIN(t)[i].f1.f0.a.f1);
  return h; }
/* the thresholds table as a finite map: { g_key -> *g_node } or {} (see contracts.c / gvmodel.c) */
extern uint64_t g_key;
extern NODE *g_node;
extern uint32_t _ZN4crab13CrabVerbosityE;               /* crab::CrabVerbosity (lib/debug.cpp) */
#define VERBOSITY _ZN4crab13CrabVerbosityE
#endif
#endif
