// Native replay for unit boolean: the real crab::domains::boolean_value of the working tree, the same POST_* macros
// as the contracts (spec.h).  BV is the compiler's own lowering of the class, so real objects are read through it.
#include <crab/domains/boolean.hpp>
#include <crab/support/os.hpp>
#include "replay.h"
#include "spec.h"
using crab::domains::boolean_value;
static BV *L(boolean_value &x) { return reinterpret_cast<BV *>(&x); }
static boolean_value mk(const Wit &w, const char *n) { boolean_value r; L(r)->f1 = (uint32_t)w.u(std::string(n) + ".f1"); crab::outs() << "  " << n << " = " << r << "\n"; return r; }
static boolean_value &res(boolean_value &r) { crab::outs() << "  result = " << r << "\n"; return r; }
#define GH unsigned g_p = (unsigned)wit.u("g_p"), g_q = (unsigned)wit.u("g_q"); printf("  points: p=%u q=%u\n", g_p, g_q)
#define RBIN1(id, EXPR, POST) REPLAY(id) { boolean_value a = mk(wit, "a"), b = mk(wit, "b"); GH; boolean_value r = EXPR; res(r); return POST(L(r), L(a), L(b), g_p); }
RBIN1(bv_join, a | b, POST_join) RBIN1(bv_meet, a & b, POST_meet) RBIN1(bv_widen, a || b, POST_widen) RBIN1(bv_narrow, a && b, POST_narrow)
#define RBIN2(id, EXPR, POST) REPLAY(id) { boolean_value a = mk(wit, "a"), b = mk(wit, "b"); GH; boolean_value r = EXPR; res(r); return POST(L(r), L(a), L(b), g_p, g_q); }
RBIN2(bv_and, a.And(b), POST_and) RBIN2(bv_or, a.Or(b), POST_or) RBIN2(bv_xor, a.Xor(b), POST_xor)
REPLAY(bv_negate) { boolean_value a = mk(wit, "a"); GH; boolean_value r = a.Negate(); res(r); return POST_negate(L(r), L(a), g_p); }
REPLAY(bv_join_asg) { boolean_value a = mk(wit, "a"), b = mk(wit, "b"), o = a; GH; a |= b; res(a); return bv_ok(*L(a)) && (!(bv_has(*L(o), g_p) || bv_has(*L(b), g_p)) || bv_has(*L(a), g_p)); }
REPLAY(bv_leq) { boolean_value a = mk(wit, "a"), b = mk(wit, "b"); GH; bool rv = a <= b; printf("  result = %d\n", rv); return POST_leq(rv, L(a), L(b), g_p); }
REPLAY(bv_leq_refl) { boolean_value a = mk(wit, "a"); return a <= a; }
REPLAY(bv_eq) { boolean_value a = mk(wit, "a"), b = mk(wit, "b"); bool rv = a == b; printf("  result = %d\n", rv); return POST_eq(rv, L(a), L(b)); }
#define RQ(id, CALL, POST) REPLAY(id) { boolean_value a = mk(wit, "a"); GH; bool rv = a.CALL(); printf("  result = %d\n", rv); return POST(rv, L(a), g_p); }
RQ(bv_is_bottom, is_bottom, POST_is_bottom) RQ(bv_is_top, is_top, POST_is_top) RQ(bv_is_true, is_true, POST_is_true) RQ(bv_is_false, is_false, POST_is_false)
REPLAY(bv_agree) { boolean_value a = mk(wit, "a"); return a.make_bottom().is_bottom() && !a.make_bottom().is_top() && a.make_top().is_top() && !a.make_top().is_bottom()
  && boolean_value::bottom().is_bottom() && boolean_value::top().is_top(); }
REPLAY(bv_assign) { boolean_value a = mk(wit, "a"), b = mk(wit, "b"); boolean_value &r = (a = b); return &r == &a && bv_same(*L(a), *L(b)); }
REPLAY(bv_assign_self) { boolean_value a = mk(wit, "a"); uint32_t k = L(a)->f1; a = a; return L(a)->f1 == k; }
#define RST(id, CALL, KIND) REPLAY(id) { boolean_value r = boolean_value::CALL(); res(r); return L(r)->f1 == (KIND); }
RST(bv_bottom, bottom, BV_BOTTOM) RST(bv_top, top, BV_TOP) RST(bv_get_true, get_true, BV_TRUE) RST(bv_get_false, get_false, BV_FALSE)
int main(int argc, char **argv) { return replay_main(argc, argv); }
