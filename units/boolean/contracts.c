/* Contracts for crab::domains::boolean_value (lib/boolean.cpp) — properties C08 (the logical operations
 * over-approximate the concrete ones; join/meet contain union/intersection), C04 (inclusion test, join,
 * meet, is_bottom/is_top agree with the concretisation), C05 (widening = join stabilises, narrowing keeps
 * its second argument).  Loop-free: every check is a full proof over all 4 (x 4) abstract values and all
 * truth values of the ghost points.  Not covered: write(), domain_name() (stream / std::string code). */
#include "spec.h"
unsigned g_p, g_q;                   /* ghost truth values: arbitrary in {0,1}, never assigned by the code */
#define GRANGE (g_p <= 1u && g_q <= 1u)
#define HGHOSTS GHOSTG(unsigned, g_p); GHOSTG(unsigned, g_q)
/* an arbitrary input object of dynamic type boolean_value (the v-table pointer is what the constructors store) */
#define INBV(a) BV a; a.f0.f0 = BV_VPTR; static BV wit_##a; wit_##a = a
#define F1(tag) FRESH(tag, self, sizeof(BV))
#define F2(tag) (FRESH(tag, self, sizeof(BV)) && FRESH(tag, x, sizeof(BV)))
#define F3(tag) (FRESH(tag, ret, sizeof(BV)) && FRESH(tag, self, sizeof(BV)) && FRESH(tag, x, sizeof(BV)))

/* ---------------------------------------------------------------- constructors and factories */
//@check id=bv_ctor_kind fn=_ZN4crab7domains13boolean_valueC2ENS1_6kind_tE props=C08,C04
void _ZN4crab7domains13boolean_valueC2ENS1_6kind_tE(BV *self, uint32_t v)
__CPROVER_requires(F1(bv_ctor_kind) && v <= 3u)
__CPROVER_assigns(*self)
__CPROVER_ensures(bv_ok(*self) && K(self) == v);
void h_bv_ctor_kind(void){ BV r; GHOST(uint32_t, v); _ZN4crab7domains13boolean_valueC2ENS1_6kind_tE(&r, v); REACH; }
/* boolean_value(): top */
//@check id=bv_ctor_default fn=_ZN4crab7domains13boolean_valueC2Ev props=C08,C04
void _ZN4crab7domains13boolean_valueC2Ev(BV *self)
__CPROVER_requires(F1(bv_ctor_default))
__CPROVER_assigns(*self)
__CPROVER_ensures(bv_ok(*self) && K(self) == BV_TOP);
void h_bv_ctor_default(void){ BV r; _ZN4crab7domains13boolean_valueC2Ev(&r); REACH; }
//@check id=bv_ctor_copy fn=_ZN4crab7domains13boolean_valueC2ERKS1_ props=C08,C04
void _ZN4crab7domains13boolean_valueC2ERKS1_(BV *self, BV *x)
__CPROVER_requires(F2(bv_ctor_copy) && bv_ok(*x))
__CPROVER_assigns(*self)
__CPROVER_ensures(bv_ok(*self) && bv_same(*self, *x));
void h_bv_ctor_copy(void){ BV r; INBV(b); _ZN4crab7domains13boolean_valueC2ERKS1_(&r, &b); REACH; }
//@check id=bv_assign fn=_ZN4crab7domains13boolean_valueaSERKS1_ props=C08,C04
BV *_ZN4crab7domains13boolean_valueaSERKS1_(BV *self, BV *x)
__CPROVER_requires(F2(bv_assign) && bv_ok(*self) && bv_ok(*x))
__CPROVER_assigns(*self)
__CPROVER_ensures(__CPROVER_return_value == self && bv_ok(*self) && bv_same(*self, *x));
void h_bv_assign(void){ INBV(a); INBV(b); _ZN4crab7domains13boolean_valueaSERKS1_(&a, &b); REACH; }
/* self-assignment keeps the value */
//@check id=bv_assign_self fn=_ZN4crab7domains13boolean_valueaSERKS1_ tag=bv_assign props=C04
void h_bv_assign_self(void){ INBV(a); uint32_t k = a.f1; _ZN4crab7domains13boolean_valueaSERKS1_(&a, &a); __CPROVER_assert(a.f1 == k, "x = x keeps x"); REACH; }

#define STATIC(tag, fn, KIND) \
void fn(BV *ret) \
__CPROVER_requires(FRESH(tag, ret, sizeof(BV)) && TOP(tag, GRANGE)) \
__CPROVER_assigns(*ret) \
__CPROVER_ensures(bv_ok(*ret) && K(ret) == (KIND)) \
__CPROVER_ensures(TOP(tag, bv_has(*ret, g_p) == ((KIND) == BV_TOP || (KIND) == g_p))); \
void h_##tag(void){ BV r; HGHOSTS; fn(&r); REACH; }
//@check id=bv_bottom fn=_ZN4crab7domains13boolean_value6bottomEv props=C08,C04
STATIC(bv_bottom, _ZN4crab7domains13boolean_value6bottomEv, BV_BOTTOM)
//@check id=bv_top fn=_ZN4crab7domains13boolean_value3topEv props=C08,C04
STATIC(bv_top, _ZN4crab7domains13boolean_value3topEv, BV_TOP)
//@check id=bv_get_true fn=_ZN4crab7domains13boolean_value8get_trueEv props=C08
STATIC(bv_get_true, _ZN4crab7domains13boolean_value8get_trueEv, BV_TRUE)
//@check id=bv_get_false fn=_ZN4crab7domains13boolean_value9get_falseEv props=C08
STATIC(bv_get_false, _ZN4crab7domains13boolean_value9get_falseEv, BV_FALSE)

#define MAKE(tag, fn, KIND) \
void fn(BV *ret, BV *self) \
__CPROVER_requires(FRESH(tag, ret, sizeof(BV)) && F1(tag) && bv_ok(*self)) \
__CPROVER_assigns(*ret) \
__CPROVER_ensures(bv_ok(*ret) && K(ret) == (KIND)); \
void h_##tag(void){ INBV(a); BV r; fn(&r, &a); REACH; }
//@check id=bv_make_bottom fn=_ZNK4crab7domains13boolean_value11make_bottomEv props=C08,C04
MAKE(bv_make_bottom, _ZNK4crab7domains13boolean_value11make_bottomEv, BV_BOTTOM)
//@check id=bv_make_top fn=_ZNK4crab7domains13boolean_value8make_topEv props=C08,C04
MAKE(bv_make_top, _ZNK4crab7domains13boolean_value8make_topEv, BV_TOP)
#define SETTO(tag, fn, KIND) \
void fn(BV *self) \
__CPROVER_requires(F1(tag) && bv_ok(*self)) \
__CPROVER_assigns(*self) \
__CPROVER_ensures(bv_ok(*self) && K(self) == (KIND)); \
void h_##tag(void){ INBV(a); fn(&a); REACH; }
//@check id=bv_set_to_top fn=_ZN4crab7domains13boolean_value10set_to_topEv props=C08,C04
SETTO(bv_set_to_top, _ZN4crab7domains13boolean_value10set_to_topEv, BV_TOP)
//@check id=bv_set_to_bottom fn=_ZN4crab7domains13boolean_value13set_to_bottomEv props=C08,C04
SETTO(bv_set_to_bottom, _ZN4crab7domains13boolean_value13set_to_bottomEv, BV_BOTTOM)

/* ---------------------------------------------------------------- queries */
#define QUERY(tag, fn, POST) \
unsigned char fn(BV *self) \
__CPROVER_requires(F1(tag) && bv_ok(*self) && TOP(tag, GRANGE)) \
__CPROVER_assigns() \
__CPROVER_ensures(TOP(tag, POST(__CPROVER_return_value, self, g_p))); \
void h_##tag(void){ INBV(a); HGHOSTS; fn(&a); REACH; }
/* is_bottom() <=> no truth value is described; is_top() => every truth value is described */
//@check id=bv_is_bottom fn=_ZNK4crab7domains13boolean_value9is_bottomEv props=C08,C04
QUERY(bv_is_bottom, _ZNK4crab7domains13boolean_value9is_bottomEv, POST_is_bottom)
//@check id=bv_is_top fn=_ZNK4crab7domains13boolean_value6is_topEv props=C08,C04
QUERY(bv_is_top, _ZNK4crab7domains13boolean_value6is_topEv, POST_is_top)
//@check id=bv_is_true fn=_ZNK4crab7domains13boolean_value7is_trueEv props=C08
QUERY(bv_is_true, _ZNK4crab7domains13boolean_value7is_trueEv, POST_is_true)
//@check id=bv_is_false fn=_ZNK4crab7domains13boolean_value8is_falseEv props=C08
QUERY(bv_is_false, _ZNK4crab7domains13boolean_value8is_falseEv, POST_is_false)
/* is_bottom/is_top agree with make_bottom/make_top and the factories (real functions composed in the harness; dfcc wants the enforced
 * function called exactly once: that is make_bottom(), everything else runs in line) */
//@check id=bv_agree fn=_ZNK4crab7domains13boolean_value11make_bottomEv tag=bv_make_bottom props=C04
void h_bv_agree(void){ INBV(a); HGHOSTS; BV r;     /* bv_ok(a) is the precondition of the enforced make_bottom */
  _ZNK4crab7domains13boolean_value11make_bottomEv(&r, &a);
  __CPROVER_assert(_ZNK4crab7domains13boolean_value9is_bottomEv(&r), "make_bottom().is_bottom()");
  __CPROVER_assert(!_ZNK4crab7domains13boolean_value6is_topEv(&r), "!make_bottom().is_top()");
  _ZNK4crab7domains13boolean_value8make_topEv(&r, &a);
  __CPROVER_assert(_ZNK4crab7domains13boolean_value6is_topEv(&r), "make_top().is_top()");
  __CPROVER_assert(!_ZNK4crab7domains13boolean_value9is_bottomEv(&r), "!make_top().is_bottom()");
  _ZN4crab7domains13boolean_value6bottomEv(&r);
  __CPROVER_assert(_ZNK4crab7domains13boolean_value9is_bottomEv(&r), "bottom().is_bottom()");
  _ZN4crab7domains13boolean_value3topEv(&r);
  __CPROVER_assert(_ZNK4crab7domains13boolean_value6is_topEv(&r), "top().is_top()");
  REACH; }

/* ---------------------------------------------------------------- order and lattice operations */
//@check id=bv_leq fn=_ZNK4crab7domains13boolean_valueleERKS1_ props=C08,C04
unsigned char _ZNK4crab7domains13boolean_valueleERKS1_(BV *self, BV *x)
__CPROVER_requires(F2(bv_leq) && bv_ok(*self) && bv_ok(*x) && TOP(bv_leq, GRANGE))
__CPROVER_assigns()
__CPROVER_ensures(TOP(bv_leq, POST_leq(__CPROVER_return_value, self, x, g_p)));
void h_bv_leq(void){ INBV(a); INBV(b); HGHOSTS; _ZNK4crab7domains13boolean_valueleERKS1_(&a, &b); REACH; }
/* reflexivity with the same object on both sides */
//@check id=bv_leq_refl fn=_ZNK4crab7domains13boolean_valueleERKS1_ tag=bv_leq props=C04
void h_bv_leq_refl(void){ INBV(a); HGHOSTS; unsigned char r = _ZNK4crab7domains13boolean_valueleERKS1_(&a, &a); __CPROVER_assert(r, "x <= x"); REACH; }
//@check id=bv_eq fn=_ZNK4crab7domains13boolean_valueeqERKS1_ props=C08,C04
unsigned char _ZNK4crab7domains13boolean_valueeqERKS1_(BV *self, BV *x)
__CPROVER_requires(F2(bv_eq) && bv_ok(*self) && bv_ok(*x))
__CPROVER_assigns()
__CPROVER_ensures(POST_eq(__CPROVER_return_value, self, x));
void h_bv_eq(void){ INBV(a); INBV(b); _ZNK4crab7domains13boolean_valueeqERKS1_(&a, &b); REACH; }

#define BIN1(tag, fn, POST) \
void fn(BV *ret, BV *self, BV *x) \
__CPROVER_requires(F3(tag) && bv_ok(*self) && bv_ok(*x) && TOP(tag, GRANGE)) \
__CPROVER_assigns(*ret) \
__CPROVER_ensures(TOP(tag, POST(ret, self, x, g_p))); \
void h_##tag(void){ INBV(a); INBV(b); HGHOSTS; BV r; fn(&r, &a, &b); REACH; }
//@check id=bv_join fn=_ZNK4crab7domains13boolean_valueorERKS1_ props=C08,C04
BIN1(bv_join, _ZNK4crab7domains13boolean_valueorERKS1_, POST_join)
//@check id=bv_meet fn=_ZNK4crab7domains13boolean_valueanERKS1_ props=C08,C04
BIN1(bv_meet, _ZNK4crab7domains13boolean_valueanERKS1_, POST_meet)
//@check id=bv_widen fn=_ZNK4crab7domains13boolean_valueooERKS1_ props=C08,C05
BIN1(bv_widen, _ZNK4crab7domains13boolean_valueooERKS1_, POST_widen)
//@check id=bv_narrow fn=_ZNK4crab7domains13boolean_valueaaERKS1_ props=C08,C05
BIN1(bv_narrow, _ZNK4crab7domains13boolean_valueaaERKS1_, POST_narrow)
/* x |= o : in-place join */
//@check id=bv_join_asg fn=_ZN4crab7domains13boolean_valueoRERKS1_ props=C08,C04
void _ZN4crab7domains13boolean_valueoRERKS1_(BV *self, BV *x)
__CPROVER_requires(F2(bv_join_asg) && bv_ok(*self) && bv_ok(*x) && TOP(bv_join_asg, GRANGE))
__CPROVER_assigns(*self)
__CPROVER_ensures(bv_ok(*self))
__CPROVER_ensures(TOP(bv_join_asg, (bv_has(__CPROVER_old(*self), g_p) || bv_has(*x, g_p)) ==> bv_has(*self, g_p)));
void h_bv_join_asg(void){ INBV(a); INBV(b); HGHOSTS; _ZN4crab7domains13boolean_valueoRERKS1_(&a, &b); REACH; }

/* ---------------------------------------------------------------- logical operations */
#define BIN2(tag, fn, POST) \
void fn(BV *ret, BV *self, BV *x) \
__CPROVER_requires(F3(tag) && bv_ok(*self) && bv_ok(*x) && TOP(tag, GRANGE)) \
__CPROVER_assigns(*ret) \
__CPROVER_ensures(TOP(tag, POST(ret, self, x, g_p, g_q))); \
void h_##tag(void){ INBV(a); INBV(b); HGHOSTS; BV r; fn(&r, &a, &b); REACH; }
//@check id=bv_and fn=_ZNK4crab7domains13boolean_value3AndES1_ props=C08
BIN2(bv_and, _ZNK4crab7domains13boolean_value3AndES1_, POST_and)
//@check id=bv_or fn=_ZNK4crab7domains13boolean_value2OrES1_ props=C08
BIN2(bv_or, _ZNK4crab7domains13boolean_value2OrES1_, POST_or)
//@check id=bv_xor fn=_ZNK4crab7domains13boolean_value3XorES1_ props=C08
BIN2(bv_xor, _ZNK4crab7domains13boolean_value3XorES1_, POST_xor)
//@check id=bv_negate fn=_ZNK4crab7domains13boolean_value6NegateEv props=C08
void _ZNK4crab7domains13boolean_value6NegateEv(BV *ret, BV *self)
__CPROVER_requires(FRESH(bv_negate, ret, sizeof(BV)) && F1(bv_negate) && bv_ok(*self) && TOP(bv_negate, GRANGE))
__CPROVER_assigns(*ret)
__CPROVER_ensures(TOP(bv_negate, POST_negate(ret, self, g_p)));
void h_bv_negate(void){ INBV(a); HGHOSTS; BV r; _ZNK4crab7domains13boolean_value6NegateEv(&r, &a); REACH; }
