/* Specification vocabulary for crab::domains::boolean_value (include/crab/domains/boolean.hpp,
 * lib/boolean.cpp).  Shared by contracts.c (CBMC) and replay.cpp (native).
 * BV is the compiler's own lowering of the class: f0 = the lattice_domain_api base (v-table pointer),
 * f1 = _value (kind_t: False = 0, True = 1, Bottom = 2, Top = 3), f2 = tail padding.
 *
 * Stated meaning (header): "A 3-valued boolean value", the lattice  Bottom < True, False < Top.
 * Concretisation: a set of truth values b in {0,1}:
 *   Bottom = {},  False = {0},  True = {1},  Top = {0,1}. */
#ifndef BOOLEAN_SPEC_H
#define BOOLEAN_SPEC_H
#include "verif.h"
#include "unit_types.h"
typedef struct S_class_crab__domains__boolean_value BV;
#define BV_FALSE 0u
#define BV_TRUE 1u
#define BV_BOTTOM 2u
#define BV_TOP 3u
#define K(p) ((p)->f1)
#ifdef __cplusplus
#define BV_VPTR_OK(x) 1
#else
/* the dynamic type of every boolean_value is boolean_value: its v-table pointer is the address point of
 * the class's v-table (Itanium ABI: slot 2, after offset-to-top and RTTI) */
extern const struct anon_82f23bd9d1 _ZTVN4crab7domains13boolean_valueE;   /* emitted const by ll2c: not havocked by dfcc */
#define BV_VPTR ((fnp_ce3e3ea476 *)&_ZTVN4crab7domains13boolean_valueE.f0.a[2])
#define BV_VPTR_OK(x) ((x).f0.f0 == BV_VPTR)
#endif
/* representation invariant: one of the four kinds (and the right dynamic type) */
static inline bool bv_ok(BV x){ return x.f1 <= 3u && BV_VPTR_OK(x); }
/* concretisation, b in {0,1} */
static inline bool bv_has(BV x, unsigned b){ return x.f1 == BV_TOP || (x.f1 == BV_TRUE && b == 1u) || (x.f1 == BV_FALSE && b == 0u); }
/* semantic inclusion, equality, cardinality of the concretisation (rank for the stabilisation argument) */
static inline bool bv_leq(BV a, BV b){ return (!bv_has(a, 0u) || bv_has(b, 0u)) && (!bv_has(a, 1u) || bv_has(b, 1u)); }
static inline bool bv_same(BV a, BV b){ return a.f1 == b.f1; }
static inline int bv_rank(BV a){ return (bv_has(a, 0u) ? 1 : 0) + (bv_has(a, 1u) ? 1 : 0); }

#define POST_is_bottom(rv, s, g)  (((rv) != 0) == (K(s) == BV_BOTTOM) && ((rv) ? !bv_has(*(s), g) : (bv_has(*(s), 0u) || bv_has(*(s), 1u))))
#define POST_is_top(rv, s, g)     (((rv) != 0) == (K(s) == BV_TOP) && (!(rv) || bv_has(*(s), g)))
#define POST_is_true(rv, s, g)    (((rv) != 0) == (K(s) == BV_TRUE) && (!(rv) || (bv_has(*(s), g) == ((g) == 1u))))
#define POST_is_false(rv, s, g)   (((rv) != 0) == (K(s) == BV_FALSE) && (!(rv) || (bv_has(*(s), g) == ((g) == 0u))))
/* inclusion: exactly the order of the diagram = inclusion of concretisations */
#define POST_leq(rv, s, x, g)     (((rv) != 0) == bv_leq(*(s), *(x)) && (((rv) && bv_has(*(s), g)) ? bv_has(*(x), g) : 1) \
                                   && (K(s) != BV_BOTTOM || (rv)) && (K(x) != BV_TOP || (rv)) && (!bv_same(*(s), *(x)) || (rv)))
#define POST_eq(rv, s, x)         (((rv) != 0) == bv_same(*(s), *(x)))
/* join / meet: at least (here: exactly) union / intersection */
#define POST_join(r, s, x, g)     (bv_ok(*(r)) && ((bv_has(*(s), g) || bv_has(*(x), g)) ? bv_has(*(r), g) : 1) && bv_leq(*(s), *(r)) && bv_leq(*(x), *(r)))
#define POST_meet(r, s, x, g)     (bv_ok(*(r)) && ((bv_has(*(s), g) && bv_has(*(x), g)) ? bv_has(*(r), g) : 1))
/* widening (= join): upper bound, stationary on an included argument, otherwise strictly more elements (at most 2) */
#define POST_widen(r, s, x, g)    (POST_join(r, s, x, g) && (bv_leq(*(x), *(s)) ? bv_same(*(r), *(s)) : bv_rank(*(r)) > bv_rank(*(s))) && bv_rank(*(r)) <= 2)
/* narrowing (= meet) of a decreasing pair keeps the second argument */
#define POST_narrow(r, s, x, g)   (bv_ok(*(r)) && ((bv_leq(*(x), *(s)) && bv_has(*(x), g)) ? bv_has(*(r), g) : 1) && (bv_leq(*(x), *(s)) ? bv_leq(*(r), *(s)) : 1))
/* logical operations on truth values p, q in {0,1} */
#define POST_and(r, s, x, p, q)   (bv_ok(*(r)) && ((bv_has(*(s), p) && bv_has(*(x), q)) ? bv_has(*(r), (p) & (q)) : 1))
#define POST_or(r, s, x, p, q)    (bv_ok(*(r)) && ((bv_has(*(s), p) && bv_has(*(x), q)) ? bv_has(*(r), (p) | (q)) : 1))
#define POST_xor(r, s, x, p, q)   (bv_ok(*(r)) && ((bv_has(*(s), p) && bv_has(*(x), q)) ? bv_has(*(r), (p) ^ (q)) : 1))
#define POST_negate(r, s, p)      (bv_ok(*(r)) && (bv_has(*(s), p) ? bv_has(*(r), 1u - (p)) : 1))
#endif
