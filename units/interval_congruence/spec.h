/* Specification vocabulary for crab::domains::interval_congruence<ikos::z_number>
 * (include/crab/domains/interval_congruence.hpp, interval_congruence_impl.hpp, lib/interval_congruence.cpp): the
 * reduced product of an interval and a congruence.  Shared by contracts.c (CBMC) and replay.cpp (native).
 *
 * The components are described with the vocabulary of their own units, included as they are:
 *   ../interval/spec.h    B, I, b_*, i_ok, i_bot, i_top, i_has (bounds are extended integers)
 *   ../congruence/spec.h  C, c_ok, c_bot, c_top, c_has, dvd, fmod_, S_mul / S_div / S_rem and the lemma instances T_*
 * P is the compiler's lowering of the class: P = { f0 = m_first : I, f1 = m_second : C }.
 *
 * Arithmetic modes: those of ../congruence/spec.h (default: `*`, `/`, `%` of the number model are uninterpreted symbols
 * and divisibility facts enter through lemma instances; -DZM_SMALL=16: bounded cross-check with machine arithmetic).
 */
#ifndef IC_SPEC_H
#define IC_SPEC_H
#include "../interval/spec.h"
#include "../congruence/spec.h"
typedef struct S_class_crab__domains__interval_congruence P;

/* Magnitudes.  INPUTS of the operations: finite interval bounds, moduli and remainders strictly inside (-ZB, ZB)
 * (i_ok, c_ok: the preconditions of the component operations).  The private helpers, reduce() and the constructors take
 * the RESULTS of component operations (products, shifted values): anything strictly inside (-RB, RB); their own results
 * stay inside (-2RB, 2RB), which is inside the range of the number model (2^100). */
#ifndef RBITS
#ifdef ZM_SMALL
#define RBITS (ZBITS + 2)
#else
#define RBITS 98
#endif
#endif
#define RB (((i128)1) << RBITS)

/* concretisation of the pair: the integers described by BOTH components */
#define ic_has(p, v) (i_has((p).f0, v) && c_has((p).f1, v))
/* component-wise well-formedness (nothing about reduction) */
#define p_okz(p, z) (i_okz((p).f0, z) && c_okz((p).f1, z))
#define p_ok(p) p_okz(p, ZB)
#define ic_bot(p) (i_bot((p).f0) || c_bot((p).f1))
#define ic_top(p) (i_top((p).f0) && c_top((p).f1))

/* REDUCED FORM, what reduce() establishes (Granger's rules of the header comment):
 *   - bottom is (bottom, bottom);
 *   - a singleton congruence 0Z+b comes with the interval [b, b];
 *   - otherwise every finite bound of the interval is an element of the congruence, and a singleton interval comes with
 *     a singleton congruence.
 * A reduced pair that is not bottom describes at least one integer (ic_witness). */
static inline bool ic_reduced(I i, C c){
  if (i_bot(i) || c_bot(c)) return i_bot(i) && c_bot(c);
  bool lf = !b_inf(i.f0), uf = !b_inf(i.f1);
  if (c_a(c) == 0) return lf && uf && bval(i.f0) == c_b(c) && bval(i.f1) == c_b(c);
  return (!lf || dvd(c_a(c), bval(i.f0) - c_b(c))) && (!uf || dvd(c_a(c), bval(i.f1) - c_b(c))) && !(lf && uf && bval(i.f0) == bval(i.f1)); }
static inline i128 ic_witness(I i, C c){ return !b_inf(i.f0) ? bval(i.f0) : !b_inf(i.f1) ? bval(i.f1) : c_b(c); }

/* ================================================================ lemma instances (unbounded mode)
 * Two schemas about "the least element of mZ+b that is >= a" and "the greatest that is <= a"; both are proved in
 * units/interval_congruence/lemmas.smt2 (z3 and cvc5, every run) from the kernel facts of units/congruence/lemmas.smt2:
 *   T_RLEAST(m, b, a, v):  m > 0, r = (b - a) mod m, x = a + r  ==>  0 <= r < m,  m | x - b,  (m | v - b and v >= a ==> v >= x)
 *   T_LGREATEST(m, b, a, v): m > 0, r = (a - b) mod m, y = a - r ==>  0 <= r < m,  m | y - b,  (m | v - b and v <= a ==> v <= y)
 * (vacuous when an argument lies outside the modelled range, as the T_* of ../congruence/spec.h) */
static inline bool T_RLEAST(i128 m, i128 b, i128 a, i128 v){
  if (!(RNG(m) && RNG(b) && RNG(a) && RNG(v)) || m <= 0) return true;
  i128 r = fmod_(b - a, m), x = a + r;
  return 0 <= r && r < m && dvd(m, x - b) && IMP(dvd(m, v - b) && v >= a, v >= x); }
static inline bool T_LGREATEST(i128 m, i128 b, i128 a, i128 v){
  if (!(RNG(m) && RNG(b) && RNG(a) && RNG(v)) || m <= 0) return true;
  i128 r = fmod_(a - b, m), y = a - r;
  return 0 <= r && r < m && dvd(m, y - b) && IMP(dvd(m, v - b) && v <= a, v <= y); }
#endif
