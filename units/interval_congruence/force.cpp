// Forcing TU for unit `interval_congruence`: no logic of its own.  lib/interval_congruence.cpp exactly as it is (the
// explicit instantiation crab::domains::interval_congruence<ikos::z_number>), plus lib/interval.cpp and
// lib/congruence.cpp exactly as they are (the explicit instantiations of ikos::bound / ikos::interval /
// ikos::congruence over z_number whose members the reduced product calls).  All three are reached through the include
// path of the working tree (-I<repo>/include), hence follow CRAB_REPO.
// (order: the explicit specialisations of interval<z_number> members in lib/interval.cpp must precede their first use)
#include <../lib/interval.cpp>
#include <../lib/congruence.cpp>
#include <../lib/interval_congruence.cpp>
