/* Contracts for crab::domains::interval_congruence<ikos::z_number> — properties C08 (soundness of every operation with
 * ghost concrete points), C04 (join / meet / is_bottom / is_top / top() / bottom() agree with the concretisation).
 *
 * Concretisation of a pair: ic_has(p, v) = i_has(p.first, v) && c_has(p.second, v).
 *
 * STRUCTURE.  The class is a thin layer: every operation computes the two component results and hands them to the
 * constructor (interval&&, congruence&&), which calls reduce().  Accordingly:
 *   mod, R, L      proved on their real bodies; what they need about divisibility is ONE instance each of a schema
 *                  proved in lemmas.smt2 (T_RLEAST / T_LGREATEST) resp. units/congruence/lemmas.smt2 (T_NF);
 *   reduce()       proved on its real body with R and L replaced by their contracts (ic_reduce); cross-checks with
 *                  everything in line: ic_reduce_inline (lemma instances) and ic_reduce_b (bounded, machine arithmetic);
 *   constructors   real bodies, reduce() replaced by its contract;
 *   operations     real bodies; the component operation (interval<z_number>::op, congruence<z_number>::op: other
 *                  translation units, proved in units/interval and units/congruence) and the constructor are replaced by
 *                  their contracts (callees.h: ASSUMED HERE, proved there).
 * The class has NO operator<=, operator==, widening or narrowing (interval_congruence.hpp): nothing to check for those
 * parts of C04 / C05 at this level.
 */
#include "post.h"
#include "callees.h"
i128 g_x, g_y;                      /* ghost concrete operands: arbitrary, never assigned by the code */
i128 g_v;                           /* ghost concrete result / member */
i128 g_w;                           /* ghost bit width of the unsigned readings (UDiv, URem) */
i128 g_d, g_e;                      /* (declared by ../congruence/post.h; unused here) */
#define RV __CPROVER_return_value
#define GRANGE (inb(g_x, ZB) && inb(g_y, ZB) && inb(g_v, RB))
#define HGHOSTS GHOSTG(i128, g_x); GHOSTG(i128, g_y); GHOSTG(i128, g_v); GHOSTG(i128, g_w)
/* a hypothesis that exists only while the contract is the enforced one (valid lemma instances, ../congruence) */
#define WHEN(tag, e) TOP(tag, e)
#define ZVAL(p) zraw(*(p))
/* mangled names */
#define N_MOD    _ZNK4crab7domains19interval_congruenceIN4ikos8z_numberEE3modES3_S3_
#define N_ABS    _ZNK4crab7domains19interval_congruenceIN4ikos8z_numberEE3absES3_
#define N_R      _ZNK4crab7domains19interval_congruenceIN4ikos8z_numberEE1RENS2_10congruenceIS3_EES3_
#define N_L      _ZNK4crab7domains19interval_congruenceIN4ikos8z_numberEE1LENS2_10congruenceIS3_EES3_
#define N_REDUCE _ZN4crab7domains19interval_congruenceIN4ikos8z_numberEE6reduceEv
#define N_CTOR_IC _ZN4crab7domains19interval_congruenceIN4ikos8z_numberEEC1EONS2_8intervalIS3_EEONS2_10congruenceIS3_EE
#define N_CTOR_I _ZN4crab7domains19interval_congruenceIN4ikos8z_numberEEC1EONS2_8intervalIS3_EE
#define N_CTOR_C _ZN4crab7domains19interval_congruenceIN4ikos8z_numberEEC1EONS2_10congruenceIS3_EE
#define N_CTOR_N _ZN4crab7domains19interval_congruenceIN4ikos8z_numberEEC1ES3_
#define N_CTOR_B _ZN4crab7domains19interval_congruenceIN4ikos8z_numberEEC1Eb
#define N_TOP    _ZN4crab7domains19interval_congruenceIN4ikos8z_numberEE3topEv
#define N_BOTTOM _ZN4crab7domains19interval_congruenceIN4ikos8z_numberEE6bottomEv
#define N_ISBOT  _ZN4crab7domains19interval_congruenceIN4ikos8z_numberEE9is_bottomEv
#define N_ISTOP  _ZN4crab7domains19interval_congruenceIN4ikos8z_numberEE6is_topEv

/* ---- harness-side predicates: macros only (a function called from a contract clause must not be called from a harness) */
#define HZ(z) ((i128)(((u128)(z).f0.a.f1 << 64) | (u128)(z).f0.a.f0))
#define HBV(b) HZ((b).f1)
#define H_PINF(b) ((b).f0 != 0 && HBV(b) > 0)
#define H_MINF(b) ((b).f0 != 0 && HBV(b) < 0)
#define H_BLE(a, b) (H_MINF(a) || H_PINF(b) || ((a).f0 == 0 && (b).f0 == 0 && HBV(a) <= HBV(b)))
#define H_IBOT(i) (!H_BLE((i).f0, (i).f1))
#define H_ITOP(i) (H_MINF((i).f0) && H_PINF((i).f1))
#define H_CBOT(c) ((c).f0 != 0)
#define H_CTOP(c) ((c).f0 == 0 && HZ((c).f1) == 1)

/* ================================================================ private helpers */
/* abs(x) */
//@check id=ic_abs fn=_ZNK4crab7domains19interval_congruenceIN4ikos8z_numberEE3absES3_ props=C08 backends=cadical,kissat first_timeout=200 timeout=400
void N_ABS(Z *ret, P *self, Z *x)
__CPROVER_requires(FRESH(ic_abs, ret, sizeof(Z)) && FRESH(ic_abs, x, sizeof(Z)) && inb(ZVAL(x), ZLIM))
__CPROVER_assigns(*ret)
__CPROVER_ensures(ZVAL(ret) == iabs(ZVAL(x)));
void h_ic_abs(void){ IN(Z, a); P s; Z r; N_ABS(&r, &s, &a); REACH; }

/* mod(a, b), b > 0 (the only use: b = |modulus| of a non-singleton congruence): THE remainder in [0, b), i.e.
 * 0 <= ret < b and b | a - ret */
//@check id=ic_mod fn=_ZNK4crab7domains19interval_congruenceIN4ikos8z_numberEE3modES3_S3_ props=C08 backends=cadical,kissat first_timeout=300 timeout=600
//@check id=ic_mod_b fn=_ZNK4crab7domains19interval_congruenceIN4ikos8z_numberEE3modES3_S3_ tag=ic_mod harness=h_ic_mod props=C08 defs=ZM_SMALL=16,ZBITS=3 bounded="dividend below 64, divisor below 32 in magnitude; 16-bit machine remainder" backends=cadical,kissat first_timeout=300 timeout=600
void N_MOD(Z *ret, P *self, Z *a, Z *b)
__CPROVER_requires(FRESH(ic_mod, ret, sizeof(Z)) && FRESH(ic_mod, a, sizeof(Z)) && FRESH(ic_mod, b, sizeof(Z)))
__CPROVER_requires(inb(ZVAL(a), 2 * RB) && ZVAL(b) > 0 && ZVAL(b) < RB)
__CPROVER_assigns(*ret)
__CPROVER_ensures(ZVAL(ret) == fmod_(ZVAL(a), ZVAL(b)))
__CPROVER_ensures(IMP(WHEN(ic_mod, LEM(T_NF(ZVAL(b), ZVAL(a), ZVAL(a)))), POST_ic_mod(ZVAL(ret), ZVAL(a), ZVAL(b))));
void h_ic_mod(void){ IN(Z, a); IN(Z, b); P s; Z r; N_MOD(&r, &s, &a, &b); REACH; }

/* R(c, a): THE least element of c that is >= a;  L(c, a): THE greatest element of c that is <= a  (c = mZ+b, m > 0:
 * reduce() calls them only for a congruence that is neither top nor a singleton; a bottom congruence is 1Z+0).
 * "least": no element g_v of c lies in [a, ret). */
#define CM c_a(*c)
#define CB c_b(*c)
#define HELPER(tag, fn, FORMULA, LEMMA, POST) \
void fn(Z *ret, P *self, C *c, Z *a) \
__CPROVER_requires(FRESH(tag, ret, sizeof(Z)) && FRESH(tag, c, sizeof(C)) && FRESH(tag, a, sizeof(Z))) \
__CPROVER_requires(c_okz(*c, RB) && CM > 0 && inb(ZVAL(a), RB) && inb(g_v, RB)) \
__CPROVER_assigns(*ret) \
__CPROVER_ensures(TOP(tag, ZVAL(ret) == (FORMULA))) \
__CPROVER_ensures(IMP(WHEN(tag, LEM(LEMMA(CM, CB, ZVAL(a), g_v))), POST(ZVAL(ret), CM, CB, ZVAL(a)))); \
void h_##tag(void){ IN(C, c); IN(Z, a); HGHOSTS; P s; Z r; fn(&r, &s, &c, &a); REACH; }
//@check id=ic_R fn=_ZNK4crab7domains19interval_congruenceIN4ikos8z_numberEE1RENS2_10congruenceIS3_EES3_ props=C08 backends=cadical,kissat first_timeout=300 timeout=600
//@check id=ic_R_b fn=_ZNK4crab7domains19interval_congruenceIN4ikos8z_numberEE1RENS2_10congruenceIS3_EES3_ tag=ic_R harness=h_ic_R props=C08 defs=ZM_SMALL=16,ZBITS=3 bounded="modulus, remainder, a and the ghost point below 32 in magnitude; 16-bit machine remainder" backends=cadical,kissat first_timeout=300 timeout=600
HELPER(ic_R, N_R, ZVAL(a) + fmod_(CB - ZVAL(a), CM), T_RLEAST, POST_ic_R)
//@check id=ic_L fn=_ZNK4crab7domains19interval_congruenceIN4ikos8z_numberEE1LENS2_10congruenceIS3_EES3_ props=C08 backends=cadical,kissat first_timeout=300 timeout=600
//@check id=ic_L_b fn=_ZNK4crab7domains19interval_congruenceIN4ikos8z_numberEE1LENS2_10congruenceIS3_EES3_ tag=ic_L harness=h_ic_L props=C08 defs=ZM_SMALL=16,ZBITS=3 bounded="modulus, remainder, a and the ghost point below 32 in magnitude; 16-bit machine remainder" backends=cadical,kissat first_timeout=300 timeout=600
HELPER(ic_L, N_L, ZVAL(a) - fmod_(ZVAL(a) - CB, CM), T_LGREATEST, POST_ic_L)

/* ================================================================ reduce() */
/* Nothing is lost (every integer described by both components before is described after), nothing is added (the
 * result is included in the old pair), and the result is in reduced form.
 * ic_reduce: R and L replaced by their contracts above.  ic_reduce_inline: everything in line, the two lemma instances
 * as hypothesis.  ic_reduce_b: everything in line, bounded machine arithmetic. */
static inline bool LS_RED(I i, C c, i128 v){
  if (c_bot(c) || c_a(c) <= 0) return true;
  return (b_inf(i.f0) || T_RLEAST(c_a(c), c_b(c), bval(i.f0), v)) && (b_inf(i.f1) || T_LGREATEST(c_a(c), c_b(c), bval(i.f1), v)); }
#ifdef CHECK_ic_reduce_inline
#define RED_HYP LEM(LS_RED(__CPROVER_old(self->f0), __CPROVER_old(self->f1), g_v))
#else
#define RED_HYP 1
#endif
//@check id=ic_reduce fn=_ZN4crab7domains19interval_congruenceIN4ikos8z_numberEE6reduceEv props=C08,C04 replace=_ZNK4crab7domains19interval_congruenceIN4ikos8z_numberEE1RENS2_10congruenceIS3_EES3_,_ZNK4crab7domains19interval_congruenceIN4ikos8z_numberEE1LENS2_10congruenceIS3_EES3_ backends=cadical,kissat first_timeout=400 timeout=600 cost=9 mem=4
//@check id=ic_reduce_inline fn=_ZN4crab7domains19interval_congruenceIN4ikos8z_numberEE6reduceEv tag=ic_reduce harness=h_ic_reduce props=C08,C04 tier=thorough backends=cadical,kissat first_timeout=900 timeout=900
//@check id=ic_reduce_b fn=_ZN4crab7domains19interval_congruenceIN4ikos8z_numberEE6reduceEv tag=ic_reduce harness=h_ic_reduce props=C08,C04 tier=thorough defs=ZM_SMALL=16,ZBITS=3 bounded="finite bounds, modulus, remainder and ghost point below 32 in magnitude; 16-bit machine remainder" backends=cadical,kissat first_timeout=300 timeout=600
void N_REDUCE(P *self)
__CPROVER_requires(FRESH(ic_reduce, self, sizeof(P)) && p_okz(*self, RB) && inb(g_v, RB))
__CPROVER_assigns(*self)
__CPROVER_ensures(p_okz(*self, 2 * RB))
__CPROVER_ensures(IMP(i_bot(__CPROVER_old(self->f0)) || c_bot(__CPROVER_old(self->f1)), ic_bot(*self)))
__CPROVER_ensures(IMP(WHEN(ic_reduce, RED_HYP), ic_reduced(self->f0, self->f1)))
__CPROVER_ensures(IMP(WHEN(ic_reduce, RED_HYP), POST_ic_same(*self, __CPROVER_old(self->f0), __CPROVER_old(self->f1))));
void h_ic_reduce(void){ IN(P, a); HGHOSTS; N_REDUCE(&a); REACH; }

/* ================================================================ constructors */
/* (interval&&, congruence&&): the reduced form of the pair.  The operands are results of component operations. */
//@check id=ic_ctor_ic fn=_ZN4crab7domains19interval_congruenceIN4ikos8z_numberEEC1EONS2_8intervalIS3_EEONS2_10congruenceIS3_EE props=C08,C04 replace=_ZN4crab7domains19interval_congruenceIN4ikos8z_numberEE6reduceEv backends=cadical,kissat first_timeout=200 timeout=400
void N_CTOR_IC(P *self, I *i, C *c)
__CPROVER_requires(FRESH(ic_ctor_ic, self, sizeof(P)) && FRESH(ic_ctor_ic, i, sizeof(I)) && FRESH(ic_ctor_ic, c, sizeof(C)))
__CPROVER_requires(i_okz(*i, RB) && c_okz(*c, RB) && inb(g_v, RB))
__CPROVER_assigns(*self)
__CPROVER_ensures(POST_ic_shape(*self))
__CPROVER_ensures(IMP(i_bot(*i) || c_bot(*c), ic_bot(*self)))
__CPROVER_ensures(POST_ic_same(*self, *i, *c));
void h_ic_ctor_ic(void){ IN(I, i); IN(C, c); HGHOSTS; P r; N_CTOR_IC(&r, &i, &c); REACH; }
/* (interval&&): the interval with the top congruence, reduced (a singleton interval gets the singleton congruence) */
//@check id=ic_ctor_i fn=_ZN4crab7domains19interval_congruenceIN4ikos8z_numberEEC1EONS2_8intervalIS3_EE props=C08,C04 replace=_ZN4crab7domains19interval_congruenceIN4ikos8z_numberEE6reduceEv backends=cadical,kissat first_timeout=200 timeout=400
void N_CTOR_I(P *self, I *i)
__CPROVER_requires(FRESH(ic_ctor_i, self, sizeof(P)) && FRESH(ic_ctor_i, i, sizeof(I)) && i_okz(*i, RB) && inb(g_v, RB))
__CPROVER_assigns(*self)
__CPROVER_ensures(POST_ic_shape(*self))
__CPROVER_ensures(ic_has(*self, g_v) == i_has(*i, g_v));
void h_ic_ctor_i(void){ IN(I, i); HGHOSTS; P r; N_CTOR_I(&r, &i); REACH; }
/* (congruence&&): the congruence with the top interval, reduced (a singleton congruence gets the singleton interval) */
//@check id=ic_ctor_c fn=_ZN4crab7domains19interval_congruenceIN4ikos8z_numberEEC1EONS2_10congruenceIS3_EE props=C08,C04 replace=_ZN4crab7domains19interval_congruenceIN4ikos8z_numberEE6reduceEv backends=cadical,kissat first_timeout=200 timeout=400
void N_CTOR_C(P *self, C *c)
__CPROVER_requires(FRESH(ic_ctor_c, self, sizeof(P)) && FRESH(ic_ctor_c, c, sizeof(C)) && c_okz(*c, RB) && inb(g_v, RB))
__CPROVER_assigns(*self)
__CPROVER_ensures(POST_ic_shape(*self))
__CPROVER_ensures(ic_has(*self, g_v) == c_has(*c, g_v));
void h_ic_ctor_c(void){ IN(C, c); HGHOSTS; P r; N_CTOR_C(&r, &c); REACH; }
/* (Number n): the singleton {n} */
//@check id=ic_ctor_n fn=_ZN4crab7domains19interval_congruenceIN4ikos8z_numberEEC1ES3_ props=C08,C04 backends=cadical,kissat first_timeout=200 timeout=400
void N_CTOR_N(P *self, Z *n)
__CPROVER_requires(FRESH(ic_ctor_n, self, sizeof(P)) && FRESH(ic_ctor_n, n, sizeof(Z)) && inb(ZVAL(n), RB) && inb(g_v, RB))
__CPROVER_assigns(*self)
__CPROVER_ensures(POST_ic_shape(*self))
__CPROVER_ensures(ic_has(*self, g_v) == (g_v == ZVAL(n)));
void h_ic_ctor_n(void){ IN(Z, n); HGHOSTS; P r; N_CTOR_N(&r, &n); REACH; }
/* (bool is_bottom) [private]: (bottom, bottom) or (top, top) */
//@check id=ic_ctor_bool fn=_ZN4crab7domains19interval_congruenceIN4ikos8z_numberEEC1Eb props=C08,C04 backends=cadical,kissat first_timeout=200 timeout=400
void N_CTOR_B(P *self, unsigned char is_bottom)
__CPROVER_requires(FRESH(ic_ctor_bool, self, sizeof(P)) && is_bottom <= 1 && inb(g_v, RB))
__CPROVER_assigns(*self)
__CPROVER_ensures(p_ok(*self) && ic_reduced(self->f0, self->f1))
__CPROVER_ensures(is_bottom ? (i_bot(self->f0) && c_bot(self->f1) && !ic_has(*self, g_v)) : (ic_top(*self) && ic_has(*self, g_v)));
void h_ic_ctor_bool(void){ GHOST(unsigned char, b); HGHOSTS; P r; N_CTOR_B(&r, b); REACH; }

/* ================================================================ top, bottom, is_top, is_bottom */
//@check id=ic_top fn=_ZN4crab7domains19interval_congruenceIN4ikos8z_numberEE3topEv props=C08,C04 backends=cadical,kissat first_timeout=200 timeout=400
void N_TOP(P *ret)
__CPROVER_requires(FRESH(ic_top, ret, sizeof(P)) && inb(g_v, RB))
__CPROVER_assigns(*ret)
__CPROVER_ensures(p_ok(*ret) && ic_reduced(ret->f0, ret->f1) && ic_top(*ret) && !ic_bot(*ret))
__CPROVER_ensures(ic_has(*ret, g_v));
void h_ic_top(void){ HGHOSTS; P r; N_TOP(&r); REACH; }
//@check id=ic_bottom fn=_ZN4crab7domains19interval_congruenceIN4ikos8z_numberEE6bottomEv props=C08,C04 backends=cadical,kissat first_timeout=200 timeout=400
void N_BOTTOM(P *ret)
__CPROVER_requires(FRESH(ic_bottom, ret, sizeof(P)) && inb(g_v, RB))
__CPROVER_assigns(*ret)
__CPROVER_ensures(p_ok(*ret) && ic_reduced(ret->f0, ret->f1) && ic_bot(*ret) && !ic_top(*ret))
__CPROVER_ensures(!ic_has(*ret, g_v));
void h_ic_bottom(void){ HGHOSTS; P r; N_BOTTOM(&r); REACH; }
/* is_bottom(): yes => no integer is described; no, on a pair in reduced form => some integer is described (witness) */
//@check id=ic_is_bottom fn=_ZN4crab7domains19interval_congruenceIN4ikos8z_numberEE9is_bottomEv props=C08,C04 backends=cadical,kissat first_timeout=200 timeout=400
unsigned char N_ISBOT(P *self)
__CPROVER_requires(FRESH(ic_is_bottom, self, sizeof(P)) && p_okz(*self, 2 * RB) && inb(g_v, RB))
__CPROVER_assigns()
__CPROVER_ensures((RV != 0) == ic_bot(*self))
__CPROVER_ensures(RV ==> !ic_has(*self, g_v))
__CPROVER_ensures((!RV && ic_reduced(self->f0, self->f1)) ==> ic_has(*self, ic_witness(self->f0, self->f1)));
void h_ic_is_bottom(void){ IN(P, a); HGHOSTS; N_ISBOT(&a); REACH; }
/* is_top(): yes => every integer is described */
//@check id=ic_is_top fn=_ZN4crab7domains19interval_congruenceIN4ikos8z_numberEE6is_topEv props=C08,C04 backends=cadical,kissat first_timeout=200 timeout=400
unsigned char N_ISTOP(P *self)
__CPROVER_requires(FRESH(ic_is_top, self, sizeof(P)) && p_okz(*self, 2 * RB) && inb(g_v, RB))
__CPROVER_assigns()
__CPROVER_ensures((RV != 0) == ic_top(*self))
__CPROVER_ensures(RV ==> ic_has(*self, g_v));
void h_ic_is_top(void){ IN(P, a); HGHOSTS; N_ISTOP(&a); REACH; }
/* is_bottom / is_top agree with bottom() / top(): the real objects made by the real functions */
//@check id=ic_is_bottom_of_bottom fn=_ZN4crab7domains19interval_congruenceIN4ikos8z_numberEE9is_bottomEv tag=ic_is_bottom props=C04 backends=cadical,kissat first_timeout=200 timeout=400
void h_ic_is_bottom_of_bottom(void){ HGHOSTS; P r; N_BOTTOM(&r); unsigned char t = N_ISBOT(&r); __CPROVER_assert(t, "bottom().is_bottom() is true"); REACH; }
//@check id=ic_is_bottom_of_top fn=_ZN4crab7domains19interval_congruenceIN4ikos8z_numberEE9is_bottomEv tag=ic_is_bottom props=C04 backends=cadical,kissat first_timeout=200 timeout=400
void h_ic_is_bottom_of_top(void){ HGHOSTS; P r; N_TOP(&r); unsigned char t = N_ISBOT(&r); __CPROVER_assert(!t, "top().is_bottom() is false"); REACH; }
//@check id=ic_is_top_of_top fn=_ZN4crab7domains19interval_congruenceIN4ikos8z_numberEE6is_topEv tag=ic_is_top props=C04 backends=cadical,kissat first_timeout=200 timeout=400
void h_ic_is_top_of_top(void){ HGHOSTS; P r; N_TOP(&r); unsigned char t = N_ISTOP(&r); __CPROVER_assert(t, "top().is_top() is true"); REACH; }
//@check id=ic_is_top_of_bottom fn=_ZN4crab7domains19interval_congruenceIN4ikos8z_numberEE6is_topEv tag=ic_is_top props=C04 backends=cadical,kissat first_timeout=200 timeout=400
void h_ic_is_top_of_bottom(void){ HGHOSTS; P r; N_BOTTOM(&r); unsigned char t = N_ISTOP(&r); __CPROVER_assert(!t, "bottom().is_top() is false"); REACH; }

/* ================================================================ operations */
/* result in reduced form; bottom operand => bottom result (STRICT; not for join, UDiv, URem, and not for meet: the
 * congruence unit does not state strictness of its meet); soundness at the ghost points.
 * The two component calls and the constructor call are replaced by their contracts. */
#define PBIN(tag, op, fn, PRE, STRICT) \
void fn(P *ret, P *self, P *x) \
__CPROVER_requires(FRESH(tag, ret, sizeof(P)) && FRESH(tag, self, sizeof(P)) && FRESH(tag, x, sizeof(P))) \
__CPROVER_requires(p_ok(*self) && p_ok(*x) && (PRE) && TOP(tag, GRANGE)) \
__CPROVER_assigns(*ret) \
__CPROVER_ensures(POST_ic_shape(*ret)) \
__CPROVER_ensures(STRICT(*ret, *self, *x)) \
__CPROVER_ensures(TOP(tag, SOUND_ic_##op(*ret, *self, *x))); \
void h_##tag(void){ IN(P, a); IN(P, b); HGHOSTS; P r; fn(&r, &a, &b); REACH; }
#define NOSTRICT(r, s, x) 1
//@check id=ic_join fn=_ZNK4crab7domains19interval_congruenceIN4ikos8z_numberEEorERKS4_ props=C08,C04 replace=_ZNK4ikos8intervalINS_8z_numberEEorERKS2_,_ZNK4ikos10congruenceINS_8z_numberEEorERKS2_,_ZN4crab7domains19interval_congruenceIN4ikos8z_numberEEC1EONS2_8intervalIS3_EEONS2_10congruenceIS3_EE backends=cadical,kissat first_timeout=200 timeout=400
PBIN(ic_join, join, _ZNK4crab7domains19interval_congruenceIN4ikos8z_numberEEorERKS4_, inb(g_v, ZB), NOSTRICT)
//@check id=ic_meet fn=_ZNK4crab7domains19interval_congruenceIN4ikos8z_numberEEanERKS4_ props=C08,C04 replace=_ZNK4ikos8intervalINS_8z_numberEEanERKS2_,_ZNK4ikos10congruenceINS_8z_numberEEanERKS2_,_ZN4crab7domains19interval_congruenceIN4ikos8z_numberEEC1EONS2_8intervalIS3_EEONS2_10congruenceIS3_EE backends=cadical,kissat first_timeout=200 timeout=400
PBIN(ic_meet, meet, _ZNK4crab7domains19interval_congruenceIN4ikos8z_numberEEanERKS4_, inb(g_v, ZB), NOSTRICT)
//@check id=ic_add fn=_ZNK4crab7domains19interval_congruenceIN4ikos8z_numberEEplERKS4_ props=C08 replace=_ZNK4ikos8intervalINS_8z_numberEEplERKS2_,_ZNK4ikos10congruenceINS_8z_numberEEplERKS2_,_ZN4crab7domains19interval_congruenceIN4ikos8z_numberEEC1EONS2_8intervalIS3_EEONS2_10congruenceIS3_EE backends=cadical,kissat first_timeout=200 timeout=400
PBIN(ic_add, add, _ZNK4crab7domains19interval_congruenceIN4ikos8z_numberEEplERKS4_, 1, STRICT_ic)
//@check id=ic_sub fn=_ZNK4crab7domains19interval_congruenceIN4ikos8z_numberEEmiERKS4_ props=C08 replace=_ZNK4ikos8intervalINS_8z_numberEEmiERKS2_,_ZNK4ikos10congruenceINS_8z_numberEEmiERKS2_,_ZN4crab7domains19interval_congruenceIN4ikos8z_numberEEC1EONS2_8intervalIS3_EEONS2_10congruenceIS3_EE backends=cadical,kissat first_timeout=200 timeout=400
PBIN(ic_sub, sub, _ZNK4crab7domains19interval_congruenceIN4ikos8z_numberEEmiERKS4_, 1, STRICT_ic)
//@check id=ic_mul fn=_ZNK4crab7domains19interval_congruenceIN4ikos8z_numberEEmlERKS4_ props=C08 replace=_ZNK4ikos8intervalINS_8z_numberEEmlERKS2_,_ZNK4ikos10congruenceINS_8z_numberEEmlERKS2_,_ZN4crab7domains19interval_congruenceIN4ikos8z_numberEEC1EONS2_8intervalIS3_EEONS2_10congruenceIS3_EE backends=cadical,kissat first_timeout=200 timeout=400
PBIN(ic_mul, mul, _ZNK4crab7domains19interval_congruenceIN4ikos8z_numberEEmlERKS4_, 1, STRICT_ic)
//@check id=ic_div fn=_ZNK4crab7domains19interval_congruenceIN4ikos8z_numberEEdvERKS4_ props=C08 replace=_ZNK4ikos8intervalINS_8z_numberEEdvERKS2_,_ZNK4ikos10congruenceINS_8z_numberEEdvERKS2_,_ZN4crab7domains19interval_congruenceIN4ikos8z_numberEEC1EONS2_8intervalIS3_EEONS2_10congruenceIS3_EE backends=cadical,kissat first_timeout=200 timeout=400
PBIN(ic_div, div, _ZNK4crab7domains19interval_congruenceIN4ikos8z_numberEEdvERKS4_, 1, STRICT_ic)
//@check id=ic_sdiv fn=_ZNK4crab7domains19interval_congruenceIN4ikos8z_numberEE4SDivERKS4_ props=C08 replace=_ZNK4ikos8intervalINS_8z_numberEEdvERKS2_,_ZNK4ikos10congruenceINS_8z_numberEE4SDivERKS2_,_ZN4crab7domains19interval_congruenceIN4ikos8z_numberEEC1EONS2_8intervalIS3_EEONS2_10congruenceIS3_EE backends=cadical,kissat first_timeout=200 timeout=400
PBIN(ic_sdiv, sdiv, _ZNK4crab7domains19interval_congruenceIN4ikos8z_numberEE4SDivERKS4_, 1, STRICT_ic)
//@check id=ic_udiv fn=_ZNK4crab7domains19interval_congruenceIN4ikos8z_numberEE4UDivERKS4_ props=C08 replace=_ZNK4ikos8intervalINS_8z_numberEE4UDivERKS2_,_ZNK4ikos10congruenceINS_8z_numberEE4UDivERKS2_,_ZN4crab7domains19interval_congruenceIN4ikos8z_numberEEC1EONS2_8intervalIS3_EEONS2_10congruenceIS3_EE backends=cadical,kissat first_timeout=200 timeout=400
PBIN(ic_udiv, udiv, _ZNK4crab7domains19interval_congruenceIN4ikos8z_numberEE4UDivERKS4_, 1, NOSTRICT)
//@check id=ic_srem fn=_ZNK4crab7domains19interval_congruenceIN4ikos8z_numberEE4SRemERKS4_ props=C08 replace=_ZNK4ikos8intervalINS_8z_numberEE4SRemERKS2_,_ZNK4ikos10congruenceINS_8z_numberEE4SRemERKS2_,_ZN4crab7domains19interval_congruenceIN4ikos8z_numberEEC1EONS2_8intervalIS3_EEONS2_10congruenceIS3_EE backends=cadical,kissat first_timeout=200 timeout=400
PBIN(ic_srem, srem, _ZNK4crab7domains19interval_congruenceIN4ikos8z_numberEE4SRemERKS4_, 1, STRICT_ic)
//@check id=ic_urem fn=_ZNK4crab7domains19interval_congruenceIN4ikos8z_numberEE4URemERKS4_ props=C08 replace=_ZNK4ikos8intervalINS_8z_numberEE4URemERKS2_,_ZNK4ikos10congruenceINS_8z_numberEE4URemERKS2_,_ZN4crab7domains19interval_congruenceIN4ikos8z_numberEEC1EONS2_8intervalIS3_EEONS2_10congruenceIS3_EE backends=cadical,kissat first_timeout=200 timeout=400
PBIN(ic_urem, urem, _ZNK4crab7domains19interval_congruenceIN4ikos8z_numberEE4URemERKS4_, 1, NOSTRICT)
//@check id=ic_and fn=_ZNK4crab7domains19interval_congruenceIN4ikos8z_numberEE3AndERKS4_ props=C08 replace=_ZNK4ikos8intervalINS_8z_numberEE3AndERKS2_,_ZNK4ikos10congruenceINS_8z_numberEE3AndERKS2_,_ZN4crab7domains19interval_congruenceIN4ikos8z_numberEEC1EONS2_8intervalIS3_EEONS2_10congruenceIS3_EE backends=cadical,kissat first_timeout=200 timeout=400
PBIN(ic_and, and, _ZNK4crab7domains19interval_congruenceIN4ikos8z_numberEE3AndERKS4_, 1, STRICT_ic)
//@check id=ic_or fn=_ZNK4crab7domains19interval_congruenceIN4ikos8z_numberEE2OrERKS4_ props=C08 replace=_ZNK4ikos8intervalINS_8z_numberEE2OrERKS2_,_ZNK4ikos10congruenceINS_8z_numberEE2OrERKS2_,_ZN4crab7domains19interval_congruenceIN4ikos8z_numberEEC1EONS2_8intervalIS3_EEONS2_10congruenceIS3_EE backends=cadical,kissat first_timeout=200 timeout=400
PBIN(ic_or, or, _ZNK4crab7domains19interval_congruenceIN4ikos8z_numberEE2OrERKS4_, 1, STRICT_ic)
//@check id=ic_xor fn=_ZNK4crab7domains19interval_congruenceIN4ikos8z_numberEE3XorERKS4_ props=C08 replace=_ZNK4ikos8intervalINS_8z_numberEE3XorERKS2_,_ZNK4ikos10congruenceINS_8z_numberEE3XorERKS2_,_ZN4crab7domains19interval_congruenceIN4ikos8z_numberEEC1EONS2_8intervalIS3_EEONS2_10congruenceIS3_EE backends=cadical,kissat first_timeout=200 timeout=400
PBIN(ic_xor, xor, _ZNK4crab7domains19interval_congruenceIN4ikos8z_numberEE3XorERKS4_, 1, STRICT_ic)
/* Shl: model restriction inherited from the congruence unit (moduli, remainders and amounts of the right operand below 16) */
//@check id=ic_shl fn=_ZNK4crab7domains19interval_congruenceIN4ikos8z_numberEE3ShlERKS4_ props=C08 replace=_ZNK4ikos8intervalINS_8z_numberEE3ShlERKS2_,_ZNK4ikos10congruenceINS_8z_numberEE3ShlERKS2_,_ZN4crab7domains19interval_congruenceIN4ikos8z_numberEEC1EONS2_8intervalIS3_EEONS2_10congruenceIS3_EE backends=cadical,kissat first_timeout=200 timeout=400
PBIN(ic_shl, shl, _ZNK4crab7domains19interval_congruenceIN4ikos8z_numberEE3ShlERKS4_, c_a(x->f1) < IC_SHB && c_b(x->f1) < IC_SHB && g_y < IC_SHB, STRICT_ic)
//@check id=ic_lshr fn=_ZNK4crab7domains19interval_congruenceIN4ikos8z_numberEE4LShrERKS4_ props=C08 replace=_ZNK4ikos8intervalINS_8z_numberEE4LShrERKS2_,_ZNK4ikos10congruenceINS_8z_numberEE4LShrERKS2_,_ZN4crab7domains19interval_congruenceIN4ikos8z_numberEEC1EONS2_8intervalIS3_EEONS2_10congruenceIS3_EE backends=cadical,kissat first_timeout=200 timeout=400
PBIN(ic_lshr, lshr, _ZNK4crab7domains19interval_congruenceIN4ikos8z_numberEE4LShrERKS4_, 1, STRICT_ic)
//@check id=ic_ashr fn=_ZNK4crab7domains19interval_congruenceIN4ikos8z_numberEE4AShrERKS4_ props=C08 replace=_ZNK4ikos8intervalINS_8z_numberEE4AShrERKS2_,_ZNK4ikos10congruenceINS_8z_numberEE4AShrERKS2_,_ZN4crab7domains19interval_congruenceIN4ikos8z_numberEEC1EONS2_8intervalIS3_EEONS2_10congruenceIS3_EE backends=cadical,kissat first_timeout=200 timeout=400
PBIN(ic_ashr, ashr, _ZNK4crab7domains19interval_congruenceIN4ikos8z_numberEE4AShrERKS4_, 1, STRICT_ic)

/* Trunc / ZExt / SExt(width): top (sound for every reading of the conversion) */
#define PCONV(tag, fn) \
void fn(P *ret, P *self, uint32_t width) \
__CPROVER_requires(FRESH(tag, ret, sizeof(P)) && FRESH(tag, self, sizeof(P)) && p_ok(*self) && inb(g_v, RB)) \
__CPROVER_assigns(*ret) \
__CPROVER_ensures(p_ok(*ret) && ic_reduced(ret->f0, ret->f1) && ic_top(*ret)) \
__CPROVER_ensures(ic_has(*ret, g_v)); \
void h_##tag(void){ IN(P, a); GHOST(uint32_t, w); HGHOSTS; P r; fn(&r, &a, w); REACH; }
//@check id=ic_trunc fn=_ZNK4crab7domains19interval_congruenceIN4ikos8z_numberEE5TruncEj props=C08 backends=cadical,kissat first_timeout=200 timeout=400
PCONV(ic_trunc, _ZNK4crab7domains19interval_congruenceIN4ikos8z_numberEE5TruncEj)
//@check id=ic_zext fn=_ZNK4crab7domains19interval_congruenceIN4ikos8z_numberEE4ZExtEj props=C08 backends=cadical,kissat first_timeout=200 timeout=400
PCONV(ic_zext, _ZNK4crab7domains19interval_congruenceIN4ikos8z_numberEE4ZExtEj)
//@check id=ic_sext fn=_ZNK4crab7domains19interval_congruenceIN4ikos8z_numberEE4SExtEj props=C08 backends=cadical,kissat first_timeout=200 timeout=400
PCONV(ic_sext, _ZNK4crab7domains19interval_congruenceIN4ikos8z_numberEE4SExtEj)
