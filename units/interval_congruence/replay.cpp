// Native replay for unit interval_congruence: the real crab::domains::interval_congruence<z_number> of the working tree,
// evaluated against the SAME postcondition macros (post.h) as the contracts.  Inputs are rebuilt field by field from the
// counterexample (-fno-access-control).  The ghost result g_v of the binary operations is recomputed from g_x, g_y (it
// is aligned with op(g_x, g_y) in the contract); elsewhere it is read from the witness as a 128-bit decimal.
#include <crab/domains/interval_congruence_impl.hpp>
#include <crab/domains/interval_impl.hpp>
#include <crab/numbers/bignums.hpp>
#include "replay.h"
#include "post.h"
i128 g_x, g_y, g_v, g_w, g_d, g_e;
using ikos::z_number;
typedef ikos::bound<z_number> RB_;
typedef ikos::interval<z_number> RI;
typedef ikos::congruence<z_number> RC;
typedef crab::domains::interval_congruence<z_number> RP;
static int g_argc; static char **g_argv;

static i128 zval(const z_number &z) {                        // exact value of a z_number below 2^126
  z_number a = z < z_number(0) ? -z : z; i128 r = 0, m = 1;
  z_number base(1); base = base << z_number(32);
  while (a > z_number(0)) { r += m * (i128)(int64_t)(a % base); a = a / base; m <<= 32; }
  return z < z_number(0) ? -r : r; }
static z_number tz(i128 v) {
  bool neg = v < 0; u128 m = neg ? (u128)0 - (u128)v : (u128)v;
  z_number base(1); base = base << z_number(32);
  z_number r(0);
  for (int i = 3; i >= 0; i--) r = r * base + z_number((long)(uint32_t)(m >> (32 * i)));
  return neg ? -r : r; }
static i128 wz(const Wit &w, const std::string &p) { return (i128)(((u128)w.u(p + ".f0.a.f1") << 64) | (u128)w.u(p + ".f0.a.f0")); }
static i128 wide(const char *name) {                         // 128-bit decimal ghost from the command line
  std::string k = std::string(name) + "=";
  for (int i = 2; i < g_argc; i++) if (strncmp(g_argv[i], k.c_str(), k.size()) == 0) {
    const char *s = g_argv[i] + k.size(); bool neg = *s == '-'; if (neg) s++; i128 v = 0; for (; *s >= '0' && *s <= '9'; s++) v = v * 10 + (*s - '0'); return neg ? -v : v; }
  return 0; }
static RB_ mkb(const Wit &w, const std::string &p) { bool inf = w.u(p + ".f0") != 0; i128 v = wz(w, p + ".f1"); if (inf) return v > 0 ? RB_::plus_infinity() : RB_::minus_infinity(); return RB_(tz(v)); }
static RI mki(const Wit &w, const std::string &p) { RI r; r._lb = mkb(w, p + ".f0"); r._ub = mkb(w, p + ".f1"); return r; }
static RC mkc(const Wit &w, const std::string &p) { RC c; c.m_is_bottom = w.u(p + ".f0") != 0; c.m_a = tz(wz(w, p + ".f1")); c.m_b = tz(wz(w, p + ".f2")); return c; }
static RP mkp(const Wit &w, const std::string &p) { RP r(false); r.m_first = mki(w, p + ".f0"); r.m_second = mkc(w, p + ".f1"); return r; }
static B lowb(const RB_ &b) { return b.is_infinite() ? mkinf(b.is_plus_infinity() ? 1 : -1) : mkfin(zval(*b.number())); }
static I lowi(const RI &i) { I m; memset(&m, 0, sizeof m); m.f0 = lowb(i._lb); m.f1 = lowb(i._ub); return m; }
static C lowc(const RC &c) { C s; memset(&s, 0, sizeof s); s.f0 = c.m_is_bottom ? 1 : 0; s.f1 = mkz(zval(c.m_a)); s.f2 = mkz(zval(c.m_b)); return s; }
static P low(const RP &p) { P s; memset(&s, 0, sizeof s); s.f0 = lowi(p.m_first); s.f1 = lowc(p.m_second); return s; }
static void p128(const char *what, i128 v) { printf("%s%s", what, v < 0 ? "-" : ""); u128 m = v < 0 ? (u128)0 - (u128)v : (u128)v; char buf[48]; int n = 0; do { buf[n++] = '0' + (int)(m % 10); m /= 10; } while (m); while (n) putchar(buf[--n]); }
static void show(const char *what, const RP &p) { crab::outs() << "  " << what << " = (["; crab::outs() << p.m_first._lb << ", " << p.m_first._ub << "]" << (p.m_first.is_bottom() ? " bottom" : "") << ", ";
  crab::outs() << (p.m_second.m_is_bottom ? "bottom " : "") << p.m_second.m_a << "Z+" << p.m_second.m_b << ")\n"; }
static void ghosts(const Wit &w) { g_x = wide("g_x"); g_y = wide("g_y"); g_v = wide("g_v"); g_w = wide("g_w");
  p128("  ghosts g_x=", g_x); p128(" g_y=", g_y); p128(" g_v=", g_v); p128(" g_w=", g_w); printf("\n"); }

// ---- binary operations: shape, strictness, soundness at op(g_x, g_y)
#define RBIN(id, op, EXPR, V, STRICT) REPLAY(id) { ghosts(wit); RP a = mkp(wit, "a"), b = mkp(wit, "b"); show("self", a); show("x", b); g_v = (V); p128("  concrete result g_v=", g_v); printf("\n"); \
  RP r = EXPR; show("result", r); P lr = low(r), la = low(a), lb = low(b); return POST_ic_shape(lr) && STRICT(lr, la, lb) && SOUND_ic_##op(lr, la, lb); }
#define NOSTRICT(r, s, x) 1
#define DIVOK(e) (g_y != 0 ? (e) : 0)
RBIN(ic_add, add, a + b, g_x + g_y, STRICT_ic)
RBIN(ic_sub, sub, a - b, g_x - g_y, STRICT_ic)
RBIN(ic_mul, mul, a * b, g_x * g_y, STRICT_ic)
RBIN(ic_div, div, a / b, DIVOK(g_x / g_y), STRICT_ic)
RBIN(ic_sdiv, sdiv, a.SDiv(b), DIVOK(g_x / g_y), STRICT_ic)
RBIN(ic_srem, srem, a.SRem(b), DIVOK(g_x % g_y), STRICT_ic)
RBIN(ic_udiv, udiv, a.UDiv(b), DIVOK(UREAD(g_x) / UREAD(g_y)), NOSTRICT)
RBIN(ic_urem, urem, a.URem(b), DIVOK(UREAD(g_x) % UREAD(g_y)), NOSTRICT)
RBIN(ic_and, and, a.And(b), g_x & g_y, STRICT_ic)
RBIN(ic_or, or, a.Or(b), g_x | g_y, STRICT_ic)
RBIN(ic_xor, xor, a.Xor(b), g_x ^ g_y, STRICT_ic)
RBIN(ic_shl, shl, a.Shl(b), (g_y >= 0 && g_y < IC_SHB) ? shl_(g_x, g_y) : 0, STRICT_ic)
RBIN(ic_lshr, lshr, a.LShr(b), g_y >= 0 ? fshr(g_x, g_y) : 0, STRICT_ic)
RBIN(ic_ashr, ashr, a.AShr(b), g_y >= 0 ? fshr(g_x, g_y) : 0, STRICT_ic)
RBIN(ic_join, join, a | b, g_v, NOSTRICT)
RBIN(ic_meet, meet, a & b, g_v, NOSTRICT)

// ---- reduce, constructors
static bool red_common(const RP &before, RP &r) { show("before", before); show("after", r); P lr = low(r), lo = low(before);
  return POST_ic_shape(lr) && IMP(ic_bot(lo), ic_bot(lr)) && POST_ic_same(lr, lo.f0, lo.f1); }
REPLAY(ic_reduce) { ghosts(wit); RP a = mkp(wit, "a"); RP o = a; a.reduce(); return red_common(o, a); }
static Reg reg_alias_red_b("ic_reduce_b", replay_ic_reduce); static Reg reg_alias_red_i("ic_reduce_inline", replay_ic_reduce);
REPLAY(ic_ctor_ic) { ghosts(wit); RI i = mki(wit, "i"); RC c = mkc(wit, "c"); RP o(false); o.m_first = i; o.m_second = c; RP r(std::move(i), std::move(c)); return red_common(o, r); }
REPLAY(ic_ctor_i) { ghosts(wit); RI i = mki(wit, "i"); RP o(false); o.m_first = i; RP r(std::move(i)); return red_common(o, r); }
REPLAY(ic_ctor_c) { ghosts(wit); RC c = mkc(wit, "c"); RP o(false); o.m_second = c; RP r(std::move(c)); return red_common(o, r); }
REPLAY(ic_ctor_n) { ghosts(wit); i128 n = wz(wit, "n"); RP r(tz(n)); show("result", r); P lr = low(r); return POST_ic_shape(lr) && (ic_has(lr, g_v) == (g_v == n)); }
REPLAY(ic_ctor_bool) { ghosts(wit); bool b = wit.u("b") != 0; RP r(b); show("result", r); P lr = low(r);
  return p_ok(lr) && ic_reduced(lr.f0, lr.f1) && (b ? (i_bot(lr.f0) && c_bot(lr.f1) && !ic_has(lr, g_v)) : (ic_top(lr) && ic_has(lr, g_v))); }

// ---- helpers
static bool helper(const Wit &wit, bool isR) { ghosts(wit); RC c = mkc(wit, "c"); i128 a = wz(wit, "a"); RP s(false); i128 m = zval(c.m_a), b = zval(c.m_b);
  i128 r = zval(isR ? s.R(c, tz(a)) : s.L(c, tz(a))); p128(isR ? "  R(c, a) with m=" : "  L(c, a) with m=", m); p128(" b=", b); p128(" a=", a); p128(" -> ", r); printf("\n");
  return isR ? (r == a + fmod_(b - a, m) && POST_ic_R(r, m, b, a)) : (r == a - fmod_(a - b, m) && POST_ic_L(r, m, b, a)); }
REPLAY(ic_R) { return helper(wit, true); } static Reg reg_alias_R_b("ic_R_b", replay_ic_R);
REPLAY(ic_L) { return helper(wit, false); } static Reg reg_alias_L_b("ic_L_b", replay_ic_L);
REPLAY(ic_mod) { i128 a = wz(wit, "a"), b = wz(wit, "b"); RP s(false); i128 r = zval(s.mod(tz(a), tz(b))); p128("  mod(", a); p128(", ", b); p128(") = ", r); printf("\n"); return r == fmod_(a, b) && POST_ic_mod(r, a, b); }
static Reg reg_alias_mod_b("ic_mod_b", replay_ic_mod);
REPLAY(ic_abs) { i128 a = wz(wit, "a"); RP s(false); return zval(s.abs(tz(a))) == iabs(a); }

// ---- queries, constants
REPLAY(ic_is_bottom) { ghosts(wit); RP a = mkp(wit, "a"); show("self", a); bool r = a.is_bottom(); printf("  result = %d\n", r); P la = low(a);
  return r == ic_bot(la) && IMP(r, !ic_has(la, g_v)) && IMP(!r && ic_reduced(la.f0, la.f1), ic_has(la, ic_witness(la.f0, la.f1))); }
REPLAY(ic_is_top) { ghosts(wit); RP a = mkp(wit, "a"); show("self", a); bool r = a.is_top(); printf("  result = %d\n", r); P la = low(a); return r == ic_top(la) && IMP(r, ic_has(la, g_v)); }
REPLAY(ic_top) { ghosts(wit); RP t = RP::top(); show("top()", t); P l = low(t); return p_ok(l) && ic_reduced(l.f0, l.f1) && ic_top(l) && !ic_bot(l) && ic_has(l, g_v); }
REPLAY(ic_bottom) { ghosts(wit); RP t = RP::bottom(); show("bottom()", t); P l = low(t); return p_ok(l) && ic_reduced(l.f0, l.f1) && ic_bot(l) && !ic_top(l) && !ic_has(l, g_v); }
REPLAY(ic_is_bottom_of_bottom) { return RP::bottom().is_bottom(); }
REPLAY(ic_is_bottom_of_top) { return !RP::top().is_bottom(); }
REPLAY(ic_is_top_of_top) { return RP::top().is_top(); }
REPLAY(ic_is_top_of_bottom) { return !RP::bottom().is_top(); }
static bool conv(const Wit &wit, int k) { ghosts(wit); RP a = mkp(wit, "a"); unsigned w = (unsigned)wit.u("w"); RP r = k == 0 ? a.Trunc(w) : k == 1 ? a.ZExt(w) : a.SExt(w); P l = low(r);
  return p_ok(l) && ic_reduced(l.f0, l.f1) && ic_top(l) && ic_has(l, g_v); }
REPLAY(ic_trunc) { return conv(wit, 0); } REPLAY(ic_zext) { return conv(wit, 1); } REPLAY(ic_sext) { return conv(wit, 2); }
int main(int argc, char **argv) { g_argc = argc; g_argv = argv; return replay_main(argc, argv); }
