/* ASSUMED HERE, PROVED ELSEWHERE: contracts of the members of ikos::interval<z_number> (lib/interval.cpp) and
 * ikos::congruence<z_number> (lib/congruence.cpp) that the operations of the reduced product delegate to.  The operations
 * of interval_congruence call them through --replace-call-with-contract (replace= lists in contracts.c); the bodies are
 * in this unit as well (force.cpp includes both libraries) and are used in line by the constructors / reduce().
 *
 * Each clause below is the contract clause of the component unit (units/interval/contracts.c: i_<op>;
 * units/congruence/contracts.c + post.h: <op>) read at THIS unit's ghost points: those contracts are proved for
 * arbitrary ghost points g_x, g_y, so they hold at ours.  Differences of form, none of content:
 *  - the soundness clauses exist there only in the enforced instance (TOP(..)); here they are what the caller uses;
 *  - lemma hypotheses of those clauses (CORNER_MUL, DIVHYP, REM_RULES of the interval unit; LEM(..) of the congruence
 *    unit) are valid facts discharged by that unit's lemma files: dropped here;
 *  - the concrete product / quotient / remainder is written S_mul / S_div / S_rem (../congruence/spec.h); the interval unit
 *    writes the uninterpreted terms ZM_*_pure: both denote the mathematical operation;
 *  - a clause "the result describes op(g_x, g_y)" is written "g_v == op(g_x, g_y) ==> the result describes g_v" with g_v
 *    inside the modelled range: the same statement (g_v is arbitrary), but the uninterpreted product / quotient term is
 *    then only compared, never computed with (an unconstrained term would trip the overflow checks of the clause);
 *  - congruence UDiv / URem: that unit proves c_has(ret, g) for the arbitrary g in (-2^42, 2^42) together with the normal
 *    form of ret; a normal form aZ+b that describes both b and b+1 has a = 1: stated here as c_top(ret);
 *  - MAGNITUDES: results are stated inside (-RB, RB) = (-2^98, 2^98), the input range of reduce().  The component units
 *    state 2^100 (the model's range) for `*`, Shl and the congruence shifts, because the uninterpreted multiplication
 *    of the number model carries no magnitude; the true results of inputs below 2^40 (shift amounts below 59) are below
 *    2^98.  This is a MODEL-RANGE ASSUMPTION of this unit (listed in unit.json).
 */
#ifndef IC_CALLEES_H
#define IC_CALLEES_H
#include "../congruence/post.h"
extern i128 g_v, g_w;
#define IC_SHB 16                    /* congruence Shl: moduli, remainders and amounts of the right operand below 16 (model restriction of that unit) */
#define GR2 (inb(g_x, ZB) && inb(g_y, ZB))
#define UREAD(v) ((v) >= 0 ? (v) : (v) + (((i128)1) << g_w))
#define WRANGE (g_w >= 1 && g_w <= 64 && -g_x < (((i128)1) << g_w) && -g_y < (((i128)1) << g_w))
#define MINZ(z) ((z) < RB ? (z) : RB)
#define IV_ANYBOT (i_bot(*self) || i_bot(*x))
/* operands described, ghost result g_v aligned with the concrete result V (DEF: the operation is defined) */
#define AT(HAS2, DEF, V) (GR2 && inb(g_v, RB) && (HAS2) && (DEF) && g_v == (V))

/* ---------------------------------------------------------------- interval<z_number> */
#define IV_CONTRACT(tag, fn, EXTRA, SOUND) \
void fn(I *ret, I *self, I *x) \
__CPROVER_requires(FRESH(tag, ret, sizeof(I)) && FRESH(tag, self, sizeof(I)) && FRESH(tag, x, sizeof(I)) && i_ok(*self) && i_ok(*x)) \
__CPROVER_assigns(*ret) \
__CPROVER_ensures(i_okz(*ret, RB) && (EXTRA)) \
__CPROVER_ensures(SOUND);
#define IV_STRICT (IV_ANYBOT ==> i_bot(*ret))
#define IV_IN2 (i_has(*self, g_x) && i_has(*x, g_y))
#define IV_OP_CONTRACT(tag, fn, DEF, V) IV_CONTRACT(tag, fn, IV_STRICT, AT(IV_IN2, DEF, V) ==> i_has(*ret, g_v))
IV_OP_CONTRACT(iv_add, _ZNK4ikos8intervalINS_8z_numberEEplERKS2_, 1, g_x + g_y)
IV_OP_CONTRACT(iv_sub, _ZNK4ikos8intervalINS_8z_numberEEmiERKS2_, 1, g_x - g_y)
IV_OP_CONTRACT(iv_mul, _ZNK4ikos8intervalINS_8z_numberEEmlERKS2_, 1, S_mul(g_x, g_y))
IV_OP_CONTRACT(iv_div, _ZNK4ikos8intervalINS_8z_numberEEdvERKS2_, g_y != 0, S_div(g_x, g_y))
IV_OP_CONTRACT(iv_srem, _ZNK4ikos8intervalINS_8z_numberEE4SRemERKS2_, g_y != 0, S_rem(g_x, g_y))
IV_OP_CONTRACT(iv_udiv, _ZNK4ikos8intervalINS_8z_numberEE4UDivERKS2_, WRANGE && g_y != 0, S_div(UREAD(g_x), UREAD(g_y)))
IV_OP_CONTRACT(iv_urem, _ZNK4ikos8intervalINS_8z_numberEE4URemERKS2_, WRANGE && g_y != 0, S_rem(UREAD(g_x), UREAD(g_y)))
IV_OP_CONTRACT(iv_and, _ZNK4ikos8intervalINS_8z_numberEE3AndERKS2_, 1, g_x & g_y)
IV_OP_CONTRACT(iv_or, _ZNK4ikos8intervalINS_8z_numberEE2OrERKS2_, 1, g_x | g_y)
IV_OP_CONTRACT(iv_xor, _ZNK4ikos8intervalINS_8z_numberEE3XorERKS2_, 1, g_x ^ g_y)
IV_OP_CONTRACT(iv_shl, _ZNK4ikos8intervalINS_8z_numberEE3ShlERKS2_, g_y >= 0 && g_y < 59, shl_(g_x, g_y))
IV_OP_CONTRACT(iv_ashr, _ZNK4ikos8intervalINS_8z_numberEE4AShrERKS2_, g_y >= 0, fshr(g_x, g_y))
/* LShr: a negative value stands for an unknown large unsigned reading: the result is then top */
IV_CONTRACT(iv_lshr, _ZNK4ikos8intervalINS_8z_numberEE4LShrERKS2_, IV_STRICT, AT(IV_IN2, g_y >= 0, g_x >= 0 ? fshr(g_x, g_y) : g_v) ==> (g_x >= 0 ? i_has(*ret, g_v) : i_top(*ret)))
/* join: contains both operands; meet: exactly the common part (read at g_v) */
IV_CONTRACT(iv_join, _ZNK4ikos8intervalINS_8z_numberEEorERKS2_, 1, (inb(g_v, ZB) && (i_has(*self, g_v) || i_has(*x, g_v))) ==> i_has(*ret, g_v))
IV_CONTRACT(iv_meet, _ZNK4ikos8intervalINS_8z_numberEEanERKS2_, 1, inb(g_v, ZB) ==> (i_has(*ret, g_v) == (i_has(*self, g_v) && i_has(*x, g_v))))

/* ---------------------------------------------------------------- congruence<z_number> */
#define CG_IN2 (c_has(*self, g_x) && c_has(*x, g_y))
#define CG_ANYBOT (c_bot(*self) || c_bot(*x))
#define CG_CONTRACT(tag, fn, OKZ, PRE, EXTRA, SOUND) \
void fn(C *ret, C *self, C *x) \
__CPROVER_requires(FRESH(tag, ret, sizeof(C)) && FRESH(tag, self, sizeof(C)) && FRESH(tag, x, sizeof(C)) && c_ok(*self) && c_ok(*x) && (PRE)) \
__CPROVER_assigns(*ret) \
__CPROVER_ensures(c_okz(*ret, MINZ(OKZ)) && (EXTRA)) \
__CPROVER_ensures(SOUND);
#define CG_OP_CONTRACT(tag, fn, OKZ, PRE, DEF, V) CG_CONTRACT(tag, fn, OKZ, PRE, CG_ANYBOT ==> c_bot(*ret), AT(CG_IN2, DEF, V) ==> c_has(*ret, g_v))
CG_OP_CONTRACT(cg_add, _ZNK4ikos10congruenceINS_8z_numberEEplERKS2_, OKZ_add, 1, 1, g_x + g_y)
CG_OP_CONTRACT(cg_sub, _ZNK4ikos10congruenceINS_8z_numberEEmiERKS2_, OKZ_sub, 1, 1, g_x - g_y)
CG_OP_CONTRACT(cg_mul, _ZNK4ikos10congruenceINS_8z_numberEEmlERKS2_, OKZ_mul, 1, 1, S_mul(g_x, g_y))
CG_OP_CONTRACT(cg_div, _ZNK4ikos10congruenceINS_8z_numberEEdvERKS2_, OKZ_div, 1, g_y != 0, S_div(g_x, g_y))
CG_OP_CONTRACT(cg_sdiv, _ZNK4ikos10congruenceINS_8z_numberEE4SDivERKS2_, OKZ_div, 1, g_y != 0, S_div(g_x, g_y))
CG_OP_CONTRACT(cg_srem, _ZNK4ikos10congruenceINS_8z_numberEE4SRemERKS2_, OKZ_rem, 1, g_y != 0, S_rem(g_x, g_y))
CG_OP_CONTRACT(cg_and, _ZNK4ikos10congruenceINS_8z_numberEE3AndERKS2_, OKZ_and, 1, 1, g_x & g_y)
CG_OP_CONTRACT(cg_or, _ZNK4ikos10congruenceINS_8z_numberEE2OrERKS2_, OKZ_or, 1, 1, g_x | g_y)
CG_OP_CONTRACT(cg_xor, _ZNK4ikos10congruenceINS_8z_numberEE3XorERKS2_, OKZ_xor, 1, 1, g_x ^ g_y)
CG_OP_CONTRACT(cg_shl, _ZNK4ikos10congruenceINS_8z_numberEE3ShlERKS2_, OKZ_shl, c_a(*x) < IC_SHB && c_b(*x) < IC_SHB && g_y < IC_SHB, g_y >= 0, shl_(g_x, g_y))
CG_OP_CONTRACT(cg_lshr, _ZNK4ikos10congruenceINS_8z_numberEE4LShrERKS2_, OKZ_lshr, 1, g_y >= 0 && g_x >= 0, fshr(g_x, g_y))
CG_OP_CONTRACT(cg_ashr, _ZNK4ikos10congruenceINS_8z_numberEE4AShrERKS2_, OKZ_ashr, 1, g_y >= 0, fshr(g_x, g_y))
/* UDiv / URem: every integer is described */
CG_CONTRACT(cg_udiv, _ZNK4ikos10congruenceINS_8z_numberEE4UDivERKS2_, OKZ_udiv, 1, 1, c_top(*ret))
CG_CONTRACT(cg_urem, _ZNK4ikos10congruenceINS_8z_numberEE4URemERKS2_, OKZ_urem, 1, 1, c_top(*ret))
/* join / meet, read at g_v */
#define GB42 (((i128)1) << (ZBITS + 2))
CG_CONTRACT(cg_join, _ZNK4ikos10congruenceINS_8z_numberEEorERKS2_, OKZ_join, 1, 1, (inb(g_v, GB42) && (c_has(*self, g_v) || c_has(*x, g_v))) ==> c_has(*ret, g_v))
CG_CONTRACT(cg_meet, _ZNK4ikos10congruenceINS_8z_numberEEanERKS2_, OKZ_meet, 1, 1, (inb(g_v, GB42) && c_has(*self, g_v) && c_has(*x, g_v)) ==> c_has(*ret, g_v))
#endif
