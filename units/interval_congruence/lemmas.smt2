; Lemma schemas T_RLEAST / T_LGREATEST of units/interval_congruence/spec.h ("least element of mZ+b above a", "greatest
; element below a"), used as instances by the contracts of R, L and reduce() in the unbounded mode.
; Each (check-sat) is the negation of a statement and must answer unsat (z3 and cvc5, on every run).
;
; Method (second layer of units/congruence/lemmas.smt2, which is discharged in the same run): the remainder R is an
; UNINTERPRETED function; the hypotheses are instances of statements that units/congruence/lemmas.smt2 proves of the
; truncating remainder of the mathematical integers for ALL arguments:
;     T_NF, T_DIFF, T_SMALL   (its second part, same text as below)
;     R0: 0 % m = 0           (its first part, "special cases")
; So: every function satisfying these instances satisfies T_RLEAST / T_LGREATEST; the real remainder satisfies them;
; hence the schemas hold of the real remainder.
(set-logic ALL)
(declare-fun R (Int Int) Int)
(define-fun dvd ((a Int) (x Int)) Bool (ite (= a 0) (= x 0) (= (R x a) 0)))
(define-fun fmod ((x Int) (a Int)) Int (ite (< (R x (abs a)) 0) (+ (R x (abs a)) (abs a)) (R x (abs a))))
(define-fun T_NF ((a Int) (b Int) (v Int)) Bool (or (= a 0) (and (<= 0 (fmod b a)) (< (fmod b a) (abs a)) (= (dvd (abs a) (- v (fmod b a))) (dvd (abs a) (- v b))))))
(define-fun T_DIFF ((d Int) (u Int) (v Int) (w Int)) Bool (=> (and (= w (- u v)) (dvd d u) (dvd d v)) (dvd d w)))
(define-fun T_SMALL ((d Int) (u Int)) Bool (=> (and (dvd d u) (< (abs u) (abs d))) (= u 0)))
(define-fun R0 ((m Int)) Bool (=> (not (= m 0)) (= (R 0 m) 0)))
; T_RLEAST(m, b, a, v)
(push)
(declare-const m Int) (declare-const b Int) (declare-const a Int) (declare-const v Int)
(define-fun r () Int (fmod (- b a) m))
(define-fun x () Int (+ a r))
(assert (> m 0))
(assert (and (R0 m) (T_NF m (- b a) r) (T_DIFF m (- v b) (- x b) (- v x)) (T_SMALL m (- v x))))
(assert (not (and (<= 0 r) (< r m) (dvd m (- x b)) (=> (and (dvd m (- v b)) (>= v a)) (>= v x)))))
(check-sat)
(pop)
; T_LGREATEST(m, b, a, v)
(push)
(declare-const m Int) (declare-const b Int) (declare-const a Int) (declare-const v Int)
(define-fun r () Int (fmod (- a b) m))
(define-fun y () Int (- a r))
(assert (> m 0))
(assert (and (R0 m) (T_NF m (- a b) r) (T_DIFF m 0 (- b y) (- y b)) (T_DIFF m (- v b) (- y b) (- v y)) (T_SMALL m (- v y))))
(assert (not (and (<= 0 r) (< r m) (dvd m (- y b)) (=> (and (dvd m (- v b)) (<= v a)) (<= v y)))))
(check-sat)
(pop)
