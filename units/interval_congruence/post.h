/* Postconditions of the interval_congruence contracts, shared word for word by contracts.c (CBMC) and replay.cpp
 * (native).  r = result, s = *this, x = argument (struct values of type P); g_x, g_y are the ghost concrete operands,
 * g_v is the ghost concrete RESULT (arbitrary; a clause guarded by g_v == op(g_x, g_y) is the clause at op(g_x, g_y)),
 * g_w the ghost bit width of the unsigned readings. */
#ifndef IC_POST_H
#define IC_POST_H
#include "spec.h"
#include "../congruence/post.h"
extern i128 g_v, g_w;
#ifndef IC_SHB
#define IC_SHB 16
#endif
#ifndef UREAD
#define UREAD(v) ((v) >= 0 ? (v) : (v) + (((i128)1) << g_w))
#define WRANGE (g_w >= 1 && g_w <= 64 && -g_x < (((i128)1) << g_w) && -g_y < (((i128)1) << g_w))
#endif
/* every result is component-wise well formed and in reduced form */
#define POST_ic_shape(r) (p_okz(r, 2 * RB) && ic_reduced((r).f0, (r).f1))
#define IC_ANYBOT(s, x) (ic_bot(s) || ic_bot(x))
#define IC_IN2(s, x) (ic_has(s, g_x) && ic_has(x, g_y))
/* binary operations: whenever g_x is described by *this and g_y by the argument, the result describes op(g_x, g_y) */
#define IC_SOUND(s, x, r, DEF, V) IMP(IC_IN2(s, x) && (DEF) && g_v == (V), ic_has(r, g_v))
#define SOUND_ic_add(r, s, x) IC_SOUND(s, x, r, 1, g_x + g_y)
#define SOUND_ic_sub(r, s, x) IC_SOUND(s, x, r, 1, g_x - g_y)
#define SOUND_ic_mul(r, s, x) IC_SOUND(s, x, r, 1, S_mul(g_x, g_y))
#define SOUND_ic_div(r, s, x) IC_SOUND(s, x, r, g_y != 0, S_div(g_x, g_y))
#define SOUND_ic_sdiv SOUND_ic_div
#define SOUND_ic_srem(r, s, x) IC_SOUND(s, x, r, g_y != 0, S_rem(g_x, g_y))
/* unsigned division / remainder: operands are the unsigned readings at ANY bit width g_w that can represent them */
#define SOUND_ic_udiv(r, s, x) IC_SOUND(s, x, r, WRANGE && g_y != 0, S_div(UREAD(g_x), UREAD(g_y)))
#define SOUND_ic_urem(r, s, x) IC_SOUND(s, x, r, WRANGE && g_y != 0, S_rem(UREAD(g_x), UREAD(g_y)))
#define SOUND_ic_and(r, s, x) IC_SOUND(s, x, r, 1, g_x & g_y)
#define SOUND_ic_or(r, s, x) IC_SOUND(s, x, r, 1, g_x | g_y)
#define SOUND_ic_xor(r, s, x) IC_SOUND(s, x, r, 1, g_x ^ g_y)
#define SOUND_ic_shl(r, s, x) IC_SOUND(s, x, r, g_y >= 0 && g_y < IC_SHB, shl_(g_x, g_y))
#define SOUND_ic_lshr(r, s, x) IC_SOUND(s, x, r, g_y >= 0 && g_x >= 0, fshr(g_x, g_y))
#define SOUND_ic_ashr(r, s, x) IC_SOUND(s, x, r, g_y >= 0, fshr(g_x, g_y))
/* join describes at least both operands, meet at least their common part */
#define SOUND_ic_join(r, s, x) IMP(ic_has(s, g_v) || ic_has(x, g_v), ic_has(r, g_v))
#define SOUND_ic_meet(r, s, x) IMP(ic_has(s, g_v) && ic_has(x, g_v), ic_has(r, g_v))
#define STRICT_ic(r, s, x) IMP(IC_ANYBOT(s, x), ic_bot(r))
/* reduce(): nothing is lost and nothing is added (i, c: the components before the call) */
#define POST_ic_same(r, i, c) (ic_has(r, g_v) == (i_has(i, g_v) && c_has(c, g_v)))
/* the helpers, exactly: m = modulus > 0, b = remainder of the congruence */
#define POST_ic_R(ret, m, b, a) ((ret) >= (a) && (ret) < (a) + (m) && dvd(m, (ret) - (b)) && IMP(dvd(m, g_v - (b)) && g_v >= (a), g_v >= (ret)))
#define POST_ic_L(ret, m, b, a) ((ret) <= (a) && (ret) > (a) - (m) && dvd(m, (ret) - (b)) && IMP(dvd(m, g_v - (b)) && g_v <= (a), g_v <= (ret)))
#define POST_ic_mod(ret, a, b) (0 <= (ret) && (ret) < (b) && dvd(b, (a) - (ret)))
#endif
