// Native replay for unit safeint: the real crab::safe_i64 of the working tree, same spec functions as the contracts.
#include <crab/numbers/safeint.hpp>
#include <csignal>
#include "replay.h"
#include "spec.h"
using crab::safe_i64;
using ikos::z_number;
typedef long long ll;
// a machine-level division by zero (SIGFPE) is undefined behaviour reached by the real code: a violation
static void on_fpe(int) { printf("REPLAY: VIOLATED (the real function raised SIGFPE: machine division by zero / overflowing division)\n"); fflush(stdout); _Exit(1); }
static std::string s128(i128 v) { if (v == 0) return "0"; bool n = v < 0; u128 u = n ? (u128)0 - (u128)v : (u128)v; std::string s; while (u) { s.insert(s.begin(), char('0' + (int)(u % 10))); u /= 10; } return (n ? "-" : "") + s; }
static uint64_t raw(const safe_i64 &s) { return reinterpret_cast<const S *>(&s)->f0; }
#define RCHECKED(id, F, M) REPLAY(id) { uint64_t a = wit.u("a"), b = wit.u("b"); printf("  a=%lld b=%lld\n", (ll)a, (ll)b); int64_t r = 0x5555; \
  int flag = safe_i64::F((int64_t)a, (int64_t)b, &r); printf("  flag=%d *rp=%lld mathematical result=%s\n", flag, (ll)r, s128(M(a, b)).c_str()); \
  return POST_checked((uint32_t)flag, (uint64_t)r, M(a, b)) && (uint32_t)flag <= 1; }
RCHECKED(checked_add, checked_add, m_add) RCHECKED(checked_sub, checked_sub, m_sub) RCHECKED(checked_mul, checked_mul, m_mul)
RCHECKED(checked_mul_safe, checked_mul, m_mul)
REPLAY(checked_div) { uint64_t a = wit.u("a"), b = wit.u("b"); printf("  a=%lld b=%lld\n", (ll)a, (ll)b); if (b == 0) { printf("  (precondition b != 0 not met)\n"); return true; } int64_t r = 0x5555;
  int flag = safe_i64::checked_div((int64_t)a, (int64_t)b, &r); printf("  flag=%d *rp=%lld mathematical result=%s\n", flag, (ll)r, s128(m_div(a, b)).c_str());
  return m_div(a, b) == m_div_explicit(a, b) && POST_checked((uint32_t)flag, (uint64_t)r, m_div(a, b)) && (uint32_t)flag <= 1; }
REPLAY(checked_div_safe) { return replay_checked_div(wit); }
// operators: reaching the end means the call returned (an exit() is reported as VIOLATED by replay.h, which is
// right for the *_noexit checks and for a division by zero; for the allow_error checks an exit is legal, but a
// counterexample of those checks always returns, otherwise there is no postcondition to violate)
#define RBIN(id, OP, M) REPLAY(id) { safe_i64 a((int64_t)wit.u("a.f0")), x((int64_t)wit.u("x")); printf("  self=%lld x=%lld mathematical result=%s\n", (ll)raw(a), (ll)raw(x), s128(M(raw(a), raw(x))).c_str()); \
  safe_i64 r = a OP x; printf("  result=%lld\n", (ll)raw(r)); return POST_exact(raw(r), M(raw(a), raw(x))); }
RBIN(add, +, m_add) RBIN(add_noexit, +, m_add) RBIN(sub, -, m_sub) RBIN(sub_noexit, -, m_sub)
RBIN(mul, *, m_mul) RBIN(mul_noexit, *, m_mul) RBIN(mul_safe, *, m_mul)
#define RDIV(id) REPLAY(id) { safe_i64 a((int64_t)wit.u("a.f0")), x((int64_t)wit.u("x")); printf("  self=%lld x=%lld\n", (ll)raw(a), (ll)raw(x)); fflush(stdout); \
  safe_i64 r = a / x; printf("  result=%lld\n", (ll)raw(r)); return raw(x) != 0 && m_div(raw(a), raw(x)) == m_div_explicit(raw(a), raw(x)) && POST_div_exact(raw(r), raw(a), raw(x)); }
RDIV(div) RDIV(div_noexit) RDIV(div_safe)
#define RNEG(id) REPLAY(id) { safe_i64 a((int64_t)wit.u("a.f0")); printf("  self=%lld\n", (ll)raw(a)); safe_i64 r = -a; printf("  result=%lld\n", (ll)raw(r)); return POST_exact(raw(r), -SX(raw(a))); }
RNEG(neg) RNEG(neg_noexit)
#define RASG(id, OP, M) REPLAY(id) { safe_i64 a((int64_t)wit.u("a.f0")), x((int64_t)wit.u("x")); uint64_t o = raw(a); printf("  self=%lld x=%lld\n", (ll)o, (ll)raw(x)); \
  safe_i64 &r = (a OP x); printf("  self'=%lld\n", (ll)raw(a)); return &r == &a && POST_exact(raw(a), M(o, raw(x))); }
RASG(add_asg, +=, m_add) RASG(add_asg_noexit, +=, m_add) RASG(sub_asg, -=, m_sub) RASG(sub_asg_noexit, -=, m_sub)
#define RCMP(id, OP) REPLAY(id) { safe_i64 a((int64_t)wit.u("a.f0")), x((int64_t)wit.u("x")); bool r = a OP x; printf("  self=%lld x=%lld result=%d\n", (ll)raw(a), (ll)raw(x), r); return r == (SX(raw(a)) OP SX(raw(x))); }
RCMP(eq, ==) RCMP(ne, !=) RCMP(lt, <) RCMP(le, <=) RCMP(gt, >) RCMP(ge, >=)
REPLAY(ctor0) { safe_i64 r; return SX(raw(r)) == 0; }
REPLAY(ctor_i64) { uint64_t n = wit.u("n"); safe_i64 r((int64_t)n); return SX(raw(r)) == SX(n); }
REPLAY(to_i64) { safe_i64 a((int64_t)wit.u("a.f0")); return (int64_t)a == (int64_t)raw(a); }
REPLAY(ctor_z) { uint64_t lo = wit.u("n.f0.a.f0"), hi = wit.u("n.f0.a.f1"); i128 v = (i128)(((u128)hi << 64) | lo); printf("  z=%s\n", s128(v).c_str()); if (!fits64(v)) return true; /* precondition */
  safe_i64 r(z_number((int64_t)lo)); printf("  result=%lld\n", (ll)raw(r)); return SX(raw(r)) == v; }
int main(int argc, char **argv) { signal(SIGFPE, on_fpe); return replay_main(argc, argv); }
