/* Specification vocabulary for crab::safe_i64 (lib/safeint.cpp), property C20: "checked 64-bit weights never
 * wrap silently".  Shared by contracts.c (CBMC) and replay.cpp (native).
 * S is the compiler's lowering of the class: f0 = m_num (printed as uint64_t, read as int64_t).
 * A safe_i64 passed by value is lowered to a plain uint64_t (x.coerce). */
#ifndef SAFEINT_SPEC_H
#define SAFEINT_SPEC_H
#include "verif.h"
#include "unit_types.h"
typedef struct S_class_crab__safe_i64 S;
/* the mathematical integer denoted by a 64-bit pattern read as int64_t */
static inline i128 SX(uint64_t a){ return (i128)(int64_t)a; }
#define I64MIN (-((i128)1 << 63))
#define I64MAX (((i128)1 << 63) - 1)
static inline bool fits64(i128 v){ return v >= I64MIN && v <= I64MAX; }
/* low 64 bits of a mathematical integer (two's complement) */
static inline uint64_t low64(i128 v){ return (uint64_t)(u128)v; }
/* mathematical results of the four operations on int64 operands: they all lie in (-2^127, 2^127) */
static inline i128 m_add(uint64_t a, uint64_t b){ return SX(a) + SX(b); }
static inline i128 m_sub(uint64_t a, uint64_t b){ return SX(a) - SX(b); }
static inline i128 m_mul(uint64_t a, uint64_t b){ return SX(a) * SX(b); }
/* truncating division (quotient rounded towards zero), b != 0: this is C's `/` on signed integers (C11 6.5.5p6).
 * An independent spelling of the same function (magnitudes and sign) is m_div_explicit; the two are compared
 * natively on every replay, the proofs use m_div (a second 128-bit divider circuit is out of reach of the
 * back ends: the equivalence of two dividers needs multiplier reasoning). */
static inline i128 m_div(uint64_t a, uint64_t b){ return SX(a) / SX(b); }
static inline i128 m_div_explicit(uint64_t a, uint64_t b){
  u128 ua = SX(a) < 0 ? (u128)(-SX(a)) : (u128)SX(a), ub = SX(b) < 0 ? (u128)(-SX(b)) : (u128)SX(b);
  i128 q = (i128)(ua / ub);
  return ((SX(a) < 0) != (SX(b) < 0)) ? -q : q; }
/* checked_op: *rp = low 64 bits, flag = 1 iff the mathematical result is outside int64 (flag is exactly 0 or 1) */
#define POST_checked(flag, rp, M) ((rp) == low64(M) && (flag) == (fits64(M) ? 0u : 1u))
/* operators: IF the call returns, the result is the mathematical one (never a wrapped value) */
#define POST_exact(ret, M) (SX(ret) == (M))
#define POST_div_exact(ret, a, b) (SX(b) != 0 && SX(ret) == m_div(a, b))
#endif
