/* Contracts for crab::safe_i64 (lib/safeint.cpp) — property C20:
 * "... checked 64-bit weights never wrap silently."
 *  - checked_add/sub/mul/div: *rp is the low 64 bits of the mathematical result and the returned flag is 1
 *    iff that result is outside int64 (128-bit spec, all 2^128 operand pairs in one query);
 *  - + - * / unary - += -=: IF the call returns, the result is the mathematical one (overflow leaves through
 *    CRAB_ERROR -> exit: allow_error=1), and a twin check "<id>_noexit" proves that the call DOES return
 *    (no CRAB_ERROR) whenever the mathematical result fits int64;
 *  - comparisons and conversions are exact.
 * Loop-free: every check is a full proof. */
#include "spec.h"
#include "zmodel.h"

/* Multiplication and division are proved in two runs over the same contract and harness, because no single
 * back end decides both halves (measured): the FUNCTIONAL postcondition needs an SMT solver (the 128-bit
 * product / quotient of the code and of the specification are the same term; SAT solvers do not finish the
 * equivalence of two 128-bit multiplier circuits), while "the 128-bit signed multiplication in the code does
 * not overflow" needs a 256-bit product that only the SAT flow decides (3 s).  So:
 *   <id>       : z3/cvc5, every check except --signed-overflow-check, full postcondition;
 *   <id>_safe  : minisat, every check including signed overflow, postcondition reduced to the flag range. */
#if defined(CHECK_checked_mul_safe) || defined(CHECK_checked_div_safe) || defined(CHECK_mul_safe) || defined(CHECK_div_safe)
#define FUNCTIONAL(e) 1
#else
#define FUNCTIONAL(e) (e)
#endif
/* ------------------------------------------------------------------ checked_* (private static helpers) */
#define CHECKED(tag, fn, PRE, M) \
uint32_t fn(uint64_t a, uint64_t b, uint64_t *rp) \
__CPROVER_requires(FRESH(tag, rp, sizeof(uint64_t)) && (PRE)) \
__CPROVER_assigns(*rp) \
__CPROVER_ensures(FUNCTIONAL(POST_checked(__CPROVER_return_value, *rp, M(a, b)))) \
__CPROVER_ensures(__CPROVER_return_value <= 1); \
void h_##tag(void){ GHOST(uint64_t, a); GHOST(uint64_t, b); uint64_t r; fn(a, b, &r); REACH; }

//@check id=checked_add fn=_ZN4crab8safe_i6411checked_addEllPl props=C20
CHECKED(checked_add, _ZN4crab8safe_i6411checked_addEllPl, 1, m_add)
//@check id=checked_sub fn=_ZN4crab8safe_i6411checked_subEllPl props=C20
CHECKED(checked_sub, _ZN4crab8safe_i6411checked_subEllPl, 1, m_sub)
//@check id=checked_mul fn=_ZN4crab8safe_i6411checked_mulEllPl props=C20 backends=z3,cvc5 first_timeout=100 timeout=200 cbmc=--no-signed-overflow-check
//@check id=checked_mul_safe fn=_ZN4crab8safe_i6411checked_mulEllPl tag=checked_mul harness=h_checked_mul props=C20
CHECKED(checked_mul, _ZN4crab8safe_i6411checked_mulEllPl, 1, m_mul)
/* checked_div: the quotient by zero does not exist, so the helper's honest precondition is b != 0 (its only
 * caller, operator/, has to establish it: see `div`).  INT64_MIN / -1 = 2^63 is handled: flag 1. */
//@check id=checked_div fn=_ZN4crab8safe_i6411checked_divEllPl props=C20 backends=z3,cvc5 first_timeout=100 timeout=200 cbmc=--no-signed-overflow-check
//@check id=checked_div_safe fn=_ZN4crab8safe_i6411checked_divEllPl tag=checked_div harness=h_checked_div props=C20
CHECKED(checked_div, _ZN4crab8safe_i6411checked_divEllPl, SX(b) != 0, m_div)

/* ------------------------------------------------------------------ binary operators (x by value = uint64_t) */
/* NOEXIT_<id> is the extra precondition of the twin check: the mathematical result fits (and, for /, exists) */
#define BINOP(tag, fn, NOEXIT, POST) \
uint64_t fn(S *self, uint64_t x) \
__CPROVER_requires(FRESH(tag, self, sizeof(S)) && (NOEXIT)) \
__CPROVER_assigns() \
__CPROVER_ensures(FUNCTIONAL(POST)); \
void h_##tag(void){ IN(S, a); GHOST(uint64_t, x); fn(&a, x); REACH; }
#define RET __CPROVER_return_value

#ifdef CHECK_add_noexit
#define NOEXIT_add fits64(m_add(self->f0, x))
#else
#define NOEXIT_add 1
#endif
//@check id=add fn=_ZNK4crab8safe_i64plES0_ props=C20 allow_error=1
//@check id=add_noexit fn=_ZNK4crab8safe_i64plES0_ tag=add harness=h_add props=C20
BINOP(add, _ZNK4crab8safe_i64plES0_, NOEXIT_add, POST_exact(RET, m_add(self->f0, x)))

#ifdef CHECK_sub_noexit
#define NOEXIT_sub fits64(m_sub(self->f0, x))
#else
#define NOEXIT_sub 1
#endif
//@check id=sub fn=_ZNK4crab8safe_i64miES0_ props=C20 allow_error=1
//@check id=sub_noexit fn=_ZNK4crab8safe_i64miES0_ tag=sub harness=h_sub props=C20
BINOP(sub, _ZNK4crab8safe_i64miES0_, NOEXIT_sub, POST_exact(RET, m_sub(self->f0, x)))

#ifdef CHECK_mul_noexit
#define NOEXIT_mul fits64(m_mul(self->f0, x))
#else
#define NOEXIT_mul 1
#endif
//@check id=mul fn=_ZNK4crab8safe_i64mlES0_ props=C20 allow_error=1 backends=cvc5,z3 first_timeout=100 timeout=200 cbmc=--no-signed-overflow-check
//@check id=mul_safe fn=_ZNK4crab8safe_i64mlES0_ tag=mul harness=h_mul props=C20 allow_error=1
//@check id=mul_noexit fn=_ZNK4crab8safe_i64mlES0_ tag=mul harness=h_mul props=C20 backends=cvc5,z3 first_timeout=100 timeout=200 cbmc=--no-signed-overflow-check
BINOP(mul, _ZNK4crab8safe_i64mlES0_, NOEXIT_mul, POST_exact(RET, m_mul(self->f0, x)))

/* operator/ : precondition divisor != 0.  A zero divisor has no mathematical quotient, so the property ("never wraps
 * silently") says nothing about it; the code performs a machine division there (SIGFPE on x86: not silent).  This was
 * reported (pending_fixes/safeint-1-div-by-zero.*) but is not repaired in /repo because no listed property is violated. */
#ifdef CHECK_div_noexit
#define NOEXIT_div (SX(x) != 0 && fits64(m_div(self->f0, x)))
#else
#define NOEXIT_div (SX(x) != 0)
#endif
//@check id=div fn=_ZNK4crab8safe_i64dvES0_ props=C20 allow_error=1 backends=z3,cvc5 first_timeout=100 timeout=200 cbmc=--no-signed-overflow-check
//@check id=div_safe fn=_ZNK4crab8safe_i64dvES0_ tag=div harness=h_div props=C20 allow_error=1
//@check id=div_noexit fn=_ZNK4crab8safe_i64dvES0_ tag=div harness=h_div props=C20 backends=z3,cvc5 first_timeout=100 timeout=200 cbmc=--no-signed-overflow-check
BINOP(div, _ZNK4crab8safe_i64dvES0_, NOEXIT_div, POST_div_exact(RET, self->f0, x))

/* unary minus: -INT64_MIN = 2^63 does not fit -> CRAB_ERROR */
#ifdef CHECK_neg_noexit
#define NOEXIT_neg fits64(-SX(self->f0))
#else
#define NOEXIT_neg 1
#endif
//@check id=neg fn=_ZNK4crab8safe_i64ngEv props=C20 allow_error=1
//@check id=neg_noexit fn=_ZNK4crab8safe_i64ngEv tag=neg harness=h_neg props=C20
uint64_t _ZNK4crab8safe_i64ngEv(S *self)
__CPROVER_requires(FRESH(neg, self, sizeof(S)) && (NOEXIT_neg))
__CPROVER_assigns()
__CPROVER_ensures(POST_exact(RET, -SX(self->f0)));
void h_neg(void){ IN(S, a); _ZNK4crab8safe_i64ngEv(&a); REACH; }

/* compound assignment: returns this; *this is the mathematical result if the call returns */
#define ASGOP(tag, fn, NOEXIT, M) \
S *fn(S *self, uint64_t x) \
__CPROVER_requires(FRESH(tag, self, sizeof(S)) && (NOEXIT)) \
__CPROVER_assigns(*self) \
__CPROVER_ensures(RET == self) \
__CPROVER_ensures(POST_exact(self->f0, M(__CPROVER_old(self->f0), x))); \
void h_##tag(void){ IN(S, a); GHOST(uint64_t, x); fn(&a, x); REACH; }
#ifdef CHECK_add_asg_noexit
#define NOEXIT_add_asg fits64(m_add(self->f0, x))
#else
#define NOEXIT_add_asg 1
#endif
//@check id=add_asg fn=_ZN4crab8safe_i64pLES0_ props=C20 allow_error=1
//@check id=add_asg_noexit fn=_ZN4crab8safe_i64pLES0_ tag=add_asg harness=h_add_asg props=C20
ASGOP(add_asg, _ZN4crab8safe_i64pLES0_, NOEXIT_add_asg, m_add)
#ifdef CHECK_sub_asg_noexit
#define NOEXIT_sub_asg fits64(m_sub(self->f0, x))
#else
#define NOEXIT_sub_asg 1
#endif
//@check id=sub_asg fn=_ZN4crab8safe_i64mIES0_ props=C20 allow_error=1
//@check id=sub_asg_noexit fn=_ZN4crab8safe_i64mIES0_ tag=sub_asg harness=h_sub_asg props=C20
ASGOP(sub_asg, _ZN4crab8safe_i64mIES0_, NOEXIT_sub_asg, m_sub)

/* ------------------------------------------------------------------ comparisons (signed order on int64) */
#define CMP(tag, fn, OP) \
unsigned char fn(S *self, uint64_t x) \
__CPROVER_requires(FRESH(tag, self, sizeof(S))) \
__CPROVER_assigns() \
__CPROVER_ensures(RET == (SX(self->f0) OP SX(x) ? 1 : 0)); \
void h_##tag(void){ IN(S, a); GHOST(uint64_t, x); fn(&a, x); REACH; }
//@check id=eq fn=_ZNK4crab8safe_i64eqES0_ props=C20
CMP(eq, _ZNK4crab8safe_i64eqES0_, ==)
//@check id=ne fn=_ZNK4crab8safe_i64neES0_ props=C20
CMP(ne, _ZNK4crab8safe_i64neES0_, !=)
//@check id=lt fn=_ZNK4crab8safe_i64ltES0_ props=C20
CMP(lt, _ZNK4crab8safe_i64ltES0_, <)
//@check id=le fn=_ZNK4crab8safe_i64leES0_ props=C20
CMP(le, _ZNK4crab8safe_i64leES0_, <=)
//@check id=gt fn=_ZNK4crab8safe_i64gtES0_ props=C20
CMP(gt, _ZNK4crab8safe_i64gtES0_, >)
//@check id=ge fn=_ZNK4crab8safe_i64geES0_ props=C20
CMP(ge, _ZNK4crab8safe_i64geES0_, >=)

/* ------------------------------------------------------------------ construction and conversion */
//@check id=ctor0 fn=_ZN4crab8safe_i64C2Ev props=C20
void _ZN4crab8safe_i64C2Ev(S *self)
__CPROVER_requires(FRESH(ctor0, self, sizeof(S)))
__CPROVER_assigns(*self)
__CPROVER_ensures(SX(self->f0) == 0);
void h_ctor0(void){ S r; _ZN4crab8safe_i64C2Ev(&r); REACH; }
//@check id=ctor_i64 fn=_ZN4crab8safe_i64C2El props=C20
void _ZN4crab8safe_i64C2El(S *self, uint64_t n)
__CPROVER_requires(FRESH(ctor_i64, self, sizeof(S)))
__CPROVER_assigns(*self)
__CPROVER_ensures(SX(self->f0) == SX(n));
void h_ctor_i64(void){ S r; GHOST(uint64_t, n); _ZN4crab8safe_i64C2El(&r, n); REACH; }
//@check id=to_i64 fn=_ZNK4crab8safe_i64cvlEv props=C20
uint64_t _ZNK4crab8safe_i64cvlEv(S *self)
__CPROVER_requires(FRESH(to_i64, self, sizeof(S)))
__CPROVER_assigns()
__CPROVER_ensures(SX(RET) == SX(self->f0));
void h_to_i64(void){ IN(S, a); _ZNK4crab8safe_i64cvlEv(&a); REACH; }
/* safe_i64(z_number): exact for every z that fits int64; a z that does not fit leaves through CRAB_ERROR in
 * z_number::operator int64_t (proved in unit bignums: check z_to_i64 / z_to_i64_noexit), never truncates */
//@check id=ctor_z fn=_ZN4crab8safe_i64C2EN4ikos8z_numberE props=C20
void _ZN4crab8safe_i64C2EN4ikos8z_numberE(S *self, Z *n)
__CPROVER_requires(FRESH(ctor_z, self, sizeof(S)) && FRESH(ctor_z, n, sizeof(Z)) && fits64(ZV(n)))
__CPROVER_assigns(*self)
__CPROVER_ensures(SX(self->f0) == ZV(n));
void h_ctor_z(void){ S r; IN(Z, n); _ZN4crab8safe_i64C2EN4ikos8z_numberE(&r, &n); REACH; }
