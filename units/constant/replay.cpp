// Native replay for unit constant: the real crab::domains::constant<z_number> of the working tree, the same POST_*
// macros as the contracts (spec.h), evaluated on (kind, value) pairs read from the real objects.
#include <crab/domains/constant.hpp>
#include <crab/numbers/bignums.hpp>
#include <crab/support/os.hpp>
#include "replay.h"
#include "spec.h"
using ikos::z_number;
typedef crab::domains::constant<z_number> constant_t;
static i128 zval(const z_number &z) {                        // exact value of a z_number below 2^126
  z_number a = z < z_number(0) ? -z : z; i128 r = 0, m = 1;
  z_number base(1); base = base << z_number(32);
  while (a > z_number(0)) { r += m * (i128)(int64_t)(a % base); a = a / base; m <<= 32; }
  return z < z_number(0) ? -r : r; }
// witness layout: f1 = m_is_bottom, f0.f0.f0 = m_initialized, the constant in the first 8 storage bytes (|c| < 2^40)
static constant_t mk(const Wit &w, const char *n) { std::string p(n);
  bool bot = w.u(p + ".f1") != 0, init = w.u(p + ".f0.f0.f0") != 0; long long v = 0;
  for (int i = 7; i >= 0; i--) v = (long long)(((unsigned long long)v << 8) | (w.u(p + ".f0.f0.f2.f0.f0.a[" + std::to_string(i) + "]") & 0xff));
  constant_t r = bot ? constant_t::bottom() : init ? constant_t(z_number((int64_t)v)) : constant_t::top();
  crab::outs() << "  " << n << " = " << r << "\n"; return r; }
static unsigned K_(const constant_t &c) { return c.is_bottom() ? CK_BOT : c.is_constant() ? CK_CST : CK_TOP; }
static i128 V_(const constant_t &c) { return c.is_constant() ? zval(c.get_constant()) : 0; }
static bool ok_(const constant_t &c) { return !(c.m_is_bottom && c.m_constant); }
static constant_t res(const constant_t &c) { crab::outs() << "  result = " << c << "\n"; return c; }
static i128 pt(const Wit &w, const char *n) { long long v = w.s(n); printf("  %s = %lld\n", n, v); return (i128)v; }
#define PAIR(c) K_(c), V_(c)
#define X(M, ...) M(__VA_ARGS__)
#define GH i128 g_x = pt(wit, "g_x"), g_y = pt(wit, "g_y"); unsigned g_w = (unsigned)wit.u("g_w"); (void)g_w; (void)g_y
#define RLAT(id, EXPR, POST) REPLAY(id) { constant_t a = mk(wit, "a"), b = mk(wit, "b"); GH; constant_t r = res(EXPR); return ok_(r) && X(POST, PAIR(r), PAIR(a), PAIR(b), g_x); }
RLAT(c_join, a | b, POST_join) RLAT(c_meet, a & b, POST_meet) RLAT(c_widen, a || b, POST_widen) RLAT(c_narrow, a && b, POST_narrow)
#define FITS (fits_w(g_x, g_w) && fits_w(g_y, g_w))
#define RBIN(id, EXPR, DEF, OP) REPLAY(id) { constant_t a = mk(wit, "a"), b = mk(wit, "b"); GH; constant_t r = res(EXPR); \
  if (k_has(PAIR(a), g_x) && k_has(PAIR(b), g_y) && (DEF)) printf("  concrete result = %lld\n", (long long)(OP)); return ok_(r) && X(POST_bin, PAIR(r), PAIR(a), PAIR(b), g_x, g_y, DEF, OP); }
RBIN(c_add, a.Add(b), 1, g_x + g_y) RBIN(c_sub, a.Sub(b), 1, g_x - g_y) RBIN(c_mul, a.Mul(b), 1, ZM_mul(g_x, g_y))
RBIN(c_sdiv, a.SDiv(b), g_y != 0, ZM_div(g_x, g_y)) RBIN(c_srem, a.SRem(b), g_y != 0, ZM_rem(g_x, g_y))
RBIN(c_udiv, a.UDiv(b), FITS && g_y != 0, c_udiv(g_x, g_y, g_w)) RBIN(c_urem, a.URem(b), FITS && g_y != 0, c_urem(g_x, g_y, g_w))
RBIN(c_and, a.BitwiseAnd(b), 1, g_x & g_y) RBIN(c_or, a.BitwiseOr(b), 1, g_x | g_y) RBIN(c_xor, a.BitwiseXor(b), 1, g_x ^ g_y)
RBIN(c_shl, a.BitwiseShl(b), g_y >= 0 && g_y <= 59, c_shl(g_x, g_y)) RBIN(c_lshr, a.BitwiseLShr(b), FITS && g_y >= 0 && g_y < g_w, c_lshr(g_x, g_y, g_w))
RBIN(c_ashr, a.BitwiseAShr(b), g_y >= 0, c_ashr(g_x, g_y))
/* the bit-precise thorough-tier variants share contract and harness */
RBIN(c_mul_precise, a.Mul(b), 1, ZM_mul(g_x, g_y)) RBIN(c_sdiv_precise, a.SDiv(b), g_y != 0, ZM_div(g_x, g_y)) RBIN(c_srem_precise, a.SRem(b), g_y != 0, ZM_rem(g_x, g_y))
REPLAY(c_leq) { constant_t a = mk(wit, "a"), b = mk(wit, "b"); GH; bool rv = a <= b; printf("  result = %d\n", rv); return X(POST_leq, rv, PAIR(a), PAIR(b), g_x); }
REPLAY(c_leq_refl) { constant_t a = mk(wit, "a"); return a <= a; }
REPLAY(c_eq) { constant_t a = mk(wit, "a"), b = mk(wit, "b"); bool rv = a == b; printf("  result = %d\n", rv); return X(POST_eq, rv, PAIR(a), PAIR(b)); }
REPLAY(c_is_bottom) { constant_t a = mk(wit, "a"); GH; bool rv = a.is_bottom(); return X(POST_is_bottom, rv, PAIR(a), g_x); }
REPLAY(c_is_top) { constant_t a = mk(wit, "a"); GH; bool rv = a.is_top(); return X(POST_is_top, rv, PAIR(a), g_x); }
REPLAY(c_is_constant) { constant_t a = mk(wit, "a"); bool rv = a.is_constant(); return POST_is_constant(rv, K_(a)); }
REPLAY(c_agree) { return constant_t::bottom().is_bottom() && !constant_t::bottom().is_top() && constant_t::top().is_top() && !constant_t::top().is_bottom(); }
REPLAY(c_bottom) { return K_(res(constant_t::bottom())) == CK_BOT; }
REPLAY(c_top) { return K_(res(constant_t::top())) == CK_TOP; }
REPLAY(c_zero) { constant_t r = res(constant_t::zero()); return K_(r) == CK_CST && V_(r) == 0; }
REPLAY(c_ctor_z) { long long c = (long long)wit.u("c.f0.a.f0"); constant_t r = res(constant_t(z_number((int64_t)c))); return K_(r) == CK_CST && V_(r) == (i128)c; }
int main(int argc, char **argv) { return replay_main(argc, argv); }
