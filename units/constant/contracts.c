/* Contracts for crab::domains::constant<ikos::z_number> (constant_impl.hpp through lib/constant.cpp) — properties
 * C08 (every operation over-approximates the concrete operation on integers), C04 (inclusion test, join, meet,
 * is_bottom/is_top agree with the concretisation), C05 (widening = join: upper bound, stationary / strictly
 * higher in a lattice of height 2; narrowing = meet keeps its second argument).
 * Loop-free: every check is a full proof over all abstract values with constants |c| < 2^40 and all ghost
 * points |g| < 2^40 (see unit.json for the reading of * / % and of the unsigned operations). */
#include "spec.h"
i128 g_x, g_y;                      /* ghost concrete points: arbitrary, never assigned by the code */
unsigned g_w;                       /* ghost bit width for the unsigned operations */
#define GRANGE (g_x > -ZB && g_x < ZB && g_y > -ZB && g_y < ZB && g_w >= 1 && g_w <= 64)
#define HGHOSTS GHOSTG(i128, g_x); GHOSTG(i128, g_y); GHOSTG(unsigned, g_w)
#define F1(tag) FRESH(tag, self, sizeof(CT))
#define F2(tag) (FRESH(tag, self, sizeof(CT)) && FRESH(tag, x, sizeof(CT)))
#define F3(tag) (FRESH(tag, ret, sizeof(CT)) && F2(tag))
#define RV __CPROVER_return_value
#define A c_kind(self), c_val(self)
#define B c_kind(x), c_val(x)
#define R c_kind(ret), c_val(ret)
/* A, B, R stand for two macro arguments each: X(M, args) expands them before M is applied */
#define X(M, ...) M(__VA_ARGS__)

/* ---------------------------------------------------------------- constructors and factories */
/* constant(bool is_bottom): bottom or top */
//@check id=c_ctor_bool fn=_ZN4crab7domains8constantIN4ikos8z_numberEEC2Eb props=C08,C04
void _ZN4crab7domains8constantIN4ikos8z_numberEEC2Eb(CT *self, unsigned char is_bottom)
__CPROVER_requires(F1(c_ctor_bool) && is_bottom <= 1)
__CPROVER_assigns(*self)
__CPROVER_ensures(c_ok(self) && c_kind(self) == (is_bottom ? CK_BOT : CK_TOP));
void h_c_ctor_bool(void){ CT r; GHOST(unsigned char, isb); _ZN4crab7domains8constantIN4ikos8z_numberEEC2Eb(&r, isb); REACH; }
/* constant(Number c): exactly c */
//@check id=c_ctor_z fn=_ZN4crab7domains8constantIN4ikos8z_numberEEC2ES3_ props=C08
void _ZN4crab7domains8constantIN4ikos8z_numberEEC2ES3_(CT *self, Z *c)
__CPROVER_requires(F1(c_ctor_z) && FRESH(c_ctor_z, c, sizeof(Z)) && ZV(c) > -ZB && ZV(c) < ZB && TOP(c_ctor_z, GRANGE))
__CPROVER_assigns(*self)
__CPROVER_ensures(c_ok(self) && c_kind(self) == CK_CST && c_val(self) == ZV(c))     /* *c is outside the frame: unchanged */
__CPROVER_ensures(TOP(c_ctor_z, X(k_has, A, g_x) == (g_x == ZV(c))));
void h_c_ctor_z(void){ CT r; IN(Z, c); HGHOSTS; _ZN4crab7domains8constantIN4ikos8z_numberEEC2ES3_(&r, &c); REACH; }
//@check id=c_ctor_copy fn=_ZN4crab7domains8constantIN4ikos8z_numberEEC2ERKS4_ props=C08,C04
void _ZN4crab7domains8constantIN4ikos8z_numberEEC2ERKS4_(CT *self, CT *x)
__CPROVER_requires(F2(c_ctor_copy) && c_ok(x))
__CPROVER_assigns(*self)
__CPROVER_ensures(c_ok(self) && X(k_same, A, B));
void h_c_ctor_copy(void){ CT r; IN(CT, b); _ZN4crab7domains8constantIN4ikos8z_numberEEC2ERKS4_(&r, &b); REACH; }

#define STATIC(tag, fn, KIND, VAL) \
void fn(CT *ret) \
__CPROVER_requires(FRESH(tag, ret, sizeof(CT)) && TOP(tag, GRANGE)) \
__CPROVER_assigns(*ret) \
__CPROVER_ensures(c_ok(ret) && c_kind(ret) == (KIND) && ((KIND) != CK_CST || c_val(ret) == (VAL))) \
__CPROVER_ensures(TOP(tag, X(k_has, R, g_x) == k_has(KIND, VAL, g_x))); \
void h_##tag(void){ CT r; HGHOSTS; fn(&r); REACH; }
//@check id=c_bottom fn=_ZN4crab7domains8constantIN4ikos8z_numberEE6bottomEv props=C08,C04
STATIC(c_bottom, _ZN4crab7domains8constantIN4ikos8z_numberEE6bottomEv, CK_BOT, 0)
//@check id=c_top fn=_ZN4crab7domains8constantIN4ikos8z_numberEE3topEv props=C08,C04
STATIC(c_top, _ZN4crab7domains8constantIN4ikos8z_numberEE3topEv, CK_TOP, 0)
//@check id=c_zero fn=_ZN4crab7domains8constantIN4ikos8z_numberEE4zeroEv props=C08
STATIC(c_zero, _ZN4crab7domains8constantIN4ikos8z_numberEE4zeroEv, CK_CST, 0)

/* ---------------------------------------------------------------- queries */
#define QUERY(tag, fn, POST) \
unsigned char fn(CT *self) \
__CPROVER_requires(F1(tag) && c_ok(self) && TOP(tag, GRANGE)) \
__CPROVER_assigns() \
__CPROVER_ensures(TOP(tag, POST)); \
void h_##tag(void){ IN(CT, a); HGHOSTS; fn(&a); REACH; }
/* is_bottom() <=> no integer is described; is_top() => every integer is described */
//@check id=c_is_bottom fn=_ZNK4crab7domains8constantIN4ikos8z_numberEE9is_bottomEv props=C08,C04
QUERY(c_is_bottom, _ZNK4crab7domains8constantIN4ikos8z_numberEE9is_bottomEv, X(POST_is_bottom, RV, A, g_x))
//@check id=c_is_top fn=_ZNK4crab7domains8constantIN4ikos8z_numberEE6is_topEv props=C08,C04
QUERY(c_is_top, _ZNK4crab7domains8constantIN4ikos8z_numberEE6is_topEv, X(POST_is_top, RV, A, g_x))
//@check id=c_is_constant fn=_ZNK4crab7domains8constantIN4ikos8z_numberEE11is_constantEv props=C08
QUERY(c_is_constant, _ZNK4crab7domains8constantIN4ikos8z_numberEE11is_constantEv, POST_is_constant(RV, c_kind(self)))
/* get_constant(): defined on constants (assert in the source), returns the only described integer */
//@check id=c_get_constant fn=_ZNK4crab7domains8constantIN4ikos8z_numberEE12get_constantEv props=C08
void _ZNK4crab7domains8constantIN4ikos8z_numberEE12get_constantEv(Z *ret, CT *self)
__CPROVER_requires(FRESH(c_get_constant, ret, sizeof(Z)) && F1(c_get_constant) && c_ok(self) && c_kind(self) == CK_CST && TOP(c_get_constant, GRANGE))
__CPROVER_assigns(*ret)
__CPROVER_ensures(ZV(ret) == c_val(self))
__CPROVER_ensures(TOP(c_get_constant, X(k_has, A, g_x) == (g_x == ZV(ret))));
void h_c_get_constant(void){ IN(CT, a); HGHOSTS; Z r; _ZNK4crab7domains8constantIN4ikos8z_numberEE12get_constantEv(&r, &a); REACH; }
/* is_bottom/is_top agree with bottom()/top() (real functions composed in the harness; dfcc wants the enforced
 * function called exactly once: that is bottom(), everything else runs in line) */
//@check id=c_agree fn=_ZN4crab7domains8constantIN4ikos8z_numberEE6bottomEv tag=c_bottom props=C04
void h_c_agree(void){ HGHOSTS; CT r;
  _ZN4crab7domains8constantIN4ikos8z_numberEE6bottomEv(&r);
  __CPROVER_assert(_ZNK4crab7domains8constantIN4ikos8z_numberEE9is_bottomEv(&r), "bottom().is_bottom()");
  __CPROVER_assert(!_ZNK4crab7domains8constantIN4ikos8z_numberEE6is_topEv(&r), "!bottom().is_top()");
  _ZN4crab7domains8constantIN4ikos8z_numberEE3topEv(&r);
  __CPROVER_assert(_ZNK4crab7domains8constantIN4ikos8z_numberEE6is_topEv(&r), "top().is_top()");
  __CPROVER_assert(!_ZNK4crab7domains8constantIN4ikos8z_numberEE9is_bottomEv(&r), "!top().is_bottom()");
  REACH; }

/* ---------------------------------------------------------------- order and lattice operations */
//@check id=c_leq fn=_ZNK4crab7domains8constantIN4ikos8z_numberEEleERKS4_ props=C08,C04
unsigned char _ZNK4crab7domains8constantIN4ikos8z_numberEEleERKS4_(CT *self, CT *x)
__CPROVER_requires(F2(c_leq) && c_ok(self) && c_ok(x) && TOP(c_leq, GRANGE))
__CPROVER_assigns()
__CPROVER_ensures(TOP(c_leq, X(POST_leq, RV, A, B, g_x)));
void h_c_leq(void){ IN(CT, a); IN(CT, b); HGHOSTS; _ZNK4crab7domains8constantIN4ikos8z_numberEEleERKS4_(&a, &b); REACH; }
/* reflexivity with the same object on both sides */
//@check id=c_leq_refl fn=_ZNK4crab7domains8constantIN4ikos8z_numberEEleERKS4_ tag=c_leq props=C04
void h_c_leq_refl(void){ IN(CT, a); HGHOSTS; unsigned char r = _ZNK4crab7domains8constantIN4ikos8z_numberEEleERKS4_(&a, &a); __CPROVER_assert(r, "x <= x"); REACH; }
//@check id=c_eq fn=_ZNK4crab7domains8constantIN4ikos8z_numberEEeqERKS4_ props=C08,C04
unsigned char _ZNK4crab7domains8constantIN4ikos8z_numberEEeqERKS4_(CT *self, CT *x)
__CPROVER_requires(F2(c_eq) && c_ok(self) && c_ok(x))
__CPROVER_assigns()
__CPROVER_ensures(X(POST_eq, RV, A, B));
void h_c_eq(void){ IN(CT, a); IN(CT, b); _ZNK4crab7domains8constantIN4ikos8z_numberEEeqERKS4_(&a, &b); REACH; }

#define COP(tag, fn, EXTRA, POST) \
void fn(CT *ret, CT *self, CT *x) \
__CPROVER_requires(F3(tag) && c_ok(self) && c_ok(x) && (EXTRA) && TOP(tag, GRANGE)) \
__CPROVER_assigns(*ret) \
__CPROVER_ensures(c_okz(ret, ZLIM)) \
__CPROVER_ensures(TOP(tag, POST)); \
void h_##tag(void){ IN(CT, a); IN(CT, b); HGHOSTS; CT r; fn(&r, &a, &b); REACH; }
//@check id=c_join fn=_ZNK4crab7domains8constantIN4ikos8z_numberEEorERKS4_ props=C08,C04
COP(c_join, _ZNK4crab7domains8constantIN4ikos8z_numberEEorERKS4_, 1, X(POST_join, R, A, B, g_x))
//@check id=c_meet fn=_ZNK4crab7domains8constantIN4ikos8z_numberEEanERKS4_ props=C08,C04
COP(c_meet, _ZNK4crab7domains8constantIN4ikos8z_numberEEanERKS4_, 1, X(POST_meet, R, A, B, g_x))
//@check id=c_widen fn=_ZNK4crab7domains8constantIN4ikos8z_numberEEooERKS4_ props=C08,C05
COP(c_widen, _ZNK4crab7domains8constantIN4ikos8z_numberEEooERKS4_, 1, X(POST_widen, R, A, B, g_x))
//@check id=c_narrow fn=_ZNK4crab7domains8constantIN4ikos8z_numberEEaaERKS4_ props=C08,C05
COP(c_narrow, _ZNK4crab7domains8constantIN4ikos8z_numberEEaaERKS4_, 1, X(POST_narrow, R, A, B, g_x))

/* ---------------------------------------------------------------- arithmetic */
#define CBIN(tag, fn, EXTRA, DEF, OP) COP(tag, fn, EXTRA, X(POST_bin, R, A, B, g_x, g_y, DEF, OP))
//@check id=c_add fn=_ZNK4crab7domains8constantIN4ikos8z_numberEE3AddERKS4_ props=C08
CBIN(c_add, _ZNK4crab7domains8constantIN4ikos8z_numberEE3AddERKS4_, 1, 1, g_x + g_y)
//@check id=c_sub fn=_ZNK4crab7domains8constantIN4ikos8z_numberEE3SubERKS4_ props=C08
CBIN(c_sub, _ZNK4crab7domains8constantIN4ikos8z_numberEE3SubERKS4_, 1, 1, g_x - g_y)
//@check id=c_mul fn=_ZNK4crab7domains8constantIN4ikos8z_numberEE3MulERKS4_ props=C08
CBIN(c_mul, _ZNK4crab7domains8constantIN4ikos8z_numberEE3MulERKS4_, 1, 1, ZM_mul(g_x, g_y))
/* signed division / remainder truncate toward zero; defined for a non-zero divisor */
//@check id=c_sdiv fn=_ZNK4crab7domains8constantIN4ikos8z_numberEE4SDivERKS4_ props=C08
CBIN(c_sdiv, _ZNK4crab7domains8constantIN4ikos8z_numberEE4SDivERKS4_, 1, g_y != 0, ZM_div(g_x, g_y))
//@check id=c_srem fn=_ZNK4crab7domains8constantIN4ikos8z_numberEE4SRemERKS4_ props=C08
CBIN(c_srem, _ZNK4crab7domains8constantIN4ikos8z_numberEE4SRemERKS4_, 1, g_y != 0, ZM_rem(g_x, g_y))
/* bounded cross-check (thorough tier): the same contracts with * / % bit-precise on constants and points below 2^6
 * (ZM_PRECISE): the uninterpreted reading above agrees with the machine operations; NOT counted as proof */
//@check id=c_mul_precise fn=_ZNK4crab7domains8constantIN4ikos8z_numberEE3MulERKS4_ tag=c_mul harness=h_c_mul props=C08 tier=thorough defs=ZM_PRECISE,ZBITS=6 bounded="bit-precise small arithmetic: operands below 2^6 in magnitude only"
//@check id=c_sdiv_precise fn=_ZNK4crab7domains8constantIN4ikos8z_numberEE4SDivERKS4_ tag=c_sdiv harness=h_c_sdiv props=C08 tier=thorough defs=ZM_PRECISE,ZBITS=6 bounded="bit-precise small arithmetic: operands below 2^6 in magnitude only"
//@check id=c_srem_precise fn=_ZNK4crab7domains8constantIN4ikos8z_numberEE4SRemERKS4_ tag=c_srem harness=h_c_srem props=C08 tier=thorough defs=ZM_PRECISE,ZBITS=6 bounded="bit-precise small arithmetic: operands below 2^6 in magnitude only"

/* unsigned division / remainder: for every width g_w in which both points are representable */
#define FITS (fits_w(g_x, g_w) && fits_w(g_y, g_w))
//@check id=c_udiv fn=_ZNK4crab7domains8constantIN4ikos8z_numberEE4UDivERKS4_ props=C08
CBIN(c_udiv, _ZNK4crab7domains8constantIN4ikos8z_numberEE4UDivERKS4_, 1, FITS && g_y != 0, c_udiv(g_x, g_y, g_w))
//@check id=c_urem fn=_ZNK4crab7domains8constantIN4ikos8z_numberEE4URemERKS4_ props=C08
CBIN(c_urem, _ZNK4crab7domains8constantIN4ikos8z_numberEE4URemERKS4_, 1, FITS && g_y != 0, c_urem(g_x, g_y, g_w))
/* bitwise operations: infinite-precision two's complement */
//@check id=c_and fn=_ZNK4crab7domains8constantIN4ikos8z_numberEE10BitwiseAndERKS4_ props=C08
CBIN(c_and, _ZNK4crab7domains8constantIN4ikos8z_numberEE10BitwiseAndERKS4_, 1, 1, g_x & g_y)
//@check id=c_or fn=_ZNK4crab7domains8constantIN4ikos8z_numberEE9BitwiseOrERKS4_ props=C08
CBIN(c_or, _ZNK4crab7domains8constantIN4ikos8z_numberEE9BitwiseOrERKS4_, 1, 1, g_x | g_y)
//@check id=c_xor fn=_ZNK4crab7domains8constantIN4ikos8z_numberEE10BitwiseXorERKS4_ props=C08
CBIN(c_xor, _ZNK4crab7domains8constantIN4ikos8z_numberEE10BitwiseXorERKS4_, 1, 1, g_x ^ g_y)
/* x * 2^k; the z_number model keeps values below 2^100, hence constant shift amounts up to 59 (model range, see unit.json) */
#define SHL_RANGE (!(c_kind(self) == CK_CST && c_kind(x) == CK_CST) || c_val(x) <= 59)
//@check id=c_shl fn=_ZNK4crab7domains8constantIN4ikos8z_numberEE10BitwiseShlERKS4_ props=C08
CBIN(c_shl, _ZNK4crab7domains8constantIN4ikos8z_numberEE10BitwiseShlERKS4_, SHL_RANGE, g_y >= 0 && g_y <= 59, c_shl(g_x, g_y))
/* logical shift at every width g_w in which the points are representable, amount in [0, g_w) */
//@check id=c_lshr fn=_ZNK4crab7domains8constantIN4ikos8z_numberEE11BitwiseLShrERKS4_ props=C08
CBIN(c_lshr, _ZNK4crab7domains8constantIN4ikos8z_numberEE11BitwiseLShrERKS4_, 1, FITS && g_y >= 0 && g_y < g_w, c_lshr(g_x, g_y, g_w))
/* floor shift, every amount >= 0 */
//@check id=c_ashr fn=_ZNK4crab7domains8constantIN4ikos8z_numberEE11BitwiseAShrERKS4_ props=C08
CBIN(c_ashr, _ZNK4crab7domains8constantIN4ikos8z_numberEE11BitwiseAShrERKS4_, 1, g_y >= 0, c_ashr(g_x, g_y))
