/* Specification vocabulary for crab::domains::constant<ikos::z_number> (include/crab/domains/constant.hpp,
 * constant_impl.hpp, lib/constant.cpp).  Shared by contracts.c (CBMC) and replay.cpp (native).
 * CT is the compiler's own lowering of the class:
 *   f0 = m_constant : boost::optional<z_number> = { optional_base { f0 = m_initialized, f1 = padding,
 *                     f2 = aligned storage (16 raw bytes holding the z_number when initialized) } }
 *   f1 = m_is_bottom, f2 = tail padding.
 *
 * Stated meaning: the flat lattice of constants:  bottom (no value) / a single integer c / top (every integer). */
#ifndef CONSTANT_SPEC_H
#define CONSTANT_SPEC_H
#include "verif.h"
#include "unit_types.h"
#ifndef __cplusplus
#include "zmodel.h"          /* models/ is on the include path of the contract build only */
#endif
typedef struct S_class_crab__domains__constant CT;
#ifndef ZBITS
#define ZBITS 40
#endif
#define ZB (((i128)1) << ZBITS)     /* ghost points and constants of INPUTS lie strictly inside (-ZB, ZB) */
#define C_INIT(c) ((c)->f0.f0.f0)
#define C_BOT(c)  ((c)->f1)
#ifdef __cplusplus
/* native replay never reads model integers out of real objects: values are passed explicitly */
#define ZLIM (((i128)1) << 100)
static inline i128 ZM_mul(i128 a, i128 b){ return a * b; }
static inline i128 ZM_div(i128 a, i128 b){ return a / b; }
static inline i128 ZM_rem(i128 a, i128 b){ return a % b; }
#else
/* the stored constant (meaningful when initialized) */
static inline i128 c_val(const CT *c){ return ZV((const Z *)&c->f0.f0.f2); }
/* representation invariant: flags are 0/1, bottom carries no constant, the constant is in the model range */
static inline bool c_okz(const CT *c, i128 z){ return C_BOT(c) <= 1 && C_INIT(c) <= 1 && !(C_BOT(c) && C_INIT(c)) && (!C_INIT(c) || (c_val(c) > -z && c_val(c) < z)); }
static inline bool c_ok(const CT *c){ return c_okz(c, ZB); }
static inline unsigned c_kind(const CT *c){ return C_BOT(c) ? 0u : C_INIT(c) ? 1u : 2u; }
#endif
/* ---- abstract values as (kind, value): kind 0 = bottom, 1 = constant value, 2 = top */
#define CK_BOT 0u
#define CK_CST 1u
#define CK_TOP 2u
/* concretisation */
static inline bool k_has(unsigned k, i128 c, i128 v){ return k == CK_TOP || (k == CK_CST && c == v); }
static inline bool k_same(unsigned ka, i128 ca, unsigned kb, i128 cb){ return ka == kb && (ka != CK_CST || ca == cb); }
/* semantic inclusion of the flat lattice */
static inline bool k_leq(unsigned ka, i128 ca, unsigned kb, i128 cb){ return ka == CK_BOT || kb == CK_TOP || (ka == CK_CST && kb == CK_CST && ca == cb); }
static inline int k_rank(unsigned k){ return (int)k; }      /* height in the flat lattice: bottom 0, constant 1, top 2 */

/* ---- concrete operations on integers */
static inline bool fits_w(i128 v, unsigned w){ return v >= -((i128)1 << (w - 1)) && v < ((i128)1 << (w - 1)); }
static inline u128 u_of(i128 v, unsigned w){ return (u128)v & ((((u128)1) << w) - 1); }
static inline i128 s_of(u128 u, unsigned w){ return ((u >> (w - 1)) & 1) ? (i128)u - ((i128)1 << w) : (i128)u; }
static inline i128 c_udiv(i128 x, i128 y, unsigned w){ return s_of(u_of(x, w) / u_of(y, w), w); }   /* y != 0 */
static inline i128 c_urem(i128 x, i128 y, unsigned w){ return s_of(u_of(x, w) % u_of(y, w), w); }   /* y != 0 */
static inline i128 c_lshr(i128 x, i128 k, unsigned w){ return s_of(u_of(x, w) >> (unsigned)k, w); } /* 0 <= k < w */
static inline i128 c_shl(i128 x, i128 k){ return x * ((i128)1 << (unsigned)k); }                    /* 0 <= k <= 59 */
static inline i128 c_ashr(i128 x, i128 k){ return k >= 127 ? (x < 0 ? -1 : 0) : (x >> (unsigned)k); } /* k >= 0, floor */

/* ---- postconditions over (kind, value) triples: r = result, a = self, b = other, x / y concrete points */
#define POST_is_bottom(rv, ka, ca, x) (((rv) != 0) == ((ka) == CK_BOT) && ((rv) ? !k_has(ka, ca, x) : k_has(ka, ca, (ka) == CK_CST ? (ca) : 0)))
#define POST_is_top(rv, ka, ca, x)    (((rv) != 0) == ((ka) == CK_TOP) && (!(rv) || k_has(ka, ca, x)))
#define POST_is_constant(rv, ka)      (((rv) != 0) == ((ka) == CK_CST))
#define POST_leq(rv, ka, ca, kb, cb, x) (((rv) != 0) == k_leq(ka, ca, kb, cb) && (((rv) && k_has(ka, ca, x)) ? k_has(kb, cb, x) : 1) \
                                         && ((ka) != CK_BOT || (rv)) && ((kb) != CK_TOP || (rv)) && (!k_same(ka, ca, kb, cb) || (rv)))
#define POST_eq(rv, ka, ca, kb, cb)   (((rv) != 0) == k_same(ka, ca, kb, cb))
#define POST_join(kr, cr, ka, ca, kb, cb, x)  (((k_has(ka, ca, x) || k_has(kb, cb, x)) ? k_has(kr, cr, x) : 1) && k_leq(ka, ca, kr, cr) && k_leq(kb, cb, kr, cr))
#define POST_meet(kr, cr, ka, ca, kb, cb, x)  ((k_has(ka, ca, x) && k_has(kb, cb, x)) ? k_has(kr, cr, x) : 1)
/* widening (= join): upper bound, stationary on an included argument, otherwise strictly higher (height <= 2) */
#define POST_widen(kr, cr, ka, ca, kb, cb, x) (POST_join(kr, cr, ka, ca, kb, cb, x) && (k_leq(kb, cb, ka, ca) ? k_same(kr, cr, ka, ca) : k_rank(kr) > k_rank(ka)) && k_rank(kr) <= 2)
/* narrowing (= meet) of a decreasing pair keeps the second argument and stays below the first */
#define POST_narrow(kr, cr, ka, ca, kb, cb, x) (((k_leq(kb, cb, ka, ca) && k_has(kb, cb, x)) ? k_has(kr, cr, x) : 1) && (k_leq(kb, cb, ka, ca) ? k_leq(kr, cr, ka, ca) : 1))
#define POST_bin(kr, cr, ka, ca, kb, cb, x, y, DEF, OP) ((k_has(ka, ca, x) && k_has(kb, cb, y) && (DEF)) ? k_has(kr, cr, OP) : 1)
#endif
