#!/usr/bin/env python3
"""Generates /verif/lemmas/wi_<op>.smt2: for every bit width in WIDTHS, "the spec function sp_<op> of
units/wrapped_interval/spec.h is sound w.r.t. the concretisation wi_has" (and the growth fact of widening), over NATIVE
w-bit bit-vectors, one `(check-sat)` per width and claim, each of which must be `unsat` (negated claim) on z3 and cvc5.

Correspondence with the C vocabulary (spec.h), operands of width w (values are reduced modulo 2^w there by `& msk(w)`,
here by the sort (_ BitVec w)):
  an interval X is the four terms Xb Xt Xs Xe: Xb is m_is_bottom; Xs, Xe are the start / end values; Xt is set only on
       the constant top() (which the C side builds at width 3): it means "every value".  Operand tops (of whatever
       width) are [s, s-1] or carry the flag: no spec function reads the end points of a top.
  istop = wi_top;  has = wi_has;  leq = sp_leq;  eqv = sp_eq;  join_* = sp_join (selector + components);  meet_* = sp_meet; ...
  every `define-fun` below is the line-by-line transcription of the C function named in its comment.
WLOG parametrisation (it only helps the solvers' normalisers; every interval and every point is reached): an input interval
is given by its start and its SPAN (end = start + span), a point of it by its OFFSET k from the start (point = start + k),
the start of the second operand by its offset from the start of the first (so that absolute positions cancel)."""
import os, sys
WIDTHS = [1, 2, 3, 4, 5, 6, 7, 8, 16, 32, 64]
WIDTHS_OF = {'widen': [1, 2, 3, 4, 5, 6], 'widen_w8': [8], 'widen_grow': [1, 2, 3, 4, 5, 6, 7, 8],   # wider: no answer within the lemma budget
             'shl': [1, 2, 3, 4, 5, 6, 7, 8, 16, 32], 'lshr': [1, 2, 3, 4, 5, 6, 7, 8, 16, 32], 'ashr': [1, 2, 3, 4, 5, 6, 7, 8, 16, 32]}   # 64: no answer within the lemma budget
OUT = os.path.join(os.path.dirname(os.path.abspath(__file__)), '..', '..', 'lemmas')

PRELUDE = '''(define-sort BV () (_ BitVec {w}))
(define-fun zero () BV (_ bv0 {w}))
(define-fun one () BV (_ bv1 {w}))
(define-fun ones () BV (bvnot (_ bv0 {w})))
(define-fun smin () BV (bvshl (_ bv1 {w}) (_ bv{wm1} {w})))
(define-fun smax () BV (bvnot smin))
; wi_top, wi_has
(define-fun istop ((b Bool) (t Bool) (s BV) (e BV)) Bool (and (not b) (or t (= (bvsub e s) ones))))
(define-fun has ((b Bool) (t Bool) (s BV) (e BV) (v BV)) Bool (and (not b) (or t (= (bvsub e s) ones) (bvule (bvsub v s) (bvsub e s)))))
; sp_leq, sp_eq
(define-fun leq ((Ab Bool) (At Bool) (As BV) (Ae BV) (Bb Bool) (Bt Bool) (Bs BV) (Be BV)) Bool
  (ite (or (istop Bb Bt Bs Be) Ab) true (ite (or Bb (istop Ab At As Ae)) false (ite (and (= As Bs) (= Ae Be)) true
  (and (has Bb Bt Bs Be As) (has Bb Bt Bs Be Ae) (or (not (has Ab At As Ae Bs)) (not (has Ab At As Ae Be))))))))
(define-fun eqv ((Ab Bool) (At Bool) (As BV) (Ae BV) (Bb Bool) (Bt Bool) (Bs BV) (Be BV)) Bool (and (leq Ab At As Ae Bb Bt Bs Be) (leq Bb Bt Bs Be Ab At As Ae)))
; sp_join: which result  0: b   1: a   2: top()   3: [As, Be]   4: [Bs, Ae]
(define-fun join_sel ((Ab Bool) (At Bool) (As BV) (Ae BV) (Bb Bool) (Bt Bool) (Bs BV) (Be BV)) (_ BitVec 3)
  (ite (leq Ab At As Ae Bb Bt Bs Be) #b000 (ite (leq Bb Bt Bs Be Ab At As Ae) #b001
  (let ((b_as (has Bb Bt Bs Be As)) (b_ae (has Bb Bt Bs Be Ae)) (a_bs (has Ab At As Ae Bs)) (a_be (has Ab At As Ae Be)))
  (ite (and b_as b_ae a_bs a_be) #b010
  (ite (and b_ae a_bs) #b011
  (ite (and a_be b_as) #b100
  (let ((span_a (bvsub Bs Ae)) (span_b (bvsub As Be)))
  (ite (or (bvult span_a span_b) (and (= span_a span_b) (bvule As Bs))) #b011 #b100)))))))))
(define-fun join_b ((Ab Bool) (At Bool) (As BV) (Ae BV) (Bb Bool) (Bt Bool) (Bs BV) (Be BV)) Bool
  (let ((c (join_sel Ab At As Ae Bb Bt Bs Be))) (ite (= c #b000) Bb (ite (= c #b001) Ab false))))
(define-fun join_t ((Ab Bool) (At Bool) (As BV) (Ae BV) (Bb Bool) (Bt Bool) (Bs BV) (Be BV)) Bool
  (let ((c (join_sel Ab At As Ae Bb Bt Bs Be))) (ite (= c #b000) Bt (ite (= c #b001) At (= c #b010)))))
(define-fun join_s ((Ab Bool) (At Bool) (As BV) (Ae BV) (Bb Bool) (Bt Bool) (Bs BV) (Be BV)) BV
  (let ((c (join_sel Ab At As Ae Bb Bt Bs Be))) (ite (= c #b000) Bs (ite (= c #b001) As (ite (= c #b011) As Bs)))))
(define-fun join_e ((Ab Bool) (At Bool) (As BV) (Ae BV) (Bb Bool) (Bt Bool) (Bs BV) (Be BV)) BV
  (let ((c (join_sel Ab At As Ae Bb Bt Bs Be))) (ite (= c #b000) Be (ite (= c #b001) Ae (ite (= c #b011) Be Ae)))))
(define-fun join_has ((Ab Bool) (At Bool) (As BV) (Ae BV) (Bb Bool) (Bt Bool) (Bs BV) (Be BV) (v BV)) Bool
  (let ((c (join_sel Ab At As Ae Bb Bt Bs Be)))
  (ite (= c #b000) (has Bb Bt Bs Be v) (ite (= c #b001) (has Ab At As Ae v) (ite (= c #b010) true (ite (= c #b011) (has false false As Be v) (has false false Bs Ae v)))))))
; sp_meet: which result  0: a   1: b   2: [As, Be]   3: [Bs, Ae]   4: bottom()
(define-fun meet_sel ((Ab Bool) (At Bool) (As BV) (Ae BV) (Bb Bool) (Bt Bool) (Bs BV) (Be BV)) (_ BitVec 3)
  (ite (leq Ab At As Ae Bb Bt Bs Be) #b000 (ite (leq Bb Bt Bs Be Ab At As Ae) #b001
  (ite (has Bb Bt Bs Be As)
    (ite (has Ab At As Ae Bs)
      (ite (or (bvult (bvsub Ae As) (bvsub Be Bs)) (and (= (bvsub Ae As) (bvsub Be Bs)) (bvule As Bs))) #b000 #b001)
      (ite (has Bb Bt Bs Be Ae) #b000 #b010))
    (ite (has Ab At As Ae Bs)
      (ite (has Ab At As Ae Be) #b001 #b011)
      #b100)))))
(define-fun meet_has ((Ab Bool) (At Bool) (As BV) (Ae BV) (Bb Bool) (Bt Bool) (Bs BV) (Be BV) (v BV)) Bool
  (let ((c (meet_sel Ab At As Ae Bb Bt Bs Be)))
  (ite (= c #b000) (has Ab At As Ae v) (ite (= c #b001) (has Bb Bt Bs Be v) (ite (= c #b010) (has false false As Be v) (ite (= c #b011) (has false false Bs Ae v) false))))))
; wi_subset: inclusion decided on the representation (implies: the span of R is at least the span of X when neither is top / bottom)
(define-fun subset ((Xb Bool) (Xt Bool) (Xs BV) (Xe BV) (Rb Bool) (Rt Bool) (Rs BV) (Re BV)) Bool
  (or Xb (istop Rb Rt Rs Re) (and (not Rb) (not (istop Xb Xt Xs Xe)) (bvule (bvsub Xs Rs) (bvsub Re Rs)) (bvule (bvsub Xe Xs) (bvsub (bvsub Re Rs) (bvsub Xs Rs))))))
; sp_overflow, sp_cross_s, sp_cross_u, sp_single
(define-fun overflow ((As BV) (Ae BV) (Bs BV) (Be BV)) Bool (bvule (bvadd (bvadd (bvsub Be Bs) (bvsub Ae As)) one) (bvsub Be Bs)))
(define-fun cross_s ((Ab Bool) (At Bool) (As BV) (Ae BV)) Bool (leq false false smax smin Ab At As Ae))
(define-fun cross_u ((Ab Bool) (At Bool) (As BV) (Ae BV)) Bool (leq false false ones zero Ab At As Ae))
(define-fun single ((Ab Bool) (At Bool) (As BV) (Ae BV)) Bool (and (not Ab) (not (istop Ab At As Ae)) (= As Ae)))
'''
# operands A, B given by (bottom flag, start, span); ghost points by offsets.  $A / $B expand to the four terms of the operand.
OPA = '''(declare-const Ab Bool) (declare-const At Bool) (declare-const As BV) (declare-const Ad BV) (define-fun Ae () BV (bvadd As Ad))
(declare-const kx BV) (define-fun gx () BV (bvadd As kx))
'''
OPB = '''(declare-const Bb Bool) (declare-const Bt Bool) (declare-const pB BV) (declare-const Bd BV) (define-fun Bs () BV (bvadd As pB)) (define-fun Be () BV (bvadd Bs Bd))
(declare-const ky BV) (define-fun gy () BV (bvadd Bs ky))
'''
A = 'Ab At As Ae'
B = 'Bb Bt Bs Be'
L = {}   # name -> list of (claim title, smt text after the prelude)

L['leq'] = [('a <= b and v in a  ==>  v in b', OPA + OPB + '''
(assert (leq $A $B)) (assert (has $A gx))
(assert (not (has $B gx)))''')]
# join: one query per result case of sp_join and per operand (the conjunction is the claim)
JCASES = ('000', '001', '010', '011', '100')
L['join'] = [('case %s of sp_join: v in %s  ==>  v in a|b' % (c, 'a' if side == 'A' else 'b'), OPA + OPB + '''
(assert (= (join_sel $A $B) #b%s))
(assert (has $%s %s))
(assert (not (join_has $A $B %s)))''' % (c, side, 'gx' if side == 'A' else 'gy', 'gx' if side == 'A' else 'gy'))
             for c in JCASES for side in ('A', 'B')]
L['meet'] = [('v in a and v in b  ==>  v in a&b', OPA + OPB + '''
(assert (has $A gx)) (assert (has $B gx))
(assert (not (meet_has $A $B gx)))''')]
ARITH_R = '''
(define-fun Rb () Bool (or Ab Bb))
(define-fun Rt () Bool (and (not Rb) (or (istop $A) (istop $B) (overflow As Ae Bs Be))))
'''
L['add'] = [('x in a, y in b  ==>  x+y in a+b', OPA + OPB + ARITH_R + '''
(assert (has $A gx)) (assert (has $B gy))
(assert (not (has Rb Rt (bvadd As Bs) (bvadd Ae Be) (bvadd gx gy))))''')]
L['sub'] = [('x in a, y in b  ==>  x-y in a-b', OPA + OPB + ARITH_R + '''
(assert (has $A gx)) (assert (has $B gy))
(assert (not (has Rb Rt (bvsub As Be) (bvsub Ae Bs) (bvsub gx gy))))''')]
L['neg'] = [('x in a  ==>  -x in -a', OPA + '''
(assert (has $A gx))
(assert (not (has Ab (istop $A) (bvneg Ae) (bvneg As) (bvneg gx))))''')]

WIDEN = '''
(define-fun wmax () BV {wmax})
(define-fun c8 () BV ((_ extract {wm1} 0) (_ bv8 {wp4}))) (define-fun c7 () BV ((_ extract {wm1} 0) (_ bv7 {wp4})))
; j = a | b
(declare-const Jb Bool) (declare-const Jt Bool) (declare-const Js BV) (declare-const Je BV)
(assert (and (= Jb (join_b $A $B)) (= Jt (join_t $A $B)) (= Js (join_s $A $B)) (= Je (join_e $A $B))))
(define-fun new_end () BV (bvadd (bvsub (bvmul Ae c8) (bvmul As c7)) c7))
(define-fun new_start () BV (bvsub (bvsub (bvmul As c8) (bvmul Ae c7)) c7))
(define-fun delta () BV (bvadd (bvsub (bvmul Ae c8) (bvmul As c8)) c7))
; sp_widen: which result  0: b  1: a  2: top()  3: j | [As, new_end]  4: j | [new_start, Ae]  5: j | [Bs, Bs + delta]
(define-fun wsel () (_ BitVec 3)
  (ite Ab #b000 (ite Bb #b001 (ite (or (istop $A) (istop $B)) #b010 (ite (leq $B $A) #b001
  (ite (bvuge (bvsub Ae As) wmax) #b010
  (ite (eqv Jb Jt Js Je false false As Be) #b011
  (ite (eqv Jb Jt Js Je false false Bs Ae) #b100
  (ite (and (has $B As) (has $B Ae)) #b101 #b010)))))))))
(declare-const Rb Bool) (assert (= Rb (ite (= wsel #b000) Bb (ite (= wsel #b001) Ab (ite (= wsel #b010) false
  (ite (= wsel #b011) (join_b Jb Jt Js Je false false As new_end) (ite (= wsel #b100) (join_b Jb Jt Js Je false false new_start Ae) (join_b Jb Jt Js Je false false Bs (bvadd Bs delta)))))))))
(declare-const Rt Bool) (assert (= Rt (ite (= wsel #b000) Bt (ite (= wsel #b001) At (ite (= wsel #b010) true
  (ite (= wsel #b011) (join_t Jb Jt Js Je false false As new_end) (ite (= wsel #b100) (join_t Jb Jt Js Je false false new_start Ae) (join_t Jb Jt Js Je false false Bs (bvadd Bs delta)))))))))
(declare-const Rs BV) (assert (= Rs (ite (= wsel #b000) Bs (ite (= wsel #b001) As (ite (= wsel #b010) zero
  (ite (= wsel #b011) (join_s Jb Jt Js Je false false As new_end) (ite (= wsel #b100) (join_s Jb Jt Js Je false false new_start Ae) (join_s Jb Jt Js Je false false Bs (bvadd Bs delta)))))))))
(declare-const Re BV) (assert (= Re (ite (= wsel #b000) Be (ite (= wsel #b001) Ae (ite (= wsel #b010) zero
  (ite (= wsel #b011) (join_e Jb Jt Js Je false false As new_end) (ite (= wsel #b100) (join_e Jb Jt Js Je false false new_start Ae) (join_e Jb Jt Js Je false false Bs (bvadd Bs delta)))))))))
'''
# widen: one query per result case of sp_widen (the conjunction over the cases is the claim)
J = 'Jb Jt Js Je'
def JL(X, Y, v): return '(assert (and (=> (has %s %s) (join_has %s %s %s)) (=> (has %s %s) (join_has %s %s %s))))' % (X, v, X, Y, v, Y, v, X, Y, v)
def JS(X, Y, R): return '(assert (and (subset %s %s) (subset %s %s)))' % (X, R, Y, R)   # R names the components of X|Y
EXT = {'011': 'false false As new_end', '100': 'false false new_start Ae', '101': 'false false Bs (bvadd Bs delta)'}
WCASES = ('000', '001', '010', '011', '100', '101')
GROW = '''
(define-fun cardR () (_ BitVec {wp4}) (bvadd ((_ zero_extend 4) (bvsub Re Rs)) (_ bv1 {wp4})))
(define-fun cardA () (_ BitVec {wp4}) (bvadd ((_ zero_extend 4) (bvsub Ae As)) (_ bv1 {wp4})))
(assert (not (or (istop Rb Rt Rs Re) Ab (and (leq $B $A) (= wsel #b001))
                 (and (not Rb) (bvuge cardR (bvmul (_ bv2 {wp4}) cardA))))))'''
L['widen'] = []
L['widen_grow'] = []
for c in WCASES:
    hyp_has = '' if True else '; instances of the join lemma at (a, b) and at (j, extension)\n' + '\n'.join(JL('$A', '$B', v) + '\n' + JL(J, EXT[c], v) for v in ('gx', 'gy'))
    hyp_sub = '' if True else '; instance of the join inclusion lemma at (j, extension): the result IS j | extension in this case\n' + JS(J, EXT[c], 'Rb Rt Rs Re')
    for side in ('A', 'B'):
        g = 'gx' if side == 'A' else 'gy'
        L['widen'].append(('case %s of sp_widen: v in %s  ==>  v in a||b' % (c, 'a' if side == 'A' else 'b'), OPA + OPB + WIDEN + '''
(assert (= wsel #b%s))
%s
(assert (has $%s %s))
(assert (not (has Rb Rt Rs Re %s)))''' % (c, hyp_has, side, g, g)))
    L['widen_grow'].append(('case %s of sp_widen: a||b is top, or a is bottom, or (b <= a and a||b = a), or |a||b| >= 2|a|' % c, OPA + OPB + WIDEN + '''
(assert (= wsel #b%s))
%s''' % (c, hyp_sub) + GROW))
L['narrow'] = [('b <= a and v in b  ==>  v in a&&b', OPA + OPB + '''
(assert (leq $B $A)) (assert (has $B gy))
(assert (not (meet_has $A $B gy)))''')]

KLT = '(declare-const k BV) (assert (bvult ((_ zero_extend 8) k) (_ bv{w} {wp8})))'
L['lshr'] = [('x in a, k < w  ==>  x >>u k in LShr(a, k)', OPA + KLT + '''
(define-fun Rt () Bool (or (istop $A) (cross_u $A)))
(assert (has $A gx))
(assert (not (has Ab Rt (bvlshr As k) (bvlshr Ae k) (bvlshr gx k))))''')]
L['ashr'] = [('x in a, k < w  ==>  x >>s k in AShr(a, k)', OPA + KLT + '''
(define-fun Rt () Bool (or (istop $A) (cross_s $A)))
(assert (has $A gx))
(assert (not (has Ab Rt (bvashr As k) (bvashr Ae k) (bvashr gx k))))''')]
# sp_shl(k), 0 < k < w: y = sp_trunc(w - k); top if y is top else [s << k, e << k].  sp_trunc(n) (n = w - k bits kept) on [s,e]:
#   hs = s >>s n, he = e >>s n, ls = s & (2^n - 1), le = e & (2^n - 1);
#   hs = he: (ls <= le ? [ls,le]_n : top) ; hs + 1 = he: (ls > le ? [ls,le]_n : top) ; else top.   [ls,le]_n is top iff (le - ls) mod 2^n = 2^n - 1
L['shl'] = [('x in a, 0 < k < w  ==>  x << k in Shl(a, k)', OPA + KLT + '''
(assert (not (= k zero)))
(define-fun n () BV (bvsub ((_ extract {wm1} 0) (_ bv{w} {wp8})) k))
(define-fun mn () BV (bvlshr ones k))
(define-fun hs () BV (bvashr As n)) (define-fun he () BV (bvashr Ae n))
(define-fun ls () BV (bvand As mn)) (define-fun le () BV (bvand Ae mn))
(define-fun ytop_of_pair () Bool (= (bvand (bvsub le ls) mn) mn))
(define-fun ytop () Bool (ite (= hs he) (ite (bvule ls le) ytop_of_pair true) (ite (= (bvadd hs one) he) (ite (not (bvule ls le)) ytop_of_pair true) true)))
(define-fun Rt () Bool (or (istop $A) ytop))
(assert (has $A gx))
(assert (not (has Ab Rt (bvshl As k) (bvshl Ae k) (bvshl gx k))))''')]
L['lower'] = [('x in a, y <=s x  ==>  y in lower_half_line(a, signed)', OPA + '''
(declare-const y BV) (assert (bvsle y gx))
(define-fun Rt () Bool (or (istop $A) (has $A smax)))
(assert (has $A gx))
(assert (not (has Ab Rt smin Ae y)))'''),
              ('x in a, y <=u x  ==>  y in lower_half_line(a, unsigned)', OPA + '''
(declare-const y BV) (assert (bvule y gx))
(define-fun Rt () Bool (or (istop $A) (has $A ones)))
(assert (has $A gx))
(assert (not (has Ab Rt zero Ae y)))''')]
L['upper'] = [('x in a, y >=s x  ==>  y in upper_half_line(a, signed)', OPA + '''
(declare-const y BV) (assert (bvsge y gx))
(define-fun Rt () Bool (or (istop $A) (has $A smin)))
(assert (has $A gx))
(assert (not (has Ab Rt As smax y)))'''),
              ('x in a, y >=u x  ==>  y in upper_half_line(a, unsigned)', OPA + '''
(declare-const y BV) (assert (bvuge y gx))
(define-fun Rt () Bool (or (istop $A) (has $A zero)))
(assert (has $A gx))
(assert (not (has Ab Rt As ones y)))''')]
L['trim'] = [('x in a and not (b = {x})  ==>  x in trim(a, b);   x in trim(a, b)  ==>  x in a', OPA + OPB + '''
; sp_trim: which result  0: a   1: bottom()   2: [Bs + 1, Ae]   3: [As, Bs - 1]
(define-fun tsel () (_ BitVec 2) (ite (or Ab (istop $A) (not (single $B))) #b00
  (ite (= As Bs) (ite (single $A) #b01 #b10) (ite (= Ae Bs) (ite (single $A) #b01 #b11) #b00))))
(define-fun rhas ((v BV)) Bool (ite (= tsel #b00) (has $A v) (ite (= tsel #b01) false (ite (= tsel #b10) (has false false (bvadd Bs one) Ae v) (has false false As (bvsub Bs one) v)))))
(declare-const v BV)
(assert (not (and (=> (and (has $A v) (not (and (single $B) (= v Bs)))) (rhas v)) (=> (rhas v) (has $A v)))))''')]

# sp_trunc: two widths (w source, k kept bits, 1 <= k < w).  The result lives at width k.
TRUNC_PAIRS = [(2, 1), (3, 1), (3, 2), (4, 1), (4, 2), (4, 3), (8, 1), (8, 4), (8, 7), (16, 8), (32, 1), (32, 8), (32, 16), (32, 31), (64, 1), (64, 8), (64, 16), (64, 32), (64, 63)]
TRUNC = '''(define-sort BK () (_ BitVec {k}))
(define-fun onesk () BK (bvnot (_ bv0 {k})))
(define-fun lo ((v BV)) BK ((_ extract {km1} 0) v))
(define-fun kk () BV (_ bv{k} {w}))
(define-fun hs () BV (bvashr As kk)) (define-fun he () BV (bvashr Ae kk))
(define-fun ls () BK (lo As)) (define-fun le () BK (lo Ae))
; the result is [ls, le] at width k, or top
(define-fun r_pair () Bool (ite (= hs he) (bvule ls le) (ite (= (bvadd hs one) he) (not (bvule ls le)) false)))
(define-fun r_top () Bool (and (not Ab) (or (istop $A) (not r_pair) (= (bvsub le ls) onesk))))
(assert (has $A gx))
(assert (not (and (not Ab) (or r_top (bvule (bvsub (lo gx) ls) (bvsub le ls))))))'''


L['widen_w8'] = L['widen']      # same claims, separate file: the solvers' budget is per file


def fmt(txt, w):
    txt = txt.replace('$A', A).replace('$B', B)
    wmax = '(bvshl one (_ bv%d %d))' % ((w - 3) if w > 3 else (w - 1), w)
    return (txt.replace('{wm1}', str(w - 1)).replace('{wp4}', str(w + 4)).replace('{wp8}', str(w + 8))
               .replace('{wmax}', wmax).replace('{w}', str(w)))


def main():
    only = sys.argv[1:]
    for name, claims in L.items():
        if only and name not in only:
            continue
        out = ['; GENERATED by units/wrapped_interval/gen_lemmas.py -- do not edit; see the generator for the correspondence with spec.h.',
               '; Lemma file for sp_%s.  Widths: %s.  Every (check-sat) must answer unsat.' % (name, ','.join(map(str, WIDTHS)))]
        ws = WIDTHS_OF.get(name, WIDTHS)
        out[1] = '; Lemma file for sp_%s.  Widths: %s.  Every (check-sat) must answer unsat.' % (name.replace('_w8', '').replace('_grow', ' (growth)'), ','.join(map(str, ws)))
        for w in ws:
            for title, body in claims:
                out.append('(reset) (set-logic QF_BV) ; ---- width %d: %s' % (w, title))
                out.append(fmt(PRELUDE, w))
                out.append(fmt(body.strip(), w))
                out.append('(check-sat)')
        open(os.path.join(OUT, 'wi_%s.smt2' % name), 'w').write('\n'.join(out) + '\n')
    if not only or 'trunc' in only:
        out = ['; GENERATED by units/wrapped_interval/gen_lemmas.py -- do not edit.',
               '; Lemma file for sp_trunc: x in a  ==>  (x mod 2^k) in Trunc(a, k).  (width, kept bits): %s' % TRUNC_PAIRS]
        for w, k in TRUNC_PAIRS:
            out.append('(reset) (set-logic QF_BV) ; ---- width %d -> %d' % (w, k))
            out.append(fmt(PRELUDE, w))
            out.append(fmt(OPA, w))
            out.append(fmt(TRUNC.replace('{km1}', str(k - 1)).replace('{k}', str(k)), w))
            out.append('(check-sat)')
        open(os.path.join(OUT, 'wi_trunc.smt2'), 'w').write('\n'.join(out) + '\n')


if __name__ == '__main__':
    main()
