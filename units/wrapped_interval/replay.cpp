// Native replay for unit wrapped_interval: the real crab::domains::wrapped_interval<z_number> of the working tree.
// Real objects are built raw from the witness fields, the real method is called, and the contract's postcondition
// (soundness WITHOUT the lemma hypothesis, well-formedness) is evaluated on the real result with the vocabulary of spec.h.
#include <crab/domains/wrapped_interval.hpp>
#include <crab/domains/wrapped_interval_impl.hpp>
#include <crab/domains/linear_interval_solver.hpp>
#include "replay.h"
#include "spec.h"
using crab::wrapint;
using ikos::z_number;
typedef crab::domains::wrapped_interval<z_number> RWI;
static uint64_t g_w, g_x, g_y;
#define GWV g_w
#define M (msk(g_w))
static wrapint mkwr(const Wit &w, const std::string &p) { return wrapint(w.u(p + ".f0"), w.u(p + ".f1"), w.u(p + ".f2")); }   // raw
static RWI mki(const Wit &w, const char *n) { std::string p(n); return RWI(mkwr(w, p + ".f0"), mkwr(w, p + ".f1"), w.u(p + ".f2") != 0); }  // private raw constructor
static WI L(const RWI &x) { WI r; memcpy(&r, &x, sizeof(WI)); return r; }     // WI is the compiler's own lowering of the class
static void show(const char *what, const RWI &x) {
  WI i = L(x); printf("  %s = {start=%llu, end=%llu, width=%llu, bottom=%d}%s\n", what, (unsigned long long)WS(i), (unsigned long long)WE(i), (unsigned long long)WW(i), (int)i.f2,
                      wi_bot(i) ? " (bottom)" : wi_top(i) ? " (top)" : ""); }
static void ghosts(const Wit &w) { g_w = w.u("g_w"); g_x = w.has("g_x") ? w.u("g_x") : 0; g_y = w.has("g_y") ? w.u("g_y") : 0;
  printf("  width=%llu g_x=%llu g_y=%llu\n", (unsigned long long)g_w, (unsigned long long)g_x, (unsigned long long)g_y); }
static bool IMPL(bool h, bool c) { return !h || c; }
static i128 zval(const z_number &z) { z_number a = z < z_number(0) ? -z : z; i128 r = 0, m = 1; z_number base(1); base = base << z_number(32);
  while (a > z_number(0)) { r += m * (i128)(int64_t)(a % base); a = a / base; m <<= 32; } return z < z_number(0) ? -r : r; }
static z_number mkz(i128 v) { bool neg = v < 0; u128 u = neg ? (u128)(-v) : (u128)v; z_number hi = z_number::from_uint64((uint64_t)(u >> 64)), lo = z_number::from_uint64((uint64_t)u);
  z_number r = (hi << z_number(64)) + lo; return neg ? -r : r; }
static i128 wz(const Wit &w, const std::string &p) { return (i128)(((u128)w.u(p + ".f0.a.f1") << 64) | (u128)w.u(p + ".f0.a.f0")); }
#define Z63(v) ((v) >= -((i128)1 << 63) && (v) < ((i128)1 << 63))
static uint64_t sdivv(uint64_t x, uint64_t y, uint64_t w) { i128 a = sxv(x, w), b = sxv(y, w); return wrapz(b == 0 ? 0 : a / b, w); }

// binary operations: x in self, y in o  ==>  op(x, y) in result
#define RBIN(id, EXPR, DEF, V) REPLAY(id) { ghosts(wit); RWI a = mki(wit, "a"), b = mki(wit, "b"); show("self", a); show("x", b); RWI r = EXPR; show("result", r); \
  WI s = L(a), o = L(b), t = L(r); (void)o; bool ok = wi_okw(t, g_w) && IMPL(wi_has(s, g_x) && wi_has(o, g_y) && (DEF), wi_has(t, (V))); \
  printf("  concrete result %llu is %san element of the abstract result\n", (unsigned long long)(V), wi_has(t, (V)) ? "" : "NOT "); return ok; }
#define RBINW(id, EXPR, DEF, V) RBIN(id, EXPR, DEF, V) RBIN(id##_sym, EXPR, DEF, V)
RBINW(add, a + b, true, (g_x + g_y) & M)
RBINW(sub, a - b, true, (g_x - g_y) & M)
RBIN(mul, a * b, true, (g_x * g_y) & M)
RBIN(unsigned_mul, a.unsigned_mul(b), true, (g_x * g_y) & M)
RBIN(signed_mul, a.signed_mul(b), true, (g_x * g_y) & M)
RBIN(udiv, a.UDiv(b), g_y != 0, g_x / (g_y == 0 ? 1 : g_y))
RBIN(sdiv, a.SDiv(b), g_y != 0, sdivv(g_x, g_y, g_w))
RBIN(unsigned_div, a.unsigned_div(b), g_y != 0, g_x / (g_y == 0 ? 1 : g_y))
RBIN(signed_div, a.signed_div(b), g_y != 0, sdivv(g_x, g_y, g_w))
RBIN(shl, a.Shl(b), g_y < g_w, (g_x << (g_y & 63)) & M)
RBIN(lshr, a.LShr(b), g_y < g_w, g_x >> (g_y & 63))
RBIN(ashr, a.AShr(b), g_y < g_w, ashrv(g_x, g_y, g_w))
RBIN(and, a.And(b), true, g_x & g_y) RBIN(or, a.Or(b), true, g_x | g_y) RBIN(xor, a.Xor(b), true, g_x ^ g_y)
// lattice: v in a or v in b ==> v in a|b (a||b);  v in both ==> v in a&b;  narrowing of a decreasing pair keeps the second argument
#define RLAT(id, EXPR, HYP) REPLAY(id) { ghosts(wit); RWI a = mki(wit, "a"), b = mki(wit, "b"); show("self", a); show("x", b); RWI r = EXPR; show("result", r); \
  WI s = L(a), o = L(b), t = L(r); bool ok = wi_okw(t, g_w) && IMPL(HYP, wi_has(t, g_x)); printf("  %llu is %san element of the result\n", (unsigned long long)g_x, wi_has(t, g_x) ? "" : "NOT "); return ok; }
#define RLATW(id, EXPR, HYP) RLAT(id, EXPR, HYP) RLAT(id##_sym, EXPR, HYP)
RLATW(join, a | b, wi_has(s, g_x) || wi_has(o, g_x))
RLATW(meet, a & b, wi_has(s, g_x) && wi_has(o, g_x))
RLATW(narrow, a && b, sp_leq(o, s) && wi_has(o, g_x))
RLATW(widen, a || b, wi_has(s, g_x) || wi_has(o, g_x))
RLAT(widen_w, a || b, wi_has(s, g_x) || wi_has(o, g_x))
#define RLEQ(id) REPLAY(id) { ghosts(wit); RWI a = mki(wit, "a"), b = mki(wit, "b"); show("self", a); show("x", b); bool r = a <= b; printf("  result = %d\n", r); \
  WI s = L(a), o = L(b); return r == sp_leq(s, o) && IMPL(wi_bot(s) || wi_top(o), r) && IMPL(r && wi_has(s, g_x), wi_has(o, g_x)); }
RLEQ(leq) RLEQ(leq_sym)
REPLAY(leq_refl) { ghosts(wit); RWI a = mki(wit, "a"); show("self", a); return a <= a; }
REPLAY(eq) { ghosts(wit); RWI a = mki(wit, "a"), b = mki(wit, "b"); show("self", a); show("x", b); bool r = a == b; printf("  result = %d\n", r); return r == sp_eq(L(a), L(b)) && IMPL(wi_same(L(a), L(b)), r); }
// unary
#define RUN(id, EXPR, HYP, V, W2) REPLAY(id) { ghosts(wit); RWI a = mki(wit, "a"); show("self", a); RWI r = EXPR; show("result", r); WI s = L(a), t = L(r); \
  return wi_okw(t, (W2)) && IMPL(wi_has(s, g_x) && (HYP), wi_has(t, (V))); }
RUN(neg, -a, true, (0 - g_x) & M, g_w) RUN(neg_sym, -a, true, (0 - g_x) & M, g_w)
RUN(trunc, a.Trunc((unsigned)wit.u("k")), true, g_x & msk(wit.u("k")), wit.u("k")) RUN(trunc_w, a.Trunc((unsigned)wit.u("k")), true, g_x & msk(wit.u("k")), wit.u("k"))
RUN(zext, a.ZExt((unsigned)wit.u("bits")), true, g_x, g_w + wit.u("bits"))
RUN(sext, a.SExt((unsigned)wit.u("bits")), true, wrapz(sxv(g_x, g_w), g_w + wit.u("bits")), g_w + wit.u("bits"))
RUN(shl_k, a.Shl((uint64_t)wit.u("k")), true, (g_x << (wit.u("k") & 63)) & M, g_w) RUN(shl_k_w, a.Shl((uint64_t)wit.u("k")), true, (g_x << (wit.u("k") & 63)) & M, g_w)
RUN(lshr_k, a.LShr((uint64_t)wit.u("k")), true, g_x >> (wit.u("k") & 63), g_w) RUN(lshr_k_w, a.LShr((uint64_t)wit.u("k")), true, g_x >> (wit.u("k") & 63), g_w)
RUN(ashr_k, a.AShr((uint64_t)wit.u("k")), true, ashrv(g_x, wit.u("k"), g_w), g_w) RUN(ashr_k_w, a.AShr((uint64_t)wit.u("k")), true, ashrv(g_x, wit.u("k"), g_w), g_w)
#define BELOW(sg) ((sg) ? sle(g_y, g_x, g_w) : g_y <= g_x)
#define ABOVE(sg) ((sg) ? sle(g_x, g_y, g_w) : g_x <= g_y)
RUN(lower_half, a.lower_half_line(wit.u("sg") != 0), BELOW(wit.u("sg")), g_y, g_w) RUN(lower_half_sym, a.lower_half_line(wit.u("sg") != 0), BELOW(wit.u("sg")), g_y, g_w)
RUN(upper_half, a.upper_half_line(wit.u("sg") != 0), ABOVE(wit.u("sg")), g_y, g_w) RUN(upper_half_sym, a.upper_half_line(wit.u("sg") != 0), ABOVE(wit.u("sg")), g_y, g_w)
#define RTRIM(id) REPLAY(id) { ghosts(wit); RWI a = mki(wit, "a"), b = mki(wit, "b"); show("i", a); show("j", b); RWI r = ikos::linear_interval_solver_impl::trim_interval<RWI>(a, b); show("result", r); \
  WI s = L(a), o = L(b), t = L(r); return wi_okw(t, g_w) && IMPL(wi_has(s, g_x) && !(sp_single(o) && g_x == WS(o)), wi_has(t, g_x)) && IMPL(wi_has(t, g_x), wi_has(s, g_x)); }
RTRIM(trim) RTRIM(trim_sym)
// membership test = concretisation
#define RAT(id) REPLAY(id) { ghosts(wit); RWI a = mki(wit, "a"); wrapint v = mkwr(wit, "v"); show("self", a); bool r = a.at(v); printf("  at(%llu) = %d\n", (unsigned long long)wit.u("v.f0"), r); return r == wi_has(L(a), wit.u("v.f0")); }
RAT(at) RAT(at_sym)
REPLAY(is_top) { ghosts(wit); RWI a = mki(wit, "a"); show("self", a); return a.is_top() == wi_top(L(a)); }
REPLAY(is_bottom) { ghosts(wit); RWI a = mki(wit, "a"); show("self", a); return a.is_bottom() == wi_bot(L(a)); }
// mk_winterval(lb, ub, width): every integer of [lb, ub] modulo 2^width is an element
REPLAY(mk_winterval2) { ghosts(wit); i128 lb = wz(wit, "lb"), ub = wz(wit, "ub"), g = (i128)(((u128)wit.u("g_z") ) ); uint64_t width = wit.u("width");
  if (!Z63(lb) || !Z63(ub)) { printf("  bounds beyond int64: not rebuilt\n"); return true; }
  g = (i128)(int64_t)wit.u("g_z");
  printf("  lb=%lld ub=%lld width=%llu g_z=%lld\n", (long long)lb, (long long)ub, (unsigned long long)width, (long long)g);
  RWI r = RWI::mk_winterval(mkz(lb), mkz(ub), width); show("result", r); WI t = L(r);
  return wi_okw(t, width) && IMPL(lb <= g && g <= ub, wi_has(t, wrapz(g, width))); }
REPLAY(mk_winterval1) { ghosts(wit); i128 n = wz(wit, "n"); uint64_t width = wit.u("width"); if (!Z63(n)) return true; RWI r = RWI::mk_winterval(mkz(n), width); show("result", r); return wi_has(L(r), wrapz(n, width)); }
// regression witnesses with concrete operands (the harness builds the same values)
REPLAY(widen_limit) { ghosts(wit); uint64_t lim = g_w > 3 ? (uint64_t)1 << (g_w - 3) : (uint64_t)1 << (g_w - 1); RWI a(wrapint(0, g_w), wrapint(lim, g_w)), b(wrapint(0, g_w), wrapint(lim + 1, g_w));
  show("self", a); show("x", b); RWI r = a || b; show("result", r); return wi_top(L(r)); }
REPLAY(widen_cover) { RWI a(wrapint(186, 8), wrapint(200, 8)), b(wrapint(197, 8), wrapint(187, 8)); show("self", a); show("x", b); RWI r = a || b; show("result", r); return wi_top(L(r)) && wi_has(L(r), 193); }
REPLAY(zext_top) { RWI a = RWI::top(); show("self", a); RWI r = a.ZExt(3); show("result", r); return wi_top(L(r)); }
REPLAY(sext_top) { RWI a = RWI::top(); show("self", a); RWI r = a.SExt(3); show("result", r); return wi_top(L(r)); }
REPLAY(widen_grow) { ghosts(wit); RWI a = mki(wit, "a"), b = mki(wit, "b"); show("self", a); show("x", b); RWI r = a || b; show("result", r); WI s = L(a), o = L(b), t = L(r);
  return wi_top(t) || wi_bot(s) || (sp_leq(o, s) && wi_same(t, s)) || (!wi_bot(t) && wi_card(t, g_w) >= 2 * wi_card(s, g_w)); }
REPLAY(exact_meet) { ghosts(wit); RWI a = mki(wit, "a"), b = mki(wit, "b"); show("self", a); show("x", b); std::vector<RWI> out; a.exact_meet(b, out); bool in = false;
  for (auto &p : out) { show("piece", p); in = in || wi_has(L(p), g_x); } return in == (wi_has(L(a), g_x) && wi_has(L(b), g_x)); }
int main(int argc, char **argv) { return replay_main(argc, argv); }
