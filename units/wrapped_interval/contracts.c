/* Contracts for crab::domains::wrapped_interval<ikos::z_number> (lib/wrapped_interval.cpp) — properties
 * C13 (sound over-approximation of fixed-width arithmetic), C04 (order / lattice), C05 (widening / narrowing). */
#include "spec.h"
#include "zmodel.h"
uint64_t g_w;                        /* ghost: the bit width of the operation (fixed to WID when the check varies WID) */
uint64_t g_x, g_y;                   /* ghost concrete g_w-bit values: arbitrary, never assigned by the code */
#ifdef WIW                            /* vary=WIW:...: one run per width; the wrapint contracts stay width-generic */
#define FIXWI(w) ((w) == WIW)
#else
#define FIXWI(w) 1
#endif
#define GW (g_w >= 1 && g_w <= 64 && FIXWI(g_w))
#define GPTS (g_x <= msk(g_w) && g_y <= msk(g_w))
#define HG GHOSTG(uint64_t, g_w); GHOSTG(uint64_t, g_x); GHOSTG(uint64_t, g_y)
#define M (msk(g_w))

#define R_CMP _ZNK4crab7wrapinteqES0_,_ZNK4crab7wrapintleES0_,_ZNK4crab7wrapintltES0_,_ZNK4crab7wrapintgeES0_
#define WI_is_bottom _ZNK4crab7domains16wrapped_intervalIN4ikos8z_numberEE9is_bottomEv
#define WI_is_top _ZNK4crab7domains16wrapped_intervalIN4ikos8z_numberEE6is_topEv
#define WI_at _ZNK4crab7domains16wrapped_intervalIN4ikos8z_numberEE2atENS_7wrapintE
#define WI_leq _ZNK4crab7domains16wrapped_intervalIN4ikos8z_numberEEleERKS4_
#define WI_add _ZNK4crab7domains16wrapped_intervalIN4ikos8z_numberEEplERKS4_

//@check id=is_bottom fn=_ZNK4crab7domains16wrapped_intervalIN4ikos8z_numberEE9is_bottomEv props=C13,C04
unsigned char WI_is_bottom(WI *self)
__CPROVER_requires(FRESH(is_bottom, self, sizeof(WI)) && GW && GPTS && wi_okw(*self, g_w))
__CPROVER_assigns()
__CPROVER_ensures((__CPROVER_return_value != 0) == wi_bot(*self))
__CPROVER_ensures(__CPROVER_return_value ? !wi_has(*self, g_x) : wi_has(*self, WS(*self) & M));
void h_is_bottom(void){ IN(WI, a); HG; WI_is_bottom(&a); REACH; }

//@check id=is_top fn=_ZNK4crab7domains16wrapped_intervalIN4ikos8z_numberEE6is_topEv props=C13,C04
unsigned char WI_is_top(WI *self)
__CPROVER_requires(FRESH(is_top, self, sizeof(WI)) && GW && GPTS && wi_okw(*self, g_w))
__CPROVER_assigns()
__CPROVER_ensures((__CPROVER_return_value != 0) == wi_top(*self))
__CPROVER_ensures(__CPROVER_return_value ==> wi_has(*self, g_x));
void h_is_top(void){ IN(WI, a); HG; WI_is_top(&a); REACH; }

#define R_TOP _ZN4crab7wrapint16get_unsigned_maxEm,_ZNK4crab7wrapint12get_bitwidthEv,_ZNK4crab7wrapintmiES0_,_ZNK4crab7wrapinteqES0_
//@check id=at fn=_ZNK4crab7domains16wrapped_intervalIN4ikos8z_numberEE2atENS_7wrapintE props=C13,C04 vary=WIW:1,8,64
unsigned char WI_at(WI *self, W *x)
__CPROVER_requires(FRESH(at, self, sizeof(WI)) && FRESH(at, x, sizeof(W)) && GW && wi_okw(*self, g_w) && w_ok(*x) && WD(x) == g_w)
__CPROVER_assigns()
__CPROVER_ensures((__CPROVER_return_value != 0) == wi_has(*self, N(x)));
void h_at(void){ IN(WI, a); IN(W, v); HG; WI_at(&a, &v); REACH; }

//@check id=add fn=_ZNK4crab7domains16wrapped_intervalIN4ikos8z_numberEEplERKS4_ props=C13 vary=WIW:3,8
void WI_add(WI *ret, WI *self, WI *x)
__CPROVER_requires(FRESH(add, ret, sizeof(WI)) && FRESH(add, self, sizeof(WI)) && FRESH(add, x, sizeof(WI)) && GW && GPTS && wi_okw(*self, g_w) && wi_okw(*x, g_w))
__CPROVER_assigns(*ret)
__CPROVER_ensures(wi_okw(*ret, g_w))
__CPROVER_ensures((wi_has(*self, g_x) && wi_has(*x, g_y)) ==> wi_has(*ret, (g_x + g_y) & M));
void h_add(void){ IN(WI, a); IN(WI, b); HG; WI r; WI_add(&r, &a, &b); REACH; }
