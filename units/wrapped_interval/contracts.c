/* Contracts for crab::domains::wrapped_interval<ikos::z_number> (lib/wrapped_interval.cpp, wrapped_interval_impl.hpp) —
 * properties C13 (sound over-approximation of fixed-width arithmetic under wrap-around), C04 (order / lattice operations
 * agree with the concretisation), C05 (widening is an upper bound and grows geometrically; narrowing keeps its second
 * argument).  Vocabulary: spec.h.  The crab::wrapint operations that the class calls are their CONTRACTS of unit wrapint
 * (models/wrapint_contracts_model.c); z_number is models/zmodel.c.
 *
 * WIDTH.  `vary=WIW:...` fixes the width of the operation (one run per value, every operand of that width is covered);
 * a check without WIW runs with the width SYMBOLIC: one query for all widths 1..64.
 *
 * LEMMA-CONDITIONED SOUNDNESS.  SAT solvers have no algebra: re-association of modular sums is exponential for them
 * (measured: the bare arithmetic of operator+ soundness, 2704 variables, takes 73 s at w=8 and does not finish at w=16).
 * The arithmetic fact is therefore split off: spec.h NAMES the result of an operation by a spec function sp_<op> (the
 * paper's algorithm); "sp_<op> is sound" is the lemma schema of lemmas/wi_<op>.smt2 (z3 and cvc5 over native w-bit
 * vectors, for every width listed there); the contract carries the INSTANCE of that lemma at its own operands and ghost
 * points as a hypothesis, so what CBMC proves of the real code is "the real result has the concrete result as an element
 * whenever sp_<op>(operands) has", which needs no algebra.  Every such postcondition has a SATGUARD twin.
 * At widths <= 4 (NOLEM) the hypothesis is dropped: soundness is proved there DIRECTLY on the real code, which also
 * cross-checks the transcription of the spec functions into the lemma files.
 *
 * NOT RUN (`//@off-check`: the contract is kept as the statement of what should hold, the driver ignores the line):
 *   mul, udiv, sdiv (operator*, UDiv, SDiv as a whole), su_split, zext, sext: no back end decides them even at width 2
 *   (35 min each; ZExt alone is 290 830 symex steps / 20M variables).  Their parts ARE under contract: signed_mul,
 *   unsigned_mul, signed_div, unsigned_div, exact_meet, signed_split, unsigned_split, trim_zero, operator|; that the
 *   loops of operator* / SDiv / UDiv combine the parts soundly (every element lies in some piece, the result joins
 *   every piece product) is NOT machine-checked.  join_sym, meet_sym, trim_sym (symbolic width): no answer in 20 min. */
#include "spec.h"
#include "zmodel.h"
typedef struct S_class_std__vector VEC;          /* std::vector<wrapped_interval<z_number>> */
uint64_t g_w;                        /* ghost: the bit width of the operation */
uint64_t g_x, g_y;                   /* ghost concrete g_w-bit values: arbitrary, never assigned by the code */
#ifdef TRP                           /* Trunc lemma pairs: TRP = 100 * width + kept bits */
#define WIW (TRP / 100)
#define TRK (TRP % 100)
#endif
#ifdef WIW
#define GWV ((uint64_t)WIW)          /* literal width: masks fold to constants */
#define FIXWI(w) ((w) == WIW)
#else
#define GWV g_w
#define FIXWI(w) 1
#endif
#if defined(WIW) && WIW <= 4
#define NOLEM 1
#define LEMMA(e) 1
#else
#define LEMMA(e) (e)
#endif
#define M (msk(GWV))
#define GW (g_w >= 1 && g_w <= 64 && FIXWI(g_w))
#define GPTS (g_x <= M && g_y <= M)
#define HG GHOSTG(uint64_t, g_w); GHOSTG(uint64_t, g_x); GHOSTG(uint64_t, g_y)
#define OKW(i) wi_okw(i, GWV)
/* logging is off (crab::CrabLogFlag is false unless a client calls CrabEnableLog): the bodies of CRAB_LOG(...) are not verified */
extern unsigned char _ZN4crab11CrabLogFlagE;
#define LOGOFF (_ZN4crab11CrabLogFlagE == 0)
#define WIFN(suffix) _ZNK4crab7domains16wrapped_intervalIN4ikos8z_numberEE##suffix
#define WISFN(suffix) _ZN4crab7domains16wrapped_intervalIN4ikos8z_numberEE##suffix

/* ================================================================ constructors, constants */
//@check id=ctor_default fn=_ZN4crab7domains16wrapped_intervalIN4ikos8z_numberEEC2Ev props=C13,C04
void WISFN(C2Ev)(WI *self)
__CPROVER_requires(FRESH(ctor_default, self, sizeof(WI)) && GW && GPTS)
__CPROVER_assigns(*self)
__CPROVER_ensures(OKW(*self) && wi_deftop(*self) && wi_top(*self) && wi_has(*self, g_x));
void h_ctor_default(void){ WI r; HG; WISFN(C2Ev)(&r); REACH; }

/* wrapped_interval(wrapint n): the singleton {n} */
//@check id=ctor_w fn=_ZN4crab7domains16wrapped_intervalIN4ikos8z_numberEEC2ENS_7wrapintE props=C13
void WISFN(C2ENS_7wrapintE)(WI *self, W *n)
__CPROVER_requires(FRESH(ctor_w, self, sizeof(WI)) && FRESH(ctor_w, n, sizeof(W)) && GW && GPTS && w_ok(*n) && WD(n) == GWV)
__CPROVER_assigns(*self)
__CPROVER_ensures(wi_is(*self, GWV, N(n), N(n)))
__CPROVER_ensures(wi_has(*self, g_x) == (g_x == N(n)));
void h_ctor_w(void){ WI r; IN(W, n); HG; WISFN(C2ENS_7wrapintE)(&r, &n); REACH; }

/* wrapped_interval(wrapint start, wrapint end): equal widths (otherwise CRAB_ERROR) */
//@check id=ctor_se fn=_ZN4crab7domains16wrapped_intervalIN4ikos8z_numberEEC2ENS_7wrapintES5_ props=C13
void WISFN(C2ENS_7wrapintES5_)(WI *self, W *s, W *e)
__CPROVER_requires(FRESH(ctor_se, self, sizeof(WI)) && FRESH(ctor_se, s, sizeof(W)) && FRESH(ctor_se, e, sizeof(W)) && GW && w_ok(*s) && w_ok(*e) && WD(s) == GWV && WD(e) == GWV)
__CPROVER_assigns(*self)
__CPROVER_ensures(OKW(*self) && wi_is(*self, GWV, N(s), N(e)));
void h_ctor_se(void){ WI r; IN(W, s); IN(W, e); HG; WISFN(C2ENS_7wrapintES5_)(&r, &s, &e); REACH; }

/* private wrapped_interval(start, end, is_bottom) */
//@check id=ctor_seb fn=_ZN4crab7domains16wrapped_intervalIN4ikos8z_numberEEC2ENS_7wrapintES5_b props=C13
void WISFN(C2ENS_7wrapintES5_b)(WI *self, W *s, W *e, unsigned char b)
__CPROVER_requires(FRESH(ctor_seb, self, sizeof(WI)) && FRESH(ctor_seb, s, sizeof(W)) && FRESH(ctor_seb, e, sizeof(W)) && GW && w_ok(*s) && w_ok(*e) && WD(s) == GWV && WD(e) == GWV && b <= 1)
__CPROVER_assigns(*self)
__CPROVER_ensures(wi_ok(*self) && WW(*self) == GWV && WS(*self) == N(s) && WE(*self) == N(e) && self->f2 == b);
void h_ctor_seb(void){ WI r; IN(W, s); IN(W, e); GHOST(unsigned char, b); HG; WISFN(C2ENS_7wrapintES5_b)(&r, &s, &e, b); REACH; }

//@check id=top fn=_ZN4crab7domains16wrapped_intervalIN4ikos8z_numberEE3topEv props=C13,C04
void WISFN(3topEv)(WI *ret)
__CPROVER_requires(FRESH(top, ret, sizeof(WI)) && GW && GPTS)
__CPROVER_assigns(*ret)
__CPROVER_ensures(OKW(*ret) && wi_deftop(*ret) && wi_top(*ret) && !wi_bot(*ret) && wi_has(*ret, g_x));
void h_top(void){ WI r; HG; WISFN(3topEv)(&r); REACH; }

//@check id=bottom fn=_ZN4crab7domains16wrapped_intervalIN4ikos8z_numberEE6bottomEv props=C13,C04
void WISFN(6bottomEv)(WI *ret)
__CPROVER_requires(FRESH(bottom, ret, sizeof(WI)) && GW && GPTS)
__CPROVER_assigns(*ret)
__CPROVER_ensures(OKW(*ret) && wi_defbot(*ret) && wi_bot(*ret) && !wi_top(*ret) && !wi_has(*ret, g_x));
void h_bottom(void){ WI r; HG; WISFN(6bottomEv)(&r); REACH; }

/* the two poles: [0111..1, 1000..0] and [1111..1, 0000..0] */
//@check id=signed_limit fn=_ZN4crab7domains16wrapped_intervalIN4ikos8z_numberEE12signed_limitEm props=C13
void WISFN(12signed_limitEm)(WI *ret, uint64_t b)
__CPROVER_requires(FRESH(signed_limit, ret, sizeof(WI)) && GW && b == GWV)
__CPROVER_assigns(*ret)
__CPROVER_ensures(wi_is(*ret, b, smaxv(b), sminv(b)));
void h_signed_limit(void){ WI r; GHOST(uint64_t, b); HG; WISFN(12signed_limitEm)(&r, b); REACH; }
//@check id=unsigned_limit fn=_ZN4crab7domains16wrapped_intervalIN4ikos8z_numberEE14unsigned_limitEm props=C13
void WISFN(14unsigned_limitEm)(WI *ret, uint64_t b)
__CPROVER_requires(FRESH(unsigned_limit, ret, sizeof(WI)) && GW && b == GWV)
__CPROVER_assigns(*ret)
__CPROVER_ensures(wi_is(*ret, b, msk(b), 0));
void h_unsigned_limit(void){ WI r; GHOST(uint64_t, b); HG; WISFN(14unsigned_limitEm)(&r, b); REACH; }

/* mk_winterval(n, width): the singleton {n mod 2^width} when n fits int64; otherwise a warning and top */
i128 g_z;                            /* ghost mathematical integer */
#define Z63(v) ((v) >= -((i128)1 << 63) && (v) < ((i128)1 << 63))
//@check id=mk_winterval1 fn=_ZN4crab7domains16wrapped_intervalIN4ikos8z_numberEE12mk_wintervalES3_m props=C13 allow_error=1
void WISFN(12mk_wintervalES3_m)(WI *ret, Z *n, uint64_t width)
__CPROVER_requires(FRESH(mk_winterval1, ret, sizeof(WI)) && FRESH(mk_winterval1, n, sizeof(Z)) && GW && width == GWV && z_inrange(ZV(n)))
__CPROVER_assigns(*ret)
__CPROVER_ensures(OKW(*ret))
__CPROVER_ensures(Z63(ZV(n)) ? wi_is(*ret, width, wrapz(ZV(n), width), wrapz(ZV(n), width)) : wi_top(*ret))
__CPROVER_ensures(wi_has(*ret, wrapz(ZV(n), width)));
void h_mk_winterval1(void){ WI r; IN(Z, n); GHOST(uint64_t, width); HG; WISFN(12mk_wintervalES3_m)(&r, &n, width); REACH; }
/* mk_winterval(lb, ub, width): every integer of [lb, ub], reduced modulo 2^width, is an element */
//@check id=mk_winterval2 fn=_ZN4crab7domains16wrapped_intervalIN4ikos8z_numberEE12mk_wintervalES3_S3_m props=C13 allow_error=1
void WISFN(12mk_wintervalES3_S3_m)(WI *ret, Z *lb, Z *ub, uint64_t width)
__CPROVER_requires(FRESH(mk_winterval2, ret, sizeof(WI)) && FRESH(mk_winterval2, lb, sizeof(Z)) && FRESH(mk_winterval2, ub, sizeof(Z)) && GW && width == GWV && z_inrange(ZV(lb)) && z_inrange(ZV(ub)))
__CPROVER_assigns(*ret)
__CPROVER_ensures(OKW(*ret))
__CPROVER_ensures((ZV(lb) <= g_z && g_z <= ZV(ub)) ==> wi_has(*ret, wrapz(g_z, width)));
void h_mk_winterval2(void){ WI r; IN(Z, lb); IN(Z, ub); GHOST(uint64_t, width); HG; GHOSTG(i128, g_z); WISFN(12mk_wintervalES3_S3_m)(&r, &lb, &ub, width); REACH; }
/* linear_interval_solver_impl::mk_interval = mk_winterval(c, w) */
//@check id=mk_interval fn=_ZN4ikos27linear_interval_solver_impl11mk_intervalIN4crab7domains16wrapped_intervalINS_8z_numberEEES5_EET_T0_m props=C13 allow_error=1
void _ZN4ikos27linear_interval_solver_impl11mk_intervalIN4crab7domains16wrapped_intervalINS_8z_numberEEES5_EET_T0_m(WI *ret, Z *n, uint64_t width)
__CPROVER_requires(FRESH(mk_interval, ret, sizeof(WI)) && FRESH(mk_interval, n, sizeof(Z)) && GW && width == GWV && z_inrange(ZV(n)))
__CPROVER_assigns(*ret)
__CPROVER_ensures(OKW(*ret) && wi_has(*ret, wrapz(ZV(n), width)));
void h_mk_interval(void){ WI r; IN(Z, n); GHOST(uint64_t, width); HG; _ZN4ikos27linear_interval_solver_impl11mk_intervalIN4crab7domains16wrapped_intervalINS_8z_numberEEES5_EET_T0_m(&r, &n, width); REACH; }

/* the cheaper predicates of models/wrapint_contracts_model.c are the ones of units/wrapint/spec.h: for every wrapint x,
 * width w and value v:  w_okm(x, msk(x.width)) == w_ok(x);  mk(w, msk(w), v & msk(w)) is the (unique) r with w_is(r, w, v & msk(w)) */
#include "wrapint_contracts_model.h"
//@check id=model_equiv fn=_ZNK4crab7domains16wrapped_intervalIN4ikos8z_numberEE9is_bottomEv tag=is_bottom harness=h_model_equiv props=C13
void h_model_equiv(void){ IN(WI, a); IN(W, x); GHOST(uint64_t, w); GHOST(uint64_t, v); HG; WIFN(9is_bottomEv)(&a);
  __CPROVER_assert(w_okm(x, msk(x.f1)) == w_ok(x), "w_okm is w_ok");
  if (w >= 1 && w <= 64) { W r = mk(w, msk(w), v & msk(w)); W q;
    __CPROVER_assert(w_is(r, w, v & msk(w)), "mk builds a wrapint that satisfies w_is");
    __CPROVER_assert(!w_is(q, w, v & msk(w)) || (q.f0 == r.f0 && q.f1 == r.f1 && q.f2 == r.f2), "w_is determines all three fields"); }
  REACH; }

/* ================================================================ queries */
#define QUERY(tag, fn, RT, PRE, ...) \
RT fn(WI *self) \
__CPROVER_requires(FRESH(tag, self, sizeof(WI)) && GW && GPTS && OKW(*self) && (PRE)) \
__CPROVER_assigns() \
__VA_ARGS__; \
void h_##tag(void){ IN(WI, a); HG; fn(&a); REACH; }
/* is_bottom() <=> no element (witness for the converse: the start point) */
//@check id=is_bottom fn=_ZNK4crab7domains16wrapped_intervalIN4ikos8z_numberEE9is_bottomEv props=C13,C04
QUERY(is_bottom, WIFN(9is_bottomEv), unsigned char, 1,
  __CPROVER_ensures(__CPROVER_return_value == (unsigned char)wi_bot(*self))
  __CPROVER_ensures(__CPROVER_return_value ? !wi_has(*self, g_x) : wi_has(*self, WS(*self))))
/* is_top() <=> every value is an element (witness for the converse: the value just before start) */
//@check id=is_top fn=_ZNK4crab7domains16wrapped_intervalIN4ikos8z_numberEE6is_topEv props=C13,C04
QUERY(is_top, WIFN(6is_topEv), unsigned char, 1,
  __CPROVER_ensures(__CPROVER_return_value == (unsigned char)wi_top(*self))
  __CPROVER_ensures(__CPROVER_return_value ? wi_has(*self, g_x) : !wi_has(*self, (WS(*self) - 1) & msk(WW(*self)))))
//@check id=is_singleton fn=_ZNK4crab7domains16wrapped_intervalIN4ikos8z_numberEE12is_singletonEv props=C13
QUERY(is_singleton, WIFN(12is_singletonEv), unsigned char, 1,
  __CPROVER_ensures(__CPROVER_return_value == (unsigned char)sp_single(*self))
  __CPROVER_ensures((__CPROVER_return_value && WW(*self) == GWV) ==> (wi_has(*self, g_x) == (g_x == WS(*self)))))
/* get_bitwidth(line): only of a proper interval (bottom and top: CRAB_ERROR) */
//@check id=get_bitwidth fn=_ZNK4crab7domains16wrapped_intervalIN4ikos8z_numberEE12get_bitwidthEi props=C13
uint64_t WIFN(12get_bitwidthEi)(WI *self, uint32_t line)
__CPROVER_requires(FRESH(get_bitwidth, self, sizeof(WI)) && GW && wi_proper(*self, GWV))
__CPROVER_assigns()
__CPROVER_ensures(__CPROVER_return_value == GWV);
void h_get_bitwidth(void){ IN(WI, a); HG; WIFN(12get_bitwidthEi)(&a, 0); REACH; }
/* start() / end(): not of a top (CRAB_ERROR) */
#define ENDPT(tag, fn, F) \
void fn(W *ret, WI *self) \
__CPROVER_requires(FRESH(tag, ret, sizeof(W)) && FRESH(tag, self, sizeof(WI)) && GW && OKW(*self) && !wi_top(*self)) \
__CPROVER_assigns(*ret) \
__CPROVER_ensures(w_is(*ret, WW(*self), self->F.f0)); \
void h_##tag(void){ IN(WI, a); HG; W r; fn(&r, &a); REACH; }
//@check id=start fn=_ZNK4crab7domains16wrapped_intervalIN4ikos8z_numberEE5startEv props=C13
ENDPT(start, WIFN(5startEv), f0)
//@check id=end fn=_ZNK4crab7domains16wrapped_intervalIN4ikos8z_numberEE3endEv props=C13
ENDPT(end, WIFN(3endEv), f1)
/* the class's own membership test is the concretisation */
//@check id=at fn=_ZNK4crab7domains16wrapped_intervalIN4ikos8z_numberEE2atENS_7wrapintE props=C13,C04 vary=WIW:3,64 vary_thorough=WIW:1,2,3,8,32,64 bounded="proof for ALL operands, but only at the enumerated bit widths of this run (WIW/TRP list); other widths 1..64 are not covered"
//@check id=at_sym fn=_ZNK4crab7domains16wrapped_intervalIN4ikos8z_numberEE2atENS_7wrapintE tag=at harness=h_at props=C13,C04 tier=thorough timeout=900 first_timeout=200
unsigned char WIFN(2atENS_7wrapintE)(WI *self, W *x)
__CPROVER_requires(FRESH(at, self, sizeof(WI)) && FRESH(at, x, sizeof(W)) && GW && OKW(*self) && w_ok(*x) && WD(x) == GWV)
__CPROVER_assigns()
__CPROVER_ensures(__CPROVER_return_value == (unsigned char)wi_has(*self, N(x)));
void h_at(void){ IN(WI, a); IN(W, v); HG; WIFN(2atENS_7wrapintE)(&a, &v); REACH; }
/* crossing the north pole (0111..1 -> 1000..0) / the south pole (1111..1 -> 0000..0): of a proper interval only.
 * Semantic reading: both neighbours of the pole are elements (a proper arc that holds two adjacent values passes between them) */
//@check id=cross_signed fn=_ZNK4crab7domains16wrapped_intervalIN4ikos8z_numberEE18cross_signed_limitEv props=C13 replace=_ZNK4crab7domains16wrapped_intervalIN4ikos8z_numberEEleERKS4_ vary=WIW:3,64 vary_thorough=WIW:1,2,3,8,32,64 bounded="proof for ALL operands, but only at the enumerated bit widths of this run (WIW/TRP list); other widths 1..64 are not covered"
QUERY(cross_signed, WIFN(18cross_signed_limitEv), unsigned char, wi_proper(*self, GWV),
  __CPROVER_ensures(__CPROVER_return_value == (unsigned char)sp_cross_s(*self, GWV))
  __CPROVER_ensures(__CPROVER_return_value ==> (wi_has(*self, smaxv(GWV)) && wi_has(*self, sminv(GWV)))))
//@check id=cross_unsigned fn=_ZNK4crab7domains16wrapped_intervalIN4ikos8z_numberEE20cross_unsigned_limitEv props=C13 replace=_ZNK4crab7domains16wrapped_intervalIN4ikos8z_numberEEleERKS4_ vary=WIW:3,64 vary_thorough=WIW:1,2,3,8,32,64 bounded="proof for ALL operands, but only at the enumerated bit widths of this run (WIW/TRP list); other widths 1..64 are not covered"
QUERY(cross_unsigned, WIFN(20cross_unsigned_limitEv), unsigned char, wi_proper(*self, GWV),
  __CPROVER_ensures(__CPROVER_return_value == (unsigned char)sp_cross_u(*self, GWV))
  __CPROVER_ensures(__CPROVER_return_value ==> (wi_has(*self, M) && wi_has(*self, 0))))

/* ================================================================ order and lattice (C04), widening / narrowing (C05) */
#define REQ2(tag) (FRESH(tag, self, sizeof(WI)) && FRESH(tag, x, sizeof(WI)) && GW && GPTS && OKW(*self) && OKW(*x))
#define SG2(h) SATGUARD(GW && GPTS && OKW(a) && OKW(b) && (h))
/* inclusion: exactly sp_leq; bottom on the left and top on the right say yes; a yes means inclusion of the concretisations */
#define HYP_leq(a, b) (wi_has(a, g_x) && LEMMA(!(sp_leq(a, b) && wi_has(a, g_x)) || wi_has(b, g_x)))
//@check id=leq fn=_ZNK4crab7domains16wrapped_intervalIN4ikos8z_numberEEleERKS4_ props=C13,C04 replace=_ZNK4crab7domains16wrapped_intervalIN4ikos8z_numberEE2atENS_7wrapintE,_ZNK4crab7domains16wrapped_intervalIN4ikos8z_numberEE6is_topEv vary=WIW:3,8,64 vary_thorough=WIW:1,2,3,4,5,8,16,32,64 bounded="proof for ALL operands, but only at the enumerated bit widths of this run (WIW/TRP list); other widths 1..64 are not covered"
//@check id=leq_sym fn=_ZNK4crab7domains16wrapped_intervalIN4ikos8z_numberEEleERKS4_ tag=leq harness=h_leq props=C13,C04 replace=_ZNK4crab7domains16wrapped_intervalIN4ikos8z_numberEE2atENS_7wrapintE,_ZNK4crab7domains16wrapped_intervalIN4ikos8z_numberEE6is_topEv tier=thorough timeout=900 first_timeout=200
unsigned char WIFN(leERKS4_)(WI *self, WI *x)
__CPROVER_requires(REQ2(leq))
__CPROVER_assigns()
__CPROVER_ensures(__CPROVER_return_value == (unsigned char)sp_leq(*self, *x))
__CPROVER_ensures((wi_bot(*self) || wi_top(*x)) ==> __CPROVER_return_value)
__CPROVER_ensures((__CPROVER_return_value && HYP_leq(*self, *x)) ==> wi_has(*x, g_x));
void h_leq(void){ IN(WI, a); IN(WI, b); HG; WIFN(leERKS4_)(&a, &b); SG2(sp_leq(a, b) && HYP_leq(a, b)); REACH; }
/* reflexivity: the same object on both sides */
//@check id=leq_refl fn=_ZNK4crab7domains16wrapped_intervalIN4ikos8z_numberEEleERKS4_ tag=leq props=C04 replace=_ZNK4crab7domains16wrapped_intervalIN4ikos8z_numberEE2atENS_7wrapintE,_ZNK4crab7domains16wrapped_intervalIN4ikos8z_numberEE6is_topEv
void h_leq_refl(void){ IN(WI, a); HG; unsigned char r = WIFN(leERKS4_)(&a, &a); __CPROVER_assert(r, "x <= x"); REACH; }
/* == is inclusion both ways; equal representations are equal */
//@check id=eq fn=_ZNK4crab7domains16wrapped_intervalIN4ikos8z_numberEEeqERKS4_ props=C13,C04 replace=_ZNK4crab7domains16wrapped_intervalIN4ikos8z_numberEEleERKS4_ vary=WIW:3,64 vary_thorough=WIW:1,2,3,8,32,64 bounded="proof for ALL operands, but only at the enumerated bit widths of this run (WIW/TRP list); other widths 1..64 are not covered"
unsigned char WIFN(eqERKS4_)(WI *self, WI *x)
__CPROVER_requires(REQ2(eq))
__CPROVER_assigns()
__CPROVER_ensures(__CPROVER_return_value == (unsigned char)sp_eq(*self, *x))
__CPROVER_ensures(wi_same(*self, *x) ==> __CPROVER_return_value);
void h_eq(void){ IN(WI, a); IN(WI, b); HG; WIFN(eqERKS4_)(&a, &b); REACH; }
//@check id=ne fn=_ZNK4crab7domains16wrapped_intervalIN4ikos8z_numberEEneERKS4_ props=C13,C04 replace=_ZNK4crab7domains16wrapped_intervalIN4ikos8z_numberEEeqERKS4_ vary=WIW:3,64 vary_thorough=WIW:1,2,3,8,32,64 bounded="proof for ALL operands, but only at the enumerated bit widths of this run (WIW/TRP list); other widths 1..64 are not covered"
unsigned char WIFN(neERKS4_)(WI *self, WI *x)
__CPROVER_requires(REQ2(ne))
__CPROVER_assigns()
__CPROVER_ensures(__CPROVER_return_value == (unsigned char)!sp_eq(*self, *x));
void h_ne(void){ IN(WI, a); IN(WI, b); HG; WIFN(neERKS4_)(&a, &b); REACH; }

#define BINOP(tag, fn, ...) \
void fn(WI *ret, WI *self, WI *x) \
__CPROVER_requires(FRESH(tag, ret, sizeof(WI)) && REQ2(tag)) \
__CPROVER_assigns(*ret) \
__CPROVER_ensures(OKW(*ret)) \
__VA_ARGS__; \
void h_##tag(void){ IN(WI, a); IN(WI, b); HG; WI r; fn(&r, &a, &b); SG2(HYP_##tag(a, b)); REACH; }
#define IMP(h, c) (!(h) || (c))
/* join: an upper bound of both */
#define HYP_join(a, b) ((wi_has(a, g_x) || wi_has(b, g_x)) && LEMMA(wi_has(sp_join(a, b, GWV), g_x)))
//@check id=join fn=_ZNK4crab7domains16wrapped_intervalIN4ikos8z_numberEEorERKS4_ props=C13,C04 replace=_ZNK4crab7domains16wrapped_intervalIN4ikos8z_numberEEleERKS4_,_ZNK4crab7domains16wrapped_intervalIN4ikos8z_numberEE2atENS_7wrapintE vary=WIW:3,8 vary_thorough=WIW:1,2,3,4,5,8,16,32 backends=cvc5,minisat first_timeout=400 timeout=600 cost=8 bounded="proof for ALL operands, but only at the enumerated bit widths of this run (WIW/TRP list); other widths 1..64 are not covered"
//@off-check id=join_sym fn=_ZNK4crab7domains16wrapped_intervalIN4ikos8z_numberEEorERKS4_ tag=join harness=h_join props=C13,C04 replace=_ZNK4crab7domains16wrapped_intervalIN4ikos8z_numberEEleERKS4_,_ZNK4crab7domains16wrapped_intervalIN4ikos8z_numberEE2atENS_7wrapintE tier=thorough timeout=900 first_timeout=200
BINOP(join, WIFN(orERKS4_),
  __CPROVER_ensures(wi_same(*ret, sp_join(*self, *x, GWV)))
  __CPROVER_ensures(HYP_join(*self, *x) ==> wi_has(*ret, g_x)))
/* meet: contains the common part */
#define HYP_meet(a, b) (wi_has(a, g_x) && wi_has(b, g_x) && LEMMA(wi_has(sp_meet(a, b, GWV), g_x)))
//@check id=meet fn=_ZNK4crab7domains16wrapped_intervalIN4ikos8z_numberEEanERKS4_ props=C13,C04 replace=_ZNK4crab7domains16wrapped_intervalIN4ikos8z_numberEEleERKS4_,_ZNK4crab7domains16wrapped_intervalIN4ikos8z_numberEE2atENS_7wrapintE vary=WIW:3,8 vary_thorough=WIW:1,2,3,4,5,8,16,32,64 backends=cvc5,minisat first_timeout=400 timeout=600 cost=8 bounded="proof for ALL operands, but only at the enumerated bit widths of this run (WIW/TRP list); other widths 1..64 are not covered"
//@off-check id=meet_sym fn=_ZNK4crab7domains16wrapped_intervalIN4ikos8z_numberEEanERKS4_ tag=meet harness=h_meet props=C13,C04 replace=_ZNK4crab7domains16wrapped_intervalIN4ikos8z_numberEEleERKS4_,_ZNK4crab7domains16wrapped_intervalIN4ikos8z_numberEE2atENS_7wrapintE tier=thorough timeout=900 first_timeout=200
BINOP(meet, WIFN(anERKS4_),
  __CPROVER_ensures(wi_same(*ret, sp_meet(*self, *x, GWV)))
  __CPROVER_ensures(HYP_meet(*self, *x) ==> wi_has(*ret, g_x)))
/* widening: an upper bound of both; and the chain argument: the result is top, or the left operand is bottom, or the right
 * operand is included in the left one and the result is the left one, or the result has at least twice as many elements as
 * the left operand (so an increasing chain at width w has at most w + 2 strict steps; that last step is arithmetic on a
 * bounded counter and not machine-checked) */
static inline bool widen_grows(WI r, WI a, WI b, uint64_t w){
  return wi_top(r) || wi_bot(a) || (sp_leq(b, a) && wi_same(r, a)) || (!wi_bot(r) && wi_card(r, w) >= 2 * wi_card(a, w)); }
#define HYP_widen(a, b) ((wi_has(a, g_x) || wi_has(b, g_x)) && LEMMA(wi_has(sp_widen(a, b, GWV), g_x)))
/* one contract, three clause sets (the full set does not fit one query: no back end answers at width 8 in 15 min):
 *   widen        upper bound                                   widen_grow   the growth fact
 *   widen_limit / widen_cover   targeted harnesses (below), well-formedness of the result only */
#if defined(CHECK_widen_grow)
#define WIDEN_ENS __CPROVER_ensures(LEMMA(widen_grows(sp_widen(*self, *x, GWV), *self, *x, GWV)) ==> widen_grows(*ret, *self, *x, GWV))
#elif defined(CHECK_widen_limit) || defined(CHECK_widen_cover)
#define WIDEN_ENS
#else
#define WIDEN_ENS __CPROVER_ensures(HYP_widen(*self, *x) ==> wi_has(*ret, g_x))
#endif
//@check id=widen fn=_ZNK4crab7domains16wrapped_intervalIN4ikos8z_numberEEooERKS4_ props=C13,C05 replace=_ZNK4crab7domains16wrapped_intervalIN4ikos8z_numberEEorERKS4_,_ZNK4crab7domains16wrapped_intervalIN4ikos8z_numberEEleERKS4_,_ZNK4crab7domains16wrapped_intervalIN4ikos8z_numberEEeqERKS4_,_ZNK4crab7domains16wrapped_intervalIN4ikos8z_numberEE2atENS_7wrapintE,_ZNK4crab7domains16wrapped_intervalIN4ikos8z_numberEE6is_topEv vary=WIW:3 vary_thorough=WIW:1,2,3,4 backends=cvc5,minisat first_timeout=600 timeout=900 cost=9 bounded="proof for ALL operands, but only at the enumerated bit widths of this run (WIW/TRP list); other widths 1..64 are not covered"
//@check id=widen_grow fn=_ZNK4crab7domains16wrapped_intervalIN4ikos8z_numberEEooERKS4_ tag=widen harness=h_widen props=C13,C05 replace=_ZNK4crab7domains16wrapped_intervalIN4ikos8z_numberEEorERKS4_,_ZNK4crab7domains16wrapped_intervalIN4ikos8z_numberEEleERKS4_,_ZNK4crab7domains16wrapped_intervalIN4ikos8z_numberEEeqERKS4_,_ZNK4crab7domains16wrapped_intervalIN4ikos8z_numberEE2atENS_7wrapintE,_ZNK4crab7domains16wrapped_intervalIN4ikos8z_numberEE6is_topEv vary=WIW:3 vary_thorough=WIW:1,2,3,4 backends=cvc5,minisat first_timeout=600 timeout=900 cost=9 bounded="proof for ALL operands, but only at the enumerated bit widths of this run (WIW/TRP list); other widths 1..64 are not covered"
BINOP(widen, WIFN(ooERKS4_), WIDEN_ENS)
/* REGRESSION WITNESSES with CONCRETE operands (the real code executed symbolically on one input, with the undefined-behaviour
 * checks on; not proofs).  The general contract above is only decided at widths <= 4; these pin the two widening defects
 * at the widths where they live:
 *  - a left operand whose span reaches 2^(w-3) jumps to top (`1 << (w - 3)` was a 32-bit shift: undefined for w >= 35, seven
 *    times too large at w = 34);
 *  - operands that overlap at both ends cover the whole circle: the widening must be top ([186,200]_8 || [197,187]_8). */
#if defined(WIW) && WIW > 3
#define WLIM ((uint64_t)1 << (WIW - 3))
#else
#define WLIM ((uint64_t)1 << (GWV - 1))
#endif
//@check id=widen_limit fn=_ZNK4crab7domains16wrapped_intervalIN4ikos8z_numberEEooERKS4_ tag=widen harness=h_widen_limit props=C13,C05 vary=WIW:8,34,64 bounded="regression witness: real code on ONE concrete input per run, not a proof"
void h_widen_limit(void){ WI a = mkwi(GWV, 0, WLIM), b = mkwi(GWV, 0, WLIM + 1), r; HG;
  WIFN(ooERKS4_)(&r, &a, &b);
  __CPROVER_assert(wi_top(r), "[0, 2^(w-3)] || [0, 2^(w-3) + 1] is top");
  REACH; }
//@check id=widen_cover fn=_ZNK4crab7domains16wrapped_intervalIN4ikos8z_numberEEooERKS4_ tag=widen harness=h_widen_cover props=C13,C05 vary=WIW:8 backends=cvc5,minisat first_timeout=400 timeout=600 cost=8 bounded="regression witness: real code on ONE concrete input per run, not a proof"
void h_widen_cover(void){ WI a = mkwi(8, 186, 200), b = mkwi(8, 197, 187), r; HG;
  WIFN(ooERKS4_)(&r, &a, &b);
  __CPROVER_assert(wi_has(r, 193) && wi_top(r), "[186,200]_8 || [197,187]_8 is top (193 is an element of the left operand)");
  REACH; }
/* narrowing (= meet): of a decreasing pair keeps every element of the second argument */
#define HYP_narrow(a, b) (sp_leq(b, a) && wi_has(b, g_x) && LEMMA(wi_has(sp_meet(a, b, GWV), g_x)))
//@check id=narrow fn=_ZNK4crab7domains16wrapped_intervalIN4ikos8z_numberEEaaERKS4_ props=C13,C05 replace=_ZNK4crab7domains16wrapped_intervalIN4ikos8z_numberEEanERKS4_ vary=WIW:3,8 vary_thorough=WIW:1,2,3,4,5,8,16,32,64 backends=cvc5,minisat first_timeout=400 timeout=600 cost=8 bounded="proof for ALL operands, but only at the enumerated bit widths of this run (WIW/TRP list); other widths 1..64 are not covered"
//@check id=narrow_sym fn=_ZNK4crab7domains16wrapped_intervalIN4ikos8z_numberEEaaERKS4_ tag=narrow harness=h_narrow props=C13,C05 replace=_ZNK4crab7domains16wrapped_intervalIN4ikos8z_numberEEanERKS4_ tier=thorough timeout=900 first_timeout=200
BINOP(narrow, WIFN(aaERKS4_),
  __CPROVER_ensures(HYP_narrow(*self, *x) ==> wi_has(*ret, g_x)))

/* ================================================================ arithmetic (C13) */
#define HYP_add(a, b) (wi_has(a, g_x) && wi_has(b, g_y) && LEMMA(wi_has(sp_add(a, b, GWV), (g_x + g_y) & M)))
//@check id=add fn=_ZNK4crab7domains16wrapped_intervalIN4ikos8z_numberEEplERKS4_ props=C13 replace=_ZNK4crab7domains16wrapped_intervalIN4ikos8z_numberEE6is_topEv vary=WIW:3,8,64 vary_thorough=WIW:1,2,3,4,5,8,16,32,64 bounded="proof for ALL operands, but only at the enumerated bit widths of this run (WIW/TRP list); other widths 1..64 are not covered"
//@check id=add_sym fn=_ZNK4crab7domains16wrapped_intervalIN4ikos8z_numberEEplERKS4_ tag=add harness=h_add props=C13 replace=_ZNK4crab7domains16wrapped_intervalIN4ikos8z_numberEE6is_topEv tier=thorough timeout=900 first_timeout=200
BINOP(add, WIFN(plERKS4_),
  __CPROVER_ensures(HYP_add(*self, *x) ==> wi_has(*ret, (g_x + g_y) & M)))
#define HYP_sub(a, b) (wi_has(a, g_x) && wi_has(b, g_y) && LEMMA(wi_has(sp_sub(a, b, GWV), (g_x - g_y) & M)))
//@check id=sub fn=_ZNK4crab7domains16wrapped_intervalIN4ikos8z_numberEEmiERKS4_ props=C13 replace=_ZNK4crab7domains16wrapped_intervalIN4ikos8z_numberEE6is_topEv vary=WIW:3,8,64 vary_thorough=WIW:1,2,3,4,5,8,16,32,64 bounded="proof for ALL operands, but only at the enumerated bit widths of this run (WIW/TRP list); other widths 1..64 are not covered"
//@check id=sub_sym fn=_ZNK4crab7domains16wrapped_intervalIN4ikos8z_numberEEmiERKS4_ tag=sub harness=h_sub props=C13 replace=_ZNK4crab7domains16wrapped_intervalIN4ikos8z_numberEE6is_topEv tier=thorough timeout=900 first_timeout=200
BINOP(sub, WIFN(miERKS4_),
  __CPROVER_ensures(HYP_sub(*self, *x) ==> wi_has(*ret, (g_x - g_y) & M)))
#define UNOP(tag, fn, ...) \
void fn(WI *ret, WI *self) \
__CPROVER_requires(FRESH(tag, ret, sizeof(WI)) && FRESH(tag, self, sizeof(WI)) && GW && GPTS && OKW(*self)) \
__CPROVER_assigns(*ret) \
__CPROVER_ensures(OKW(*ret)) \
__VA_ARGS__; \
void h_##tag(void){ IN(WI, a); HG; WI r; fn(&r, &a); SATGUARD(GW && GPTS && OKW(a) && HYP_##tag(a)); REACH; }
#define HYP_neg(a) (wi_has(a, g_x) && LEMMA(wi_has(sp_neg(a, GWV), (0 - g_x) & M)))
//@check id=neg fn=_ZNK4crab7domains16wrapped_intervalIN4ikos8z_numberEEngEv props=C13 replace=_ZNK4crab7domains16wrapped_intervalIN4ikos8z_numberEE6is_topEv vary=WIW:3,8,64 vary_thorough=WIW:1,2,3,4,5,8,16,32,64 bounded="proof for ALL operands, but only at the enumerated bit widths of this run (WIW/TRP list); other widths 1..64 are not covered"
//@check id=neg_sym fn=_ZNK4crab7domains16wrapped_intervalIN4ikos8z_numberEEngEv tag=neg harness=h_neg props=C13 replace=_ZNK4crab7domains16wrapped_intervalIN4ikos8z_numberEE6is_topEv tier=thorough timeout=900 first_timeout=200
UNOP(neg, WIFN(ngEv),
  __CPROVER_ensures(HYP_neg(*self) ==> wi_has(*ret, (0 - g_x) & M)))
/* compound assignment: *this = *this + x, returns this */
//@check id=add_asg fn=_ZN4crab7domains16wrapped_intervalIN4ikos8z_numberEEpLERKS4_ props=C13 vary=WIW:3 vary_thorough=WIW:1,2,3,4 bounded="proof for ALL operands, but only at the enumerated bit widths of this run (WIW/TRP list); other widths 1..64 are not covered"
WI *WISFN(pLERKS4_)(WI *self, WI *x)
__CPROVER_requires(REQ2(add_asg))
__CPROVER_assigns(*self)
__CPROVER_ensures(__CPROVER_return_value == self && OKW(*self))
__CPROVER_ensures((wi_has(__CPROVER_old(*self), g_x) && wi_has(*x, g_y)) ==> wi_has(*self, (g_x + g_y) & M));
void h_add_asg(void){ IN(WI, a); IN(WI, b); HG; WISFN(pLERKS4_)(&a, &b); REACH; }
//@check id=sub_asg fn=_ZN4crab7domains16wrapped_intervalIN4ikos8z_numberEEmIERKS4_ props=C13 vary=WIW:3 vary_thorough=WIW:1,2,3,4 bounded="proof for ALL operands, but only at the enumerated bit widths of this run (WIW/TRP list); other widths 1..64 are not covered"
WI *WISFN(mIERKS4_)(WI *self, WI *x)
__CPROVER_requires(REQ2(sub_asg))
__CPROVER_assigns(*self)
__CPROVER_ensures(__CPROVER_return_value == self && OKW(*self))
__CPROVER_ensures((wi_has(__CPROVER_old(*self), g_x) && wi_has(*x, g_y)) ==> wi_has(*self, (g_x - g_y) & M));
void h_sub_asg(void){ IN(WI, a); IN(WI, b); HG; WISFN(mIERKS4_)(&a, &b); REACH; }

/* SRem, URem, And, Or, Xor: default_implementation = bottom if an operand is bottom, otherwise top */
static inline i128 sremv(uint64_t x, uint64_t y, uint64_t w){ i128 a = sxv(x, w), b = sxv(y, w); return b == 0 ? 0 : a % b; }
#define DEFAULT_OP(tag, fn, DEF, V) \
void fn(WI *ret, WI *self, WI *x) \
__CPROVER_requires(FRESH(tag, ret, sizeof(WI)) && REQ2(tag)) \
__CPROVER_assigns(*ret) \
__CPROVER_ensures(OKW(*ret) && ((wi_bot(*self) || wi_bot(*x)) ? wi_bot(*ret) : wi_top(*ret))) \
__CPROVER_ensures((wi_has(*self, g_x) && wi_has(*x, g_y) && (DEF)) ==> wi_has(*ret, V)); \
void h_##tag(void){ IN(WI, a); IN(WI, b); HG; WI r; fn(&r, &a, &b); REACH; }
//@check id=default_impl fn=_ZNK4crab7domains16wrapped_intervalIN4ikos8z_numberEE22default_implementationERKS4_ props=C13
DEFAULT_OP(default_impl, WIFN(22default_implementationERKS4_), 1, g_x)
//@check id=srem fn=_ZNK4crab7domains16wrapped_intervalIN4ikos8z_numberEE4SRemERKS4_ props=C13 vary=WIW:3 vary_thorough=WIW:3,8 bounded="proof for ALL operands, but only at the enumerated bit widths of this run (WIW/TRP list); other widths 1..64 are not covered"
DEFAULT_OP(srem, WIFN(4SRemERKS4_), g_y != 0, wrapz(sremv(g_x, g_y, GWV), GWV))
//@check id=urem fn=_ZNK4crab7domains16wrapped_intervalIN4ikos8z_numberEE4URemERKS4_ props=C13 vary=WIW:3 vary_thorough=WIW:3,8 bounded="proof for ALL operands, but only at the enumerated bit widths of this run (WIW/TRP list); other widths 1..64 are not covered"
DEFAULT_OP(urem, WIFN(4URemERKS4_), g_y != 0, g_x % (g_y == 0 ? 1 : g_y))
//@check id=and fn=_ZNK4crab7domains16wrapped_intervalIN4ikos8z_numberEE3AndERKS4_ props=C13
DEFAULT_OP(and, WIFN(3AndERKS4_), 1, g_x & g_y)
//@check id=or fn=_ZNK4crab7domains16wrapped_intervalIN4ikos8z_numberEE2OrERKS4_ props=C13
DEFAULT_OP(or, WIFN(2OrERKS4_), 1, g_x | g_y)
//@check id=xor fn=_ZNK4crab7domains16wrapped_intervalIN4ikos8z_numberEE3XorERKS4_ props=C13
DEFAULT_OP(xor, WIFN(3XorERKS4_), 1, g_x ^ g_y)

/* ---------------------------------------------------------------- shifts by a constant (private Shl/LShr/AShr(uint64_t k)).
 * k < width: larger amounts are undefined for the concrete operations; Shl by 0 is the identity */
#define SHIFTK(tag, fn, KPRE, ...) \
void fn(WI *ret, WI *self, uint64_t k) \
__CPROVER_requires(FRESH(tag, ret, sizeof(WI)) && FRESH(tag, self, sizeof(WI)) && GW && GPTS && OKW(*self) && (KPRE)) \
__CPROVER_assigns(*ret) \
__CPROVER_ensures(OKW(*ret)) \
__VA_ARGS__; \
void h_##tag(void){ IN(WI, a); GHOST(uint64_t, k); HG; WI r; fn(&r, &a, k); SATGUARD(GW && GPTS && OKW(a) && (k < GWV) && HYP_##tag(a, k)); REACH; }
#define HYP_shl_k(a, k) (wi_has(a, g_x) && LEMMA((k) == 0 || wi_has(sp_shl(a, k, GWV), (g_x << (k)) & M)))
//@check id=shl_k fn=_ZNK4crab7domains16wrapped_intervalIN4ikos8z_numberEE3ShlEm props=C13 vary=WIW:3,8 vary_thorough=WIW:2,3,4,5,8,16 bounded="proof for ALL operands, but only at the enumerated bit widths of this run (WIW/TRP list); other widths 1..64 are not covered"
SHIFTK(shl_k, WIFN(3ShlEm), k < GWV,
  __CPROVER_ensures(HYP_shl_k(*self, k) ==> wi_has(*ret, (g_x << k) & M)))
#define HYP_lshr_k(a, k) (wi_has(a, g_x) && LEMMA(wi_has(sp_lshr(a, k, GWV), g_x >> (k))))
//@check id=lshr_k fn=_ZNK4crab7domains16wrapped_intervalIN4ikos8z_numberEE4LShrEm props=C13 replace=_ZNK4crab7domains16wrapped_intervalIN4ikos8z_numberEE20cross_unsigned_limitEv,_ZNK4crab7domains16wrapped_intervalIN4ikos8z_numberEE6is_topEv vary=WIW:3,8,32 vary_thorough=WIW:1,2,3,4,5,8,16,32 bounded="proof for ALL operands, but only at the enumerated bit widths of this run (WIW/TRP list); other widths 1..64 are not covered"
SHIFTK(lshr_k, WIFN(4LShrEm), k < GWV,
  __CPROVER_ensures(HYP_lshr_k(*self, k) ==> wi_has(*ret, g_x >> k)))
#define HYP_ashr_k(a, k) (wi_has(a, g_x) && LEMMA(wi_has(sp_ashr(a, k, GWV), ashrv(g_x, k, GWV))))
//@check id=ashr_k fn=_ZNK4crab7domains16wrapped_intervalIN4ikos8z_numberEE4AShrEm props=C13 replace=_ZNK4crab7domains16wrapped_intervalIN4ikos8z_numberEE18cross_signed_limitEv,_ZNK4crab7domains16wrapped_intervalIN4ikos8z_numberEE6is_topEv vary=WIW:3,8 vary_thorough=WIW:1,2,3,4,5,8,16 bounded="proof for ALL operands, but only at the enumerated bit widths of this run (WIW/TRP list); other widths 1..64 are not covered"
SHIFTK(ashr_k, WIFN(4AShrEm), k < GWV,
  __CPROVER_ensures(HYP_ashr_k(*self, k) ==> wi_has(*ret, ashrv(g_x, k, GWV))))
/* shifts by an interval: the amounts are the elements of x; only amounts < width have a defined concrete result, but NO shift
 * amount may make the analysis exit: the precondition does not restrict x */
#define SHIFTX(tag, fn, V) \
void fn(WI *ret, WI *self, WI *x) \
__CPROVER_requires(FRESH(tag, ret, sizeof(WI)) && REQ2(tag)) \
__CPROVER_assigns(*ret) \
__CPROVER_ensures(OKW(*ret)) \
__CPROVER_ensures((wi_has(*self, g_x) && wi_has(*x, g_y) && g_y < GWV) ==> wi_has(*ret, V)); \
void h_##tag(void){ IN(WI, a); IN(WI, b); HG; WI r; fn(&r, &a, &b); REACH; }
//@check id=shl fn=_ZNK4crab7domains16wrapped_intervalIN4ikos8z_numberEE3ShlERKS4_ props=C13 vary=WIW:3 vary_thorough=WIW:2,3,4 bounded="proof for ALL operands, but only at the enumerated bit widths of this run (WIW/TRP list); other widths 1..64 are not covered"
SHIFTX(shl, WIFN(3ShlERKS4_), (g_x << g_y) & M)
//@check id=lshr fn=_ZNK4crab7domains16wrapped_intervalIN4ikos8z_numberEE4LShrERKS4_ props=C13 vary=WIW:3 vary_thorough=WIW:2,3,4 bounded="proof for ALL operands, but only at the enumerated bit widths of this run (WIW/TRP list); other widths 1..64 are not covered"
SHIFTX(lshr, WIFN(4LShrERKS4_), g_x >> g_y)
//@check id=ashr fn=_ZNK4crab7domains16wrapped_intervalIN4ikos8z_numberEE4AShrERKS4_ props=C13 vary=WIW:3 vary_thorough=WIW:2,3,4 bounded="proof for ALL operands, but only at the enumerated bit widths of this run (WIW/TRP list); other widths 1..64 are not covered"
SHIFTX(ashr, WIFN(4AShrERKS4_), ashrv(g_x, g_y, GWV))

/* ---------------------------------------------------------------- width changes */
/* Trunc(k): keep the k low bits, 1 <= k < width; the result lives at width k */
#ifdef TRK
#define TRKPRE(k) ((k) == TRK)
#else
#define TRKPRE(k) 1
#endif
#define HYP_trunc(a, k) (wi_has(a, g_x) && LEMMA(wi_has(sp_trunc(a, k, GWV), g_x & msk(k))))
//@check id=trunc fn=_ZNK4crab7domains16wrapped_intervalIN4ikos8z_numberEE5TruncEj props=C13 vary=WIW:3 vary_thorough=WIW:2,3,4 bounded="proof for ALL operands, but only at the enumerated bit widths of this run (WIW/TRP list); other widths 1..64 are not covered"
//@check id=trunc_w fn=_ZNK4crab7domains16wrapped_intervalIN4ikos8z_numberEE5TruncEj tag=trunc harness=h_trunc props=C13 vary=TRP:804,6432 vary_thorough=TRP:801,804,807,1608,3201,3208,3216,3231,6401,6408,6416,6432,6463 bounded="proof for ALL operands, but only at the enumerated bit widths of this run (WIW/TRP list); other widths 1..64 are not covered"
void WIFN(5TruncEj)(WI *ret, WI *self, uint32_t k)
__CPROVER_requires(FRESH(trunc, ret, sizeof(WI)) && FRESH(trunc, self, sizeof(WI)) && GW && GPTS && OKW(*self) && k >= 1 && k < GWV && TRKPRE(k))
__CPROVER_assigns(*ret)
__CPROVER_ensures(wi_okw(*ret, k))
__CPROVER_ensures(HYP_trunc(*self, k) ==> wi_has(*ret, g_x & msk(k)));
void h_trunc(void){ IN(WI, a); GHOST(uint32_t, k); HG; WI r; WIFN(5TruncEj)(&r, &a, k); SATGUARD(GW && GPTS && OKW(a) && k >= 1 && k < GWV && TRKPRE(k) && HYP_trunc(a, k)); REACH; }
/* ZExt / SExt(bits): the result lives at width + bits <= 64 and holds the zero- / sign-extended values.
 * Real std::vector of <= 2 pieces (unsigned_split / signed_split): loops unwound to 4 with assertion.  NOT RUN (see the header) */
//@off-check id=zext fn=_ZNK4crab7domains16wrapped_intervalIN4ikos8z_numberEE4ZExtEj props=C13 unwind=4 vary=WIW:2 vary_thorough=WIW:1,2,3 backends=minisat,cvc5 first_timeout=300 timeout=600 cost=8
void WIFN(4ZExtEj)(WI *ret, WI *self, uint32_t bits)
__CPROVER_requires(FRESH(zext, ret, sizeof(WI)) && FRESH(zext, self, sizeof(WI)) && GW && GPTS && OKW(*self) && bits >= 1 && bits <= 3)
__CPROVER_assigns(*ret)
__CPROVER_ensures(wi_okw(*ret, GWV + bits))
__CPROVER_ensures(wi_has(*self, g_x) ==> wi_has(*ret, g_x));
/* REGRESSION WITNESS (concrete operand top()): ZExt / SExt of top is top (Trunc does the same).  The general soundness
 * contract above is NOT run: ZExt is 290 830 symex steps and 20M variables (two joins in a loop over the split vector); it was
 * seen to fail on the unrepaired tree (CRAB_ERROR reachable) but no back end completes the proof on the repaired one */
//@check id=zext_top fn=_ZNK4crab7domains16wrapped_intervalIN4ikos8z_numberEE4ZExtEj tag=zext harness=h_zext_top props=C13 unwind=4 bounded="regression witness: real code on ONE concrete input per run, not a proof"
void h_zext_top(void){ WI a = sp_top(), r; HG; WIFN(4ZExtEj)(&r, &a, 3); __CPROVER_assert(wi_top(r), "ZExt of top is top"); REACH; }
void h_zext(void){ IN(WI, a); GHOST(uint32_t, bits); HG; WI r; WIFN(4ZExtEj)(&r, &a, bits); REACH; }
//@off-check id=sext fn=_ZNK4crab7domains16wrapped_intervalIN4ikos8z_numberEE4SExtEj props=C13 unwind=4 vary=WIW:2 vary_thorough=WIW:1,2,3 backends=minisat,cvc5 first_timeout=300 timeout=600 cost=8
void WIFN(4SExtEj)(WI *ret, WI *self, uint32_t bits)
__CPROVER_requires(FRESH(sext, ret, sizeof(WI)) && FRESH(sext, self, sizeof(WI)) && GW && GPTS && OKW(*self) && bits >= 1 && bits <= 3)
__CPROVER_assigns(*ret)
__CPROVER_ensures(wi_okw(*ret, GWV + bits))
__CPROVER_ensures(wi_has(*self, g_x) ==> wi_has(*ret, wrapz(sxv(g_x, GWV), GWV + bits)));
//@check id=sext_top fn=_ZNK4crab7domains16wrapped_intervalIN4ikos8z_numberEE4SExtEj tag=sext harness=h_sext_top props=C13 unwind=4 bounded="regression witness: real code on ONE concrete input per run, not a proof"
void h_sext_top(void){ WI a = sp_top(), r; HG; WIFN(4SExtEj)(&r, &a, 3); __CPROVER_assert(wi_top(r), "SExt of top is top"); REACH; }
void h_sext(void){ IN(WI, a); GHOST(uint32_t, bits); HG; WI r; WIFN(4SExtEj)(&r, &a, bits); REACH; }

/* ---------------------------------------------------------------- half lines, trimming, conversion */
#define HALF(tag, fn, ...) \
void fn(WI *ret, WI *self, unsigned char sg) \
__CPROVER_requires(FRESH(tag, ret, sizeof(WI)) && FRESH(tag, self, sizeof(WI)) && GW && GPTS && OKW(*self) && sg <= 1) \
__CPROVER_assigns(*ret) \
__CPROVER_ensures(OKW(*ret)) \
__VA_ARGS__; \
void h_##tag(void){ IN(WI, a); GHOST(unsigned char, sg); HG; WI r; fn(&r, &a, sg); SATGUARD(GW && GPTS && OKW(a) && sg <= 1 && HYP_##tag(a, sg)); REACH; }
/* lower_half_line: every value below (signed or unsigned order) some element */
#define BELOW(sg) ((sg) ? sle(g_y, g_x, GWV) : g_y <= g_x)
#define ABOVE(sg) ((sg) ? sle(g_x, g_y, GWV) : g_x <= g_y)
#define HYP_lower_half(a, sg) (wi_has(a, g_x) && BELOW(sg) && LEMMA(wi_has(sp_lower(a, sg, GWV), g_y)))
//@check id=lower_half fn=_ZNK4crab7domains16wrapped_intervalIN4ikos8z_numberEE15lower_half_lineEb props=C13 replace=_ZNK4crab7domains16wrapped_intervalIN4ikos8z_numberEE2atENS_7wrapintE,_ZNK4crab7domains16wrapped_intervalIN4ikos8z_numberEE6is_topEv vary=WIW:3,8,64 vary_thorough=WIW:1,2,3,4,5,8,16,32,64 bounded="proof for ALL operands, but only at the enumerated bit widths of this run (WIW/TRP list); other widths 1..64 are not covered"
//@check id=lower_half_sym fn=_ZNK4crab7domains16wrapped_intervalIN4ikos8z_numberEE15lower_half_lineEb tag=lower_half harness=h_lower_half props=C13 replace=_ZNK4crab7domains16wrapped_intervalIN4ikos8z_numberEE2atENS_7wrapintE,_ZNK4crab7domains16wrapped_intervalIN4ikos8z_numberEE6is_topEv tier=thorough timeout=900 first_timeout=200
HALF(lower_half, WIFN(15lower_half_lineEb),
  __CPROVER_ensures(HYP_lower_half(*self, sg) ==> wi_has(*ret, g_y)))
#define HYP_upper_half(a, sg) (wi_has(a, g_x) && ABOVE(sg) && LEMMA(wi_has(sp_upper(a, sg, GWV), g_y)))
//@check id=upper_half fn=_ZNK4crab7domains16wrapped_intervalIN4ikos8z_numberEE15upper_half_lineEb props=C13 replace=_ZNK4crab7domains16wrapped_intervalIN4ikos8z_numberEE2atENS_7wrapintE,_ZNK4crab7domains16wrapped_intervalIN4ikos8z_numberEE6is_topEv vary=WIW:3,8,64 vary_thorough=WIW:1,2,3,4,5,8,16,32,64 bounded="proof for ALL operands, but only at the enumerated bit widths of this run (WIW/TRP list); other widths 1..64 are not covered"
//@check id=upper_half_sym fn=_ZNK4crab7domains16wrapped_intervalIN4ikos8z_numberEE15upper_half_lineEb tag=upper_half harness=h_upper_half props=C13 replace=_ZNK4crab7domains16wrapped_intervalIN4ikos8z_numberEE2atENS_7wrapintE,_ZNK4crab7domains16wrapped_intervalIN4ikos8z_numberEE6is_topEv tier=thorough timeout=900 first_timeout=200
HALF(upper_half, WIFN(15upper_half_lineEb),
  __CPROVER_ensures(HYP_upper_half(*self, sg) ==> wi_has(*ret, g_y)))
/* the linear_interval_solver_impl wrappers */
//@check id=lis_lower_half fn=_ZN4ikos27linear_interval_solver_impl15lower_half_lineIN4crab7domains16wrapped_intervalINS_8z_numberEEEEET_RKS7_b props=C13 vary=WIW:3 vary_thorough=WIW:1,2,3,4 bounded="proof for ALL operands, but only at the enumerated bit widths of this run (WIW/TRP list); other widths 1..64 are not covered"
void _ZN4ikos27linear_interval_solver_impl15lower_half_lineIN4crab7domains16wrapped_intervalINS_8z_numberEEEEET_RKS7_b(WI *ret, WI *self, unsigned char sg)
__CPROVER_requires(FRESH(lis_lower_half, ret, sizeof(WI)) && FRESH(lis_lower_half, self, sizeof(WI)) && GW && GPTS && OKW(*self) && sg <= 1)
__CPROVER_assigns(*ret)
__CPROVER_ensures(OKW(*ret))
__CPROVER_ensures((wi_has(*self, g_x) && BELOW(sg)) ==> wi_has(*ret, g_y));
void h_lis_lower_half(void){ IN(WI, a); GHOST(unsigned char, sg); HG; WI r; _ZN4ikos27linear_interval_solver_impl15lower_half_lineIN4crab7domains16wrapped_intervalINS_8z_numberEEEEET_RKS7_b(&r, &a, sg); REACH; }
//@check id=lis_upper_half fn=_ZN4ikos27linear_interval_solver_impl15upper_half_lineIN4crab7domains16wrapped_intervalINS_8z_numberEEEEET_RKS7_b props=C13 vary=WIW:3 vary_thorough=WIW:1,2,3,4 bounded="proof for ALL operands, but only at the enumerated bit widths of this run (WIW/TRP list); other widths 1..64 are not covered"
void _ZN4ikos27linear_interval_solver_impl15upper_half_lineIN4crab7domains16wrapped_intervalINS_8z_numberEEEEET_RKS7_b(WI *ret, WI *self, unsigned char sg)
__CPROVER_requires(FRESH(lis_upper_half, ret, sizeof(WI)) && FRESH(lis_upper_half, self, sizeof(WI)) && GW && GPTS && OKW(*self) && sg <= 1)
__CPROVER_assigns(*ret)
__CPROVER_ensures(OKW(*ret))
__CPROVER_ensures((wi_has(*self, g_x) && ABOVE(sg)) ==> wi_has(*ret, g_y));
void h_lis_upper_half(void){ IN(WI, a); GHOST(unsigned char, sg); HG; WI r; _ZN4ikos27linear_interval_solver_impl15upper_half_lineIN4crab7domains16wrapped_intervalINS_8z_numberEEEEET_RKS7_b(&r, &a, sg); REACH; }
/* trim_interval(i, j): refine i with x != c when j is the singleton {c}: nothing but c is lost, nothing is gained */
#define KEEPS(a, b) (wi_has(a, g_x) && !(sp_single(b) && g_x == WS(b)))
#define HYP_trim(a, b) (LEMMA(IMP(KEEPS(a, b), wi_has(sp_trim(a, b, GWV), g_x)) && IMP(wi_has(sp_trim(a, b, GWV), g_x), wi_has(a, g_x))))
//@check id=trim fn=_ZN4ikos27linear_interval_solver_impl13trim_intervalIN4crab7domains16wrapped_intervalINS_8z_numberEEEEET_RKS7_S9_ props=C13 vary=WIW:3,8 vary_thorough=WIW:1,2,3,4,5,8 bounded="proof for ALL operands, but only at the enumerated bit widths of this run (WIW/TRP list); other widths 1..64 are not covered"
//@off-check id=trim_sym fn=_ZN4ikos27linear_interval_solver_impl13trim_intervalIN4crab7domains16wrapped_intervalINS_8z_numberEEEEET_RKS7_S9_ tag=trim harness=h_trim props=C13 tier=thorough timeout=900 first_timeout=200
BINOP(trim, _ZN4ikos27linear_interval_solver_impl13trim_intervalIN4crab7domains16wrapped_intervalINS_8z_numberEEEEET_RKS7_S9_,
  __CPROVER_ensures((HYP_trim(*self, *x) && KEEPS(*self, *x)) ==> wi_has(*ret, g_x))
  __CPROVER_ensures((HYP_trim(*self, *x) && wi_has(*ret, g_x)) ==> wi_has(*self, g_x)))

/* ================================================================ splits (real std::vector, <= 2 elements appended; loops unwound to 4) */
#define VB(v) ((v)->f0.f0.f0.f0)
#define VE(v) ((v)->f0.f0.f0.f1)
#define VC(v) ((v)->f0.f0.f0.f2)
#define VN(v) (VB(v) == 0 ? (uint64_t)0 : (uint64_t)(VE(v) - VB(v)))
#define VEMPTY(v) (VB(v) == 0 && VE(v) == 0 && VC(v) == 0)
#define EL(v, i) (VB(v)[i])
/* some element of the vector has g as an element */
static inline bool vec_has(VEC *v, uint64_t g){ uint64_t n = VN(v); return (n >= 1 && wi_has(EL(v, 0), g)) || (n >= 2 && wi_has(EL(v, 1), g)) || (n >= 3 && wi_has(EL(v, 2), g)) || (n >= 4 && wi_has(EL(v, 3), g)); }
static inline bool vec_all_proper(VEC *v, uint64_t w){ uint64_t n = VN(v); return (n < 1 || wi_proper(EL(v, 0), w)) && (n < 2 || wi_proper(EL(v, 1), w)) && (n < 3 || wi_proper(EL(v, 2), w)) && (n < 4 || wi_proper(EL(v, 3), w)); }
static inline bool vec_none_cross_s(VEC *v, uint64_t w){ uint64_t n = VN(v); return (n < 1 || !sp_cross_s(EL(v, 0), w)) && (n < 2 || !sp_cross_s(EL(v, 1), w)) && (n < 3 || !sp_cross_s(EL(v, 2), w)) && (n < 4 || !sp_cross_s(EL(v, 3), w)); }
static inline bool vec_none_cross_u(VEC *v, uint64_t w){ uint64_t n = VN(v); return (n < 1 || !sp_cross_u(EL(v, 0), w)) && (n < 2 || !sp_cross_u(EL(v, 1), w)) && (n < 3 || !sp_cross_u(EL(v, 2), w)) && (n < 4 || !sp_cross_u(EL(v, 3), w)); }
#define SPLIT(tag, fn, MAXN, EXTRA) \
void fn(WI *self, VEC *out) \
__CPROVER_requires(FRESH(tag, self, sizeof(WI)) && FRESH(tag, out, sizeof(VEC)) && GW && GPTS && OKW(*self) && !wi_top(*self) && VEMPTY(out)) \
__CPROVER_assigns(*out) \
__CPROVER_ensures(VN(out) <= (MAXN) && (wi_bot(*self) ? VN(out) == 0 : VN(out) >= 1) && vec_all_proper(out, GWV) && (EXTRA)) \
__CPROVER_ensures(wi_has(*self, g_x) == vec_has(out, g_x)); \
void h_##tag(void){ IN(WI, a); VEC v; HG; fn(&a, &v); REACH; }
/* nsplit: cut at the north pole; no piece crosses it; the pieces cover exactly self.  Not of a top (get_bitwidth: CRAB_ERROR) */
//@check id=signed_split fn=_ZNK4crab7domains16wrapped_intervalIN4ikos8z_numberEE12signed_splitERSt6vectorIS4_SaIS4_EE props=C13 unwind=4 replace=_ZNK4crab7domains16wrapped_intervalIN4ikos8z_numberEEleERKS4_,_ZNK4crab7domains16wrapped_intervalIN4ikos8z_numberEE6is_topEv vary=WIW:3 vary_thorough=WIW:1,2,3,4,8 bounded="proof for ALL operands, but only at the enumerated bit widths of this run (WIW/TRP list); other widths 1..64 are not covered"
SPLIT(signed_split, WIFN(12signed_splitERSt6vectorIS4_SaIS4_EE), 2, vec_none_cross_s(out, GWV))
/* ssplit: cut at the south pole */
//@check id=unsigned_split fn=_ZNK4crab7domains16wrapped_intervalIN4ikos8z_numberEE14unsigned_splitERSt6vectorIS4_SaIS4_EE props=C13 unwind=4 replace=_ZNK4crab7domains16wrapped_intervalIN4ikos8z_numberEEleERKS4_,_ZNK4crab7domains16wrapped_intervalIN4ikos8z_numberEE6is_topEv vary=WIW:3 vary_thorough=WIW:1,2,3,4,8 bounded="proof for ALL operands, but only at the enumerated bit widths of this run (WIW/TRP list); other widths 1..64 are not covered"
SPLIT(unsigned_split, WIFN(14unsigned_splitERSt6vectorIS4_SaIS4_EE), 2, vec_none_cross_u(out, GWV))
/* cut: both; <= 3 pieces of a proper interval.  NOT RUN (see the header): signed_split and unsigned_split are */
//@off-check id=su_split fn=_ZNK4crab7domains16wrapped_intervalIN4ikos8z_numberEE25signed_and_unsigned_splitERSt6vectorIS4_SaIS4_EE props=C13 unwind=5 replace=_ZNK4crab7domains16wrapped_intervalIN4ikos8z_numberEEleERKS4_,_ZNK4crab7domains16wrapped_intervalIN4ikos8z_numberEE6is_topEv vary=WIW:3 vary_thorough=WIW:1,2,3,4 backends=cvc5,minisat first_timeout=400 timeout=600 cost=8
SPLIT(su_split, WIFN(25signed_and_unsigned_splitERSt6vectorIS4_SaIS4_EE), 4, vec_none_cross_s(out, GWV) && vec_none_cross_u(out, GWV))
/* trim_zero: the pieces hold exactly the non-zero elements.  Of a proper interval only (get_bitwidth first: CRAB_ERROR otherwise) */
//@check id=trim_zero fn=_ZNK4crab7domains16wrapped_intervalIN4ikos8z_numberEE9trim_zeroERSt6vectorIS4_SaIS4_EE props=C13 unwind=4 replace=_ZNK4crab7domains16wrapped_intervalIN4ikos8z_numberEE2atENS_7wrapintE,_ZNK4crab7domains16wrapped_intervalIN4ikos8z_numberEEeqERKS4_,_ZNK4crab7domains16wrapped_intervalIN4ikos8z_numberEE6is_topEv vary=WIW:3 vary_thorough=WIW:1,2,3,4,8 bounded="proof for ALL operands, but only at the enumerated bit widths of this run (WIW/TRP list); other widths 1..64 are not covered"
void WIFN(9trim_zeroERSt6vectorIS4_SaIS4_EE)(WI *self, VEC *out)
__CPROVER_requires(FRESH(trim_zero, self, sizeof(WI)) && FRESH(trim_zero, out, sizeof(VEC)) && GW && GPTS && wi_proper(*self, GWV) && VEMPTY(out))
__CPROVER_assigns(*out)
__CPROVER_ensures(VN(out) <= 2 && vec_all_proper(out, GWV) && !vec_has(out, 0))
__CPROVER_ensures((wi_has(*self, g_x) && g_x != 0) == vec_has(out, g_x));
void h_trim_zero(void){ IN(WI, a); VEC v; HG; WIFN(9trim_zeroERSt6vectorIS4_SaIS4_EE)(&a, &v); REACH; }
/* exact_meet: the pieces hold exactly the common elements (an empty vector: no common element) */
//@check id=exact_meet fn=_ZNK4crab7domains16wrapped_intervalIN4ikos8z_numberEE10exact_meetERKS4_RSt6vectorIS4_SaIS4_EE props=C13,C04 unwind=4 replace=_ZNK4crab7domains16wrapped_intervalIN4ikos8z_numberEE2atENS_7wrapintE,_ZNK4crab7domains16wrapped_intervalIN4ikos8z_numberEEeqERKS4_,_ZNK4crab7domains16wrapped_intervalIN4ikos8z_numberEE6is_topEv vary=WIW:3 vary_thorough=WIW:1,2,3,4 backends=cvc5,minisat first_timeout=400 timeout=600 cost=8 bounded="proof for ALL operands, but only at the enumerated bit widths of this run (WIW/TRP list); other widths 1..64 are not covered"
void WIFN(10exact_meetERKS4_RSt6vectorIS4_SaIS4_EE)(WI *self, WI *x, VEC *out)
__CPROVER_requires(REQ2(exact_meet) && FRESH(exact_meet, out, sizeof(VEC)) && VEMPTY(out))
__CPROVER_assigns(*out)
__CPROVER_ensures(VN(out) <= 2)
__CPROVER_ensures((wi_has(*self, g_x) && wi_has(*x, g_x)) == vec_has(out, g_x));
void h_exact_meet(void){ IN(WI, a); IN(WI, b); VEC v; HG; WIFN(10exact_meetERKS4_RSt6vectorIS4_SaIS4_EE)(&a, &b, &v); REACH; }

/* ================================================================ multiplication and division (small widths, bit-precise z_number products) */
#define NOCROSS(i) (wi_proper(i, GWV) && !sp_cross_s(i, GWV) && !sp_cross_u(i, GWV))
#define MULPART(tag, fn) \
void fn(WI *ret, WI *self, WI *x) \
__CPROVER_requires(FRESH(tag, ret, sizeof(WI)) && REQ2(tag) && LOGOFF && wi_proper(*self, GWV) && wi_proper(*x, GWV)) \
__CPROVER_assigns(*ret) \
__CPROVER_ensures(OKW(*ret)) \
__CPROVER_ensures((NOCROSS(*self) && NOCROSS(*x) && wi_has(*self, g_x) && wi_has(*x, g_y)) ==> wi_has(*ret, (g_x * g_y) & M)); \
void h_##tag(void){ IN(WI, a); IN(WI, b); HG; WI r; fn(&r, &a, &b); REACH; }
/* unsigned_mul / signed_mul on pieces that cross no pole (what operator* feeds them) */
//@check id=unsigned_mul fn=_ZNK4crab7domains16wrapped_intervalIN4ikos8z_numberEE12unsigned_mulERKS4_ props=C13 defs=ZM_PRECISE vary=WIW:3 vary_thorough=WIW:1,2,3,4 bounded="proof for ALL operands, but only at the enumerated bit widths of this run (WIW/TRP list); other widths 1..64 are not covered"
MULPART(unsigned_mul, WIFN(12unsigned_mulERKS4_))
//@check id=signed_mul fn=_ZNK4crab7domains16wrapped_intervalIN4ikos8z_numberEE10signed_mulERKS4_ props=C13 defs=ZM_PRECISE vary=WIW:3 vary_thorough=WIW:1,2,3,4 bounded="proof for ALL operands, but only at the enumerated bit widths of this run (WIW/TRP list); other widths 1..64 are not covered"
MULPART(signed_mul, WIFN(10signed_mulERKS4_))
/* operator*: <= 3 x 3 pieces, <= 2 exact-meet results each: loops unwound to 5.  NOT RUN (see the header) */
//@off-check id=mul fn=_ZNK4crab7domains16wrapped_intervalIN4ikos8z_numberEEmlERKS4_ props=C13 defs=ZM_PRECISE unwind=5 timeout=900 first_timeout=600 cost=9 replace=_ZNK4crab7domains16wrapped_intervalIN4ikos8z_numberEEorERKS4_,_ZNK4crab7domains16wrapped_intervalIN4ikos8z_numberEEleERKS4_,_ZNK4crab7domains16wrapped_intervalIN4ikos8z_numberEEeqERKS4_,_ZNK4crab7domains16wrapped_intervalIN4ikos8z_numberEE2atENS_7wrapintE,_ZNK4crab7domains16wrapped_intervalIN4ikos8z_numberEE6is_topEv vary=WIW:2 vary_thorough=WIW:1,2,3
void WIFN(mlERKS4_)(WI *ret, WI *self, WI *x)
__CPROVER_requires(FRESH(mul, ret, sizeof(WI)) && REQ2(mul) && LOGOFF)
__CPROVER_assigns(*ret)
__CPROVER_ensures(OKW(*ret))
__CPROVER_ensures((wi_has(*self, g_x) && wi_has(*x, g_y)) ==> wi_has(*ret, (g_x * g_y) & M));
void h_mul(void){ IN(WI, a); IN(WI, b); HG; WI r; WIFN(mlERKS4_)(&r, &a, &b); REACH; }
/* unsigned_div / signed_div on pieces (divisor without 0) */
//@check id=unsigned_div fn=_ZNK4crab7domains16wrapped_intervalIN4ikos8z_numberEE12unsigned_divERKS4_ props=C13 vary=WIW:3 vary_thorough=WIW:1,2,3,4 bounded="proof for ALL operands, but only at the enumerated bit widths of this run (WIW/TRP list); other widths 1..64 are not covered"
void WIFN(12unsigned_divERKS4_)(WI *ret, WI *self, WI *x)
__CPROVER_requires(FRESH(unsigned_div, ret, sizeof(WI)) && REQ2(unsigned_div) && LOGOFF && wi_proper(*self, GWV) && wi_proper(*x, GWV) && !wi_has(*x, 0) && !sp_cross_u(*self, GWV))
__CPROVER_assigns(*ret)
__CPROVER_ensures(OKW(*ret))
__CPROVER_ensures((wi_has(*self, g_x) && wi_has(*x, g_y)) ==> wi_has(*ret, g_x / (g_y == 0 ? 1 : g_y)));
void h_unsigned_div(void){ IN(WI, a); IN(WI, b); HG; WI r; WIFN(12unsigned_divERKS4_)(&r, &a, &b); REACH; }
static inline uint64_t sdivv(uint64_t x, uint64_t y, uint64_t w){ i128 a = sxv(x, w), b = sxv(y, w); return wrapz(b == 0 ? 0 : ZM_div(a, b), w); }
//@check id=signed_div fn=_ZNK4crab7domains16wrapped_intervalIN4ikos8z_numberEE10signed_divERKS4_ props=C13 defs=ZM_PRECISE vary=WIW:3 vary_thorough=WIW:1,2,3,4 bounded="proof for ALL operands, but only at the enumerated bit widths of this run (WIW/TRP list); other widths 1..64 are not covered"
void WIFN(10signed_divERKS4_)(WI *ret, WI *self, WI *x)
__CPROVER_requires(FRESH(signed_div, ret, sizeof(WI)) && REQ2(signed_div) && LOGOFF && NOCROSS(*self) && NOCROSS(*x) && !wi_has(*x, 0))
__CPROVER_assigns(*ret)
__CPROVER_ensures(OKW(*ret))
__CPROVER_ensures((wi_has(*self, g_x) && wi_has(*x, g_y)) ==> wi_has(*ret, sdivv(g_x, g_y, GWV)));
void h_signed_div(void){ IN(WI, a); IN(WI, b); HG; WI r; WIFN(10signed_divERKS4_)(&r, &a, &b); REACH; }
//@off-check id=udiv fn=_ZNK4crab7domains16wrapped_intervalIN4ikos8z_numberEE4UDivERKS4_ props=C13 unwind=5 timeout=900 first_timeout=600 cost=9 replace=_ZNK4crab7domains16wrapped_intervalIN4ikos8z_numberEEorERKS4_,_ZNK4crab7domains16wrapped_intervalIN4ikos8z_numberEEleERKS4_,_ZNK4crab7domains16wrapped_intervalIN4ikos8z_numberEEeqERKS4_,_ZNK4crab7domains16wrapped_intervalIN4ikos8z_numberEE2atENS_7wrapintE,_ZNK4crab7domains16wrapped_intervalIN4ikos8z_numberEE6is_topEv vary=WIW:2 vary_thorough=WIW:1,2,3
void WIFN(4UDivERKS4_)(WI *ret, WI *self, WI *x)
__CPROVER_requires(FRESH(udiv, ret, sizeof(WI)) && REQ2(udiv) && LOGOFF)
__CPROVER_assigns(*ret)
__CPROVER_ensures(OKW(*ret))
__CPROVER_ensures((wi_has(*self, g_x) && wi_has(*x, g_y) && g_y != 0) ==> wi_has(*ret, g_x / (g_y == 0 ? 1 : g_y)));
void h_udiv(void){ IN(WI, a); IN(WI, b); HG; WI r; WIFN(4UDivERKS4_)(&r, &a, &b); REACH; }
//@off-check id=sdiv fn=_ZNK4crab7domains16wrapped_intervalIN4ikos8z_numberEE4SDivERKS4_ props=C13 defs=ZM_PRECISE unwind=5 timeout=900 first_timeout=600 cost=9 replace=_ZNK4crab7domains16wrapped_intervalIN4ikos8z_numberEEorERKS4_,_ZNK4crab7domains16wrapped_intervalIN4ikos8z_numberEEleERKS4_,_ZNK4crab7domains16wrapped_intervalIN4ikos8z_numberEEeqERKS4_,_ZNK4crab7domains16wrapped_intervalIN4ikos8z_numberEE2atENS_7wrapintE,_ZNK4crab7domains16wrapped_intervalIN4ikos8z_numberEE6is_topEv vary=WIW:2 vary_thorough=WIW:1,2,3
void WIFN(4SDivERKS4_)(WI *ret, WI *self, WI *x)
__CPROVER_requires(FRESH(sdiv, ret, sizeof(WI)) && REQ2(sdiv) && LOGOFF)
__CPROVER_assigns(*ret)
__CPROVER_ensures(OKW(*ret))
__CPROVER_ensures((wi_has(*self, g_x) && wi_has(*x, g_y) && g_y != 0) ==> wi_has(*ret, sdivv(g_x, g_y, GWV)));
void h_sdiv(void){ IN(WI, a); IN(WI, b); HG; WI r; WIFN(4SDivERKS4_)(&r, &a, &b); REACH; }

/* ================================================================ to_interval: the signed values, as a mathematical interval */
#include "../interval/spec.h"
//@check id=to_interval fn=_ZNK4crab7domains16wrapped_intervalIN4ikos8z_numberEE11to_intervalEv props=C13 defs=ZBITS=64 replace=_ZNK4crab7domains16wrapped_intervalIN4ikos8z_numberEE18cross_signed_limitEv,_ZNK4crab7domains16wrapped_intervalIN4ikos8z_numberEE6is_topEv vary=WIW:3,64 vary_thorough=WIW:1,2,3,8,32,64 bounded="proof for ALL operands, but only at the enumerated bit widths of this run (WIW/TRP list); other widths 1..64 are not covered"
void WIFN(11to_intervalEv)(I *ret, WI *self)
__CPROVER_requires(FRESH(to_interval, ret, sizeof(I)) && FRESH(to_interval, self, sizeof(WI)) && GW && GPTS && OKW(*self))
__CPROVER_assigns(*ret)
__CPROVER_ensures(i_ok(*ret))
__CPROVER_ensures(wi_bot(*self) == i_bot(*ret))
__CPROVER_ensures(wi_has(*self, g_x) ==> i_has(*ret, sxv(g_x, GWV)));
void h_to_interval(void){ IN(WI, a); HG; I r; WIFN(11to_intervalEv)(&r, &a); REACH; }
