/* Specification vocabulary for crab::domains::wrapped_interval<ikos::z_number>
 * (include/crab/domains/wrapped_interval_impl.hpp, instantiated by lib/wrapped_interval.cpp).
 * Shared by contracts.c (CBMC) and replay.cpp (native).
 * WI is the compiler's own lowering of the class: f0 = m_start, f1 = m_end (both crab::wrapint = W of
 * units/wrapint/spec.h: f0=_n, f1=_width, f2=_mod), f2 = m_is_bottom, f3 = 7 padding bytes. */
#ifndef WRAPPED_INTERVAL_SPEC_H
#define WRAPPED_INTERVAL_SPEC_H
#include "../wrapint/spec.h"          /* W, msk, w_ok, sxv, wrapz, fshr, FIXW */
typedef struct S_class_crab__domains__wrapped_interval WI;
#define WS(i) ((i).f0.f0)             /* start value */
#define WE(i) ((i).f1.f0)             /* end value */
#define WW(i) ((i).f0.f1)             /* bit width (of both end points) */
/* representation invariant: both end points are well-formed wrapints of the same width; the flag is a bool */
static inline bool wi_ok(WI i){ return w_ok(i.f0) && w_ok(i.f1) && i.f0.f1 == i.f1.f1 && i.f2 <= 1; }
static inline bool wi_bot(WI i){ return i.f2 != 0; }
/* number of elements minus one of a non-bottom interval: (end - start) mod 2^w */
static inline uint64_t wi_span(WI i){ return (WE(i) - WS(i)) & msk(WW(i)); }
/* top: not bottom and the span is the whole circle (whatever the start point and the width) */
static inline bool wi_top(WI i){ return !wi_bot(i) && wi_span(i) == msk(WW(i)); }
/* CONCRETISATION for a w-bit value v: bottom has no element, top has every element, otherwise v is met going
 * clockwise from start no later than end: (v - start) mod 2^w <= (end - start) mod 2^w */
static inline bool wi_has(WI i, uint64_t v){
  if (wi_bot(i)) return false;
  if (wi_top(i)) return true;
  return ((v - WS(i)) & msk(WW(i))) <= wi_span(i); }
/* an operand / result of an operation at width w: well formed and a non-bottom of width w, or a top of ANY width, or the
 * constant bottom() = flagged [0,0] at width 1 (the only way the class builds a bottom).  Tops and bottoms carry no usable width: top() is [0,7] at width 3, a top that
 * arises as [s, s-1] keeps the width it was built at and is handed unchanged through casts by the variable-level domain;
 * every operation tests is_top()/is_bottom() before it looks at the width.  Every constructor establishes this and
 * every operation preserves it (postcondition of every contract). */
static inline bool wi_deftop(WI i){ return i.f2 == 0 && WW(i) == 3 && WS(i) == 0 && WE(i) == 7; }
static inline bool wi_defbot(WI i){ return i.f2 == 1 && WW(i) == 1 && WS(i) == 0 && WE(i) == 0; }
static inline bool wi_okw(WI i, uint64_t w){ return wi_ok(i) && ((WW(i) == w && !wi_bot(i)) || wi_defbot(i) || wi_top(i)); }
/* a proper interval of width w: neither bottom nor top */
static inline bool wi_proper(WI i, uint64_t w){ return wi_ok(i) && !wi_bot(i) && !wi_top(i) && WW(i) == w; }
static inline bool wi_is(WI i, uint64_t w, uint64_t s, uint64_t e){ return wi_ok(i) && !wi_bot(i) && WW(i) == w && WS(i) == s && WE(i) == e; }
/* same abstract element: both bottom, both top, or same width and end points */
static inline bool wi_same(WI a, WI b){
  if (wi_bot(a) || wi_bot(b)) return wi_bot(a) && wi_bot(b);
  if (wi_top(a) || wi_top(b)) return wi_top(a) && wi_top(b);
  return WW(a) == WW(b) && WS(a) == WS(b) && WE(a) == WE(b); }
/* number of elements (as u128: 2^64 for top at width 64); w is the width of the operation */
static inline u128 wi_card(WI i, uint64_t w){ return wi_bot(i) ? 0 : wi_top(i) ? ((u128)1 << w) : (u128)wi_span(i) + 1; }
/* set inclusion of the concretisations, decided on the representation (same width w for proper intervals):
 * a is inside b iff a is bottom, b is top, or start(a) is in b and a's arc from there does not run past b's end */
static inline bool wi_subset(WI a, WI b){
  if (wi_bot(a) || wi_top(b)) return true;
  if (wi_bot(b) || wi_top(a)) return false;
  uint64_t m = msk(WW(a)), off = (WS(a) - WS(b)) & m;
  return off <= wi_span(b) && wi_span(a) <= wi_span(b) - off; }
/* ---- building spec values */
static inline W mkw(uint64_t w, uint64_t n){ W x; x.f0 = n; x.f1 = w; x.f2 = (w >= 64 ? 0 : ((uint64_t)1 << w)); return x; }
static inline WI mkwi(uint64_t w, uint64_t s, uint64_t e){ WI i; i.f0 = mkw(w, s); i.f1 = mkw(w, e); i.f2 = 0;
  i.f3.a[0] = 0; i.f3.a[1] = 0; i.f3.a[2] = 0; i.f3.a[3] = 0; i.f3.a[4] = 0; i.f3.a[5] = 0; i.f3.a[6] = 0; return i; }
static inline WI sp_top(void){ return mkwi(3, 0, 7); }
static inline WI sp_bot(void){ WI i = mkwi(1, 0, 0); i.f2 = 1; return i; }
static inline uint64_t smaxv(uint64_t w){ return msk(w) >> 1; }
static inline uint64_t sminv(uint64_t w){ return (uint64_t)1 << (w - 1); }
/* arithmetic shift right of a w-bit value by k < w (k = w allowed: sign fill) */
static inline uint64_t ashrv(uint64_t n, uint64_t k, uint64_t w){ return wrapz(fshr(sxv(n, w), k >= 127 ? 127 : k), w); }
/* ---- spec functions: the algorithms of the APLAS'12 paper as the class implements them, on operands of width w.
 * They are NOT the property: the property is soundness w.r.t. wi_has; a spec function only NAMES the result so that the
 * arithmetic fact "this result is sound" can be discharged separately by word-level solvers (lemmas/wi_*.smt2, where
 * the same functions are transcribed over native w-bit vectors) and what is left for CBMC on the real code is an
 * equivalence check.  At widths <= 4 soundness is in addition proved directly on the real code, without them. */
static inline bool sp_leq(WI a, WI b){
  if (wi_top(b) || wi_bot(a)) return true;
  if (wi_bot(b) || wi_top(a)) return false;
  if (WS(a) == WS(b) && WE(a) == WE(b)) return true;
  return wi_has(b, WS(a)) && wi_has(b, WE(a)) && (!wi_has(a, WS(b)) || !wi_has(a, WE(b))); }
static inline bool sp_eq(WI a, WI b){ return sp_leq(a, b) && sp_leq(b, a); }
static inline WI sp_join(WI a, WI b, uint64_t w){
  if (sp_leq(a, b)) return b;
  if (sp_leq(b, a)) return a;
  uint64_t m = msk(w);
  bool b_as = wi_has(b, WS(a)), b_ae = wi_has(b, WE(a)), a_bs = wi_has(a, WS(b)), a_be = wi_has(a, WE(b));
  if (b_as && b_ae && a_bs && a_be) return sp_top();
  if (b_ae && a_bs) return mkwi(w, WS(a), WE(b));
  if (a_be && b_as) return mkwi(w, WS(b), WE(a));
  uint64_t span_a = (WS(b) - WE(a)) & m, span_b = (WS(a) - WE(b)) & m;       /* the two gaps */
  if (span_a < span_b || (span_a == span_b && WS(a) <= WS(b))) return mkwi(w, WS(a), WE(b));
  return mkwi(w, WS(b), WE(a)); }
static inline WI sp_meet(WI a, WI b, uint64_t w){
  if (sp_leq(a, b)) return a;
  if (sp_leq(b, a)) return b;
  if (wi_has(b, WS(a))) {
    if (wi_has(a, WS(b))) {
      uint64_t span_a = wi_span(a), span_b = wi_span(b);
      if (span_a < span_b || (span_a == span_b && WS(a) <= WS(b))) return a;
      return b; }
    if (wi_has(b, WE(a))) return a;
    return mkwi(w, WS(a), WE(b)); }
  if (wi_has(a, WS(b))) {
    if (wi_has(a, WE(b))) return b;
    return mkwi(w, WS(b), WE(a)); }
  return sp_bot(); }
/* widening (growth rate 8).  max is the span above which the interval jumps to top: 2^(w-3), or 2^(w-1) when w <= 3.
 * In the last case (b holds both ends of a, neither is included in the other) the join j is b or top; the extension is
 * joined to j: joining it to b, as the code did, loses the elements of a when a and b together cover the circle. */
static inline uint64_t sp_widen_max(uint64_t w){ return w > 3 ? (uint64_t)1 << (w - 3) : (uint64_t)1 << (w - 1); }
static inline WI sp_widen(WI a, WI b, uint64_t w){
  if (wi_bot(a)) return b;
  if (wi_bot(b)) return a;
  if (wi_top(a) || wi_top(b)) return sp_top();
  if (sp_leq(b, a)) return a;
  uint64_t m = msk(w);
  if (wi_span(a) >= sp_widen_max(w)) return sp_top();
  WI j = sp_join(a, b, w);
  if (sp_eq(j, mkwi(w, WS(a), WE(b)))) return sp_join(j, mkwi(w, WS(a), (WE(a) * 8 - WS(a) * 7 + 7) & m), w);
  if (sp_eq(j, mkwi(w, WS(b), WE(a)))) return sp_join(j, mkwi(w, (WS(a) * 8 - WE(a) * 7 - 7) & m, WE(a)), w);
  if (wi_has(b, WS(a)) && wi_has(b, WE(a))) return sp_join(j, mkwi(w, WS(b), (WS(b) + ((WE(a) * 8 - WS(a) * 8 + 7) & m)) & m), w);
  return sp_top(); }
static inline bool sp_overflow(WI a, WI b, uint64_t m){ uint64_t da = wi_span(a), db = wi_span(b); return ((((db + da) & m) + 1) & m) <= db; }
static inline WI sp_add(WI a, WI b, uint64_t w){
  if (wi_bot(a) || wi_bot(b)) return sp_bot();
  if (wi_top(a) || wi_top(b)) return sp_top();
  uint64_t m = msk(w);
  if (sp_overflow(a, b, m)) return sp_top();                     /* the two arcs together cover the circle */
  return mkwi(w, (WS(a) + WS(b)) & m, (WE(a) + WE(b)) & m); }
static inline WI sp_sub(WI a, WI b, uint64_t w){
  if (wi_bot(a) || wi_bot(b)) return sp_bot();
  if (wi_top(a) || wi_top(b)) return sp_top();
  uint64_t m = msk(w);
  if (sp_overflow(a, b, m)) return sp_top();
  return mkwi(w, (WS(a) - WE(b)) & m, (WE(a) - WS(b)) & m); }
static inline WI sp_neg(WI a, uint64_t w){
  if (wi_bot(a)) return sp_bot();
  if (wi_top(a)) return sp_top();
  uint64_t m = msk(w);
  return mkwi(w, (0 - WE(a)) & m, (0 - WS(a)) & m); }
/* crosses the north pole (0111..1 -> 1000..0) / the south pole (1111..1 -> 0000..0); a is a proper interval */
static inline bool sp_cross_s(WI a, uint64_t w){ return sp_leq(mkwi(w, smaxv(w), sminv(w)), a); }
static inline bool sp_cross_u(WI a, uint64_t w){ return sp_leq(mkwi(w, msk(w), 0), a); }
/* Trunc to the k low bits, 1 <= k < w */
static inline WI sp_trunc(WI a, uint64_t k, uint64_t w){
  if (wi_bot(a) || wi_top(a)) return a;
  uint64_t m = msk(w), hs = ashrv(WS(a), k, w), he = ashrv(WE(a), k, w), ls = WS(a) & msk(k), le = WE(a) & msk(k);
  if (hs == he) { if (ls <= le) return mkwi(k, ls, le); }
  else if (((hs + 1) & m) == he) { if (!(ls <= le)) return mkwi(k, ls, le); }
  return sp_top(); }
/* shifts by a constant k, 0 < k < w (Shl), 0 <= k < w (LShr, AShr) */
static inline WI sp_shl(WI a, uint64_t k, uint64_t w){
  if (wi_bot(a) || wi_top(a) || k == 0) return a;
  WI y = sp_trunc(a, w - k, w);
  if (wi_top(y)) return sp_top();
  return mkwi(w, (WS(a) << k) & msk(w), (WE(a) << k) & msk(w)); }
static inline WI sp_lshr(WI a, uint64_t k, uint64_t w){
  if (wi_bot(a) || wi_top(a)) return a;
  if (sp_cross_u(a, w)) return sp_top();
  return mkwi(w, WS(a) >> k, WE(a) >> k); }
static inline WI sp_ashr(WI a, uint64_t k, uint64_t w){
  if (wi_bot(a) || wi_top(a)) return a;
  if (sp_cross_s(a, w)) return sp_top();
  return mkwi(w, ashrv(WS(a), k, w), ashrv(WE(a), k, w)); }
/* half lines in the signed (sg != 0) or unsigned order */
static inline WI sp_lower(WI a, bool sg, uint64_t w){
  if (wi_bot(a) || wi_top(a)) return a;
  if (wi_has(a, sg ? smaxv(w) : msk(w))) return sp_top();
  return mkwi(w, sg ? sminv(w) : 0, WE(a)); }
static inline WI sp_upper(WI a, bool sg, uint64_t w){
  if (wi_bot(a) || wi_top(a)) return a;
  if (wi_has(a, sg ? sminv(w) : 0)) return sp_top();
  return mkwi(w, WS(a), sg ? smaxv(w) : msk(w)); }
/* trim_interval(i, j): remove the value of the singleton j from an end of i */
static inline bool sp_single(WI a){ return !wi_bot(a) && !wi_top(a) && WS(a) == WE(a); }
static inline WI sp_trim(WI a, WI b, uint64_t w){
  if (wi_bot(a) || wi_top(a) || !sp_single(b)) return a;
  uint64_t k = WS(b), m = msk(w);
  if (WS(a) == k) return sp_single(a) ? sp_bot() : mkwi(w, (k + 1) & m, WE(a));
  if (WE(a) == k) return sp_single(a) ? sp_bot() : mkwi(w, WS(a), (k - 1) & m);
  return a; }
/* signed comparison of w-bit values */
static inline bool sle(uint64_t x, uint64_t y, uint64_t w){ return sxv(x, w) <= sxv(y, w); }
#endif
