/* Specification vocabulary for crab::domains::wrapped_interval<ikos::z_number>
 * (include/crab/domains/wrapped_interval_impl.hpp, instantiated by lib/wrapped_interval.cpp).
 * Shared by contracts.c (CBMC) and replay.cpp (native).
 * WI is the compiler's own lowering of the class: f0 = m_start, f1 = m_end (both crab::wrapint = W of
 * units/wrapint/spec.h: f0=_n, f1=_width, f2=_mod), f2 = m_is_bottom, f3 = 7 padding bytes. */
#ifndef WRAPPED_INTERVAL_SPEC_H
#define WRAPPED_INTERVAL_SPEC_H
#include "../wrapint/spec.h"          /* W, msk, w_ok, sxv, wrapz, fshr, FIXW */
typedef struct S_class_crab__domains__wrapped_interval WI;
#define WS(i) ((i).f0.f0)             /* start value */
#define WE(i) ((i).f1.f0)             /* end value */
#define WW(i) ((i).f0.f1)             /* bit width (of both end points) */
/* representation invariant: both end points are well-formed wrapints of the same width; the flag is a bool */
static inline bool wi_ok(WI i){ return w_ok(i.f0) && w_ok(i.f1) && i.f0.f1 == i.f1.f1 && i.f2 <= 1; }
static inline bool wi_bot(WI i){ return i.f2 != 0; }
/* number of elements minus one of a non-bottom interval: (end - start) mod 2^w */
static inline uint64_t wi_span(WI i){ return (WE(i) - WS(i)) & msk(WW(i)); }
/* top: not bottom and the span is the whole circle (whatever the start point and the width) */
static inline bool wi_top(WI i){ return !wi_bot(i) && wi_span(i) == msk(WW(i)); }
/* CONCRETISATION for a w-bit value v: bottom has no element, top has every element, otherwise v is met going
 * clockwise from start no later than end: (v - start) mod 2^w <= (end - start) mod 2^w */
static inline bool wi_has(WI i, uint64_t v){
  if (wi_bot(i)) return false;
  if (wi_top(i)) return true;
  return ((v - WS(i)) & msk(WW(i))) <= wi_span(i); }
/* an operand / result of an operation at width w: well formed, and of width w (any start, end, flag) or one of the
 * two width-less constants the class builds: top() = [0,7] at width 3, bottom() = flagged [0,0] at width 1.
 * Every constructor establishes this and every operation preserves it (it is a postcondition of every contract). */
static inline bool wi_deftop(WI i){ return i.f2 == 0 && WW(i) == 3 && WS(i) == 0 && WE(i) == 7; }
static inline bool wi_defbot(WI i){ return i.f2 == 1 && WW(i) == 1 && WS(i) == 0 && WE(i) == 0; }
static inline bool wi_okw(WI i, uint64_t w){ return wi_ok(i) && (WW(i) == w || wi_deftop(i) || wi_defbot(i)); }
/* a proper interval of width w: neither bottom nor top */
static inline bool wi_proper(WI i, uint64_t w){ return wi_ok(i) && !wi_bot(i) && !wi_top(i) && WW(i) == w; }
static inline bool wi_is(WI i, uint64_t w, uint64_t s, uint64_t e){ return wi_ok(i) && !wi_bot(i) && WW(i) == w && WS(i) == s && WE(i) == e; }
/* same abstract element: both bottom, both top, or same width and end points */
static inline bool wi_same(WI a, WI b){
  if (wi_bot(a) || wi_bot(b)) return wi_bot(a) && wi_bot(b);
  if (wi_top(a) || wi_top(b)) return wi_top(a) && wi_top(b);
  return WW(a) == WW(b) && WS(a) == WS(b) && WE(a) == WE(b); }
/* number of elements (as u128: 2^64 for top at width 64); w is the width of the operation */
static inline u128 wi_card(WI i, uint64_t w){ return wi_bot(i) ? 0 : wi_top(i) ? ((u128)1 << w) : (u128)wi_span(i) + 1; }
/* set inclusion of the concretisations, decided on the representation (same width w for proper intervals):
 * a is inside b iff a is bottom, b is top, or start(a) is in b and a's arc from there does not run past b's end */
static inline bool wi_subset(WI a, WI b){
  if (wi_bot(a) || wi_top(b)) return true;
  if (wi_bot(b) || wi_top(a)) return false;
  uint64_t m = msk(WW(a)), off = (WS(a) - WS(b)) & m;
  return off <= wi_span(b) && wi_span(a) <= wi_span(b) - off; }
#endif
