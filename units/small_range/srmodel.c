/* Run-time model additions for unit small_range (linked after models/rt.c).
 * lib/small_range.cpp reads the stored variable through boost::optional<index_t>::value(), which (in the
 * -fno-exceptions build: BOOST_NO_EXCEPTIONS) calls the user hook boost::throw_exception(bad_optional_access)
 * on an empty optional.  Reaching it is an OBLIGATION (never legal under the representation invariant);
 * the std::logic_error base of the exception object is an effect-free stub. */
void _ZN5boost15throw_exceptionERKSt9exception(void *e){
  __CPROVER_assert(0, "boost::bad_optional_access unreachable: value() is only called on an initialized m_value");
  __CPROVER_assume(0); }
void _ZNSt11logic_errorC2EPKc(void *self, const char *what){}
void _ZNSt11logic_errorD2Ev(void *self){}
const char *_ZNKSt11logic_error4whatEv(void *self){ return 0; }
