// Forcing TU for unit `small_range`: no logic of its own.  lib/small_range.cpp exactly as it is (reached through the
// include path of the working tree, hence follows CRAB_REPO), plus one explicit instantiation of the header-only
// member template small_range::increment<VariableName> for a trivial variable-name type whose index() returns
// the stored identity (crab's variable names are `indexable`: index() is their identity).
#include <../lib/small_range.cpp>
struct VarName {
  ikos::index_t m_id;
  ikos::index_t index() const { return m_id; }
};
template crab::domains::small_range crab::domains::small_range::increment<VarName>(const VarName &);
