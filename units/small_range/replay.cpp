// Native replay for unit small_range: the real crab::domains::small_range of the working tree, the same POST_*
// macros as the contracts (spec.h), evaluated on (kind, variable) pairs read from the real objects.
#include <crab/domains/small_range.hpp>
#include <crab/support/os.hpp>
#include "replay.h"
#include "spec.h"
using crab::domains::small_range;
struct VarName { ikos::index_t m_id; ikos::index_t index() const { return m_id; } };
// an object with exactly the witness fields (kind, optional variable), built through the private constructors
static small_range mk(const Wit &w, const char *n) {
  uint32_t k = (uint32_t)w.u(std::string(n) + ".f1"); bool init = w.u(std::string(n) + ".f2.f0.f0") != 0; uint64_t v = w.u(std::string(n) + ".f2.f0.f1");
  small_range r = small_range::bottom();
  r.m_kind = static_cast<small_range::kind_t>(k);
  if (init) r.m_value = (ikos::index_t)v; else r.m_value = boost::none;
  crab::outs() << "  " << n << " = kind " << k << " "; if (k <= 5 && (init || !(k == 2 || k == 3))) crab::outs() << r; crab::outs() << "\n";
  return r; }
static uint32_t K_(const small_range &s) { return (uint32_t)s.m_kind; }
static uint64_t V_(const small_range &s) { return s.m_value ? (uint64_t)*s.m_value : 0; }
static bool ok_(const small_range &s) { return k_ok(K_(s), s.m_value ? 1 : 0); }
static small_range res(const small_range &s) { crab::outs() << "  result = " << s << "\n"; return s; }
#define PAIR(s) K_(s), V_(s)
#define X(M, ...) M(__VA_ARGS__)
#define GH uint64_t g_n = wit.u("g_n"), g_v = wit.u("g_v"); printf("  state: n=%llu v=%llu\n", (unsigned long long)g_n, (unsigned long long)g_v)
#define RBIN(id, EXPR, POST) REPLAY(id) { small_range a = mk(wit, "a"), b = mk(wit, "b"); GH; small_range r = res(EXPR); return ok_(r) && X(POST, PAIR(r), PAIR(a), PAIR(b), g_n, g_v); }
RBIN(sr_join, a | b, POST_join) RBIN(sr_meet, a & b, POST_meet) RBIN(sr_widen, a || b, POST_widen) RBIN(sr_narrow, a && b, POST_narrow)
REPLAY(sr_join_asg) { small_range a = mk(wit, "a"), b = mk(wit, "b"), o = a; GH; a |= b; res(a); return ok_(a) && (!(k_has(PAIR(o), g_n, g_v) || k_has(PAIR(b), g_n, g_v)) || k_has(PAIR(a), g_n, g_v)); }
REPLAY(sr_leq) { small_range a = mk(wit, "a"), b = mk(wit, "b"); GH; bool rv = a <= b; printf("  result = %d\n", rv); return X(POST_leq, rv, PAIR(a), PAIR(b), g_n, g_v); }
REPLAY(sr_leq_refl) { small_range a = mk(wit, "a"); return a <= a; }
REPLAY(sr_eq) { small_range a = mk(wit, "a"), b = mk(wit, "b"); bool rv = a == b; printf("  result = %d\n", rv); return X(POST_eq, rv, PAIR(a), PAIR(b)); }
#define RQ(id, CALL, POST) REPLAY(id) { small_range a = mk(wit, "a"); GH; bool rv = a.CALL(); printf("  result = %d\n", rv); return X(POST, rv, PAIR(a), g_n, g_v); }
RQ(sr_is_bottom, is_bottom, POST_is_bottom) RQ(sr_is_top, is_top, POST_is_top) RQ(sr_is_zero, is_zero, POST_is_zero) RQ(sr_is_one, is_one, POST_is_one)
REPLAY(sr_agree) { small_range a = mk(wit, "a"); return a.make_bottom().is_bottom() && !a.make_bottom().is_top() && a.make_top().is_top() && !a.make_top().is_bottom()
  && small_range::bottom().is_bottom() && small_range::top().is_top(); }
REPLAY(sr_increment) { small_range a = mk(wit, "a"), o = a; GH; unsigned in = (unsigned)wit.u("g_in"); VarName v{(ikos::index_t)wit.u("v.f0")};
  printf("  increment(%llu), already a member: %u\n", (unsigned long long)v.m_id, in);
  small_range r = res(a.increment(v)); return ok_(a) && ok_(r) && k_same(PAIR(r), PAIR(a)) && POST_increment(K_(a), V_(a), K_(o), V_(o), g_n, g_v, in, (uint64_t)v.m_id); }
REPLAY(sr_bottom) { return K_(res(small_range::bottom())) == SR_BOT; }
REPLAY(sr_top) { return K_(res(small_range::top())) == SR_ZERO_OR_MORE; }
REPLAY(sr_zero) { return K_(res(small_range::zero())) == SR_ZERO; }
REPLAY(sr_one_or_more) { return K_(res(small_range::oneOrMore())) == SR_ONE_OR_MORE; }
int main(int argc, char **argv) { return replay_main(argc, argv); }
