/* Specification vocabulary for crab::domains::small_range (include/crab/domains/small_range.hpp,
 * lib/small_range.cpp).  Shared by contracts.c (CBMC) and replay.cpp (native).
 * SR is the compiler's own lowering of the class: f0 = lattice_domain_api base (v-table pointer),
 * f1 = m_kind (Bottom 0, ExactlyZero 1, ExactlyOne 2, ZeroOrOne 3, ZeroOrMore 4, OneOrMore 5),
 * f2 = m_value : boost::optional<index_t> = { f0 = { f0 = m_initialized, f1 = the value } }.
 *
 * Stated meaning (header): "an abstract counter for variables ... to count how many variables satisfy a
 * property" (region_domain: the references into a region):
 *   0: the counter is zero;  1(V): it is one and the variable is V;  [0,1](V): zero or one, if one the variable
 *   is V;  [1,+oo]: one or more;  [0,+oo]: zero or more (top);  Bottom: no state.
 * Concretisation: a concrete state is a finite set S of variables observed as the pair (n, v): n = |S| and,
 * when n = 1, v = the identity of its only member (v is irrelevant otherwise). */
#ifndef SMALL_RANGE_SPEC_H
#define SMALL_RANGE_SPEC_H
#include "verif.h"
#include "unit_types.h"
typedef struct S_class_crab__domains__small_range SR;
#define SR_BOT 0u
#define SR_ZERO 1u
#define SR_ONE 2u
#define SR_ZERO_OR_ONE 3u
#define SR_ZERO_OR_MORE 4u
#define SR_ONE_OR_MORE 5u
#define SK(p) ((p)->f1)
#define SINIT(p) ((p)->f2.f0.f0)
#define SVAL(p) ((p)->f2.f0.f1)
#ifdef __cplusplus
#define SR_VPTR_OK(x) 1
#else
/* dynamic type small_range: the v-table pointer is the address point of the class's v-table (slot 2) */
extern const struct anon_82f23bd9d1 _ZTVN4crab7domains11small_rangeE;   /* emitted const by ll2c: not havocked by dfcc */
#define SR_VPTR ((fnp_ce3e3ea476 *)&_ZTVN4crab7domains11small_rangeE.f0.a[2])
#define SR_VPTR_OK(x) ((x).f0.f0 == SR_VPTR)
#endif
/* ---- abstract values as (kind, variable) pairs; the variable is meaningful for 1(V) and [0,1](V) only */
static inline bool k_named(uint32_t k){ return k == SR_ONE || k == SR_ZERO_OR_ONE; }
/* representation invariant: a legal kind; m_value is set exactly for 1(V) and [0,1](V) (what the two private
 * constructors, set_to_* and increment establish, and what operator== relies on) */
static inline bool k_ok(uint32_t k, uint8_t init){ return k <= 5u && init <= 1 && ((init != 0) == k_named(k)); }
static inline bool sr_ok(SR x){ return k_ok(x.f1, x.f2.f0.f0) && SR_VPTR_OK(x); }
/* concretisation */
static inline bool k_has(uint32_t k, uint64_t V, uint64_t n, uint64_t v){
  return k == SR_ZERO_OR_MORE || (k == SR_ZERO && n == 0) || (k == SR_ONE && n == 1 && v == V)
      || (k == SR_ZERO_OR_ONE && (n == 0 || (n == 1 && v == V))) || (k == SR_ONE_OR_MORE && n >= 1); }
static inline bool k_same(uint32_t ka, uint64_t Va, uint32_t kb, uint64_t Vb){ return ka == kb && (!k_named(ka) || Va == Vb); }
/* a variable different from both arguments */
static inline uint64_t other_var(uint64_t a, uint64_t b){ return (a != 0 && b != 0) ? 0 : (a != 1 && b != 1) ? 1 : 2; }
/* semantic inclusion: membership depends on n only through n = 0 / n = 1 / n >= 2 and on v only through equality
 * with the stored variables, so five points represent all states */
static inline bool k_imp(uint32_t ka, uint64_t Va, uint32_t kb, uint64_t Vb, uint64_t n, uint64_t v){ return !k_has(ka, Va, n, v) || k_has(kb, Vb, n, v); }
static inline bool k_leq(uint32_t ka, uint64_t Va, uint32_t kb, uint64_t Vb){
  return k_imp(ka, Va, kb, Vb, 0, 0) && k_imp(ka, Va, kb, Vb, 1, Va) && k_imp(ka, Va, kb, Vb, 1, Vb)
      && k_imp(ka, Va, kb, Vb, 1, other_var(Va, Vb)) && k_imp(ka, Va, kb, Vb, 2, 0); }
static inline bool k_empty(uint32_t k){ return k == SR_BOT; }
/* height in the lattice of the header's diagram: Bottom 0; 0 and 1(V) 1; [0,1](V) and [1,+oo] 2; [0,+oo] 3 */
static inline int k_rank(uint32_t k){ return k == SR_BOT ? 0 : (k == SR_ZERO || k == SR_ONE) ? 1 : (k == SR_ZERO_OR_ONE || k == SR_ONE_OR_MORE) ? 2 : 3; }

/* ---- postconditions; (k, V) triples: r = result, a = self, b = other; (n, v) a concrete state */
#define POST_is_bottom(rv, ka, Va, n, v) (((rv) != 0) == ((ka) == SR_BOT) && ((rv) ? !k_has(ka, Va, n, v) : k_has(ka, Va, (ka) == SR_ZERO || (ka) == SR_ZERO_OR_ONE || (ka) == SR_ZERO_OR_MORE ? 0 : 1, Va)))
#define POST_is_top(rv, ka, Va, n, v)    (((rv) != 0) == ((ka) == SR_ZERO_OR_MORE) && (!(rv) || k_has(ka, Va, n, v)))
#define POST_is_zero(rv, ka, Va, n, v)   (((rv) != 0) == ((ka) == SR_ZERO) && (!(rv) || k_has(ka, Va, n, v) == ((n) == 0)))
#define POST_is_one(rv, ka, Va, n, v)    (((rv) != 0) == ((ka) == SR_ONE) && (!(rv) || k_has(ka, Va, n, v) == ((n) == 1 && (v) == (Va))))
/* inclusion: yes on equal values, with bottom on the left, with top on the right; yes => every state of the left
 * is a state of the right; and exactly the order of the header's diagram (= inclusion of concretisations) */
#define POST_leq(rv, ka, Va, kb, Vb, n, v) ((((rv) && k_has(ka, Va, n, v)) ? k_has(kb, Vb, n, v) : 1) && (!k_empty(ka) || (rv)) && ((kb) != SR_ZERO_OR_MORE || (rv)) \
                                            && (!k_same(ka, Va, kb, Vb) || (rv)) && ((rv) != 0) == k_leq(ka, Va, kb, Vb))
#define POST_eq(rv, ka, Va, kb, Vb)      (((rv) != 0) == k_same(ka, Va, kb, Vb))
#define POST_join(kr, Vr, ka, Va, kb, Vb, n, v)  (((k_has(ka, Va, n, v) || k_has(kb, Vb, n, v)) ? k_has(kr, Vr, n, v) : 1) && k_leq(ka, Va, kr, Vr) && k_leq(kb, Vb, kr, Vr))
#define POST_meet(kr, Vr, ka, Va, kb, Vb, n, v)  ((k_has(ka, Va, n, v) && k_has(kb, Vb, n, v)) ? k_has(kr, Vr, n, v) : 1)
/* widening (= join): upper bound, stationary on an included argument, otherwise strictly higher (height <= 3) */
#define POST_widen(kr, Vr, ka, Va, kb, Vb, n, v) (POST_join(kr, Vr, ka, Va, kb, Vb, n, v) && (k_leq(kb, Vb, ka, Va) ? k_same(kr, Vr, ka, Va) : k_rank(kr) > k_rank(ka)) && k_rank(kr) <= 3)
/* narrowing (= meet) of a decreasing pair keeps the second argument and stays below the first */
#define POST_narrow(kr, Vr, ka, Va, kb, Vb, n, v) (((k_leq(kb, Vb, ka, Va) && k_has(kb, Vb, n, v)) ? k_has(kr, Vr, n, v) : 1) && (k_leq(kb, Vb, ka, Va) ? k_leq(kr, Vr, ka, Va) : 1))
/* increment(x): S := S u {x}.  Before: (n, v) with `in` = (x in S); consistency of the observation: in => n >= 1,
 * n = 1 => (in <=> v = x).  After: n' = in ? n : n + 1, and when n' = 1 the only member is x. */
#define INC_CONSISTENT(n, v, in, x) ((in) <= 1 && (n) < ((uint64_t)1 << 62) && (!(in) || (n) >= 1) && ((n) != 1 || (((in) != 0) == ((v) == (x)))))
#define POST_increment(kr, Vr, ka, Va, n, v, in, x) ((k_has(ka, Va, n, v) && INC_CONSISTENT(n, v, in, x)) ? k_has(kr, Vr, (in) ? (n) : (n) + 1, x) : 1)
#endif
