/* Contracts for crab::domains::small_range (lib/small_range.cpp, increment<> from small_range.hpp) — properties
 * C08 (increment over-approximates S := S u {x}; join/meet contain union/intersection), C04 (inclusion test,
 * join, meet, is_bottom/is_top agree with the concretisation), C05 (widening = join: upper bound, stationary /
 * strictly higher in a lattice of height 3; narrowing = meet keeps its second argument).
 * Loop-free: every check is a full proof over all abstract values (6 kinds, arbitrary 64-bit variable identities)
 * and all concrete states (n, v) of the ghost points. */
#include "spec.h"
typedef struct S_struct_VarName VN;
uint64_t g_n, g_v;                   /* ghost concrete state: |S| and the only member when |S| = 1 */
unsigned char g_in;                  /* ghost for increment(x): x is already a member of S */
#define HGHOSTS GHOSTG(uint64_t, g_n); GHOSTG(uint64_t, g_v); GHOSTG(unsigned char, g_in)
/* an arbitrary input object of dynamic type small_range (the v-table pointer is what the constructors store) */
#define INSR(a) SR a; a.f0.f0 = SR_VPTR; static SR wit_##a; wit_##a = a
#define F1(tag) FRESH(tag, self, sizeof(SR))
#define F2(tag) (FRESH(tag, self, sizeof(SR)) && FRESH(tag, x, sizeof(SR)))
#define F3(tag) (FRESH(tag, ret, sizeof(SR)) && F2(tag))
#define RV __CPROVER_return_value
#define A SK(self), SVAL(self)
#define B SK(x), SVAL(x)
#define R SK(ret), SVAL(ret)
/* A, B, R stand for two macro arguments each: X(M, args) expands them before M is applied */
#define X(M, ...) M(__VA_ARGS__)

/* ---------------------------------------------------------------- constructors and factories */
/* small_range(kind): the kinds without a variable (the other two are a CRAB_ERROR: excluded by the precondition) */
//@check id=sr_ctor_kind fn=_ZN4crab7domains11small_rangeC2ENS1_6kind_tE props=C08,C04
void _ZN4crab7domains11small_rangeC2ENS1_6kind_tE(SR *self, uint32_t k)
__CPROVER_requires(F1(sr_ctor_kind) && k <= 5u && !k_named(k))
__CPROVER_assigns(*self)
__CPROVER_ensures(sr_ok(*self) && SK(self) == k);
void h_sr_ctor_kind(void){ SR r; GHOST(uint32_t, k); _ZN4crab7domains11small_rangeC2ENS1_6kind_tE(&r, k); REACH; }
/* small_range(kind, V): 1(V) and [0,1](V) */
//@check id=sr_ctor_kind_var fn=_ZN4crab7domains11small_rangeC2ENS1_6kind_tEm props=C08
void _ZN4crab7domains11small_rangeC2ENS1_6kind_tEm(SR *self, uint32_t k, uint64_t v)
__CPROVER_requires(F1(sr_ctor_kind_var) && k_named(k))
__CPROVER_assigns(*self)
__CPROVER_ensures(sr_ok(*self) && SK(self) == k && SVAL(self) == v);
void h_sr_ctor_kind_var(void){ SR r; GHOST(uint32_t, k); GHOST(uint64_t, v); _ZN4crab7domains11small_rangeC2ENS1_6kind_tEm(&r, k, v); REACH; }
/* small_range(): top */
//@check id=sr_ctor_default fn=_ZN4crab7domains11small_rangeC2Ev props=C08,C04
void _ZN4crab7domains11small_rangeC2Ev(SR *self)
__CPROVER_requires(F1(sr_ctor_default))
__CPROVER_assigns(*self)
__CPROVER_ensures(sr_ok(*self) && SK(self) == SR_ZERO_OR_MORE);
void h_sr_ctor_default(void){ SR r; _ZN4crab7domains11small_rangeC2Ev(&r); REACH; }
//@check id=sr_ctor_copy fn=_ZN4crab7domains11small_rangeC2ERKS1_ props=C08,C04
void _ZN4crab7domains11small_rangeC2ERKS1_(SR *self, SR *x)
__CPROVER_requires(F2(sr_ctor_copy) && sr_ok(*x))
__CPROVER_assigns(*self)
__CPROVER_ensures(sr_ok(*self) && X(k_same, A, B));
void h_sr_ctor_copy(void){ SR r; INSR(b); _ZN4crab7domains11small_rangeC2ERKS1_(&r, &b); REACH; }
/* move assignment (used by |=) */
//@check id=sr_assign_move fn=_ZN4crab7domains11small_rangeaSEOS1_ props=C08,C04
SR *_ZN4crab7domains11small_rangeaSEOS1_(SR *self, SR *x)
__CPROVER_requires(F2(sr_assign_move) && sr_ok(*self) && sr_ok(*x))
__CPROVER_assigns(*self)
__CPROVER_ensures(RV == self && sr_ok(*self) && X(k_same, A, B));
void h_sr_assign_move(void){ INSR(a); INSR(b); _ZN4crab7domains11small_rangeaSEOS1_(&a, &b); REACH; }

#define STATIC(tag, fn, KIND) \
void fn(SR *ret) \
__CPROVER_requires(FRESH(tag, ret, sizeof(SR))) \
__CPROVER_assigns(*ret) \
__CPROVER_ensures(sr_ok(*ret) && SK(ret) == (KIND)) \
__CPROVER_ensures(TOP(tag, X(k_has, R, g_n, g_v) == k_has(KIND, 0, g_n, g_v))); \
void h_##tag(void){ SR r; HGHOSTS; fn(&r); REACH; }
//@check id=sr_bottom fn=_ZN4crab7domains11small_range6bottomEv props=C08,C04
STATIC(sr_bottom, _ZN4crab7domains11small_range6bottomEv, SR_BOT)
//@check id=sr_top fn=_ZN4crab7domains11small_range3topEv props=C08,C04
STATIC(sr_top, _ZN4crab7domains11small_range3topEv, SR_ZERO_OR_MORE)
//@check id=sr_zero fn=_ZN4crab7domains11small_range4zeroEv props=C08
STATIC(sr_zero, _ZN4crab7domains11small_range4zeroEv, SR_ZERO)
//@check id=sr_one_or_more fn=_ZN4crab7domains11small_range9oneOrMoreEv props=C08
STATIC(sr_one_or_more, _ZN4crab7domains11small_range9oneOrMoreEv, SR_ONE_OR_MORE)
//@check id=sr_zero_or_more fn=_ZN4crab7domains11small_range10zeroOrMoreEv props=C08
STATIC(sr_zero_or_more, _ZN4crab7domains11small_range10zeroOrMoreEv, SR_ZERO_OR_MORE)
#define MAKE(tag, fn, KIND) \
void fn(SR *ret, SR *self) \
__CPROVER_requires(FRESH(tag, ret, sizeof(SR)) && F1(tag) && sr_ok(*self)) \
__CPROVER_assigns(*ret) \
__CPROVER_ensures(sr_ok(*ret) && SK(ret) == (KIND)); \
void h_##tag(void){ INSR(a); SR r; fn(&r, &a); REACH; }
//@check id=sr_make_bottom fn=_ZNK4crab7domains11small_range11make_bottomEv props=C08,C04
MAKE(sr_make_bottom, _ZNK4crab7domains11small_range11make_bottomEv, SR_BOT)
//@check id=sr_make_top fn=_ZNK4crab7domains11small_range8make_topEv props=C08,C04
MAKE(sr_make_top, _ZNK4crab7domains11small_range8make_topEv, SR_ZERO_OR_MORE)
#define SETTO(tag, fn, KIND) \
void fn(SR *self) \
__CPROVER_requires(F1(tag) && sr_ok(*self)) \
__CPROVER_assigns(*self) \
__CPROVER_ensures(sr_ok(*self) && SK(self) == (KIND)); \
void h_##tag(void){ INSR(a); fn(&a); REACH; }
//@check id=sr_set_to_top fn=_ZN4crab7domains11small_range10set_to_topEv props=C08,C04
SETTO(sr_set_to_top, _ZN4crab7domains11small_range10set_to_topEv, SR_ZERO_OR_MORE)
//@check id=sr_set_to_bottom fn=_ZN4crab7domains11small_range13set_to_bottomEv props=C08,C04
SETTO(sr_set_to_bottom, _ZN4crab7domains11small_range13set_to_bottomEv, SR_BOT)

/* ---------------------------------------------------------------- queries */
#define QUERY(tag, fn, POST) \
unsigned char fn(SR *self) \
__CPROVER_requires(F1(tag) && sr_ok(*self)) \
__CPROVER_assigns() \
__CPROVER_ensures(TOP(tag, X(POST, RV, A, g_n, g_v))); \
void h_##tag(void){ INSR(a); HGHOSTS; fn(&a); REACH; }
/* is_bottom() <=> no state is described; is_top() => every state is described */
//@check id=sr_is_bottom fn=_ZNK4crab7domains11small_range9is_bottomEv props=C08,C04
QUERY(sr_is_bottom, _ZNK4crab7domains11small_range9is_bottomEv, POST_is_bottom)
//@check id=sr_is_top fn=_ZNK4crab7domains11small_range6is_topEv props=C08,C04
QUERY(sr_is_top, _ZNK4crab7domains11small_range6is_topEv, POST_is_top)
//@check id=sr_is_zero fn=_ZNK4crab7domains11small_range7is_zeroEv props=C08
QUERY(sr_is_zero, _ZNK4crab7domains11small_range7is_zeroEv, POST_is_zero)
//@check id=sr_is_one fn=_ZNK4crab7domains11small_range6is_oneEv props=C08
QUERY(sr_is_one, _ZNK4crab7domains11small_range6is_oneEv, POST_is_one)
/* is_bottom/is_top agree with make_bottom/make_top and the factories (real functions composed in the harness; dfcc wants the enforced
 * function called exactly once: that is make_bottom(), everything else runs in line) */
//@check id=sr_agree fn=_ZNK4crab7domains11small_range11make_bottomEv tag=sr_make_bottom props=C04
void h_sr_agree(void){ INSR(a); HGHOSTS; SR r;     /* sr_ok(a) is the precondition of the enforced make_bottom */
  _ZNK4crab7domains11small_range11make_bottomEv(&r, &a);
  __CPROVER_assert(_ZNK4crab7domains11small_range9is_bottomEv(&r), "make_bottom().is_bottom()");
  __CPROVER_assert(!_ZNK4crab7domains11small_range6is_topEv(&r), "!make_bottom().is_top()");
  _ZNK4crab7domains11small_range8make_topEv(&r, &a);
  __CPROVER_assert(_ZNK4crab7domains11small_range6is_topEv(&r), "make_top().is_top()");
  __CPROVER_assert(!_ZNK4crab7domains11small_range9is_bottomEv(&r), "!make_top().is_bottom()");
  _ZN4crab7domains11small_range6bottomEv(&r);
  __CPROVER_assert(_ZNK4crab7domains11small_range9is_bottomEv(&r), "bottom().is_bottom()");
  _ZN4crab7domains11small_range3topEv(&r);
  __CPROVER_assert(_ZNK4crab7domains11small_range6is_topEv(&r), "top().is_top()");
  REACH; }

/* ---------------------------------------------------------------- order and lattice operations */
//@check id=sr_leq fn=_ZNK4crab7domains11small_rangeleERKS1_ props=C08,C04
unsigned char _ZNK4crab7domains11small_rangeleERKS1_(SR *self, SR *x)
__CPROVER_requires(F2(sr_leq) && sr_ok(*self) && sr_ok(*x))
__CPROVER_assigns()
__CPROVER_ensures(TOP(sr_leq, X(POST_leq, RV, A, B, g_n, g_v)));
void h_sr_leq(void){ INSR(a); INSR(b); HGHOSTS; _ZNK4crab7domains11small_rangeleERKS1_(&a, &b); REACH; }
/* reflexivity with the same object on both sides */
//@check id=sr_leq_refl fn=_ZNK4crab7domains11small_rangeleERKS1_ tag=sr_leq props=C04
void h_sr_leq_refl(void){ INSR(a); HGHOSTS; unsigned char r = _ZNK4crab7domains11small_rangeleERKS1_(&a, &a); __CPROVER_assert(r, "x <= x"); REACH; }
//@check id=sr_eq fn=_ZNK4crab7domains11small_rangeeqERKS1_ props=C08,C04
unsigned char _ZNK4crab7domains11small_rangeeqERKS1_(SR *self, SR *x)
__CPROVER_requires(F2(sr_eq) && sr_ok(*self) && sr_ok(*x))
__CPROVER_assigns()
__CPROVER_ensures(X(POST_eq, RV, A, B));
void h_sr_eq(void){ INSR(a); INSR(b); _ZNK4crab7domains11small_rangeeqERKS1_(&a, &b); REACH; }

#define SOP(tag, fn, POST) \
void fn(SR *ret, SR *self, SR *x) \
__CPROVER_requires(F3(tag) && sr_ok(*self) && sr_ok(*x)) \
__CPROVER_assigns(*ret) \
__CPROVER_ensures(sr_ok(*ret)) \
__CPROVER_ensures(TOP(tag, X(POST, R, A, B, g_n, g_v))); \
void h_##tag(void){ INSR(a); INSR(b); HGHOSTS; SR r; fn(&r, &a, &b); REACH; }
//@check id=sr_join fn=_ZNK4crab7domains11small_rangeorERKS1_ props=C08,C04 backends=cvc5,z3,kissat first_timeout=200 cost=5
SOP(sr_join, _ZNK4crab7domains11small_rangeorERKS1_, POST_join)
//@check id=sr_meet fn=_ZNK4crab7domains11small_rangeanERKS1_ props=C08,C04 backends=cvc5,z3,kissat first_timeout=200 cost=5
SOP(sr_meet, _ZNK4crab7domains11small_rangeanERKS1_, POST_meet)
//@check id=sr_widen fn=_ZNK4crab7domains11small_rangeooERKS1_ props=C08,C05 backends=cvc5,z3,kissat first_timeout=200 cost=5
SOP(sr_widen, _ZNK4crab7domains11small_rangeooERKS1_, POST_widen)
//@check id=sr_narrow fn=_ZNK4crab7domains11small_rangeaaERKS1_ props=C08,C05 backends=cvc5,z3,kissat first_timeout=200 cost=5
SOP(sr_narrow, _ZNK4crab7domains11small_rangeaaERKS1_, POST_narrow)
/* x |= o : in-place join */
//@check id=sr_join_asg fn=_ZN4crab7domains11small_rangeoRERKS1_ props=C08,C04 backends=cvc5,z3,kissat first_timeout=200 cost=5
void _ZN4crab7domains11small_rangeoRERKS1_(SR *self, SR *x)
__CPROVER_requires(F2(sr_join_asg) && sr_ok(*self) && sr_ok(*x))
__CPROVER_assigns(*self)
__CPROVER_ensures(sr_ok(*self))
__CPROVER_ensures(TOP(sr_join_asg, (k_has(__CPROVER_old(self->f1), __CPROVER_old(self->f2.f0.f1), g_n, g_v) || X(k_has, B, g_n, g_v)) ==> X(k_has, A, g_n, g_v)));
void h_sr_join_asg(void){ INSR(a); INSR(b); HGHOSTS; _ZN4crab7domains11small_rangeoRERKS1_(&a, &b); REACH; }

/* ---------------------------------------------------------------- increment */
/* increment(x): the counter of S u {x}; updates *this and returns a copy of it */
//@check id=sr_increment fn=_ZN4crab7domains11small_range9incrementI7VarNameEES1_RKT_ props=C08
void _ZN4crab7domains11small_range9incrementI7VarNameEES1_RKT_(SR *ret, SR *self, VN *v)
__CPROVER_requires(FRESH(sr_increment, ret, sizeof(SR)) && F1(sr_increment) && FRESH(sr_increment, v, sizeof(VN)) && sr_ok(*self))
__CPROVER_assigns(*ret, *self)
__CPROVER_ensures(sr_ok(*self) && sr_ok(*ret) && X(k_same, R, A))
__CPROVER_ensures(TOP(sr_increment, POST_increment(SK(self), SVAL(self), __CPROVER_old(self->f1), __CPROVER_old(self->f2.f0.f1), g_n, g_v, g_in, v->f0)));
void h_sr_increment(void){ INSR(a); IN(VN, v); HGHOSTS; SR r; _ZN4crab7domains11small_range9incrementI7VarNameEES1_RKT_(&r, &a, &v); REACH; }
