/* Reproducer of a CBMC 6.11.0 expression-simplifier bug found while building this unit (NOT part of any check).
 *   cbmc cbmc_simplifier_bug.c --function main_            -> both assertions FAIL (wrong)
 *   cbmc cbmc_simplifier_bug.c --function main_ --no-simplify   -> both hold
 *   cbmc cbmc_simplifier_bug.c --function main_ -DNOARR    -> both hold
 * Trigger: a pointer to a member of an array element selected by a SYMBOLIC index (&s_b[j].f0.f1), dereferenced through
 * a member that is an array of length 1 (.f0.a.f1).  This is exactly the shape of ZV(&vec[j]._lb._n) in the z_number
 * model (mpz_t is __mpz_struct[1]) once symbolic execution has merged two paths with different vector indices
 * (dis_interval::operator<= on two 2-element lists).  The wrong value makes cbmc report a counterexample that the
 * code does not have (and could equally hide a real one).
 * FIXED machinery-side: tools/ll2c.py lowers every [1 x T] as a struct with a plain member `a` (no array), so the
 * z_number limbs are (p)->f0.a.f0 / (p)->f0.a.f1 and the pattern no longer occurs in the extracted code. */
#include <stdint.h>
struct M { uint64_t f0; uint64_t f1; };
#ifdef NOARR
struct A { struct M a; };
#define AT(p) ((p)->f0.a)
#else
struct A { struct M a[1]; };
#define AT(p) ((p)->f0.a)
#endif
struct Z { struct A f0; };
struct Bd { uint8_t f0; struct Z f1; }; struct I { struct Bd f0; struct Bd f1; };
static uint64_t HI(const struct Z *p){ return AT(p).f1; }
void main_(void){ struct I s_a[2], s_b[2]; unsigned j; __CPROVER_assume(j <= 1);
  s_b[0] = s_a[0]; s_b[1] = s_a[1];
  struct I *p = &s_b[j];
  __CPROVER_assert(j != 1 || HI(&s_a[1].f0.f1) == HI(&p->f0.f1), "hi equal via function");
  const struct Z *q = &p->f0.f1;
  __CPROVER_assert(j != 1 || AT(&s_a[1].f0.f1).f1 == AT(q).f1, "hi equal via local pointer");
}
