/* Contracts for crab::domains::dis_interval<ikos::z_number> -- properties C08 (soundness of every operation with ghost
 * concrete points), C04 (inclusion test, join, meet, is_bottom / is_top agree with the concretisation), C05 (widening is
 * an upper bound; narrowing keeps the common part).
 *
 * EVERYTHING HERE IS BOUNDED, never counted as proof: operands have at most NIN = 2 disjuncts, lists handed to the
 * normalising constructor at most LMAX elements, results at most DMAX; all loops (the class's own, libstdc++ std::vector /
 * std::sort, the spec loops) are unwound with unwinding assertions.  Operand objects are built directly by the harness
 * (state, length, element values on storage obtained from operator new) under the representation invariant d_ok_in.
 *
 * HOW THE CHECKS ARE ORGANISED (and why).  Measured on this code: (1) dfcc's write-set instrumentation multiplies the
 * formula of code that allocates and copies vectors by about 800 (dis_interval(list) on ONE element: 78 K clauses without,
 * 65 M clauses with; on two elements cbmc runs out of 13 GB); (2) after a data-dependent push_back the length of a vector
 * is symbolic, and every later vector operation (growth, copy, std::sort: introsort with its heap-sort fall-back) is
 * explored for every length up to the unwinding bound; (3) one interval operation in line is 2 000 - 5 000 steps.  Hence:
 *  - callees.h: the interval-level functions and the private helpers are REPLACED BY THEIR CONTRACTS (exact results),
 *    each proved in this unit by a loop-free dfcc check (cl_*); interval arithmetic by the soundness contracts of
 *    units/interval (assumed here, proved there);
 *  - the normalising constructor dis_interval(list, true) is proved once (d_ctor_list*, lists of 1..LMAX elements) and
 *    REPLACED BY ITS CONTRACT in every operation that ends with it (operator|, &, apply_bin_op, apply_unary_op, widening);
 *  - the growth path of std::vector (_M_realloc_insert) is the trusted in-place model models/di_vector_model.c;
 *  - HARNESS-LEVEL CHECKS ("H-style", all checks whose fn= is dis_interval::begin()): the operation is called from the
 *    harness, its precondition is assumed by the harness (REQUIRE, exactly what dfcc's enforce wrapper does with a requires
 *    clause) and every postcondition is a harness assertion.  dfcc still instruments the code but the operation runs with
 *    a null write set, i.e. WITHOUT frame checking: the assigns clause of these operations is NOT checked.  The function
 *    named by fn= (the trivial accessor dis_interval::begin(), called once on the result) only anchors the dfcc pipeline
 *    of the driver; it assumes nothing (its contract has no precondition beyond pointer validity).
 *  - logging: crab::CrabLogFlag is false unless a client calls CrabEnableLog; the harnesses SET it to false (a constant
 *    for symbolic execution: the bodies of CRAB_LOG(...) are not explored, not verified).
 *
 * What is REAL: the dis_interval members, std::vector<interval> except its growth path, std::sort, std::function
 * dispatch of the per-interval operations, interval copies / assignments / destructors.  z_number is models/zmodel.c.
 */
void *_Znwm(unsigned long);
#include "spec.h"
#include "hspec.h"
i128 g_x, g_y, g_v, g_w, g_z;       /* ghost concrete points: operands, result, bit width (unsigned readings), magnitude */
#include "callees.h"
#define GRANGE (g_x > -ZB && g_x < ZB && g_y > -ZB && g_y < ZB)
#define HGHOSTS GHOSTG(i128, g_x); GHOSTG(i128, g_y); GHOSTG(i128, g_v); LOGSET
extern unsigned char _ZN4crab11CrabLogFlagE;
#define LOGOFF (_ZN4crab11CrabLogFlagE == 0)
#define LOGSET _ZN4crab11CrabLogFlagE = 0
#define REQUIRE(e) __CPROVER_assume(e)          /* H-style: the requires clause of the operation under test */
#define CHK(e, msg) __CPROVER_assert(e, msg)    /* H-style: an ensures clause of the operation under test */
#ifndef NEWCAP
#define NEWCAP 4                    /* models/rt_fixedalloc_interval.c: every block has room for NEWCAP intervals */
#endif

/* ---- harness side: an arbitrary dis_interval (vector contents built directly) + witnesses.  Macros only.
 * SHAPE of an operand: 0 = empty list, state BOT or TOP (symbolic), 1 = FINITE with one disjunct, 2 = FINITE with two
 * disjuncts.  Checks run once per shape (vary=DS:..: unary DS = shape, binary DS = 3 * shape(a) + shape(b)); the shapes
 * enumerate every value with at most NIN = 2 disjuncts, element values stay arbitrary.  (A symbolic length makes every
 * vector operation range over all lengths: see above.) */
#define MK_D(t, sh) D t; static I wit_##t##_e[NIN]; static uint32_t wit_##t##_st; static uint64_t wit_##t##_n; \
  { if ((sh) != 0) { I *stg_##t = _Znwm(NIN * sizeof(I)); t.f0 = D_FIN; D_BEGIN(&t) = stg_##t; D_END(&t) = stg_##t + (sh); D_CAP(&t) = stg_##t + NIN; \
      for (long i_##t = 0; i_##t < NIN; i_##t++) if (i_##t < (sh)) wit_##t##_e[i_##t] = stg_##t[i_##t]; } \
    else { unsigned char top_##t; t.f0 = SH0(top_##t) ? D_TOP : D_BOT; D_BEGIN(&t) = 0; D_END(&t) = 0; D_CAP(&t) = 0; } \
    wit_##t##_st = t.f0; wit_##t##_n = (sh); }
#if defined(SH0_BOT)
#define SH0(c) 0
#elif defined(SH0_TOP)
#define SH0(c) 1
#else
#define SH0(c) (c)
#endif
#ifndef DS
#define DS 8
#endif
#define MK_D1(t) MK_D(t, DS)
#define MK_D2(t, u) MK_D(t, DS / 3); MK_D(u, DS % 3)
#define N_TOP     _ZN4crab7domains12dis_intervalIN4ikos8z_numberEE3topEv
#define N_BOTTOM  _ZN4crab7domains12dis_intervalIN4ikos8z_numberEE6bottomEv
#define N_ISBOT   _ZNK4crab7domains12dis_intervalIN4ikos8z_numberEE9is_bottomEv
#define N_ISTOP   _ZNK4crab7domains12dis_intervalIN4ikos8z_numberEE6is_topEv
#define N_CTOR0   _ZN4crab7domains12dis_intervalIN4ikos8z_numberEEC1Ev
#define N_CTORI   _ZN4crab7domains12dis_intervalIN4ikos8z_numberEEC1ENS2_8intervalIS3_EE
#define N_APPROX  _ZNK4crab7domains12dis_intervalIN4ikos8z_numberEE6approxEv
#define N_EQ      _ZNK4crab7domains12dis_intervalIN4ikos8z_numberEEeqERKS4_
#define N_LEQ     _ZNK4crab7domains12dis_intervalIN4ikos8z_numberEEleERKS4_
#define N_BEGIN   _ZN4crab7domains12dis_intervalIN4ikos8z_numberEE5beginEv

/* ================================================================ callees (contracts in callees.h), proved here */
//@check id=cl_i_is_bottom fn=_ZNK4ikos8intervalINS_8z_numberEE9is_bottomEv props=C08,C04
//@check id=cl_i_is_top fn=_ZNK4ikos8intervalINS_8z_numberEE6is_topEv props=C08,C04
//@check id=cl_i_eq fn=_ZNK4ikos8intervalINS_8z_numberEEeqERKS2_ props=C08,C04
//@check id=cl_i_leq fn=_ZNK4ikos8intervalINS_8z_numberEEleERKS2_ props=C08,C04
//@check id=cl_i_join fn=_ZNK4ikos8intervalINS_8z_numberEEorERKS2_ props=C08,C04
//@check id=cl_i_meet fn=_ZNK4ikos8intervalINS_8z_numberEEanERKS2_ props=C08,C04
//@check id=cl_overlap fn=_ZNK4crab7domains12dis_intervalIN4ikos8z_numberEE7overlapERKNS2_8intervalIS3_EES8_ props=C08,C04
//@check id=cl_consec fn=_ZNK4crab7domains12dis_intervalIN4ikos8z_numberEE15are_consecutiveERKNS2_8intervalIS3_EES8_ props=C08,C04
//@check id=cl_left fn=_ZNK4crab7domains11IsOnTheLeftIN4ikos8z_numberEEclERKNS2_8intervalIS3_EES8_ props=C08,C04

/* ================================================================ anchor of the H-style checks */
/* dis_interval::begin(): iterator to the first disjunct.  No precondition, nothing assumed. */
I *N_BEGIN(D *self)
__CPROVER_requires(FRESH(d_anchor, self, sizeof(D)))
__CPROVER_assigns()
__CPROVER_ensures(RV == D_BEGIN(self));
#define ANCHOR(p) N_BEGIN(p)

/* ================================================================ constants, queries, constructors (dfcc-enforced) */
//@check id=d_top fn=_ZN4crab7domains12dis_intervalIN4ikos8z_numberEE3topEv props=C08,C04 unwind=6
void N_TOP(D *ret)
__CPROVER_requires(FRESH(d_top, ret, sizeof(D)) && GRANGE)
__CPROVER_assigns(*ret)
__CPROVER_ensures(d_okn(ret, DMAX, ZB) && d_top(ret) && !d_bot(ret) && d_has(ret, g_x));
void h_d_top(void){ HGHOSTS; D r; N_TOP(&r); REACH; }
//@check id=d_bottom fn=_ZN4crab7domains12dis_intervalIN4ikos8z_numberEE6bottomEv props=C08,C04 unwind=6
void N_BOTTOM(D *ret)
__CPROVER_requires(FRESH(d_bottom, ret, sizeof(D)) && GRANGE)
__CPROVER_assigns(*ret)
__CPROVER_ensures(d_okn(ret, DMAX, ZB) && d_bot(ret) && !d_top(ret) && !d_has(ret, g_x));
void h_d_bottom(void){ HGHOSTS; D r; N_BOTTOM(&r); REACH; }
/* is_bottom() <=> no integer is described (a FINITE value has a first disjunct, which is not empty) */
//@check id=d_is_bottom fn=_ZNK4crab7domains12dis_intervalIN4ikos8z_numberEE9is_bottomEv props=C08,C04 unwind=6 bounded="<=2 disjuncts" vary=DS:0-2
unsigned char N_ISBOT(D *self)
__CPROVER_requires(FRESH(d_is_bottom, self, sizeof(D)) && d_ok_in(self) && GRANGE)
__CPROVER_assigns()
__CPROVER_ensures((RV != 0) == d_bot(self))
__CPROVER_ensures(RV ? !d_has(self, g_x) : (d_top(self) || !i_bot(D_E(self, 0))));
void h_d_is_bottom(void){ MK_D1(a); HGHOSTS; N_ISBOT(&a); REACH; }
//@check id=d_is_top fn=_ZNK4crab7domains12dis_intervalIN4ikos8z_numberEE6is_topEv props=C08,C04 unwind=6 bounded="<=2 disjuncts" vary=DS:0-2
unsigned char N_ISTOP(D *self)
__CPROVER_requires(FRESH(d_is_top, self, sizeof(D)) && d_ok_in(self) && GRANGE)
__CPROVER_assigns()
__CPROVER_ensures((RV != 0) == d_top(self))
__CPROVER_ensures(!RV || d_has(self, g_x));
void h_d_is_top(void){ MK_D1(a); HGHOSTS; N_ISTOP(&a); REACH; }
/* dis_interval(): top */
//@check id=d_ctor_default fn=_ZN4crab7domains12dis_intervalIN4ikos8z_numberEEC1Ev props=C08,C04 unwind=6
void N_CTOR0(D *self)
__CPROVER_requires(FRESH(d_ctor_default, self, sizeof(D)) && GRANGE)
__CPROVER_assigns(*self)
__CPROVER_ensures(d_okn(self, DMAX, ZB) && d_top(self) && d_has(self, g_x));
void h_d_ctor_default(void){ HGHOSTS; D r; N_CTOR0(&r); REACH; }
/* dis_interval(interval i): exactly the integers of i */
//@check id=d_ctor_interval fn=_ZN4crab7domains12dis_intervalIN4ikos8z_numberEEC1ENS2_8intervalIS3_EE props=C08,C04 unwind=6
void N_CTORI(D *self, I *i)
__CPROVER_requires(FRESH(d_ctor_interval, self, sizeof(D)) && FRESH(d_ctor_interval, i, sizeof(I)) && i_ok(*i) && GRANGE && LOGOFF)
__CPROVER_assigns(*self)
__CPROVER_ensures(d_okn(self, DMAX, ZB))
__CPROVER_ensures(d_has(self, g_x) == i_has(*i, g_x))
__CPROVER_ensures(d_bot(self) == i_bot(*i) && d_top(self) == i_top(*i));
void h_d_ctor_interval(void){ IN(I, i); HGHOSTS; D r; N_CTORI(&r, &i); REACH; }
/* approx(): the hull; contains every integer of the value */
//@check id=d_approx fn=_ZNK4crab7domains12dis_intervalIN4ikos8z_numberEE6approxEv props=C08 unwind=6 bounded="<=2 disjuncts" vary=DS:0-2
void N_APPROX(I *ret, D *self)
__CPROVER_requires(FRESH(d_approx, ret, sizeof(I)) && FRESH(d_approx, self, sizeof(D)) && d_ok_in(self) && GRANGE && LOGOFF)
__CPROVER_assigns(*ret)
__CPROVER_ensures(i_ok(*ret) && d_hull_is(self, *ret))
__CPROVER_ensures(d_has(self, g_x) ==> i_has(*ret, g_x));
void h_d_approx(void){ MK_D1(a); HGHOSTS; I r; N_APPROX(&r, &a); REACH; }

/* ================================================================ equality, inclusion (dfcc-enforced) */
//@check id=d_eq fn=_ZNK4crab7domains12dis_intervalIN4ikos8z_numberEEeqERKS4_ props=C08,C04 unwind=6 bounded="<=2 disjuncts" vary=DS:0,4,5,7,8 vary_thorough=DS:0-8 backends=kissat,cadical,minisat
unsigned char N_EQ(D *self, D *x)
__CPROVER_requires(FRESH(d_eq, self, sizeof(D)) && FRESH(d_eq, x, sizeof(D)) && d_ok_in(self) && d_ok_in(x) && GRANGE && LOGOFF)
__CPROVER_assigns()
__CPROVER_ensures((RV != 0) == d_eq(self, x))
__CPROVER_ensures(RV ==> (d_has(self, g_x) == d_has(x, g_x)));
void h_d_eq(void){ MK_D2(a, b); HGHOSTS; N_EQ(&a, &b); REACH; }
/* inclusion: yes with bottom on the left, with top on the right, on equal values; a yes means inclusion of the
 * concretisations; exactly the inclusion of normalised values.
 * GENUINE DEFECT (confirmed natively, /repo unchanged): operator<= has no case for TOP.  top() <= [0,1] answers yes (the
 * loop over the empty list of TOP is vacuous) and [0,1] <= top() answers no (no element of the empty list of TOP
 * contains [0,1]); likewise ([0,1]|[5,6]) <= top() is false.  The quick tier runs the contract with shape 0 = BOT only
 * (defs=SH0_BOT: every case without a TOP operand, all pass); check d_leq_top (thorough) runs the same contract with BOT /
 * TOP symbolic and FAILS postcondition 1 (yes implies inclusion) for DS=1,2 and postcondition 3 (top on the right) for
 * DS=3,6. */
//@check id=d_leq fn=_ZNK4crab7domains12dis_intervalIN4ikos8z_numberEEleERKS4_ props=C08,C04 unwind=6 defs=SH0_BOT bounded="<=2 disjuncts, no TOP operand" vary=DS:1,3,4,5,7,8 vary_thorough=DS:0-8
//@check id=d_leq_top fn=_ZNK4crab7domains12dis_intervalIN4ikos8z_numberEEleERKS4_ tag=d_leq harness=h_d_leq props=C08,C04 unwind=6 bounded="<=2 disjuncts" vary=DS:0,1,2,3,6
unsigned char N_LEQ(D *self, D *x)
__CPROVER_requires(FRESH(d_leq, self, sizeof(D)) && FRESH(d_leq, x, sizeof(D)) && d_ok_in(self) && d_ok_in(x) && GRANGE && LOGOFF)
__CPROVER_assigns()
__CPROVER_ensures((RV && d_has(self, g_x)) ==> d_has(x, g_x))
__CPROVER_ensures(d_bot(self) ==> RV)
__CPROVER_ensures(d_top(x) ==> RV)
__CPROVER_ensures(d_eq(self, x) ==> RV)
__CPROVER_ensures((RV != 0) == d_leq(self, x));
void h_d_leq(void){ MK_D2(a, b); HGHOSTS; N_LEQ(&a, &b); REACH; }
/* reflexivity: the same object on both sides */
//@check id=d_leq_refl fn=_ZNK4crab7domains12dis_intervalIN4ikos8z_numberEEleERKS4_ tag=d_leq props=C04 unwind=6 bounded="<=2 disjuncts" vary=DS:0-2
void h_d_leq_refl(void){ MK_D1(a); HGHOSTS; unsigned char r = N_LEQ(&a, &a); __CPROVER_assert(r, "x <= x"); REACH; }

/* ================================================================ dis_interval(list, normalize) */
/* GENUINE DEFECT (confirmed natively, /repo unchanged; found by d_ctor_list_h[LN=2], 23 min with kissat): normalize()
 * starts with the sentinel `prev = top` and skips every element with `prev == intv` as a duplicate, so a TOP element that
 * sorts first is dropped: dis_interval({[-oo,+oo], [-3,-3]}, true) = [-3,-3].  Reachable through the public widening,
 * which pushes widened extremes that may be top: ([0,1]|[5,6]) || ([-1,7]|[10,11]) = [5,+oo], not an upper bound of
 * either operand.  Without top elements all 4096 two-element lists over bounds in {-oo,-3..3,+oo} normalise exactly
 * (native enumeration).  The contract below is what the property demands and is left unchanged; the failing variant is in
 * the thorough tier.  Under dfcc (d_ctor_list) two elements run out of 13 GB: quick = one element only. */
/* a list of intervals as the callers build it: a std::vector<interval> with LN arbitrary elements (any order, overlapping,
 * bottom or top elements allowed) */
#ifndef LN
#define LN 2
#endif
#define MK_V(t, n) V t; static I wit_##t##_e[LMAX]; \
  { I *stg_##t = _Znwm(LMAX * sizeof(I)); V_BEGIN(&t) = stg_##t; V_END(&t) = stg_##t + (n); V_CAP(&t) = stg_##t + (n); \
    for (long i_##t = 0; i_##t < LMAX; i_##t++) if (i_##t < (n)) wit_##t##_e[i_##t] = stg_##t[i_##t]; }
#define N_CTORL _ZN4crab7domains12dis_intervalIN4ikos8z_numberEEC1ESt6vectorINS2_8intervalIS3_EESaIS7_EEb
/* storage of a result as a CALLER may rely on it when the contract replaces the call: a FINITE value owns a fresh block
 * of NEWCAP intervals holding 1..max elements; BOT / TOP own nothing (the real constructor may keep an empty block: a
 * program cannot tell) */
#define BLK_0(d, max) ((d)->f0 == D_FIN ? (__CPROVER_is_fresh(D_BEGIN(d), NEWCAP * sizeof(I)) && __CPROVER_same_object(D_BEGIN(d), D_END(d)) && __CPROVER_POINTER_OFFSET(D_END(d)) >= sizeof(I) && __CPROVER_POINTER_OFFSET(D_END(d)) <= (max) * sizeof(I) && __CPROVER_POINTER_OFFSET(D_END(d)) % sizeof(I) == 0 && D_CAP(d) == D_BEGIN(d) + NEWCAP) : (D_BEGIN(d) == 0 && D_END(d) == 0 && D_CAP(d) == 0))
#define BLK_1(d, max) 1
#define BLK_SEL(v) FRESH_CAT(BLK_, v)
#define BLK(tag, d, max) BLK_SEL(ENF_##tag)(d, max)
/* dis_interval(l, true): the normalised value describing exactly the integers of the intervals of l; finite bounds stay
 * within the magnitude g_z of the list (g_z arbitrary: callers fix it).  A one-element list is taken as it is (callers
 * never pass a single bottom or top interval). */
void N_CTORL(D *self, V *l, unsigned char normalize)
__CPROVER_requires(FRESH(d_ctor_list, self, sizeof(D)) && RD(d_ctor_list, l, sizeof(V)) && g_z > 0 && g_z <= DZ && v_ok(l, LMAX, g_z) && v_n(l) >= 1 && normalize == 1 && LOGOFF)
__CPROVER_requires(v_n(l) != 1 || v_plain(l))
__CPROVER_assigns(*self)
__CPROVER_ensures(self->f0 <= 2 && BLK(d_ctor_list, self, DMAX))
__CPROVER_ensures(d_okn(self, DMAX, g_z))
__CPROVER_ensures(d_has(self, g_v) == v_has(l, g_v))
__CPROVER_ensures(d_bot(self) == v_all_bot(l));
//@check id=d_ctor_list fn=_ZN4crab7domains12dis_intervalIN4ikos8z_numberEEC1ESt6vectorINS2_8intervalIS3_EESaIS7_EEb props=C08,C04 unwind=5 defs=DMAX=2,LMAX=2 vary=LN:1 bounded="list of 1 interval" timeout=600 first_timeout=300 backends=cadical,kissat mem=8 cost=5 replace=_ZNK4ikos8intervalINS_8z_numberEE9is_bottomEv,_ZNK4ikos8intervalINS_8z_numberEE6is_topEv,_ZNK4ikos8intervalINS_8z_numberEEeqERKS2_,_ZNK4ikos8intervalINS_8z_numberEEleERKS2_,_ZNK4ikos8intervalINS_8z_numberEEorERKS2_,_ZNK4ikos8intervalINS_8z_numberEEanERKS2_,_ZNK4crab7domains12dis_intervalIN4ikos8z_numberEE7overlapERKNS2_8intervalIS3_EES8_,_ZNK4crab7domains12dis_intervalIN4ikos8z_numberEE15are_consecutiveERKNS2_8intervalIS3_EES8_,_ZNK4crab7domains11IsOnTheLeftIN4ikos8z_numberEEclERKNS2_8intervalIS3_EES8_
void h_d_ctor_list(void){ MK_V(l, LN); HGHOSTS; GHOSTG(i128, g_z); D r; N_CTORL(&r, &l, 1); REACH; }
/* the same, H-style */
//@check id=d_ctor_list_h fn=_ZN4crab7domains12dis_intervalIN4ikos8z_numberEE5beginEv tag=d_anchor props=C08,C04 tier=thorough unwind=5 defs=DMAX=2,LMAX=2 vary=LN:1 bounded="list of 1 interval (LN=2 is decided only by kissat in about 25 minutes: run by hand with --vary LN:2)" timeout=2400 first_timeout=600 backends=cadical,kissat mem=8 replace=_ZNK4ikos8intervalINS_8z_numberEE9is_bottomEv,_ZNK4ikos8intervalINS_8z_numberEE6is_topEv,_ZNK4ikos8intervalINS_8z_numberEEeqERKS2_,_ZNK4ikos8intervalINS_8z_numberEEleERKS2_,_ZNK4ikos8intervalINS_8z_numberEEorERKS2_,_ZNK4ikos8intervalINS_8z_numberEEanERKS2_,_ZNK4crab7domains12dis_intervalIN4ikos8z_numberEE7overlapERKNS2_8intervalIS3_EES8_,_ZNK4crab7domains12dis_intervalIN4ikos8z_numberEE15are_consecutiveERKNS2_8intervalIS3_EES8_,_ZNK4crab7domains11IsOnTheLeftIN4ikos8z_numberEEclERKNS2_8intervalIS3_EES8_
void h_d_ctor_list_h(void){ MK_V(l, LN); HGHOSTS; GHOSTG(i128, g_z); D r;
  REQUIRE(g_z > 0 && g_z <= DZ && hv_ok(&l, LMAX, g_z) && (hv_n(&l) != 1 || hv_plain(&l)));
  N_CTORL(&r, &l, 1);
  CHK(hd_okn(&r, DMAX, g_z), "dis_interval(list): result normalised");
  CHK(hd_has(&r, g_v) == hv_has(&l, g_v), "dis_interval(list): exactly the integers of the list");
  CHK(hd_bot(&r) == hv_all_bot(&l), "dis_interval(list): bottom iff every element is bottom");
  ANCHOR(&r); REACH; }

/* ================================================================ join */
#define N_JOIN _ZNK4crab7domains12dis_intervalIN4ikos8z_numberEEorERKS4_
void N_JOIN(D *ret, D *self, D *x)
__CPROVER_requires(FRESH(d_join, ret, sizeof(D)) && FRESH(d_join, self, sizeof(D)) && FRESH(d_join, x, sizeof(D)))
__CPROVER_requires(d_ok_in(self) && d_ok_in(x) && g_z == ZB && LOGOFF)
__CPROVER_assigns(*ret)
__CPROVER_ensures(d_okn(ret, DMAX, ZB))
__CPROVER_ensures((d_has(self, g_v) || d_has(x, g_v)) ==> d_has(ret, g_v));
/* PARKED (no back end decides it within any budget tried: not run in any tier) */
//@check-parked id=d_join fn=_ZNK4crab7domains12dis_intervalIN4ikos8z_numberEEorERKS4_ props=C08,C04 tier=thorough unwind=5 vary=DS:4,8 bounded="<=2 disjuncts per operand; normalising constructor assumed for lists of 3..4" timeout=1800 first_timeout=900 backends=cadical,kissat mem=8 replace=_ZNK4ikos8intervalINS_8z_numberEE9is_bottomEv,_ZNK4ikos8intervalINS_8z_numberEE6is_topEv,_ZNK4ikos8intervalINS_8z_numberEEeqERKS2_,_ZNK4ikos8intervalINS_8z_numberEEleERKS2_,_ZNK4ikos8intervalINS_8z_numberEEorERKS2_,_ZNK4ikos8intervalINS_8z_numberEEanERKS2_,_ZNK4crab7domains12dis_intervalIN4ikos8z_numberEE7overlapERKNS2_8intervalIS3_EES8_,_ZNK4crab7domains12dis_intervalIN4ikos8z_numberEE15are_consecutiveERKNS2_8intervalIS3_EES8_,_ZNK4crab7domains11IsOnTheLeftIN4ikos8z_numberEEclERKNS2_8intervalIS3_EES8_,_ZN4crab7domains12dis_intervalIN4ikos8z_numberEEC1ESt6vectorINS2_8intervalIS3_EESaIS7_EEb
void h_d_join(void){ MK_D2(a, b); HGHOSTS; g_z = ZB; D r; N_JOIN(&r, &a, &b); REACH; }
/* PARKED (no back end decides it within any budget tried: not run in any tier) */
//@check-parked id=d_join_h fn=_ZN4crab7domains12dis_intervalIN4ikos8z_numberEE5beginEv tag=d_anchor props=C08,C04 tier=thorough unwind=5 vary=DS:0-8 bounded="<=2 disjuncts per operand; normalising constructor assumed for lists of 3..4" timeout=1800 first_timeout=900 backends=cadical,kissat mem=8 replace=_ZNK4ikos8intervalINS_8z_numberEE9is_bottomEv,_ZNK4ikos8intervalINS_8z_numberEE6is_topEv,_ZNK4ikos8intervalINS_8z_numberEEeqERKS2_,_ZNK4ikos8intervalINS_8z_numberEEleERKS2_,_ZNK4ikos8intervalINS_8z_numberEEorERKS2_,_ZNK4ikos8intervalINS_8z_numberEEanERKS2_,_ZNK4crab7domains12dis_intervalIN4ikos8z_numberEE7overlapERKNS2_8intervalIS3_EES8_,_ZNK4crab7domains12dis_intervalIN4ikos8z_numberEE15are_consecutiveERKNS2_8intervalIS3_EES8_,_ZNK4crab7domains11IsOnTheLeftIN4ikos8z_numberEEclERKNS2_8intervalIS3_EES8_,_ZN4crab7domains12dis_intervalIN4ikos8z_numberEEC1ESt6vectorINS2_8intervalIS3_EESaIS7_EEb
void h_d_join_h(void){ MK_D2(a, b); HGHOSTS; g_z = ZB; D r;
  REQUIRE(hd_ok_in(&a) && hd_ok_in(&b));
  N_JOIN(&r, &a, &b);
  CHK(hd_okn(&r, DMAX, ZB), "join: result normalised");
  CHK(!(hd_has(&a, g_v) || hd_has(&b, g_v)) || hd_has(&r, g_v), "join: contains both operands");
  ANCHOR(&r); REACH; }

/* ================================================================ meet */
#define N_MEET _ZNK4crab7domains12dis_intervalIN4ikos8z_numberEEanERKS4_
//@check id=d_meet_h fn=_ZN4crab7domains12dis_intervalIN4ikos8z_numberEE5beginEv tag=d_anchor props=C08,C04 unwind=5 vary=DS:4 vary_thorough=DS:0-8 bounded="<=2 disjuncts per operand (quick: 1 x 1); normalising constructor assumed for lists of 3..4" timeout=900 first_timeout=600 backends=cadical,kissat mem=8 cost=9 replace=_ZNK4ikos8intervalINS_8z_numberEE9is_bottomEv,_ZNK4ikos8intervalINS_8z_numberEE6is_topEv,_ZNK4ikos8intervalINS_8z_numberEEeqERKS2_,_ZNK4ikos8intervalINS_8z_numberEEleERKS2_,_ZNK4ikos8intervalINS_8z_numberEEorERKS2_,_ZNK4ikos8intervalINS_8z_numberEEanERKS2_,_ZN4crab7domains12dis_intervalIN4ikos8z_numberEEC1ESt6vectorINS2_8intervalIS3_EESaIS7_EEb
void N_MEET(D *ret, D *self, D *x);
void h_d_meet_h(void){ MK_D2(a, b); HGHOSTS; g_z = ZB; D r;
  REQUIRE(hd_ok_in(&a) && hd_ok_in(&b));
  N_MEET(&r, &a, &b);
  CHK(hd_okn(&r, DMAX, ZB), "meet: result normalised");
  CHK(hd_has(&r, g_v) == (hd_has(&a, g_v) && hd_has(&b, g_v)), "meet: exactly the common integers");
  ANCHOR(&r); REACH; }
/* ================================================================ addition */
#define N_ADD _ZNK4crab7domains12dis_intervalIN4ikos8z_numberEEplERKS4_
/* PARKED (no back end decides it within any budget tried: not run in any tier) */
//@check-parked id=d_add_h fn=_ZN4crab7domains12dis_intervalIN4ikos8z_numberEE5beginEv tag=d_anchor props=C08 tier=thorough unwind=5 vary=DS:0-8 bounded="<=2 disjuncts per operand; normalising constructor assumed for lists of 3..4" timeout=1800 first_timeout=900 backends=cadical,kissat mem=8 replace=_ZNK4ikos8intervalINS_8z_numberEE9is_bottomEv,_ZNK4ikos8intervalINS_8z_numberEE6is_topEv,_ZNK4ikos8intervalINS_8z_numberEEplERKS2_,_ZN4crab7domains12dis_intervalIN4ikos8z_numberEEC1ESt6vectorINS2_8intervalIS3_EESaIS7_EEb
void N_ADD(D *ret, D *self, D *x);
void h_d_add_h(void){ MK_D2(a, b); HGHOSTS; g_z = 2 * ZB; D r;
  REQUIRE(hd_ok_in(&a) && hd_ok_in(&b) && GRANGE && g_v == g_x + g_y);
  N_ADD(&r, &a, &b);
  CHK(hd_okn(&r, DMAX, 2 * ZB), "+: result normalised");
  CHK(!(hd_bot(&a) || hd_bot(&b)) || hd_bot(&r), "+: strict");
  CHK(!(hd_has(&a, g_x) && hd_has(&b, g_y)) || hd_has(&r, g_v), "+: contains g_x + g_y");
  ANCHOR(&r); REACH; }
