/* Contracts for crab::domains::dis_interval<ikos::z_number> — properties C08 (soundness of every operation with ghost
 * concrete points), C04 (inclusion test, join, meet, is_bottom / is_top agree with the concretisation), C05 (widening is
 * an upper bound; narrowing of a decreasing pair keeps the second argument).
 *
 * BOUNDED, not proved in general: every check that takes a dis_interval runs on operands with at most NIN = 2 disjuncts
 * (results: at most DMAX = 4); all loops (the class's own, libstdc++ std::vector / std::sort, and the spec loops) are
 * unwound with unwinding assertions (unwind=).  The operand objects are built directly by the harness (arbitrary state,
 * length and element values on freshly allocated storage) under the representation invariant d_ok_in.
 *
 * What is REAL: the dis_interval members, std::vector<interval> (copy, push_back, pop_back, reserve, insert, clear),
 * std::sort, std::function dispatch of the per-interval operations, and the interval / bound members of lib/interval.cpp
 * (in line).  Only z_number is a model (models/zmodel.c).
 */
void *_Znwm(unsigned long);
#include "spec.h"
i128 g_x, g_y;                      /* ghost concrete points */
#define RV __CPROVER_return_value
#define GRANGE (g_x > -ZB && g_x < ZB && g_y > -ZB && g_y < ZB)
#define HGHOSTS GHOSTG(i128, g_x); GHOSTG(i128, g_y)
/* logging is off (crab::CrabLogFlag is false unless a client calls CrabEnableLog): the bodies of CRAB_LOG(...) are not verified */
extern unsigned char _ZN4crab11CrabLogFlagE;
#define LOGOFF (_ZN4crab11CrabLogFlagE == 0)

/* ---- harness side: an arbitrary dis_interval (vector contents built directly) + witnesses.  Macros only. */
/* SHAPE of an operand: 0 = BOT, 1 = TOP, 2 = FINITE with one disjunct, 3 = FINITE with two disjuncts.  The checks are
 * run once per shape (vary=DS:..: unary DS = shape, binary DS = 4 * shape(a) + shape(b)); the shapes enumerate every
 * value with at most NIN = 2 disjuncts, element values stay arbitrary.  (With a symbolic length the vector copies
 * allocate objects of symbolic size: 9M variables / 90M clauses for approx() alone, no back end answers.) */
#define SH_ST(sh) ((sh) == 0 ? D_BOT : (sh) == 1 ? D_TOP : D_FIN)
#define SH_N(sh) ((sh) == 2 ? 1 : (sh) == 3 ? 2 : 0)
#define MK_D(t, sh) D t; static I wit_##t##_e[NIN]; static uint32_t wit_##t##_st; static uint64_t wit_##t##_n; \
  { t.f0 = SH_ST(sh); \
    if (SH_ST(sh) == D_FIN) { I *stg_##t = _Znwm(NIN * sizeof(I)); D_BEGIN(&t) = stg_##t; D_END(&t) = stg_##t + SH_N(sh); D_CAP(&t) = stg_##t + NIN; \
      for (long i_##t = 0; i_##t < NIN; i_##t++) if (i_##t < SH_N(sh)) wit_##t##_e[i_##t] = stg_##t[i_##t]; } \
    else { D_BEGIN(&t) = 0; D_END(&t) = 0; D_CAP(&t) = 0; } \
    wit_##t##_st = SH_ST(sh); wit_##t##_n = SH_N(sh); }
#ifndef DS
#define DS 15
#endif
#define MK_D1(t) MK_D(t, DS)
#define MK_D2(t, u) MK_D(t, DS / 4); MK_D(u, DS % 4)
#define N_TOP     _ZN4crab7domains12dis_intervalIN4ikos8z_numberEE3topEv
#define N_BOTTOM  _ZN4crab7domains12dis_intervalIN4ikos8z_numberEE6bottomEv
#define N_ISBOT   _ZNK4crab7domains12dis_intervalIN4ikos8z_numberEE9is_bottomEv
#define N_ISTOP   _ZNK4crab7domains12dis_intervalIN4ikos8z_numberEE6is_topEv
#define N_CTOR0   _ZN4crab7domains12dis_intervalIN4ikos8z_numberEEC1Ev
#define N_CTORI   _ZN4crab7domains12dis_intervalIN4ikos8z_numberEEC1ENS2_8intervalIS3_EE
#define N_APPROX  _ZNK4crab7domains12dis_intervalIN4ikos8z_numberEE6approxEv
#define N_EQ      _ZNK4crab7domains12dis_intervalIN4ikos8z_numberEEeqERKS4_
#define N_LEQ     _ZNK4crab7domains12dis_intervalIN4ikos8z_numberEEleERKS4_

/* ================================================================ constants, queries, constructors */
//@check id=d_top fn=_ZN4crab7domains12dis_intervalIN4ikos8z_numberEE3topEv props=C08,C04 unwind=6
void N_TOP(D *ret)
__CPROVER_requires(FRESH(d_top, ret, sizeof(D)) && GRANGE)
__CPROVER_assigns(*ret)
__CPROVER_ensures(d_okn(ret, DMAX, ZB) && d_top(ret) && !d_bot(ret) && d_has(ret, g_x));
void h_d_top(void){ HGHOSTS; D r; N_TOP(&r); REACH; }
//@check id=d_bottom fn=_ZN4crab7domains12dis_intervalIN4ikos8z_numberEE6bottomEv props=C08,C04 unwind=6
void N_BOTTOM(D *ret)
__CPROVER_requires(FRESH(d_bottom, ret, sizeof(D)) && GRANGE)
__CPROVER_assigns(*ret)
__CPROVER_ensures(d_okn(ret, DMAX, ZB) && d_bot(ret) && !d_top(ret) && !d_has(ret, g_x));
void h_d_bottom(void){ HGHOSTS; D r; N_BOTTOM(&r); REACH; }
/* is_bottom() <=> no integer is described (a FINITE value has a first disjunct, which is not empty) */
//@check id=d_is_bottom fn=_ZNK4crab7domains12dis_intervalIN4ikos8z_numberEE9is_bottomEv props=C08,C04 unwind=6 bounded="<=2 disjuncts" vary=DS:0-3
unsigned char N_ISBOT(D *self)
__CPROVER_requires(FRESH(d_is_bottom, self, sizeof(D)) && d_ok_in(self) && GRANGE)
__CPROVER_assigns()
__CPROVER_ensures((RV != 0) == d_bot(self))
__CPROVER_ensures(RV ? !d_has(self, g_x) : (d_top(self) || !i_bot(D_E(self, 0))));
void h_d_is_bottom(void){ MK_D1(a); HGHOSTS; N_ISBOT(&a); REACH; }
//@check id=d_is_top fn=_ZNK4crab7domains12dis_intervalIN4ikos8z_numberEE6is_topEv props=C08,C04 unwind=6 bounded="<=2 disjuncts" vary=DS:0-3
unsigned char N_ISTOP(D *self)
__CPROVER_requires(FRESH(d_is_top, self, sizeof(D)) && d_ok_in(self) && GRANGE)
__CPROVER_assigns()
__CPROVER_ensures((RV != 0) == d_top(self))
__CPROVER_ensures(!RV || d_has(self, g_x));
void h_d_is_top(void){ MK_D1(a); HGHOSTS; N_ISTOP(&a); REACH; }
/* dis_interval(): top */
//@check id=d_ctor_default fn=_ZN4crab7domains12dis_intervalIN4ikos8z_numberEEC1Ev props=C08,C04 unwind=6
void N_CTOR0(D *self)
__CPROVER_requires(FRESH(d_ctor_default, self, sizeof(D)) && GRANGE)
__CPROVER_assigns(*self)
__CPROVER_ensures(d_okn(self, DMAX, ZB) && d_top(self) && d_has(self, g_x));
void h_d_ctor_default(void){ HGHOSTS; D r; N_CTOR0(&r); REACH; }
/* dis_interval(interval i): exactly the integers of i */
//@check id=d_ctor_interval fn=_ZN4crab7domains12dis_intervalIN4ikos8z_numberEEC1ENS2_8intervalIS3_EE props=C08,C04 unwind=6
void N_CTORI(D *self, I *i)
__CPROVER_requires(FRESH(d_ctor_interval, self, sizeof(D)) && FRESH(d_ctor_interval, i, sizeof(I)) && i_ok(*i) && GRANGE && LOGOFF)
__CPROVER_assigns(*self)
__CPROVER_ensures(d_okn(self, DMAX, ZB))
__CPROVER_ensures(d_has(self, g_x) == i_has(*i, g_x))
__CPROVER_ensures(d_bot(self) == i_bot(*i) && d_top(self) == i_top(*i));
void h_d_ctor_interval(void){ IN(I, i); HGHOSTS; D r; N_CTORI(&r, &i); REACH; }
/* approx(): the hull; contains every integer of the value */
//@check id=d_approx fn=_ZNK4crab7domains12dis_intervalIN4ikos8z_numberEE6approxEv props=C08 unwind=6 bounded="<=2 disjuncts" vary=DS:0-3
void N_APPROX(I *ret, D *self)
__CPROVER_requires(FRESH(d_approx, ret, sizeof(I)) && FRESH(d_approx, self, sizeof(D)) && d_ok_in(self) && GRANGE && LOGOFF)
__CPROVER_assigns(*ret)
__CPROVER_ensures(i_ok(*ret) && d_hull_is(self, *ret))
__CPROVER_ensures(d_has(self, g_x) ==> i_has(*ret, g_x));
void h_d_approx(void){ MK_D1(a); HGHOSTS; I r; N_APPROX(&r, &a); REACH; }

/* ================================================================ equality, inclusion */
//@check id=d_eq fn=_ZNK4crab7domains12dis_intervalIN4ikos8z_numberEEeqERKS4_ props=C08,C04 unwind=6 bounded="<=2 disjuncts" vary=DS:0-15
unsigned char N_EQ(D *self, D *x)
__CPROVER_requires(FRESH(d_eq, self, sizeof(D)) && FRESH(d_eq, x, sizeof(D)) && d_ok_in(self) && d_ok_in(x) && GRANGE && LOGOFF)
__CPROVER_assigns()
__CPROVER_ensures((RV != 0) == d_eq(self, x))
__CPROVER_ensures(RV ==> (d_has(self, g_x) == d_has(x, g_x)));
void h_d_eq(void){ MK_D2(a, b); HGHOSTS; N_EQ(&a, &b); REACH; }
/* inclusion: yes with bottom on the left, with top on the right, on equal values; a yes means inclusion of the
 * concretisations; exactly the inclusion of normalised values */
//@check id=d_leq fn=_ZNK4crab7domains12dis_intervalIN4ikos8z_numberEEleERKS4_ props=C08,C04 unwind=6 bounded="<=2 disjuncts" vary=DS:0-15
unsigned char N_LEQ(D *self, D *x)
__CPROVER_requires(FRESH(d_leq, self, sizeof(D)) && FRESH(d_leq, x, sizeof(D)) && d_ok_in(self) && d_ok_in(x) && GRANGE && LOGOFF)
__CPROVER_assigns()
__CPROVER_ensures((RV && d_has(self, g_x)) ==> d_has(x, g_x))
__CPROVER_ensures(d_bot(self) ==> RV)
__CPROVER_ensures(d_top(x) ==> RV)
__CPROVER_ensures(d_eq(self, x) ==> RV)
__CPROVER_ensures((RV != 0) == d_leq(self, x));
void h_d_leq(void){ MK_D2(a, b); HGHOSTS; N_LEQ(&a, &b); REACH; }
/* reflexivity: the same object on both sides */
//@check id=d_leq_refl fn=_ZNK4crab7domains12dis_intervalIN4ikos8z_numberEEleERKS4_ tag=d_leq props=C04 unwind=6 bounded="<=2 disjuncts" vary=DS:0-3
void h_d_leq_refl(void){ MK_D1(a); HGHOSTS; unsigned char r = N_LEQ(&a, &a); __CPROVER_assert(r, "x <= x"); REACH; }


/* ================================================================ binary operations */
/* result well formed (normalised, at most DMAX disjuncts); soundness at the ghost points */
#define DBIN(tag, fn, OKZ, PRE, EXTRA, SOUND) \
void fn(D *ret, D *self, D *x) \
__CPROVER_requires(FRESH(tag, ret, sizeof(D)) && FRESH(tag, self, sizeof(D)) && FRESH(tag, x, sizeof(D))) \
__CPROVER_requires(d_ok_in(self) && d_ok_in(x) && GRANGE && LOGOFF && (PRE)) \
__CPROVER_assigns(*ret) \
__CPROVER_ensures(d_okn(ret, DMAX, OKZ)) \
__CPROVER_ensures(EXTRA) \
__CPROVER_ensures(SOUND); \
void h_##tag(void){ MK_D2(a, b); HGHOSTS; D r; fn(&r, &a, &b); REACH; }
#define IN2 (d_has(self, g_x) && d_has(x, g_y))
#define STRICT ((d_bot(self) || d_bot(x)) ==> d_bot(ret))
//@check id=d_add fn=_ZNK4crab7domains12dis_intervalIN4ikos8z_numberEEplERKS4_ props=C08 unwind=3 defs=DMAX=2 bounded="1 disjunct per operand" vary=DS:10 timeout=900 first_timeout=600 backends=cadical,kissat
//@check id=d_add_12 fn=_ZNK4crab7domains12dis_intervalIN4ikos8z_numberEEplERKS4_ tag=d_add harness=h_d_add props=C08 unwind=4 defs=DMAX=2 bounded="<=2 disjuncts, one operand with 1" vary=DS:11 timeout=900 first_timeout=600 backends=cadical,kissat
DBIN(d_add, _ZNK4crab7domains12dis_intervalIN4ikos8z_numberEEplERKS4_, 2 * ZB, 1, STRICT, IN2 ==> d_has(ret, g_x + g_y))

/* ================================================================ dis_interval(list, normalize) and normalize */
/* a list of intervals as the callers build it: a std::vector<interval> with LN arbitrary elements (any order, overlapping,
 * bottom or top elements allowed) */
typedef struct S_class_std__vector V;
#define V_BEGIN(v) ((v)->f0.f0.f0.f0)
#define V_END(v) ((v)->f0.f0.f0.f1)
#define V_CAP(v) ((v)->f0.f0.f0.f2)
static inline long v_n(const V *v){ return (long)(V_END(v) - V_BEGIN(v)); }
#ifndef LMAX
#define LMAX 4
#endif
static inline bool v_ok(const V *v, long max, i128 z){
  if (V_BEGIN(v) == 0) return V_END(v) == 0;
  long n = v_n(v); if (n < 0 || n > max || V_CAP(v) < V_END(v)) return false;
  bool ok = true;
  for (long i = 0; i < LMAX; i++) if (i < n) ok = ok && i_okz(V_BEGIN(v)[i], z);
  return ok; }
static inline bool v_has(const V *v, i128 g){
  long n = v_n(v); bool m = false;
  for (long i = 0; i < LMAX; i++) if (i < n) m = m || i_has(V_BEGIN(v)[i], g);
  return m; }
static inline bool v_all_bot(const V *v){
  long n = v_n(v); bool m = true;
  for (long i = 0; i < LMAX; i++) if (i < n) m = m && i_bot(V_BEGIN(v)[i]);
  return m; }
#ifndef LN
#define LN 2
#endif
#define MK_V(t, n) V t; static I wit_##t##_e[LMAX]; \
  { I *stg_##t = _Znwm(LMAX * sizeof(I)); V_BEGIN(&t) = stg_##t; V_END(&t) = stg_##t + (n); V_CAP(&t) = stg_##t + (n); \
    for (long i_##t = 0; i_##t < LMAX; i_##t++) if (i_##t < (n)) wit_##t##_e[i_##t] = stg_##t[i_##t]; }
#define N_CTORL _ZN4crab7domains12dis_intervalIN4ikos8z_numberEEC1ESt6vectorINS2_8intervalIS3_EESaIS7_EEb
/* dis_interval(l, true): the normalised value describing exactly the integers of the intervals of l.  A one-element
 * list is taken as it is (callers never pass a single bottom or top interval). */
//@check id=d_ctor_list fn=_ZN4crab7domains12dis_intervalIN4ikos8z_numberEEC1ESt6vectorINS2_8intervalIS3_EESaIS7_EEb props=C08,C04 unwind=4 defs=DMAX=2,LMAX=2 vary=LN:1-2 bounded="list of <=2 intervals" timeout=900 first_timeout=600 backends=cadical,kissat mem=8
void N_CTORL(D *self, V *l, unsigned char normalize)
__CPROVER_requires(FRESH(d_ctor_list, self, sizeof(D)) && FRESH(d_ctor_list, l, sizeof(V)) && v_ok(l, LMAX, ZB) && v_n(l) >= 1 && normalize == 1 && GRANGE && LOGOFF)
__CPROVER_requires(v_n(l) != 1 || (!i_bot(V_BEGIN(l)[0]) && !i_top(V_BEGIN(l)[0])))
__CPROVER_assigns(*self)
__CPROVER_ensures(d_okn(self, DMAX, ZB))
__CPROVER_ensures(d_has(self, g_x) == v_has(l, g_x))
__CPROVER_ensures(d_bot(self) == v_all_bot(l));
void h_d_ctor_list(void){ MK_V(l, LN); HGHOSTS; D r; N_CTORL(&r, &l, 1); REACH; }
