/* Spec functions of units/dis_interval/spec.h.  NO include guard: compiled once under their own names (spec.h, used in
 * contract clauses) and once renamed h<name> (hspec.h, used in harness bodies). */
static inline long d_n(const D *d){ return (long)(D_END(d) - D_BEGIN(d)); }
static inline long v_n(const V *v){ return (long)(V_END(v) - V_BEGIN(v)); }
/* a lies entirely on the left of b with at least one integer in between: a.ub + 1 < b.lb */
static inline bool i_gap(I a, I b){ return !b_inf(a.f1) && !b_inf(b.f0) && bval(a.f1) + 1 < bval(b.f0); }
/* a and b (not bottom) have an integer in common */
static inline bool i_overlap(I a, I b){ return !i_bot(a) && !i_bot(b) && b_le(a.f0, b.f1) && b_le(b.f0, a.f1); }
/* a and b (not bottom) are adjacent: the integer after the last one of a is the first one of b, or the other way round */
static inline bool i_adj1(I a, I b){ return !b_inf(a.f1) && !b_inf(b.f0) && bval(a.f1) + 1 == bval(b.f0); }
static inline bool i_adj(I a, I b){ return i_adj1(a, b) || i_adj1(b, a); }
/* every integer of a (not bottom) is smaller than every integer of b (not bottom) */
static inline bool i_left(I a, I b){ return b_le(a.f1, b.f0) && !b_eq(a.f1, b.f0); }
/* exact meet: bottom, or [max lb, min ub] */
static inline bool i_meet_is(I r, I a, I b){
  if (i_bot(a) || i_bot(b)) return i_bot(r);
  B lo = x_max(a.f0, b.f0), hi = x_min(a.f1, b.f1);
  return b_le(lo, hi) ? i_is(r, lo, hi) : i_bot(r); }
/* exact join: hull */
static inline bool i_join_is(I r, I a, I b){ return i_bot(a) ? i_eq(r, b) : i_bot(b) ? i_eq(r, a) : i_is(r, x_min(a.f0, b.f0), x_max(a.f1, b.f1)); }

/* REPRESENTATION INVARIANT (what normalize() establishes: "non-overlapping sequence of intervals"):
 *  - m_state is BOT, FINITE or TOP; BOT and TOP come with an empty list;
 *  - FINITE: the vector is well formed with 1 <= n <= max elements; every element is a well-formed interval that is
 *    neither bottom nor top; the elements are sorted, pairwise disjoint and NOT adjacent (a.ub + 1 < b.lb for neighbours:
 *    [0,2] | [3,4] is written [0,4]);  finite bounds lie strictly inside (-z, z). */
static inline bool d_okn(const D *d, long max, i128 z){
  if (d->f0 > 2) return false;
  if (d->f0 != D_FIN) return D_BEGIN(d) == D_END(d);
  if (D_BEGIN(d) == 0) return false;
  long n = d_n(d);
  if (n < 1 || n > max || D_CAP(d) < D_END(d)) return false;
  bool ok = true;
  for (long i = 0; i < DMAX; i++)
    if (i < n) ok = ok && i_okz(D_E(d, i), z) && !i_bot(D_E(d, i)) && !i_top(D_E(d, i)) && (i == 0 || i_gap(D_E(d, i - 1), D_E(d, i)));
  return ok; }
static inline bool d_ok_in(const D *d){ return d_okn(d, NIN, ZB); }          /* operands */
/* concretisation: membership in some disjunct */
static inline bool d_has(const D *d, i128 v){
  if (d->f0 == D_TOP) return true;
  if (d->f0 != D_FIN) return false;
  long n = d_n(d); bool m = false;
  for (long i = 0; i < DMAX; i++) if (i < n) m = m || i_has(D_E(d, i), v);
  return m; }
static inline bool d_bot(const D *d){ return d->f0 == D_BOT; }
static inline bool d_top(const D *d){ return d->f0 == D_TOP; }
/* syntactic equality of normalised values */
static inline bool d_eq(const D *a, const D *b){
  if (a->f0 != b->f0) return false;
  if (a->f0 != D_FIN) return true;
  long n = d_n(a); if (n != d_n(b)) return false;
  bool e = true;
  for (long i = 0; i < DMAX; i++) if (i < n) e = e && i_eq(D_E(a, i), D_E(b, i));
  return e; }
/* inclusion of concretisations, decided on normalised values: every disjunct of a lies within one disjunct of b */
static inline bool d_leq(const D *a, const D *b){
  if (a->f0 == D_BOT || b->f0 == D_TOP) return true;
  if (b->f0 == D_BOT || a->f0 == D_TOP) return false;
  long n = d_n(a), m = d_n(b); bool all = true;
  for (long i = 0; i < DMAX; i++) if (i < n) {
    bool some = false;
    for (long j = 0; j < DMAX; j++) if (j < m) some = some || i_leq(D_E(a, i), D_E(b, j));
    all = all && some; }
  return all; }
/* hull: least interval containing the value */
static inline bool d_hull_is(const D *d, I h){
  if (d->f0 == D_BOT) return i_bot(h);
  if (d->f0 == D_TOP) return i_top(h);
  long n = d_n(d);
  return !i_bot(h) && b_eq(h.f0, D_E(d, 0).f0) && b_eq(h.f1, D_E(d, n - 1).f1); }
/* d describes exactly the integers of the single interval h */
static inline bool d_is_interval(const D *d, I h){
  if (i_bot(h)) return d->f0 == D_BOT;
  if (i_top(h)) return d->f0 == D_TOP;
  return d->f0 == D_FIN && d_n(d) == 1 && i_eq(D_E(d, 0), h); }

/* ---- lists of intervals as the callers of dis_interval(list, normalize) build them: any order, overlapping, bottom or
 * top elements allowed */
static inline bool v_ok(const V *v, long max, i128 z){
  if (V_BEGIN(v) == 0) return V_END(v) == 0;
  long n = v_n(v); if (n < 0 || n > max || V_CAP(v) < V_END(v)) return false;
  bool ok = true;
  for (long i = 0; i < LMAX; i++) if (i < n) ok = ok && i_okz(V_BEGIN(v)[i], z);
  return ok; }
static inline bool v_has(const V *v, i128 g){
  long n = v_n(v); bool m = false;
  for (long i = 0; i < LMAX; i++) if (i < n) m = m || i_has(V_BEGIN(v)[i], g);
  return m; }
static inline bool v_all_bot(const V *v){
  long n = v_n(v); bool m = true;
  for (long i = 0; i < LMAX; i++) if (i < n) m = m && i_bot(V_BEGIN(v)[i]);
  return m; }
static inline bool v_any_top(const V *v){
  long n = v_n(v); bool m = false;
  for (long i = 0; i < LMAX; i++) if (i < n) m = m || i_top(V_BEGIN(v)[i]);
  return m; }
/* no element is bottom or top (what operator|, operator& and apply_bin_op hand over) */
static inline bool v_plain(const V *v){
  long n = v_n(v); bool m = true;
  for (long i = 0; i < LMAX; i++) if (i < n) m = m && !i_bot(V_BEGIN(v)[i]) && !i_top(V_BEGIN(v)[i]);
  return m; }
