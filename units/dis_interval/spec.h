/* Specification vocabulary for crab::domains::dis_interval<ikos::z_number> (include/crab/domains/dis_interval.hpp,
 * dis_interval_impl.hpp, lib/dis_interval.cpp): finite unions of disjoint intervals kept in a sorted std::vector.
 * Shared by contracts.c (CBMC) and replay.cpp (native).
 *
 * Bounds and intervals (B, I, b_*, i_ok, i_bot, i_top, i_has, ...) are the vocabulary of units/interval/spec.h; z_number
 * is the integer model models/zmodel.h.
 * D = { f0 = m_state (BOT = 0, FINITE = 1, TOP = 2), f1 = m_list : std::vector<interval> = three pointers (begin, end, end
 * of storage) }.  A value is described through the element array begin[0 .. n-1], n = end - begin.
 * V = std::vector<interval> itself (the lists handed to the private constructor dis_interval(list, normalize)).
 *
 * BOUND: every statement about a dis_interval is made for values with at most DMAX disjuncts (the spec functions are
 * loops of DMAX iterations), every statement about a list for at most LMAX elements; the harnesses build operands with
 * at most NIN disjuncts.
 *
 * This file is included TWICE by contracts.c: once as it is (names used in contract clauses) and once through hspec.h
 * with every function renamed h<name> (names used in harness bodies): dfcc instruments every function reachable from the
 * harness body with an extra write-set parameter, and a function that is also called from a contract clause then gets
 * too few arguments there (cbmc: "not enough arguments", the check never finishes). */
#ifndef DI_SPEC_H
#define DI_SPEC_H
#include "../interval/spec.h"
typedef struct S_class_crab__domains__dis_interval D;
typedef struct S_class_std__vector V;
#ifndef NIN
#define NIN 2                        /* disjuncts per operand built by the harnesses */
#endif
#ifndef DMAX
#define DMAX 4                       /* disjuncts a result may have (2 x 2 pairs, 2 + 2 for join) */
#endif
#ifndef LMAX
#define LMAX 4                       /* elements of a list handed to dis_interval(list, normalize) */
#endif
#define D_BOT 0u
#define D_FIN 1u
#define D_TOP 2u
#define DZ (((i128)1) << 98)         /* largest magnitude of a finite bound anywhere in this unit (number model: 2^100) */
#define D_BEGIN(d) ((d)->f1.f0.f0.f0.f0)
#define D_END(d) ((d)->f1.f0.f0.f0.f1)
#define D_CAP(d) ((d)->f1.f0.f0.f0.f2)
#define D_E(d, i) (D_BEGIN(d)[i])
#define V_BEGIN(v) ((v)->f0.f0.f0.f0)
#define V_END(v) ((v)->f0.f0.f0.f1)
#define V_CAP(v) ((v)->f0.f0.f0.f2)
#include "spec_funs.h"
#endif
