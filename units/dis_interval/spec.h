/* Specification vocabulary for crab::domains::dis_interval<ikos::z_number> (include/crab/domains/dis_interval.hpp,
 * dis_interval_impl.hpp, lib/dis_interval.cpp): finite unions of disjoint intervals kept in a sorted std::vector.
 * Shared by contracts.c (CBMC) and replay.cpp (native).
 *
 * Bounds and intervals (B, I, b_*, i_ok, i_bot, i_top, i_has, ...) are the vocabulary of units/interval/spec.h; z_number
 * is the integer model models/zmodel.h.
 * D = { f0 = m_state (BOT = 0, FINITE = 1, TOP = 2), f1 = m_list : std::vector<interval> = three pointers (begin, end, end
 * of storage) }.  The vector is the REAL libstdc++ std::vector; a value is described through the element array
 * begin[0 .. n-1], n = end - begin.
 *
 * BOUND: every statement about a dis_interval is made for values with at most DMAX disjuncts (the spec functions are
 * loops of DMAX iterations); the harnesses build operands with at most NIN disjuncts. */
#ifndef DI_SPEC_H
#define DI_SPEC_H
#include "../interval/spec.h"
typedef struct S_class_crab__domains__dis_interval D;
#ifndef NIN
#define NIN 2                        /* disjuncts per operand built by the harnesses */
#endif
#ifndef DMAX
#define DMAX 4                       /* disjuncts a result may have (2 x 2 pairs, 2 + 2 for join) */
#endif
#define D_BOT 0u
#define D_FIN 1u
#define D_TOP 2u
#define D_BEGIN(d) ((d)->f1.f0.f0.f0.f0)
#define D_END(d) ((d)->f1.f0.f0.f0.f1)
#define D_CAP(d) ((d)->f1.f0.f0.f0.f2)
#define D_E(d, i) (D_BEGIN(d)[i])
static inline long d_n(const D *d){ return (long)(D_END(d) - D_BEGIN(d)); }
/* a lies entirely on the left of b with at least one integer in between: a.ub + 1 < b.lb */
static inline bool i_gap(I a, I b){ return !b_inf(a.f1) && !b_inf(b.f0) && bval(a.f1) + 1 < bval(b.f0); }

/* REPRESENTATION INVARIANT (what normalize() establishes: "non-overlapping sequence of intervals"):
 *  - m_state is BOT, FINITE or TOP; BOT and TOP come with an empty list;
 *  - FINITE: the vector is well formed with 1 <= n <= max elements; every element is a well-formed interval that is
 *    neither bottom nor top; the elements are sorted, pairwise disjoint and NOT adjacent (a.ub + 1 < b.lb for neighbours:
 *    [0,2] | [3,4] is written [0,4]). */
static inline bool d_okn(const D *d, long max, i128 z){
  if (d->f0 > 2) return false;
  if (d->f0 != D_FIN) return D_BEGIN(d) == D_END(d);
  if (D_BEGIN(d) == 0) return false;
  long n = d_n(d);
  if (n < 1 || n > max || D_CAP(d) < D_END(d)) return false;
  bool ok = true;
  for (long i = 0; i < DMAX; i++)
    if (i < n) ok = ok && i_okz(D_E(d, i), z) && !i_bot(D_E(d, i)) && !i_top(D_E(d, i)) && (i == 0 || i_gap(D_E(d, i - 1), D_E(d, i)));
  return ok; }
static inline bool d_ok_in(const D *d){ return d_okn(d, NIN, ZB); }          /* operands */
/* concretisation: membership in some disjunct */
static inline bool d_has(const D *d, i128 v){
  if (d->f0 == D_TOP) return true;
  if (d->f0 != D_FIN) return false;
  long n = d_n(d); bool m = false;
  for (long i = 0; i < DMAX; i++) if (i < n) m = m || i_has(D_E(d, i), v);
  return m; }
static inline bool d_bot(const D *d){ return d->f0 == D_BOT; }
static inline bool d_top(const D *d){ return d->f0 == D_TOP; }
/* syntactic equality of normalised values */
static inline bool d_eq(const D *a, const D *b){
  if (a->f0 != b->f0) return false;
  if (a->f0 != D_FIN) return true;
  long n = d_n(a); if (n != d_n(b)) return false;
  bool e = true;
  for (long i = 0; i < DMAX; i++) if (i < n) e = e && i_eq(D_E(a, i), D_E(b, i));
  return e; }
/* inclusion of concretisations, decided on normalised values: every disjunct of a lies within one disjunct of b */
static inline bool d_leq(const D *a, const D *b){
  if (a->f0 == D_BOT || b->f0 == D_TOP) return true;
  if (b->f0 == D_BOT || a->f0 == D_TOP) return false;
  long n = d_n(a), m = d_n(b); bool all = true;
  for (long i = 0; i < DMAX; i++) if (i < n) {
    bool some = false;
    for (long j = 0; j < DMAX; j++) if (j < m) some = some || i_leq(D_E(a, i), D_E(b, j));
    all = all && some; }
  return all; }
/* hull: least interval containing the value */
static inline bool d_hull_is(const D *d, I h){
  if (d->f0 == D_BOT) return i_bot(h);
  if (d->f0 == D_TOP) return i_top(h);
  long n = d_n(d);
  return !i_bot(h) && b_eq(h.f0, D_E(d, 0).f0) && b_eq(h.f1, D_E(d, n - 1).f1); }
#endif
