/* Harness twins of the specification vocabulary: the same text as models/zmodel.h, units/interval/spec.h and
 * spec_funs.h, every function renamed h<name>.  Harness bodies use ONLY these (hd_okn, hd_has, ...), contract clauses use
 * ONLY the plain names: dfcc gives every function reachable from the harness body an extra write-set parameter, and a
 * function that is also called from a clause of an enforced or replaced contract then has too few arguments there. */
#ifndef DI_HSPEC_H
#define DI_HSPEC_H
#define ZSET hZSET
#define ZV hZV
#define z_inrange hz_inrange
#define b_eq hb_eq
#define b_inf hb_inf
#define b_is_fin hb_is_fin
#define b_le hb_le
#define b_le_num hb_le_num
#define b_minf hb_minf
#define b_ok hb_ok
#define b_okz hb_okz
#define b_pinf hb_pinf
#define bval hbval
#define fshr128 hfshr128
#define i_bot hi_bot
#define i_eq hi_eq
#define i_has hi_has
#define i_is hi_is
#define i_leq hi_leq
#define i_ok hi_ok
#define i_okz hi_okz
#define i_top hi_top
#define mkfin hmkfin
#define mkinf hmkinf
#define num_le_b hnum_le_b
#define x_add hx_add
#define x_div hx_div
#define x_max hx_max
#define x_min hx_min
#define x_mul hx_mul
#define x_neg hx_neg
#define d_n hd_n
#define v_n hv_n
#define i_gap hi_gap
#define i_overlap hi_overlap
#define i_adj1 hi_adj1
#define i_adj hi_adj
#define i_left hi_left
#define i_meet_is hi_meet_is
#define i_join_is hi_join_is
#define d_okn hd_okn
#define d_ok_in hd_ok_in
#define d_has hd_has
#define d_bot hd_bot
#define d_top hd_top
#define d_eq hd_eq
#define d_leq hd_leq
#define d_hull_is hd_hull_is
#define d_is_interval hd_is_interval
#define v_ok hv_ok
#define v_has hv_has
#define v_all_bot hv_all_bot
#define v_any_top hv_any_top
#define v_plain hv_plain
#undef ZMODEL_H
#undef INTERVAL_SPEC_H
#include "zmodel.h"
#include "../interval/spec.h"
#include "spec_funs.h"
#undef ZSET
#undef ZV
#undef z_inrange
#undef b_eq
#undef b_inf
#undef b_is_fin
#undef b_le
#undef b_le_num
#undef b_minf
#undef b_ok
#undef b_okz
#undef b_pinf
#undef bval
#undef fshr128
#undef i_bot
#undef i_eq
#undef i_has
#undef i_is
#undef i_leq
#undef i_ok
#undef i_okz
#undef i_top
#undef mkfin
#undef mkinf
#undef num_le_b
#undef x_add
#undef x_div
#undef x_max
#undef x_min
#undef x_mul
#undef x_neg
#undef d_n
#undef v_n
#undef i_gap
#undef i_overlap
#undef i_adj1
#undef i_adj
#undef i_left
#undef i_meet_is
#undef i_join_is
#undef d_okn
#undef d_ok_in
#undef d_has
#undef d_bot
#undef d_top
#undef d_eq
#undef d_leq
#undef d_hull_is
#undef d_is_interval
#undef v_ok
#undef v_has
#undef v_all_bot
#undef v_any_top
#undef v_plain
#endif
