// Native replay for unit dis_interval: real crab::domains::dis_interval<z_number> of the working tree.
// Real objects are built from the witness (shape statics wit_<t>_st / _n / _e[i] of the harness macro MK_D, list elements
// wit_l_e[i] of MK_V, ghost points), the real method is called, the result is converted to the model structs of spec.h
// (z_number replaced by a 128-bit integer, the vector by its element array) and the same postcondition is evaluated.
#include <crab/domains/dis_interval.hpp>
#include <crab/domains/dis_interval_impl.hpp>
#include "replay.h"
#include "spec.h"
using namespace ikos;
typedef bound<z_number> RB; typedef interval<z_number> RI; typedef crab::domains::dis_interval<z_number> RD;
static i128 zval(const z_number &z) {
  z_number a = z < z_number(0) ? -z : z; i128 r = 0, m = 1;
  z_number base(1); base = base << z_number(32);
  while (a > z_number(0)) { r += m * (i128)(int64_t)(a % base); a = a / base; m <<= 32; }
  return z < z_number(0) ? -r : r; }
static z_number mkz(i128 v) { bool neg = v < 0; u128 u = neg ? (u128)(-v) : (u128)v; z_number hi = z_number::from_uint64((uint64_t)(u >> 64)), lo = z_number::from_uint64((uint64_t)u);
  z_number r = (hi << z_number(64)) + lo; return neg ? -r : r; }
static i128 wz(const Wit &w, const std::string &p) { return (i128)(((u128)w.u(p + ".f0.a.f1") << 64) | (u128)w.u(p + ".f0.a.f0")); }
static i128 wg(const Wit &w, const char *n) { return (i128)(long long)w.u(n); }   // ghost points of the replayed checks lie in (-2^42, 2^42)
static RB mkb(const Wit &w, const std::string &p) { bool inf = w.u(p + ".f0") != 0; i128 v = wz(w, p + ".f1"); if (inf) return v > 0 ? RB::plus_infinity() : RB::minus_infinity(); return RB(mkz(v)); }
static RI mki(const Wit &w, const std::string &p) { RI r; r._lb = mkb(w, p + ".f0"); r._ub = mkb(w, p + ".f1"); return r; }
static B toB(const RB &b) { return b.is_infinite() ? mkinf(b.is_plus_infinity() ? 1 : -1) : mkfin(zval(*b.number())); }
static I toI(const RI &i) { I m; m.f0 = toB(i._lb); m.f1 = toB(i._ub); return m; }
// real value from the shape witness of MK_D(t, sh)
static RD mkd(const Wit &w, const std::string &t) {
  unsigned st = (unsigned)w.u(t + "_st"); long n = (long)w.u(t + "_n");
  RD d(st == D_BOT ? RD::BOT : st == D_TOP ? RD::TOP : RD::FINITE);
  if (st == D_FIN) for (long i = 0; i < n; i++) d.m_list.push_back(mki(w, t + "_e[" + std::to_string(i) + "]"));
  return d; }
// model struct of a real value (the element array lives as long as the program)
static D toD(const RD &d) {
  D m; m.f0 = d.m_state == RD::BOT ? D_BOT : d.m_state == RD::TOP ? D_TOP : D_FIN;
  long n = (long)d.m_list.size(); I *e = n ? new I[n] : 0;
  for (long i = 0; i < n; i++) e[i] = toI(d.m_list[i]);
  D_BEGIN(&m) = e; D_END(&m) = e + n; D_CAP(&m) = e + n; return m; }
static void showd(const char *n, const RD &d) { crab::outs() << "  " << n << " = " << d << "\n"; }
static void showg(const char *n, i128 v) { printf("  %s = %lld\n", n, (long long)v); }
#define TWO RD a = mkd(wit, "a"), b = mkd(wit, "b"); showd("self", a); showd("x", b); D A = toD(a), Bm = toD(b)
static bool r_leq(const Wit &wit) { TWO; i128 g_x = wg(wit, "g_x"); showg("g_x", g_x); bool r = a <= b; printf("  result = %d\n", r);
  return (!(r && d_has(&A, g_x)) || d_has(&Bm, g_x)) && (!d_bot(&A) || r) && (!d_top(&Bm) || r) && (!d_eq(&A, &Bm) || r) && r == d_leq(&A, &Bm); }
REPLAY(d_leq) { return r_leq(wit); }
REPLAY(d_leq_top) { return r_leq(wit); }
REPLAY(d_leq_refl) { RD a = mkd(wit, "a"); showd("self", a); return a <= a; }
REPLAY(d_eq) { TWO; i128 g_x = wg(wit, "g_x"); bool r = a == b; printf("  result = %d\n", r); return r == d_eq(&A, &Bm) && (!r || d_has(&A, g_x) == d_has(&Bm, g_x)); }
REPLAY(d_join_h) { TWO; i128 g_v = wg(wit, "g_v"); showg("g_v", g_v); RD r = a | b; showd("result", r); D R = toD(r);
  return d_okn(&R, DMAX, ZB) && (!(d_has(&A, g_v) || d_has(&Bm, g_v)) || d_has(&R, g_v)); }
REPLAY(d_meet_h) { TWO; i128 g_v = wg(wit, "g_v"); showg("g_v", g_v); RD r = a & b; showd("result", r); D R = toD(r);
  return d_okn(&R, DMAX, ZB) && d_has(&R, g_v) == (d_has(&A, g_v) && d_has(&Bm, g_v)); }
REPLAY(d_add_h) { TWO; i128 g_x = wg(wit, "g_x"), g_y = wg(wit, "g_y"); showg("g_x", g_x); showg("g_y", g_y); RD r = a + b; showd("result", r); D R = toD(r);
  return d_okn(&R, DMAX, 2 * ZB) && (!(d_bot(&A) || d_bot(&Bm)) || d_bot(&R)) && (!(d_has(&A, g_x) && d_has(&Bm, g_y)) || d_has(&R, g_x + g_y)); }
// dis_interval(list, true): the list elements are wit_l_e[0 .. LN-1]
static bool r_ctor_list(const Wit &wit) {
  long n = wit.defs.count("LN") ? atol(wit.defs.at("LN").c_str()) : 2; i128 g_v = wg(wit, "g_v"); showg("g_v", g_v);
  std::vector<RI> l; bool allbot = true, has = false;
  for (long i = 0; i < n; i++) { RI e = mki(wit, "l_e[" + std::to_string(i) + "]"); crab::outs() << "  l[" << (int)i << "] = [" << e._lb << ", " << e._ub << "]\n"; l.push_back(e); allbot = allbot && i_bot(toI(e)); has = has || i_has(toI(e), g_v); }
  RD r(l, true); showd("result", r); D R = toD(r);
  return d_okn(&R, DMAX, DZ) && d_has(&R, g_v) == has && d_bot(&R) == allbot; }
REPLAY(d_ctor_list) { return r_ctor_list(wit); }
REPLAY(d_ctor_list_h) { return r_ctor_list(wit); }
int main(int argc, char **argv) { return replay_main(argc, argv); }
