// Forcing TU for unit `dis_interval`: no logic of its own.  lib/interval.cpp exactly as it is (the explicit
// instantiations / specialisations of ikos::bound<z_number> and ikos::interval<z_number> that the disjunctive
// intervals call; it must come first: its explicit specialisations have to precede their first use), then
// lib/dis_interval.cpp exactly as it is (explicit instantiation of crab::domains::dis_interval<z_number> and the
// linear_interval_solver_impl specialisations).  Both are reached through the include path of the working tree.
#include <../lib/interval.cpp>
#include <../lib/dis_interval.cpp>
