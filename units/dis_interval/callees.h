/* Contracts of the functions that the members of crab::domains::dis_interval<z_number> CALL, used through
 * --replace-call-with-contract (replace= lists in contracts.c).  Measured without them: one interval operation in line
 * costs 2 000 - 5 000 symbolic-execution steps (C++ temporaries of bound / z_number); dis_interval::operator| on two
 * one-element operands is 335 000 steps / 37 M clauses and does not finish in 10 minutes.
 *
 * (A) members of ikos::interval<z_number> and ikos::bound<z_number> (lib/interval.cpp, interval_impl.hpp):
 *     queries and lattice operations with their EXACT results (is_bottom, is_top, ==, <=, |, &) -- the clauses of
 *     units/interval/contracts.c (i_is_bottom, i_is_top, i_eq, i_leq, i_join: identical text; i_meet: there the meet is
 *     characterised by membership at a ghost point, here by its bounds).  They are PROVED IN THIS UNIT as well (checks
 *     cl_i_*, the bodies are part of this unit through force.cpp) for bounds up to DZ = 2^98, so nothing is assumed.
 *     Arithmetic (+ - * / SRem URem UDiv And Or Xor Shl LShr AShr, unary -, half lines, widening): the SOUNDNESS clauses of
 *     units/interval/contracts.c read at this unit's ghost points (g_x, g_y operands, g_v result).  ASSUMED HERE, PROVED
 *     THERE (for finite bounds below 2^40; `/` in the thorough tier; Shl per shift amount) -- the same arrangement as
 *     units/interval_congruence/callees.h.  Differences of form, none of content: lemma hypotheses of those clauses are
 *     valid facts (dropped); "the result describes op(g_x, g_y)" is written "g_v == op(g_x, g_y) ==> the result
 *     describes g_v".
 * (B) private helpers of dis_interval itself (overlap, are_consecutive, IsOnTheLeft): PROVED IN THIS UNIT (checks
 *     cl_overlap, cl_consec, cl_left), then replaced in normalize / operator|.
 *
 * Pointer preconditions: an argument that is only read is required readable (RD: __CPROVER_r_ok when the contract replaces a
 * call, so that two arguments may be elements of the same vector or the same object); results are fresh objects. */
#ifndef DI_CALLEES_H
#define DI_CALLEES_H
#define RD_0(p, n) __CPROVER_r_ok(p, n)
#define RD_1(p, n) 1
#define RD_SEL(v) FRESH_CAT(RD_, v)
#define RD(tag, p, n) RD_SEL(ENF_##tag)(p, n)
#define RV __CPROVER_return_value
extern i128 g_x, g_y, g_v, g_w;

/* ---------------------------------------------------------------- (A) interval: queries, order, lattice (exact) */
#define IVQ1_CONTRACT(tag, fn, EXPR) \
unsigned char fn(I *self) \
__CPROVER_requires(RD(tag, self, sizeof(I)) && i_okz(*self, DZ)) \
__CPROVER_assigns() \
__CPROVER_ensures((RV != 0) == (EXPR)); \
void h_##tag(void){ IN(I, a); fn(&a); REACH; }
#define IVQ2_CONTRACT(tag, fn, EXPR) \
unsigned char fn(I *self, I *x) \
__CPROVER_requires(RD(tag, self, sizeof(I)) && RD(tag, x, sizeof(I)) && i_okz(*self, DZ) && i_okz(*x, DZ)) \
__CPROVER_assigns() \
__CPROVER_ensures((RV != 0) == (EXPR)); \
void h_##tag(void){ IN(I, a); IN(I, b); fn(&a, &b); REACH; }
#define IVB_CONTRACT(tag, fn, POST) \
void fn(I *ret, I *self, I *x) \
__CPROVER_requires(FRESH(tag, ret, sizeof(I)) && RD(tag, self, sizeof(I)) && RD(tag, x, sizeof(I)) && i_okz(*self, DZ) && i_okz(*x, DZ)) \
__CPROVER_assigns(*ret) \
__CPROVER_ensures(i_okz(*ret, DZ)) \
__CPROVER_ensures(POST); \
void h_##tag(void){ IN(I, a); IN(I, b); I r; fn(&r, &a, &b); REACH; }
#define N_I_ISBOT _ZNK4ikos8intervalINS_8z_numberEE9is_bottomEv
#define N_I_ISTOP _ZNK4ikos8intervalINS_8z_numberEE6is_topEv
#define N_I_EQ    _ZNK4ikos8intervalINS_8z_numberEEeqERKS2_
#define N_I_LEQ   _ZNK4ikos8intervalINS_8z_numberEEleERKS2_
#define N_I_JOIN  _ZNK4ikos8intervalINS_8z_numberEEorERKS2_
#define N_I_MEET  _ZNK4ikos8intervalINS_8z_numberEEanERKS2_
IVQ1_CONTRACT(cl_i_is_bottom, N_I_ISBOT, i_bot(*self))
IVQ1_CONTRACT(cl_i_is_top, N_I_ISTOP, i_top(*self))
IVQ2_CONTRACT(cl_i_eq, N_I_EQ, i_eq(*self, *x))
IVQ2_CONTRACT(cl_i_leq, N_I_LEQ, i_leq(*self, *x))
IVB_CONTRACT(cl_i_join, N_I_JOIN, i_join_is(*ret, *self, *x))
IVB_CONTRACT(cl_i_meet, N_I_MEET, i_meet_is(*ret, *self, *x))

/* ---------------------------------------------------------------- (B) private helpers of dis_interval */
#define N_OVERLAP _ZNK4crab7domains12dis_intervalIN4ikos8z_numberEE7overlapERKNS2_8intervalIS3_EES8_
#define N_CONSEC  _ZNK4crab7domains12dis_intervalIN4ikos8z_numberEE15are_consecutiveERKNS2_8intervalIS3_EES8_
#define N_LEFT    _ZNK4crab7domains11IsOnTheLeftIN4ikos8z_numberEEclERKNS2_8intervalIS3_EES8_
#define DIH_CONTRACT(tag, fn, T, PRE, EXPR) \
unsigned char fn(T *self, I *i1, I *i2) \
__CPROVER_requires(RD(tag, i1, sizeof(I)) && RD(tag, i2, sizeof(I)) && i_okz(*i1, DZ) && i_okz(*i2, DZ) && (PRE)) \
__CPROVER_assigns() \
__CPROVER_ensures((RV != 0) == (EXPR)); \
void h_##tag(void){ IN(I, a); IN(I, b); T t; fn(&t, &a, &b); REACH; }
/* overlap(i1, i2): the two intervals have an integer in common */
DIH_CONTRACT(cl_overlap, N_OVERLAP, D, 1, i_overlap(*i1, *i2))
/* are_consecutive(i1, i2), neither bottom (every caller has excluded bottom before): the intervals are adjacent */
DIH_CONTRACT(cl_consec, N_CONSEC, D, !i_bot(*i1) && !i_bot(*i2), i_adj(*i1, *i2))
/* IsOnTheLeft()(i1, i2), neither bottom: i1 lies strictly on the left of i2 */
typedef struct S_struct_crab__domains__IsOnTheLeft LEFTCMP;
DIH_CONTRACT(cl_left, N_LEFT, LEFTCMP, !i_bot(*i1) && !i_bot(*i2), i_left(*i1, *i2))

/* ---------------------------------------------------------------- (A) interval arithmetic: soundness at the ghost points */
#define GR2 (g_x > -ZB && g_x < ZB && g_y > -ZB && g_y < ZB)
#define GRV (g_v > -DZ && g_v < DZ)
#define UREAD(v) ((v) >= 0 ? (v) : (v) + (((i128)1) << g_w))
#define WRANGE (g_w >= 1 && g_w <= 64 && -g_x < (((i128)1) << g_w) && -g_y < (((i128)1) << g_w))
#define IV_ANYBOT (i_bot(*self) || i_bot(*x))
#define IV_IN2 (i_has(*self, g_x) && i_has(*x, g_y))
#define AT(DEF, V) (GR2 && GRV && IV_IN2 && (DEF) && g_v == (V))
#define IVA_CONTRACT(tag, fn, SOUND) \
void fn(I *ret, I *self, I *x) \
__CPROVER_requires(FRESH(tag, ret, sizeof(I)) && RD(tag, self, sizeof(I)) && RD(tag, x, sizeof(I)) && i_ok(*self) && i_ok(*x)) \
__CPROVER_assigns(*ret) \
__CPROVER_ensures(i_okz(*ret, DZ) && (IV_ANYBOT ==> i_bot(*ret))) \
__CPROVER_ensures(SOUND);
#define IVOP_CONTRACT(tag, fn, DEF, V) IVA_CONTRACT(tag, fn, AT(DEF, V) ==> i_has(*ret, g_v))
IVOP_CONTRACT(cl_i_add, _ZNK4ikos8intervalINS_8z_numberEEplERKS2_, 1, g_x + g_y)
IVOP_CONTRACT(cl_i_sub, _ZNK4ikos8intervalINS_8z_numberEEmiERKS2_, 1, g_x - g_y)
IVOP_CONTRACT(cl_i_mul, _ZNK4ikos8intervalINS_8z_numberEEmlERKS2_, 1, ZM_mul_pure(g_x, g_y))
IVOP_CONTRACT(cl_i_div, _ZNK4ikos8intervalINS_8z_numberEEdvERKS2_, g_y != 0, ZM_div_pure(g_x, g_y))
IVOP_CONTRACT(cl_i_srem, _ZNK4ikos8intervalINS_8z_numberEE4SRemERKS2_, g_y != 0, ZM_rem_pure(g_x, g_y))
IVOP_CONTRACT(cl_i_urem, _ZNK4ikos8intervalINS_8z_numberEE4URemERKS2_, WRANGE && g_y != 0, ZM_rem_pure(UREAD(g_x), UREAD(g_y)))
IVOP_CONTRACT(cl_i_and, _ZNK4ikos8intervalINS_8z_numberEE3AndERKS2_, 1, g_x & g_y)
IVOP_CONTRACT(cl_i_or, _ZNK4ikos8intervalINS_8z_numberEE2OrERKS2_, 1, g_x | g_y)
IVOP_CONTRACT(cl_i_xor, _ZNK4ikos8intervalINS_8z_numberEE3XorERKS2_, 1, g_x ^ g_y)
IVOP_CONTRACT(cl_i_shl, _ZNK4ikos8intervalINS_8z_numberEE3ShlERKS2_, g_y >= 0 && g_y < 59, g_x * (((i128)1) << g_y))
IVOP_CONTRACT(cl_i_ashr, _ZNK4ikos8intervalINS_8z_numberEE4AShrERKS2_, g_y >= 0, fshr128(g_x, g_y))
/* LShr: a negative value stands for an unknown large unsigned reading: the result is then top */
IVA_CONTRACT(cl_i_lshr, _ZNK4ikos8intervalINS_8z_numberEE4LShrERKS2_, AT(g_y >= 0, g_x >= 0 ? fshr128(g_x, g_y) : g_v) ==> (g_x >= 0 ? i_has(*ret, g_v) : i_top(*ret)))
/* widening: contains both operands (units/interval: i_widen) */
IVA_CONTRACT(cl_i_widen, _ZNK4ikos8intervalINS_8z_numberEEooERKS2_, (GRV && (i_has(*self, g_v) || i_has(*x, g_v))) ==> i_has(*ret, g_v))
/* unary: negation, half lines (units/interval: i_neg, i_lower_half, i_upper_half) */
#define IVU_CONTRACT(tag, fn, SOUND) \
void fn(I *ret, I *self) \
__CPROVER_requires(FRESH(tag, ret, sizeof(I)) && RD(tag, self, sizeof(I)) && i_ok(*self)) \
__CPROVER_assigns(*ret) \
__CPROVER_ensures(i_okz(*ret, DZ) && (i_bot(*self) ==> i_bot(*ret))) \
__CPROVER_ensures(SOUND);
IVU_CONTRACT(cl_i_neg, _ZNK4ikos8intervalINS_8z_numberEEngEv, (GR2 && GRV && i_has(*self, g_x) && g_v == -g_x) ==> i_has(*ret, g_v))
IVU_CONTRACT(cl_i_lower_half, _ZNK4ikos8intervalINS_8z_numberEE15lower_half_lineEv, (GR2 && GRV && i_has(*self, g_x) && g_v <= g_x) ==> i_has(*ret, g_v))
IVU_CONTRACT(cl_i_upper_half, _ZNK4ikos8intervalINS_8z_numberEE15upper_half_lineEv, (GR2 && GRV && i_has(*self, g_x) && g_v >= g_x) ==> i_has(*ret, g_v))
#endif
