#ifndef WTONEST_SPEC_H
#define WTONEST_SPEC_H
#include "verif.h"
#ifndef __cplusplus
#include "unit_types.h"
typedef struct S_class_ikos__wto_nesting NEST;     /* f0: shared_ptr<std::vector<label>> = { vector*, refcount* } */
typedef struct S_class_std__vector VEC;            /* three pointers: begin, end, end of storage */
#define V_BEGIN(v) ((v)->f0.f0.f0.f0)
#define V_END(v) ((v)->f0.f0.f0.f1)
#define V_CAP(v) ((v)->f0.f0.f0.f2)
#define N_VEC(n) ((n)->f0.f0.f0)
#define NMAX 3
static inline long n_len(const NEST *n){ return (long)(V_END(N_VEC(n)) - V_BEGIN(N_VEC(n))); }
/* the first k = min(len a, len b) elements agree */
static inline bool n_common(const NEST *a, const NEST *b){
  long la = n_len(a), lb = n_len(b); bool ok = true;
  for (long i = 0; i < NMAX; i++) if (i < la && i < lb) ok = ok && V_BEGIN(N_VEC(a))[i] == V_BEGIN(N_VEC(b))[i];
  return ok; }
/* the code's four-valued comparison, from the meaning of nestings */
static inline int n_cmp(const NEST *a, const NEST *b){
  long la = n_len(a), lb = n_len(b);
  /* the real compare walks a and stops at the first difference or at the end of b */
  bool pre = true; long i;
  for (i = 0; i < NMAX; i++) if (i < la && i < lb && V_BEGIN(N_VEC(a))[i] != V_BEGIN(N_VEC(b))[i]) pre = false;
  if (!pre) return 2;                 /* not comparable */
  if (la == lb) return 0;
  return la < lb ? -1 : 1; }
#endif
#endif
