/* Contracts for ikos::wto_nesting<TCFG>::compare / operator> / operator<= / operator== (wto.hpp) -- C06: "only back edges
 * into the head with deeper nesting are excluded from the initial join" rests on `nesting(pred) > nesting(head)` meaning
 * "pred lies strictly inside head's component".  BOUNDED: at most 3 heads per nesting. */
#include "spec.h"
void *_Znwm(unsigned long);
#define NK(s) _ZNK4ikos11wto_nestingI4TCFGE##s
static VEC h_va, h_vb; static uint64_t wit_la, wit_lb; static uint64_t wit_ea[NMAX], wit_eb[NMAX];
static void mk_nest(NEST *n, VEC *v, uint64_t *wl, uint64_t *we){
  uint8_t k; long len = k; if (len > NMAX) len = NMAX;
  uint64_t *st = _Znwm(NMAX * sizeof(uint64_t));
  V_BEGIN(v) = st; V_END(v) = st + len; V_CAP(v) = st + NMAX; N_VEC(n) = v; n->f0.f0.f1.f0 = 0;
  *wl = len; for (long i = 0; i < NMAX; i++) we[i] = st[i]; }
#define MK NEST a, b; mk_nest(&a, &h_va, &wit_la, wit_ea); mk_nest(&b, &h_vb, &wit_lb, wit_eb); (void)&wit_la; (void)&wit_lb; (void)&wit_ea; (void)&wit_eb
#define N_OK(n) (N_VEC(n) != 0 && V_BEGIN(N_VEC(n)) != 0 && n_len(n) >= 0 && n_len(n) <= NMAX)
//@check id=n_compare fn=_ZNK4ikos11wto_nestingI4TCFGE7compareERS2_ props=C06 unwind=6 bounded="nestings of at most 3 heads"
int32_t NK(7compareERS2_)(NEST *self, NEST *other)
__CPROVER_requires(N_OK(self) && N_OK(other))
__CPROVER_assigns()
__CPROVER_ensures(__CPROVER_return_value == n_cmp(self, other));
void h_n_compare(void){ MK; NK(7compareERS2_)(&a, &b); REACH; }
/* a > b  iff  b is a PROPER PREFIX of a: a is nested strictly deeper, inside the components b is in */
//@check id=n_gt fn=_ZNK4ikos11wto_nestingI4TCFGEgtES2_ props=C06 unwind=6 bounded="nestings of at most 3 heads"
unsigned char NK(gtES2_)(NEST *self, NEST *other)
__CPROVER_requires(N_OK(self) && N_OK(other))
__CPROVER_assigns()
__CPROVER_ensures((__CPROVER_return_value != 0) == (n_len(self) > n_len(other) && n_common(self, other)));
void h_n_gt(void){ MK; NK(gtES2_)(&a, &b); REACH; }
/* a <= b iff a is a prefix of b; a == b iff same sequence */
//@check id=n_le fn=_ZNK4ikos11wto_nestingI4TCFGEleES2_ props=C06 unwind=6 bounded="nestings of at most 3 heads"
unsigned char NK(leES2_)(NEST *self, NEST *other)
__CPROVER_requires(N_OK(self) && N_OK(other))
__CPROVER_assigns()
__CPROVER_ensures((__CPROVER_return_value != 0) == (n_len(self) <= n_len(other) && n_common(self, other)));
void h_n_le(void){ MK; NK(leES2_)(&a, &b); REACH; }
