/* Contracts for bound<z_number> and interval<z_number> — properties C08 (soundness, tightness),
 * C04 (order / lattice operations agree with concretisation), C05 (widening / narrowing). */
#include "spec.h"
i128 g_x, g_y;                      /* ghost concrete points: arbitrary, never assigned by the code */
#define GRANGE (g_x > -ZB && g_x < ZB && g_y > -ZB && g_y < ZB)
#define HGHOSTS GHOSTG(i128, g_x); GHOSTG(i128, g_y)


/* ---- harness-side predicates.  dfcc instruments every function reachable from the harness (extra write-set
 * parameter); a function that is ALSO called from a contract clause then gets too few arguments there and the check
 * never finishes.  So harness code uses these self-contained twins (no calls at all) instead of spec.h functions. */
#define HV(b) ((i128)(((u128)(b).f1.f0.a.f1 << 64) | (u128)(b).f1.f0.a.f0))
#define H_PINF(b) ((b).f0 != 0 && HV(b) > 0)
#define H_MINF(b) ((b).f0 != 0 && HV(b) < 0)
#define H_BLE(a, b) (H_MINF(a) || H_PINF(b) || ((a).f0 == 0 && (b).f0 == 0 && HV(a) <= HV(b)))
#define H_BEQ(a, b) ((((a).f0 != 0) == ((b).f0 != 0)) && HV(a) == HV(b))
#define H_BOT(i) (!H_BLE((i).f0, (i).f1))
#define H_TOP(i) (H_MINF((i).f0) && H_PINF((i).f1))
#define H_LENUM(b, n) ((b).f0 ? HV(b) < 0 : HV(b) <= (n))   /* b <= n */
#define H_NUMLE(n, b) ((b).f0 ? HV(b) > 0 : (n) <= HV(b))   /* n <= b */
/* sign class of an interval: 0 bottom or entirely negative, 1 entirely positive, 2 contains zero */
#define H_SGNCLS(i) (H_BOT(i) ? 0 : H_LENUM((i).f1, -1) ? 0 : H_NUMLE(1, (i).f0) ? 1 : 2)
/* ---------------------------------------------------------------- bound */
#define BFRESH2(tag) (FRESH(tag, self, sizeof(B)) && FRESH(tag, x, sizeof(B)))
#define BCMP(tag, fn, EXPR) \
unsigned char fn(B *self, B *x) \
__CPROVER_requires(BFRESH2(tag) && b_ok(*self) && b_ok(*x)) \
__CPROVER_assigns() \
__CPROVER_ensures((__CPROVER_return_value != 0) == (EXPR)); \
void h_##tag(void){ IN(B, a); IN(B, b); fn(&a, &b); REACH; }
//@check id=b_le fn=_ZNK4ikos5boundINS_8z_numberEEleERKS2_ props=C08,C04
BCMP(b_le, _ZNK4ikos5boundINS_8z_numberEEleERKS2_, b_le(*self, *x))
//@check id=b_ge fn=_ZNK4ikos5boundINS_8z_numberEEgeERKS2_ props=C08,C04
BCMP(b_ge, _ZNK4ikos5boundINS_8z_numberEEgeERKS2_, b_le(*x, *self))
//@check id=b_lt fn=_ZNK4ikos5boundINS_8z_numberEEltERKS2_ props=C08,C04
BCMP(b_lt, _ZNK4ikos5boundINS_8z_numberEEltERKS2_, !b_le(*x, *self))
//@check id=b_gt fn=_ZNK4ikos5boundINS_8z_numberEEgtERKS2_ props=C08,C04
BCMP(b_gt, _ZNK4ikos5boundINS_8z_numberEEgtERKS2_, !b_le(*self, *x))
//@check id=b_eq fn=_ZNK4ikos5boundINS_8z_numberEEeqERKS2_ props=C08,C04
BCMP(b_eq, _ZNK4ikos5boundINS_8z_numberEEeqERKS2_, b_eq(*self, *x))
//@check id=b_ne fn=_ZNK4ikos5boundINS_8z_numberEEneERKS2_ props=C08,C04
BCMP(b_ne, _ZNK4ikos5boundINS_8z_numberEEneERKS2_, !b_eq(*self, *x))

#define BBIN(tag, fn, EXTRA, POSTEXPR) \
void fn(B *ret, B *self, B *x) \
__CPROVER_requires(FRESH(tag, ret, sizeof(B)) && BFRESH2(tag) && b_ok(*self) && b_ok(*x) && (EXTRA)) \
__CPROVER_assigns(*ret) \
__CPROVER_ensures(b_okz(*ret, ZLIM) && (POSTEXPR)); \
void h_##tag(void){ IN(B, a); IN(B, b); B r; fn(&r, &a, &b); REACH; }
/* -oo + +oo is undefined (CRAB_ERROR): excluded by the precondition, which every interval caller must establish */
#define OPPOSITE_INF(a, b) ((b_pinf(a) && b_minf(b)) || (b_minf(a) && b_pinf(b)))
//@check id=b_add fn=_ZNK4ikos5boundINS_8z_numberEEplERKS2_ props=C08
BBIN(b_add, _ZNK4ikos5boundINS_8z_numberEEplERKS2_, !OPPOSITE_INF(*self, *x), b_eq(*ret, x_add(*self, *x)))
//@check id=b_sub fn=_ZNK4ikos5boundINS_8z_numberEEmiERKS2_ props=C08
BBIN(b_sub, _ZNK4ikos5boundINS_8z_numberEEmiERKS2_, !OPPOSITE_INF(*self, x_neg(*x)), b_eq(*ret, x_add(*self, x_neg(*x))))
//@check id=b_mul fn=_ZNK4ikos5boundINS_8z_numberEEmlERKS2_ props=C08
BBIN(b_mul, _ZNK4ikos5boundINS_8z_numberEEmlERKS2_, 1, b_eq(*ret, x_mul(*self, *x)))
//@check id=b_min2 fn=_ZN4ikos5boundINS_8z_numberEE3minERKS2_S4_ props=C08
BBIN(b_min2, _ZN4ikos5boundINS_8z_numberEE3minERKS2_S4_, 1, b_eq(*ret, x_min(*self, *x)))
//@check id=b_max2 fn=_ZN4ikos5boundINS_8z_numberEE3maxERKS2_S4_ props=C08
BBIN(b_max2, _ZN4ikos5boundINS_8z_numberEE3maxERKS2_S4_, 1, b_eq(*ret, x_max(*self, *x)))
//@check id=b_neg fn=_ZNK4ikos5boundINS_8z_numberEEngEv props=C08
void _ZNK4ikos5boundINS_8z_numberEEngEv(B *ret, B *self)
__CPROVER_requires(FRESH(b_neg, ret, sizeof(B)) && FRESH(b_neg, self, sizeof(B)) && b_ok(*self))
__CPROVER_assigns(*ret)
__CPROVER_ensures(b_ok(*ret) && b_eq(*ret, x_neg(*self)));
void h_b_neg(void){ IN(B, a); B r; _ZNK4ikos5boundINS_8z_numberEEngEv(&r, &a); REACH; }

/* ---------------------------------------------------------------- interval: order and lattice */
#define IFRESH2(tag) (FRESH(tag, self, sizeof(I)) && FRESH(tag, x, sizeof(I)))
#define IQUERY(tag, fn, EXPR) \
unsigned char fn(I *self) \
__CPROVER_requires(FRESH(tag, self, sizeof(I)) && i_ok(*self) && TOP(tag, GRANGE)) \
__CPROVER_assigns() \
__CPROVER_ensures((__CPROVER_return_value != 0) == (EXPR)) \
__CPROVER_ensures(TOP(tag, QSEM)); \
void h_##tag(void){ IN(I, a); HGHOSTS; fn(&a); REACH; }
/* is_bottom() <=> the interval has no element (witness: a finite bound, or 0 when both are infinite) */
#define QSEM ((__CPROVER_return_value ? !i_has(*self, g_x) : i_has(*self, !b_inf(self->f0) ? bval(self->f0) : !b_inf(self->f1) ? bval(self->f1) : 0)))
//@check id=i_is_bottom fn=_ZNK4ikos8intervalINS_8z_numberEE9is_bottomEv props=C08,C04
IQUERY(i_is_bottom, _ZNK4ikos8intervalINS_8z_numberEE9is_bottomEv, i_bot(*self))
#undef QSEM
/* is_top() => every integer is an element */
#define QSEM (!__CPROVER_return_value || i_has(*self, g_x))
//@check id=i_is_top fn=_ZNK4ikos8intervalINS_8z_numberEE6is_topEv props=C08,C04
IQUERY(i_is_top, _ZNK4ikos8intervalINS_8z_numberEE6is_topEv, i_top(*self))
#undef QSEM

//@check id=i_top fn=_ZN4ikos8intervalINS_8z_numberEE3topEv props=C08,C04
void _ZN4ikos8intervalINS_8z_numberEE3topEv(I *ret)
__CPROVER_requires(FRESH(i_top, ret, sizeof(I)))
__CPROVER_assigns(*ret)
__CPROVER_ensures(i_ok(*ret) && i_top(*ret) && !i_bot(*ret));
void h_i_top(void){ I r; _ZN4ikos8intervalINS_8z_numberEE3topEv(&r); REACH; }
//@check id=i_bottom fn=_ZN4ikos8intervalINS_8z_numberEE6bottomEv props=C08,C04
void _ZN4ikos8intervalINS_8z_numberEE6bottomEv(I *ret)
__CPROVER_requires(FRESH(i_bottom, ret, sizeof(I)))
__CPROVER_assigns(*ret)
__CPROVER_ensures(i_ok(*ret) && i_bot(*ret) && !i_top(*ret));
void h_i_bottom(void){ I r; _ZN4ikos8intervalINS_8z_numberEE6bottomEv(&r); REACH; }

/* inclusion: exact characterisation, and the semantic reading of a `yes` */
//@check id=i_leq fn=_ZNK4ikos8intervalINS_8z_numberEEleERKS2_ props=C08,C04
unsigned char _ZNK4ikos8intervalINS_8z_numberEEleERKS2_(I *self, I *x)
__CPROVER_requires(IFRESH2(i_leq) && i_ok(*self) && i_ok(*x) && TOP(i_leq, GRANGE))
__CPROVER_assigns()
__CPROVER_ensures((__CPROVER_return_value != 0) == i_leq(*self, *x))
__CPROVER_ensures(TOP(i_leq, (__CPROVER_return_value && i_has(*self, g_x)) ==> i_has(*x, g_x)))
__CPROVER_ensures(i_bot(*self) ==> __CPROVER_return_value)
__CPROVER_ensures(i_top(*x) ==> __CPROVER_return_value);
void h_i_leq(void){ IN(I, a); IN(I, b); HGHOSTS; _ZNK4ikos8intervalINS_8z_numberEEleERKS2_(&a, &b); REACH; }
/* reflexivity: the same object on both sides */
//@check id=i_leq_refl fn=_ZNK4ikos8intervalINS_8z_numberEEleERKS2_ tag=i_leq props=C04
void h_i_leq_refl(void){ IN(I, a); HGHOSTS; unsigned char r = _ZNK4ikos8intervalINS_8z_numberEEleERKS2_(&a, &a); __CPROVER_assert(r, "x <= x"); REACH; }
//@check id=i_eq fn=_ZNK4ikos8intervalINS_8z_numberEEeqERKS2_ props=C08,C04
unsigned char _ZNK4ikos8intervalINS_8z_numberEEeqERKS2_(I *self, I *x)
__CPROVER_requires(IFRESH2(i_eq) && i_ok(*self) && i_ok(*x))
__CPROVER_assigns()
__CPROVER_ensures((__CPROVER_return_value != 0) == i_eq(*self, *x));
void h_i_eq(void){ IN(I, a); IN(I, b); _ZNK4ikos8intervalINS_8z_numberEEeqERKS2_(&a, &b); REACH; }

#define IBIN(tag, fn, OKZ, EXACT, SOUND) \
void fn(I *ret, I *self, I *x) \
__CPROVER_requires(FRESH(tag, ret, sizeof(I)) && IFRESH2(tag) && i_ok(*self) && i_ok(*x) && TOP(tag, GRANGE)) \
__CPROVER_assigns(*ret) \
__CPROVER_ensures(i_okz(*ret, OKZ)) \
__CPROVER_ensures(EXACT) \
__CPROVER_ensures(TOP(tag, SOUND)); \
void h_##tag(void){ IN(I, a); IN(I, b); HGHOSTS; I r; fn(&r, &a, &b); REACH; }
#define LB(p) ((p)->f0)
#define UB(p) ((p)->f1)
#define ANYBOT (i_bot(*self) || i_bot(*x))
/* join = hull (least interval containing both) */
//@check id=i_join fn=_ZNK4ikos8intervalINS_8z_numberEEorERKS2_ props=C08,C04
IBIN(i_join, _ZNK4ikos8intervalINS_8z_numberEEorERKS2_, ZB,
     i_bot(*self) ? i_eq(*ret, *x) : i_bot(*x) ? i_eq(*ret, *self) : i_is(*ret, x_min(LB(self), LB(x)), x_max(UB(self), UB(x))),
     (i_has(*self, g_x) || i_has(*x, g_x)) ==> i_has(*ret, g_x))
/* meet = intersection, exactly */
//@check id=i_meet fn=_ZNK4ikos8intervalINS_8z_numberEEanERKS2_ props=C08,C04
IBIN(i_meet, _ZNK4ikos8intervalINS_8z_numberEEanERKS2_, ZB,
     1, i_has(*ret, g_x) == (i_has(*self, g_x) && i_has(*x, g_x)))
/* widening: an upper bound; each bound is kept or jumps to infinity; stationary when the argument is included;
 * otherwise the number of infinite bounds strictly grows (rank <= 2) */
static inline int i_rank(I i){ return i_bot(i) ? 0 : 1 + (b_inf(i.f0) ? 1 : 0) + (b_inf(i.f1) ? 1 : 0); }
//@check id=i_widen fn=_ZNK4ikos8intervalINS_8z_numberEEooERKS2_ props=C08,C05
IBIN(i_widen, _ZNK4ikos8intervalINS_8z_numberEEooERKS2_, ZB,
     (i_leq(*x, *self) ==> i_eq(*ret, *self)) && (!i_leq(*x, *self) ==> i_rank(*ret) > i_rank(*self)) && i_rank(*ret) <= 3
       && (!ANYBOT ==> ((b_eq(LB(ret), LB(self)) || b_minf(LB(ret))) && (b_eq(UB(ret), UB(self)) || b_pinf(UB(ret))))),
     (i_has(*self, g_x) || i_has(*x, g_x)) ==> i_has(*ret, g_x))
/* narrowing of a decreasing pair keeps every element of the second argument and stays below the first */
//@check id=i_narrow fn=_ZNK4ikos8intervalINS_8z_numberEEaaERKS2_ props=C08,C05
IBIN(i_narrow, _ZNK4ikos8intervalINS_8z_numberEEaaERKS2_, ZB,
     i_leq(*x, *self) ==> (i_leq(*ret, *self) && i_leq(*x, *ret)),
     (i_leq(*x, *self) && i_has(*x, g_x)) ==> i_has(*ret, g_x))

/* ---------------------------------------------------------------- interval: arithmetic (sound and tight) */
//@check id=i_add fn=_ZNK4ikos8intervalINS_8z_numberEEplERKS2_ props=C08
IBIN(i_add, _ZNK4ikos8intervalINS_8z_numberEEplERKS2_, 2 * ZB,
     ANYBOT ? i_bot(*ret) : i_is(*ret, x_add(LB(self), LB(x)), x_add(UB(self), UB(x))),
     (i_has(*self, g_x) && i_has(*x, g_y)) ==> i_has(*ret, g_x + g_y))
//@check id=i_sub fn=_ZNK4ikos8intervalINS_8z_numberEEmiERKS2_ props=C08
IBIN(i_sub, _ZNK4ikos8intervalINS_8z_numberEEmiERKS2_, 2 * ZB,
     ANYBOT ? i_bot(*ret) : i_is(*ret, x_add(LB(self), x_neg(UB(x))), x_add(UB(self), x_neg(LB(x)))),
     (i_has(*self, g_x) && i_has(*x, g_y)) ==> i_has(*ret, g_x - g_y))
//@check id=i_neg fn=_ZNK4ikos8intervalINS_8z_numberEEngEv props=C08
void _ZNK4ikos8intervalINS_8z_numberEEngEv(I *ret, I *self)
__CPROVER_requires(FRESH(i_neg, ret, sizeof(I)) && FRESH(i_neg, self, sizeof(I)) && i_ok(*self) && TOP(i_neg, GRANGE))
__CPROVER_assigns(*ret)
__CPROVER_ensures(i_ok(*ret))
__CPROVER_ensures(i_bot(*self) ? i_bot(*ret) : i_is(*ret, x_neg(UB(self)), x_neg(LB(self))))
__CPROVER_ensures(TOP(i_neg, i_has(*self, g_x) ==> i_has(*ret, -g_x)));
void h_i_neg(void){ IN(I, a); HGHOSTS; I r; _ZNK4ikos8intervalINS_8z_numberEEngEv(&r, &a); REACH; }

/* multiplication: result bounds are the min / max of the four corner products in extended arithmetic with 0 * oo = 0
 * (exact, hence tight); soundness = that exact formula + ONE instance of the corner lemma
 * lemmas/interval_mul_corner.smt2 (proved over the mathematical integers by z3 and cvc5 on every run).
 * Multiplication itself is the uninterpreted symbol of models/zmodel.c. */
#define M ZM_mul_pure
#define CORNERS_MIN x_min(x_min(x_mul(LB(self), LB(x)), x_mul(LB(self), UB(x))), x_min(x_mul(UB(self), LB(x)), x_mul(UB(self), UB(x))))
#define CORNERS_MAX x_max(x_max(x_mul(LB(self), LB(x)), x_mul(LB(self), UB(x))), x_max(x_mul(UB(self), LB(x)), x_mul(UB(self), UB(x))))
static inline bool CORNER_MUL(I s, I x, i128 gx, i128 gy){
  if (i_bot(s) || i_bot(x) || !i_has(s, gx) || !i_has(x, gy)) return true;
  i128 p = M(gx, gy);
  B ll = x_mul(s.f0, x.f0), lu = x_mul(s.f0, x.f1), ul = x_mul(s.f1, x.f0), uu = x_mul(s.f1, x.f1);
  return (b_le_num(ll, p) || b_le_num(lu, p) || b_le_num(ul, p) || b_le_num(uu, p))
      && (num_le_b(p, ll) || num_le_b(p, lu) || num_le_b(p, ul) || num_le_b(p, uu)); }
//@check id=i_mul fn=_ZNK4ikos8intervalINS_8z_numberEEmlERKS2_ props=C08 timeout=900 first_timeout=400 backends=minisat,kissat cost=9
IBIN(i_mul, _ZNK4ikos8intervalINS_8z_numberEEmlERKS2_, ZLIM,
     ANYBOT ? i_bot(*ret) : i_is(*ret, CORNERS_MIN, CORNERS_MAX),
     (i_has(*self, g_x) && i_has(*x, g_y) && CORNER_MUL(*self, *x, g_x, g_y)) ==> i_has(*ret, M(g_x, g_y)))

/* ---------------------------------------------------------------- bound: remaining operations */
/* division, divisor != 0 (a zero divisor is a CRAB_ERROR); finite / infinite = 0 by convention */
//@check id=b_div fn=_ZNK4ikos5boundINS_8z_numberEEdvERKS2_ props=C08
BBIN(b_div, _ZNK4ikos5boundINS_8z_numberEEdvERKS2_, bval(*x) != 0, b_eq(*ret, x_div(*self, *x)))
//@check id=b_abs fn=_ZNK4ikos5boundINS_8z_numberEE3absEv props=C08
void _ZNK4ikos5boundINS_8z_numberEE3absEv(B *ret, B *self)
__CPROVER_requires(FRESH(b_abs, ret, sizeof(B)) && FRESH(b_abs, self, sizeof(B)) && b_ok(*self))
__CPROVER_assigns(*ret)
__CPROVER_ensures(b_ok(*ret) && b_eq(*ret, b_le(mkfin(0), *self) ? *self : x_neg(*self)));
void h_b_abs(void){ IN(B, a); B r; _ZNK4ikos5boundINS_8z_numberEE3absEv(&r, &a); REACH; }
#define BTER(tag, fn, POSTEXPR) \
void fn(B *ret, B *self, B *x, B *y) \
__CPROVER_requires(FRESH(tag, ret, sizeof(B)) && BFRESH2(tag) && FRESH(tag, y, sizeof(B)) && b_ok(*self) && b_ok(*x) && b_ok(*y)) \
__CPROVER_assigns(*ret) \
__CPROVER_ensures(b_ok(*ret) && (POSTEXPR)); \
void h_##tag(void){ IN(B, a); IN(B, b); IN(B, c); B r; fn(&r, &a, &b, &c); REACH; }
//@check id=b_min3 fn=_ZN4ikos5boundINS_8z_numberEE3minERKS2_S4_S4_ props=C08
BTER(b_min3, _ZN4ikos5boundINS_8z_numberEE3minERKS2_S4_S4_, b_eq(*ret, x_min(*self, x_min(*x, *y))))
//@check id=b_max3 fn=_ZN4ikos5boundINS_8z_numberEE3maxERKS2_S4_S4_ props=C08
BTER(b_max3, _ZN4ikos5boundINS_8z_numberEE3maxERKS2_S4_S4_, b_eq(*ret, x_max(*self, x_max(*x, *y))))
#define BQUA(tag, fn, POSTEXPR) \
void fn(B *ret, B *self, B *x, B *y, B *z) \
__CPROVER_requires(FRESH(tag, ret, sizeof(B)) && BFRESH2(tag) && FRESH(tag, y, sizeof(B)) && FRESH(tag, z, sizeof(B)) && b_ok(*self) && b_ok(*x) && b_ok(*y) && b_ok(*z)) \
__CPROVER_assigns(*ret) \
__CPROVER_ensures(b_ok(*ret) && (POSTEXPR)); \
void h_##tag(void){ IN(B, a); IN(B, b); IN(B, c); IN(B, d); B r; fn(&r, &a, &b, &c, &d); REACH; }
//@check id=b_min4 fn=_ZN4ikos5boundINS_8z_numberEE3minERKS2_S4_S4_S4_ props=C08
BQUA(b_min4, _ZN4ikos5boundINS_8z_numberEE3minERKS2_S4_S4_S4_, b_eq(*ret, x_min(x_min(*self, *x), x_min(*y, *z))))
//@check id=b_max4 fn=_ZN4ikos5boundINS_8z_numberEE3maxERKS2_S4_S4_S4_ props=C08
BQUA(b_max4, _ZN4ikos5boundINS_8z_numberEE3maxERKS2_S4_S4_S4_, b_eq(*ret, x_max(x_max(*self, *x), x_max(*y, *z))))
/* bound(bool is_infinite, z n): an infinite bound is normalised to +1 / -1 by the sign of n */
//@check id=b_ctor_flag fn=_ZN4ikos5boundINS_8z_numberEEC2EbS1_ props=C08
void _ZN4ikos5boundINS_8z_numberEEC2EbS1_(B *self, unsigned char is_inf, Z *n)
__CPROVER_requires(FRESH(b_ctor_flag, self, sizeof(B)) && FRESH(b_ctor_flag, n, sizeof(Z)) && is_inf <= 1 && ZV(n) > -ZB && ZV(n) < ZB)
__CPROVER_assigns(*self)
__CPROVER_ensures(b_ok(*self) && (is_inf ? (ZV(n) > 0 ? b_pinf(*self) : b_minf(*self)) : b_is_fin(*self, ZV(n))));
void h_b_ctor_flag(void){ IN(Z, n); GHOST(unsigned char, f); B r; _ZN4ikos5boundINS_8z_numberEEC2EbS1_(&r, f, &n); REACH; }

/* ---------------------------------------------------------------- interval: constructors and queries */
//@check id=i_ctor2 fn=_ZN4ikos8intervalINS_8z_numberEEC2ENS_5boundIS1_EES4_ props=C08,C04
void _ZN4ikos8intervalINS_8z_numberEEC2ENS_5boundIS1_EES4_(I *self, B *lb, B *ub)
__CPROVER_requires(FRESH(i_ctor2, self, sizeof(I)) && FRESH(i_ctor2, lb, sizeof(B)) && FRESH(i_ctor2, ub, sizeof(B)) && b_ok(*lb) && b_ok(*ub) && TOP(i_ctor2, GRANGE))
/* a caller never builds [+oo, _] or [_, -oo] (it would denote no integer yet not be bottom) */
__CPROVER_requires(!b_pinf(*lb) && !b_minf(*ub))
__CPROVER_assigns(*self)
__CPROVER_ensures(i_ok(*self))
__CPROVER_ensures(b_le(*lb, *ub) ? i_is(*self, *lb, *ub) : i_bot(*self))
__CPROVER_ensures(TOP(i_ctor2, i_has(*self, g_x) == (b_le_num(*lb, g_x) && num_le_b(g_x, *ub))));
void h_i_ctor2(void){ IN(B, lo); IN(B, hi); HGHOSTS; I r; _ZN4ikos8intervalINS_8z_numberEEC2ENS_5boundIS1_EES4_(&r, &lo, &hi); REACH; }
//@check id=i_ctor_z fn=_ZN4ikos8intervalINS_8z_numberEEC2ES1_ props=C08
void _ZN4ikos8intervalINS_8z_numberEEC2ES1_(I *self, Z *n)
__CPROVER_requires(FRESH(i_ctor_z, self, sizeof(I)) && FRESH(i_ctor_z, n, sizeof(Z)) && ZV(n) > -ZB && ZV(n) < ZB && TOP(i_ctor_z, GRANGE))
__CPROVER_assigns(*self)
__CPROVER_ensures(i_ok(*self) && i_is(*self, mkfin(ZV(n)), mkfin(ZV(n))))
__CPROVER_ensures(TOP(i_ctor_z, i_has(*self, g_x) == (g_x == ZV(n))));
void h_i_ctor_z(void){ IN(Z, n); HGHOSTS; I r; _ZN4ikos8intervalINS_8z_numberEEC2ES1_(&r, &n); REACH; }
//@check id=i_ctor_default fn=_ZN4ikos8intervalINS_8z_numberEEC2Ev props=C08,C04
void _ZN4ikos8intervalINS_8z_numberEEC2Ev(I *self)
__CPROVER_requires(FRESH(i_ctor_default, self, sizeof(I)))
__CPROVER_assigns(*self)
__CPROVER_ensures(i_ok(*self) && i_bot(*self));
void h_i_ctor_default(void){ I r; _ZN4ikos8intervalINS_8z_numberEEC2Ev(&r); REACH; }
/* membership test = concretisation predicate: ties the oracle to the class's own reading */
//@check id=i_contains fn=_ZNK4ikos8intervalINS_8z_numberEEixES1_ props=C08,C04
unsigned char _ZNK4ikos8intervalINS_8z_numberEEixES1_(I *self, Z *n)
__CPROVER_requires(FRESH(i_contains, self, sizeof(I)) && FRESH(i_contains, n, sizeof(Z)) && i_ok(*self) && ZV(n) > -ZB && ZV(n) < ZB)
__CPROVER_assigns()
__CPROVER_ensures((__CPROVER_return_value != 0) == i_has(*self, ZV(n)));
void h_i_contains(void){ IN(I, a); IN(Z, n); _ZNK4ikos8intervalINS_8z_numberEEixES1_(&a, &n); REACH; }
/* half lines: {y | y <= some x in self} and {y | y >= some x in self} */
#define IUN(tag, fn, SOUND) \
void fn(I *ret, I *self) \
__CPROVER_requires(FRESH(tag, ret, sizeof(I)) && FRESH(tag, self, sizeof(I)) && i_ok(*self) && GRANGE) \
__CPROVER_assigns(*ret) \
__CPROVER_ensures(i_ok(*ret)) \
__CPROVER_ensures(SOUND); \
void h_##tag(void){ IN(I, a); HGHOSTS; I r; fn(&r, &a); REACH; }
//@check id=i_lower_half fn=_ZNK4ikos8intervalINS_8z_numberEE15lower_half_lineEv props=C08
IUN(i_lower_half, _ZNK4ikos8intervalINS_8z_numberEE15lower_half_lineEv, (i_has(*self, g_x) && g_y <= g_x) ==> i_has(*ret, g_y))
//@check id=i_upper_half fn=_ZNK4ikos8intervalINS_8z_numberEE15upper_half_lineEv props=C08
IUN(i_upper_half, _ZNK4ikos8intervalINS_8z_numberEE15upper_half_lineEv, (i_has(*self, g_x) && g_y >= g_x) ==> i_has(*ret, g_y))

/* ---------------------------------------------------------------- interval: division and remainders */
#define D ZM_div_pure
/* Soundness of division = what the code computes in each of its cases + instances of the two lemmas of
 * lemmas/interval_div_corner.smt2 at the very operand pairs the (recursive) algorithm reaches:
 *   CORNER: divisor interval without zero: the quotient lies between the least and the greatest corner quotient;
 *   SINGLE: singleton divisor c != 0: the quotient lies between lb/c and ub/c (swapped for c < 0).
 * DIVHYP mirrors the case analysis of operator/ (singleton divisor; divisor containing zero -> split [c,-1],[1,d];
 * dividend containing zero -> split [a,-1],[1,b]; else corners).  Nothing else about division is used. */
/* written over scalars (inf flag, value) with macros only: spec functions are instrumented by dfcc, so nested calls
 * with struct arguments are expensive */
#define LENUM(bi, bv, n) ((bi) ? (bv) < 0 : (bv) <= (n))        /* bound <= n */
#define NUMLE(n, bi, bv) ((bi) ? (bv) > 0 : (n) <= (bv))        /* n <= bound */
#define XDV(ai, av, bi, bv) (!(ai) && !(bi) ? D(av, bv) : !(ai) ? (i128)0 : !(bi) ? ((bv) > 0 ? (av) : -(av)) : ((((av) > 0) == ((bv) > 0)) ? (i128)1 : (i128)-1))  /* value of x_div */
#define XDI(ai, bi) ((ai) != 0)                                  /* x_div(a, b) is infinite iff a is */
#define HASB(ai, av, bi, bv, g) (LENUM(ai, av, g) && NUMLE(g, bi, bv))
#define NOZERO(ci, cv, di, dv) ((!(ci) && (cv) >= 1) || (!(di) && (dv) <= -1))
#define ISSINGLE(ci, cv, di, dv) (!(ci) && !(di) && (cv) == (dv))
#define HASZERO(ci, cv, di, dv) (LENUM(ci, cv, 0) && NUMLE(0, di, dv))
static inline bool CORNER_DIV(bool ai, i128 av, bool bi, i128 bv, bool ci, i128 cv, bool di, i128 dv, i128 gx, i128 gy){
  if (!(HASB(ai, av, bi, bv, gx) && HASB(ci, cv, di, dv, gy) && NOZERO(ci, cv, di, dv))) return true;
  i128 q = D(gx, gy);
  i128 ll = XDV(ai, av, ci, cv), lu = XDV(ai, av, di, dv), ul = XDV(bi, bv, ci, cv), uu = XDV(bi, bv, di, dv);
  return (LENUM(XDI(ai, ci), ll, q) || LENUM(XDI(ai, di), lu, q) || LENUM(XDI(bi, ci), ul, q) || LENUM(XDI(bi, di), uu, q))
      && (NUMLE(q, XDI(ai, ci), ll) || NUMLE(q, XDI(ai, di), lu) || NUMLE(q, XDI(bi, ci), ul) || NUMLE(q, XDI(bi, di), uu)); }
static inline bool SINGLE_DIV(bool ai, i128 av, bool bi, i128 bv, i128 c, i128 gx){
  if (!(HASB(ai, av, bi, bv, gx) && c != 0)) return true;
  i128 q = D(gx, c);
  i128 lo = XDV(ai, av, false, c), hi = XDV(bi, bv, false, c);
  return c > 0 ? (LENUM(XDI(ai, false), lo, q) && NUMLE(q, XDI(bi, false), hi)) : (LENUM(XDI(bi, false), hi, q) && NUMLE(q, XDI(ai, false), lo)); }
/* level 2: neither operand needs splitting any more */
#define DIVHYP2(ai, av, bi, bv, ci, cv, di, dv, gx, gy) (ISSINGLE(ci, cv, di, dv) ? SINGLE_DIV(ai, av, bi, bv, cv, gx) : CORNER_DIV(ai, av, bi, bv, ci, cv, di, dv, gx, gy))
/* level 1: divisor [c,d] without zero (or singleton); the dividend may contain zero */
#define DIVHYP1(ai, av, bi, bv, ci, cv, di, dv, gx, gy) ((ISSINGLE(ci, cv, di, dv) || !HASZERO(ai, av, bi, bv)) ? DIVHYP2(ai, av, bi, bv, ci, cv, di, dv, gx, gy) \
   : (DIVHYP2(ai, av, false, (i128)-1, ci, cv, di, dv, gx, gy) && DIVHYP2(false, (i128)1, bi, bv, ci, cv, di, dv, gx, gy)))
/* level 0: general */
static inline bool DIVHYP(const I *s, const I *x, i128 gx, i128 gy){
  bool ai = s->f0.f0 != 0, bi = s->f1.f0 != 0, ci = x->f0.f0 != 0, di = x->f1.f0 != 0;
  i128 av = ZV(&s->f0.f1), bv = ZV(&s->f1.f1), cv = ZV(&x->f0.f1), dv = ZV(&x->f1.f1);
  if (!(LENUM(ai, av, 0) || NUMLE(0, bi, bv) || true)) return true;
  if (gx == 0 && D(gx, gy) != 0) return false;          /* schema D1 of lemmas/zm_sign_rules.smt2: 0 / y = 0 */
  if (ISSINGLE(ci, cv, di, dv) || !HASZERO(ci, cv, di, dv)) return DIVHYP1(ai, av, bi, bv, ci, cv, di, dv, gx, gy);
  return DIVHYP1(ai, av, bi, bv, ci, cv, false, (i128)-1, gx, gy) && DIVHYP1(ai, av, bi, bv, false, (i128)1, di, dv, gx, gy); }
/* operator/ is recursive (zero-crossing operands are split); the recursive calls are replaced by this same contract
 * (--enforce-contract-rec: their precondition is checked, their postcondition assumed); termination is not proved */
/* the lemma-based proof for unbounded magnitudes is heavy (about 20 min per case with cvc5): thorough tier.  The quick
 * tier runs the same contract bit-precisely on small magnitudes (BOUNDED: |values| < 8, 16-bit machine division) */
//@check id=i_div fn=_ZNK4ikos8intervalINS_8z_numberEEdvERKS2_ props=C08 tier=thorough rec=1 vary=DCASE:0-17 timeout=3000 first_timeout=1500 backends=minisat,cvc5 cost=9 mem=14
//@check id=i_div_small fn=_ZNK4ikos8intervalINS_8z_numberEEdvERKS2_ tag=i_div harness=h_i_div props=C08 rec=1 defs=ZM_SMALL=16,ZBITS=3 vary=DCASE:0,2,4,12-17 vary_thorough=DCASE:0-17 mem=7 bounded="finite bounds and ghost points below 8 in magnitude, 16-bit machine division; quick tier: 9 of the 18 sign-class cases (the unbounded lemma-based proof is check i_div, thorough tier)" timeout=900 first_timeout=600 backends=minisat,kissat cost=8
void _ZNK4ikos8intervalINS_8z_numberEEdvERKS2_(I *ret, I *self, I *x)
__CPROVER_requires(FRESH(i_div, ret, sizeof(I)) && IFRESH2(i_div) && i_ok(*self) && i_ok(*x) && TOP(i_div, GRANGE))
/* the lemma instances are a PRECONDITION: assumed for the top-level call, and PROVED again for the operands of every
 * recursive call (whose postcondition is then assumed), so the induction is closed inside the check */
#ifndef ZM_SMALL
__CPROVER_requires(TOP(i_div, (i_bot(*self) || i_bot(*x) || DIVHYP(self, x, g_x, g_y))))
#endif
__CPROVER_assigns(*ret)
__CPROVER_ensures(i_okz(*ret, ZB))
__CPROVER_ensures(ANYBOT ==> i_bot(*ret))
__CPROVER_ensures(TOP(i_div, (i_has(*self, g_x) && i_has(*x, g_y) && g_y != 0) ==> i_has(*ret, D(g_x, g_y))));
/* total case split of the top-level call (the contract itself stays general):
 * 9 sign-class combinations, the divisor class further split into singleton / non-singleton */
#ifndef DCASE
#define DCASE 0
#endif
#define H_DIVCASE(a, b) (2 * (3 * H_SGNCLS(a) + H_SGNCLS(b)) + ((!H_BOT(b) && H_BEQ((b).f0, (b).f1)) ? 1 : 0))
void h_i_div(void){ IN(I, a); IN(I, b); HGHOSTS; I r; __CPROVER_assume(H_DIVCASE(a, b) == DCASE); _ZNK4ikos8intervalINS_8z_numberEEdvERKS2_(&r, &a, &b); REACH; }
/* instance of schema R1 of lemmas/zm_sign_rules.smt2 at the ghost points */
static inline bool REM_RULES(i128 a, i128 b){
  i128 r = ZM_rem_pure(a, b); i128 ab = b < 0 ? -b : b;      /* b is a ghost point or its unsigned reading: in range */
  return b == 0 || (r > -ab && r < ab && (a == 0 ? r == 0 : (r == 0 || ((r > 0) == (a > 0)))) && ((a < ab && a > -ab) ? r == a : true)); }
/* signed remainder (sign of the dividend, |r| < |divisor|) */
//@check id=i_srem fn=_ZNK4ikos8intervalINS_8z_numberEE4SRemERKS2_ props=C08
IBIN(i_srem, _ZNK4ikos8intervalINS_8z_numberEE4SRemERKS2_, ZB,
     ANYBOT ==> i_bot(*ret),
     (i_has(*self, g_x) && i_has(*x, g_y) && g_y != 0 && REM_RULES(g_x, g_y)) ==> i_has(*ret, ZM_rem_pure(g_x, g_y)))
/* unsigned remainder: operands are the unsigned readings, at ANY bit width w, of the integers in the intervals:
 * a non-negative integer reads as itself, a negative one as 2^w + v (ghost width g_w, 2^w > |v|) */
i128 g_w;
#define UREAD(v) ((v) >= 0 ? (v) : (v) + (((i128)1) << g_w))
#define WRANGE (g_w >= 1 && g_w <= 64 && -g_x < (((i128)1) << g_w) && -g_y < (((i128)1) << g_w))
//@check id=i_urem fn=_ZNK4ikos8intervalINS_8z_numberEE4URemERKS2_ props=C08
void _ZNK4ikos8intervalINS_8z_numberEE4URemERKS2_(I *ret, I *self, I *x)
__CPROVER_requires(FRESH(i_urem, ret, sizeof(I)) && IFRESH2(i_urem) && i_ok(*self) && i_ok(*x) && GRANGE && WRANGE)
__CPROVER_assigns(*ret)
__CPROVER_ensures(i_ok(*ret))
__CPROVER_ensures(ANYBOT ==> i_bot(*ret))
__CPROVER_ensures((i_has(*self, g_x) && i_has(*x, g_y) && g_y != 0 && REM_RULES(UREAD(g_x), UREAD(g_y))) ==> i_has(*ret, ZM_rem_pure(UREAD(g_x), UREAD(g_y))));
void h_i_urem(void){ IN(I, a); IN(I, b); HGHOSTS; GHOSTG(i128, g_w); I r; _ZNK4ikos8intervalINS_8z_numberEE4URemERKS2_(&r, &a, &b); REACH; }
//@check id=i_udiv fn=_ZNK4ikos8intervalINS_8z_numberEE4UDivERKS2_ props=C08
void _ZNK4ikos8intervalINS_8z_numberEE4UDivERKS2_(I *ret, I *self, I *x)
__CPROVER_requires(FRESH(i_udiv, ret, sizeof(I)) && IFRESH2(i_udiv) && i_ok(*self) && i_ok(*x) && GRANGE && WRANGE)
__CPROVER_assigns(*ret)
__CPROVER_ensures(i_ok(*ret))
__CPROVER_ensures(ANYBOT ==> i_bot(*ret))
__CPROVER_ensures((i_has(*self, g_x) && i_has(*x, g_y) && g_y != 0) ==> i_has(*ret, ZM_div_pure(UREAD(g_x), UREAD(g_y))));
void h_i_udiv(void){ IN(I, a); IN(I, b); HGHOSTS; GHOSTG(i128, g_w); I r; _ZNK4ikos8intervalINS_8z_numberEE4UDivERKS2_(&r, &a, &b); REACH; }

/* ---------------------------------------------------------------- interval: bitwise (infinite-precision two's complement) */
//@check id=i_and fn=_ZNK4ikos8intervalINS_8z_numberEE3AndERKS2_ props=C08
IBIN(i_and, _ZNK4ikos8intervalINS_8z_numberEE3AndERKS2_, 2 * ZB, ANYBOT ==> i_bot(*ret), (i_has(*self, g_x) && i_has(*x, g_y)) ==> i_has(*ret, g_x & g_y))
//@check id=i_or fn=_ZNK4ikos8intervalINS_8z_numberEE2OrERKS2_ props=C08
IBIN(i_or, _ZNK4ikos8intervalINS_8z_numberEE2OrERKS2_, 2 * ZB, ANYBOT ==> i_bot(*ret), (i_has(*self, g_x) && i_has(*x, g_y)) ==> i_has(*ret, g_x | g_y))
//@check id=i_xor fn=_ZNK4ikos8intervalINS_8z_numberEE3XorERKS2_ props=C08
IBIN(i_xor, _ZNK4ikos8intervalINS_8z_numberEE3XorERKS2_, 2 * ZB, ANYBOT ==> i_bot(*ret), (i_has(*self, g_x) && i_has(*x, g_y)) ==> i_has(*ret, g_x ^ g_y))

/* ---------------------------------------------------------------- interval: shifts */
/* arithmetic shift right = floor(x / 2^k), k >= 0 */
//@check id=i_ashr fn=_ZNK4ikos8intervalINS_8z_numberEE4AShrERKS2_ props=C08
IBIN(i_ashr, _ZNK4ikos8intervalINS_8z_numberEE4AShrERKS2_, ZB, ANYBOT ==> i_bot(*ret), (i_has(*self, g_x) && i_has(*x, g_y) && g_y >= 0) ==> i_has(*ret, fshr128(g_x, g_y)))
/* logical shift right: a non-negative value shifts as in mathematics; a negative value stands for its unsigned
 * reading at some unknown width, which can be anything large: the result must then be top */
//@check id=i_lshr fn=_ZNK4ikos8intervalINS_8z_numberEE4LShrERKS2_ props=C08
IBIN(i_lshr, _ZNK4ikos8intervalINS_8z_numberEE4LShrERKS2_, ZB, ANYBOT ==> i_bot(*ret),
     (i_has(*self, g_x) && i_has(*x, g_y) && g_y >= 0) ==> (g_x >= 0 ? i_has(*ret, fshr128(g_x, g_y)) : i_top(*ret)))
/* shift left = x * 2^k.  The code multiplies by a factor built by a loop of k doublings (k <= 128).  Run per shift
 * amount K (the loop then unwinds K times and the factor is a constant; multiplication bit-precise): quick K in a
 * sample, thorough every K that keeps the model in range (ZBITS + K < 100); larger K are not covered */
#ifndef SHK
#define SHK 1
#endif
//@check id=i_shl fn=_ZNK4ikos8intervalINS_8z_numberEE3ShlERKS2_ props=C08 defs=ZM_PRECISE vary=SHK:0,1,2,7,31,58 vary_thorough=SHK:0-58 unwind=61 timeout=600 bounded="bit-precise small arithmetic: operands below 2^k in magnitude only"
void _ZNK4ikos8intervalINS_8z_numberEE3ShlERKS2_(I *ret, I *self, I *x)
__CPROVER_requires(FRESH(i_shl, ret, sizeof(I)) && IFRESH2(i_shl) && i_ok(*self) && i_ok(*x) && TOP(i_shl, GRANGE))
#ifdef CHECK_i_shl
__CPROVER_requires(b_is_fin(LB(x), SHK) && b_is_fin(UB(x), SHK))
#endif
__CPROVER_assigns(*ret)
__CPROVER_ensures(i_okz(*ret, ZLIM))
__CPROVER_ensures(ANYBOT ==> i_bot(*ret))
__CPROVER_ensures(TOP(i_shl, (i_has(*self, g_x) && i_has(*x, g_y) && g_y >= 0 && g_y < 59) ==> i_has(*ret, g_x * (((i128)1) << g_y))));
void h_i_shl(void){ IN(I, a); IN(I, b); HGHOSTS; I r; _ZNK4ikos8intervalINS_8z_numberEE3ShlERKS2_(&r, &a, &b); REACH; }
/* a non-singleton or negative shift amount gives top */
//@check id=i_shl_top fn=_ZNK4ikos8intervalINS_8z_numberEE3ShlERKS2_ tag=i_shl harness=h_i_shl_top props=C08 unwind=2
void h_i_shl_top(void){ IN(I, a); IN(I, b); HGHOSTS; I r; __CPROVER_assume(!H_BOT(b) && (!H_BEQ(b.f0, b.f1) || HV(b.f0) < 0)); _ZNK4ikos8intervalINS_8z_numberEE3ShlERKS2_(&r, &a, &b); __CPROVER_assert(H_BOT(a) ? H_BOT(r) : H_TOP(r), "Shl by a non-singleton or negative amount is top"); REACH; }

/* ---------------------------------------------------------------- linear_interval_solver helpers */
/* trim_interval(i, j): refine i with the disequation x != c when j is the singleton {c}: nothing but c is lost */
//@check id=i_trim fn=_ZN4ikos27linear_interval_solver_impl13trim_intervalINS_8intervalINS_8z_numberEEEEET_RKS5_S7_ props=C08
void _ZN4ikos27linear_interval_solver_impl13trim_intervalINS_8intervalINS_8z_numberEEEEET_RKS5_S7_(I *ret, I *self, I *x)
__CPROVER_requires(FRESH(i_trim, ret, sizeof(I)) && IFRESH2(i_trim) && i_ok(*self) && i_ok(*x) && GRANGE)
__CPROVER_assigns(*ret)
__CPROVER_ensures(i_okz(*ret, 2 * ZB))
__CPROVER_ensures((i_has(*self, g_x) && !(i_has(*x, g_x) && !i_has(*x, g_x + 1) && !i_has(*x, g_x - 1))) ==> i_has(*ret, g_x))
__CPROVER_ensures(i_has(*ret, g_x) ==> i_has(*self, g_x));
void h_i_trim(void){ IN(I, a); IN(I, b); HGHOSTS; I r; _ZN4ikos27linear_interval_solver_impl13trim_intervalINS_8intervalINS_8z_numberEEEEET_RKS5_S7_(&r, &a, &b); REACH; }
