/* Contracts for bound<z_number> and interval<z_number> — properties C08 (soundness, tightness),
 * C04 (order / lattice operations agree with concretisation), C05 (widening / narrowing). */
#include "spec.h"
i128 g_x, g_y;                      /* ghost concrete points: arbitrary, never assigned by the code */
#define GRANGE (g_x > -ZB && g_x < ZB && g_y > -ZB && g_y < ZB)
#define HGHOSTS GHOSTG(i128, g_x); GHOSTG(i128, g_y)

/* ---------------------------------------------------------------- bound */
#define BFRESH2(tag) (FRESH(tag, self, sizeof(B)) && FRESH(tag, x, sizeof(B)))
#define BCMP(tag, fn, EXPR) \
unsigned char fn(B *self, B *x) \
__CPROVER_requires(BFRESH2(tag) && b_ok(*self) && b_ok(*x)) \
__CPROVER_assigns() \
__CPROVER_ensures((__CPROVER_return_value != 0) == (EXPR)); \
void h_##tag(void){ IN(B, a); IN(B, b); fn(&a, &b); REACH; }
//@check id=b_le fn=_ZNK4ikos5boundINS_8z_numberEEleERKS2_ props=C08,C04
BCMP(b_le, _ZNK4ikos5boundINS_8z_numberEEleERKS2_, b_le(*self, *x))
//@check id=b_ge fn=_ZNK4ikos5boundINS_8z_numberEEgeERKS2_ props=C08,C04
BCMP(b_ge, _ZNK4ikos5boundINS_8z_numberEEgeERKS2_, b_le(*x, *self))
//@check id=b_lt fn=_ZNK4ikos5boundINS_8z_numberEEltERKS2_ props=C08,C04
BCMP(b_lt, _ZNK4ikos5boundINS_8z_numberEEltERKS2_, !b_le(*x, *self))
//@check id=b_gt fn=_ZNK4ikos5boundINS_8z_numberEEgtERKS2_ props=C08,C04
BCMP(b_gt, _ZNK4ikos5boundINS_8z_numberEEgtERKS2_, !b_le(*self, *x))
//@check id=b_eq fn=_ZNK4ikos5boundINS_8z_numberEEeqERKS2_ props=C08,C04
BCMP(b_eq, _ZNK4ikos5boundINS_8z_numberEEeqERKS2_, b_eq(*self, *x))
//@check id=b_ne fn=_ZNK4ikos5boundINS_8z_numberEEneERKS2_ props=C08,C04
BCMP(b_ne, _ZNK4ikos5boundINS_8z_numberEEneERKS2_, !b_eq(*self, *x))

#define BBIN(tag, fn, EXTRA, POSTEXPR) \
void fn(B *ret, B *self, B *x) \
__CPROVER_requires(FRESH(tag, ret, sizeof(B)) && BFRESH2(tag) && b_ok(*self) && b_ok(*x) && (EXTRA)) \
__CPROVER_assigns(*ret) \
__CPROVER_ensures(b_okz(*ret, ZLIM) && (POSTEXPR)); \
void h_##tag(void){ IN(B, a); IN(B, b); B r; fn(&r, &a, &b); REACH; }
/* -oo + +oo is undefined (CRAB_ERROR): excluded by the precondition, which every interval caller must establish */
#define OPPOSITE_INF(a, b) ((b_pinf(a) && b_minf(b)) || (b_minf(a) && b_pinf(b)))
//@check id=b_add fn=_ZNK4ikos5boundINS_8z_numberEEplERKS2_ props=C08
BBIN(b_add, _ZNK4ikos5boundINS_8z_numberEEplERKS2_, !OPPOSITE_INF(*self, *x), b_eq(*ret, x_add(*self, *x)))
//@check id=b_sub fn=_ZNK4ikos5boundINS_8z_numberEEmiERKS2_ props=C08
BBIN(b_sub, _ZNK4ikos5boundINS_8z_numberEEmiERKS2_, !OPPOSITE_INF(*self, x_neg(*x)), b_eq(*ret, x_add(*self, x_neg(*x))))
//@check id=b_mul fn=_ZNK4ikos5boundINS_8z_numberEEmlERKS2_ props=C08
BBIN(b_mul, _ZNK4ikos5boundINS_8z_numberEEmlERKS2_, 1, b_eq(*ret, x_mul(*self, *x)))
//@check id=b_min2 fn=_ZN4ikos5boundINS_8z_numberEE3minERKS2_S4_ props=C08
BBIN(b_min2, _ZN4ikos5boundINS_8z_numberEE3minERKS2_S4_, 1, b_eq(*ret, x_min(*self, *x)))
//@check id=b_max2 fn=_ZN4ikos5boundINS_8z_numberEE3maxERKS2_S4_ props=C08
BBIN(b_max2, _ZN4ikos5boundINS_8z_numberEE3maxERKS2_S4_, 1, b_eq(*ret, x_max(*self, *x)))
//@check id=b_neg fn=_ZNK4ikos5boundINS_8z_numberEEngEv props=C08
void _ZNK4ikos5boundINS_8z_numberEEngEv(B *ret, B *self)
__CPROVER_requires(FRESH(b_neg, ret, sizeof(B)) && FRESH(b_neg, self, sizeof(B)) && b_ok(*self))
__CPROVER_assigns(*ret)
__CPROVER_ensures(b_ok(*ret) && b_eq(*ret, x_neg(*self)));
void h_b_neg(void){ IN(B, a); B r; _ZNK4ikos5boundINS_8z_numberEEngEv(&r, &a); REACH; }

/* ---------------------------------------------------------------- interval: order and lattice */
#define IFRESH2(tag) (FRESH(tag, self, sizeof(I)) && FRESH(tag, x, sizeof(I)))
#define IQUERY(tag, fn, EXPR) \
unsigned char fn(I *self) \
__CPROVER_requires(FRESH(tag, self, sizeof(I)) && i_ok(*self) && TOP(tag, GRANGE)) \
__CPROVER_assigns() \
__CPROVER_ensures((__CPROVER_return_value != 0) == (EXPR)) \
__CPROVER_ensures(TOP(tag, QSEM)); \
void h_##tag(void){ IN(I, a); HGHOSTS; fn(&a); REACH; }
/* is_bottom() <=> the interval has no element (witness: a finite bound, or 0 when both are infinite) */
#define QSEM ((__CPROVER_return_value ? !i_has(*self, g_x) : i_has(*self, !b_inf(self->f0) ? bval(self->f0) : !b_inf(self->f1) ? bval(self->f1) : 0)))
//@check id=i_is_bottom fn=_ZNK4ikos8intervalINS_8z_numberEE9is_bottomEv props=C08,C04
IQUERY(i_is_bottom, _ZNK4ikos8intervalINS_8z_numberEE9is_bottomEv, i_bot(*self))
#undef QSEM
/* is_top() => every integer is an element */
#define QSEM (!__CPROVER_return_value || i_has(*self, g_x))
//@check id=i_is_top fn=_ZNK4ikos8intervalINS_8z_numberEE6is_topEv props=C08,C04
IQUERY(i_is_top, _ZNK4ikos8intervalINS_8z_numberEE6is_topEv, i_top(*self))
#undef QSEM

//@check id=i_top fn=_ZN4ikos8intervalINS_8z_numberEE3topEv props=C08,C04
void _ZN4ikos8intervalINS_8z_numberEE3topEv(I *ret)
__CPROVER_requires(FRESH(i_top, ret, sizeof(I)))
__CPROVER_assigns(*ret)
__CPROVER_ensures(i_ok(*ret) && i_top(*ret) && !i_bot(*ret));
void h_i_top(void){ I r; _ZN4ikos8intervalINS_8z_numberEE3topEv(&r); REACH; }
//@check id=i_bottom fn=_ZN4ikos8intervalINS_8z_numberEE6bottomEv props=C08,C04
void _ZN4ikos8intervalINS_8z_numberEE6bottomEv(I *ret)
__CPROVER_requires(FRESH(i_bottom, ret, sizeof(I)))
__CPROVER_assigns(*ret)
__CPROVER_ensures(i_ok(*ret) && i_bot(*ret) && !i_top(*ret));
void h_i_bottom(void){ I r; _ZN4ikos8intervalINS_8z_numberEE6bottomEv(&r); REACH; }

/* inclusion: exact characterisation, and the semantic reading of a `yes` */
//@check id=i_leq fn=_ZNK4ikos8intervalINS_8z_numberEEleERKS2_ props=C08,C04
unsigned char _ZNK4ikos8intervalINS_8z_numberEEleERKS2_(I *self, I *x)
__CPROVER_requires(IFRESH2(i_leq) && i_ok(*self) && i_ok(*x) && TOP(i_leq, GRANGE))
__CPROVER_assigns()
__CPROVER_ensures((__CPROVER_return_value != 0) == i_leq(*self, *x))
__CPROVER_ensures(TOP(i_leq, (__CPROVER_return_value && i_has(*self, g_x)) ==> i_has(*x, g_x)))
__CPROVER_ensures(i_bot(*self) ==> __CPROVER_return_value)
__CPROVER_ensures(i_top(*x) ==> __CPROVER_return_value);
void h_i_leq(void){ IN(I, a); IN(I, b); HGHOSTS; _ZNK4ikos8intervalINS_8z_numberEEleERKS2_(&a, &b); REACH; }
/* reflexivity: the same object on both sides */
//@check id=i_leq_refl fn=_ZNK4ikos8intervalINS_8z_numberEEleERKS2_ tag=i_leq props=C04
void h_i_leq_refl(void){ IN(I, a); HGHOSTS; unsigned char r = _ZNK4ikos8intervalINS_8z_numberEEleERKS2_(&a, &a); __CPROVER_assert(r, "x <= x"); REACH; }
//@check id=i_eq fn=_ZNK4ikos8intervalINS_8z_numberEEeqERKS2_ props=C08,C04
unsigned char _ZNK4ikos8intervalINS_8z_numberEEeqERKS2_(I *self, I *x)
__CPROVER_requires(IFRESH2(i_eq) && i_ok(*self) && i_ok(*x))
__CPROVER_assigns()
__CPROVER_ensures((__CPROVER_return_value != 0) == i_eq(*self, *x));
void h_i_eq(void){ IN(I, a); IN(I, b); _ZNK4ikos8intervalINS_8z_numberEEeqERKS2_(&a, &b); REACH; }

#define IBIN(tag, fn, OKZ, EXACT, SOUND) \
void fn(I *ret, I *self, I *x) \
__CPROVER_requires(FRESH(tag, ret, sizeof(I)) && IFRESH2(tag) && i_ok(*self) && i_ok(*x) && TOP(tag, GRANGE)) \
__CPROVER_assigns(*ret) \
__CPROVER_ensures(i_okz(*ret, OKZ)) \
__CPROVER_ensures(EXACT) \
__CPROVER_ensures(TOP(tag, SOUND)); \
void h_##tag(void){ IN(I, a); IN(I, b); HGHOSTS; I r; fn(&r, &a, &b); REACH; }
#define LB(p) ((p)->f0)
#define UB(p) ((p)->f1)
#define ANYBOT (i_bot(*self) || i_bot(*x))
/* join = hull (least interval containing both) */
//@check id=i_join fn=_ZNK4ikos8intervalINS_8z_numberEEorERKS2_ props=C08,C04
IBIN(i_join, _ZNK4ikos8intervalINS_8z_numberEEorERKS2_, ZB,
     i_bot(*self) ? i_eq(*ret, *x) : i_bot(*x) ? i_eq(*ret, *self) : i_is(*ret, x_min(LB(self), LB(x)), x_max(UB(self), UB(x))),
     (i_has(*self, g_x) || i_has(*x, g_x)) ==> i_has(*ret, g_x))
/* meet = intersection, exactly */
//@check id=i_meet fn=_ZNK4ikos8intervalINS_8z_numberEEanERKS2_ props=C08,C04
IBIN(i_meet, _ZNK4ikos8intervalINS_8z_numberEEanERKS2_, ZB,
     1, i_has(*ret, g_x) == (i_has(*self, g_x) && i_has(*x, g_x)))
/* widening: an upper bound; each bound is kept or jumps to infinity; stationary when the argument is included;
 * otherwise the number of infinite bounds strictly grows (rank <= 2) */
static inline int i_rank(I i){ return i_bot(i) ? 0 : 1 + (b_inf(i.f0) ? 1 : 0) + (b_inf(i.f1) ? 1 : 0); }
//@check id=i_widen fn=_ZNK4ikos8intervalINS_8z_numberEEooERKS2_ props=C08,C05
IBIN(i_widen, _ZNK4ikos8intervalINS_8z_numberEEooERKS2_, ZB,
     (i_leq(*x, *self) ==> i_eq(*ret, *self)) && (!i_leq(*x, *self) ==> i_rank(*ret) > i_rank(*self)) && i_rank(*ret) <= 3
       && (!ANYBOT ==> ((b_eq(LB(ret), LB(self)) || b_minf(LB(ret))) && (b_eq(UB(ret), UB(self)) || b_pinf(UB(ret))))),
     (i_has(*self, g_x) || i_has(*x, g_x)) ==> i_has(*ret, g_x))
/* narrowing of a decreasing pair keeps every element of the second argument and stays below the first */
//@check id=i_narrow fn=_ZNK4ikos8intervalINS_8z_numberEEaaERKS2_ props=C08,C05
IBIN(i_narrow, _ZNK4ikos8intervalINS_8z_numberEEaaERKS2_, ZB,
     i_leq(*x, *self) ==> (i_leq(*ret, *self) && i_leq(*x, *ret)),
     (i_leq(*x, *self) && i_has(*x, g_x)) ==> i_has(*ret, g_x))

/* ---------------------------------------------------------------- interval: arithmetic (sound and tight) */
//@check id=i_add fn=_ZNK4ikos8intervalINS_8z_numberEEplERKS2_ props=C08
IBIN(i_add, _ZNK4ikos8intervalINS_8z_numberEEplERKS2_, 2 * ZB,
     ANYBOT ? i_bot(*ret) : i_is(*ret, x_add(LB(self), LB(x)), x_add(UB(self), UB(x))),
     (i_has(*self, g_x) && i_has(*x, g_y)) ==> i_has(*ret, g_x + g_y))
//@check id=i_sub fn=_ZNK4ikos8intervalINS_8z_numberEEmiERKS2_ props=C08
IBIN(i_sub, _ZNK4ikos8intervalINS_8z_numberEEmiERKS2_, 2 * ZB,
     ANYBOT ? i_bot(*ret) : i_is(*ret, x_add(LB(self), x_neg(UB(x))), x_add(UB(self), x_neg(LB(x)))),
     (i_has(*self, g_x) && i_has(*x, g_y)) ==> i_has(*ret, g_x - g_y))
//@check id=i_neg fn=_ZNK4ikos8intervalINS_8z_numberEEngEv props=C08
void _ZNK4ikos8intervalINS_8z_numberEEngEv(I *ret, I *self)
__CPROVER_requires(FRESH(i_neg, ret, sizeof(I)) && FRESH(i_neg, self, sizeof(I)) && i_ok(*self) && TOP(i_neg, GRANGE))
__CPROVER_assigns(*ret)
__CPROVER_ensures(i_ok(*ret))
__CPROVER_ensures(i_bot(*self) ? i_bot(*ret) : i_is(*ret, x_neg(UB(self)), x_neg(LB(self))))
__CPROVER_ensures(TOP(i_neg, i_has(*self, g_x) ==> i_has(*ret, -g_x)));
void h_i_neg(void){ IN(I, a); HGHOSTS; I r; _ZNK4ikos8intervalINS_8z_numberEEngEv(&r, &a); REACH; }

/* multiplication: result bounds are the min / max of the four corner products (tight), and sound under the
 * monotonicity lemma instances of lemmas/mul_mono.smt2 (multiplication is an uninterpreted symbol here) */
static inline i128 mn(i128 p, i128 q){ return p <= q ? p : q; }
static inline i128 mx(i128 p, i128 q){ return p <= q ? q : p; }
#define M ZM_mul
static inline bool L1(i128 lo, i128 g, i128 hi, i128 y){ return !(lo <= g && g <= hi) || (mn(M(lo, y), M(hi, y)) <= M(g, y) && M(g, y) <= mx(M(lo, y), M(hi, y))); }
static inline bool L2(i128 x, i128 lo, i128 g, i128 hi){ return !(lo <= g && g <= hi) || (mn(M(x, lo), M(x, hi)) <= M(x, g) && M(x, g) <= mx(M(x, lo), M(x, hi))); }
static inline bool H1(i128 lo, i128 g, i128 y){ return !(lo <= g) || (y >= 0 ? M(lo, y) <= M(g, y) : M(g, y) <= M(lo, y)); }
static inline bool H2(i128 x, i128 lo, i128 g){ return !(lo <= g) || (x >= 0 ? M(x, lo) <= M(x, g) : M(x, g) <= M(x, lo)); }
static inline bool MUL_LEMMAS(I s, I x, i128 gx, i128 gy){
  i128 a = bval(s.f0), b = bval(s.f1), c = bval(x.f0), d = bval(x.f1);
  return L1(a, gx, b, gy) && L2(a, c, gy, d) && L2(b, c, gy, d) && H1(a, gx, gy) && H1(gx, b, gy) && H2(a, c, gy) && H2(a, gy, d) && H2(b, c, gy) && H2(b, gy, d)
      && H2(gx, c, gy) && H2(gx, gy, d) && H1(a, gx, c) && H1(a, gx, d) && H1(gx, b, c) && H1(gx, b, d); }
#define CORNERS_MIN x_min(x_min(x_mul(LB(self), LB(x)), x_mul(LB(self), UB(x))), x_min(x_mul(UB(self), LB(x)), x_mul(UB(self), UB(x))))
#define CORNERS_MAX x_max(x_max(x_mul(LB(self), LB(x)), x_mul(LB(self), UB(x))), x_max(x_mul(UB(self), LB(x)), x_mul(UB(self), UB(x))))
//@check id=i_mul fn=_ZNK4ikos8intervalINS_8z_numberEEmlERKS2_ props=C08 timeout=900 first_timeout=600 backends=minisat,kissat cost=9
//@check id=i_mul_sound fn=_ZNK4ikos8intervalINS_8z_numberEEmlERKS2_ tag=i_mul harness=h_i_mul props=C08 timeout=900 first_timeout=600 backends=minisat,kissat cost=9
#ifdef CHECK_i_mul_sound
#define MUL_EXACT 1
#define MUL_SOUND ((i_has(*self, g_x) && i_has(*x, g_y) && MUL_LEMMAS(*self, *x, g_x, g_y)) ==> i_has(*ret, M(g_x, g_y)))
#else
#define MUL_EXACT (ANYBOT ? i_bot(*ret) : i_is(*ret, CORNERS_MIN, CORNERS_MAX))
#define MUL_SOUND 1
#endif
IBIN(i_mul, _ZNK4ikos8intervalINS_8z_numberEEmlERKS2_, ZLIM, MUL_EXACT, MUL_SOUND)
