/* Contracts for bound<z_number> and interval<z_number> — properties C08 (soundness, tightness),
 * C04 (order / lattice operations agree with concretisation), C05 (widening / narrowing). */
#include "spec.h"
i128 g_x, g_y;                      /* ghost concrete points: arbitrary, never assigned by the code */
#define GRANGE (g_x > -ZB && g_x < ZB && g_y > -ZB && g_y < ZB)
#define HGHOSTS GHOSTG(i128, g_x); GHOSTG(i128, g_y)

/* ---------------------------------------------------------------- bound */
#define BFRESH2(tag) (FRESH(tag, self, sizeof(B)) && FRESH(tag, x, sizeof(B)))
#define BCMP(tag, fn, EXPR) \
unsigned char fn(B *self, B *x) \
__CPROVER_requires(BFRESH2(tag) && b_ok(*self) && b_ok(*x)) \
__CPROVER_assigns() \
__CPROVER_ensures((__CPROVER_return_value != 0) == (EXPR)); \
void h_##tag(void){ IN(B, a); IN(B, b); fn(&a, &b); REACH; }
//@check id=b_le fn=_ZNK4ikos5boundINS_8z_numberEEleERKS2_ props=C08,C04
BCMP(b_le, _ZNK4ikos5boundINS_8z_numberEEleERKS2_, b_le(*self, *x))
//@check id=b_ge fn=_ZNK4ikos5boundINS_8z_numberEEgeERKS2_ props=C08,C04
BCMP(b_ge, _ZNK4ikos5boundINS_8z_numberEEgeERKS2_, b_le(*x, *self))
//@check id=b_lt fn=_ZNK4ikos5boundINS_8z_numberEEltERKS2_ props=C08,C04
BCMP(b_lt, _ZNK4ikos5boundINS_8z_numberEEltERKS2_, !b_le(*x, *self))
//@check id=b_gt fn=_ZNK4ikos5boundINS_8z_numberEEgtERKS2_ props=C08,C04
BCMP(b_gt, _ZNK4ikos5boundINS_8z_numberEEgtERKS2_, !b_le(*self, *x))
//@check id=b_eq fn=_ZNK4ikos5boundINS_8z_numberEEeqERKS2_ props=C08,C04
BCMP(b_eq, _ZNK4ikos5boundINS_8z_numberEEeqERKS2_, b_eq(*self, *x))
//@check id=b_ne fn=_ZNK4ikos5boundINS_8z_numberEEneERKS2_ props=C08,C04
BCMP(b_ne, _ZNK4ikos5boundINS_8z_numberEEneERKS2_, !b_eq(*self, *x))

#define BBIN(tag, fn, EXTRA, POSTEXPR) \
void fn(B *ret, B *self, B *x) \
__CPROVER_requires(FRESH(tag, ret, sizeof(B)) && BFRESH2(tag) && b_ok(*self) && b_ok(*x) && (EXTRA)) \
__CPROVER_assigns(*ret) \
__CPROVER_ensures(b_okz(*ret, ZLIM) && (POSTEXPR)); \
void h_##tag(void){ IN(B, a); IN(B, b); B r; fn(&r, &a, &b); REACH; }
/* -oo + +oo is undefined (CRAB_ERROR): excluded by the precondition, which every interval caller must establish */
#define OPPOSITE_INF(a, b) ((b_pinf(a) && b_minf(b)) || (b_minf(a) && b_pinf(b)))
//@check id=b_add fn=_ZNK4ikos5boundINS_8z_numberEEplERKS2_ props=C08
BBIN(b_add, _ZNK4ikos5boundINS_8z_numberEEplERKS2_, !OPPOSITE_INF(*self, *x), b_eq(*ret, x_add(*self, *x)))
//@check id=b_sub fn=_ZNK4ikos5boundINS_8z_numberEEmiERKS2_ props=C08
BBIN(b_sub, _ZNK4ikos5boundINS_8z_numberEEmiERKS2_, !OPPOSITE_INF(*self, x_neg(*x)), b_eq(*ret, x_add(*self, x_neg(*x))))
//@check id=b_mul fn=_ZNK4ikos5boundINS_8z_numberEEmlERKS2_ props=C08
BBIN(b_mul, _ZNK4ikos5boundINS_8z_numberEEmlERKS2_, 1, b_eq(*ret, x_mul(*self, *x)))
//@check id=b_min2 fn=_ZN4ikos5boundINS_8z_numberEE3minERKS2_S4_ props=C08
BBIN(b_min2, _ZN4ikos5boundINS_8z_numberEE3minERKS2_S4_, 1, b_eq(*ret, x_min(*self, *x)))
//@check id=b_max2 fn=_ZN4ikos5boundINS_8z_numberEE3maxERKS2_S4_ props=C08
BBIN(b_max2, _ZN4ikos5boundINS_8z_numberEE3maxERKS2_S4_, 1, b_eq(*ret, x_max(*self, *x)))
//@check id=b_neg fn=_ZNK4ikos5boundINS_8z_numberEEngEv props=C08
void _ZNK4ikos5boundINS_8z_numberEEngEv(B *ret, B *self)
__CPROVER_requires(FRESH(b_neg, ret, sizeof(B)) && FRESH(b_neg, self, sizeof(B)) && b_ok(*self))
__CPROVER_assigns(*ret)
__CPROVER_ensures(b_ok(*ret) && b_eq(*ret, x_neg(*self)));
void h_b_neg(void){ IN(B, a); B r; _ZNK4ikos5boundINS_8z_numberEEngEv(&r, &a); REACH; }

/* ---------------------------------------------------------------- interval: order and lattice */
#define IFRESH2(tag) (FRESH(tag, self, sizeof(I)) && FRESH(tag, x, sizeof(I)))
#define IQUERY(tag, fn, EXPR) \
unsigned char fn(I *self) \
__CPROVER_requires(FRESH(tag, self, sizeof(I)) && i_ok(*self) && TOP(tag, GRANGE)) \
__CPROVER_assigns() \
__CPROVER_ensures((__CPROVER_return_value != 0) == (EXPR)) \
__CPROVER_ensures(TOP(tag, QSEM)); \
void h_##tag(void){ IN(I, a); HGHOSTS; fn(&a); REACH; }
/* is_bottom() <=> the interval has no element (witness: a finite bound, or 0 when both are infinite) */
#define QSEM ((__CPROVER_return_value ? !i_has(*self, g_x) : i_has(*self, !b_inf(self->f0) ? bval(self->f0) : !b_inf(self->f1) ? bval(self->f1) : 0)))
//@check id=i_is_bottom fn=_ZNK4ikos8intervalINS_8z_numberEE9is_bottomEv props=C08,C04
IQUERY(i_is_bottom, _ZNK4ikos8intervalINS_8z_numberEE9is_bottomEv, i_bot(*self))
#undef QSEM
/* is_top() => every integer is an element */
#define QSEM (!__CPROVER_return_value || i_has(*self, g_x))
//@check id=i_is_top fn=_ZNK4ikos8intervalINS_8z_numberEE6is_topEv props=C08,C04
IQUERY(i_is_top, _ZNK4ikos8intervalINS_8z_numberEE6is_topEv, i_top(*self))
#undef QSEM

//@check id=i_top fn=_ZN4ikos8intervalINS_8z_numberEE3topEv props=C08,C04
void _ZN4ikos8intervalINS_8z_numberEE3topEv(I *ret)
__CPROVER_requires(FRESH(i_top, ret, sizeof(I)))
__CPROVER_assigns(*ret)
__CPROVER_ensures(i_ok(*ret) && i_top(*ret) && !i_bot(*ret));
void h_i_top(void){ I r; _ZN4ikos8intervalINS_8z_numberEE3topEv(&r); REACH; }
//@check id=i_bottom fn=_ZN4ikos8intervalINS_8z_numberEE6bottomEv props=C08,C04
void _ZN4ikos8intervalINS_8z_numberEE6bottomEv(I *ret)
__CPROVER_requires(FRESH(i_bottom, ret, sizeof(I)))
__CPROVER_assigns(*ret)
__CPROVER_ensures(i_ok(*ret) && i_bot(*ret) && !i_top(*ret));
void h_i_bottom(void){ I r; _ZN4ikos8intervalINS_8z_numberEE6bottomEv(&r); REACH; }

/* inclusion: exact characterisation, and the semantic reading of a `yes` */
//@check id=i_leq fn=_ZNK4ikos8intervalINS_8z_numberEEleERKS2_ props=C08,C04
unsigned char _ZNK4ikos8intervalINS_8z_numberEEleERKS2_(I *self, I *x)
__CPROVER_requires(IFRESH2(i_leq) && i_ok(*self) && i_ok(*x) && TOP(i_leq, GRANGE))
__CPROVER_assigns()
__CPROVER_ensures((__CPROVER_return_value != 0) == i_leq(*self, *x))
__CPROVER_ensures(TOP(i_leq, (__CPROVER_return_value && i_has(*self, g_x)) ==> i_has(*x, g_x)))
__CPROVER_ensures(i_bot(*self) ==> __CPROVER_return_value)
__CPROVER_ensures(i_top(*x) ==> __CPROVER_return_value);
void h_i_leq(void){ IN(I, a); IN(I, b); HGHOSTS; _ZNK4ikos8intervalINS_8z_numberEEleERKS2_(&a, &b); REACH; }
/* reflexivity: the same object on both sides */
//@check id=i_leq_refl fn=_ZNK4ikos8intervalINS_8z_numberEEleERKS2_ tag=i_leq props=C04
void h_i_leq_refl(void){ IN(I, a); HGHOSTS; unsigned char r = _ZNK4ikos8intervalINS_8z_numberEEleERKS2_(&a, &a); __CPROVER_assert(r, "x <= x"); REACH; }
//@check id=i_eq fn=_ZNK4ikos8intervalINS_8z_numberEEeqERKS2_ props=C08,C04
unsigned char _ZNK4ikos8intervalINS_8z_numberEEeqERKS2_(I *self, I *x)
__CPROVER_requires(IFRESH2(i_eq) && i_ok(*self) && i_ok(*x))
__CPROVER_assigns()
__CPROVER_ensures((__CPROVER_return_value != 0) == i_eq(*self, *x));
void h_i_eq(void){ IN(I, a); IN(I, b); _ZNK4ikos8intervalINS_8z_numberEEeqERKS2_(&a, &b); REACH; }

#define IBIN(tag, fn, OKZ, EXACT, SOUND) \
void fn(I *ret, I *self, I *x) \
__CPROVER_requires(FRESH(tag, ret, sizeof(I)) && IFRESH2(tag) && i_ok(*self) && i_ok(*x) && TOP(tag, GRANGE)) \
__CPROVER_assigns(*ret) \
__CPROVER_ensures(i_okz(*ret, OKZ)) \
__CPROVER_ensures(EXACT) \
__CPROVER_ensures(TOP(tag, SOUND)); \
void h_##tag(void){ IN(I, a); IN(I, b); HGHOSTS; I r; fn(&r, &a, &b); REACH; }
#define LB(p) ((p)->f0)
#define UB(p) ((p)->f1)
#define ANYBOT (i_bot(*self) || i_bot(*x))
/* join = hull (least interval containing both) */
//@check id=i_join fn=_ZNK4ikos8intervalINS_8z_numberEEorERKS2_ props=C08,C04
IBIN(i_join, _ZNK4ikos8intervalINS_8z_numberEEorERKS2_, ZB,
     i_bot(*self) ? i_eq(*ret, *x) : i_bot(*x) ? i_eq(*ret, *self) : i_is(*ret, x_min(LB(self), LB(x)), x_max(UB(self), UB(x))),
     (i_has(*self, g_x) || i_has(*x, g_x)) ==> i_has(*ret, g_x))
/* meet = intersection, exactly */
//@check id=i_meet fn=_ZNK4ikos8intervalINS_8z_numberEEanERKS2_ props=C08,C04
IBIN(i_meet, _ZNK4ikos8intervalINS_8z_numberEEanERKS2_, ZB,
     1, i_has(*ret, g_x) == (i_has(*self, g_x) && i_has(*x, g_x)))
/* widening: an upper bound; each bound is kept or jumps to infinity; stationary when the argument is included;
 * otherwise the number of infinite bounds strictly grows (rank <= 2) */
static inline int i_rank(I i){ return i_bot(i) ? 0 : 1 + (b_inf(i.f0) ? 1 : 0) + (b_inf(i.f1) ? 1 : 0); }
//@check id=i_widen fn=_ZNK4ikos8intervalINS_8z_numberEEooERKS2_ props=C08,C05
IBIN(i_widen, _ZNK4ikos8intervalINS_8z_numberEEooERKS2_, ZB,
     (i_leq(*x, *self) ==> i_eq(*ret, *self)) && (!i_leq(*x, *self) ==> i_rank(*ret) > i_rank(*self)) && i_rank(*ret) <= 3
       && (!ANYBOT ==> ((b_eq(LB(ret), LB(self)) || b_minf(LB(ret))) && (b_eq(UB(ret), UB(self)) || b_pinf(UB(ret))))),
     (i_has(*self, g_x) || i_has(*x, g_x)) ==> i_has(*ret, g_x))
/* narrowing of a decreasing pair keeps every element of the second argument and stays below the first */
//@check id=i_narrow fn=_ZNK4ikos8intervalINS_8z_numberEEaaERKS2_ props=C08,C05
IBIN(i_narrow, _ZNK4ikos8intervalINS_8z_numberEEaaERKS2_, ZB,
     i_leq(*x, *self) ==> (i_leq(*ret, *self) && i_leq(*x, *ret)),
     (i_leq(*x, *self) && i_has(*x, g_x)) ==> i_has(*ret, g_x))

/* ---------------------------------------------------------------- interval: arithmetic (sound and tight) */
//@check id=i_add fn=_ZNK4ikos8intervalINS_8z_numberEEplERKS2_ props=C08
IBIN(i_add, _ZNK4ikos8intervalINS_8z_numberEEplERKS2_, 2 * ZB,
     ANYBOT ? i_bot(*ret) : i_is(*ret, x_add(LB(self), LB(x)), x_add(UB(self), UB(x))),
     (i_has(*self, g_x) && i_has(*x, g_y)) ==> i_has(*ret, g_x + g_y))
//@check id=i_sub fn=_ZNK4ikos8intervalINS_8z_numberEEmiERKS2_ props=C08
IBIN(i_sub, _ZNK4ikos8intervalINS_8z_numberEEmiERKS2_, 2 * ZB,
     ANYBOT ? i_bot(*ret) : i_is(*ret, x_add(LB(self), x_neg(UB(x))), x_add(UB(self), x_neg(LB(x)))),
     (i_has(*self, g_x) && i_has(*x, g_y)) ==> i_has(*ret, g_x - g_y))
//@check id=i_neg fn=_ZNK4ikos8intervalINS_8z_numberEEngEv props=C08
void _ZNK4ikos8intervalINS_8z_numberEEngEv(I *ret, I *self)
__CPROVER_requires(FRESH(i_neg, ret, sizeof(I)) && FRESH(i_neg, self, sizeof(I)) && i_ok(*self) && TOP(i_neg, GRANGE))
__CPROVER_assigns(*ret)
__CPROVER_ensures(i_ok(*ret))
__CPROVER_ensures(i_bot(*self) ? i_bot(*ret) : i_is(*ret, x_neg(UB(self)), x_neg(LB(self))))
__CPROVER_ensures(TOP(i_neg, i_has(*self, g_x) ==> i_has(*ret, -g_x)));
void h_i_neg(void){ IN(I, a); HGHOSTS; I r; _ZNK4ikos8intervalINS_8z_numberEEngEv(&r, &a); REACH; }

/* multiplication: result bounds are the min / max of the four corner products (tight), and sound under the
 * monotonicity lemma instances of lemmas/mul_mono.smt2 (multiplication is an uninterpreted symbol here) */
static inline i128 mn(i128 p, i128 q){ return p <= q ? p : q; }
static inline i128 mx(i128 p, i128 q){ return p <= q ? q : p; }
#define M ZM_mul_pure
static inline bool L1(i128 lo, i128 g, i128 hi, i128 y){ return !(lo <= g && g <= hi) || (mn(M(lo, y), M(hi, y)) <= M(g, y) && M(g, y) <= mx(M(lo, y), M(hi, y))); }
static inline bool L2(i128 x, i128 lo, i128 g, i128 hi){ return !(lo <= g && g <= hi) || (mn(M(x, lo), M(x, hi)) <= M(x, g) && M(x, g) <= mx(M(x, lo), M(x, hi))); }
static inline bool H1(i128 lo, i128 g, i128 y){ return !(lo <= g) || (y >= 0 ? M(lo, y) <= M(g, y) : M(g, y) <= M(lo, y)); }
static inline bool H2(i128 x, i128 lo, i128 g){ return !(lo <= g) || (x >= 0 ? M(x, lo) <= M(x, g) : M(x, g) <= M(x, lo)); }
static inline bool MUL_LEMMAS(I s, I x, i128 gx, i128 gy){
  i128 a = bval(s.f0), b = bval(s.f1), c = bval(x.f0), d = bval(x.f1);
  return L1(a, gx, b, gy) && L2(a, c, gy, d) && L2(b, c, gy, d) && H1(a, gx, gy) && H1(gx, b, gy) && H2(a, c, gy) && H2(a, gy, d) && H2(b, c, gy) && H2(b, gy, d)
      && H2(gx, c, gy) && H2(gx, gy, d) && H1(a, gx, c) && H1(a, gx, d) && H1(gx, b, c) && H1(gx, b, d); }
#define CORNERS_MIN x_min(x_min(x_mul(LB(self), LB(x)), x_mul(LB(self), UB(x))), x_min(x_mul(UB(self), LB(x)), x_mul(UB(self), UB(x))))
#define CORNERS_MAX x_max(x_max(x_mul(LB(self), LB(x)), x_mul(LB(self), UB(x))), x_max(x_mul(UB(self), LB(x)), x_mul(UB(self), UB(x))))
//@check id=i_mul fn=_ZNK4ikos8intervalINS_8z_numberEEmlERKS2_ props=C08 timeout=900 first_timeout=600 backends=minisat,kissat cost=9
//@check id=i_mul_sound fn=_ZNK4ikos8intervalINS_8z_numberEEmlERKS2_ tag=i_mul harness=h_i_mul props=C08 vary=MCASE:0-8 timeout=900 first_timeout=600 backends=minisat,kissat cost=9
#ifdef CHECK_i_mul_sound
#define MUL_EXACT 1
#define MUL_SOUND ((i_has(*self, g_x) && i_has(*x, g_y) && MUL_LEMMAS(*self, *x, g_x, g_y)) ==> i_has(*ret, M(g_x, g_y)))
#else
#define MUL_EXACT (ANYBOT ? i_bot(*ret) : i_is(*ret, CORNERS_MIN, CORNERS_MAX))
#define MUL_SOUND 1
#endif
/* sign class of an interval: 0 bottom or entirely negative, 1 entirely positive, 2 contains zero */
static inline int sgncls(I i){ return i_bot(i) ? 0 : b_le(i.f1, mkfin(-1)) ? 0 : b_le(mkfin(1), i.f0) ? 1 : 2; }
void _ZNK4ikos8intervalINS_8z_numberEEmlERKS2_(I *ret, I *self, I *x)
__CPROVER_requires(FRESH(i_mul, ret, sizeof(I)) && IFRESH2(i_mul) && i_ok(*self) && i_ok(*x) && TOP(i_mul, GRANGE))
__CPROVER_assigns(*ret)
__CPROVER_ensures(i_okz(*ret, ZLIM))
__CPROVER_ensures(MUL_EXACT)
__CPROVER_ensures(TOP(i_mul, MUL_SOUND));
#ifndef MCASE
#define MCASE (3 * sgncls(a) + sgncls(b))
#endif
/* the soundness run is split into the 9 sign-class combinations of the operands (a total case split: the harness
 * fixes the class pair, the vary list enumerates all of them) */
void h_i_mul(void){ IN(I, a); IN(I, b); HGHOSTS; I r; __CPROVER_assume(3 * sgncls(a) + sgncls(b) == MCASE); _ZNK4ikos8intervalINS_8z_numberEEmlERKS2_(&r, &a, &b); REACH; }

/* ---------------------------------------------------------------- bound: remaining operations */
/* division, divisor != 0 (a zero divisor is a CRAB_ERROR); finite / infinite = 0 by convention */
//@check id=b_div fn=_ZNK4ikos5boundINS_8z_numberEEdvERKS2_ props=C08
BBIN(b_div, _ZNK4ikos5boundINS_8z_numberEEdvERKS2_, bval(*x) != 0, b_eq(*ret, x_div(*self, *x)))
//@check id=b_abs fn=_ZNK4ikos5boundINS_8z_numberEE3absEv props=C08
void _ZNK4ikos5boundINS_8z_numberEE3absEv(B *ret, B *self)
__CPROVER_requires(FRESH(b_abs, ret, sizeof(B)) && FRESH(b_abs, self, sizeof(B)) && b_ok(*self))
__CPROVER_assigns(*ret)
__CPROVER_ensures(b_ok(*ret) && b_eq(*ret, b_le(mkfin(0), *self) ? *self : x_neg(*self)));
void h_b_abs(void){ IN(B, a); B r; _ZNK4ikos5boundINS_8z_numberEE3absEv(&r, &a); REACH; }
#define BTER(tag, fn, POSTEXPR) \
void fn(B *ret, B *self, B *x, B *y) \
__CPROVER_requires(FRESH(tag, ret, sizeof(B)) && BFRESH2(tag) && FRESH(tag, y, sizeof(B)) && b_ok(*self) && b_ok(*x) && b_ok(*y)) \
__CPROVER_assigns(*ret) \
__CPROVER_ensures(b_ok(*ret) && (POSTEXPR)); \
void h_##tag(void){ IN(B, a); IN(B, b); IN(B, c); B r; fn(&r, &a, &b, &c); REACH; }
//@check id=b_min3 fn=_ZN4ikos5boundINS_8z_numberEE3minERKS2_S4_S4_ props=C08
BTER(b_min3, _ZN4ikos5boundINS_8z_numberEE3minERKS2_S4_S4_, b_eq(*ret, x_min(*self, x_min(*x, *y))))
//@check id=b_max3 fn=_ZN4ikos5boundINS_8z_numberEE3maxERKS2_S4_S4_ props=C08
BTER(b_max3, _ZN4ikos5boundINS_8z_numberEE3maxERKS2_S4_S4_, b_eq(*ret, x_max(*self, x_max(*x, *y))))
#define BQUA(tag, fn, POSTEXPR) \
void fn(B *ret, B *self, B *x, B *y, B *z) \
__CPROVER_requires(FRESH(tag, ret, sizeof(B)) && BFRESH2(tag) && FRESH(tag, y, sizeof(B)) && FRESH(tag, z, sizeof(B)) && b_ok(*self) && b_ok(*x) && b_ok(*y) && b_ok(*z)) \
__CPROVER_assigns(*ret) \
__CPROVER_ensures(b_ok(*ret) && (POSTEXPR)); \
void h_##tag(void){ IN(B, a); IN(B, b); IN(B, c); IN(B, d); B r; fn(&r, &a, &b, &c, &d); REACH; }
//@check id=b_min4 fn=_ZN4ikos5boundINS_8z_numberEE3minERKS2_S4_S4_S4_ props=C08
BQUA(b_min4, _ZN4ikos5boundINS_8z_numberEE3minERKS2_S4_S4_S4_, b_eq(*ret, x_min(x_min(*self, *x), x_min(*y, *z))))
//@check id=b_max4 fn=_ZN4ikos5boundINS_8z_numberEE3maxERKS2_S4_S4_S4_ props=C08
BQUA(b_max4, _ZN4ikos5boundINS_8z_numberEE3maxERKS2_S4_S4_S4_, b_eq(*ret, x_max(x_max(*self, *x), x_max(*y, *z))))
/* bound(bool is_infinite, z n): an infinite bound is normalised to +1 / -1 by the sign of n */
//@check id=b_ctor_flag fn=_ZN4ikos5boundINS_8z_numberEEC2EbS1_ props=C08
void _ZN4ikos5boundINS_8z_numberEEC2EbS1_(B *self, unsigned char is_inf, Z *n)
__CPROVER_requires(FRESH(b_ctor_flag, self, sizeof(B)) && FRESH(b_ctor_flag, n, sizeof(Z)) && is_inf <= 1 && ZV(n) > -ZB && ZV(n) < ZB)
__CPROVER_assigns(*self)
__CPROVER_ensures(b_ok(*self) && (is_inf ? (ZV(n) > 0 ? b_pinf(*self) : b_minf(*self)) : b_is_fin(*self, ZV(n))));
void h_b_ctor_flag(void){ IN(Z, n); GHOST(unsigned char, f); B r; _ZN4ikos5boundINS_8z_numberEEC2EbS1_(&r, f, &n); REACH; }

/* ---------------------------------------------------------------- interval: constructors and queries */
//@check id=i_ctor2 fn=_ZN4ikos8intervalINS_8z_numberEEC2ENS_5boundIS1_EES4_ props=C08,C04
void _ZN4ikos8intervalINS_8z_numberEEC2ENS_5boundIS1_EES4_(I *self, B *lb, B *ub)
__CPROVER_requires(FRESH(i_ctor2, self, sizeof(I)) && FRESH(i_ctor2, lb, sizeof(B)) && FRESH(i_ctor2, ub, sizeof(B)) && b_ok(*lb) && b_ok(*ub) && TOP(i_ctor2, GRANGE))
/* a caller never builds [+oo, _] or [_, -oo] (it would denote no integer yet not be bottom) */
__CPROVER_requires(!b_pinf(*lb) && !b_minf(*ub))
__CPROVER_assigns(*self)
__CPROVER_ensures(i_ok(*self))
__CPROVER_ensures(b_le(*lb, *ub) ? i_is(*self, *lb, *ub) : i_bot(*self))
__CPROVER_ensures(TOP(i_ctor2, i_has(*self, g_x) == (b_le_num(*lb, g_x) && num_le_b(g_x, *ub))));
void h_i_ctor2(void){ IN(B, lo); IN(B, hi); HGHOSTS; I r; _ZN4ikos8intervalINS_8z_numberEEC2ENS_5boundIS1_EES4_(&r, &lo, &hi); REACH; }
//@check id=i_ctor_z fn=_ZN4ikos8intervalINS_8z_numberEEC2ES1_ props=C08
void _ZN4ikos8intervalINS_8z_numberEEC2ES1_(I *self, Z *n)
__CPROVER_requires(FRESH(i_ctor_z, self, sizeof(I)) && FRESH(i_ctor_z, n, sizeof(Z)) && ZV(n) > -ZB && ZV(n) < ZB && TOP(i_ctor_z, GRANGE))
__CPROVER_assigns(*self)
__CPROVER_ensures(i_ok(*self) && i_is(*self, mkfin(ZV(n)), mkfin(ZV(n))))
__CPROVER_ensures(TOP(i_ctor_z, i_has(*self, g_x) == (g_x == ZV(n))));
void h_i_ctor_z(void){ IN(Z, n); HGHOSTS; I r; _ZN4ikos8intervalINS_8z_numberEEC2ES1_(&r, &n); REACH; }
//@check id=i_ctor_default fn=_ZN4ikos8intervalINS_8z_numberEEC2Ev props=C08,C04
void _ZN4ikos8intervalINS_8z_numberEEC2Ev(I *self)
__CPROVER_requires(FRESH(i_ctor_default, self, sizeof(I)))
__CPROVER_assigns(*self)
__CPROVER_ensures(i_ok(*self) && i_bot(*self));
void h_i_ctor_default(void){ I r; _ZN4ikos8intervalINS_8z_numberEEC2Ev(&r); REACH; }
/* membership test = concretisation predicate: ties the oracle to the class's own reading */
//@check id=i_contains fn=_ZNK4ikos8intervalINS_8z_numberEEixES1_ props=C08,C04
unsigned char _ZNK4ikos8intervalINS_8z_numberEEixES1_(I *self, Z *n)
__CPROVER_requires(FRESH(i_contains, self, sizeof(I)) && FRESH(i_contains, n, sizeof(Z)) && i_ok(*self) && ZV(n) > -ZB && ZV(n) < ZB)
__CPROVER_assigns()
__CPROVER_ensures((__CPROVER_return_value != 0) == i_has(*self, ZV(n)));
void h_i_contains(void){ IN(I, a); IN(Z, n); _ZNK4ikos8intervalINS_8z_numberEEixES1_(&a, &n); REACH; }
/* half lines: {y | y <= some x in self} and {y | y >= some x in self} */
#define IUN(tag, fn, SOUND) \
void fn(I *ret, I *self) \
__CPROVER_requires(FRESH(tag, ret, sizeof(I)) && FRESH(tag, self, sizeof(I)) && i_ok(*self) && GRANGE) \
__CPROVER_assigns(*ret) \
__CPROVER_ensures(i_ok(*ret)) \
__CPROVER_ensures(SOUND); \
void h_##tag(void){ IN(I, a); HGHOSTS; I r; fn(&r, &a); REACH; }
//@check id=i_lower_half fn=_ZNK4ikos8intervalINS_8z_numberEE15lower_half_lineEv props=C08
IUN(i_lower_half, _ZNK4ikos8intervalINS_8z_numberEE15lower_half_lineEv, (i_has(*self, g_x) && g_y <= g_x) ==> i_has(*ret, g_y))
//@check id=i_upper_half fn=_ZNK4ikos8intervalINS_8z_numberEE15upper_half_lineEv props=C08
IUN(i_upper_half, _ZNK4ikos8intervalINS_8z_numberEE15upper_half_lineEv, (i_has(*self, g_x) && g_y >= g_x) ==> i_has(*ret, g_y))

/* ---------------------------------------------------------------- interval: division and remainders */
#define D ZM_div_pure
static inline bool D1(i128 a, i128 g, i128 y){ return !(a <= g && y != 0) || (y > 0 ? D(a, y) <= D(g, y) : D(g, y) <= D(a, y)); }
static inline bool D2(i128 x, i128 c, i128 g){ return !(c <= g && (c > 0 || g < 0)) || (x >= 0 ? D(x, g) <= D(x, c) : D(x, c) <= D(x, g)); }
/* instances of lemmas/div_mono.smt2 at the corner points the (recursive) algorithm uses: the operands' bounds and +-1 */
static inline bool DIV_LEMMAS(I s, I x, i128 gx, i128 gy){
  i128 a = bval(s.f0), b = bval(s.f1), c = bval(x.f0), d = bval(x.f1);
  i128 P[5] = {a, 1, b, -1, gx};
  bool ok = D1(a, gx, gy) && D1(1, gx, gy) && D1(gx, b, gy) && D1(gx, -1, gy);
  for (int i = 0; i < 5; i++) ok = ok && D2(P[i], c, gy) && D2(P[i], 1, gy) && D2(P[i], gy, d) && D2(P[i], gy, -1);
  i128 Q[4] = {c, 1, d, -1};
  for (int j = 0; j < 4; j++) ok = ok && D1(a, gx, Q[j]) && D1(1, gx, Q[j]) && D1(gx, b, Q[j]) && D1(gx, -1, Q[j]);
  return ok; }
/* operator/ is recursive (zero-crossing operands are split); the recursive calls are assumed to satisfy this same
 * contract (--enforce-contract-rec); termination of the recursion is not proved */
//@check id=i_div fn=_ZNK4ikos8intervalINS_8z_numberEEdvERKS2_ props=C08 rec=1 vary=DCASE:0-17 timeout=1500 first_timeout=700 backends=minisat,cvc5 cost=9 unwind=6
void _ZNK4ikos8intervalINS_8z_numberEEdvERKS2_(I *ret, I *self, I *x)
__CPROVER_requires(FRESH(i_div, ret, sizeof(I)) && IFRESH2(i_div) && i_ok(*self) && i_ok(*x) && TOP(i_div, GRANGE))
__CPROVER_assigns(*ret)
__CPROVER_ensures(i_okz(*ret, ZB))
__CPROVER_ensures(ANYBOT ==> i_bot(*ret))
__CPROVER_ensures(TOP(i_div, (i_has(*self, g_x) && i_has(*x, g_y) && g_y != 0 && DIV_LEMMAS(*self, *x, g_x, g_y)) ==> i_has(*ret, D(g_x, g_y))));
/* total case split of the top-level call (the contract itself stays general, recursive calls use it unrestricted):
 * 9 sign-class combinations, the divisor class further split into singleton / non-singleton */
#ifndef DCASE
#define DCASE 0
#endif
static inline int divcase(I a, I b){ return 2 * (3 * sgncls(a) + sgncls(b)) + ((!i_bot(b) && b_eq(b.f0, b.f1)) ? 1 : 0); }
void h_i_div(void){ IN(I, a); IN(I, b); HGHOSTS; I r; __CPROVER_assume(divcase(a, b) == DCASE); _ZNK4ikos8intervalINS_8z_numberEEdvERKS2_(&r, &a, &b); REACH; }
/* instance of schema R1 of lemmas/zm_sign_rules.smt2 at the ghost points */
static inline i128 zabs_(i128 a){ return a < 0 ? -a : a; }
static inline bool REM_RULES(i128 a, i128 b){ i128 r = ZM_rem_pure(a, b); return b == 0 || (zabs_(r) < zabs_(b) && (r == 0 || ((r > 0) == (a > 0)))); }
/* signed remainder (sign of the dividend, |r| < |divisor|) */
//@check id=i_srem fn=_ZNK4ikos8intervalINS_8z_numberEE4SRemERKS2_ props=C08
IBIN(i_srem, _ZNK4ikos8intervalINS_8z_numberEE4SRemERKS2_, ZB,
     ANYBOT ==> i_bot(*ret),
     (i_has(*self, g_x) && i_has(*x, g_y) && g_y != 0 && REM_RULES(g_x, g_y)) ==> i_has(*ret, ZM_rem_pure(g_x, g_y)))
/* unsigned remainder: operands are the unsigned readings, at ANY bit width w, of the integers in the intervals:
 * a non-negative integer reads as itself, a negative one as 2^w + v (ghost width g_w, 2^w > |v|) */
i128 g_w;
#define UREAD(v) ((v) >= 0 ? (v) : (v) + (((i128)1) << g_w))
#define WRANGE (g_w >= 1 && g_w <= 64 && -g_x < (((i128)1) << g_w) && -g_y < (((i128)1) << g_w))
//@check id=i_urem fn=_ZNK4ikos8intervalINS_8z_numberEE4URemERKS2_ props=C08
void _ZNK4ikos8intervalINS_8z_numberEE4URemERKS2_(I *ret, I *self, I *x)
__CPROVER_requires(FRESH(i_urem, ret, sizeof(I)) && IFRESH2(i_urem) && i_ok(*self) && i_ok(*x) && GRANGE && WRANGE)
__CPROVER_assigns(*ret)
__CPROVER_ensures(i_ok(*ret))
__CPROVER_ensures(ANYBOT ==> i_bot(*ret))
__CPROVER_ensures((i_has(*self, g_x) && i_has(*x, g_y) && g_y != 0 && REM_RULES(UREAD(g_x), UREAD(g_y))) ==> i_has(*ret, ZM_rem_pure(UREAD(g_x), UREAD(g_y))));
void h_i_urem(void){ IN(I, a); IN(I, b); HGHOSTS; GHOSTG(i128, g_w); I r; _ZNK4ikos8intervalINS_8z_numberEE4URemERKS2_(&r, &a, &b); REACH; }
//@check id=i_udiv fn=_ZNK4ikos8intervalINS_8z_numberEE4UDivERKS2_ props=C08
void _ZNK4ikos8intervalINS_8z_numberEE4UDivERKS2_(I *ret, I *self, I *x)
__CPROVER_requires(FRESH(i_udiv, ret, sizeof(I)) && IFRESH2(i_udiv) && i_ok(*self) && i_ok(*x) && GRANGE && WRANGE)
__CPROVER_assigns(*ret)
__CPROVER_ensures(i_ok(*ret))
__CPROVER_ensures(ANYBOT ==> i_bot(*ret))
__CPROVER_ensures((i_has(*self, g_x) && i_has(*x, g_y) && g_y != 0) ==> i_has(*ret, ZM_div_pure(UREAD(g_x), UREAD(g_y))));
void h_i_udiv(void){ IN(I, a); IN(I, b); HGHOSTS; GHOSTG(i128, g_w); I r; _ZNK4ikos8intervalINS_8z_numberEE4UDivERKS2_(&r, &a, &b); REACH; }

/* ---------------------------------------------------------------- interval: bitwise (infinite-precision two's complement) */
//@check id=i_and fn=_ZNK4ikos8intervalINS_8z_numberEE3AndERKS2_ props=C08
IBIN(i_and, _ZNK4ikos8intervalINS_8z_numberEE3AndERKS2_, 2 * ZB, ANYBOT ==> i_bot(*ret), (i_has(*self, g_x) && i_has(*x, g_y)) ==> i_has(*ret, g_x & g_y))
//@check id=i_or fn=_ZNK4ikos8intervalINS_8z_numberEE2OrERKS2_ props=C08
IBIN(i_or, _ZNK4ikos8intervalINS_8z_numberEE2OrERKS2_, 2 * ZB, ANYBOT ==> i_bot(*ret), (i_has(*self, g_x) && i_has(*x, g_y)) ==> i_has(*ret, g_x | g_y))
//@check id=i_xor fn=_ZNK4ikos8intervalINS_8z_numberEE3XorERKS2_ props=C08
IBIN(i_xor, _ZNK4ikos8intervalINS_8z_numberEE3XorERKS2_, 2 * ZB, ANYBOT ==> i_bot(*ret), (i_has(*self, g_x) && i_has(*x, g_y)) ==> i_has(*ret, g_x ^ g_y))

/* ---------------------------------------------------------------- interval: shifts */
/* arithmetic shift right = floor(x / 2^k), k >= 0 */
//@check id=i_ashr fn=_ZNK4ikos8intervalINS_8z_numberEE4AShrERKS2_ props=C08
IBIN(i_ashr, _ZNK4ikos8intervalINS_8z_numberEE4AShrERKS2_, ZB, ANYBOT ==> i_bot(*ret), (i_has(*self, g_x) && i_has(*x, g_y) && g_y >= 0) ==> i_has(*ret, fshr128(g_x, g_y)))
/* logical shift right: a non-negative value shifts as in mathematics; a negative value stands for its unsigned
 * reading at some unknown width, which can be anything large: the result must then be top */
//@check id=i_lshr fn=_ZNK4ikos8intervalINS_8z_numberEE4LShrERKS2_ props=C08
IBIN(i_lshr, _ZNK4ikos8intervalINS_8z_numberEE4LShrERKS2_, ZB, ANYBOT ==> i_bot(*ret),
     (i_has(*self, g_x) && i_has(*x, g_y) && g_y >= 0) ==> (g_x >= 0 ? i_has(*ret, fshr128(g_x, g_y)) : i_top(*ret)))
/* shift left = x * 2^k.  The code multiplies by a factor built by a loop of k doublings (k <= 128).  Run per shift
 * amount K (the loop then unwinds K times and the factor is a constant; multiplication bit-precise): quick K in a
 * sample, thorough every K that keeps the model in range (ZBITS + K < 100); larger K are not covered */
#ifndef SHK
#define SHK 1
#endif
//@check id=i_shl fn=_ZNK4ikos8intervalINS_8z_numberEE3ShlERKS2_ props=C08 defs=ZM_PRECISE vary=SHK:0,1,2,7,31,58 vary_thorough=SHK:0-58 unwind=61 timeout=600
void _ZNK4ikos8intervalINS_8z_numberEE3ShlERKS2_(I *ret, I *self, I *x)
__CPROVER_requires(FRESH(i_shl, ret, sizeof(I)) && IFRESH2(i_shl) && i_ok(*self) && i_ok(*x) && TOP(i_shl, GRANGE))
#ifdef CHECK_i_shl
__CPROVER_requires(b_is_fin(LB(x), SHK) && b_is_fin(UB(x), SHK))
#endif
__CPROVER_assigns(*ret)
__CPROVER_ensures(i_okz(*ret, ZLIM))
__CPROVER_ensures(ANYBOT ==> i_bot(*ret))
__CPROVER_ensures(TOP(i_shl, (i_has(*self, g_x) && i_has(*x, g_y) && g_y >= 0 && g_y < 59) ==> i_has(*ret, g_x * (((i128)1) << g_y))));
void h_i_shl(void){ IN(I, a); IN(I, b); HGHOSTS; I r; _ZNK4ikos8intervalINS_8z_numberEE3ShlERKS2_(&r, &a, &b); REACH; }
/* a non-singleton or negative shift amount gives top */
//@check id=i_shl_top fn=_ZNK4ikos8intervalINS_8z_numberEE3ShlERKS2_ tag=i_shl harness=h_i_shl_top props=C08 unwind=2
void h_i_shl_top(void){ IN(I, a); IN(I, b); HGHOSTS; I r; __CPROVER_assume(!i_bot(b) && (!b_eq(b.f0, b.f1) || bval(b.f0) < 0)); _ZNK4ikos8intervalINS_8z_numberEE3ShlERKS2_(&r, &a, &b); __CPROVER_assert(i_bot(a) ? i_bot(r) : i_top(r), "Shl by a non-singleton or negative amount is top"); REACH; }

/* ---------------------------------------------------------------- linear_interval_solver helpers */
/* trim_interval(i, j): refine i with the disequation x != c when j is the singleton {c}: nothing but c is lost */
//@check id=i_trim fn=_ZN4ikos27linear_interval_solver_impl13trim_intervalINS_8intervalINS_8z_numberEEEEET_RKS5_S7_ props=C08
void _ZN4ikos27linear_interval_solver_impl13trim_intervalINS_8intervalINS_8z_numberEEEEET_RKS5_S7_(I *ret, I *self, I *x)
__CPROVER_requires(FRESH(i_trim, ret, sizeof(I)) && IFRESH2(i_trim) && i_ok(*self) && i_ok(*x) && GRANGE)
__CPROVER_assigns(*ret)
__CPROVER_ensures(i_okz(*ret, 2 * ZB))
__CPROVER_ensures((i_has(*self, g_x) && !(i_has(*x, g_x) && !i_has(*x, g_x + 1) && !i_has(*x, g_x - 1))) ==> i_has(*ret, g_x))
__CPROVER_ensures(i_has(*ret, g_x) ==> i_has(*self, g_x));
void h_i_trim(void){ IN(I, a); IN(I, b); HGHOSTS; I r; _ZN4ikos27linear_interval_solver_impl13trim_intervalINS_8intervalINS_8z_numberEEEEET_RKS5_S7_(&r, &a, &b); REACH; }
