// Native replay for unit interval: real ikos::bound<z_number> / ikos::interval<z_number> of the working tree.
// Real objects are built from the witness, the real method is called, the result is converted to the model
// structs (B, I of spec.h: z_number replaced by a 128-bit integer) and the contract's postcondition is evaluated.
#include <crab/domains/interval.hpp>
#include <crab/domains/interval_impl.hpp>
#include <crab/domains/linear_interval_solver.hpp>
#include "replay.h"
#include "spec.h"
using namespace ikos;
typedef bound<z_number> RB; typedef interval<z_number> RI;
static i128 zval(const z_number &z) {
  z_number a = z < z_number(0) ? -z : z; i128 r = 0, m = 1;
  z_number base(1); base = base << z_number(32);
  while (a > z_number(0)) { r += m * (i128)(int64_t)(a % base); a = a / base; m <<= 32; }
  return z < z_number(0) ? -r : r; }
static z_number mkz(i128 v) { bool neg = v < 0; u128 u = neg ? (u128)(-v) : (u128)v; z_number hi = z_number::from_uint64((uint64_t)(u >> 64)), lo = z_number::from_uint64((uint64_t)u);
  z_number r = (hi << z_number(64)) + lo; return neg ? -r : r; }
static i128 wz(const Wit &w, const std::string &p) { return (i128)(((u128)w.u(p + ".f0.a.f1") << 64) | (u128)w.u(p + ".f0.a.f0")); }
static i128 wg(const Wit &w, const char *n) { return (i128)(long long)w.u(n); }   // ghost points lie in (-2^40, 2^40)
static RB mkb(const Wit &w, const std::string &p) { bool inf = w.u(p + ".f0") != 0; i128 v = wz(w, p + ".f1"); if (inf) return v > 0 ? RB::plus_infinity() : RB::minus_infinity(); return RB(mkz(v)); }
static RI mki(const Wit &w, const std::string &p) { RI r; r._lb = mkb(w, p + ".f0"); r._ub = mkb(w, p + ".f1"); return r; }  // raw, exactly the witness fields
static B toB(const RB &b) { B m = b.is_infinite() ? mkinf(b.is_plus_infinity() ? 1 : -1) : mkfin(zval(*b.number())); return m; }
static I toI(const RI &i) { I m; m.f0 = toB(i._lb); m.f1 = toB(i._ub); return m; }
static void showb(const char *n, const RB &b) { crab::outs() << "  " << n << " = " << b << "\n"; }
static void showi(const char *n, const RI &i) { crab::outs() << "  " << n << " = [" << i._lb << ", " << i._ub << "]" << (i.is_bottom() ? " (bottom)" : "") << "\n"; }
static void showg(const char *n, i128 v) { printf("  %s = %lld\n", n, (long long)v); }
#define GX wg(wit, "g_x")
#define GY wg(wit, "g_y")
#define LBm(p) ((p).f0)
#define UBm(p) ((p).f1)
#define RIBIN(id, EXPR, COND) REPLAY(id) { RI a = mki(wit, "a"), b = mki(wit, "b"); i128 g_x = GX, g_y = GY; showi("self", a); showi("x", b); showg("g_x", g_x); showg("g_y", g_y); \
  RI r = EXPR; showi("result", r); I self_ = toI(a), x_ = toI(b), ret_ = toI(r); I *self = &self_, *x = &x_, *ret = &ret_; return i_okz(*ret, ((i128)1) << 100) && (COND); }
#define ANYBOT (i_bot(*self) || i_bot(*x))
RIBIN(i_add, a + b, i_okz(*ret, 2 * ZB) && (ANYBOT ? i_bot(*ret) : i_is(*ret, x_add(LBm(*self), LBm(*x)), x_add(UBm(*self), UBm(*x)))) && (!(i_has(*self, g_x) && i_has(*x, g_y)) || i_has(*ret, g_x + g_y)))
RIBIN(i_sub, a - b, i_okz(*ret, 2 * ZB) && (ANYBOT ? i_bot(*ret) : i_is(*ret, x_add(LBm(*self), x_neg(UBm(*x))), x_add(UBm(*self), x_neg(LBm(*x))))) && (!(i_has(*self, g_x) && i_has(*x, g_y)) || i_has(*ret, g_x - g_y)))
#define CMIN x_min(x_min(x_mul(LBm(*self), LBm(*x)), x_mul(LBm(*self), UBm(*x))), x_min(x_mul(UBm(*self), LBm(*x)), x_mul(UBm(*self), UBm(*x))))
#define CMAX x_max(x_max(x_mul(LBm(*self), LBm(*x)), x_mul(LBm(*self), UBm(*x))), x_max(x_mul(UBm(*self), LBm(*x)), x_mul(UBm(*self), UBm(*x))))
RIBIN(i_mul, a * b, (ANYBOT ? i_bot(*ret) : i_is(*ret, CMIN, CMAX)) && (!(i_has(*self, g_x) && i_has(*x, g_y)) || i_has(*ret, g_x * g_y)))
RIBIN(i_mul_sound, a * b, (!(i_has(*self, g_x) && i_has(*x, g_y)) || i_has(*ret, g_x * g_y)))
RIBIN(i_div, a / b, (!ANYBOT || i_bot(*ret)) && (!(i_has(*self, g_x) && i_has(*x, g_y) && g_y != 0) || i_has(*ret, g_x / g_y)))
RIBIN(i_srem, a.SRem(b), (!ANYBOT || i_bot(*ret)) && (!(i_has(*self, g_x) && i_has(*x, g_y) && g_y != 0) || i_has(*ret, g_x % g_y)))
RIBIN(i_and, a.And(b), (!ANYBOT || i_bot(*ret)) && (!(i_has(*self, g_x) && i_has(*x, g_y)) || i_has(*ret, g_x & g_y)))
RIBIN(i_or, a.Or(b), (!ANYBOT || i_bot(*ret)) && (!(i_has(*self, g_x) && i_has(*x, g_y)) || i_has(*ret, g_x | g_y)))
RIBIN(i_xor, a.Xor(b), (!ANYBOT || i_bot(*ret)) && (!(i_has(*self, g_x) && i_has(*x, g_y)) || i_has(*ret, g_x ^ g_y)))
RIBIN(i_ashr, a.AShr(b), (!ANYBOT || i_bot(*ret)) && (!(i_has(*self, g_x) && i_has(*x, g_y) && g_y >= 0) || i_has(*ret, fshr128(g_x, g_y))))
RIBIN(i_lshr, a.LShr(b), (!ANYBOT || i_bot(*ret)) && (!(i_has(*self, g_x) && i_has(*x, g_y) && g_y >= 0) || (g_x >= 0 ? i_has(*ret, fshr128(g_x, g_y)) : i_top(*ret))))
RIBIN(i_shl, a.Shl(b), (!ANYBOT || i_bot(*ret)) && (!(i_has(*self, g_x) && i_has(*x, g_y) && g_y >= 0 && g_y < 60 && b_is_fin(LBm(*x), g_y) && b_is_fin(UBm(*x), g_y)) || i_has(*ret, g_x * (((i128)1) << (int)g_y))))
RIBIN(i_join, a | b, (i_bot(*self) ? i_eq(*ret, *x) : i_bot(*x) ? i_eq(*ret, *self) : i_is(*ret, x_min(LBm(*self), LBm(*x)), x_max(UBm(*self), UBm(*x)))) && (!(i_has(*self, g_x) || i_has(*x, g_x)) || i_has(*ret, g_x)))
RIBIN(i_meet, a & b, i_has(*ret, g_x) == (i_has(*self, g_x) && i_has(*x, g_x)))
static inline int i_rank(I i){ return i_bot(i) ? 0 : 1 + (b_inf(i.f0) ? 1 : 0) + (b_inf(i.f1) ? 1 : 0); }
RIBIN(i_widen, a || b, (!i_leq(*x, *self) || i_eq(*ret, *self)) && (i_leq(*x, *self) || i_rank(*ret) > i_rank(*self)) && i_rank(*ret) <= 3 && (ANYBOT || ((b_eq(LBm(*ret), LBm(*self)) || b_minf(LBm(*ret))) && (b_eq(UBm(*ret), UBm(*self)) || b_pinf(UBm(*ret))))) && (!(i_has(*self, g_x) || i_has(*x, g_x)) || i_has(*ret, g_x)))
RIBIN(i_narrow, a && b, (!i_leq(*x, *self) || (i_leq(*ret, *self) && i_leq(*x, *ret))) && (!(i_leq(*x, *self) && i_has(*x, g_x)) || i_has(*ret, g_x)))
RIBIN(i_trim, linear_interval_solver_impl::trim_interval<RI>(a, b), (!(i_has(*self, g_x) && !(i_has(*x, g_x) && !i_has(*x, g_x + 1) && !i_has(*x, g_x - 1))) || i_has(*ret, g_x)) && (!i_has(*ret, g_x) || i_has(*self, g_x)))
REPLAY(i_neg) { RI a = mki(wit, "a"); i128 g_x = GX; showi("self", a); RI r = -a; showi("result", r); I s = toI(a), t = toI(r); return (i_bot(s) ? i_bot(t) : i_is(t, x_neg(s.f1), x_neg(s.f0))) && (!i_has(s, g_x) || i_has(t, -g_x)); }
REPLAY(i_leq) { RI a = mki(wit, "a"), b = mki(wit, "b"); i128 g_x = GX; showi("self", a); showi("x", b); bool r = a <= b; printf("  result = %d\n", r); I s = toI(a), t = toI(b); return r == i_leq(s, t) && (!(r && i_has(s, g_x)) || i_has(t, g_x)); }
REPLAY(i_leq_refl) { RI a = mki(wit, "a"); showi("self", a); return a <= a; }
REPLAY(i_eq) { RI a = mki(wit, "a"), b = mki(wit, "b"); showi("self", a); showi("x", b); bool r = a == b; printf("  result = %d\n", r); return r == i_eq(toI(a), toI(b)); }
REPLAY(i_is_bottom) { RI a = mki(wit, "a"); showi("self", a); return a.is_bottom() == i_bot(toI(a)); }
REPLAY(i_is_top) { RI a = mki(wit, "a"); showi("self", a); return a.is_top() == i_top(toI(a)); }
REPLAY(i_contains) { RI a = mki(wit, "a"); i128 n = wz(wit, "n"); showi("self", a); showg("n", n); return a[mkz(n)] == i_has(toI(a), n); }
#define RBBIN(id, EXPR, SPEC) REPLAY(id) { RB a = mkb(wit, "a"), b = mkb(wit, "b"); showb("self", a); showb("x", b); RB r = EXPR; showb("result", r); B s = toB(a), x = toB(b), t = toB(r); return b_eq(t, SPEC); }
RBBIN(b_add, a + b, x_add(s, x)) RBBIN(b_sub, a - b, x_add(s, x_neg(x))) RBBIN(b_mul, a * b, x_mul(s, x)) RBBIN(b_div, a / b, x_div(s, x))
RBBIN(b_min2, RB::min(a, b), x_min(s, x)) RBBIN(b_max2, RB::max(a, b), x_max(s, x))
#define RBCMP(id, OP, SPEC) REPLAY(id) { RB a = mkb(wit, "a"), b = mkb(wit, "b"); showb("self", a); showb("x", b); bool r = a OP b; B s = toB(a), x = toB(b); return r == (SPEC); }
RBCMP(b_le, <=, b_le(s, x)) RBCMP(b_ge, >=, b_le(x, s)) RBCMP(b_lt, <, !b_le(x, s)) RBCMP(b_gt, >, !b_le(s, x)) RBCMP(b_eq, ==, b_eq(s, x)) RBCMP(b_ne, !=, !b_eq(s, x))
int main(int argc, char **argv) { return replay_main(argc, argv); }
