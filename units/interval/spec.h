/* Specification vocabulary for ikos::bound<z_number> and ikos::interval<z_number>
 * (include/crab/domains/interval_impl.hpp, lib/interval.cpp).  Shared by contracts.c and replay.cpp.
 * B/I are the compiler's lowering of the classes with z_number replaced by the integer model
 * (models/zmodel.h): B = { f0 = _is_infinite, f1 = _n }, I = { f0 = _lb, f1 = _ub }. */
#ifndef INTERVAL_SPEC_H
#define INTERVAL_SPEC_H
#include "verif.h"
#include "unit_types.h"
#include "zmodel.h"
typedef struct S_class_ikos__bound B;
typedef struct S_class_ikos__interval I;
#ifndef ZBITS
#define ZBITS 40
#endif
#define ZB (((i128)1) << ZBITS)     /* finite bounds of INPUTS lie strictly inside (-ZB, ZB) */
#ifdef __cplusplus
static inline i128 bval(B b){ return (i128)(((u128)b.f1.f0.a.f1 << 64) | (u128)b.f1.f0.a.f0); }
static inline i128 ZM_mul(i128 a, i128 b){ return a * b; }
static inline i128 ZM_div(i128 a, i128 b){ return a / b; }
static inline i128 ZM_rem(i128 a, i128 b){ return a % b; }
static inline i128 ZM_mul_pure(i128 a, i128 b){ return a * b; }
static inline i128 ZM_div_pure(i128 a, i128 b){ return a / b; }
static inline i128 ZM_rem_pure(i128 a, i128 b){ return a % b; }
#else
static inline i128 bval(B b){ return ZV(&b.f1); }
#endif
/* ---- extended integers: a bound is (-oo | n | +oo) */
static inline bool b_inf(B b){ return b.f0 != 0; }
static inline bool b_pinf(B b){ return b.f0 != 0 && bval(b) > 0; }
static inline bool b_minf(B b){ return b.f0 != 0 && bval(b) < 0; }
/* representation invariant of bound: flag is 0/1, an infinite bound carries +1/-1 */
static inline bool b_okz(B b, i128 z){ return b.f0 <= 1 && (b.f0 ? (bval(b) == 1 || bval(b) == -1) : (bval(b) > -z && bval(b) < z)); }
static inline bool b_ok(B b){ return b_okz(b, ZB); }
/* order on extended integers */
static inline bool b_le(B a, B b){ return b_minf(a) || b_pinf(b) || (!b_inf(a) && !b_inf(b) && bval(a) <= bval(b)); }
static inline bool b_eq(B a, B b){ return (b_inf(a) != 0) == (b_inf(b) != 0) && bval(a) == bval(b); }
static inline bool b_is_fin(B a, i128 v){ return !b_inf(a) && bval(a) == v; }
static inline bool b_le_num(B b, i128 x){ return b.f0 ? bval(b) < 0 : bval(b) <= x; }   /* b <= x */
static inline bool num_le_b(i128 x, B b){ return b.f0 ? bval(b) > 0 : x <= bval(b); }   /* x <= b */
/* ---- intervals */
static inline bool i_bot(I i){ return !b_le(i.f0, i.f1); }
/* representation invariant: bounds ok; a bottom has finite bounds (so is_top() cannot hold of it);
 * a non-bottom never has lb = +oo or ub = -oo */
static inline bool i_okz(I i, i128 z){ return b_okz(i.f0, z) && b_okz(i.f1, z) && (i_bot(i) ? (!b_inf(i.f0) && !b_inf(i.f1)) : (!b_pinf(i.f0) && !b_minf(i.f1))); }
static inline bool i_ok(I i){ return i_okz(i, ZB); }
static inline bool i_top(I i){ return b_minf(i.f0) && b_pinf(i.f1); }
/* concretisation */
static inline bool i_has(I i, i128 x){ return b_le_num(i.f0, x) && num_le_b(x, i.f1); }
static inline bool i_eq(I a, I b){ return i_bot(a) ? i_bot(b) : (!i_bot(b) && b_eq(a.f0, b.f0) && b_eq(a.f1, b.f1)); }
static inline bool i_leq(I a, I b){ return i_bot(a) || (!i_bot(b) && b_le(b.f0, a.f0) && b_le(a.f1, b.f1)); }
static inline bool i_is(I i, B lb, B ub){ return !i_bot(i) && b_eq(i.f0, lb) && b_eq(i.f1, ub); }
/* ---- spec functions on extended integers (results as B values) */
static inline B mkfin(i128 v){ B b; b.f0 = 0; b.f1.f0.a.f0 = (uint64_t)(u128)v; b.f1.f0.a.f1 = (uint64_t)((u128)v >> 64); return b; }
static inline B mkinf(int sign){ B b = mkfin(sign); b.f0 = 1; return b; }
static inline B x_neg(B a){ return b_inf(a) ? mkinf(bval(a) > 0 ? -1 : 1) : mkfin(-bval(a)); }
/* a + b, never applied to opposite infinities */
static inline B x_add(B a, B b){ return b_inf(a) ? a : (b_inf(b) ? b : mkfin(bval(a) + bval(b))); }
static inline B x_min(B a, B b){ return b_le(a, b) ? a : b; }
static inline B x_max(B a, B b){ return b_le(a, b) ? b : a; }
/* a * b with the convention 0 * oo = 0 */
static inline B x_mul(B a, B b){
  if (!b_inf(a) && bval(a) == 0) return mkfin(0);
  if (!b_inf(b) && bval(b) == 0) return mkfin(0);
  if (b_inf(a) || b_inf(b)) return mkinf(((bval(a) > 0) == (bval(b) > 0)) ? 1 : -1);
  return mkfin(ZM_mul_pure(bval(a), bval(b))); }
/* a / b, b != 0, with the class's convention finite / infinite = 0 */
static inline B x_div(B a, B b){
  if (!b_inf(a) && !b_inf(b)) return mkfin(ZM_div_pure(bval(a), bval(b)));
  if (!b_inf(a)) return mkfin(0);
  if (!b_inf(b)) return bval(b) > 0 ? a : x_neg(a);
  return mkinf(((bval(a) > 0) == (bval(b) > 0)) ? 1 : -1); }
/* floor shift and 2^k on model integers */
static inline i128 fshr128(i128 v, i128 k){ return k >= 127 ? (v < 0 ? -1 : 0) : (v < 0 ? ~((~v) >> (unsigned)k) : (v >> (unsigned)k)); }
#endif
