/* Specification vocabulary for the bit kernels of the patricia trees
 * (namespace ikos::patricia_trees_impl, include/crab/domains/patricia_trees.hpp).
 * Shared by contracts.c (CBMC) and replay.cpp (native).  index_t is uint64_t.
 *
 * A tree is described by (prefix p, branching bit m): a LEAF has m = 0 and p = its key; a NODE has m a
 * power of two, p has bit m clear, all bits below m set, and the bits above m are those shared by
 * every key of the subtree (tree::join builds nodes as make_node(mask(p0, m), m, ..)). */
#ifndef PTKERN_SPEC_H
#define PTKERN_SPEC_H
#include "verif.h"
typedef uint64_t ix;
#define TOPBIT ((ix)1 << 63)
static inline bool pow2(ix m){ return m != 0 && (m & (m - 1)) == 0; }
/* for a power of two m: the bits strictly above m */
static inline ix above(ix m){ return ~(m | (m - 1)); }
/* r is the highest set bit of x: a single bit, set in x, nothing of x above it */
static inline bool is_hb(ix r, ix x){ return pow2(r) && (x & r) != 0 && (x & above(r)) == 0; }
/* the prefix a node with branching bit m (power of two) keeps of key k: k's bits above m, bit m
 * clear, every bit below m set */
static inline ix prefix_of(ix k, ix m){ return (k & above(m)) | (m - 1); }
/* (p,m) is a well-formed node / leaf-or-node */
static inline bool wf_node(ix p, ix m){ return pow2(m) && p == prefix_of(p, m); }
static inline bool wf_tree(ix p, ix m){ return m == 0 || wf_node(p, m); }
/* key k belongs under the subtree (p,m) */
static inline bool covers(ix p, ix m, ix k){ return m == 0 ? k == p : ((k ^ p) & above(m)) == 0; }
static inline ix max_ix(ix a, ix b){ return a < b ? b : a; }
/* the second argument compute_branching_bit hands to highest_bit; only meaningful below 2^63 */
static inline ix cbb_from(ix m0, ix m1){ return max_ix(1, 2 * max_ix(m0, m1)); }
/* precondition of highest_bit(x, m): m is a single bit and x has a set bit at or above it.
 * (when x has no bit at or above m the loop doubles m_ through 2^63 to 0 and the function returns 0,
 * which is no bit at all.) */
#define PRE_hb(x, m) (pow2(m) && ((x) & ~((m) - 1)) != 0)
/* precondition of compute_branching_bit(p0,m0,p1,m1): branching bits are 0 (leaf) or a power of two,
 * BOTH BELOW 2^63 (2*max(m0,m1) must not wrap, DESIGN A.11), and the prefixes differ in a bit above
 * both branching bits */
#define PRE_cbb(p0, m0, p1, m1) (((m0) == 0 || pow2(m0)) && ((m1) == 0 || pow2(m1)) && (m0) < TOPBIT && (m1) < TOPBIT && \
                                 PRE_hb((p0) ^ (p1), cbb_from(m0, m1)))
#define POST_hb(r, x, m) (is_hb(r, x) && (r) >= (m))
#define POST_cbb(r, p0, m0, p1, m1) (is_hb(r, (p0) ^ (p1)) && (r) > (m0) && (r) > (m1))
/* exact characterisations (first the literal bit formula for ALL inputs, then its meaning for a
 * power-of-two m) */
#define POST_mask_lit(r, k, m) ((r) == (((k) | ((m) - 1)) & ~(m)))
#define POST_mask_pow2(r, k, m) (!pow2(m) || (r) == prefix_of(k, m))
#define POST_zero_bit(r, k, m) (((r) != 0) == (((k) & (m)) == 0))
#define POST_mp_lit(r, k, p, m) (((r) != 0) == ((((k) | ((m) - 1)) & ~(m)) == (p)))
#define POST_mp_pow2(r, k, p, m) (!pow2(m) || ((r) != 0) == ((p) == prefix_of(k, m)))
#define POST_mp_wf(r, k, p, m) (!wf_node(p, m) || ((r) != 0) == covers(p, m, k))
#define BOOL01(r) ((r) == 0 || (r) == 1)
#endif
