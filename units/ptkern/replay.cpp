// Native replay for unit ptkern: the real kernels of the working tree's patricia_trees.hpp, the same
// POST_* / PRE_* macros and lemma statements as contracts.c.
#include <crab/domains/patricia_trees.hpp>
#include "replay.h"
#include "spec.h"
namespace pt = ikos::patricia_trees_impl;
#define U(n) uint64_t n = wit.u(#n); printf("  " #n " = %llu (0x%llx)\n", (unsigned long long)n, (unsigned long long)n)
#define SHOW(what, v) printf("  " what " = %llu (0x%llx)\n", (unsigned long long)(v), (unsigned long long)(v))
// highest_bit does not terminate quickly only in theory: its loop ends after at most 64 doublings (m_ wraps to 0)
REPLAY(highest_bit) { U(x); U(m); if (!PRE_hb(x, m)) return true; uint64_t r = pt::highest_bit(x, m); SHOW("result", r); return POST_hb(r, x, m); }
REPLAY(mask) { U(k); U(m); uint64_t r = pt::mask(k, m); SHOW("result", r); return POST_mask_lit(r, k, m) && POST_mask_pow2(r, k, m); }
REPLAY(zero_bit) { U(k); U(m); bool r = pt::zero_bit(k, m); SHOW("result", r); return POST_zero_bit(r, k, m); }
static bool mp_post(const Wit &wit) { U(k); U(p); U(m); bool r = pt::match_prefix(k, p, m); SHOW("result", r); return POST_mp_lit(r, k, p, m) && POST_mp_pow2(r, k, p, m) && POST_mp_wf(r, k, p, m); }
REPLAY(match_prefix) { return mp_post(wit); }
REPLAY(match_prefix_mod) { return mp_post(wit); }
static bool cbb_post(const Wit &wit) { U(p0); U(m0); U(p1); U(m1); if (!PRE_cbb(p0, m0, p1, m1)) return true; uint64_t r = pt::compute_branching_bit(p0, m0, p1, m1); SHOW("result", r); return POST_cbb(r, p0, m0, p1, m1); }
REPLAY(cbb) { return cbb_post(wit); }
REPLAY(cbb_inline) { return cbb_post(wit); }
REPLAY(l1) { U(k); U(p); U(m);
  if (!(pow2(m) && p == pt::mask(p, m))) return true;
  if (!pt::match_prefix(k, p, m)) return true;
  SHOW("zero_bit(k,m)", pt::zero_bit(k, m)); SHOW("k <= p", k <= p);
  return pt::zero_bit(k, m) == (k <= p); }
REPLAY(l0_insert) { U(k); U(p); U(m);
  if (!(pow2(m) && p == pt::mask(p, m))) return true;
  if (pt::match_prefix(k, p, m)) return true;
  return m < TOPBIT && PRE_cbb(k, 0, p, m); }
REPLAY(l0_leaf) { U(k0); U(k1); if (k0 == k1) return true;
  if (!PRE_cbb(k0, 0, k1, 0)) return false;
  uint64_t b = pt::compute_branching_bit(k0, 0, k1, 0); SHOW("branching bit", b); return is_hb(b, k0 ^ k1); }
REPLAY(l0_merge) { U(ps); U(ms); U(pt); U(mt);
  if (!(pow2(ms) && ps == pt::mask(ps, ms) && pow2(mt) && pt == pt::mask(pt, mt))) return true;
  bool reaches_join = !(ms == mt && ps == pt) && !(ms > mt && pt::match_prefix(pt, ps, ms)) && !(ms < mt && pt::match_prefix(ps, pt, mt));
  if (!reaches_join) return true;
  return ms < TOPBIT && mt < TOPBIT && PRE_cbb(ps, ms, pt, mt); }
REPLAY(l2) { U(p0); U(m0); U(p1); U(m1); if (!PRE_cbb(p0, m0, p1, m1)) return true;
  uint64_t b = pt::compute_branching_bit(p0, m0, p1, m1); SHOW("branching bit", b);
  SHOW("mask(p0,b)", pt::mask(p0, b)); SHOW("mask(p1,b)", pt::mask(p1, b)); SHOW("zero_bit(p0,b)", pt::zero_bit(p0, b)); SHOW("zero_bit(p1,b)", pt::zero_bit(p1, b));
  return pow2(b) && b > m0 && b > m1 && pt::mask(p0, b) == pt::mask(p1, b) && pt::zero_bit(p0, b) != pt::zero_bit(p1, b) &&
         wf_node(pt::mask(p0, b), b) && pt::match_prefix(p0, pt::mask(p0, b), b) && pt::match_prefix(p1, pt::mask(p0, b), b); }
REPLAY(l3) { U(p0); U(m0); U(p1); U(m1); U(k); if (!PRE_cbb(p0, m0, p1, m1)) return true;
  uint64_t b = pt::compute_branching_bit(p0, m0, p1, m1), p = pt::mask(p0, b); SHOW("branching bit", b); SHOW("joined prefix", p);
  bool wf0 = m0 == 0 || (pow2(m0) && p0 == pt::mask(p0, m0)), wf1 = m1 == 0 || (pow2(m1) && p1 == pt::mask(p1, m1));
  bool under0 = m0 == 0 ? k == p0 : pt::match_prefix(k, p0, m0), under1 = m1 == 0 ? k == p1 : pt::match_prefix(k, p1, m1);
  bool ok = true;
  if (wf0 && under0) ok = ok && pt::match_prefix(k, p, b) && pt::zero_bit(k, b) == pt::zero_bit(p0, b);
  if (wf1 && under1) ok = ok && pt::match_prefix(k, p, b) && pt::zero_bit(k, b) == pt::zero_bit(p1, b);
  if (wf0 && wf1) ok = ok && !(under0 && under1);
  return ok; }
REPLAY(l4) { U(ps); U(ms); U(pt); U(mt); U(k);
  if (!(pow2(ms) && ps == pt::mask(ps, ms) && pow2(mt) && pt == pt::mask(pt, mt) && ms > mt)) return true;
  if (!pt::match_prefix(pt, ps, ms) || !covers(pt, mt, k)) return true;
  return covers(ps, ms, k) && pt::zero_bit(k, ms) == pt::zero_bit(pt, ms); }
int main(int argc, char **argv) { return replay_main(argc, argv); }
