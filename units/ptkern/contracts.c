/* Contracts for the bit kernels of the patricia trees (ikos::patricia_trees_impl, patricia_trees.hpp)
 * and the routing lemmas of DESIGN.md C19 — property C19, all 64-bit inputs, no bound.
 *
 * Kernels: each is proved against its own contract; highest_bit with a LOOP CONTRACT (loops.json).
 * Lemmas L0..L4: harness-level assertions over the REAL kernels.  Choice: the lemma harness makes ONE
 * call of an enforced kernel (compute_branching_bit, whose only loop sits in highest_bit and is
 * replaced there by highest_bit's proved contract; or match_prefix) and calls the other, loop-free
 * one-line kernels (mask, zero_bit, match_prefix) IN LINE, i.e. their real bodies.  So a lemma fails if
 * any of the real kernels changes meaning, not only if a contract does; the queries stay loop-free.
 * No __CPROVER_assume anywhere: hypotheses are `if` guards, and each guarded block has a must-fail
 * SATGUARD showing the hypothesis is satisfiable. */
#include "spec.h"
#define HB   _ZN4ikos19patricia_trees_impl11highest_bitEmm
#define CBB  _ZN4ikos19patricia_trees_impl21compute_branching_bitEmmmm
#define MASK _ZN4ikos19patricia_trees_impl4maskEmm
#define ZB   _ZN4ikos19patricia_trees_impl8zero_bitEmm
#define MP   _ZN4ikos19patricia_trees_impl12match_prefixEmmm

/* ---- highest_bit(x, m): precondition derived from the only call site (compute_branching_bit):
 * m = max(1, 2*max(m0,m1)) is a single bit and p0^p1 has a bit at or above it.  Result: THE highest
 * set bit of x (so it does not depend on m), at or above m. */
//@check id=highest_bit fn=_ZN4ikos19patricia_trees_impl11highest_bitEmm props=C19 loops=1 fallback_unwind=66
uint64_t HB(uint64_t x, uint64_t m)
__CPROVER_requires(PRE_hb(x, m))
__CPROVER_assigns()
__CPROVER_ensures(POST_hb(__CPROVER_return_value, x, m));
void h_highest_bit(void){ GHOST(uint64_t, x); GHOST(uint64_t, m); HB(x, m); REACH; }

/* ---- mask, zero_bit, match_prefix: total functions, exact */
//@check id=mask fn=_ZN4ikos19patricia_trees_impl4maskEmm props=C19
uint64_t MASK(uint64_t k, uint64_t m)
__CPROVER_assigns()
__CPROVER_ensures(POST_mask_lit(__CPROVER_return_value, k, m))
__CPROVER_ensures(POST_mask_pow2(__CPROVER_return_value, k, m));
void h_mask(void){ GHOST(uint64_t, k); GHOST(uint64_t, m); MASK(k, m); REACH; }

//@check id=zero_bit fn=_ZN4ikos19patricia_trees_impl8zero_bitEmm props=C19
unsigned char ZB(uint64_t k, uint64_t m)
__CPROVER_assigns()
__CPROVER_ensures(BOOL01(__CPROVER_return_value) && POST_zero_bit(__CPROVER_return_value, k, m));
void h_zero_bit(void){ GHOST(uint64_t, k); GHOST(uint64_t, m); ZB(k, m); REACH; }

//@check id=match_prefix fn=_ZN4ikos19patricia_trees_impl12match_prefixEmmm props=C19
unsigned char MP(uint64_t k, uint64_t p, uint64_t m)
__CPROVER_assigns()
__CPROVER_ensures(BOOL01(__CPROVER_return_value) && POST_mp_lit(__CPROVER_return_value, k, p, m))
__CPROVER_ensures(POST_mp_pow2(__CPROVER_return_value, k, p, m))
__CPROVER_ensures(POST_mp_wf(__CPROVER_return_value, k, p, m));
void h_match_prefix(void){ GHOST(uint64_t, k); GHOST(uint64_t, p); GHOST(uint64_t, m); MP(k, p, m); REACH; }
/* the same contract with mask replaced by ITS contract (modular form) */
//@check id=match_prefix_mod fn=_ZN4ikos19patricia_trees_impl12match_prefixEmmm props=C19 replace=_ZN4ikos19patricia_trees_impl4maskEmm
void h_match_prefix_mod(void){ GHOST(uint64_t, k); GHOST(uint64_t, p); GHOST(uint64_t, m); MP(k, p, m); REACH; }

/* ---- compute_branching_bit(p0,m0,p1,m1): the highest bit in which the prefixes differ, above both
 * branching bits.  Precondition PRE_cbb carries m0,m1 < 2^63 (A.11). */
//@check id=cbb fn=_ZN4ikos19patricia_trees_impl21compute_branching_bitEmmmm props=C19 replace=_ZN4ikos19patricia_trees_impl11highest_bitEmm
uint64_t CBB(uint64_t p0, uint64_t m0, uint64_t p1, uint64_t m1)
__CPROVER_requires(PRE_cbb(p0, m0, p1, m1))
__CPROVER_assigns()
__CPROVER_ensures(POST_cbb(__CPROVER_return_value, p0, m0, p1, m1));
void h_cbb(void){ GHOST(uint64_t, p0); GHOST(uint64_t, m0); GHOST(uint64_t, p1); GHOST(uint64_t, m1); CBB(p0, m0, p1, m1); REACH; }
/* the same, highest_bit in line under its loop contract (no callee contract assumed at all) */
//@check id=cbb_inline fn=_ZN4ikos19patricia_trees_impl21compute_branching_bitEmmmm props=C19 loops=1 fallback_unwind=66
void h_cbb_inline(void){ GHOST(uint64_t, p0); GHOST(uint64_t, m0); GHOST(uint64_t, p1); GHOST(uint64_t, m1); CBB(p0, m0, p1, m1); REACH; }

/* ================= routing lemmas ================= */
#define HB_REPL replace=_ZN4ikos19patricia_trees_impl11highest_bitEmm

/* L1: in a well-formed node (p,m) a key that matches the prefix lies left (zero_bit) exactly when
 * key <= prefix: node::lookup/find route by `key <= prefix`, insert/remove/merge by zero_bit. */
//@check id=l1 fn=_ZN4ikos19patricia_trees_impl12match_prefixEmmm props=C19
void h_l1(void){
  GHOST(uint64_t, k); GHOST(uint64_t, p); GHOST(uint64_t, m);
  if (pow2(m) && p == MASK(p, m)) {
    SATGUARD(1);
    if (MP(k, p, m)) {
      __CPROVER_assert((ZB(k, m) != 0) == (k <= p), "L1: zero_bit(k,m) <=> k <= p for keys matching the prefix");
      SATGUARD(ZB(k, m) != 0); SATGUARD(ZB(k, m) == 0);
    }
  }
  REACH; }

/* L0 (call-site guards, insert): tree::insert calls join(leaf(k), t) on a node t = (p,m) only when
 * !match_prefix(k,p,m).  For a well-formed node that guard implies the precondition of
 * compute_branching_bit(k, 0, p, m), in particular m < 2^63: a node whose branching bit is 2^63
 * matches EVERY key, so join is never reached with it. */
//@check id=l0_insert fn=_ZN4ikos19patricia_trees_impl12match_prefixEmmm props=C19
void h_l0_insert(void){
  GHOST(uint64_t, k); GHOST(uint64_t, p); GHOST(uint64_t, m);
  if (pow2(m) && p == MASK(p, m)) {
    if (!MP(k, p, m)) {
      SATGUARD(1);
      __CPROVER_assert(m < TOPBIT, "L0 insert: a node with branching bit 2^63 matches every key");
      __CPROVER_assert(PRE_cbb(k, 0, p, m), "L0 insert: !match_prefix implies the precondition of compute_branching_bit");
    } else if (m == TOPBIT) { SATGUARD(1); }
  }
  REACH; }
/* L0 (leaf/leaf): insert joins two leaves only when their keys differ */
//@check id=l0_leaf fn=_ZN4ikos19patricia_trees_impl21compute_branching_bitEmmmm props=C19 replace=_ZN4ikos19patricia_trees_impl11highest_bitEmm
void h_l0_leaf(void){
  GHOST(uint64_t, k0); GHOST(uint64_t, k1);
  if (k0 != k1) {
    __CPROVER_assert(PRE_cbb(k0, 0, k1, 0), "L0 leaf: distinct keys satisfy the precondition of compute_branching_bit");
    uint64_t b = CBB(k0, 0, k1, 0);
    __CPROVER_assert(is_hb(b, k0 ^ k1), "L0 leaf: branching bit of two leaves is the highest differing bit");
  }
  REACH; }
/* L0 (call-site guards, merge): tree::merge calls join(s, t) on two nodes only in the last else:
 * not (same bit and prefix), not (ms > mt and t's prefix matches s), not (ms < mt and s's prefix matches t).
 * At most one match_prefix call is evaluated (&& short-circuits on the bit comparison). */
//@check id=l0_merge fn=_ZN4ikos19patricia_trees_impl12match_prefixEmmm props=C19
void h_l0_merge(void){
  GHOST(uint64_t, ps); GHOST(uint64_t, ms); GHOST(uint64_t, pt); GHOST(uint64_t, mt);
  if (pow2(ms) && ps == MASK(ps, ms) && pow2(mt) && pt == MASK(pt, mt)) {
    bool reaches_join;
    if (ms == mt) reaches_join = (ps != pt);
    else {
      /* the guard that is evaluated: match_prefix(prefix of the smaller-bit tree, prefix of the larger, larger bit) */
      uint64_t plo = ms > mt ? pt : ps, phi = ms > mt ? ps : pt, mhi = ms > mt ? ms : mt;
      reaches_join = !MP(plo, phi, mhi);
    }
    if (reaches_join) {
      SATGUARD(ms == mt); SATGUARD(ms > mt); SATGUARD(ms < mt);
      __CPROVER_assert(ms < TOPBIT && mt < TOPBIT, "L0 merge: join is not reached with a branching bit 2^63");
      __CPROVER_assert(PRE_cbb(ps, ms, pt, mt), "L0 merge: the guards imply the precondition of compute_branching_bit");
    }
  }
  REACH; }

/* L2: b = compute_branching_bit(p0,m0,p1,m1) is a single bit above m0 and m1, both prefixes have the
 * same mask under b and lie on opposite sides: tree::join builds a well-formed node
 * make_node(mask(p0,b), b, ..) with t0 on the side zero_bit(p0,b) says. */
//@check id=l2 fn=_ZN4ikos19patricia_trees_impl21compute_branching_bitEmmmm props=C19 replace=_ZN4ikos19patricia_trees_impl11highest_bitEmm
void h_l2(void){
  GHOST(uint64_t, p0); GHOST(uint64_t, m0); GHOST(uint64_t, p1); GHOST(uint64_t, m1);
  uint64_t b = CBB(p0, m0, p1, m1);
  __CPROVER_assert(pow2(b) && b > m0 && b > m1, "L2: branching bit is a single bit above both");
  __CPROVER_assert(MASK(p0, b) == MASK(p1, b), "L2: common masked prefix");
  __CPROVER_assert((ZB(p0, b) != 0) != (ZB(p1, b) != 0), "L2: opposite sides");
  __CPROVER_assert(wf_node(MASK(p0, b), b), "L2: the joined node is well formed");
  __CPROVER_assert(MP(p0, MASK(p0, b), b) && MP(p1, MASK(p0, b), b), "L2: both prefixes match the joined prefix");
  REACH; }

/* L3: every key under child i (leaf: the key itself; node: match_prefix(k,pi,mi)) matches the joined
 * prefix and lies on that child's side of the joined node. */
//@check id=l3 fn=_ZN4ikos19patricia_trees_impl21compute_branching_bitEmmmm props=C19 replace=_ZN4ikos19patricia_trees_impl11highest_bitEmm
void h_l3(void){
  GHOST(uint64_t, p0); GHOST(uint64_t, m0); GHOST(uint64_t, p1); GHOST(uint64_t, m1); GHOST(uint64_t, k);
  uint64_t b = CBB(p0, m0, p1, m1);
  uint64_t p = MASK(p0, b);
  bool wf0 = m0 == 0 || (pow2(m0) && p0 == MASK(p0, m0));
  bool wf1 = m1 == 0 || (pow2(m1) && p1 == MASK(p1, m1));
  bool under0 = m0 == 0 ? k == p0 : MP(k, p0, m0) != 0;
  bool under1 = m1 == 0 ? k == p1 : MP(k, p1, m1) != 0;
  if (wf0 && under0) {
    SATGUARD(m0 == 0); SATGUARD(m0 != 0);
    __CPROVER_assert(MP(k, p, b), "L3: a key of child 0 matches the joined prefix");
    __CPROVER_assert((ZB(k, b) != 0) == (ZB(p0, b) != 0), "L3: a key of child 0 lies on child 0's side");
  }
  if (wf1 && under1) {
    SATGUARD(m1 == 0); SATGUARD(m1 != 0);
    __CPROVER_assert(MP(k, p, b), "L3: a key of child 1 matches the joined prefix");
    __CPROVER_assert((ZB(k, b) != 0) == (ZB(p1, b) != 0), "L3: a key of child 1 lies on child 1's side");
  }
  if (wf0 && wf1) __CPROVER_assert(!(under0 && under1), "L3: the two children are disjoint");
  REACH; }

/* L4 (descent in merge/compare): for nodes s = (ps,ms), t = (pt,mt) with ms > mt and
 * match_prefix(pt, ps, ms), every key under t is under s, on the side zero_bit(pt, ms) selects. */
//@check id=l4 fn=_ZN4ikos19patricia_trees_impl12match_prefixEmmm props=C19
void h_l4(void){
  GHOST(uint64_t, ps); GHOST(uint64_t, ms); GHOST(uint64_t, pt); GHOST(uint64_t, mt); GHOST(uint64_t, k);
  if (pow2(ms) && ps == MASK(ps, ms) && pow2(mt) && pt == MASK(pt, mt) && ms > mt) {
    if (MP(pt, ps, ms)) {
      if (covers(pt, mt, k)) {
        SATGUARD(1);
        __CPROVER_assert(covers(ps, ms, k), "L4: keys of the smaller tree are keys of the larger");
        __CPROVER_assert((ZB(k, ms) != 0) == (ZB(pt, ms) != 0), "L4: and lie on the side its prefix selects");
      }
    }
  }
  REACH; }
