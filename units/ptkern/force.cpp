// Forcing TU for the bit kernels of the patricia trees (namespace ikos::patricia_trees_impl of
// include/crab/domains/patricia_trees.hpp).  No logic of its own: the real header is included and
// the five inline kernels are forced to be emitted by taking their addresses in an externally
// visible table.  The contracts (units/ptkern/contracts.c) are stated on the REAL mangled functions.
#include <crab/domains/patricia_trees.hpp>
namespace pt = ikos::patricia_trees_impl;
extern "C" {
void *ptkern_force[] = {(void *)&pt::highest_bit, (void *)&pt::compute_branching_bit, (void *)&pt::mask,
                        (void *)&pt::zero_bit, (void *)&pt::match_prefix};
}
