/* Contracts for the invariant-table accessors of the fixpoint engine (properties C06 / C05: the engine's invariants are
 * what get_pre / get_post report; units fixvisit and fixrun assume these four as map operations). */
#include "spec.h"
#define SET_PRE  _ZN4ikos33interleaved_fwd_fixpoint_iteratorI4TCFG2GVE7set_preEmRKS2_
#define SET_POST _ZN4ikos33interleaved_fwd_fixpoint_iteratorI4TCFG2GVE8set_postEmOS2_
#define GET_PRE  _ZNK4ikos33interleaved_fwd_fixpoint_iteratorI4TCFG2GVE7get_preEm
#define GET_POST _ZNK4ikos33interleaved_fwd_fixpoint_iteratorI4TCFG2GVE8get_postEm
static IT h_it;
#define MK GHOST(uint64_t, lab); GHOST(uint8_t, has_pre); GHOST(uint64_t, val_pre); GHOST(uint8_t, has_post); GHOST(uint64_t, val_post); GHOST(uint64_t, node); IN(GV, v); \
  VERBOSITY = 0; g_it = &h_it; g_lab = lab; g_has_pre = has_pre & 1; g_has_post = has_post & 1; \
  NODE_PAIR(&g_node_pre)->f0 = lab; VAL_PRE = val_pre; NODE_PAIR(&g_node_post)->f0 = lab; VAL_POST = val_post
/* set_pre(node, v): afterwards node is bound to v in m_pre WHETHER OR NOT it was bound before; every other label and
 * the whole of m_post are unchanged */
//@check id=set_pre fn=_ZN4ikos33interleaved_fwd_fixpoint_iteratorI4TCFG2GVE7set_preEmRKS2_ props=C06,C05
void SET_PRE(IT *self, uint64_t node, GV *v)
__CPROVER_requires(self == g_it && FRESH(set_pre, v, sizeof(GV)))
__CPROVER_assigns(g_has_pre, g_node_pre, g_node_other)
__CPROVER_ensures(node == g_lab ==> (g_has_pre == 1 && VAL_PRE == v->f0))
__CPROVER_ensures(node != g_lab ==> (g_has_pre == __CPROVER_old(g_has_pre) && VAL_PRE == __CPROVER_old(VAL_PRE)));
void h_set_pre(void){ MK; SET_PRE(&h_it, node, &v); REACH; }
//@check id=set_post fn=_ZN4ikos33interleaved_fwd_fixpoint_iteratorI4TCFG2GVE8set_postEmOS2_ props=C06,C05
void SET_POST(IT *self, uint64_t node, GV *v)
__CPROVER_requires(self == g_it && FRESH(set_post, v, sizeof(GV)))
__CPROVER_assigns(g_has_post, g_node_post, g_node_other)
__CPROVER_ensures(node == g_lab ==> (g_has_post == 1 && VAL_POST == __CPROVER_old(v->f0)))
__CPROVER_ensures(node != g_lab ==> (g_has_post == __CPROVER_old(g_has_post) && VAL_POST == __CPROVER_old(VAL_POST)));
void h_set_post(void){ MK; SET_POST(&h_it, node, &v); REACH; }
/* get_pre / get_post(node): the bound value; nothing is written */
//@check id=get_pre fn=_ZNK4ikos33interleaved_fwd_fixpoint_iteratorI4TCFG2GVE7get_preEm props=C06,C05
uint64_t GET_PRE(IT *self, uint64_t node)
__CPROVER_requires(self == g_it && (node == g_lab ==> g_has_pre == 1))
__CPROVER_assigns(g_node_other)
__CPROVER_ensures(node == g_lab ==> __CPROVER_return_value == VAL_PRE);
void h_get_pre(void){ MK; GET_PRE(&h_it, node); REACH; }
//@check id=get_post fn=_ZNK4ikos33interleaved_fwd_fixpoint_iteratorI4TCFG2GVE8get_postEm props=C06,C05
uint64_t GET_POST(IT *self, uint64_t node)
__CPROVER_requires(self == g_it && (node == g_lab ==> g_has_post == 1))
__CPROVER_assigns(g_node_other)
__CPROVER_ensures(node == g_lab ==> __CPROVER_return_value == VAL_POST);
void h_get_post(void){ MK; GET_POST(&h_it, node); REACH; }
