/* Models for unit fixtab: ASSUMED finite-map reading of std::unordered_map<label,GV>::insert / find / at for the two
 * invariant tables of the iterator g_it, watched at the ghost label g_lab (binding present iff g_has_*, stored in
 * g_node_*); any other key is answered arbitrarily through a scratch node. */
#include "spec.h"
IT *g_it; uint64_t g_lab; NODE g_node_pre, g_node_post, g_node_other; uint8_t g_has_pre, g_has_post;
uint32_t _ZN4crab13CrabVerbosityE = 0;
static NODE *node_of(TAB *m, uint8_t **has){
  if (m == &g_it->f7) { *has = &g_has_pre; return &g_node_pre; }
  if (m == &g_it->f8) { *has = &g_has_post; return &g_node_post; }
  __CPROVER_assert(0, "table operation on an unknown table"); __CPROVER_assume(0); return 0; }
NODE *_ZNSt13unordered_mapIm2GVSt4hashImESt8equal_toImESaISt4pairIKmS0_EEE4findERS6_(TAB *m, uint64_t *key){
  uint8_t *has; NODE *n = node_of(m, &has);
  if (*key == g_lab) return *has ? n : (NODE *)0;
  uint8_t nd; if (nd & 1) { NODE_PAIR(&g_node_other)->f0 = *key; return &g_node_other; } return (NODE *)0; }
/* insert({k, v}): binds k to v unless k is bound; returns the node of k and whether it inserted */
struct anon_f33eebbd24 _ZNSt13unordered_mapIm2GVSt4hashImESt8equal_toImESaISt4pairIKmS0_EEE6insertEOS7_(TAB *m, PAIR *kv){
  struct anon_f33eebbd24 r; uint8_t *has; NODE *n = node_of(m, &has);
  if (kv->f0 == g_lab) {
    if (*has) { r.f0 = n; r.f1 = 0; }
    else { NODE_PAIR(n)->f0 = kv->f0; NODE_PAIR(n)->f1 = kv->f1; *has = 1; r.f0 = n; r.f1 = 1; }
  } else { uint8_t nd; NODE_PAIR(&g_node_other)->f0 = kv->f0; if (nd & 1) NODE_PAIR(&g_node_other)->f1 = kv->f1; r.f0 = &g_node_other; r.f1 = nd & 1; }
  return r; }
/* at(k): the bound value; an unbound key throws std::out_of_range (a failed obligation here) */
GV *_ZNKSt13unordered_mapIm2GVSt4hashImESt8equal_toImESaISt4pairIKmS0_EEE2atERS6_(TAB *m, uint64_t *key){
  uint8_t *has; NODE *n = node_of(m, &has);
  if (*key == g_lab) { __CPROVER_assert(*has, "lookup of a block that has no invariant (std::out_of_range)"); return &NODE_PAIR(n)->f1; }
  NODE_PAIR(&g_node_other)->f0 = *key; return &NODE_PAIR(&g_node_other)->f1; }
/* statistics: effect-free */
void _ZN4crab9CrabStats5countERKNSt7__cxx1112basic_stringIcSt11char_traitsIcESaIcEEE(void *name){}
void _ZN4crab15ScopedCrabStatsC1ERKNSt7__cxx1112basic_stringIcSt11char_traitsIcESaIcEEEb(void *self, void *name, unsigned char reset){}
void _ZN4crab15ScopedCrabStatsD1Ev(void *self){}
void _ZNSaIcEC1Ev(void *self){}
void _ZNSaIcED1Ev(void *self){}
void _ZNSt7__cxx1112basic_stringIcSt11char_traitsIcESaIcEEC1EPKcRKS3_(void *self, const char *s, void *a){}
void _ZNSt7__cxx1112basic_stringIcSt11char_traitsIcESaIcEED1Ev(void *self){}
