/* Specification vocabulary for the invariant-table accessors of the fixpoint engine:
 * interleaved_fwd_fixpoint_iterator<TCFG,GV>::set_pre / set_post / get_pre / get_post (units/fixtab/force.cpp).
 * Units fixvisit and fixrun ASSUME that these four behave as map update / lookup; here that is PROVED of the real members
 * over an assumed finite-map reading of std::unordered_map::insert / find / at, watched at one arbitrary ghost label. */
#ifndef FT_SPEC_H
#define FT_SPEC_H
#include "verif.h"
#ifndef __cplusplus
#include "unit_types.h"
typedef struct S_class_ikos__interleaved_fwd_fixpoint_iterator IT;     /* f7 m_pre, f8 m_post */
typedef struct S_class_std__unordered_map_21 TAB;
typedef struct S_struct_std____detail___Hash_node NODE;
typedef struct S_struct_std__pair PAIR;                                /* std::pair<const label, GV> */
typedef struct S_struct_GV GV;
#define NODE_PAIR(n) ((PAIR *)&(n)->f1)
extern IT *g_it; extern uint64_t g_lab;                                 /* the watched label */
extern NODE g_node_pre, g_node_post, g_node_other; extern uint8_t g_has_pre, g_has_post;
#define VAL_PRE (NODE_PAIR(&g_node_pre)->f1.f0)
#define VAL_POST (NODE_PAIR(&g_node_post)->f1.f0)
extern uint32_t _ZN4crab13CrabVerbosityE;
#define VERBOSITY _ZN4crab13CrabVerbosityE
#endif
#endif
