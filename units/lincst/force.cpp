// Forcing TU for ikos::linear_expression / linear_constraint / linear_constraint_system
// (include/crab/types/linear_constraints.hpp; the libstdc++ containers behind linear_constraint_system are modelled,
// units/lincst/sysmodel.c).  No logic of its own: the real header, a trivial indexable
// variable name VN (vn.h), explicit instantiations of the real class templates for Number = z_number and
// one-line shims that only force the instantiation of function / member templates nothing else names.
// The contracts (contracts.c) are stated on the REAL mangled instantiations, not on the shims.
#include <crab/types/linear_constraints.hpp>
#include <map>
#include "vn.h"
typedef ikos::z_number Z;
typedef crab::variable<Z, VN> VAR;
typedef ikos::linear_expression<Z, VN> LE;
typedef ikos::linear_constraint<Z, VN> LC;
// opaque renaming map for the member template linear_expression::rename<RenamingMap>: only what rename uses
// (find, end, dereference to a pair whose `second` is the new variable); find / end are DECLARED only, the verifier
// gives them an uninterpreted meaning (units/lincst/lemodel.c)
struct RM {
  typedef std::pair<const VAR, VAR> value_type;
  typedef const value_type *const_iterator;
  const_iterator find(const VAR &v) const;
  const_iterator end() const;
};
template class ikos::linear_expression<Z, VN>;
template class ikos::linear_constraint<Z, VN>;
template class ikos::linear_constraint_system<Z, VN>;
extern "C" {
// forces linear_constraint_impl::strict_to_non_strict_inequality<VN> (the z_number overload)
void lincst_force_s2ns(LC *r, const LC *c) { new (r) LC(ikos::linear_constraint_impl::strict_to_non_strict_inequality(*c)); }
// forces linear_expression::rename<RM> and linear_constraint::rename<RM>
void lincst_force_rename(LE *r, const LE *e, const RM *m) { new (r) LE(e->rename(*m)); }
void lincst_force_rename_c(LC *r, const LC *c, const RM *m) { new (r) LC(c->rename(*m)); }
}
