// Forcing TU for ikos::linear_expression / linear_constraint / linear_constraint_system
// (include/crab/types/linear_constraints.hpp).  No logic of its own: the real header, a trivial indexable
// variable name VN (vn.h), explicit instantiations of the real class templates for Number = z_number and
// one-line shims that only force the instantiation of function / member templates nothing else names.
// The contracts (contracts.c) are stated on the REAL mangled instantiations, not on the shims.
#include <crab/types/linear_constraints.hpp>
#include <map>
#include "vn.h"
typedef ikos::z_number Z;
typedef crab::variable<Z, VN> VAR;
typedef ikos::linear_expression<Z, VN> LE;
typedef ikos::linear_constraint<Z, VN> LC;
typedef ikos::linear_constraint_system<Z, VN> LS;
typedef std::map<VAR, VAR> RMAP;
template class ikos::linear_expression<Z, VN>;
template class ikos::linear_constraint<Z, VN>;
extern "C" {
// forces linear_constraint_impl::strict_to_non_strict_inequality<VN> (the z_number overload)
void lincst_force_s2ns(LC *r, const LC *c) { new (r) LC(ikos::linear_constraint_impl::strict_to_non_strict_inequality(*c)); }
}
