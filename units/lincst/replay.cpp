// Native replay for unit lincst: the real ikos::linear_expression / linear_constraint of the working tree,
// instantiated with the same variable-name type as the verification (vn.h).
// PART 1 counterexamples speak about the variable part of an expression through uninterpreted symbols; the
// witness records the values they took (<a>_E: value of the variable part under the valuation, <a>_const:
// "the expression has no term").  The constraint is rebuilt as  `cst`  (no term) or  `1*x0 + cst`  with the
// valuation x0 := <a>_E, the real member function is called, and the contract's postcondition is evaluated
// by EVALUATING the real result under that valuation.
#include <crab/numbers/bignums.hpp>
#include <crab/types/linear_constraints.hpp>
#include <map>
#include "vn.h"
#include "replay.h"
#include "spec.h"
void VN::write(crab::crab_os &o) const { o << "x" << i; }
crab::crab_os &operator<<(crab::crab_os &o, const VN &v) { v.write(o); return o; }
using namespace ikos;
typedef z_number ZN;
typedef crab::variable<ZN, VN> RVAR;
typedef linear_expression<ZN, VN> RLE;
typedef linear_constraint<ZN, VN> RLC;
typedef std::map<uint64_t, i128> Val;   // valuation: variable index -> integer
static i128 zval(const ZN &z) {
  ZN a = z < ZN(0) ? -z : z; i128 r = 0, m = 1; ZN base(1); base = base << ZN(32);
  while (a > ZN(0)) { r += m * (i128)(int64_t)(a % base); a = a / base; m <<= 32; }
  return z < ZN(0) ? -r : r; }
static ZN mkz(i128 v) { bool neg = v < 0; u128 u = neg ? (u128)(-v) : (u128)v; ZN hi = ZN::from_uint64((uint64_t)(u >> 64)), lo = ZN::from_uint64((uint64_t)u);
  ZN r = (hi << ZN(64)) + lo; return neg ? -r : r; }
static i128 wz(const Wit &w, const std::string &p) { return (i128)(((u128)w.u(p + ".f0.a.f1") << 64) | (u128)w.u(p + ".f0.a.f0")); }
static RVAR mkvar(uint64_t idx) { return RVAR(VN(idx), crab::INT_TYPE, 32); }
static i128 eval(const RLE &e, const Val &val) {
  i128 r = zval(e.constant());
  for (auto it = e.begin(); it != e.end(); ++it) { auto kv = *it; auto f = val.find(kv.second.index()); r += zval(kv.first) * (f == val.end() ? 0 : f->second); }
  return r; }
static bool holds(const RLC &c, const Val &val) { return k_holds((uint32_t)c.kind(), eval(c.expression(), val)); }
static void show(const char *n, const RLC &c) { crab::outs() << "  " << n << " = "; c.expression().write(crab::outs());
  static const char *ks[] = {" == 0", " != 0", " <= 0", " < 0"}; crab::outs() << ks[(unsigned)c.kind() & 3] << "\n"; }
// PART 1 input: constraint `a` of the harness + the valuation
static RLC mklc(const Wit &w, const char *n, Val &val) {
  std::string a(n); uint32_t kind = (uint32_t)w.u(a + ".f0"); i128 cst = wz(w, a + ".f1.f1"); bool isc = w.u(a + "_const") != 0; i128 E = (i128)w.s(a + "_E");
  RLE e = isc ? RLE(mkz(cst)) : (RLE(mkvar(0)) + mkz(cst));
  if (!isc) val[0] = E;
  RLC c(e, (RLC::kind_t)kind); show(n, c); if (!isc) printf("  valuation: x0 = %lld\n", (long long)E);
  return c; }
#define TAUT(id, CALL, POL) REPLAY(id) { Val val; RLC c = mklc(wit, "a", val); bool r = c.CALL(); printf("  result = %d\n", r); \
  bool ok = true; if (c.expression().is_constant()) ok = ok && (r == (k_holds((uint32_t)c.kind(), zval(c.expression().constant())) == (POL))); \
  if (r) ok = ok && (holds(c, val) == (POL)); return ok; }
TAUT(is_tautology, is_tautology, true)
TAUT(is_contradiction, is_contradiction, false)
REPLAY(negate) { Val val; RLC c = mklc(wit, "a", val); RLC r = c.negate(); show("negate()", r);
  printf("  holds(self) = %d, holds(negate()) = %d\n", holds(c, val), holds(r, val)); return holds(r, val) == !holds(c, val); }
REPLAY(negate_inequality) { Val val; RLC c = mklc(wit, "a", val); if (!c.is_inequality()) return true; RLC r = linear_constraint_impl::negate_inequality(c); show("negate_inequality()", r);
  printf("  holds(c) = %d, holds(result) = %d\n", holds(c, val), holds(r, val)); return holds(r, val) == !holds(c, val); }
REPLAY(strict_to_non_strict) { Val val; RLC c = mklc(wit, "a", val); if (!c.is_strict_inequality()) return true; RLC r = linear_constraint_impl::strict_to_non_strict_inequality(c); show("strict_to_non_strict_inequality()", r);
  printf("  holds(c) = %d, holds(result) = %d\n", holds(c, val), holds(r, val)); return r.is_inequality() && holds(r, val) == holds(c, val); }
REPLAY(get_true) { Val val; RLC r = RLC::get_true(); show("get_true()", r); return r.expression().is_constant() && holds(r, val) && r.is_tautology() && !r.is_contradiction(); }
REPLAY(get_false) { Val val; RLC r = RLC::get_false(); show("get_false()", r); return r.expression().is_constant() && !holds(r, val) && r.is_contradiction() && !r.is_tautology(); }
REPLAY(lc_constant) { Val val; RLC c = mklc(wit, "a", val); i128 k = zval(c.constant()); printf("  constant() = %lld\n", (long long)k);
  return k == -zval(c.expression().constant()) && holds(c, val) == k_holds((uint32_t)c.kind(), eval(c.expression(), val) - zval(c.expression().constant()) - k); }
#define KQ(id, CALL, K) REPLAY(id) { Val val; RLC c = mklc_plain(wit); return c.CALL() == ((uint32_t)c.kind() == (K)); }
static RLC mklc_plain(const Wit &w) { RLC c(RLE(mkz(wz(w, "a.f1.f1"))), (RLC::kind_t)(uint32_t)w.u("a.f0")); show("a", c); return c; }
KQ(is_equality, is_equality, K_EQ) KQ(is_disequation, is_disequation, K_NE) KQ(is_inequality, is_inequality, K_LE) KQ(is_strict_inequality, is_strict_inequality, K_LT)
REPLAY(kind) { RLC c = mklc_plain(wit); return (uint32_t)c.kind() == (uint32_t)wit.u("a.f0"); }

// ---- PART 2: expressions rebuilt term by term from the witness (struct lein of contracts.c: <A>.e = expression,
// <A>.m = map header, <A>.t[i] = term i), valuation from the recorded <A>_v<i>.
static std::string S(const char *a, const std::string &b) { return std::string(a) + b; }
static RLE mkle(const Wit &w, const char *A, Val &val) {
  RLE e(mkz(wz(w, S(A, ".e.f1")))); uint64_t n = w.u(S(A, ".m.f0.f0.f0.f0.f1"));
  for (uint64_t i = 0; i < n && i < 4; i++) { std::string t = S(A, ".t[") + std::to_string(i) + "]"; uint64_t idx = w.u(t + ".f0.f1.f1");
    e._map->insert(std::make_pair(mkvar(idx), mkz(wz(w, t + ".f1"))));       // raw: exactly the witness terms
    std::string vk = S(A, "_v") + std::to_string(i); if (w.has(vk)) val[idx] = (i128)w.s(vk); }
  crab::outs() << "  " << A << " = "; e.write(crab::outs()); crab::outs() << "\n"; return e; }
static void showle(const char *n, const RLE &e) { crab::outs() << "  " << n << " = "; e.write(crab::outs()); crab::outs() << "\n"; }
static i128 coef(const RLE &e, uint64_t idx) { return zval(e[mkvar(idx)]); }
// representation invariant: strictly increasing variable indices, no zero coefficient
static bool wf(const RLE &e) { bool first = true; uint64_t prev = 0;
  for (auto it = e.begin(); it != e.end(); ++it) { auto kv = *it; if (kv.first == ZN(0)) return false; uint64_t ix = kv.second.index(); if (!first && ix <= prev) return false; prev = ix; first = false; }
  return true; }
static void showval(const Val &val) { for (auto &kv : val) printf("  valuation: x%llu = %lld\n", (unsigned long long)kv.first, (long long)kv.second); }
#define GV ((uint64_t)wit.u("g_v"))
REPLAY(le_is_constant) { return true; }
REPLAY(le_index) { Val val; RLE a = mkle(wit, "A", val); uint64_t x = wit.u("x.f1.f1"); i128 r = zval(a[mkvar(x)]); i128 spec = 0;
  for (auto it = a.begin(); it != a.end(); ++it) { auto kv = *it; if (kv.second.index() == x) spec += zval(kv.first); } printf("  e[x%llu] = %lld\n", (unsigned long long)x, (long long)r); return r == spec; }
REPLAY(le_neg) { Val val; RLE a = mkle(wit, "A", val); RLE r = -a; showle("-A", r); showval(val);
  return wf(r) && zval(r.constant()) == -zval(a.constant()) && r.size() == a.size() && coef(r, GV) == -coef(a, GV) && eval(r, val) == -eval(a, val); }
#define RBIN(id, OP) REPLAY(id) { Val val; RLE a = mkle(wit, "A", val), b = mkle(wit, "B", val); RLE r = a OP b; showle("A " #OP " B", r); showval(val); \
  return wf(r) && zval(r.constant()) == zval(a.constant()) OP zval(b.constant()) && coef(r, GV) == coef(a, GV) OP coef(b, GV) && eval(r, val) == eval(a, val) OP eval(b, val); }
RBIN(le_add, +) RBIN(le_sub, -)
REPLAY(le_sub_self) { Val val; RLE a = mkle(wit, "A", val); RLE r = a - a; showle("A - A", r); return r.is_constant() && zval(r.constant()) == 0; }
static bool scale_post(const RLE &a, const RLE &r, i128 n, uint64_t gv, const Val &val) { showle("n * A", r); showval(val);
  return wf(r) && zval(r.constant()) == n * zval(a.constant()) && coef(r, gv) == n * coef(a, gv) && eval(r, val) == n * eval(a, val); }
REPLAY(le_scale) { Val val; RLE a = mkle(wit, "A", val); i128 n = wz(wit, "n"); printf("  n = %lld\n", (long long)n); return scale_post(a, a * mkz(n), n, GV, val); }
REPLAY(le_scale_long) { Val val; RLE a = mkle(wit, "A", val); int64_t n = (int64_t)wit.u("n"); printf("  n = %lld\n", (long long)n); return scale_post(a, a * n, n, GV, val); }
#define RVARBIN(id, OP, K) REPLAY(id) { Val val; RLE a = mkle(wit, "A", val); uint64_t x = wit.u("x.f1.f1"); val[x] = (i128)wit.s("x_v"); RLE r = a OP mkvar(x); showle("A " #OP " x", r); showval(val); \
  return wf(r) && zval(r.constant()) == zval(a.constant()) && coef(r, GV) == coef(a, GV) + (GV == x ? (K) : 0) && eval(r, val) == eval(a, val) + (K) * val[x]; }
RVARBIN(le_add_var, +, 1) RVARBIN(le_sub_var, -, -1)
REPLAY(le_ctor_var) { uint64_t x = wit.u("x.f1.f1"); RLE r(mkvar(x)); showle("x", r); return wf(r) && r.size() == 1 && zval(r.constant()) == 0 && coef(r, x) == 1; }
// n * x: no zero coefficient may be stored (n == 0 must give the constant 0)
REPLAY(le_ctor_num_var) { uint64_t x = wit.u("x.f1.f1"); i128 n = wz(wit, "n"); RLE r(mkz(n), mkvar(x)); showle("n * x", r);
  printf("  n = %lld, size() = %llu, is_constant() = %d\n", (long long)n, (unsigned long long)r.size(), r.is_constant());
  return wf(r) && r.size() == (n != 0 ? 1u : 0u) && zval(r.constant()) == 0 && coef(r, x) == n; }
REPLAY(le_equal) { Val val; RLE a = mkle(wit, "A", val), b = mkle(wit, "B", val); bool r = a.equal(b); bool same = zval(a.constant()) == zval(b.constant()) && a.size() == b.size();
  if (same) { auto jt = b.begin(); for (auto it = a.begin(); it != a.end(); ++it, ++jt) { auto p = *it; auto q = *jt; if (p.second.index() != q.second.index() || !(p.first == q.first)) same = false; } }
  printf("  equal = %d, same terms = %d\n", r, same); return r == same && (!r || eval(a, val) == eval(b, val)); }
// rename with a real std::map<variable, variable> built from the recorded renaming of the operand's variables
REPLAY(le_rename) { Val dummy; RLE a = mkle(wit, "A", dummy); std::map<RVAR, RVAR> ren; Val val; std::map<uint64_t, uint64_t> rho; unsigned k = 0;
  for (auto it = a.begin(); it != a.end(); ++it, ++k) { auto kv = *it; uint64_t x = kv.second.index(); std::string i = std::to_string(k);
    uint64_t y = wit.u("A_r" + i); rho[x] = y; if (wit.u("A_rh" + i)) { ren.insert(std::make_pair(mkvar(x), mkvar(y))); printf("  rename x%llu -> x%llu\n", (unsigned long long)x, (unsigned long long)y); }
    val[y] = (i128)wit.s("A_rv" + i); }
  RLE r = a.rename(ren); showle("rename(A)", r); showval(val);
  i128 cg = 0, ev = zval(a.constant()); for (auto it = a.begin(); it != a.end(); ++it) { auto kv = *it; uint64_t y = rho[kv.second.index()]; if (y == GV) cg += zval(kv.first); ev += zval(kv.first) * val[y]; }
  return wf(r) && zval(r.constant()) == zval(a.constant()) && coef(r, GV) == cg && eval(r, val) == ev; }
// ---- PART 3: constraint systems rebuilt from the witness of INSYS (contracts.c): S_c.a[i] = constraint i (kind, constant),
// S_m<i> = its map header (size), S_t<i>.a[j] = its terms, S_v<i><j> = value of the variable of term j, n = number of constraints
typedef linear_constraint_system<ZN, VN> RSYS;
static RLC mksyslc(const Wit &w, const std::string &c, const std::string &m, const std::string &t, const std::string &v, Val &val) {
  RLE e(mkz(wz(w, c + ".f1.f1"))); uint64_t n = w.u(m + ".f0.f0.f0.f0.f1");
  for (uint64_t j = 0; j < n && j < 2; j++) { std::string tj = t + ".a[" + std::to_string(j) + "]"; uint64_t idx = w.u(tj + ".f0.f1.f1");
    e._map->insert(std::make_pair(mkvar(idx), mkz(wz(w, tj + ".f1")))); std::string vk = v + std::to_string(j); if (w.has(vk)) val[idx] = (i128)w.s(vk); }
  RLC r(e, (RLC::kind_t)(uint32_t)w.u(c + ".f0")); show(c.c_str(), r); return r; }
static RSYS mksys(const Wit &w, Val &val) { RSYS s; uint64_t n = w.u("n");
  for (uint64_t i = 0; i < n && i < 3; i++) { std::string I = std::to_string(i); s._csts.push_back(mksyslc(w, "S_c.a[" + I + "]", "S_m" + I, "S_t" + I, "S_v" + I, val)); }
  return s; }
static bool sysholds(const RSYS &s, const Val &val) { for (auto &c : s) if (!holds(c, val)) return false; return true; }
REPLAY(sys_is_false) { Val val; RSYS s = mksys(wit, val); showval(val); bool r = s.is_false(); bool allc = true; for (auto &c : s) allc = allc && c.expression().is_constant();
  printf("  is_false() = %d, holds = %d\n", r, sysholds(s, val)); return (!r || !sysholds(s, val)) && (!allc || r == !sysholds(s, val)); }
REPLAY(sys_is_true) { Val val; RSYS s = mksys(wit, val); showval(val); bool r = s.is_true(); printf("  is_true() = %d, holds = %d\n", r, sysholds(s, val)); return !r || sysholds(s, val); }
REPLAY(sys_add) { Val val; RSYS s = mksys(wit, val); RLC c = mksyslc(wit, "c", "c_m", "c_t", "c_v", val); showval(val); bool pre = sysholds(s, val); size_t n0 = s.size();
  bool dup = false; for (auto &d : s) dup = dup || d.equal(c);
  s += c; printf("  size %zu -> %zu, held before = %d, c holds = %d, holds after = %d\n", n0, s.size(), pre, holds(c, val), sysholds(s, val));
  return s.size() == n0 + (dup ? 0 : 1) && sysholds(s, val) == (pre && holds(c, val)); }
REPLAY(sys_normalize) { Val val; RSYS s = mksys(wit, val); showval(val); RSYS r = s.normalize(); for (auto &c : r) show("normalize()[.]", c);
  printf("  holds(input) = %d, holds(normalize()) = %d\n", sysholds(s, val), sysholds(r, val)); return r.size() <= s.size() && sysholds(r, val) == sysholds(s, val); }
// the evaluation-only variants of the checks replay the same postcondition
#define ALIAS(id) REPLAY(id##_eval) { return replay_##id(wit); }
ALIAS(le_neg) ALIAS(le_add) ALIAS(le_sub) ALIAS(le_scale) ALIAS(le_scale_long) ALIAS(le_add_var) ALIAS(le_sub_var) ALIAS(le_rename)
REPLAY(le_rename_q) { return replay_le_rename(wit); }
int main(int argc, char **argv) { return replay_main(argc, argv); }
