// Native replay for unit lincst: the real ikos::linear_expression / linear_constraint of the working tree,
// instantiated with the same variable-name type as the verification (vn.h).
// PART 1 counterexamples speak about the variable part of an expression through uninterpreted symbols; the
// witness records the values they took (<a>_E: value of the variable part under the valuation, <a>_const:
// "the expression has no term").  The constraint is rebuilt as  `cst`  (no term) or  `1*x0 + cst`  with the
// valuation x0 := <a>_E, the real member function is called, and the contract's postcondition is evaluated
// by EVALUATING the real result under that valuation.
#include <crab/numbers/bignums.hpp>
#include <crab/types/linear_constraints.hpp>
#include <map>
#include "vn.h"
#include "replay.h"
#include "spec.h"
void VN::write(crab::crab_os &o) const { o << "x" << i; }
crab::crab_os &operator<<(crab::crab_os &o, const VN &v) { v.write(o); return o; }
using namespace ikos;
typedef z_number ZN;
typedef crab::variable<ZN, VN> RVAR;
typedef linear_expression<ZN, VN> RLE;
typedef linear_constraint<ZN, VN> RLC;
typedef std::map<uint64_t, i128> Val;   // valuation: variable index -> integer
static i128 zval(const ZN &z) {
  ZN a = z < ZN(0) ? -z : z; i128 r = 0, m = 1; ZN base(1); base = base << ZN(32);
  while (a > ZN(0)) { r += m * (i128)(int64_t)(a % base); a = a / base; m <<= 32; }
  return z < ZN(0) ? -r : r; }
static ZN mkz(i128 v) { bool neg = v < 0; u128 u = neg ? (u128)(-v) : (u128)v; ZN hi = ZN::from_uint64((uint64_t)(u >> 64)), lo = ZN::from_uint64((uint64_t)u);
  ZN r = (hi << ZN(64)) + lo; return neg ? -r : r; }
static i128 wz(const Wit &w, const std::string &p) { return (i128)(((u128)w.u(p + ".f0.a[0].f1") << 64) | (u128)w.u(p + ".f0.a[0].f0")); }
static RVAR mkvar(uint64_t idx) { return RVAR(VN(idx), crab::INT_TYPE, 32); }
static i128 eval(const RLE &e, const Val &val) {
  i128 r = zval(e.constant());
  for (auto it = e.begin(); it != e.end(); ++it) { auto kv = *it; auto f = val.find(kv.second.index()); r += zval(kv.first) * (f == val.end() ? 0 : f->second); }
  return r; }
static bool holds(const RLC &c, const Val &val) { return k_holds((uint32_t)c.kind(), eval(c.expression(), val)); }
static void show(const char *n, const RLC &c) { crab::outs() << "  " << n << " = "; c.expression().write(crab::outs());
  static const char *ks[] = {" == 0", " != 0", " <= 0", " < 0"}; crab::outs() << ks[(unsigned)c.kind() & 3] << "\n"; }
// PART 1 input: constraint `a` of the harness + the valuation
static RLC mklc(const Wit &w, const char *n, Val &val) {
  std::string a(n); uint32_t kind = (uint32_t)w.u(a + ".f0"); i128 cst = wz(w, a + ".f1.f1"); bool isc = w.u(a + "_const") != 0; i128 E = (i128)w.s(a + "_E");
  RLE e = isc ? RLE(mkz(cst)) : (RLE(mkvar(0)) + mkz(cst));
  if (!isc) val[0] = E;
  RLC c(e, (RLC::kind_t)kind); show(n, c); if (!isc) printf("  valuation: x0 = %lld\n", (long long)E);
  return c; }
#define TAUT(id, CALL, POL) REPLAY(id) { Val val; RLC c = mklc(wit, "a", val); bool r = c.CALL(); printf("  result = %d\n", r); \
  bool ok = true; if (c.expression().is_constant()) ok = ok && (r == (k_holds((uint32_t)c.kind(), zval(c.expression().constant())) == (POL))); \
  if (r) ok = ok && (holds(c, val) == (POL)); return ok; }
TAUT(is_tautology, is_tautology, true)
TAUT(is_contradiction, is_contradiction, false)
REPLAY(negate) { Val val; RLC c = mklc(wit, "a", val); RLC r = c.negate(); show("negate()", r);
  printf("  holds(self) = %d, holds(negate()) = %d\n", holds(c, val), holds(r, val)); return holds(r, val) == !holds(c, val); }
REPLAY(negate_inequality) { Val val; RLC c = mklc(wit, "a", val); if (!c.is_inequality()) return true; RLC r = linear_constraint_impl::negate_inequality(c); show("negate_inequality()", r);
  printf("  holds(c) = %d, holds(result) = %d\n", holds(c, val), holds(r, val)); return holds(r, val) == !holds(c, val); }
REPLAY(strict_to_non_strict) { Val val; RLC c = mklc(wit, "a", val); if (!c.is_strict_inequality()) return true; RLC r = linear_constraint_impl::strict_to_non_strict_inequality(c); show("strict_to_non_strict_inequality()", r);
  printf("  holds(c) = %d, holds(result) = %d\n", holds(c, val), holds(r, val)); return r.is_inequality() && holds(r, val) == holds(c, val); }
REPLAY(get_true) { Val val; RLC r = RLC::get_true(); show("get_true()", r); return r.expression().is_constant() && holds(r, val) && r.is_tautology() && !r.is_contradiction(); }
REPLAY(get_false) { Val val; RLC r = RLC::get_false(); show("get_false()", r); return r.expression().is_constant() && !holds(r, val) && r.is_contradiction() && !r.is_tautology(); }
REPLAY(lc_constant) { Val val; RLC c = mklc(wit, "a", val); i128 k = zval(c.constant()); printf("  constant() = %lld\n", (long long)k);
  return k == -zval(c.expression().constant()) && holds(c, val) == k_holds((uint32_t)c.kind(), eval(c.expression(), val) - zval(c.expression().constant()) - k); }
#define KQ(id, CALL, K) REPLAY(id) { Val val; RLC c = mklc_plain(wit); return c.CALL() == ((uint32_t)c.kind() == (K)); }
static RLC mklc_plain(const Wit &w) { RLC c(RLE(mkz(wz(w, "a.f1.f1"))), (RLC::kind_t)(uint32_t)w.u("a.f0")); show("a", c); return c; }
KQ(is_equality, is_equality, K_EQ) KQ(is_disequation, is_disequation, K_NE) KQ(is_inequality, is_inequality, K_LE) KQ(is_strict_inequality, is_strict_inequality, K_LT)
REPLAY(kind) { RLC c = mklc_plain(wit); return (uint32_t)c.kind() == (uint32_t)wit.u("a.f0"); }
int main(int argc, char **argv) { return replay_main(argc, argv); }
