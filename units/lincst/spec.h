/* Specification vocabulary for ikos::linear_expression<z_number,VN> / ikos::linear_constraint<z_number,VN>
 * (include/crab/types/linear_constraints.hpp), instantiated by units/lincst/force.cpp.
 *
 * Lowered classes (z_number replaced by the integer model models/zmodel.h):
 *   LE  = { f0 = _map : std::shared_ptr<flat_map<variable_t, z_number>>,  f1 = _cst }
 *   LC  = { f0 = _kind (0 EQUALITY, 1 DISEQUATION, 2 INEQUALITY, 3 STRICT_INEQUALITY),  f1 = _expr }
 *   FM  = boost flat_map = a boost::container::vector { f0 = start, f1 = size, f2 = capacity } of
 *   PR  = pair<variable_t, z_number> { f0 = variable { vptr, VN { vptr, f1 = index }, type { kind, width } }, f1 = coefficient }
 *
 * MEANING.  Under a valuation `val` of the variables an expression denotes  E(map) + _cst  with
 * E(map) = sum of coefficient * val(variable) over the terms of the map, and a constraint HOLDS iff
 * E + _cst {==, !=, <=, <} 0 according to its kind.
 *
 * Two readings of E / "the map has no term", selected per check:
 *  - ABSTRACT (default; the constraint layer): MAP_CONST(m) and the value of E(m) are UNINTERPRETED functions of
 *    the map pointer, E(m) = 0 whenever MAP_CONST(m).  An arbitrary function = an arbitrary valuation, so a
 *    postcondition stated with it is the universally quantified statement ("for every valuation").
 *  - CONCRETE (defs=LINCST_CONCRETE; the expression layer): MAP_CONST(m) is size == 0 and E(m) is the sum itself,
 *    read from the vector storage, with an uninterpreted valuation VAL(index) and the product symbol ZM_mul. */
#ifndef LINCST_SPEC_H
#define LINCST_SPEC_H
#include "verif.h"
#ifndef ZBITS
#define ZBITS 40
#endif
#define ZB (((i128)1) << ZBITS)      /* constants and coefficients of INPUTS lie strictly inside (-ZB, ZB) */
#define K_EQ 0
#define K_NE 1
#define K_LE 2
#define K_LT 3
/* does  v {kind} 0  hold */
static inline bool k_holds(uint32_t kind, i128 v){ return kind == K_EQ ? v == 0 : kind == K_NE ? v != 0 : kind == K_LE ? v <= 0 : v < 0; }
#ifndef __cplusplus
#include "unit_types.h"
#include "zmodel.h"
typedef struct S_class_ikos__linear_expression LE;
typedef struct S_class_ikos__linear_constraint LC;
typedef struct S_class_std__shared_ptr SPT;
typedef struct S_class_boost__container__flat_map FM;
typedef struct S_struct_boost__container__dtl__pair PR;
typedef struct S_class_crab__variable VAR;
#define MAPP(e) ((e).f0.f0.f0)                 /* raw flat_map pointer held by the shared_ptr of an expression */
#define FM_START(m) ((m)->f0.f0.f0.f0.f0)
#define FM_SIZE(m) ((m)->f0.f0.f0.f0.f1)
#define FM_CAP(m) ((m)->f0.f0.f0.f0.f2)
static inline bool zin(i128 v, i128 b){ return v > -b && v < b; }

#ifdef LINCST_CONCRETE
/* ---- CONCRETE reading (BOUNDED: input expressions have at most NT terms, results at most MAXT = 4) */
#ifndef NT
#define NT 2
#endif
#define MAXT 4
extern const struct anon_f0db2cc371 _ZTVN4crab8variableIN4ikos8z_numberE2VNEE;
extern const struct anon_f0db2cc371 _ZTV2VN;
#define VT_VAR ((void *)&_ZTVN4crab8variableIN4ikos8z_numberE2VNEE.f0.a[2])
#define VT_VN ((void *)&_ZTV2VN.f0.a[2])
#define VAR_IDX(v) ((v)->f1.f1)
static inline bool var_ok(const VAR *v){ return (void *)v->f0.f0 == VT_VAR && (void *)v->f1.f0.f0 == VT_VN; }
/* the valuation: an arbitrary function of the variable index, |VAL| < 2^31 */
uint32_t __CPROVER_uninterpreted_val(uint64_t);
#define VAL(i) ((i128)(int32_t)__CPROVER_uninterpreted_val(i))
#define FM_IDX(m, i) VAR_IDX(&FM_START(m)[i].f0)
#define FM_COEF(m, i) ZV(&FM_START(m)[i].f1)
/* representation invariant of the term container: at most n terms, sorted by strictly increasing variable index,
 * no zero coefficient, coefficients inside (-z, z), well-formed variable objects */
static inline bool fm_term_ok(const FM *m, uint64_t i, i128 z){ return var_ok(&FM_START(m)[i].f0) && FM_COEF(m, i) != 0 && zin(FM_COEF(m, i), z); }
static inline bool fm_okz(const FM *m, uint64_t n, i128 z){
  if (!(FM_SIZE(m) <= n && FM_SIZE(m) <= FM_CAP(m))) return false;
  bool ok = true;
  if (FM_SIZE(m) > 0) ok = ok && fm_term_ok(m, 0, z);
  if (FM_SIZE(m) > 1) ok = ok && fm_term_ok(m, 1, z) && FM_IDX(m, 0) < FM_IDX(m, 1);
  if (FM_SIZE(m) > 2) ok = ok && fm_term_ok(m, 2, z) && FM_IDX(m, 1) < FM_IDX(m, 2);
  if (FM_SIZE(m) > 3) ok = ok && fm_term_ok(m, 3, z) && FM_IDX(m, 2) < FM_IDX(m, 3);
  return ok; }
/* the product symbol of models/zmodel.c as a side-effect-free term (identical to ZM_mul_pure: exact for operands
 * 0, 1, -1, otherwise the uninterpreted symbol; bit-precise under ZM_PRECISE) */
#ifdef ZM_PRECISE
static inline i128 lmul(i128 a, i128 b){ return a * b; }
#else
i128 __CPROVER_uninterpreted_zmul(i128, i128);
static inline i128 lmul(i128 a, i128 b){
  if (a == 0 || b == 0) return 0;
  if (a == 1) return b;  if (b == 1) return a;
  if (a == -1) return -b; if (b == -1) return -a;
  return __CPROVER_uninterpreted_zmul(a, b); }
#endif
#define FM_VAL(m, i) VAL(FM_IDX(m, i))
#define FM_PROD(m, i) lmul(FM_COEF(m, i), FM_VAL(m, i))
#define FM_TERM(m, i) ((i) < FM_SIZE(m) ? FM_PROD(m, i) : (i128)0)
/* ---- lemma INSTANCES (schemas: lemmas/lincst_ring.smt2) */
#define L_RANGE72(a, b) zin(lmul(a, b), ((i128)1) << 72)                        /* |a| < 2^41, |b| < 2^31 */
#define L_RANGE116(a, b) zin(lmul(a, b), ((i128)1) << 116)                      /* |a| < 2^41, |b| < 2^75 */
#define L_NEG(c, v) (lmul(-(c), v) == -lmul(c, v))
#define L_DIST(p, q, v) (lmul((p) + (q), v) == lmul(p, v) + lmul(q, v))
#define L_DISTM(p, q, v) (lmul((p) - (q), v) == lmul(p, v) - lmul(q, v))
#define L_ASSOC(n, c, v) (lmul(lmul(n, c), v) == lmul(n, lmul(c, v)))
#define L_DISTR(n, a, b) (lmul(n, (a) + (b)) == lmul(n, a) + lmul(n, b))
/* P holds of every term of m */
#define FORTERMS(m, P) ((FM_SIZE(m) <= 0 || P(m, 0)) && (FM_SIZE(m) <= 1 || P(m, 1)) && (FM_SIZE(m) <= 2 || P(m, 2)) && (FM_SIZE(m) <= 3 || P(m, 3)))
#define P_RANGE(m, i) L_RANGE72(FM_COEF(m, i), FM_VAL(m, i))
#define P_NEG(m, i) L_NEG(FM_COEF(m, i), FM_VAL(m, i))
static inline bool fm_range_lemmas(const FM *m){ return FORTERMS(m, P_RANGE); }
static inline bool fm_neg_lemmas(const FM *m){ return FORTERMS(m, P_RANGE) && FORTERMS(m, P_NEG); }
#define NEG_LEMMAS(e) fm_neg_lemmas(MAPP(*(e)))
static inline i128 fm_eval(const FM *m){ return FM_TERM(m, 0) + FM_TERM(m, 1) + FM_TERM(m, 2) + FM_TERM(m, 3); }
/* coefficient of the variable with index x (0 when absent) */
#define FM_GET1(m, i, x) (((i) < FM_SIZE(m) && FM_IDX(m, i) == (x)) ? FM_COEF(m, i) : (i128)0)
static inline i128 fm_get(const FM *m, uint64_t x){ return FM_GET1(m, 0, x) + FM_GET1(m, 1, x) + FM_GET1(m, 2, x) + FM_GET1(m, 3, x); }
#define MAP_CONST(m) (FM_SIZE(m) == 0)
#define MAP_E(m) fm_eval(m)
#define MAP_OKN(m, n, z) fm_okz(m, n, z)
#else
/* ---- ABSTRACT reading */
unsigned char __CPROVER_uninterpreted_map_const(void *);
unsigned char __CPROVER_uninterpreted_map_esign(void *);
uint64_t __CPROVER_uninterpreted_map_emag(void *);
#define MAP_CONST(m) (__CPROVER_uninterpreted_map_const((void *)(m)) != 0)
/* |E| < 2^60, symmetric range (so that "E(result) == -E(operand)" is satisfiable for every operand) */
static inline i128 map_e_abs(void *m){ i128 g = (i128)(__CPROVER_uninterpreted_map_emag(m) >> 4); return __CPROVER_uninterpreted_map_esign(m) != 0 ? -g : g; }
#define MAP_E(m) (MAP_CONST(m) ? (i128)0 : map_e_abs((void *)(m)))
#define MAP_OKN(m, n, z) 1
#define NEG_LEMMAS(e) 1
#endif

/* ---- expressions and constraints */
#define LE_CST(e) ZV(&(e)->f1)
#define LE_E(e) MAP_E(MAPP(*(e)))
#define LE_CONST(e) MAP_CONST(MAPP(*(e)))
#define LE_VAL(e) (LE_E(e) + LE_CST(e))
/* constant inside (-z, z); (concrete reading only:) at most n well-formed terms with coefficients inside (-z, z) */
static inline bool le_oknz(const LE *e, uint64_t n, i128 z){ return zin(LE_CST(e), z) && MAP_OKN(MAPP(*e), n, z); }
#ifndef NT
#define NT 2
#endif
#define le_okz(e, z) le_oknz(e, NT, z)
#define le_ok(e) le_oknz(e, NT, ZB)
static inline bool lc_okz(const LC *c, i128 z){ return c->f0 <= 3 && le_okz(&c->f1, z); }
#define lc_ok(c) lc_okz(c, ZB)
#define LC_HOLDS(c) k_holds((c)->f0, LE_VAL(&(c)->f1))
#endif
#endif
