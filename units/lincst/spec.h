/* Specification vocabulary for ikos::linear_expression<z_number,VN> / ikos::linear_constraint<z_number,VN>
 * (include/crab/types/linear_constraints.hpp), instantiated by units/lincst/force.cpp.
 *
 * Lowered classes (z_number replaced by the integer model models/zmodel.h):
 *   LE  = { f0 = _map : std::shared_ptr<flat_map<variable_t, z_number>>,  f1 = _cst }
 *   LC  = { f0 = _kind (0 EQUALITY, 1 DISEQUATION, 2 INEQUALITY, 3 STRICT_INEQUALITY),  f1 = _expr }
 *   FM  = boost flat_map = a boost::container::vector { f0 = start, f1 = size, f2 = capacity } of
 *   PR  = pair<variable_t, z_number> { f0 = variable { vptr, VN { vptr, f1 = index }, type { kind, width } }, f1 = coefficient }
 *
 * MEANING.  Under a valuation `val` of the variables an expression denotes  E(map) + _cst  with
 * E(map) = sum of coefficient * val(variable) over the terms of the map, and a constraint HOLDS iff
 * E + _cst {==, !=, <=, <} 0 according to its kind.
 *
 * Two readings of E / "the map has no term", selected per check:
 *  - ABSTRACT (default; the constraint layer): MAP_CONST(m) and the value of E(m) are UNINTERPRETED functions of
 *    the map pointer, E(m) = 0 whenever MAP_CONST(m).  An arbitrary function = an arbitrary valuation, so a
 *    postcondition stated with it is the universally quantified statement ("for every valuation").
 *  - CONCRETE (defs=LINCST_CONCRETE; the expression layer): MAP_CONST(m) is size == 0 and E(m) is the sum itself,
 *    read from the vector storage, with an uninterpreted valuation VAL(index) and the product symbol ZM_mul. */
#ifndef LINCST_SPEC_H
#define LINCST_SPEC_H
#include "verif.h"
#ifndef ZBITS
#define ZBITS 40
#endif
#define ZB (((i128)1) << ZBITS)      /* constants and coefficients of INPUTS lie strictly inside (-ZB, ZB) */
#define K_EQ 0
#define K_NE 1
#define K_LE 2
#define K_LT 3
/* does  v {kind} 0  hold */
static inline bool k_holds(uint32_t kind, i128 v){ return kind == K_EQ ? v == 0 : kind == K_NE ? v != 0 : kind == K_LE ? v <= 0 : v < 0; }
#ifndef __cplusplus
#include "unit_types.h"
#include "zmodel.h"
typedef struct S_class_ikos__linear_expression LE;
typedef struct S_class_ikos__linear_constraint LC;
typedef struct S_class_std__shared_ptr SPT;
typedef struct S_class_boost__container__flat_map FM;
typedef struct S_struct_boost__container__dtl__pair PR;
typedef struct S_class_crab__variable VAR;
#define MAPP(e) ((e).f0.f0.f0)                 /* raw flat_map pointer held by the shared_ptr of an expression */
#define FM_START(m) ((m)->f0.f0.f0.f0.f0)
#define FM_SIZE(m) ((m)->f0.f0.f0.f0.f1)
#define FM_CAP(m) ((m)->f0.f0.f0.f0.f2)
static inline bool zin(i128 v, i128 b){ return v > -b && v < b; }

#ifdef LINCST_CONCRETE
/* ---- CONCRETE reading (BOUNDED: input expressions have at most NT terms, results at most MAXT = 2 * NT) */
#ifndef NT
#define NT 2
#endif
#define MAXT (2 * NT)
extern const struct anon_f0db2cc371 _ZTVN4crab8variableIN4ikos8z_numberE2VNEE;
extern const struct anon_f0db2cc371 _ZTV2VN;
#define VT_VAR ((void *)&_ZTVN4crab8variableIN4ikos8z_numberE2VNEE.f0.a[2])
#define VT_VN ((void *)&_ZTV2VN.f0.a[2])
#define VAR_IDX(v) ((v)->f1.f1)
static inline bool var_ok(const VAR *v){ return (void *)v->f0.f0 == VT_VAR && (void *)v->f1.f0.f0 == VT_VN; }
/* the valuation: an arbitrary function of the variable index, |VAL| < 2^31 */
uint32_t __CPROVER_uninterpreted_val(uint64_t);
#define VAL(i) ((i128)(int32_t)__CPROVER_uninterpreted_val(i))
#define FM_IDX(m, i) VAR_IDX(&FM_START(m)[i].f0)
#define FM_COEF(m, i) ZV(&FM_START(m)[i].f1)
#define FM_VAL(m, i) VAL(FM_IDX(m, i))
/* representation invariant of the term container: at most n terms, sorted by strictly increasing variable index,
 * no zero coefficient, coefficients inside (-z, z), well-formed variable objects */
static inline bool fm_term_ok(const FM *m, uint64_t i, i128 z){ return var_ok(&FM_START(m)[i].f0) && FM_COEF(m, i) != 0 && zin(FM_COEF(m, i), z); }
static inline bool fm_okz(const FM *m, uint64_t n, i128 z){
  if (!(FM_SIZE(m) <= n && FM_SIZE(m) <= MAXT && FM_SIZE(m) <= FM_CAP(m))) return false;
  for (unsigned i = 0; i < MAXT; i++) if (i < FM_SIZE(m)) {
    if (!fm_term_ok(m, i, z)) return false;
    if (i > 0 && !(FM_IDX(m, i - 1) < FM_IDX(m, i))) return false; }
  return true; }
/* the product symbol of models/zmodel.c as a side-effect-free term (identical to ZM_mul_pure: exact for operands
 * 0, 1, -1, otherwise the uninterpreted symbol; bit-precise under ZM_PRECISE) */
#ifdef ZM_PRECISE
static inline i128 lmul(i128 a, i128 b){ return a * b; }
#else
i128 __CPROVER_uninterpreted_zmul(i128, i128);
static inline i128 lmul(i128 a, i128 b){
  if (a == 0 || b == 0) return 0;
  if (a == 1) return b;  if (b == 1) return a;
  if (a == -1) return -b; if (b == -1) return -a;
  return __CPROVER_uninterpreted_zmul(a, b); }
#endif
#define FM_PROD(m, i) lmul(FM_COEF(m, i), FM_VAL(m, i))
/* value of the variable part under the valuation; coefficient of the variable with index x (0 when absent) */
static inline i128 fm_eval(const FM *m){ i128 s = 0; for (unsigned i = 0; i < MAXT; i++) if (i < FM_SIZE(m)) s += FM_PROD(m, i); return s; }
static inline i128 fm_get(const FM *m, uint64_t x){ i128 s = 0; for (unsigned i = 0; i < MAXT; i++) if (i < FM_SIZE(m) && FM_IDX(m, i) == x) s += FM_COEF(m, i); return s; }
#define MAP_CONST(m) (FM_SIZE(m) == 0)
#define MAP_E(m) fm_eval(m)
#define MAP_OKN(m, n, z) fm_okz(m, n, z)
/* ---- lemma INSTANCES (schemas: lemmas/lincst_ring.smt2), over the terms of INPUT maps (at most NT terms).
 * R72: |c| < 2^41, |v| < 2^31 => |c * v| < 2^72;  R116: |n| < 2^41, |t| < 2^75 => |n * t| < 2^116 */
#define R72 (((i128)1) << 72)
#define R116 (((i128)1) << 116)
/* products of the terms in range */
static inline bool fm_range_lemmas(const FM *m){
  for (unsigned i = 0; i < NT; i++) if (i < FM_SIZE(m) && !zin(FM_PROD(m, i), R72)) return false;
  return true; }
/* ... and (-c) * v = -(c * v) for every term */
static inline bool fm_neg_lemmas(const FM *m){
  for (unsigned i = 0; i < NT; i++) if (i < FM_SIZE(m)) { i128 p = FM_PROD(m, i); if (!(zin(p, R72) && lmul(-FM_COEF(m, i), FM_VAL(m, i)) == -p)) return false; }
  return true; }
#define NEG_LEMMAS(e) fm_neg_lemmas(MAPP(*(e)))
/* e1 + e2: a variable of both: (p + q) * v = p * v + q * v */
static inline bool fm_add_lemmas(const FM *a, const FM *b){
  i128 pa[NT], pb[NT];
  for (unsigned i = 0; i < NT; i++) { pa[i] = i < FM_SIZE(a) ? FM_PROD(a, i) : 0; pb[i] = i < FM_SIZE(b) ? FM_PROD(b, i) : 0; if (!(zin(pa[i], R72) && zin(pb[i], R72))) return false; }
  for (unsigned i = 0; i < NT; i++) for (unsigned j = 0; j < NT; j++)
    if (i < FM_SIZE(a) && j < FM_SIZE(b) && FM_IDX(a, i) == FM_IDX(b, j) && !(lmul(FM_COEF(a, i) + FM_COEF(b, j), FM_VAL(a, i)) == pa[i] + pb[j])) return false;
  return true; }
/* e1 - e2: (-q) * v = -(q * v) for the terms of e2 and (p + (-q)) * v = p * v + (-q) * v for a variable of both */
static inline bool fm_sub_lemmas(const FM *a, const FM *b){
  i128 pa[NT], nb[NT];
  for (unsigned i = 0; i < NT; i++) { pa[i] = i < FM_SIZE(a) ? FM_PROD(a, i) : 0; i128 pb = i < FM_SIZE(b) ? FM_PROD(b, i) : 0; nb[i] = i < FM_SIZE(b) ? lmul(-FM_COEF(b, i), FM_VAL(b, i)) : 0;
    if (!(zin(pa[i], R72) && zin(pb, R72) && nb[i] == -pb)) return false; }
  for (unsigned i = 0; i < NT; i++) for (unsigned j = 0; j < NT; j++)
    if (i < FM_SIZE(a) && j < FM_SIZE(b) && FM_IDX(a, i) == FM_IDX(b, j) && !(lmul(FM_COEF(a, i) + -FM_COEF(b, j), FM_VAL(a, i)) == pa[i] + nb[j])) return false;
  return true; }
/* e + k * x for k = 1, -1: a term of e on x: (p + k) * v = p * v + k * v */
static inline bool fm_addvar_lemmas(const FM *m, uint64_t x, i128 k){
  for (unsigned i = 0; i < NT; i++) if (i < FM_SIZE(m)) { i128 p = FM_PROD(m, i); if (!zin(p, R72)) return false;
    if (FM_IDX(m, i) == x && !(lmul(FM_COEF(m, i) + k, FM_VAL(m, i)) == p + lmul(k, FM_VAL(m, i)))) return false; }
  return true; }
/* n * e: (n * c) * v = n * (c * v) per term, n * (t0 + t1 (+ t2)) = n * t0 + n * t1 (+ n * t2), products in range */
static inline bool fm_scale_lemmas(const FM *m, i128 n){
  i128 p[NT], q[NT], sp = 0, sq = 0;
  for (unsigned i = 0; i < NT; i++) { p[i] = 0; q[i] = 0; if (i < FM_SIZE(m)) { p[i] = FM_PROD(m, i); if (!zin(p[i], R72)) return false; q[i] = lmul(n, p[i]);
      if (!(zin(q[i], R116) && lmul(lmul(n, FM_COEF(m, i)), FM_VAL(m, i)) == q[i])) return false;
      if (i > 0 && !(lmul(n, sp + p[i]) == sq + q[i])) return false;
      sp += p[i]; sq += q[i]; } }
  return true; }
/* renaming rho: an arbitrary partial function on variable indices (units/lincst/lemodel.c), identity where undefined */
unsigned char __CPROVER_uninterpreted_rho_has(uint64_t);
uint64_t __CPROVER_uninterpreted_rho(uint64_t);
#define RHO_HAS(x) (__CPROVER_uninterpreted_rho_has(x) != 0)
#define RHO(x) (RHO_HAS(x) ? __CPROVER_uninterpreted_rho(x) : (uint64_t)(x))
#define FM_RIDX(m, i) RHO(FM_IDX(m, i))
#define FM_RPROD(m, i) lmul(FM_COEF(m, i), VAL(FM_RIDX(m, i)))
/* value of the variable part under the valuation composed with rho; coefficient of x after renaming (terms that are
 * renamed to the same variable add up) */
static inline i128 fm_eval_renamed(const FM *m){ i128 s = 0; for (unsigned i = 0; i < NT; i++) if (i < FM_SIZE(m)) s += FM_RPROD(m, i); return s; }
static inline i128 fm_get_renamed(const FM *m, uint64_t x){ i128 s = 0; for (unsigned i = 0; i < NT; i++) if (i < FM_SIZE(m) && FM_RIDX(m, i) == x) s += FM_COEF(m, i); return s; }
/* two terms renamed to the same variable: (p + q) * v = p * v + q * v (BOUNDED: at most 2 terms) */
static inline bool fm_rename_lemmas(const FM *m){
  i128 p[NT];
  for (unsigned i = 0; i < NT; i++) { p[i] = i < FM_SIZE(m) ? FM_RPROD(m, i) : 0; if (!zin(p[i], R72)) return false; }
#if NT >= 2
  if (FM_SIZE(m) >= 2 && FM_RIDX(m, 0) == FM_RIDX(m, 1) && !(lmul(FM_COEF(m, 0) + FM_COEF(m, 1), VAL(FM_RIDX(m, 0))) == p[0] + p[1])) return false;
#endif
  return true; }
/* r has exactly the terms of a with negated coefficients (same variables: index and type), well-formed variable objects */
static inline bool fm_is_neg(const FM *r, const FM *a){
  if (FM_SIZE(r) != FM_SIZE(a)) return false;
  for (unsigned i = 0; i < NT; i++) if (i < FM_SIZE(a) && !(var_ok(&FM_START(r)[i].f0) && FM_IDX(r, i) == FM_IDX(a, i) && FM_COEF(r, i) == -FM_COEF(a, i) &&
      FM_START(r)[i].f0.f2.f0 == FM_START(a)[i].f0.f2.f0 && FM_START(r)[i].f0.f2.f1 == FM_START(a)[i].f0.f2.f1)) return false;
  return true; }
/* the same terms (syntactic equality of the term sequences) */
static inline bool fm_same(const FM *a, const FM *b){
  if (FM_SIZE(a) != FM_SIZE(b)) return false;
  for (unsigned i = 0; i < NT; i++) if (i < FM_SIZE(a) && !(FM_IDX(a, i) == FM_IDX(b, i) && FM_COEF(a, i) == FM_COEF(b, i))) return false;
  return true; }
#else
/* ---- ABSTRACT reading */
unsigned char __CPROVER_uninterpreted_map_const(void *);
unsigned char __CPROVER_uninterpreted_map_esign(void *);
uint64_t __CPROVER_uninterpreted_map_emag(void *);
#define MAP_CONST(m) (__CPROVER_uninterpreted_map_const((void *)(m)) != 0)
/* |E| < 2^60, symmetric range (so that "E(result) == -E(operand)" is satisfiable for every operand) */
static inline i128 map_e_abs(void *m){ i128 g = (i128)(__CPROVER_uninterpreted_map_emag(m) >> 4); return __CPROVER_uninterpreted_map_esign(m) != 0 ? -g : g; }
#define MAP_E(m) (MAP_CONST(m) ? (i128)0 : map_e_abs((void *)(m)))
#define MAP_OKN(m, n, z) 1
#define NEG_LEMMAS(e) 1
/* value of the variable part under the valuation composed with the renaming: a second uninterpreted function of the map */
unsigned char __CPROVER_uninterpreted_map_rsign(void *);
uint64_t __CPROVER_uninterpreted_map_rmag(void *);
static inline i128 map_er_abs(void *m){ i128 g = (i128)(__CPROVER_uninterpreted_map_rmag(m) >> 4); return __CPROVER_uninterpreted_map_rsign(m) != 0 ? -g : g; }
#define fm_eval_renamed(m) (MAP_CONST(m) ? (i128)0 : map_er_abs((void *)(m)))
#define fm_get_renamed(m, x) ((i128)0)
#define fm_rename_lemmas(m) 1
#endif

/* ---- expressions and constraints */
#define LE_CST(e) ZV(&(e)->f1)
#define LE_E(e) MAP_E(MAPP(*(e)))
#define LE_CONST(e) MAP_CONST(MAPP(*(e)))
#define LE_VAL(e) (LE_E(e) + LE_CST(e))
/* constant inside (-z, z); (concrete reading only:) at most n well-formed terms with coefficients inside (-z, z) */
static inline bool le_oknz(const LE *e, uint64_t n, i128 z){ return zin(LE_CST(e), z) && MAP_OKN(MAPP(*e), n, z); }
#ifndef NT
#define NT 2
#endif
#define le_okz(e, z) le_oknz(e, NT, z)
/* only the constant is constrained (for members that do not look at the terms) */
#define le_ok_any(e) zin(LE_CST(e), ZB)
#define le_ok(e) le_oknz(e, NT, ZB)
static inline bool lc_okz(const LC *c, i128 z){ return c->f0 <= 3 && le_okz(&c->f1, z); }
#define lc_ok(c) lc_okz(c, ZB)
#define LC_HOLDS(c) k_holds((c)->f0, LE_VAL(&(c)->f1))

/* ---- constraint systems: linear_constraint_system = { f0 = _csts : std::vector<linear_constraint> { start, finish,
 * end_of_storage } }.  A system denotes the CONJUNCTION of its constraints (the empty system is true).
 * BOUNDED: input systems have at most NC constraints, results at most SYS_MAXC = NC + 1. */
typedef struct S_class_ikos__linear_constraint_system SYS;
#ifndef NC
#define NC 2
#endif
#define SYS_MAXC (NC + 1)
#define SYS_B(s) ((s)->f0.f0.f0.f0.f0)
#define SYS_E(s) ((s)->f0.f0.f0.f0.f1)
#define SYS_C(s) ((s)->f0.f0.f0.f0.f2)
#define SYS_N(s) (SYS_B(s) == 0 ? (uint64_t)0 : (uint64_t)(SYS_E(s) - SYS_B(s)))
#define SYS_AT(s, i) (&SYS_B(s)[i])
/* at most n constraints, each well formed with constants / coefficients inside (-z, z) */
static inline bool sys_okz(const SYS *s, uint64_t n, i128 z){
  if (!(SYS_N(s) <= n && SYS_N(s) <= SYS_MAXC)) return false;
  for (unsigned i = 0; i < SYS_MAXC; i++) if (i < SYS_N(s) && !lc_okz(SYS_AT(s, i), z)) return false;
  return true; }
#define sys_ok(s) sys_okz(s, NC, ZB)
/* the conjunction of the constraints holds under the valuation */
static inline bool sys_holds(const SYS *s){
  bool h = true;
  for (unsigned i = 0; i < SYS_MAXC; i++) if (i < SYS_N(s) && !LC_HOLDS(SYS_AT(s, i))) h = false;
  return h; }
/* every constraint is a constant constraint (no term) */
static inline bool sys_all_const(const SYS *s){
  for (unsigned i = 0; i < SYS_MAXC; i++) if (i < SYS_N(s) && !LE_CONST(&SYS_AT(s, i)->f1)) return false;
  return true; }
/* lemma instances for the evaluation of NEGATED input expressions (normalize builds -e): (-c) * v = -(c * v) for every
 * term of every constraint of the input system */
static inline bool sys_neg_lemmas(const SYS *s){
  for (unsigned i = 0; i < SYS_MAXC; i++) if (i < SYS_N(s) && !NEG_LEMMAS(&SYS_AT(s, i)->f1)) return false;
  return true; }
#ifdef LINCST_CONCRETE
/* products of all terms in range (evaluation of COPIED input expressions) */
static inline bool sys_range_lemmas(const SYS *s){
  for (unsigned i = 0; i < SYS_MAXC; i++) if (i < SYS_N(s) && !fm_range_lemmas(MAPP(SYS_AT(s, i)->f1))) return false;
  return true; }
/* syntactic equality of constraints (what linear_constraint::equal decides): same kind, same constant, same terms */
static inline bool lc_same(const LC *a, const LC *b){ return a->f0 == b->f0 && LE_CST(&a->f1) == LE_CST(&b->f1) && fm_same(MAPP(a->f1), MAPP(b->f1)); }
/* one of the first n constraints of s is syntactically equal to c */
static inline bool sys_find(const SYS *s, uint64_t n, const LC *c){
  for (unsigned i = 0; i < SYS_MAXC; i++) if (i < n && lc_same(SYS_AT(s, i), c)) return true;
  return false; }
/* d is a copy of c: same kind and constant, the term map is shared */
static inline bool lc_copy(const LC *d, const LC *c){ return d->f0 == c->f0 && MAPP(d->f1) == MAPP(c->f1) && LE_CST(&d->f1) == LE_CST(&c->f1); }
#else
#define sys_range_lemmas(s) 1
#endif
#endif
#endif
