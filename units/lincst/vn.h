// The variable-name type the unit instantiates the linear-constraint templates with: a trivial
// crab::indexable whose index() returns the stored identity.  Shared by force.cpp (verification) and
// replay.cpp (native replay) so that both use the same instantiation.
#ifndef LINCST_VN_H
#define LINCST_VN_H
#include <crab/types/indexable.hpp>
struct VN : public crab::indexable {
  ikos::index_t i;
  VN(ikos::index_t x) : i(x) {}
  VN(const VN &o) : i(o.i) {}
  ikos::index_t index() const override { return i; }
  void write(crab::crab_os &o) const override;
};
crab::crab_os &operator<<(crab::crab_os &o, const VN &v);
#endif
