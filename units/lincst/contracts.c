/* Contracts for ikos::linear_constraint<z_number,VN> and ikos::linear_expression<z_number,VN>
 * (include/crab/types/linear_constraints.hpp) -- property C20.
 *
 * PART 1 (constraint layer, unbounded, ABSTRACT reading of spec.h): the real linear_constraint code is proved against
 * the meaning "E(map) + _cst {==,!=,<=,<} 0" with E an arbitrary (uninterpreted) function of the map, i.e. for every
 * valuation and every expression; the few linear_expression members it calls that touch the term container are
 * replaced by their contracts (PART 0), everything else of linear_expression (copy, e + n, e - n, constant())
 * runs in line.
 * PART 2 (expression layer): 2a members that only pass the map on (ABSTRACT reading, unbounded); 2b members that work
 * on the terms (CONCRETE reading, BOUNDED: NT terms per operand), run on the reference sorted-array model of the Boost
 * container (lemodel.c).  The contracts of PART 0 that PART 1 assumes are the ones PART 2b proves. */
#include "spec.h"
/* The contracts of the expression operations have two groups of postconditions: SP = structure (well-formed result,
 * constant, coefficient-wise characterisation) and EP = evaluation under the valuation (lemma-conditioned).  A check may
 * select one group (defs=NO_EVAL / defs=ONLY_EVAL) so that the expensive evaluation clauses run as separate checks. */
#if defined(ONLY_EVAL)
#define SP(e) 1
#define EP(e) (e)
#elif defined(NO_EVAL)
#define SP(e) (e)
#define EP(e) 1
#else
#define SP(e) (e)
#define EP(e) (e)
#endif
#define LCK(x) _ZNK4ikos17linear_constraintINS_8z_numberE2VNE##x
#define LCN(x) _ZN4ikos17linear_constraintINS_8z_numberE2VNE##x
#define LEK(x) _ZNK4ikos17linear_expressionINS_8z_numberE2VNE##x
#define LEN(x) _ZN4ikos17linear_expressionINS_8z_numberE2VNE##x
#define SPN(x) _ZNSt10shared_ptrIN5boost9container8flat_mapIN4crab8variableIN4ikos8z_numberE2VNEES6_St4lessIS8_EvEEE##x
#define MAKE_SHARED _ZSt11make_sharedIN5boost9container8flat_mapIN4crab8variableIN4ikos8z_numberE2VNEES6_St4lessIS8_EvEEJEESt10shared_ptrINSt9enable_ifIXntsr8is_arrayIT_EE5valueESE_E4typeEEDpOT0_

#define EMAP(e) MAPP(*(e))
#ifdef LINCST_CONCRETE
uint64_t g_v;     /* ghost variable index at which coefficient-wise facts are instantiated: arbitrary, never assigned */
#define GET(e, x) fm_get(MAPP(*(e)), x)
#define COEFWISE_NEG(r, a) (FM_SIZE(MAPP(*(r))) == FM_SIZE(MAPP(*(a))) && fm_get(MAPP(*(r)), g_v) == -fm_get(MAPP(*(a)), g_v))
/* the result of unary minus as a FUNCTION of the operand (so that the contract can stand for the call in the checks of
 * linear_constraint_system): a new map object with its own term array, holding the operand's terms with negated coefficients */
#define NEG_TERMS(r, a) (__CPROVER_is_fresh(MAPP(*(r)), sizeof(FM)) && __CPROVER_is_fresh(FM_START(MAPP(*(r))), 2 * NT * sizeof(PR)) && FM_CAP(MAPP(*(r))) == 2 * NT && fm_is_neg(MAPP(*(r)), MAPP(*(a))))
#else
#define g_v 0
#define GET(e, x) ((i128)0)     /* coefficient-wise clauses say nothing in the abstract reading */
#define COEFWISE_NEG(r, a) 1
#define NEG_TERMS(r, a) 1
#endif
/* ===================== PART 0: callee contracts on the term container ===================== */
/* ASSUMED (shared_ptr ownership plumbing, never enforced): copying a shared_ptr passes the same map on,
 * destroying one changes no map, make_shared<map_t>() yields a new, empty map.
 * These three functions are DROPPED from the unit (unit.json): in the ABSTRACT reading their calls are replaced by the
 * contracts below (the driver replaces a dropped function that has a contract in every check); in the CONCRETE reading
 * the contracts are not declared, so that the executable models of units/lincst/lemodel.c (the same facts) are used. */
#ifndef LINCST_CONCRETE
void SPN(C2ERKSC_)(SPT *self, SPT *o)
__CPROVER_requires(FRESH(sp_copy, self, sizeof(SPT)) && FRESH(sp_copy, o, sizeof(SPT)))
__CPROVER_assigns(*self)
__CPROVER_ensures(self->f0.f0 == o->f0.f0);
void SPN(D2Ev)(SPT *self)
__CPROVER_requires(FRESH(sp_dtor, self, sizeof(SPT)))
__CPROVER_assigns()
__CPROVER_ensures(1);
void MAKE_SHARED(SPT *ret)
__CPROVER_requires(FRESH(sp_make, ret, sizeof(SPT)))
__CPROVER_assigns(*ret)
__CPROVER_ensures(__CPROVER_is_fresh(ret->f0.f0, sizeof(FM)) && FM_SIZE(ret->f0.f0) == 0)
__CPROVER_ensures(MAP_CONST(ret->f0.f0) && MAP_E(ret->f0.f0) == 0);
#endif

/* is_constant(): the expression has no term (then its variable part is 0 under every valuation: built into MAP_E) */
unsigned char LEK(11is_constantEv)(LE *self)
__CPROVER_requires(FRESH(le_is_constant, self, sizeof(LE)) && le_ok_any(self))
__CPROVER_assigns()
__CPROVER_ensures(__CPROVER_return_value == (LE_CONST(self) ? 1 : 0));
/* unary minus: negates the variable part and the constant */
void LEK(ngEv)(LE *ret, LE *self)
__CPROVER_requires(FRESH(le_neg, ret, sizeof(LE)) && FRESH(le_neg, self, sizeof(LE)) && le_okz(self, 2 * ZB))
__CPROVER_assigns(*ret)
__CPROVER_ensures(SP(NEG_TERMS(ret, self)))     /* first: it makes the result's map a valid object when the contract stands for a call */
__CPROVER_ensures(SP(le_okz(ret, 2 * ZB) && LE_CST(ret) == -LE_CST(self) && LE_CONST(ret) == LE_CONST(self)))
__CPROVER_ensures(EP(!NEG_LEMMAS(self) || LE_E(ret) == -LE_E(self)))
__CPROVER_ensures(SP(TOP(le_neg, COEFWISE_NEG(ret, self))));

/* rename(rho) for an arbitrary renaming map rho: see PART 2 (check le_rename); in the abstract reading: the constant is
 * kept and the variable part of the result has the value of the variable part of the operand under val o rho */
void LEK(6renameI2RMEES3_RKT_)(LE *ret, LE *self, struct S_struct_RM *map)
__CPROVER_requires(FRESH(le_rename, ret, sizeof(LE)) && FRESH(le_rename, self, sizeof(LE)) && FRESH(le_rename, map, sizeof(struct S_struct_RM)) && le_ok(self))
__CPROVER_assigns(*ret)
__CPROVER_ensures(SP(le_oknz(ret, NT, 2 * ZB) && LE_CST(ret) == LE_CST(self)))
__CPROVER_ensures(SP(GET(ret, g_v) == fm_get_renamed(EMAP(self), g_v)))
__CPROVER_ensures(EP(!fm_rename_lemmas(EMAP(self)) || LE_E(ret) == fm_eval_renamed(EMAP(self))));

/* harness input: an arbitrary constraint; the values the uninterpreted symbols take on its map are recorded as
 * witnesses (g_E: variable part under the valuation, g_const: "no term") for the native replay */
#define RECORD(T, g, e) T g = (e); static T wit_##g; wit_##g = g
#define INLC(a) IN(LC, a); RECORD(i128, a##_E, LE_E(&a.f1)); RECORD(unsigned char, a##_const, LE_CONST(&a.f1) ? 1 : 0)

/* ===================== PART 1: linear_constraint ===================== */
/* ---- kind accessors */
#define KINDQ(id, fn, K) \
unsigned char fn(LC *self) \
__CPROVER_requires(FRESH(id, self, sizeof(LC)) && lc_ok(self)) \
__CPROVER_assigns() \
__CPROVER_ensures(__CPROVER_return_value == (self->f0 == (K) ? 1 : 0)); \
void h_##id(void){ IN(LC, a); fn(&a); REACH; }
//@check id=is_equality fn=_ZNK4ikos17linear_constraintINS_8z_numberE2VNE11is_equalityEv props=C20
KINDQ(is_equality, LCK(11is_equalityEv), K_EQ)
//@check id=is_disequation fn=_ZNK4ikos17linear_constraintINS_8z_numberE2VNE14is_disequationEv props=C20
KINDQ(is_disequation, LCK(14is_disequationEv), K_NE)
//@check id=is_inequality fn=_ZNK4ikos17linear_constraintINS_8z_numberE2VNE13is_inequalityEv props=C20
KINDQ(is_inequality, LCK(13is_inequalityEv), K_LE)
//@check id=is_strict_inequality fn=_ZNK4ikos17linear_constraintINS_8z_numberE2VNE20is_strict_inequalityEv props=C20
KINDQ(is_strict_inequality, LCK(20is_strict_inequalityEv), K_LT)
//@check id=kind fn=_ZNK4ikos17linear_constraintINS_8z_numberE2VNE4kindEv props=C20
uint32_t LCK(4kindEv)(LC *self)
__CPROVER_requires(FRESH(kind, self, sizeof(LC)) && lc_ok(self))
__CPROVER_assigns()
__CPROVER_ensures(__CPROVER_return_value == self->f0);
void h_kind(void){ IN(LC, a); LCK(4kindEv)(&a); REACH; }
/* expression(): the stored expression itself */
//@check id=expression fn=_ZNK4ikos17linear_constraintINS_8z_numberE2VNE10expressionEv props=C20
LE *LCK(10expressionEv)(LC *self)
__CPROVER_requires(FRESH(expression, self, sizeof(LC)) && lc_ok(self))
__CPROVER_assigns()
__CPROVER_ensures(__CPROVER_return_value == &self->f1);
void h_expression(void){ IN(LC, a); LCK(10expressionEv)(&a); REACH; }
/* constant(): the right-hand side when the constraint is read  "variable part  {kind}  constant()" */
//@check id=lc_constant fn=_ZNK4ikos17linear_constraintINS_8z_numberE2VNE8constantEv props=C20
void LCK(8constantEv)(Z *ret, LC *self)
__CPROVER_requires(FRESH(lc_constant, ret, sizeof(Z)) && FRESH(lc_constant, self, sizeof(LC)) && lc_ok(self))
__CPROVER_assigns(*ret)
__CPROVER_ensures(ZV(ret) == -LE_CST(&self->f1))
__CPROVER_ensures(LC_HOLDS(self) == k_holds(self->f0, LE_E(&self->f1) - ZV(ret)));
void h_lc_constant(void){ IN(LC, a); Z r; LCK(8constantEv)(&r, &a); REACH; }

/* ---- constructor from (expression, kind): same kind, same meaning */
//@check id=lc_ctor fn=_ZN4ikos17linear_constraintINS_8z_numberE2VNEC2ERKNS_17linear_expressionIS1_S2_EENS3_6kind_tE props=C20 replace=_ZNSt10shared_ptrIN5boost9container8flat_mapIN4crab8variableIN4ikos8z_numberE2VNEES6_St4lessIS8_EvEEEC2ERKSC_
void LCN(C2ERKNS_17linear_expressionIS1_S2_EENS3_6kind_tE)(LC *self, LE *e, uint32_t kind)
__CPROVER_requires(FRESH(lc_ctor, self, sizeof(LC)) && FRESH(lc_ctor, e, sizeof(LE)) && le_okz(e, 2 * ZB) && kind <= 3)
__CPROVER_assigns(*self)
__CPROVER_ensures(lc_okz(self, 2 * ZB) && self->f0 == kind && LE_CST(&self->f1) == LE_CST(e) && MAPP(self->f1) == MAPP(*e));
void h_lc_ctor(void){ IN(LE, e); GHOST(uint32_t, k); LC r; LCN(C2ERKNS_17linear_expressionIS1_S2_EENS3_6kind_tE)(&r, &e, k); REACH; }

/* ---- tautology / contradiction tests: EXACT for constant constraints (answer iff `c kind 0` holds / fails),
 * and never a wrong yes for any constraint (a yes implies the constraint holds / fails under the valuation,
 * which is arbitrary) */
#define TAUTQ(id, fn, POL) \
unsigned char fn(LC *self) \
__CPROVER_requires(FRESH(id, self, sizeof(LC)) && lc_ok(self)) \
__CPROVER_assigns() \
__CPROVER_ensures(__CPROVER_return_value <= 1) \
__CPROVER_ensures(!LE_CONST(&self->f1) || (__CPROVER_return_value != 0) == (k_holds(self->f0, LE_CST(&self->f1)) == (POL))) \
__CPROVER_ensures(__CPROVER_return_value == 0 || LC_HOLDS(self) == (POL)); \
void h_##id(void){ INLC(a); unsigned char r = fn(&a); \
  SATGUARD(LE_CONST(&a.f1) && r); SATGUARD(LE_CONST(&a.f1) && !r); SATGUARD(!LE_CONST(&a.f1)); REACH; }
//@check id=is_tautology fn=_ZNK4ikos17linear_constraintINS_8z_numberE2VNE12is_tautologyEv props=C20 replace=_ZNK4ikos17linear_expressionINS_8z_numberE2VNE11is_constantEv
TAUTQ(is_tautology, LCK(12is_tautologyEv), true)
//@check id=is_contradiction fn=_ZNK4ikos17linear_constraintINS_8z_numberE2VNE16is_contradictionEv props=C20 replace=_ZNK4ikos17linear_expressionINS_8z_numberE2VNE11is_constantEv
TAUTQ(is_contradiction, LCK(16is_contradictionEv), false)

/* ---- the constant constraints true (0 == 0) and false (0 != 0) */
#define R_MK _ZSt11make_sharedIN5boost9container8flat_mapIN4crab8variableIN4ikos8z_numberE2VNEES6_St4lessIS8_EvEEJEESt10shared_ptrINSt9enable_ifIXntsr8is_arrayIT_EE5valueESE_E4typeEEDpOT0_
//@check id=get_true fn=_ZN4ikos17linear_constraintINS_8z_numberE2VNE8get_trueEv props=C20 replace=_ZSt11make_sharedIN5boost9container8flat_mapIN4crab8variableIN4ikos8z_numberE2VNEES6_St4lessIS8_EvEEJEESt10shared_ptrINSt9enable_ifIXntsr8is_arrayIT_EE5valueESE_E4typeEEDpOT0_,_ZNSt10shared_ptrIN5boost9container8flat_mapIN4crab8variableIN4ikos8z_numberE2VNEES6_St4lessIS8_EvEEEC2ERKSC_,_ZNSt10shared_ptrIN5boost9container8flat_mapIN4crab8variableIN4ikos8z_numberE2VNEES6_St4lessIS8_EvEEED2Ev,_ZNK4ikos17linear_expressionINS_8z_numberE2VNE11is_constantEv
void LCN(8get_trueEv)(LC *ret)
__CPROVER_requires(FRESH(get_true, ret, sizeof(LC)))
__CPROVER_assigns(*ret)
__CPROVER_ensures(lc_ok(ret) && LE_CONST(&ret->f1) && LC_HOLDS(ret));
void h_get_true(void){ LC r; LCN(8get_trueEv)(&r);
  __CPROVER_assert(LCK(12is_tautologyEv)(&r) == 1, "get_true().is_tautology()");
  __CPROVER_assert(LCK(16is_contradictionEv)(&r) == 0, "!get_true().is_contradiction()");
  REACH; }
//@check id=get_false fn=_ZN4ikos17linear_constraintINS_8z_numberE2VNE9get_falseEv props=C20 replace=_ZSt11make_sharedIN5boost9container8flat_mapIN4crab8variableIN4ikos8z_numberE2VNEES6_St4lessIS8_EvEEJEESt10shared_ptrINSt9enable_ifIXntsr8is_arrayIT_EE5valueESE_E4typeEEDpOT0_,_ZNSt10shared_ptrIN5boost9container8flat_mapIN4crab8variableIN4ikos8z_numberE2VNEES6_St4lessIS8_EvEEEC2ERKSC_,_ZNSt10shared_ptrIN5boost9container8flat_mapIN4crab8variableIN4ikos8z_numberE2VNEES6_St4lessIS8_EvEEED2Ev,_ZNK4ikos17linear_expressionINS_8z_numberE2VNE11is_constantEv
void LCN(9get_falseEv)(LC *ret)
__CPROVER_requires(FRESH(get_false, ret, sizeof(LC)))
__CPROVER_assigns(*ret)
__CPROVER_ensures(lc_ok(ret) && LE_CONST(&ret->f1) && !LC_HOLDS(ret));
void h_get_false(void){ LC r; LCN(9get_falseEv)(&r);
  __CPROVER_assert(LCK(16is_contradictionEv)(&r) == 1, "get_false().is_contradiction()");
  __CPROVER_assert(LCK(12is_tautologyEv)(&r) == 0, "!get_false().is_tautology()");
  REACH; }

/* ---- negation of  e <= 0  over the integers:  e >= 1  (exact complement) */
//@check id=negate_inequality fn=_ZN4ikos22linear_constraint_impl17negate_inequalityI2VNEENS_17linear_constraintINS_8z_numberET_EERKS6_ props=C20 replace=_ZNK4ikos17linear_expressionINS_8z_numberE2VNEngEv,_ZNSt10shared_ptrIN5boost9container8flat_mapIN4crab8variableIN4ikos8z_numberE2VNEES6_St4lessIS8_EvEEEC2ERKSC_,_ZNSt10shared_ptrIN5boost9container8flat_mapIN4crab8variableIN4ikos8z_numberE2VNEES6_St4lessIS8_EvEEED2Ev
void _ZN4ikos22linear_constraint_impl17negate_inequalityI2VNEENS_17linear_constraintINS_8z_numberET_EERKS6_(LC *ret, LC *c)
__CPROVER_requires(FRESH(negate_inequality, ret, sizeof(LC)) && FRESH(negate_inequality, c, sizeof(LC)) && lc_ok(c) && c->f0 == K_LE)
__CPROVER_assigns(*ret)
__CPROVER_ensures(lc_okz(ret, 2 * ZB))
__CPROVER_ensures(LC_HOLDS(ret) == !LC_HOLDS(c));
void h_negate_inequality(void){ INLC(a); LC r; _ZN4ikos22linear_constraint_impl17negate_inequalityI2VNEENS_17linear_constraintINS_8z_numberET_EERKS6_(&r, &a); REACH; }

/* ---- e < 0  <=>  e + 1 <= 0  over the integers */
//@check id=strict_to_non_strict fn=_ZN4ikos22linear_constraint_impl31strict_to_non_strict_inequalityI2VNEENS_17linear_constraintINS_8z_numberET_EERKS6_ props=C20 replace=_ZNSt10shared_ptrIN5boost9container8flat_mapIN4crab8variableIN4ikos8z_numberE2VNEES6_St4lessIS8_EvEEEC2ERKSC_,_ZNSt10shared_ptrIN5boost9container8flat_mapIN4crab8variableIN4ikos8z_numberE2VNEES6_St4lessIS8_EvEEED2Ev
void _ZN4ikos22linear_constraint_impl31strict_to_non_strict_inequalityI2VNEENS_17linear_constraintINS_8z_numberET_EERKS6_(LC *ret, LC *c)
__CPROVER_requires(FRESH(strict_to_non_strict, ret, sizeof(LC)) && FRESH(strict_to_non_strict, c, sizeof(LC)) && lc_ok(c) && c->f0 == K_LT)
__CPROVER_assigns(*ret)
__CPROVER_ensures(lc_okz(ret, 2 * ZB) && ret->f0 == K_LE)
__CPROVER_ensures(LC_HOLDS(ret) == LC_HOLDS(c));
void h_strict_to_non_strict(void){ INLC(a); LC r; _ZN4ikos22linear_constraint_impl31strict_to_non_strict_inequalityI2VNEENS_17linear_constraintINS_8z_numberET_EERKS6_(&r, &a); REACH; }

/* ---- negate(): the EXACT complement over the integers, for all four kinds and every valuation:
 * not(e <= 0) is e >= 1, not(e < 0) is e >= 0, equality <-> disequation, constant constraints to true / false.
 * is_tautology / is_contradiction / kind / negate_inequality / the constructor / get_true / get_false run in line. */
//@check id=negate fn=_ZNK4ikos17linear_constraintINS_8z_numberE2VNE6negateEv props=C20 replace=_ZNK4ikos17linear_expressionINS_8z_numberE2VNEngEv,_ZNK4ikos17linear_expressionINS_8z_numberE2VNE11is_constantEv,_ZSt11make_sharedIN5boost9container8flat_mapIN4crab8variableIN4ikos8z_numberE2VNEES6_St4lessIS8_EvEEJEESt10shared_ptrINSt9enable_ifIXntsr8is_arrayIT_EE5valueESE_E4typeEEDpOT0_,_ZNSt10shared_ptrIN5boost9container8flat_mapIN4crab8variableIN4ikos8z_numberE2VNEES6_St4lessIS8_EvEEEC2ERKSC_,_ZNSt10shared_ptrIN5boost9container8flat_mapIN4crab8variableIN4ikos8z_numberE2VNEES6_St4lessIS8_EvEEED2Ev
void LCK(6negateEv)(LC *ret, LC *self)
__CPROVER_requires(FRESH(negate, ret, sizeof(LC)) && FRESH(negate, self, sizeof(LC)) && lc_ok(self))
__CPROVER_assigns(*ret)
__CPROVER_ensures(lc_okz(ret, 2 * ZB))
__CPROVER_ensures(LC_HOLDS(ret) == !LC_HOLDS(self));
void h_negate(void){ INLC(a); LC r; LCK(6negateEv)(&r, &a);
  SATGUARD(a.f0 == K_EQ && a_const); SATGUARD(a.f0 == K_EQ && !a_const); SATGUARD(a.f0 == K_NE && a_const); SATGUARD(a.f0 == K_NE && !a_const);
  SATGUARD(a.f0 == K_LE && a_const); SATGUARD(a.f0 == K_LE && !a_const); SATGUARD(a.f0 == K_LT && a_const); SATGUARD(a.f0 == K_LT && !a_const); REACH; }

/* ---- rename(rho) of a constraint: the same kind, and it holds under a valuation val exactly when the original holds
 * under val o rho (the expression's rename is replaced by its contract: proved, BOUNDED, in PART 2) */
//@check id=lc_rename fn=_ZNK4ikos17linear_constraintINS_8z_numberE2VNE6renameI2RMEES3_RKT_ props=C20 replace=_ZNK4ikos17linear_expressionINS_8z_numberE2VNE6renameI2RMEES3_RKT_,_ZNSt10shared_ptrIN5boost9container8flat_mapIN4crab8variableIN4ikos8z_numberE2VNEES6_St4lessIS8_EvEEEC2ERKSC_,_ZNSt10shared_ptrIN5boost9container8flat_mapIN4crab8variableIN4ikos8z_numberE2VNEES6_St4lessIS8_EvEEED2Ev
void LCK(6renameI2RMEES3_RKT_)(LC *ret, LC *self, struct S_struct_RM *map)
__CPROVER_requires(FRESH(lc_rename, ret, sizeof(LC)) && FRESH(lc_rename, self, sizeof(LC)) && FRESH(lc_rename, map, sizeof(struct S_struct_RM)) && lc_ok(self))
__CPROVER_assigns(*ret)
__CPROVER_ensures(lc_okz(ret, 2 * ZB) && ret->f0 == self->f0)
__CPROVER_ensures(LC_HOLDS(ret) == k_holds(self->f0, fm_eval_renamed(EMAP(&self->f1)) + LE_CST(&self->f1)));
#ifndef LINCST_CONCRETE
void h_lc_rename(void){ INLC(a); IN(struct S_struct_RM, rm); LC r; LCK(6renameI2RMEES3_RKT_)(&r, &a, &rm); REACH; }
#endif

/* ---- SUPPORTING LEMMA for linear_constraint_system::normalize ("replace pairs e <= 0 and -e <= 0 with e == 0";
 * for a single negative term it emits -e == 0).  normalize itself (std::vector / unordered_set / unordered_map code)
 * is NOT verified; what is checked here, on the real constructor and the contract of operator-(), is the semantic
 * step it relies on:  (e <= 0 and -e <= 0)  <=>  e == 0  <=>  -e == 0  under every valuation. */
//@check id=norm_pair fn=_ZNK4ikos17linear_constraintINS_8z_numberE2VNE11is_equalityEv tag=is_equality props=C20 replace=_ZNK4ikos17linear_expressionINS_8z_numberE2VNEngEv,_ZNSt10shared_ptrIN5boost9container8flat_mapIN4crab8variableIN4ikos8z_numberE2VNEES6_St4lessIS8_EvEEEC2ERKSC_
#ifndef LINCST_CONCRETE
void h_norm_pair(void){ IN(LE, e); RECORD(i128, e_E, LE_E(&e)); RECORD(unsigned char, e_const, LE_CONST(&e) ? 1 : 0);
  LE ne; LC c1, c2, q1, q2;
  if (!le_ok(&e)) return;
  LEK(ngEv)(&ne, &e);
  LCN(C2ERKNS_17linear_expressionIS1_S2_EENS3_6kind_tE)(&c1, &e, K_LE); LCN(C2ERKNS_17linear_expressionIS1_S2_EENS3_6kind_tE)(&c2, &ne, K_LE);
  LCN(C2ERKNS_17linear_expressionIS1_S2_EENS3_6kind_tE)(&q1, &e, K_EQ); LCN(C2ERKNS_17linear_expressionIS1_S2_EENS3_6kind_tE)(&q2, &ne, K_EQ);
  __CPROVER_assert((LC_HOLDS(&c1) && LC_HOLDS(&c2)) == LC_HOLDS(&q1), "e <= 0 and -e <= 0 iff e == 0");
  __CPROVER_assert(LC_HOLDS(&q1) == LC_HOLDS(&q2), "e == 0 iff -e == 0");
  __CPROVER_assert(LCK(11is_equalityEv)(&q1) == 1, "the replacement is an equality");   /* (the one call of the function this check enforces) */
  SATGUARD(LC_HOLDS(&q1) && !LE_CONST(&e)); SATGUARD(!LC_HOLDS(&q1) && LC_HOLDS(&c1)); REACH; }
#endif

/* ===================== PART 2: linear_expression ===================== */
/* ---- 2a. members that do not look at the terms: ABSTRACT reading, unbounded (the map is only passed on) */
#define SP_COPY_DTOR _ZNSt10shared_ptrIN5boost9container8flat_mapIN4crab8variableIN4ikos8z_numberE2VNEES6_St4lessIS8_EvEEEC2ERKSC_,_ZNSt10shared_ptrIN5boost9container8flat_mapIN4crab8variableIN4ikos8z_numberE2VNEES6_St4lessIS8_EvEEED2Ev
/* constant() */
//@check id=le_constant fn=_ZNK4ikos17linear_expressionINS_8z_numberE2VNE8constantEv props=C20
void LEK(8constantEv)(Z *ret, LE *self)
__CPROVER_requires(FRESH(le_constant, ret, sizeof(Z)) && FRESH(le_constant, self, sizeof(LE)) && le_ok_any(self))
__CPROVER_assigns(*ret)
__CPROVER_ensures(ZV(ret) == LE_CST(self));
#ifndef LINCST_CONCRETE
void h_le_constant(void){ IN(LE, a); Z r; LEK(8constantEv)(&r, &a); REACH; }
#endif
/* e + n, e - n (n a number or a machine integer): the SAME terms (the map is shared), the constant shifted:
 * value(e +- n) = value(e) +- n under every valuation */
#define SHIFT_NUM(id, fn, SIGN) \
void fn(LE *ret, LE *self, Z *n) \
__CPROVER_requires(FRESH(id, ret, sizeof(LE)) && FRESH(id, self, sizeof(LE)) && FRESH(id, n, sizeof(Z)) && le_ok_any(self) && zin(ZV(n), ZB)) \
__CPROVER_assigns(*ret) \
__CPROVER_ensures(MAPP(*ret) == MAPP(*self) && LE_CST(ret) == LE_CST(self) SIGN ZV(n));
#define SHIFT_LONG(id, fn, SIGN) \
void fn(LE *ret, LE *self, uint64_t n) \
__CPROVER_requires(FRESH(id, ret, sizeof(LE)) && FRESH(id, self, sizeof(LE)) && le_ok_any(self) && zin((i128)(int64_t)n, ZB)) \
__CPROVER_assigns(*ret) \
__CPROVER_ensures(MAPP(*ret) == MAPP(*self) && LE_CST(ret) == LE_CST(self) SIGN (i128)(int64_t)n);
//@check id=le_add_num fn=_ZNK4ikos17linear_expressionINS_8z_numberE2VNEplES1_ props=C20 replace=_ZNSt10shared_ptrIN5boost9container8flat_mapIN4crab8variableIN4ikos8z_numberE2VNEES6_St4lessIS8_EvEEEC2ERKSC_,_ZNSt10shared_ptrIN5boost9container8flat_mapIN4crab8variableIN4ikos8z_numberE2VNEES6_St4lessIS8_EvEEED2Ev
SHIFT_NUM(le_add_num, LEK(plES1_), +)
//@check id=le_sub_num fn=_ZNK4ikos17linear_expressionINS_8z_numberE2VNEmiES1_ props=C20 replace=_ZNSt10shared_ptrIN5boost9container8flat_mapIN4crab8variableIN4ikos8z_numberE2VNEES6_St4lessIS8_EvEEEC2ERKSC_,_ZNSt10shared_ptrIN5boost9container8flat_mapIN4crab8variableIN4ikos8z_numberE2VNEES6_St4lessIS8_EvEEED2Ev
SHIFT_NUM(le_sub_num, LEK(miES1_), -)
//@check id=le_add_long fn=_ZNK4ikos17linear_expressionINS_8z_numberE2VNEplEl props=C20 replace=_ZNSt10shared_ptrIN5boost9container8flat_mapIN4crab8variableIN4ikos8z_numberE2VNEES6_St4lessIS8_EvEEEC2ERKSC_,_ZNSt10shared_ptrIN5boost9container8flat_mapIN4crab8variableIN4ikos8z_numberE2VNEES6_St4lessIS8_EvEEED2Ev
SHIFT_LONG(le_add_long, LEK(plEl), +)
//@check id=le_sub_long fn=_ZNK4ikos17linear_expressionINS_8z_numberE2VNEmiEl props=C20 replace=_ZNSt10shared_ptrIN5boost9container8flat_mapIN4crab8variableIN4ikos8z_numberE2VNEES6_St4lessIS8_EvEEEC2ERKSC_,_ZNSt10shared_ptrIN5boost9container8flat_mapIN4crab8variableIN4ikos8z_numberE2VNEES6_St4lessIS8_EvEEED2Ev
SHIFT_LONG(le_sub_long, LEK(miEl), -)
#ifndef LINCST_CONCRETE
void h_le_add_num(void){ IN(LE, a); IN(Z, n); LE r; LEK(plES1_)(&r, &a, &n); REACH; }
void h_le_sub_num(void){ IN(LE, a); IN(Z, n); LE r; LEK(miES1_)(&r, &a, &n); REACH; }
void h_le_add_long(void){ IN(LE, a); GHOST(uint64_t, n); LE r; LEK(plEl)(&r, &a, n); REACH; }
void h_le_sub_long(void){ IN(LE, a); GHOST(uint64_t, n); LE r; LEK(miEl)(&r, &a, n); REACH; }
#endif
/* constant expressions: linear_expression(), (Number), (int64_t): no term, the given constant */
//@check id=le_ctor0 fn=_ZN4ikos17linear_expressionINS_8z_numberE2VNEC2Ev props=C20 replace=_ZSt11make_sharedIN5boost9container8flat_mapIN4crab8variableIN4ikos8z_numberE2VNEES6_St4lessIS8_EvEEJEESt10shared_ptrINSt9enable_ifIXntsr8is_arrayIT_EE5valueESE_E4typeEEDpOT0_
void LEN(C2Ev)(LE *self)
__CPROVER_requires(FRESH(le_ctor0, self, sizeof(LE)))
__CPROVER_assigns(*self)
__CPROVER_ensures(LE_CONST(self) && LE_E(self) == 0 && LE_CST(self) == 0);
//@check id=le_ctor_num fn=_ZN4ikos17linear_expressionINS_8z_numberE2VNEC2ES1_ props=C20 replace=_ZSt11make_sharedIN5boost9container8flat_mapIN4crab8variableIN4ikos8z_numberE2VNEES6_St4lessIS8_EvEEJEESt10shared_ptrINSt9enable_ifIXntsr8is_arrayIT_EE5valueESE_E4typeEEDpOT0_
void LEN(C2ES1_)(LE *self, Z *n)
__CPROVER_requires(FRESH(le_ctor_num, self, sizeof(LE)) && FRESH(le_ctor_num, n, sizeof(Z)) && zin(ZV(n), ZB))
__CPROVER_assigns(*self)
__CPROVER_ensures(LE_CONST(self) && LE_E(self) == 0 && LE_CST(self) == ZV(n));
//@check id=le_ctor_long fn=_ZN4ikos17linear_expressionINS_8z_numberE2VNEC2El props=C20 replace=_ZSt11make_sharedIN5boost9container8flat_mapIN4crab8variableIN4ikos8z_numberE2VNEES6_St4lessIS8_EvEEJEESt10shared_ptrINSt9enable_ifIXntsr8is_arrayIT_EE5valueESE_E4typeEEDpOT0_
void LEN(C2El)(LE *self, uint64_t n)
__CPROVER_requires(FRESH(le_ctor_long, self, sizeof(LE)))
__CPROVER_assigns(*self)
__CPROVER_ensures(LE_CONST(self) && LE_E(self) == 0 && LE_CST(self) == (i128)(int64_t)n);
#ifndef LINCST_CONCRETE
void h_le_ctor0(void){ LE r; LEN(C2Ev)(&r); REACH; }
void h_le_ctor_num(void){ IN(Z, n); LE r; LEN(C2ES1_)(&r, &n); REACH; }
void h_le_ctor_long(void){ GHOST(uint64_t, n); LE r; LEN(C2El)(&r, n); REACH; }
#endif

/* ---- 2b. members that work on the terms: CONCRETE reading.
 * Trusted: the reference sorted-array model of the four Boost entry points and the shared_ptr plumbing
 * (units/lincst/lemodel.c).  PROVED: the real linear_expression code on top of them. */
#ifdef LINCST_CONCRETE
/* harness input: an expression together with its own map object and term storage (capacity CAPT) */
#define CAPT 4
struct lein { LE e; FM m; PR t[CAPT]; };
#define VALREC(A) RECORD(i128, A##_v0, FM_VAL(&A.m, 0)); RECORD(i128, A##_v1, FM_VAL(&A.m, 1))
/* v-table pointers are ASSIGNED (the checker resolves a virtual call only through a pointer it has seen assigned) */
#define FIXVAR(v) ((v)->f0.f0 = VT_VAR, (v)->f1.f0.f0 = VT_VN)
#define INLE(A) IN(struct lein, A); A.e.f0.f0.f0 = &A.m; FM_START(&A.m) = A.t; FM_CAP(&A.m) = CAPT; \
  FIXVAR(&A.t[0].f0); FIXVAR(&A.t[1].f0); FIXVAR(&A.t[2].f0); FIXVAR(&A.t[3].f0); VALREC(A)
#define INVAR(x) IN(VAR, x); FIXVAR(&x)
#define HG GHOSTG(uint64_t, g_v)

/* thorough tier: one run per pair of operand sizes (vary=SZ: SZ = (NT + 1) * size(e1) + size(e2)); the harness ASSIGNS the
 * sizes so that the checker sees them as constants; the union of the runs is "at most NT terms per operand" */
#ifdef SZ
#define SZFIX(A, B) FM_SIZE(&A.m) = (SZ) / (NT + 1); wit_##A.m.f0.f0.f0.f0.f1 = (SZ) / (NT + 1); FM_SIZE(&B.m) = (SZ) % (NT + 1); wit_##B.m.f0.f0.f0.f0.f1 = (SZ) % (NT + 1)
#define SZFULL(A, B) 1
#else
#define SZFIX(A, B)
#define SZFULL(A, B) (FM_SIZE(&A.m) == NT && FM_SIZE(&B.m) == NT)
#endif
#ifdef SZ1
#define SZFIX1(A) FM_SIZE(&A.m) = (SZ1); wit_##A.m.f0.f0.f0.f0.f1 = (SZ1)
#define SZFULL1(A) 1
#else
#define SZFIX1(A)
#define SZFULL1(A) (FM_SIZE(&A.m) == NT)
#endif
/* is_constant(), size(): any number of terms (they read the size field only) */
//@check id=le_is_constant fn=_ZNK4ikos17linear_expressionINS_8z_numberE2VNE11is_constantEv props=C20 defs=LINCST_CONCRETE
void h_le_is_constant(void){ IN(LE, e); IN(FM, m); e.f0.f0.f0 = &m; LEK(11is_constantEv)(&e); REACH; }
//@check id=le_size fn=_ZNK4ikos17linear_expressionINS_8z_numberE2VNE4sizeEv props=C20 defs=LINCST_CONCRETE
uint64_t LEK(4sizeEv)(LE *self)
__CPROVER_requires(FRESH(le_size, self, sizeof(LE)) && le_ok_any(self))
__CPROVER_assigns()
__CPROVER_ensures(__CPROVER_return_value == FM_SIZE(EMAP(self)));
void h_le_size(void){ IN(LE, e); IN(FM, m); e.f0.f0.f0 = &m; LEK(4sizeEv)(&e); REACH; }

/* operator[](x): the coefficient of x (0 when x does not occur) */
//@check id=le_index fn=_ZNK4ikos17linear_expressionINS_8z_numberE2VNEixERKN4crab8variableIS1_S2_EE props=C20 defs=LINCST_CONCRETE,NT=2 unwind=5 bounded="<=2 terms" timeout=600 first_timeout=400
void LEK(ixERKN4crab8variableIS1_S2_EE)(Z *ret, LE *self, VAR *x)
__CPROVER_requires(FRESH(le_index, ret, sizeof(Z)) && FRESH(le_index, self, sizeof(LE)) && FRESH(le_index, x, sizeof(VAR)) && le_ok(self) && var_ok(x))
__CPROVER_assigns(*ret)
__CPROVER_ensures(ZV(ret) == GET(self, VAR_IDX(x)));
void h_le_index(void){ INLE(A); INVAR(x); Z r; LEK(ixERKN4crab8variableIS1_S2_EE)(&r, &A.e, &x); REACH; }

/* unary minus (the contract the constraint layer uses) */
//@check id=le_neg fn=_ZNK4ikos17linear_expressionINS_8z_numberE2VNEngEv props=C20 defs=LINCST_CONCRETE,NT=2,NO_EVAL unwind=5 bounded="<=2 terms" timeout=900 first_timeout=600
//@check id=le_neg_eval fn=_ZNK4ikos17linear_expressionINS_8z_numberE2VNEngEv tag=le_neg harness=h_le_neg props=C20 defs=LINCST_CONCRETE,NT=1,ONLY_EVAL defs_thorough=LINCST_CONCRETE,NT=2,ONLY_EVAL unwind=3 unwind_thorough=5 vary_thorough=SZ1:0-2 bounded="<=1 term" bounded_thorough="<=2 terms" timeout=900 first_timeout=600 timeout_thorough=3600 first_timeout_thorough=3000
void h_le_neg(void){ INLE(A); SZFIX1(A); HG; LE r; LEK(ngEv)(&r, &A.e); SATGUARD(NEG_LEMMAS(&A.e) && SZFULL1(A)); REACH; }

/* (thorough tier, evaluation clauses, 2-term operands: the size pairs (1,2), (2,1) take about 10 minutes each and (2,2)
 * about an hour in the SAT back end; kissat first, minisat does not finish them) */
/* e1 + e2, e1 - e2: coefficient-wise sum / difference (at the ghost variable g_v, i.e. at every variable), constants
 * added / subtracted, a well-formed result (sorted, no zero coefficient), and the HOMOMORPHISM under the valuation:
 * value(e1 +- e2) = value(e1) +- value(e2), stated under the distributivity instances it needs */
#define LEBIN(id, fn, SIGN, LEMMAS) \
void fn(LE *ret, LE *self, LE *e) \
__CPROVER_requires(FRESH(id, ret, sizeof(LE)) && FRESH(id, self, sizeof(LE)) && FRESH(id, e, sizeof(LE)) && le_ok(self) && le_ok(e)) \
__CPROVER_assigns(*ret) \
__CPROVER_ensures(SP(le_oknz(ret, 2 * NT, 2 * ZB) && LE_CST(ret) == LE_CST(self) SIGN LE_CST(e))) \
__CPROVER_ensures(SP(GET(ret, g_v) == GET(self, g_v) SIGN GET(e, g_v))) \
__CPROVER_ensures(EP(!LEMMAS(EMAP(self), EMAP(e)) || LE_E(ret) == LE_E(self) SIGN LE_E(e))); \
void h_##id(void){ INLE(A); INLE(B); SZFIX(A, B); HG; LE r; fn(&r, &A.e, &B.e); \
  SATGUARD(LEMMAS(&A.m, &B.m) && SZFULL(A, B) && FM_IDX(&A.m, 0) == FM_IDX(&B.m, 0)); \
  SATGUARD(LEMMAS(&A.m, &B.m) && SZFULL(A, B) && FM_SIZE(MAPP(r)) == FM_SIZE(&A.m) + FM_SIZE(&B.m)); REACH; }
//@check id=le_add fn=_ZNK4ikos17linear_expressionINS_8z_numberE2VNEplERKS3_ props=C20 defs=LINCST_CONCRETE,NT=2,NO_EVAL unwind=5 bounded="<=2 terms per operand" timeout=900 first_timeout=600
//@check id=le_add_eval fn=_ZNK4ikos17linear_expressionINS_8z_numberE2VNEplERKS3_ tag=le_add harness=h_le_add props=C20 defs=LINCST_CONCRETE,NT=1,ONLY_EVAL defs_thorough=LINCST_CONCRETE,NT=2,ONLY_EVAL unwind=3 unwind_thorough=5 vary_thorough=SZ:0-8 backends_thorough=kissat,minisat bounded="<=1 term per operand" bounded_thorough="<=2 terms per operand" timeout=900 first_timeout=600 timeout_thorough=9000 first_timeout_thorough=7200 cost=9
LEBIN(le_add, LEK(plERKS3_), +, fm_add_lemmas)
//@check id=le_sub fn=_ZNK4ikos17linear_expressionINS_8z_numberE2VNEmiERKS3_ props=C20 defs=LINCST_CONCRETE,NT=2,NO_EVAL unwind=5 bounded="<=2 terms per operand" timeout=900 first_timeout=600
//@check id=le_sub_eval fn=_ZNK4ikos17linear_expressionINS_8z_numberE2VNEmiERKS3_ tag=le_sub harness=h_le_sub props=C20 defs=LINCST_CONCRETE,NT=1,ONLY_EVAL defs_thorough=LINCST_CONCRETE,NT=2,ONLY_EVAL unwind=3 unwind_thorough=5 vary_thorough=SZ:0-8 backends_thorough=kissat,minisat bounded="<=1 term per operand" bounded_thorough="<=2 terms per operand" timeout=900 first_timeout=600 timeout_thorough=9000 first_timeout_thorough=7200 cost=9
LEBIN(le_sub, LEK(miERKS3_), -, fm_sub_lemmas)
/* the same expression on both sides: e + e, e - e (= the constant 0: every term cancels) */
//@check id=le_sub_self fn=_ZNK4ikos17linear_expressionINS_8z_numberE2VNEmiERKS3_ tag=le_sub props=C20 defs=LINCST_CONCRETE,NT=2,NO_EVAL unwind=5 bounded="<=2 terms" timeout=900 first_timeout=600
void h_le_sub_self(void){ INLE(A); SZFIX1(A); HG; LE r; LEK(miERKS3_)(&r, &A.e, &A.e); __CPROVER_assert(FM_SIZE(MAPP(r)) == 0 && LE_CST(&r) == 0, "e - e is the constant 0"); REACH; }

/* n * e: coefficient-wise product, constant multiplied, well-formed result, value(n * e) = n * value(e) */
#define SCALE_POST(N) \
__CPROVER_ensures(SP(le_oknz(ret, NT, ZLIM) && LE_CST(ret) == lmul(N, LE_CST(self)))) \
__CPROVER_ensures(SP(GET(ret, g_v) == lmul(N, GET(self, g_v)))) \
__CPROVER_ensures(EP(!fm_scale_lemmas(EMAP(self), N) || LE_E(ret) == lmul(N, LE_E(self))))
//@check id=le_scale fn=_ZNK4ikos17linear_expressionINS_8z_numberE2VNEmlES1_ props=C20 defs=LINCST_CONCRETE,NT=2,NO_EVAL unwind=5 bounded="<=2 terms" timeout=900 first_timeout=600
//@check id=le_scale_eval fn=_ZNK4ikos17linear_expressionINS_8z_numberE2VNEmlES1_ tag=le_scale harness=h_le_scale props=C20 defs=LINCST_CONCRETE,NT=1,ONLY_EVAL defs_thorough=LINCST_CONCRETE,NT=2,ONLY_EVAL unwind=3 unwind_thorough=5 vary_thorough=SZ1:0-2 bounded="<=1 term" bounded_thorough="<=2 terms" timeout=900 first_timeout=600 timeout_thorough=3600 first_timeout_thorough=3000
void LEK(mlES1_)(LE *ret, LE *self, Z *n)
__CPROVER_requires(FRESH(le_scale, ret, sizeof(LE)) && FRESH(le_scale, self, sizeof(LE)) && FRESH(le_scale, n, sizeof(Z)) && le_ok(self) && zin(ZV(n), ZB))
__CPROVER_assigns(*ret)
SCALE_POST(ZV(n));
void h_le_scale(void){ INLE(A); SZFIX1(A); IN(Z, n); HG; LE r; LEK(mlES1_)(&r, &A.e, &n);
  SATGUARD(fm_scale_lemmas(&A.m, ZV(&n)) && SZFULL1(A) && ZV(&n) > 1); SATGUARD(ZV(&n) == 0); REACH; }
//@check id=le_scale_long fn=_ZNK4ikos17linear_expressionINS_8z_numberE2VNEmlEl props=C20 defs=LINCST_CONCRETE,NT=2,NO_EVAL unwind=5 bounded="<=2 terms" timeout=900 first_timeout=600
//@check id=le_scale_long_eval fn=_ZNK4ikos17linear_expressionINS_8z_numberE2VNEmlEl tag=le_scale_long harness=h_le_scale_long props=C20 defs=LINCST_CONCRETE,NT=1,ONLY_EVAL defs_thorough=LINCST_CONCRETE,NT=2,ONLY_EVAL unwind=3 unwind_thorough=5 vary_thorough=SZ1:0-2 bounded="<=1 term" bounded_thorough="<=2 terms" timeout=900 first_timeout=600 timeout_thorough=3600 first_timeout_thorough=3000
void LEK(mlEl)(LE *ret, LE *self, uint64_t n)
__CPROVER_requires(FRESH(le_scale_long, ret, sizeof(LE)) && FRESH(le_scale_long, self, sizeof(LE)) && le_ok(self) && zin((i128)(int64_t)n, ZB))
__CPROVER_assigns(*ret)
SCALE_POST((i128)(int64_t)n);
void h_le_scale_long(void){ INLE(A); SZFIX1(A); GHOST(uint64_t, n); HG; LE r; LEK(mlEl)(&r, &A.e, n);
  SATGUARD(fm_scale_lemmas(&A.m, (i128)(int64_t)n) && SZFULL1(A) && (int64_t)n < -1); REACH; }

/* e + x, e - x for a variable x */
#define LEVAR(id, fn, K) \
void fn(LE *ret, LE *self, VAR *x) \
__CPROVER_requires(FRESH(id, ret, sizeof(LE)) && FRESH(id, self, sizeof(LE)) && FRESH(id, x, sizeof(VAR)) && le_ok(self) && var_ok(x)) \
__CPROVER_assigns(*ret) \
__CPROVER_ensures(SP(le_oknz(ret, NT + 1, 2 * ZB) && LE_CST(ret) == LE_CST(self))) \
__CPROVER_ensures(SP(GET(ret, g_v) == GET(self, g_v) + (g_v == VAR_IDX(x) ? (K) : 0))) \
__CPROVER_ensures(EP(!fm_addvar_lemmas(EMAP(self), VAR_IDX(x), K) || LE_E(ret) == LE_E(self) + (K) * VAL(VAR_IDX(x)))); \
void h_##id(void){ INLE(A); SZFIX1(A); INVAR(x); RECORD(i128, x_v, VAL(VAR_IDX(&x))); HG; LE r; fn(&r, &A.e, &x); \
  SATGUARD(fm_addvar_lemmas(&A.m, VAR_IDX(&x), K) && SZFULL1(A) && FM_IDX(&A.m, NT - 1) == VAR_IDX(&x)); SATGUARD(SZFULL1(A) && FM_SIZE(MAPP(r)) == FM_SIZE(&A.m) + 1); REACH; }
//@check id=le_add_var fn=_ZNK4ikos17linear_expressionINS_8z_numberE2VNEplEN4crab8variableIS1_S2_EE props=C20 defs=LINCST_CONCRETE,NT=2,NO_EVAL unwind=5 bounded="<=2 terms" timeout=900 first_timeout=600
//@check id=le_add_var_eval fn=_ZNK4ikos17linear_expressionINS_8z_numberE2VNEplEN4crab8variableIS1_S2_EE tag=le_add_var harness=h_le_add_var props=C20 defs=LINCST_CONCRETE,NT=1,ONLY_EVAL defs_thorough=LINCST_CONCRETE,NT=2,ONLY_EVAL unwind=3 unwind_thorough=5 vary_thorough=SZ1:0-2 bounded="<=1 term" bounded_thorough="<=2 terms" timeout=900 first_timeout=600 timeout_thorough=3600 first_timeout_thorough=3000
LEVAR(le_add_var, LEK(plEN4crab8variableIS1_S2_EE), 1)
//@check id=le_sub_var fn=_ZNK4ikos17linear_expressionINS_8z_numberE2VNEmiEN4crab8variableIS1_S2_EE props=C20 defs=LINCST_CONCRETE,NT=2,NO_EVAL unwind=5 bounded="<=2 terms" timeout=900 first_timeout=600
//@check id=le_sub_var_eval fn=_ZNK4ikos17linear_expressionINS_8z_numberE2VNEmiEN4crab8variableIS1_S2_EE tag=le_sub_var harness=h_le_sub_var props=C20 defs=LINCST_CONCRETE,NT=1,ONLY_EVAL defs_thorough=LINCST_CONCRETE,NT=2,ONLY_EVAL unwind=3 unwind_thorough=5 vary_thorough=SZ1:0-2 backends_thorough=kissat,minisat bounded="<=1 term" bounded_thorough="<=2 terms" timeout=900 first_timeout=600 timeout_thorough=3600 first_timeout_thorough=3000
LEVAR(le_sub_var, LEK(miEN4crab8variableIS1_S2_EE), -1)

/* the expressions  x  and  n * x */
//@check id=le_ctor_var fn=_ZN4ikos17linear_expressionINS_8z_numberE2VNEC2EN4crab8variableIS1_S2_EE props=C20 defs=LINCST_CONCRETE,NT=1 unwind=3
void LEN(C2EN4crab8variableIS1_S2_EE)(LE *self, VAR *x)
__CPROVER_requires(FRESH(le_ctor_var, self, sizeof(LE)) && FRESH(le_ctor_var, x, sizeof(VAR)) && var_ok(x))
__CPROVER_assigns(*self)
__CPROVER_ensures(le_oknz(self, 1, ZB) && LE_CST(self) == 0 && GET(self, g_v) == (g_v == VAR_IDX(x) ? 1 : 0) && LE_E(self) == VAL(VAR_IDX(x)));
void h_le_ctor_var(void){ INVAR(x); HG; LE r; LEN(C2EN4crab8variableIS1_S2_EE)(&r, &x); REACH; }
/* n * x: in particular NO term when n == 0 (representation invariant: no zero coefficient, so that is_constant() and
 * with it is_tautology() / is_contradiction() see a constant expression as constant) */
//@check id=le_ctor_num_var fn=_ZN4ikos17linear_expressionINS_8z_numberE2VNEC2ES1_N4crab8variableIS1_S2_EE props=C20 defs=LINCST_CONCRETE,NT=1 unwind=3
void LEN(C2ES1_N4crab8variableIS1_S2_EE)(LE *self, Z *n, VAR *x)
__CPROVER_requires(FRESH(le_ctor_num_var, self, sizeof(LE)) && FRESH(le_ctor_num_var, n, sizeof(Z)) && FRESH(le_ctor_num_var, x, sizeof(VAR)) && var_ok(x) && zin(ZV(n), ZB))
__CPROVER_assigns(*self)
__CPROVER_ensures(LE_CST(self) == 0 && GET(self, g_v) == (g_v == VAR_IDX(x) ? ZV(n) : 0) && LE_E(self) == lmul(ZV(n), VAL(VAR_IDX(x))))
__CPROVER_ensures(le_oknz(self, 1, ZB));
void h_le_ctor_num_var(void){ IN(Z, n); INVAR(x); HG; LE r; LEN(C2ES1_N4crab8variableIS1_S2_EE)(&r, &n, &x); REACH; }

/* rename(rho) for an ARBITRARY renaming map rho (opaque type RM, units/lincst/force.cpp): the constant is kept, the
 * coefficient of x in the result is the sum of the coefficients of the variables renamed to x, the result is well
 * formed, and value(rename(e, rho)) under val = value(e) under val o rho */
#if NT <= 2
//@check id=le_rename_q fn=_ZNK4ikos17linear_expressionINS_8z_numberE2VNE6renameI2RMEES3_RKT_ tag=le_rename harness=h_le_rename props=C20 defs=LINCST_CONCRETE,NT=1 vary=SZ1:0-1 unwind=3 mem=8 cost=5 bounded="<=1 term" timeout=600 first_timeout=400
//@check id=le_rename fn=_ZNK4ikos17linear_expressionINS_8z_numberE2VNE6renameI2RMEES3_RKT_ props=C20 tier=thorough defs=LINCST_CONCRETE,NT=2,NO_EVAL vary=SZ1:0-2 unwind=5 cost=9 mem=14 bounded="<=2 terms" timeout=900 first_timeout=600
//@check id=le_rename_eval fn=_ZNK4ikos17linear_expressionINS_8z_numberE2VNE6renameI2RMEES3_RKT_ tag=le_rename harness=h_le_rename props=C20 tier=thorough defs=LINCST_CONCRETE,NT=1,ONLY_EVAL defs_thorough=LINCST_CONCRETE,NT=2,ONLY_EVAL unwind=3 unwind_thorough=5 vary_thorough=SZ1:0-1 bounded="<=1 term" bounded_thorough="<=1 term" timeout=900 first_timeout=600 timeout_thorough=3600 first_timeout_thorough=3000
#define RHOREC(A, i) RECORD(unsigned char, A##_rh##i, RHO_HAS(FM_IDX(&A.m, i)) ? 1 : 0); RECORD(uint64_t, A##_r##i, RHO(FM_IDX(&A.m, i))); RECORD(i128, A##_rv##i, VAL(FM_RIDX(&A.m, i)))
void h_le_rename(void){ INLE(A); SZFIX1(A); RHOREC(A, 0); RHOREC(A, 1); IN(struct S_struct_RM, rm); HG; LE r; LEK(6renameI2RMEES3_RKT_)(&r, &A.e, &rm);
  SATGUARD(fm_rename_lemmas(&A.m) && SZFULL1(A) && RHO_HAS(FM_IDX(&A.m, 0)) && FM_SIZE(MAPP(r)) == FM_SIZE(&A.m));
#if NT >= 2 && (!defined(SZ1) || SZ1 == 2)
  SATGUARD(fm_rename_lemmas(&A.m) && FM_SIZE(&A.m) == 2 && FM_SIZE(MAPP(r)) == 1); SATGUARD(FM_SIZE(&A.m) == 2 && FM_SIZE(MAPP(r)) == 0);
#endif
  REACH; }
#endif

/* equal(): syntactic equality (same constant, same terms); equal expressions have the same value */
//@check id=le_equal fn=_ZNK4ikos17linear_expressionINS_8z_numberE2VNE5equalERKS3_ props=C20 defs=LINCST_CONCRETE,NT=2 unwind=5 bounded="<=2 terms per operand" timeout=600 first_timeout=400
unsigned char LEK(5equalERKS3_)(LE *self, LE *o)
__CPROVER_requires(FRESH(le_equal, self, sizeof(LE)) && FRESH(le_equal, o, sizeof(LE)) && le_ok(self) && le_ok(o))
__CPROVER_assigns()
__CPROVER_ensures((__CPROVER_return_value != 0) == (LE_CST(self) == LE_CST(o) && fm_same(EMAP(self), EMAP(o))))
__CPROVER_ensures(TOP(le_equal, __CPROVER_return_value == 0 || GET(self, g_v) == GET(o, g_v)))
__CPROVER_ensures(TOP(le_equal, __CPROVER_return_value == 0 || !(fm_range_lemmas(EMAP(self)) && fm_range_lemmas(EMAP(o))) || LE_E(self) == LE_E(o)));
void h_le_equal(void){ INLE(A); INLE(B); HG; unsigned char r = LEK(5equalERKS3_)(&A.e, &B.e); SATGUARD(r && FM_SIZE(&A.m) == NT && fm_range_lemmas(&A.m) && fm_range_lemmas(&B.m)); SATGUARD(!r && FM_SIZE(&A.m) == NT && FM_SIZE(&B.m) == NT); REACH; }
#endif

/* ===================== PART 3: linear_constraint_system ===================== */
/* A system is the CONJUNCTION of its constraints.  CONCRETE reading, BOUNDED: at most NC constraints of at most NT terms
 * each.  The real code of linear_constraint_system runs on the real std::vector accessors / std::any_of and on the
 * reference models of units/lincst/sysmodel.c (hash containers searched with the REAL linear_expression_equal,
 * vector::push_back); linear_expression::operator-(), equal, size, begin, the constructors etc. are the real code on the
 * flat_map model of lemodel.c.  The valuation is the uninterpreted VAL of spec.h, so every postcondition below is "for
 * every valuation". */
#define SYSK(x) _ZNK4ikos24linear_constraint_systemINS_8z_numberE2VNE##x
#define SYSN(x) _ZN4ikos24linear_constraint_systemINS_8z_numberE2VNE##x
#ifdef LINCST_CONCRETE
/* harness input: a system S_s with its constraint array S_c (one spare slot for operator+=) and, per constraint, its map
 * object S_m<i> and term storage S_t<i> (NT terms: input maps are never inserted into).  These are SEPARATE objects and
 * the number of constraints is fixed per run (vary=SYSN_FIX:0-NC; the union of the runs is "at most NC constraints"), so
 * that the checker sees constant offsets. */
#define NCAP (NC + 1)
struct lcarr { LC a[NCAP]; };
struct trarr { PR a[NT]; };
#if NT >= 2
#define SYSFIXV(S, i) FIXVAR(&S##_t##i.a[0].f0); FIXVAR(&S##_t##i.a[1].f0); RECORD(i128, S##_v##i##1, FM_VAL(&S##_m##i, 1))
#else
#define SYSFIXV(S, i) FIXVAR(&S##_t##i.a[0].f0)
#endif
#define SYSWIRE(S, i) IN(FM, S##_m##i); IN(struct trarr, S##_t##i); S##_c.a[i].f1.f0.f0.f0 = &S##_m##i; FM_START(&S##_m##i) = S##_t##i.a; FM_CAP(&S##_m##i) = NT; \
  SYSFIXV(S, i); RECORD(i128, S##_v##i##0, FM_VAL(&S##_m##i, 0))
#if NC >= 3
#define SYSWIRE3(S) SYSWIRE(S, 2)
#else
#define SYSWIRE3(S)
#endif
#ifndef SYSN_FIX
#define SYSN_FIX NC
#endif
#define INSYS(S, n) IN(SYS, S##_s); IN(struct lcarr, S##_c); const uint64_t n = (SYSN_FIX); static uint64_t wit_##n; wit_##n = n; SYSWIRE(S, 0); SYSWIRE(S, 1); SYSWIRE3(S); \
  SYS_B(&S##_s) = S##_c.a; SYS_E(&S##_s) = S##_c.a + (SYSN_FIX); SYS_C(&S##_s) = S##_c.a + NCAP

/* ---- operator+=(constraint): FUNCTIONAL contract (it stands for the calls in normalize): the constraint is appended
 * (a copy sharing the term map) unless one of the constraints is syntactically equal to it; the other constraints, and
 * the buffer when there is one, are kept.  SEMANTICS (enforced instance only; g_pre = the conjunction held before): the
 * new system holds iff the old one and the added constraint hold. */
unsigned char g_pre;
#ifndef SYS_CAP
#define SYS_CAP 4
#endif
#define SYS_ROOM(s) (SYS_B(s) == 0 ? SYS_E(s) == 0 : (SYS_E(s) != SYS_C(s) && __CPROVER_rw_ok(SYS_B(s), (SYS_N(s) + 1) * sizeof(LC))))
#define OLD_B __CPROVER_old(SYS_B(self))
#define OLD_N (__CPROVER_old(SYS_B(self)) == 0 ? (uint64_t)0 : (uint64_t)(__CPROVER_old(SYS_E(self)) - __CPROVER_old(SYS_B(self))))
//@check id=sys_add fn=_ZN4ikos24linear_constraint_systemINS_8z_numberE2VNEpLERKNS_17linear_constraintIS1_S2_EE props=C20 defs=LINCST_CONCRETE,NT=1,NC=2 replace=_ZNK4ikos17linear_expressionINS_8z_numberE2VNE5equalERKS3_ vary=SYSN_FIX:0-2 unwind=4 cbmc=--unwindset,_ZSt9__find_ifIN9__gnu_cxx17__normal_iteratorIPN4ikos17linear_constraintINS2_8z_numberE2VNEESt6vectorIS6_SaIS6_EEEENS0_5__ops10_Iter_predIZNS2_24linear_constraint_systemIS4_S5_EpLERKS6_EUlSH_E_EEET_SK_SK_T0_St26random_access_iterator_tag.0:1 bounded="<=2 constraints of <=1 term" timeout=600 first_timeout=400
SYS *SYSN(pLERKNS_17linear_constraintIS1_S2_EE)(SYS *self, LC *c)
__CPROVER_requires(FRESH(sys_add, self, sizeof(SYS)) && FRESH(sys_add, c, sizeof(LC)) && sys_ok(self) && lc_ok(c) && SYS_ROOM(self))
__CPROVER_requires(TOP(sys_add, g_pre == ((sys_range_lemmas(self) && sys_holds(self)) ? 1 : 0)))
__CPROVER_assigns(*self; SYS_B(self) != 0: *SYS_E(self))
__CPROVER_ensures(__CPROVER_return_value == self)
__CPROVER_ensures(OLD_B != 0 ? (SYS_B(self) == OLD_B && SYS_C(self) == __CPROVER_old(SYS_C(self))) : (__CPROVER_is_fresh(SYS_B(self), SYS_CAP * sizeof(LC)) && SYS_C(self) == SYS_B(self) + SYS_CAP))
__CPROVER_ensures(SYS_E(self) == SYS_B(self) + (OLD_N + (sys_find(self, OLD_N, c) ? 0 : 1)))
__CPROVER_ensures(SYS_N(self) == OLD_N || lc_copy(SYS_AT(self, OLD_N), c))
__CPROVER_ensures(TOP(sys_add, sys_okz(self, NC + 1, ZB)))
__CPROVER_ensures(TOP(sys_add, !(sys_range_lemmas(self) && fm_range_lemmas(MAPP(c->f1))) || sys_holds(self) == (g_pre != 0 && LC_HOLDS(c))));
void h_sys_add(void){ INSYS(S, n); IN(LC, c); IN(FM, c_m); IN(struct trarr, c_t); GHOST(unsigned char, nobuf); GHOSTG(unsigned char, g_pre);
  c.f1.f0.f0.f0 = &c_m; FM_START(&c_m) = c_t.a; FM_CAP(&c_m) = NT; FIXVAR(&c_t.a[0].f0); RECORD(i128, c_v0, FM_VAL(&c_m, 0));
#if NT >= 2
  FIXVAR(&c_t.a[1].f0); RECORD(i128, c_v1, FM_VAL(&c_m, 1));
#endif
#if SYSN_FIX == 0
  if (nobuf) { SYS_B(&S_s) = 0; SYS_E(&S_s) = 0; SYS_C(&S_s) = 0; }
#endif
  SYSN(pLERKNS_17linear_constraintIS1_S2_EE)(&S_s, &c);
#if SYSN_FIX >= 1
  SATGUARD(SYS_N(&S_s) == n && FM_SIZE(&c_m) == NT);    /* reachable: the constraint (with terms) is already there */
#else
  SATGUARD(nobuf); SATGUARD(!nobuf);
#endif
  SATGUARD(SYS_N(&S_s) == n + 1); REACH; }

/* ---- normalize(): the result has the SAME SOLUTION SET: under every valuation the conjunction of the constraints of the
 * result holds iff the conjunction of the constraints of the input holds; the result is well formed and has at most as
 * many constraints.  (Evaluation of the negated expressions normalize builds needs (-c) * v = -(c * v) per input term.) */
/* PARKED (not run in any tier; the line below is deliberately not a check line): with operator+=, operator-() and equal
 * replaced by their contracts the run for 0 constraints passes (20 s); the runs for 1 and 2 constraints (35 s / 340 s) end
 * with failed POINTER obligations inside the evaluation of the postcondition (spec.h var_ok reads FM_START(&S_m0) as
 * NULL + 96 although the trace shows it assigned S_t0.a and never written again): a checker / encoding artefact of the same
 * family as the one documented in lemodel.c at(), NOT a verdict about normalize.  With everything in line the symbolic
 * execution does not finish (> 25 min for <=2 constraints of <=1 term). */
//@check-parked id=sys_normalize fn=_ZNK4ikos24linear_constraint_systemINS_8z_numberE2VNE9normalizeEv props=C20 defs=LINCST_CONCRETE,NT=1,NC=2 replace=_ZNK4ikos17linear_expressionINS_8z_numberE2VNEngEv,_ZNK4ikos17linear_expressionINS_8z_numberE2VNE5equalERKS3_,_ZN4ikos24linear_constraint_systemINS_8z_numberE2VNEpLERKNS_17linear_constraintIS1_S2_EE vary=SYSN_FIX:0-2 unwind=4 bounded="<=2 constraints of <=1 term" timeout=900 first_timeout=600
void SYSK(9normalizeEv)(SYS *ret, SYS *self)
__CPROVER_requires(FRESH(sys_normalize, ret, sizeof(SYS)) && FRESH(sys_normalize, self, sizeof(SYS)) && sys_ok(self))
__CPROVER_assigns(*ret)
__CPROVER_ensures(sys_okz(ret, SYS_N(self), 2 * ZB))
__CPROVER_ensures(!sys_neg_lemmas(self) || sys_holds(ret) == sys_holds(self));
void h_sys_normalize(void){ INSYS(S, n); SYS r; SYSK(9normalizeEv)(&r, &S_s);
#if SYSN_FIX >= 2
  /* reachable: the pair e <= 0, -e <= 0 (with terms) merged into one equality; nothing merged */
  SATGUARD(sys_neg_lemmas(&S_s) && SYS_N(&r) == n - 1 && SYS_AT(&r, 0)->f0 == K_EQ && S_c.a[0].f0 == K_LE && S_c.a[1].f0 == K_LE && FM_SIZE(&S_m0) == NT);
  SATGUARD(sys_neg_lemmas(&S_s) && SYS_N(&r) == n && S_c.a[0].f0 == K_LE && S_c.a[1].f0 == K_LE && FM_SIZE(&S_m0) == NT && FM_SIZE(&S_m1) == NT);
#endif
  REACH; }

/* ---- is_false(): a yes is never wrong (the conjunction then fails under every valuation) and the test is exact for
 * systems of constant constraints; is_true(): a yes is never wrong */
//@check id=sys_is_false fn=_ZNK4ikos24linear_constraint_systemINS_8z_numberE2VNE8is_falseEv props=C20 defs=LINCST_CONCRETE,NT=1,NC=2 vary=SYSN_FIX:0-2 unwind=5 bounded="<=2 constraints of <=1 term" timeout=600 first_timeout=400
unsigned char SYSK(8is_falseEv)(SYS *self)
__CPROVER_requires(FRESH(sys_is_false, self, sizeof(SYS)) && sys_ok(self))
__CPROVER_assigns()
__CPROVER_ensures(__CPROVER_return_value <= 1)
__CPROVER_ensures(!sys_range_lemmas(self) || __CPROVER_return_value == 0 || !sys_holds(self))
__CPROVER_ensures(!sys_all_const(self) || (__CPROVER_return_value != 0) == !sys_holds(self));
void h_sys_is_false(void){ INSYS(S, n); unsigned char r = SYSK(8is_falseEv)(&S_s);
#if SYSN_FIX >= 1
  SATGUARD(r && FM_SIZE(&S_m0) == 0); SATGUARD(!r && sys_all_const(&S_s)); SATGUARD(!r && FM_SIZE(&S_m0) == NT);
#endif
  REACH; }
//@check id=sys_is_true fn=_ZNK4ikos24linear_constraint_systemINS_8z_numberE2VNE7is_trueEv props=C20 defs=LINCST_CONCRETE,NT=1,NC=2 vary=SYSN_FIX:0-2 unwind=5 bounded="<=2 constraints of <=1 term" timeout=600 first_timeout=400
unsigned char SYSK(7is_trueEv)(SYS *self)
__CPROVER_requires(FRESH(sys_is_true, self, sizeof(SYS)) && sys_ok(self))
__CPROVER_assigns()
__CPROVER_ensures(__CPROVER_return_value <= 1)
__CPROVER_ensures(!sys_range_lemmas(self) || __CPROVER_return_value == 0 || sys_holds(self));
void h_sys_is_true(void){ INSYS(S, n); unsigned char r = SYSK(7is_trueEv)(&S_s); SATGUARD(r == (n == 0)); REACH; }
#endif
