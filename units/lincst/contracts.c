/* Contracts for ikos::linear_constraint<z_number,VN> and ikos::linear_expression<z_number,VN>
 * (include/crab/types/linear_constraints.hpp) -- property C20.
 *
 * PART 1 (constraint layer, unbounded): the real linear_constraint code is proved against the meaning
 * "E(map) + _cst {==,!=,<=,<} 0" with E an arbitrary (uninterpreted) function of the map, i.e. for every
 * valuation and every expression; the few linear_expression members it calls that touch the term container are
 * replaced by their contracts (PART 0), everything else of linear_expression (copy, e + n, e - n, constant())
 * runs in line. */
#include "spec.h"
#define LCK(x) _ZNK4ikos17linear_constraintINS_8z_numberE2VNE##x
#define LCN(x) _ZN4ikos17linear_constraintINS_8z_numberE2VNE##x
#define LEK(x) _ZNK4ikos17linear_expressionINS_8z_numberE2VNE##x
#define LEN(x) _ZN4ikos17linear_expressionINS_8z_numberE2VNE##x
#define SPN(x) _ZNSt10shared_ptrIN5boost9container8flat_mapIN4crab8variableIN4ikos8z_numberE2VNEES6_St4lessIS8_EvEEE##x
#define MAKE_SHARED _ZSt11make_sharedIN5boost9container8flat_mapIN4crab8variableIN4ikos8z_numberE2VNEES6_St4lessIS8_EvEEJEESt10shared_ptrINSt9enable_ifIXntsr8is_arrayIT_EE5valueESE_E4typeEEDpOT0_

#ifdef LINCST_CONCRETE
uint64_t g_v;     /* ghost variable index at which coefficient-wise facts are instantiated: arbitrary, never assigned */
#define COEFWISE_NEG(r, a) (FM_SIZE(MAPP(*(r))) == FM_SIZE(MAPP(*(a))) && fm_get(MAPP(*(r)), g_v) == -fm_get(MAPP(*(a)), g_v))
#else
#define COEFWISE_NEG(r, a) 1
#endif
/* ===================== PART 0: callee contracts on the term container ===================== */
/* ASSUMED (shared_ptr ownership plumbing, never enforced): copying a shared_ptr passes the same map on,
 * destroying one changes no map, make_shared<map_t>() yields a new, empty map. */
void SPN(C2ERKSC_)(SPT *self, SPT *o)
__CPROVER_requires(FRESH(sp_copy, self, sizeof(SPT)) && FRESH(sp_copy, o, sizeof(SPT)))
__CPROVER_assigns(*self)
__CPROVER_ensures(self->f0.f0 == o->f0.f0);
void SPN(D2Ev)(SPT *self)
__CPROVER_requires(FRESH(sp_dtor, self, sizeof(SPT)))
__CPROVER_assigns()
__CPROVER_ensures(1);
void MAKE_SHARED(SPT *ret)
__CPROVER_requires(FRESH(sp_make, ret, sizeof(SPT)))
__CPROVER_assigns(*ret)
__CPROVER_ensures(__CPROVER_is_fresh(ret->f0.f0, sizeof(FM)) && FM_SIZE(ret->f0.f0) == 0 && FM_CAP(ret->f0.f0) == 0 && FM_START(ret->f0.f0) == 0)
__CPROVER_ensures(MAP_CONST(ret->f0.f0) && MAP_E(ret->f0.f0) == 0);

/* is_constant(): the expression has no term (then its variable part is 0 under every valuation: built into MAP_E) */
unsigned char LEK(11is_constantEv)(LE *self)
__CPROVER_requires(FRESH(le_is_constant, self, sizeof(LE)) && le_ok(self))
__CPROVER_assigns()
__CPROVER_ensures(__CPROVER_return_value == (LE_CONST(self) ? 1 : 0));
/* unary minus: negates the variable part and the constant */
void LEK(ngEv)(LE *ret, LE *self)
__CPROVER_requires(FRESH(le_neg, ret, sizeof(LE)) && FRESH(le_neg, self, sizeof(LE)) && le_okz(self, 2 * ZB))
__CPROVER_assigns(*ret)
__CPROVER_ensures(le_okz(ret, 2 * ZB) && LE_CST(ret) == -LE_CST(self) && LE_CONST(ret) == LE_CONST(self))
__CPROVER_ensures(!NEG_LEMMAS(self) || LE_E(ret) == -LE_E(self))
__CPROVER_ensures(TOP(le_neg, COEFWISE_NEG(ret, self)));

/* harness input: an arbitrary constraint; the values the uninterpreted symbols take on its map are recorded as
 * witnesses (g_E: variable part under the valuation, g_const: "no term") for the native replay */
#define RECORD(T, g, e) T g = (e); static T wit_##g; wit_##g = g
#define INLC(a) IN(LC, a); RECORD(i128, a##_E, LE_E(&a.f1)); RECORD(unsigned char, a##_const, LE_CONST(&a.f1) ? 1 : 0)

/* ===================== PART 1: linear_constraint ===================== */
/* ---- kind accessors */
#define KINDQ(id, fn, K) \
unsigned char fn(LC *self) \
__CPROVER_requires(FRESH(id, self, sizeof(LC)) && lc_ok(self)) \
__CPROVER_assigns() \
__CPROVER_ensures(__CPROVER_return_value == (self->f0 == (K) ? 1 : 0)); \
void h_##id(void){ IN(LC, a); fn(&a); REACH; }
//@check id=is_equality fn=_ZNK4ikos17linear_constraintINS_8z_numberE2VNE11is_equalityEv props=C20
KINDQ(is_equality, LCK(11is_equalityEv), K_EQ)
//@check id=is_disequation fn=_ZNK4ikos17linear_constraintINS_8z_numberE2VNE14is_disequationEv props=C20
KINDQ(is_disequation, LCK(14is_disequationEv), K_NE)
//@check id=is_inequality fn=_ZNK4ikos17linear_constraintINS_8z_numberE2VNE13is_inequalityEv props=C20
KINDQ(is_inequality, LCK(13is_inequalityEv), K_LE)
//@check id=is_strict_inequality fn=_ZNK4ikos17linear_constraintINS_8z_numberE2VNE20is_strict_inequalityEv props=C20
KINDQ(is_strict_inequality, LCK(20is_strict_inequalityEv), K_LT)
//@check id=kind fn=_ZNK4ikos17linear_constraintINS_8z_numberE2VNE4kindEv props=C20
uint32_t LCK(4kindEv)(LC *self)
__CPROVER_requires(FRESH(kind, self, sizeof(LC)) && lc_ok(self))
__CPROVER_assigns()
__CPROVER_ensures(__CPROVER_return_value == self->f0);
void h_kind(void){ IN(LC, a); LCK(4kindEv)(&a); REACH; }
/* expression(): the stored expression itself */
//@check id=expression fn=_ZNK4ikos17linear_constraintINS_8z_numberE2VNE10expressionEv props=C20
LE *LCK(10expressionEv)(LC *self)
__CPROVER_requires(FRESH(expression, self, sizeof(LC)) && lc_ok(self))
__CPROVER_assigns()
__CPROVER_ensures(__CPROVER_return_value == &self->f1);
void h_expression(void){ IN(LC, a); LCK(10expressionEv)(&a); REACH; }
/* constant(): the right-hand side when the constraint is read  "variable part  {kind}  constant()" */
//@check id=lc_constant fn=_ZNK4ikos17linear_constraintINS_8z_numberE2VNE8constantEv props=C20
void LCK(8constantEv)(Z *ret, LC *self)
__CPROVER_requires(FRESH(lc_constant, ret, sizeof(Z)) && FRESH(lc_constant, self, sizeof(LC)) && lc_ok(self))
__CPROVER_assigns(*ret)
__CPROVER_ensures(ZV(ret) == -LE_CST(&self->f1))
__CPROVER_ensures(LC_HOLDS(self) == k_holds(self->f0, LE_E(&self->f1) - ZV(ret)));
void h_lc_constant(void){ IN(LC, a); Z r; LCK(8constantEv)(&r, &a); REACH; }

/* ---- constructor from (expression, kind): same kind, same meaning */
//@check id=lc_ctor fn=_ZN4ikos17linear_constraintINS_8z_numberE2VNEC2ERKNS_17linear_expressionIS1_S2_EENS3_6kind_tE props=C20 replace=_ZNSt10shared_ptrIN5boost9container8flat_mapIN4crab8variableIN4ikos8z_numberE2VNEES6_St4lessIS8_EvEEEC2ERKSC_
void LCN(C2ERKNS_17linear_expressionIS1_S2_EENS3_6kind_tE)(LC *self, LE *e, uint32_t kind)
__CPROVER_requires(FRESH(lc_ctor, self, sizeof(LC)) && FRESH(lc_ctor, e, sizeof(LE)) && le_okz(e, 2 * ZB) && kind <= 3)
__CPROVER_assigns(*self)
__CPROVER_ensures(lc_okz(self, 2 * ZB) && self->f0 == kind && LE_CST(&self->f1) == LE_CST(e) && MAPP(self->f1) == MAPP(*e));
void h_lc_ctor(void){ IN(LE, e); GHOST(uint32_t, k); LC r; LCN(C2ERKNS_17linear_expressionIS1_S2_EENS3_6kind_tE)(&r, &e, k); REACH; }

/* ---- tautology / contradiction tests: EXACT for constant constraints (answer iff `c kind 0` holds / fails),
 * and never a wrong yes for any constraint (a yes implies the constraint holds / fails under the valuation,
 * which is arbitrary) */
#define TAUTQ(id, fn, POL) \
unsigned char fn(LC *self) \
__CPROVER_requires(FRESH(id, self, sizeof(LC)) && lc_ok(self)) \
__CPROVER_assigns() \
__CPROVER_ensures(__CPROVER_return_value <= 1) \
__CPROVER_ensures(!LE_CONST(&self->f1) || (__CPROVER_return_value != 0) == (k_holds(self->f0, LE_CST(&self->f1)) == (POL))) \
__CPROVER_ensures(__CPROVER_return_value == 0 || LC_HOLDS(self) == (POL)); \
void h_##id(void){ INLC(a); unsigned char r = fn(&a); \
  SATGUARD(LE_CONST(&a.f1) && r); SATGUARD(LE_CONST(&a.f1) && !r); SATGUARD(!LE_CONST(&a.f1)); REACH; }
//@check id=is_tautology fn=_ZNK4ikos17linear_constraintINS_8z_numberE2VNE12is_tautologyEv props=C20 replace=_ZNK4ikos17linear_expressionINS_8z_numberE2VNE11is_constantEv
TAUTQ(is_tautology, LCK(12is_tautologyEv), true)
//@check id=is_contradiction fn=_ZNK4ikos17linear_constraintINS_8z_numberE2VNE16is_contradictionEv props=C20 replace=_ZNK4ikos17linear_expressionINS_8z_numberE2VNE11is_constantEv
TAUTQ(is_contradiction, LCK(16is_contradictionEv), false)

/* ---- the constant constraints true (0 == 0) and false (0 != 0) */
#define R_MK _ZSt11make_sharedIN5boost9container8flat_mapIN4crab8variableIN4ikos8z_numberE2VNEES6_St4lessIS8_EvEEJEESt10shared_ptrINSt9enable_ifIXntsr8is_arrayIT_EE5valueESE_E4typeEEDpOT0_
//@check id=get_true fn=_ZN4ikos17linear_constraintINS_8z_numberE2VNE8get_trueEv props=C20 replace=_ZSt11make_sharedIN5boost9container8flat_mapIN4crab8variableIN4ikos8z_numberE2VNEES6_St4lessIS8_EvEEJEESt10shared_ptrINSt9enable_ifIXntsr8is_arrayIT_EE5valueESE_E4typeEEDpOT0_,_ZNSt10shared_ptrIN5boost9container8flat_mapIN4crab8variableIN4ikos8z_numberE2VNEES6_St4lessIS8_EvEEEC2ERKSC_,_ZNSt10shared_ptrIN5boost9container8flat_mapIN4crab8variableIN4ikos8z_numberE2VNEES6_St4lessIS8_EvEEED2Ev,_ZNK4ikos17linear_expressionINS_8z_numberE2VNE11is_constantEv
void LCN(8get_trueEv)(LC *ret)
__CPROVER_requires(FRESH(get_true, ret, sizeof(LC)))
__CPROVER_assigns(*ret)
__CPROVER_ensures(lc_ok(ret) && LE_CONST(&ret->f1) && LC_HOLDS(ret));
void h_get_true(void){ LC r; LCN(8get_trueEv)(&r);
  __CPROVER_assert(LCK(12is_tautologyEv)(&r) == 1, "get_true().is_tautology()");
  __CPROVER_assert(LCK(16is_contradictionEv)(&r) == 0, "!get_true().is_contradiction()");
  REACH; }
//@check id=get_false fn=_ZN4ikos17linear_constraintINS_8z_numberE2VNE9get_falseEv props=C20 replace=_ZSt11make_sharedIN5boost9container8flat_mapIN4crab8variableIN4ikos8z_numberE2VNEES6_St4lessIS8_EvEEJEESt10shared_ptrINSt9enable_ifIXntsr8is_arrayIT_EE5valueESE_E4typeEEDpOT0_,_ZNSt10shared_ptrIN5boost9container8flat_mapIN4crab8variableIN4ikos8z_numberE2VNEES6_St4lessIS8_EvEEEC2ERKSC_,_ZNSt10shared_ptrIN5boost9container8flat_mapIN4crab8variableIN4ikos8z_numberE2VNEES6_St4lessIS8_EvEEED2Ev,_ZNK4ikos17linear_expressionINS_8z_numberE2VNE11is_constantEv
void LCN(9get_falseEv)(LC *ret)
__CPROVER_requires(FRESH(get_false, ret, sizeof(LC)))
__CPROVER_assigns(*ret)
__CPROVER_ensures(lc_ok(ret) && LE_CONST(&ret->f1) && !LC_HOLDS(ret));
void h_get_false(void){ LC r; LCN(9get_falseEv)(&r);
  __CPROVER_assert(LCK(16is_contradictionEv)(&r) == 1, "get_false().is_contradiction()");
  __CPROVER_assert(LCK(12is_tautologyEv)(&r) == 0, "!get_false().is_tautology()");
  REACH; }

/* ---- negation of  e <= 0  over the integers:  e >= 1  (exact complement) */
//@check id=negate_inequality fn=_ZN4ikos22linear_constraint_impl17negate_inequalityI2VNEENS_17linear_constraintINS_8z_numberET_EERKS6_ props=C20 replace=_ZNK4ikos17linear_expressionINS_8z_numberE2VNEngEv,_ZNSt10shared_ptrIN5boost9container8flat_mapIN4crab8variableIN4ikos8z_numberE2VNEES6_St4lessIS8_EvEEEC2ERKSC_,_ZNSt10shared_ptrIN5boost9container8flat_mapIN4crab8variableIN4ikos8z_numberE2VNEES6_St4lessIS8_EvEEED2Ev
void _ZN4ikos22linear_constraint_impl17negate_inequalityI2VNEENS_17linear_constraintINS_8z_numberET_EERKS6_(LC *ret, LC *c)
__CPROVER_requires(FRESH(negate_inequality, ret, sizeof(LC)) && FRESH(negate_inequality, c, sizeof(LC)) && lc_ok(c) && c->f0 == K_LE)
__CPROVER_assigns(*ret)
__CPROVER_ensures(lc_okz(ret, 2 * ZB))
__CPROVER_ensures(LC_HOLDS(ret) == !LC_HOLDS(c));
void h_negate_inequality(void){ INLC(a); LC r; _ZN4ikos22linear_constraint_impl17negate_inequalityI2VNEENS_17linear_constraintINS_8z_numberET_EERKS6_(&r, &a); REACH; }

/* ---- e < 0  <=>  e + 1 <= 0  over the integers */
//@check id=strict_to_non_strict fn=_ZN4ikos22linear_constraint_impl31strict_to_non_strict_inequalityI2VNEENS_17linear_constraintINS_8z_numberET_EERKS6_ props=C20 replace=_ZNSt10shared_ptrIN5boost9container8flat_mapIN4crab8variableIN4ikos8z_numberE2VNEES6_St4lessIS8_EvEEEC2ERKSC_,_ZNSt10shared_ptrIN5boost9container8flat_mapIN4crab8variableIN4ikos8z_numberE2VNEES6_St4lessIS8_EvEEED2Ev
void _ZN4ikos22linear_constraint_impl31strict_to_non_strict_inequalityI2VNEENS_17linear_constraintINS_8z_numberET_EERKS6_(LC *ret, LC *c)
__CPROVER_requires(FRESH(strict_to_non_strict, ret, sizeof(LC)) && FRESH(strict_to_non_strict, c, sizeof(LC)) && lc_ok(c) && c->f0 == K_LT)
__CPROVER_assigns(*ret)
__CPROVER_ensures(lc_okz(ret, 2 * ZB) && ret->f0 == K_LE)
__CPROVER_ensures(LC_HOLDS(ret) == LC_HOLDS(c));
void h_strict_to_non_strict(void){ INLC(a); LC r; _ZN4ikos22linear_constraint_impl31strict_to_non_strict_inequalityI2VNEENS_17linear_constraintINS_8z_numberET_EERKS6_(&r, &a); REACH; }

/* ---- negate(): the EXACT complement over the integers, for all four kinds and every valuation:
 * not(e <= 0) is e >= 1, not(e < 0) is e >= 0, equality <-> disequation, constant constraints to true / false.
 * is_tautology / is_contradiction / kind / negate_inequality / the constructor / get_true / get_false run in line. */
//@check id=negate fn=_ZNK4ikos17linear_constraintINS_8z_numberE2VNE6negateEv props=C20 replace=_ZNK4ikos17linear_expressionINS_8z_numberE2VNEngEv,_ZNK4ikos17linear_expressionINS_8z_numberE2VNE11is_constantEv,_ZSt11make_sharedIN5boost9container8flat_mapIN4crab8variableIN4ikos8z_numberE2VNEES6_St4lessIS8_EvEEJEESt10shared_ptrINSt9enable_ifIXntsr8is_arrayIT_EE5valueESE_E4typeEEDpOT0_,_ZNSt10shared_ptrIN5boost9container8flat_mapIN4crab8variableIN4ikos8z_numberE2VNEES6_St4lessIS8_EvEEEC2ERKSC_,_ZNSt10shared_ptrIN5boost9container8flat_mapIN4crab8variableIN4ikos8z_numberE2VNEES6_St4lessIS8_EvEEED2Ev
void LCK(6negateEv)(LC *ret, LC *self)
__CPROVER_requires(FRESH(negate, ret, sizeof(LC)) && FRESH(negate, self, sizeof(LC)) && lc_ok(self))
__CPROVER_assigns(*ret)
__CPROVER_ensures(lc_okz(ret, 2 * ZB))
__CPROVER_ensures(LC_HOLDS(ret) == !LC_HOLDS(self));
void h_negate(void){ INLC(a); LC r; LCK(6negateEv)(&r, &a);
  SATGUARD(a.f0 == K_EQ && a_const); SATGUARD(a.f0 == K_EQ && !a_const); SATGUARD(a.f0 == K_NE && a_const); SATGUARD(a.f0 == K_NE && !a_const);
  SATGUARD(a.f0 == K_LE && a_const); SATGUARD(a.f0 == K_LE && !a_const); SATGUARD(a.f0 == K_LT && a_const); SATGUARD(a.f0 == K_LT && !a_const); REACH; }

/* ===================== PART 2: linear_expression on the REAL flat_map (BOUNDED) ===================== */
#ifdef LINCST_CONCRETE
/* harness input: an expression together with its own map object and term storage.  The capacity is either
 * exactly the size (an insertion must reallocate) or CAPT (an insertion shifts in place). */
#define CAPT 4
struct lein { LE e; FM m; PR t[CAPT]; unsigned char room; };
#define INLE(A) IN(struct lein, A); A.e.f0.f0.f0 = &A.m; FM_START(&A.m) = A.t; FM_CAP(&A.m) = A.room ? CAPT : FM_SIZE(&A.m)
#else
#define INLE(A) IN(LE, A)
#endif
#define R_PLUMB _ZSt11make_sharedIN5boost9container8flat_mapIN4crab8variableIN4ikos8z_numberE2VNEES6_St4lessIS8_EvEEJEESt10shared_ptrINSt9enable_ifIXntsr8is_arrayIT_EE5valueESE_E4typeEEDpOT0_,_ZNSt10shared_ptrIN5boost9container8flat_mapIN4crab8variableIN4ikos8z_numberE2VNEES6_St4lessIS8_EvEEEC2ERKSC_,_ZNSt10shared_ptrIN5boost9container8flat_mapIN4crab8variableIN4ikos8z_numberE2VNEES6_St4lessIS8_EvEEED2Ev

/* is_constant(): the contract the constraint layer uses, now against the real container: no term */
//@check id=le_is_constant fn=_ZNK4ikos17linear_expressionINS_8z_numberE2VNE11is_constantEv props=C20 defs=LINCST_CONCRETE
#ifdef CHECK_le_is_constant
void h_le_is_constant(void){ INLE(A); LEK(11is_constantEv)(&A.e); REACH; }
#endif
/* unary minus (the contract the constraint layer uses): BOUNDED: at most NT = 2 terms */
//@check id=le_neg fn=_ZNK4ikos17linear_expressionINS_8z_numberE2VNEngEv props=C20 defs=LINCST_CONCRETE unwind=4 bounded="<=2 terms"
#ifdef CHECK_le_neg
void h_le_neg(void){ INLE(A); GHOSTG(uint64_t, g_v); LE r; LEK(ngEv)(&r, &A.e); SATGUARD(NEG_LEMMAS(&A.e) && FM_SIZE(&A.m) == 2); REACH; }
#endif
