/* Trusted reference models of the libstdc++ containers behind ikos::linear_constraint_system (bodies dropped from the
 * extracted unit, see unit.json "override.drop").  libstdc++ is third-party code outside /repo; the crab code on top of
 * it -- linear_constraint_system::operator+=, normalize, is_false, is_true and everything of linear_constraint /
 * linear_expression they call (equal, operator-, size, begin, the copy constructors) -- is the real one.
 * (The real hash-table code does not fit the checker: symbolic execution of std::_Hashtable with its rehash policy,
 * allocator rebinds and node recycling does not finish for two insertions.)
 *
 * 1. std::unordered_set<linear_expression, linear_expression_hasher, linear_expression_equal> and
 *    std::unordered_map<linear_expression, unsigned, (same hasher), (same equality)>: a singly linked list of nodes that
 *    is searched with the REAL key equality linear_expression_equal::operator() (which calls the real
 *    linear_expression::equal).  find / end / insert(const key&) of the set; insert(pair&&) / operator[](key&&) of the
 *    map (operator[] inserts the value 0 for a missing key, insert keeps an existing entry); the constructors give
 *    an empty container, the destructors do nothing (nodes are never freed).
 *    The HASH FUNCTION IS NOT CALLED: a hash table behaves like this list exactly when equal keys have equal hashes.
 *    ASSUMED: linear_expression::hash() is compatible with linear_expression::equal() (equal(a, b) implies
 *    hash(a) == hash(b)); hash() combines the hashes of the constant and of the (coefficient, variable) terms in
 *    term order, and equal() compares exactly those.
 * 2. std::vector<linear_constraint>::push_back(const value_type&): appends a copy made by the REAL copy constructor of
 *    linear_constraint into the vector's buffer; a vector without buffer gets one of SYS_CAP elements; exceeding the
 *    capacity is an OBLIGATION, not an assumption.  ~vector() does nothing (buffers are never freed).  size(),
 *    operator[], begin(), end(), empty(), the iterators, std::any_of / std::find_if over them are the real libstdc++ code.
 * 3. std::vector<bool>(n, value), operator[] (the _Bit_reference proxy), the destructor: the real libstdc++ code runs
 *    (operator new = malloc, models/rt.c).
 * Parameters whose lowered type carries a generated numeric suffix are declared `void *` here (the object layouts used
 * are spelled out below), so that this file does not depend on the numbering of generated type names. */
#include <stdlib.h>
void *_Znwm(unsigned long);   /* operator new of models/rt.c: malloc that does not fail */
#include "unit_types.h"
typedef struct S_class_ikos__linear_expression LE;
typedef struct S_class_ikos__linear_constraint LC;
typedef struct S_class_std__vector VEC;                              /* std::vector<linear_constraint>: { start, finish, end_of_storage } */
typedef struct S_struct_std____detail___Hash_node_base NB;          /* { next } */
#ifndef SYS_CAP
#define SYS_CAP 4
#endif
/* std::_Hashtable: { buckets, bucket_count, before_begin { next }, element_count, rehash_policy, single_bucket }; the
 * model uses before_begin.next (list head) and element_count only.  Both containers have this layout. */
struct hashtable { NB **buckets; uint64_t bucket_count; NB before_begin; uint64_t element_count; };
struct snode { NB base; LE key; };                                  /* node of the set */
struct mnode { NB base; LE key; uint32_t val; };                    /* node of the map: pair<const linear_expression, unsigned> */
struct itb { void *node; unsigned char inserted; };                 /* std::pair<iterator, bool> returned in registers */
unsigned char _ZNK4ikos23linear_expression_equalINS_8z_numberE2VNEclERKNS_17linear_expressionIS1_S2_EES7_(void *self, LE *a, LE *b);   /* the real linear_expression_equal::operator() */
void _ZN4ikos17linear_expressionINS_8z_numberE2VNEC2ERKS3_(LE *self, LE *o);                    /* the real copy constructor of linear_expression */
void _ZN4ikos17linear_constraintINS_8z_numberE2VNEC2ERKS3_(LC *self, LC *o);                    /* the real copy constructor of linear_constraint */
static unsigned char key_eq;   /* the (empty) key-equality object of the containers */
#define EQ(a, b) (_ZNK4ikos23linear_expression_equalINS_8z_numberE2VNEclERKNS_17linear_expressionIS1_S2_EES7_(&key_eq, a, b) != 0)

/* ---- unordered_set<linear_expression> */
#define USET_(f) _ZNSt13unordered_setIN4ikos17linear_expressionINS0_8z_numberE2VNEENS0_24linear_expression_hasherIS2_S3_EENS0_23linear_expression_equalIS2_S3_EESaIS4_EE##f
void USET_(C2Ev)(void *self){ struct hashtable *h = (struct hashtable *)self; h->buckets = 0; h->bucket_count = 1; h->before_begin.f0 = 0; h->element_count = 0; }
void USET_(D2Ev)(void *self){}
static struct snode *set_lookup(struct hashtable *h, LE *k){
  for (struct snode *n = (struct snode *)h->before_begin.f0; n != 0; n = (struct snode *)n->base.f0) if (EQ(&n->key, k)) return n;
  return 0; }
void *USET_(4findERKS4_)(void *self, LE *k){ return set_lookup((struct hashtable *)self, k); }
void *USET_(3endEv)(void *self){ return 0; }
struct itb USET_(6insertERKS4_)(void *self, LE *k){
  struct hashtable *h = (struct hashtable *)self; struct itb r;
  struct snode *n = set_lookup(h, k);
  if (n != 0) { r.node = n; r.inserted = 0; return r; }
  n = (struct snode *)_Znwm(sizeof(struct snode));
  _ZN4ikos17linear_expressionINS_8z_numberE2VNEC2ERKS3_(&n->key, k);
  n->base.f0 = h->before_begin.f0; h->before_begin.f0 = &n->base; h->element_count = h->element_count + 1;
  r.node = n; r.inserted = 1; return r; }

/* ---- unordered_map<linear_expression, unsigned> */
#define UMAP_(f) _ZNSt13unordered_mapIN4ikos17linear_expressionINS0_8z_numberE2VNEEjNS0_24linear_expression_hasherIS2_S3_EENS0_23linear_expression_equalIS2_S3_EESaISt4pairIKS4_jEEE##f
void UMAP_(C2Ev)(void *self){ struct hashtable *h = (struct hashtable *)self; h->buckets = 0; h->bucket_count = 1; h->before_begin.f0 = 0; h->element_count = 0; }
void UMAP_(D2Ev)(void *self){}
static struct mnode *map_lookup(struct hashtable *h, LE *k){
  for (struct mnode *n = (struct mnode *)h->before_begin.f0; n != 0; n = (struct mnode *)n->base.f0) if (EQ(&n->key, k)) return n;
  return 0; }
static struct mnode *map_add(struct hashtable *h, LE *k, uint32_t v){
  struct mnode *n = (struct mnode *)_Znwm(sizeof(struct mnode));
  _ZN4ikos17linear_expressionINS_8z_numberE2VNEC2ERKS3_(&n->key, k); n->val = v;
  n->base.f0 = h->before_begin.f0; h->before_begin.f0 = &n->base; h->element_count = h->element_count + 1;
  return n; }
/* insert(std::pair<const linear_expression, unsigned> &&): the pair object is { linear_expression first; unsigned second } */
struct kvpair { LE first; uint32_t second; };
struct itb UMAP_(6insertEOSB_)(void *self, void *kv){
  struct hashtable *h = (struct hashtable *)self; struct kvpair *p = (struct kvpair *)kv; struct itb r;
  struct mnode *n = map_lookup(h, &p->first);
  if (n != 0) { r.node = n; r.inserted = 0; return r; }
  r.node = map_add(h, &p->first, p->second); r.inserted = 1; return r; }
uint32_t *UMAP_(ixEOS4_)(void *self, LE *k){
  struct hashtable *h = (struct hashtable *)self;
  struct mnode *n = map_lookup(h, k);
  if (n == 0) n = map_add(h, k, 0);
  return &n->val; }

/* ---- std::vector<linear_constraint> */
#define VB(v) ((v)->f0.f0.f0.f0)
#define VE(v) ((v)->f0.f0.f0.f1)
#define VC(v) ((v)->f0.f0.f0.f2)
void _ZNSt6vectorIN4ikos17linear_constraintINS0_8z_numberE2VNEESaIS4_EE9push_backERKS4_(VEC *v, LC *x){
  if (VB(v) == 0) { LC *p = (LC *)_Znwm(SYS_CAP * sizeof(LC)); VB(v) = p; VE(v) = p; VC(v) = p + SYS_CAP; }
  __CPROVER_assert(VE(v) != VC(v), "std::vector model: a constraint system never outgrows its buffer (SYS_CAP constraints)");
  if (VE(v) == VC(v)) return;
  /* the slot `finish` as buffer + CONSTANT offset on every path (cheaper for the checker than a symbolic offset) */
  LC *b = VB(v), *e = VE(v);
  __CPROVER_assert(e - b <= 4, "bounded model: positions 0..4");
  LC *s = e == b ? b : e == b + 1 ? b + 1 : e == b + 2 ? b + 2 : e == b + 3 ? b + 3 : b + 4;
  _ZN4ikos17linear_constraintINS_8z_numberE2VNEC2ERKS3_(s, x);
  VE(v) = s + 1; }
void _ZNSt6vectorIN4ikos17linear_constraintINS0_8z_numberE2VNEESaIS4_EED2Ev(VEC *v){}
