/* Trusted model functions of unit lincst (bodies dropped from the extracted unit, see unit.json "override.drop").
 *
 * 1. shared_ptr ownership plumbing of linear_expression::_map (std::shared_ptr<flat_map>): make_shared<map_t>()
 *    yields a NEW, EMPTY map; copying a shared_ptr passes the same map on; destroying one changes no map.
 *    Reference counting / deallocation of maps is not modelled (maps are never freed).  These are the same facts the
 *    constraint layer assumes as contracts (contracts.c PART 0); here they are executable so that the expression
 *    layer runs the REAL flat_map code on concrete objects.
 * 2. Boost's flat_map (third-party code, not part of crab): the four entry points of boost::container that
 *    linear_expression calls on its term container -- flat_tree::find(key), flat_tree::insert_unique(pair&&),
 *    vector::erase(iterator), flat_tree::Data::operator=(const Data&) (copy assignment) -- are a REFERENCE
 *    IMPLEMENTATION of a sorted array map with unique keys, ordered by the REAL crab::variable::operator<.
 *    (The real Boost code was tried first: CBMC does not get through its insertion path even for 2 terms.)
 *    Term arrays are objects of LE_MAXCAP = 2 * NT elements (capacity is not observable by linear_expression);
 *    BOUNDED: "at most LE_MAXCAP terms" is an obligation of every insertion / copy, not an assumption.
 *    Elements are moved / copied bitwise: for pair<variable, z_number> (a v-table pointer, a name object, a type
 *    and, in the model, an integer) that is what the copy / move constructors do. */
#include <stdlib.h>
void *_Znwm(unsigned long);   /* operator new of models/rt.c: malloc that does not fail */
#include "unit_types.h"
typedef struct S_class_std__shared_ptr SPT;
typedef struct S_class_boost__container__flat_map FM;
typedef struct S_struct_boost__container__dtl__pair PR;
typedef struct S_class_crab__variable VAR;
typedef struct S_class_boost__container__dtl__flat_tree FT;
typedef struct S_class_boost__container__vector VEC;
typedef struct S_struct_boost__container__vector_alloc_holder HOLD;   /* { f0 = start, f1 = size, f2 = capacity } */
typedef struct S_class_boost__container__vec_iterator_108 IT;           /* iterator: { pointer } */
typedef struct S_class_boost__container__vec_iterator_109 CIT;          /* const_iterator */
typedef struct S_struct_std__pair_110 ITB;                               /* std::pair<iterator, bool> */
unsigned char _ZNK4crab8variableIN4ikos8z_numberE2VNEltERKS4_(VAR *, VAR *);   /* the real crab::variable::operator< */
#define LT(a, b) (_ZNK4crab8variableIN4ikos8z_numberE2VNEltERKS4_(a, b) != 0)
#ifndef NT
#define NT 2
#endif
#ifndef LE_MAXCAP
#define LE_MAXCAP (2 * NT)     /* inputs have at most NT terms, a result at most 2 * NT */
#endif
void _ZSt11make_sharedIN5boost9container8flat_mapIN4crab8variableIN4ikos8z_numberE2VNEES6_St4lessIS8_EvEEJEESt10shared_ptrINSt9enable_ifIXntsr8is_arrayIT_EE5valueESE_E4typeEEDpOT0_(SPT *ret){
  FM *m = (FM *)_Znwm(sizeof(FM));
  /* flat_map(): size = 0.  Boost starts with start = null, capacity = 0 and allocates on the first insertion; the model
   * reserves the term array at once (linear_expression never looks at capacity or at the start of an empty map), so that
   * all insertions into one map work on ONE array object */
  m->f0.f0.f0.f0.f0 = (PR *)_Znwm(LE_MAXCAP * sizeof(PR)); m->f0.f0.f0.f0.f1 = 0; m->f0.f0.f0.f0.f2 = LE_MAXCAP;
  ret->f0.f0 = m; ret->f0.f1.f0 = 0; }
void _ZNSt10shared_ptrIN5boost9container8flat_mapIN4crab8variableIN4ikos8z_numberE2VNEES6_St4lessIS8_EvEEEC2ERKSC_(SPT *self, SPT *o){ self->f0.f0 = o->f0.f0; self->f0.f1.f0 = o->f0.f1.f0; }
void _ZNSt10shared_ptrIN5boost9container8flat_mapIN4crab8variableIN4ikos8z_numberE2VNEES6_St4lessIS8_EvEEED2Ev(SPT *self){}
/* s + i with a CONSTANT offset on every path (cbmc 6.11 mis-encodes a read through `s + i` with a symbolic i when the
 * reader uses the std::pair view of the element type: observed as the OR of two elements, a spurious failure) */
static PR *at(PR *s, uint64_t i){
  __CPROVER_assert(i <= 8, "bounded model: positions 0..8");
  return i == 0 ? s : i == 1 ? s + 1 : i == 2 ? s + 2 : i == 3 ? s + 3 : i == 4 ? s + 4 : i == 5 ? s + 5 : i == 6 ? s + 6 : i == 7 ? s + 7 : s + 8; }
/* index of the first element whose key is not less than k */
static uint64_t lower_bound(HOLD *h, VAR *k){ uint64_t i = 0; while (i < h->f1 && LT(&h->f0[i].f0, k)) i++; return i; }
/* room for n elements: every map the code creates has LE_MAXCAP slots from the start (make_shared above) and the maps
 * given as inputs are never inserted into, so there is no reallocation: exceeding the capacity is an obligation */
static void reserve(HOLD *h, uint64_t n){
  __CPROVER_assert(n <= h->f2 && n <= LE_MAXCAP, "bounded model: a term container never outgrows its capacity (2 * NT terms)"); }
/* flat_tree::find(const key_type &) */
void _ZN5boost9container3dtl9flat_treeINS1_4pairIN4crab8variableIN4ikos8z_numberE2VNEES7_EENS1_9select1stIS9_EESt4lessIS9_ENS0_13new_allocatorISA_EEE4findERKS9_(IT *ret, FT *self, VAR *k){
  HOLD *h = &self->f0.f0.f0; uint64_t i = lower_bound(h, k);
  ret->f0 = at(h->f0, (i < h->f1 && !LT(k, &h->f0[i].f0)) ? i : h->f1); }
/* flat_tree::insert_unique(value_type &&): (position, inserted?) */
void _ZN5boost9container3dtl9flat_treeINS1_4pairIN4crab8variableIN4ikos8z_numberE2VNEES7_EENS1_9select1stIS9_EESt4lessIS9_ENS0_13new_allocatorISA_EEE13insert_uniqueEOSA_(ITB *ret, FT *self, PR *val){
  HOLD *h = &self->f0.f0.f0; uint64_t i = lower_bound(h, &val->f0);
  if (i < h->f1 && !LT(&val->f0, &h->f0[i].f0)) { ret->f0.f0 = at(h->f0, i); ret->f1 = 0; return; }
  reserve(h, h->f1 + 1);
  for (uint64_t j = h->f1; j > i; j--) h->f0[j] = h->f0[j - 1];
  h->f0[i] = *val; h->f1 = h->f1 + 1;
  ret->f0.f0 = at(h->f0, i); ret->f1 = 1; }
/* vector::erase(const_iterator): iterator to the element after the erased one */
void _ZN5boost9container6vectorINS0_3dtl4pairIN4crab8variableIN4ikos8z_numberE2VNEES7_EENS0_13new_allocatorISA_EEvE5eraseENS0_12vec_iteratorIPSA_Lb1EEE(IT *ret, VEC *self, CIT *pos){
  HOLD *h = &self->f0; uint64_t i = (uint64_t)(pos->f0 - h->f0);
  __CPROVER_assert(i < h->f1, "erase: the iterator points to an element");
  for (uint64_t j = i; j + 1 < h->f1; j++) h->f0[j] = h->f0[j + 1];
  h->f1 = h->f1 - 1; ret->f0 = at(h->f0, i); }
/* flat_tree::Data::operator=(const Data &): copy assignment of the sequence */
#define DATA struct S_struct_boost__container__dtl__flat_tree_boost__container__dtl__pair_crab__variable_ikos__z_number__VN___ikos__z_number___boost__container__dtl__select1st_crab__variable_ikos__z_number__VN____std__less_crab__variable_ikos__z_number__VN____boost__container__new_allocator_boost__container__dtl__pair_crab__variable_ikos__z_number__VN___ikos__z_number_____Data
DATA *_ZN5boost9container3dtl9flat_treeINS1_4pairIN4crab8variableIN4ikos8z_numberE2VNEES7_EENS1_9select1stIS9_EESt4lessIS9_ENS0_13new_allocatorISA_EEE4DataaSERKSI_(DATA *self, DATA *o){
  HOLD *h = &self->f0.f0, *g = &o->f0.f0;
  if (h == g) return self;
  reserve(h, g->f1);
  for (uint64_t i = 0; i < g->f1; i++) h->f0[i] = g->f0[i];
  h->f1 = g->f1; return self; }
/* 3. The renaming map RM of units/lincst/force.cpp (the RenamingMap parameter of linear_expression::rename): an
 *    ARBITRARY partial renaming of variables: find(v) is "v is renamed" / "the new variable" as uninterpreted functions of
 *    the index of v; a hit is a new pair object whose `second` is a well-formed variable with the new index (its type
 *    is that of v).  This is the universally quantified parameter of the proof, not an assumption about crab code. */
typedef struct S_struct_std__pair_124 RPAIR;     /* std::pair<const variable_t, variable_t> */
typedef struct S_struct_RM RM;
unsigned char __CPROVER_uninterpreted_rho_has(uint64_t);
uint64_t __CPROVER_uninterpreted_rho(uint64_t);
RPAIR *_ZNK2RM3endEv(RM *self){ return (RPAIR *)0; }
RPAIR *_ZNK2RM4findERKN4crab8variableIN4ikos8z_numberE2VNEE(RM *self, VAR *v){
  uint64_t x = v->f1.f1;
  if (!__CPROVER_uninterpreted_rho_has(x)) return (RPAIR *)0;
  RPAIR *p = (RPAIR *)_Znwm(sizeof(RPAIR));
  p->f0 = *v; p->f1 = *v; p->f1.f1.f1 = __CPROVER_uninterpreted_rho(x);
  return p; }
