/* Trusted model functions of unit lincst (bodies dropped from the extracted unit, see unit.json "override.drop").
 *
 * 1. shared_ptr ownership plumbing of linear_expression::_map (std::shared_ptr<flat_map>): make_shared<map_t>()
 *    yields a NEW, EMPTY map; copying a shared_ptr passes the same map on; destroying one changes no map.
 *    Reference counting / deallocation of maps is not modelled (maps are never freed).  These are the same facts the
 *    constraint layer assumes as contracts (contracts.c PART 0); here they are executable so that the expression
 *    layer runs the REAL flat_map code on concrete objects.
 * 2. boost::container::new_allocator<pair<variable,z_number>>::allocate(n): `operator new(n * sizeof(pair))`,
 *    case-split on n so that every term array is an object of CONSTANT size (exact bounds checking, no byte-array
 *    encoding).  BOUNDED: n <= LE_MAXCAP is an obligation, not an assumption. */
#include <stdlib.h>
#include "unit_types.h"
typedef struct S_class_std__shared_ptr SPT;
typedef struct S_class_boost__container__flat_map FM;
typedef struct S_struct_boost__container__dtl__pair PR;
#define LE_MAXCAP 8
void _ZSt11make_sharedIN5boost9container8flat_mapIN4crab8variableIN4ikos8z_numberE2VNEES6_St4lessIS8_EvEEJEESt10shared_ptrINSt9enable_ifIXntsr8is_arrayIT_EE5valueESE_E4typeEEDpOT0_(SPT *ret){
  FM *m = malloc(sizeof(FM));
  m->f0.f0.f0.f0.f0 = 0; m->f0.f0.f0.f0.f1 = 0; m->f0.f0.f0.f0.f2 = 0;   /* flat_map(): start = null, size = 0, capacity = 0 */
  ret->f0.f0 = m; ret->f0.f1.f0 = 0; }
void _ZNSt10shared_ptrIN5boost9container8flat_mapIN4crab8variableIN4ikos8z_numberE2VNEES6_St4lessIS8_EvEEEC2ERKSC_(SPT *self, SPT *o){ self->f0.f0 = o->f0.f0; self->f0.f1.f0 = o->f0.f1.f0; }
void _ZNSt10shared_ptrIN5boost9container8flat_mapIN4crab8variableIN4ikos8z_numberE2VNEES6_St4lessIS8_EvEEED2Ev(SPT *self){}
PR *_ZN5boost9container13new_allocatorINS0_3dtl4pairIN4crab8variableIN4ikos8z_numberE2VNEES7_EEE8allocateEm(void *self, uint64_t n){
  __CPROVER_assert(n >= 1 && n <= LE_MAXCAP, "bounded model: a term array of 1..8 terms is allocated");
  if (n == 1) return malloc(1 * sizeof(PR));
  if (n == 2) return malloc(2 * sizeof(PR));
  if (n == 3) return malloc(3 * sizeof(PR));
  if (n == 4) return malloc(4 * sizeof(PR));
  if (n == 5) return malloc(5 * sizeof(PR));
  if (n == 6) return malloc(6 * sizeof(PR));
  if (n == 7) return malloc(7 * sizeof(PR));
  if (n == 8) return malloc(8 * sizeof(PR));
  __CPROVER_assume(0); return 0; }
