/* Specification vocabulary for crab::thresholds<z_number> (include/crab/fixpoint/thresholds.hpp) and
 * interval<z_number>::widening_thresholds (include/crab/domains/interval.hpp).  Shared by contracts.c and replay.cpp.
 *
 * Bounds and intervals (B, I, b_ok, b_le, i_ok, i_has, ...) are the vocabulary of the interval unit (units/interval/spec.h),
 * z_number is the integer model models/zmodel.h.
 * TS = { f0 = m_thresholds : std::vector<bound> = three pointers (begin, end, end of storage), f1 = m_size }.
 * The vector is the REAL libstdc++ std::vector; a thresholds object is described through the element array
 * begin[0 .. n-1], n = end - begin.
 *
 * BOUND: every statement about a thresholds object is made for objects with at most TMAX elements (spec functions
 * are loops of TMAX iterations, harnesses build arrays of at most TMAX elements). */
#ifndef THRESHOLDS_SPEC_H
#define THRESHOLDS_SPEC_H
#include "../interval/spec.h"
typedef struct S_class_crab__thresholds TS;
#ifndef TMAX
#define TMAX 6
#endif
#define T_BEGIN(t) ((t)->f0.f0.f0.f0.f0)
#define T_END(t) ((t)->f0.f0.f0.f0.f1)
#define T_CAP(t) ((t)->f0.f0.f0.f0.f2)
#define T_LIMIT(t) ((t)->f1)                          /* m_size: capacity limit given to the constructor */
static inline long t_n(const TS *t){ return (long)(T_END(t) - T_BEGIN(t)); }
#define T_E(t, i) (T_BEGIN(t)[i])
static inline bool b_lt(B a, B b){ return !b_le(b, a); }

/* DATA INVARIANT of a thresholds object with at most `max` elements:
 *  - the vector is well formed (begin <= end <= end of storage, begin not null), 2 <= n <= max;
 *  - every element is a well-formed bound; the FIRST is -oo, the LAST is +oo;
 *  - strictly increasing (so -oo and +oo occur exactly once, everything in between is finite);
 *  - capacity limit: n <= max(m_size, 3)  (the constructor pushes 3 elements whatever m_size is). */
static inline bool t_okn(const TS *t, long max){
  if (T_BEGIN(t) == 0) return false;
  long n = t_n(t);
  if (n < 2 || n > max || T_CAP(t) < T_END(t)) return false;
  bool ok = b_ok(T_E(t, 0)) && b_minf(T_E(t, 0)) && b_pinf(T_E(t, n - 1));
  for (long i = 1; i < TMAX + 1; i++)
    if (i < n) ok = ok && b_ok(T_E(t, i)) && b_lt(T_E(t, i - 1), T_E(t, i));
  return ok && ((uint64_t)n <= T_LIMIT(t) || n <= 3);
}
static inline bool t_ok(const TS *t){ return t_okn(t, TMAX); }
/* membership */
static inline bool t_mem(const TS *t, B v){
  bool m = false; long n = t_n(t);
  for (long i = 0; i < TMAX + 1; i++) if (i < n) m = m || b_eq(T_E(t, i), v);
  return m; }
/* number of thresholds strictly below / strictly above a bound: the two halves of the widening rank */
static inline long t_below(const TS *t, B v){
  long c = 0, n = t_n(t);
  for (long i = 0; i < TMAX + 1; i++) if (i < n && b_lt(T_E(t, i), v)) c++;
  return c; }
static inline long t_above(const TS *t, B v){
  long c = 0, n = t_n(t);
  for (long i = 0; i < TMAX + 1; i++) if (i < n && b_lt(v, T_E(t, i))) c++;
  return c; }
/* r is THE least threshold strictly above v  /  THE greatest threshold strictly below v */
static inline bool t_is_least_above(const TS *t, B v, B r){
  bool ok = t_mem(t, r) && b_lt(v, r); long n = t_n(t);
  for (long i = 0; i < TMAX + 1; i++) if (i < n && b_lt(v, T_E(t, i))) ok = ok && b_le(r, T_E(t, i));
  return ok; }
static inline bool t_is_greatest_below(const TS *t, B v, B r){
  bool ok = t_mem(t, r) && b_lt(r, v); long n = t_n(t);
  for (long i = 0; i < TMAX + 1; i++) if (i < n && b_lt(T_E(t, i), v)) ok = ok && b_le(T_E(t, i), r);
  return ok; }

/* ---- postconditions (macros over `self`, `v`, `ret`, ... so that contracts.c and replay.cpp evaluate the same text) */
/* get_next(v): what C05 needs of it (coverage + the rank argument): a MEMBER of the set that is >= v, +oo for +oo.
 * Which member (the code takes the least threshold STRICTLY above v, std::upper_bound) is a matter of precision, not of
 * C05: a first version demanded exactly that and would have raised an alarm on the harmless variant "least threshold
 * >= v" (DESIGN 8.4); the rank lemma (check i_widen_ts) is proved of the real widening_thresholds with get_next /
 * get_prev in line and does not rely on this contract. */
#define POST_get_next(self, v, ret) (b_ok(ret) && t_mem(self, ret) && b_le(v, ret) && (b_pinf(v) ? b_pinf(ret) : 1))
/* get_prev(v): a member, <= v; -oo for -oo */
#define POST_get_prev(self, v, ret) (b_ok(ret) && t_mem(self, ret) && b_le(ret, v) && (b_minf(v) ? b_minf(ret) : 1))

/* ---- widening with thresholds: rank of an interval w.r.t. a thresholds object.
 * rank(bottom) = 2n+1, rank([l,u]) = #{t in T : t < l} + #{t in T : t > u}  (0 <= rank <= 2n+1).
 * Every widening step that is not stationary strictly DECREASES the rank (proved: check i_widen_ts), so a chain
 * x0, x1 = x0 WT y1, x2 = x1 WT y2, ... over ONE thresholds object has at most 2n+1 non-stationary steps. */
static inline long wt_rank(const TS *t, I i){ return i_bot(i) ? 2 * t_n(t) + 1 : t_below(t, i.f0) + t_above(t, i.f1); }
#define WT_ANYBOT(self, x) (i_bot(self) || i_bot(x))
/* each result bound is the old bound, or a threshold beyond it */
#define POST_wt_bounds(self, x, ts, ret) (WT_ANYBOT(self, x) || ( \
    (b_eq((ret).f0, (self).f0) || (t_mem(ts, (ret).f0) && b_lt((ret).f0, (self).f0))) && \
    (b_eq((ret).f1, (self).f1) || (t_mem(ts, (ret).f1) && b_lt((self).f1, (ret).f1)))))
#define POST_wt_stationary(self, x, ret) (!i_leq(x, self) || i_eq(ret, self))
#define POST_wt_rank(self, x, ts, ret) (wt_rank(ts, ret) >= 0 && wt_rank(ts, self) <= 2 * t_n(ts) + 1 && (i_leq(x, self) || wt_rank(ts, ret) < wt_rank(ts, self)))
#define POST_wt_upper(self, x, ret) (i_leq(self, ret) && i_leq(x, ret))
#endif
