/* Contracts for crab::thresholds<z_number> (thresholds.hpp) and interval<z_number>::widening_thresholds — property C05
 * ("... becomes stationary ... with or without thresholds. Widening returns a value describing at least the states
 * of both arguments").
 *
 * What is REAL here: thresholds::{thresholds, add, get_next, get_prev, size}, convert_bounds, bound<z_number>
 * comparisons / +1 / -1, libstdc++ std::vector (push_back, insert, _M_realloc_insert, _M_insert_aux, iterators) and
 * std::find / std::upper_bound / std::lower_bound, interval::widening_thresholds and the interval(lb,ub) constructor.
 * Only z_number is a model (models/zmodel.c: 128-bit integer).
 *
 * HOW THE THRESHOLDS OBJECTS ARE BUILT (choice, as asked): the harness constructs the vector CONTENTS DIRECTLY:
 * heap storage for TMAX+2 bounds, arbitrary element values, arbitrary length n and arbitrary spare capacity
 * (so both the in-place insert and the reallocating insert of std::vector are exercised), arbitrary m_size;
 * the data invariant t_ok is a PRECONDITION.  So each check speaks about EVERY object satisfying the invariant with
 * at most TMAX elements, not only about those some add-sequence reaches; that the reachable ones satisfy the invariant
 * is the induction  t_ctor (constructor establishes) + t_add (add preserves).
 *
 * BOUNDED: TMAX = 6 thresholds (|T| <= 6; add: |T| <= 6 before, <= 7 after).  Every loop (library loops over the
 * vector and the spec loops) is unwound with unwinding assertions: `unwind=` on each check. */
void *_Znwm(unsigned long);
#include "spec.h"
i128 g_x, g_y;                      /* ghost concrete points */
long g_n;
#define GRANGE (g_x > -ZB && g_x < ZB && g_y > -ZB && g_y < ZB)
#define HGHOSTS GHOSTG(i128, g_x); GHOSTG(i128, g_y)
#define T_CTOR  _ZN4crab10thresholdsIN4ikos8z_numberEEC2Em
#define T_SIZE  _ZNK4crab10thresholdsIN4ikos8z_numberEE4sizeEv
#define T_ADD   _ZN4crab10thresholdsIN4ikos8z_numberEE3addIS2_EEvRKNS1_5boundIT_EE
#define T_NEXT  _ZNK4crab10thresholdsIN4ikos8z_numberEE8get_nextIS2_EENS1_5boundIT_EERKS7_
#define T_PREV  _ZNK4crab10thresholdsIN4ikos8z_numberEE8get_prevIS2_EENS1_5boundIT_EERKS7_
#define I_WT    _ZNK4ikos8intervalINS_8z_numberEE19widening_thresholdsIN4crab10thresholdsIS1_EEEES2_RKS2_RKT_

/* ---- harness side: an arbitrary thresholds object (vector contents built directly) + witnesses */
static B wit_e[TMAX + 2]; static uint64_t wit_n, wit_cap, wit_lim;
static void mk_ts(TS *t){
  uint8_t kn, kc; uint64_t lim;
  long n = kn, cap = kc;
  if (n > TMAX + 1) n = TMAX + 1;
  if (cap < n) cap = n;
  if (cap > TMAX + 2) cap = TMAX + 2;
#ifdef TV   /* case split for the expensive checks (vary=TV:..): n = TV/2 thresholds, spare capacity TV%2 */
  n = TV / 2; cap = n + TV % 2;
#endif
  B *st = _Znwm((TMAX + 2) * sizeof(B));      /* operator new, as std::allocator would (models/rt_detalloc.c) */
  T_BEGIN(t) = st; T_END(t) = st + n; T_CAP(t) = st + cap; T_LIMIT(t) = lim;
  for (long i = 0; i < TMAX + 2; i++) if (i < n) wit_e[i] = st[i];
  wit_n = n; wit_cap = cap; wit_lim = lim; }
/* the witness statics are named in the harness text so that the driver reads them back from a counterexample */
#define MK_TS(t) TS t; mk_ts(&t); (void)&wit_e; (void)&wit_n; (void)&wit_cap; (void)&wit_lim

/* ---------------------------------------------------------------- constructor: establishes the invariant */
/* NOT bounded: there is no vector input; unwind=9 is structural (three push_backs, each reallocation moves at most
 * 2 elements) and the unwinding assertions hold for every input */
//@check id=t_ctor fn=_ZN4crab10thresholdsIN4ikos8z_numberEEC2Em props=C05 unwind=9
void T_CTOR(TS *self, uint64_t size)
__CPROVER_requires(FRESH(t_ctor, self, sizeof(TS)))
__CPROVER_assigns(*self)
__CPROVER_ensures(t_ok(self))
__CPROVER_ensures(t_n(self) == 3 && b_is_fin(T_E(self, 1), 0) && T_LIMIT(self) == size);
void h_t_ctor(void){ TS t; GHOST(uint64_t, size); T_CTOR(&t, size); REACH; }

/* ---------------------------------------------------------------- size() */
/* BOUNDED: |T| <= 6 */
//@check id=t_size fn=_ZNK4crab10thresholdsIN4ikos8z_numberEE4sizeEv props=C05 bounded="|T|<=6" unwind=9
uint32_t T_SIZE(TS *self)
__CPROVER_requires(FRESH(t_size, self, sizeof(TS)) && t_ok(self))
__CPROVER_assigns()
__CPROVER_ensures(__CPROVER_return_value == (uint32_t)t_n(self));
void h_t_size(void){ MK_TS(t); T_SIZE(&t); REACH; }

/* ---------------------------------------------------------------- add: preserves the invariant */
/* add(v): the invariant is preserved (with one more element at most); below the capacity limit v IS a threshold
 * afterwards (inserted, or it replaced its neighbour v-1 / v+1: "don't add consecutive thresholds"); at the
 * capacity limit nothing changes.
 * BOUNDED: |T| <= 6 before the call (<= 7 after).  Run as a case split (vary=TV): TV = 2n + s fixes the number n of
 * thresholds (2..6) and the spare capacity s (0: std::vector::insert reallocates, 1: it shifts in place); element
 * values, the added bound and m_size stay arbitrary.  quick runs 5 of the 10 cases, thorough all 10. */
//@check id=t_add fn=_ZN4crab10thresholdsIN4ikos8z_numberEE3addIS2_EEvRKNS1_5boundIT_EE props=C05 bounded="|T|<=6" unwind=9 vary=TV:4,7,8,11,12 vary_thorough=TV:4-13 timeout=600 first_timeout=300 cost=5
void T_ADD(TS *self, B *v)
__CPROVER_requires(FRESH(t_add, self, sizeof(TS)) && FRESH(t_add, v, sizeof(B)) && t_ok(self) && b_ok(*v) && g_n == t_n(self))   /* g_n: ghost, the number of thresholds on entry */
__CPROVER_assigns(*self, __CPROVER_object_whole(T_BEGIN(self)))
__CPROVER_frees(T_BEGIN(self))
__CPROVER_ensures(t_okn(self, TMAX + 1))
__CPROVER_ensures(t_n(self) == g_n || t_n(self) == g_n + 1)
__CPROVER_ensures(T_LIMIT(self) == __CPROVER_old(T_LIMIT(self)))
__CPROVER_ensures(((uint64_t)g_n < T_LIMIT(self)) ==> t_mem(self, *v))
__CPROVER_ensures(((uint64_t)g_n >= T_LIMIT(self)) ==> (t_n(self) == g_n && T_BEGIN(self) == __CPROVER_old(T_BEGIN(self))));
void h_t_add(void){ MK_TS(t); IN(B, v); GHOSTG(long, g_n); T_ADD(&t, &v); REACH; }

/* ---------------------------------------------------------------- get_next / get_prev */
/* BOUNDED: |T| <= 6 */
//@check id=t_next fn=_ZNK4crab10thresholdsIN4ikos8z_numberEE8get_nextIS2_EENS1_5boundIT_EERKS7_ props=C05 bounded="|T|<=6" unwind=9
void T_NEXT(B *ret, TS *self, B *v)
__CPROVER_requires(FRESH(t_next, ret, sizeof(B)) && FRESH(t_next, self, sizeof(TS)) && FRESH(t_next, v, sizeof(B)) && t_ok(self) && b_ok(*v))
__CPROVER_assigns(*ret)
__CPROVER_ensures(POST_get_next(self, *v, *ret));
void h_t_next(void){ MK_TS(t); IN(B, v); B r; T_NEXT(&r, &t, &v); REACH; }
/* BOUNDED: |T| <= 6 */
//@check id=t_prev fn=_ZNK4crab10thresholdsIN4ikos8z_numberEE8get_prevIS2_EENS1_5boundIT_EERKS7_ props=C05 bounded="|T|<=6" unwind=9
void T_PREV(B *ret, TS *self, B *v)
__CPROVER_requires(FRESH(t_prev, ret, sizeof(B)) && FRESH(t_prev, self, sizeof(TS)) && FRESH(t_prev, v, sizeof(B)) && t_ok(self) && b_ok(*v))
__CPROVER_assigns(*ret)
__CPROVER_ensures(POST_get_prev(self, *v, *ret));
void h_t_prev(void){ MK_TS(t); IN(B, v); B r; T_PREV(&r, &t, &v); REACH; }

/* ---------------------------------------------------------------- interval::widening_thresholds(x, ts) */
/* upper bound of both arguments (ghost point and order form), each bound is kept or moves to a threshold beyond it,
 * stationary when x <= self, otherwise the rank (thresholds strictly beyond the bounds) strictly decreases.
 * get_next / get_prev are replaced by their contracts above (proved in t_next / t_prev).
 * BOUNDED: |T| <= 6 (through the spec loops and the bounded proofs of get_next / get_prev). */
//@check id=i_widen_ts fn=_ZNK4ikos8intervalINS_8z_numberEE19widening_thresholdsIN4crab10thresholdsIS1_EEEES2_RKS2_RKT_ props=C05 bounded="|T|<=6" unwind=9 replace=_ZNK4crab10thresholdsIN4ikos8z_numberEE8get_nextIS2_EENS1_5boundIT_EERKS7_,_ZNK4crab10thresholdsIN4ikos8z_numberEE8get_prevIS2_EENS1_5boundIT_EERKS7_
void I_WT(I *ret, I *self, I *x, TS *ts)
__CPROVER_requires(FRESH(i_widen_ts, ret, sizeof(I)) && FRESH(i_widen_ts, self, sizeof(I)) && FRESH(i_widen_ts, x, sizeof(I)) && FRESH(i_widen_ts, ts, sizeof(TS)))
__CPROVER_requires(i_ok(*self) && i_ok(*x) && t_ok(ts) && TOP(i_widen_ts, GRANGE))
__CPROVER_assigns(*ret)
__CPROVER_ensures(i_ok(*ret))
__CPROVER_ensures(TOP(i_widen_ts, (i_has(*self, g_x) || i_has(*x, g_x)) ==> i_has(*ret, g_x)))
__CPROVER_ensures(POST_wt_upper(*self, *x, *ret))
__CPROVER_ensures(POST_wt_bounds(*self, *x, ts, *ret))
__CPROVER_ensures(POST_wt_stationary(*self, *x, *ret))
__CPROVER_ensures(POST_wt_rank(*self, *x, ts, *ret));
void h_i_widen_ts(void){ MK_TS(t); IN(I, a); IN(I, b); HGHOSTS; I r; I_WT(&r, &a, &b, &t); REACH; }
/* the same contract with the real get_next / get_prev (std::upper_bound / lower_bound) in line */
//@check id=i_widen_ts_inline fn=_ZNK4ikos8intervalINS_8z_numberEE19widening_thresholdsIN4crab10thresholdsIS1_EEEES2_RKS2_RKT_ tag=i_widen_ts harness=h_i_widen_ts tier=thorough props=C05 bounded="|T|<=6" unwind=9 timeout=600 first_timeout=300 cost=4

/* ---------------------------------------------------------------- rational bounds against integer thresholds
 * thresholds<z_number>::get_next<q_number> / get_prev<q_number>: the rational bound is rounded DOWN to an integer
 * (the real bounds_impl::convert_bounds of lib/interval.cpp, in line), searched, and the threshold converted back.
 * C05 needs: the result is a member of the set (an integer or an infinity) and result >= v (<= v) AS RATIONALS.
 * BOUNDED: |T| <= 6, |numerator| < 4096, 0 < denominator < 64 (q model in precise mode: machine division);
 * q_number is the model models/qmodel.c (pair numerator / denominator; rounding = floor / ceiling). */
#ifndef __cplusplus
typedef struct S_class_ikos__bound_0 QB;
static inline i128 qb_num(QB b){ return (i128)(((u128)b.f1.f0.a.f0.f1 << 64) | (u128)b.f1.f0.a.f0.f0); }
static inline i128 qb_den(QB b){ return (i128)(((u128)b.f1.f0.a.f1.f1 << 64) | (u128)b.f1.f0.a.f1.f0); }
static inline bool qb_pinf(QB b){ return b.f0 != 0 && qb_num(b) > 0; }
static inline bool qb_minf(QB b){ return b.f0 != 0 && qb_num(b) < 0; }
static inline bool qb_ok(QB b){ return b.f0 <= 1 && (b.f0 ? ((qb_num(b) == 1 || qb_num(b) == -1) && qb_den(b) == 1) : (qb_num(b) > -4096 && qb_num(b) < 4096 && qb_den(b) > 0 && qb_den(b) < 64)); }
/* the rational bound as an integer bound when it is one (denominator 1) */
static inline B qb_as_z(QB b){ B r; r.f0 = b.f0; ZSET(&r.f1, qb_num(b)); return r; }
/* a <= b as rationals (small operands: 64-bit products are exact) */
static inline bool qb_le(QB a, QB b){
  if (qb_minf(a) || qb_pinf(b)) return true;
  if (a.f0 || b.f0) return false;
  return (int64_t)qb_num(a) * (int64_t)qb_den(b) <= (int64_t)qb_num(b) * (int64_t)qb_den(a); }
#define T_NEXT_Q _ZNK4crab10thresholdsIN4ikos8z_numberEE8get_nextINS1_8q_numberEEENS1_5boundIT_EERKS8_
#define T_PREV_Q _ZNK4crab10thresholdsIN4ikos8z_numberEE8get_prevINS1_8q_numberEEENS1_5boundIT_EERKS8_
//@check id=t_next_q fn=_ZNK4crab10thresholdsIN4ikos8z_numberEE8get_nextINS1_8q_numberEEENS1_5boundIT_EERKS8_ props=C05 bounded="|T|<=6, rational bounds with |numerator| < 4096 and denominator < 64" unwind=9 defs=QM_PRECISE first_timeout=400 timeout=600
void T_NEXT_Q(QB *ret, TS *self, QB *v)
__CPROVER_requires(FRESH(t_next_q, ret, sizeof(QB)) && FRESH(t_next_q, self, sizeof(TS)) && FRESH(t_next_q, v, sizeof(QB)) && t_ok(self) && qb_ok(*v))
__CPROVER_assigns(*ret)
__CPROVER_ensures(ret->f0 <= 1 && qb_den(*ret) == 1 && t_mem(self, qb_as_z(*ret)))
__CPROVER_ensures(qb_le(*v, *ret))
__CPROVER_ensures(qb_pinf(*v) ==> qb_pinf(*ret));
void h_t_next_q(void){ MK_TS(t); IN(QB, v); QB r; T_NEXT_Q(&r, &t, &v); REACH; }
//@check id=t_prev_q fn=_ZNK4crab10thresholdsIN4ikos8z_numberEE8get_prevINS1_8q_numberEEENS1_5boundIT_EERKS8_ props=C05 bounded="|T|<=6, rational bounds with |numerator| < 4096 and denominator < 64" unwind=9 defs=QM_PRECISE first_timeout=400 timeout=600
void T_PREV_Q(QB *ret, TS *self, QB *v)
__CPROVER_requires(FRESH(t_prev_q, ret, sizeof(QB)) && FRESH(t_prev_q, self, sizeof(TS)) && FRESH(t_prev_q, v, sizeof(QB)) && t_ok(self) && qb_ok(*v))
__CPROVER_assigns(*ret)
__CPROVER_ensures(ret->f0 <= 1 && qb_den(*ret) == 1 && t_mem(self, qb_as_z(*ret)))
__CPROVER_ensures(qb_le(*ret, *v))
__CPROVER_ensures(qb_minf(*v) ==> qb_minf(*ret));
void h_t_prev_q(void){ MK_TS(t); IN(QB, v); QB r; T_PREV_Q(&r, &t, &v); REACH; }
#endif
