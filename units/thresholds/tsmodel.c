/* STOP-GAP for an extraction defect of tools/ll2c.py (reported to the lead, to be deleted when ll2c is fixed):
 * `getelementptr inbounds %T, %T* %p, i32 -1` is printed as `&p[((uint32_t)4294967295ULL)]` (index zero-extended
 * instead of sign-extended), so `--it` on a pointer moves +2^32-1 elements.  The three libstdc++ functions of this
 * unit that decrement a pointer that way are dropped from the extracted unit (unit.json override.drop) and
 * re-stated here: the text below IS the output of ll2c for them, with the index written `-1` — nothing else changed.
 *   __normal_iterator<bound*,vector>::operator--(), __normal_iterator<const bound*,vector>::operator--(),
 *   std::__copy_move_backward<true,false,random_access_iterator_tag>::__copy_move_b<bound*,bound*> */
#include "unit_types.h"
struct S_class_ikos__bound* _ZSt4moveIRN4ikos5boundINS0_8z_numberEEEEONSt16remove_referenceIT_E4typeEOS6_(struct S_class_ikos__bound*);
struct S_class_ikos__bound* _ZN4ikos5boundINS_8z_numberEEaSEOS2_(struct S_class_ikos__bound*, struct S_class_ikos__bound*);

struct S_class___gnu_cxx____normal_iterator_8* _ZN9__gnu_cxx17__normal_iteratorIPN4ikos5boundINS1_8z_numberEEESt6vectorIS4_SaIS4_EEEmmEv(struct S_class___gnu_cxx____normal_iterator_8* r_this) {
  struct S_class_ikos__bound** r__M_current;
  struct S_class_ikos__bound* r_0;
  struct S_class_ikos__bound* r_incdec_ptr;
  r__M_current = (&(*r_this).f0);
  r_0 = *r__M_current;
  r_incdec_ptr = (&r_0[-1]);
  *r__M_current = r_incdec_ptr;
  return r_this;
}

struct S_class___gnu_cxx____normal_iterator* _ZN9__gnu_cxx17__normal_iteratorIPKN4ikos5boundINS1_8z_numberEEESt6vectorIS4_SaIS4_EEEmmEv(struct S_class___gnu_cxx____normal_iterator* r_this) {
  struct S_class_ikos__bound** r__M_current;
  struct S_class_ikos__bound* r_0;
  struct S_class_ikos__bound* r_incdec_ptr;
  r__M_current = (&(*r_this).f0);
  r_0 = *r__M_current;
  r_incdec_ptr = (&r_0[-1]);
  *r__M_current = r_incdec_ptr;
  return r_this;
}

struct S_class_ikos__bound* _ZNSt20__copy_move_backwardILb1ELb0ESt26random_access_iterator_tagE13__copy_move_bIPN4ikos5boundINS3_8z_numberEEES7_EET0_T_S9_S8_(struct S_class_ikos__bound* r___first, struct S_class_ikos__bound* r___last, struct S_class_ikos__bound* r___result) {
  uint64_t r_sub_ptr_lhs_cast;
  uint64_t r_sub_ptr_rhs_cast;
  uint64_t r_sub_ptr_sub;
  uint64_t r_sub_ptr_div;
  struct S_class_ikos__bound* phi___result_addr_0;
  struct S_class_ikos__bound* r___result_addr_0;
  struct S_class_ikos__bound* phi___last_addr_0;
  struct S_class_ikos__bound* r___last_addr_0;
  uint64_t phi___n_0;
  uint64_t r___n_0;
  unsigned char r_cmp;
  struct S_class_ikos__bound* r_incdec_ptr;
  struct S_class_ikos__bound* r_call;
  struct S_class_ikos__bound* r_incdec_ptr1;
  struct S_class_ikos__bound* r_call2;
  uint64_t r_dec;
  r_sub_ptr_lhs_cast = ((uint64_t)r___last);
  r_sub_ptr_rhs_cast = ((uint64_t)r___first);
  r_sub_ptr_sub = ((uint64_t)(r_sub_ptr_lhs_cast - r_sub_ptr_rhs_cast));
  r_sub_ptr_div = ((uint64_t)(((int64_t)r_sub_ptr_sub) / ((int64_t)((uint64_t)24ULL))));
  { phi___result_addr_0 = r___result; phi___last_addr_0 = r___last; phi___n_0 = r_sub_ptr_div; goto L_for_cond; }
L_for_cond: ;
  while (1)  {
  r___result_addr_0 = phi___result_addr_0;
  r___last_addr_0 = phi___last_addr_0;
  r___n_0 = phi___n_0;
  r_cmp = (((int64_t)r___n_0) > ((int64_t)((uint64_t)0ULL)));
  if (r_cmp) {  goto L_for_body; } else {  goto L_for_end; }
L_for_body: ;
  r_incdec_ptr = (&r___last_addr_0[-1]);
  r_call = _ZSt4moveIRN4ikos5boundINS0_8z_numberEEEEONSt16remove_referenceIT_E4typeEOS6_(r_incdec_ptr);
  r_incdec_ptr1 = (&r___result_addr_0[-1]);
  r_call2 = _ZN4ikos5boundINS_8z_numberEEaSEOS2_(r_incdec_ptr1, r_call);
  {  goto L_for_inc; }
L_for_inc: ;
  r_dec = ((uint64_t)(((int64_t)r___n_0) + ((int64_t)((uint64_t)18446744073709551615ULL))));
  { phi___result_addr_0 = r_incdec_ptr1; phi___last_addr_0 = r_incdec_ptr; phi___n_0 = r_dec; continue; }
  }
L_for_end: ;
  return r___result_addr_0;
}
