// Native replay for unit thresholds: real crab::thresholds<z_number> and interval<z_number>::widening_thresholds of the
// working tree.  The real thresholds object is given exactly the witness's vector contents (m_thresholds is assigned
// directly, -fno-access-control), the real method is called, the real objects are converted to the model structs of
// spec.h (B, I, TS with a B array) and the contract's postcondition macros are evaluated.
#include <crab/domains/interval.hpp>
#include <crab/domains/interval_impl.hpp>
#include <crab/fixpoint/thresholds.hpp>
#include <../lib/interval.cpp>
#include "replay.h"
#include "spec.h"
using namespace ikos;
typedef bound<z_number> RB; typedef interval<z_number> RI; typedef crab::thresholds<z_number> RT;
static i128 zval(const z_number &z) {
  z_number a = z < z_number(0) ? -z : z; i128 r = 0, m = 1;
  z_number base(1); base = base << z_number(32);
  while (a > z_number(0)) { r += m * (i128)(int64_t)(a % base); a = a / base; m <<= 32; }
  return z < z_number(0) ? -r : r; }
static z_number mkz(i128 v) { bool neg = v < 0; u128 u = neg ? (u128)(-v) : (u128)v; z_number hi = z_number::from_uint64((uint64_t)(u >> 64)), lo = z_number::from_uint64((uint64_t)u);
  z_number r = (hi << z_number(64)) + lo; return neg ? -r : r; }
static i128 wz(const Wit &w, const std::string &p) { return (i128)(((u128)w.u(p + ".f0.a.f1") << 64) | (u128)w.u(p + ".f0.a.f0")); }
static i128 wg(const Wit &w, const char *n) { return (i128)(long long)w.u(n); }
static RB mkb(const Wit &w, const std::string &p) { bool inf = w.u(p + ".f0") != 0; i128 v = wz(w, p + ".f1"); if (inf) return v > 0 ? RB::plus_infinity() : RB::minus_infinity(); return RB(mkz(v)); }
static RI mki(const Wit &w, const std::string &p) { RI r; r._lb = mkb(w, p + ".f0"); r._ub = mkb(w, p + ".f1"); return r; }
static B toB(const RB &b) { return b.is_infinite() ? mkinf(b.is_plus_infinity() ? 1 : -1) : mkfin(zval(*b.number())); }
static I toI(const RI &i) { I m; m.f0 = toB(i._lb); m.f1 = toB(i._ub); return m; }
static void showb(const char *n, const RB &b) { crab::outs() << "  " << n << " = " << b << "\n"; }
static void showi(const char *n, const RI &i) { crab::outs() << "  " << n << " = [" << i._lb << ", " << i._ub << "]" << (i.is_bottom() ? " (bottom)" : "") << "\n"; }
static void showt(const char *n, const RT &t) { crab::outs() << "  " << n << " = " << t << " (m_size " << (unsigned long)t.m_size << ", capacity " << (unsigned long)t.m_thresholds.capacity() << ")\n"; }
// the real thresholds object of the witness: vector contents, spare capacity, m_size
static RT mkt(const Wit &w) {
  RT t((size_t)w.u("lim")); unsigned long n = w.u("n"), cap = w.u("cap");
  std::vector<RB> v; v.reserve(cap);
  for (unsigned long i = 0; i < n; i++) v.push_back(mkb(w, "e[" + std::to_string(i) + "]"));
  t.m_thresholds.swap(v); return t; }
// model view of a real thresholds object (storage owned by `st`)
static TS toT(const RT &t, std::vector<B> &st) {
  st.clear(); for (auto &b : t.m_thresholds) st.push_back(toB(b));
  st.reserve(st.size() + 1);
  TS m; T_BEGIN(&m) = st.data(); T_END(&m) = st.data() + st.size(); T_CAP(&m) = st.data() + st.size(); T_LIMIT(&m) = t.m_size; return m; }

REPLAY(t_ctor) { size_t size = (size_t)wit.u("size"); RT t(size); showt("result", t); std::vector<B> st; TS m = toT(t, st);
  return t_ok(&m) && t_n(&m) == 3 && b_is_fin(T_E(&m, 1), 0) && T_LIMIT(&m) == size; }
REPLAY(t_size) { RT t = mkt(wit); showt("self", t); std::vector<B> st; TS m = toT(t, st); return t.size() == (unsigned)t_n(&m); }
REPLAY(t_next) { RT t = mkt(wit); RB v = mkb(wit, "v"); showt("self", t); showb("v", v); RB r = t.get_next(v); showb("result", r);
  std::vector<B> st; TS m = toT(t, st); B mv = toB(v), mr = toB(r); return POST_get_next(&m, mv, mr); }
REPLAY(t_prev) { RT t = mkt(wit); RB v = mkb(wit, "v"); showt("self", t); showb("v", v); RB r = t.get_prev(v); showb("result", r);
  std::vector<B> st; TS m = toT(t, st); B mv = toB(v), mr = toB(r); return POST_get_prev(&m, mv, mr); }
REPLAY(t_add) { RT t = mkt(wit); RB v = mkb(wit, "v"); showt("self", t); showb("v", v); long g_n = (long)t.m_thresholds.size(); size_t lim = t.m_size; const RB *old = t.m_thresholds.data();
  t.add(v); showt("result", t); std::vector<B> st; TS m = toT(t, st); B mv = toB(v);
  return t_okn(&m, TMAX + 1) && (t_n(&m) == g_n || t_n(&m) == g_n + 1) && T_LIMIT(&m) == lim && (!((uint64_t)g_n < lim) || t_mem(&m, mv))
      && (!((uint64_t)g_n >= lim) || (t_n(&m) == g_n && t.m_thresholds.data() == old)); }
static bool replay_wt(const Wit &wit) { RT t = mkt(wit); RI a = mki(wit, "a"), b = mki(wit, "b"); i128 g_x = wg(wit, "g_x"); showt("ts", t); showi("self", a); showi("x", b); printf("  g_x = %lld\n", (long long)g_x);
  RI r = a.widening_thresholds(b, t); showi("result", r); std::vector<B> st; TS m = toT(t, st); I self = toI(a), x = toI(b), ret = toI(r);
  return i_ok(ret) && (!(i_has(self, g_x) || i_has(x, g_x)) || i_has(ret, g_x)) && POST_wt_upper(self, x, ret) && POST_wt_bounds(self, x, &m, ret) && POST_wt_stationary(self, x, ret) && POST_wt_rank(self, x, &m, ret); }
REPLAY(i_widen_ts) { return replay_wt(wit); }
REPLAY(i_widen_ts_inline) { return replay_wt(wit); }
int main(int argc, char **argv) { return replay_main(argc, argv); }
