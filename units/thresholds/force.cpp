// Forcing TU for crab::thresholds<z_number> (include/crab/fixpoint/thresholds.hpp) and
// interval<z_number>::widening_thresholds (include/crab/domains/interval.hpp).  No logic of its own: the real
// headers are included, the real lib/interval.cpp is included textually (it holds the explicit instantiations of
// bound<z_number> / interval<z_number> and the real bounds_impl::convert_bounds overloads that thresholds calls),
// and the class / member templates under contract are instantiated explicitly.
#include <crab/domains/interval_impl.hpp>
#include <crab/fixpoint/thresholds.hpp>
#include <../lib/interval.cpp>
typedef ikos::z_number ZN;
typedef ikos::bound<ZN> ZBound;
typedef ikos::interval<ZN> ZInterval;
typedef crab::thresholds<ZN> TS;
template class crab::thresholds<ZN>;
template void TS::add<ZN>(const ZBound &);
template ZBound TS::get_next<ZN>(const ZBound &) const;
template ZBound TS::get_prev<ZN>(const ZBound &) const;
template ZInterval ZInterval::widening_thresholds<TS>(const ZInterval &, const TS &) const;
// rational bounds against integer thresholds (convert_bounds rounds the rational DOWN before the search)
typedef ikos::q_number QN;
typedef ikos::bound<QN> QBound;
template QBound TS::get_next<QN>(const QBound &) const;
template QBound TS::get_prev<QN>(const QBound &) const;
