#ifndef _CRAB_CONFIG_H_
#define _CRAB_CONFIG_H_

/** Define whether lin-ldd is available */
/* #undef HAVE_LDD */

/** Define whether apron library is available */
/* #undef HAVE_APRON */

/** Define whether pplite library is available */
/* #undef HAVE_PPLITE */

/** Define whether elina library is available */
/* #undef HAVE_ELINA */

/** Define whether disable logging for debugging purposes */
/* #undef NCRABLOG */

/** Define whether collecting statistics */
#define CRAB_STATS TRUE

/** Use a generic wrapper for abstract domains in tests **/
/* #undef USE_GENERIC_WRAPPER */

#endif
