/* Specification vocabulary for the entry points of the fixpoint engine: interleaved_fwd_fixpoint_iterator<TCFG,GV>::run(init),
 * run(entry, init, assumptions) and initialize_invariant_tables() (units/fixrun/force.cpp).
 * C06 (first sentence): the iteration computes the LEAST solution "started at the CFG entry (or at any chosen block ...)
 * and under any assumption map": it must therefore start from BOTTOM at every block except the start block, which holds the
 * initial value -- whatever the tables held before (an iterator object may be run twice) -- and the WTO walk must be
 * handed exactly the requested start block and assumption map, with skipping switched on.
 * Technique: ghost monitor as in unit fixvisit.  The invariant tables are watched at ONE arbitrary ghost label g_lab with
 * ARBITRARY initial content (stale entries of an earlier run); wto::accept is a model that checks the state at that moment. */
#ifndef FIXRUN_SPEC_H
#define FIXRUN_SPEC_H
#include "verif.h"
#ifndef __cplusplus
#include "unit_types.h"
typedef struct S_class_ikos__interleaved_fwd_fixpoint_iterator IT;     /* f1 m_cfg, f2 m_wto, f3 m_absval_fac, f4 &m_params, f6 m_enable_processor, f7 m_pre, f8 m_post */
typedef struct S_class_ikos__interleaved_fwd_fixpoint_iterator_impl__wto_iterator WI;   /* f1 m_iterator, f2 m_entry, f3 &fac, f4 m_assumptions, f5 m_skip */
typedef struct S_class_ikos__interleaved_fwd_fixpoint_iterator_impl__wto_processor WP;  /* f1 m_iterator */
typedef struct S_class_std__unordered_map_21 TAB;
typedef struct S_struct_GV GV;
typedef struct S_class_ikos__wto WTO;
typedef struct S_struct_TCFG TCFG;
uint64_t __CPROVER_uninterpreted_fr_const(uint64_t);
#define BOT __CPROVER_uninterpreted_fr_const(0)
#define LMAX 2      /* BOUND: the CFG has at most 2 blocks (the loop of initialize_invariant_tables is unwound) */
extern IT *g_it; extern uint64_t g_nlab, g_labels[LMAX], g_cfg_entry;
extern uint64_t g_lab, g_pre_val, g_post_val; extern uint8_t g_pre_has, g_post_has;          /* the tables at the ghost label */
extern uint64_t g_want_entry, g_want_init; extern TAB *g_want_assumptions;                     /* what run() was asked for */
extern uint32_t g_accepts; extern uint8_t g_first_ok, g_second_ok;
extern uint32_t _ZN4crab13CrabVerbosityE; extern uint8_t _ZN4crab11CrabLogFlagE;
#define VERBOSITY _ZN4crab13CrabVerbosityE
#define LOGFLAG _ZN4crab11CrabLogFlagE
extern const struct anon_f0db2cc371 _ZTVN4ikos38interleaved_fwd_fixpoint_iterator_impl12wto_iteratorI4TCFG2GVEE;
extern const struct anon_f0db2cc371 _ZTVN4ikos38interleaved_fwd_fixpoint_iterator_impl13wto_processorI4TCFG2GVEE;
static inline bool lab_in_cfg(uint64_t l){ return (g_nlab >= 1 && g_labels[0] == l) || (g_nlab >= 2 && g_labels[1] == l); }
#endif
#endif
