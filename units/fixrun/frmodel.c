/* Models for unit fixrun (see spec.h and unit.json "assumptions"). */
#include "spec.h"
IT *g_it; uint64_t g_nlab, g_labels[LMAX], g_cfg_entry;
uint64_t g_lab, g_pre_val, g_post_val; uint8_t g_pre_has, g_post_has;
uint64_t g_want_entry, g_want_init; TAB *g_want_assumptions;
uint32_t g_accepts; uint8_t g_first_ok, g_second_ok;
uint32_t _ZN4crab13CrabVerbosityE = 0; uint8_t _ZN4crab11CrabLogFlagE = 0;
uint64_t _ZNK2GV11make_bottomEv(GV *self){ return BOT; }
/* the CFG: at most LMAX labels */
uint64_t _ZNK4TCFG5entryEv(TCFG *c){ return g_cfg_entry; }
uint64_t *_ZNK4TCFG11label_beginEv(TCFG *c){ return g_labels; }
uint64_t *_ZNK4TCFG9label_endEv(TCFG *c){ return g_labels + g_nlab; }
/* ASSUMED: std::unordered_map<label,GV>::clear / emplace behave as on a map; watched at the ghost label g_lab.
 * emplace does NOT overwrite an existing binding (that is what makes a missing clear() observable). */
void _ZNSt13unordered_mapIm2GVSt4hashImESt8equal_toImESaISt4pairIKmS0_EEE5clearEv(TAB *m){
  if (m == &g_it->f7) g_pre_has = 0; else if (m == &g_it->f8) g_post_has = 0; else __CPROVER_assert(0, "clear() of an unknown table"); }
struct anon_f33eebbd24 _ZNSt13unordered_mapIm2GVSt4hashImESt8equal_toImESaISt4pairIKmS0_EEE7emplaceIJRS6_S0_EEES5_INSt8__detail14_Node_iteratorIS7_Lb0ELb0EEEbEDpOT_(TAB *m, uint64_t *label, GV *v){
  struct anon_f33eebbd24 r; uint8_t ins = 0;
  if (m == &g_it->f7) { if (*label == g_lab && !g_pre_has) { g_pre_has = 1; g_pre_val = v->f0; ins = 1; } else if (*label != g_lab) { uint8_t nd; ins = nd & 1; } }
  else if (m == &g_it->f8) { if (*label == g_lab && !g_post_has) { g_post_has = 1; g_post_val = v->f0; ins = 1; } else if (*label != g_lab) { uint8_t nd; ins = nd & 1; } }
  else __CPROVER_assert(0, "emplace() into an unknown table");
  r.f0 = 0; r.f1 = ins; return r; }
/* ASSUMED: set_pre(l, v) binds l to v in m_pre (overwriting) */
void _ZN4ikos33interleaved_fwd_fixpoint_iteratorI4TCFG2GVE7set_preEmRKS2_(IT *it, uint64_t l, GV *v){
  __CPROVER_assert(it == g_it, "set_pre on the iterator being run");
  if (l == g_lab) { g_pre_has = 1; g_pre_val = v->f0; } }
/* the WTO walk: a model that CHECKS the state in which it is started */
void _ZN4ikos3wtoI4TCFGE6acceptEPNS_21wto_component_visitorIS1_EE(WTO *w, struct S_class_ikos__wto_component_visitor *v){
  __CPROVER_assert(w == &g_it->f2, "the WTO of the iterator's own CFG is walked");
  if (g_accepts == 0) {
    WI *wi = (WI *)v;
    __CPROVER_assert(*(void **)v == (void *)&_ZTVN4ikos38interleaved_fwd_fixpoint_iterator_impl12wto_iteratorI4TCFG2GVEE.f0.a[2], "the first walk is the fixpoint iteration");
    __CPROVER_assert(wi->f1 == g_it && wi->f2 == g_want_entry && wi->f4 == g_want_assumptions && wi->f5 == 1, "the iteration is handed the requested start block and assumption map, with skipping on until the start block is met");
    /* C06: least solution = start from bottom everywhere, the initial value at the start block, whatever the tables held */
    if (g_lab == g_want_entry)
      __CPROVER_assert(g_pre_has && g_pre_val == g_want_init, "the start block's pre-invariant is the initial value");
    else if (lab_in_cfg(g_lab))
      __CPROVER_assert(g_pre_has && g_pre_val == BOT, "every other block of the CFG starts with pre-invariant bottom (stale values of an earlier run are gone)");
    else
      __CPROVER_assert(!g_pre_has, "no pre-invariant for labels that are not blocks of the CFG");
    if (lab_in_cfg(g_lab))
      __CPROVER_assert(g_post_has && g_post_val == BOT, "every block of the CFG starts with post-invariant bottom (stale values of an earlier run are gone)");
    else
      __CPROVER_assert(!g_post_has, "no post-invariant for labels that are not blocks of the CFG");
    g_first_ok = 1;
  } else {
    __CPROVER_assert(g_accepts == 1 && g_it->f6 != 0, "a second walk happens only for post-processing, when it is enabled");
    __CPROVER_assert(*(void **)v == (void *)&_ZTVN4ikos38interleaved_fwd_fixpoint_iterator_impl13wto_processorI4TCFG2GVEE.f0.a[2] && ((WP *)v)->f1 == g_it, "the second walk is the invariant processor of this iterator");
    g_second_ok = 1;
  }
  g_accepts++; }
/* statistics: effect-free; logging: unreachable (verbosity 0, log flag off) */
void _ZN4crab15ScopedCrabStatsC1ERKNSt7__cxx1112basic_stringIcSt11char_traitsIcESaIcEEEb(void *self, void *name, unsigned char reset){}
void _ZN4crab15ScopedCrabStatsD1Ev(void *self){}
void _ZNSaIcEC1Ev(void *self){}
void _ZNSaIcED1Ev(void *self){}
void _ZNSt7__cxx1112basic_stringIcSt11char_traitsIcESaIcEEC1EPKcRKS3_(void *self, const char *s, void *a){}
void _ZNSt7__cxx1112basic_stringIcSt11char_traitsIcESaIcEED1Ev(void *self){}
void *_ZN4crab14get_msg_streamEb(unsigned char ts){ __CPROVER_assume(0); return 0; }
#define UNREACHABLE_STUB(msg) { __CPROVER_assert(0, msg); __CPROVER_assume(0); }
void *_ZlsRN4crab7crab_osERK2GV(void *o, GV *v){ UNREACHABLE_STUB("only logging prints abstract values"); return o; }
void *_ZN4ikoslsERN4crab7crab_osERKNS_3wtoI4TCFGEE(void *o, WTO *w){ UNREACHABLE_STUB("only logging prints the WTO"); return o; }
void _ZN4crab18basic_block_traitsI3TBBE9to_stringB5cxx11ERKm(void *ret, uint64_t *l){ UNREACHABLE_STUB("only logging prints block labels"); }
unsigned char _ZNK4TCFG13has_func_declEv(void *cfg){ UNREACHABLE_STUB("only logging asks for the function name"); return 0; }
void *_ZNK4TCFG13get_func_declEv(void *cfg){ UNREACHABLE_STUB("only logging asks for the function name"); return 0; }
void _ZNK3TFD13get_func_nameB5cxx11Ev(void *ret, void *fd){ UNREACHABLE_STUB("only logging asks for the function name"); }
