/* Contracts for interleaved_fwd_fixpoint_iterator<TCFG,GV>::run(init) and run(entry, init, assumptions) -- property C06,
 * first sentence: least solution "started at the CFG entry (or at any chosen block ...) and under any assumption map".
 * See spec.h.  REAL code in line: run, initialize_invariant_tables, clear / clear_pre / clear_post, both wto_iterator
 * constructors, the wto_processor constructor, the destructors.  BOUNDED: at most 2 blocks. */
#include "spec.h"
#define RUN1 _ZN4ikos33interleaved_fwd_fixpoint_iteratorI4TCFG2GVE3runES2_
#define RUN3 _ZN4ikos33interleaved_fwd_fixpoint_iteratorI4TCFG2GVE3runEmS2_RKSt13unordered_mapImS2_St4hashImESt8equal_toImESaISt4pairIKmS2_EEE
#define RUN_PRE(self) (VERBOSITY == 0 && LOGFLAG == 0 && g_it == (self) && g_nlab <= LMAX && g_accepts == 0 && g_first_ok == 0 && g_second_ok == 0 && (self)->f6 <= 1)
#define RUN_ASSIGNS g_pre_has, g_pre_val, g_post_has, g_post_val, g_accepts, g_first_ok, g_second_ok
#define RUN_POST(self) (g_first_ok == 1 && g_accepts == ((self)->f6 ? 2 : 1) && g_second_ok == ((self)->f6 ? 1 : 0))
/* run(init): start block = the CFG's entry, no assumptions */
//@check id=run_init fn=_ZN4ikos33interleaved_fwd_fixpoint_iteratorI4TCFG2GVE3runES2_ props=C06 unwind=4 bounded="CFG with at most 2 blocks (the loop over the blocks is unwound); the invariant tables are watched at one arbitrary label"
void RUN1(IT *self, uint64_t init)
__CPROVER_requires(RUN_PRE(self) && g_want_entry == g_cfg_entry && g_want_init == init && g_want_assumptions == 0)
__CPROVER_assigns(RUN_ASSIGNS)
__CPROVER_ensures(RUN_POST(self));
static IT h_it; static struct S_class_crab__fixpoint_parameters h_params; static TAB h_amap;
#define MK_SCENARIO \
  GHOST(uint64_t, nlab); GHOST(uint64_t, l0); GHOST(uint64_t, l1); GHOST(uint64_t, centry); GHOST(uint64_t, lab); GHOST(uint64_t, init); GHOST(uint8_t, proc); \
  GHOST(uint8_t, pre_has); GHOST(uint64_t, pre_val); GHOST(uint8_t, post_has); GHOST(uint64_t, post_val); \
  VERBOSITY = 0; LOGFLAG = 0; h_it.f4 = &h_params; h_it.f6 = proc & 1; g_it = &h_it; \
  g_nlab = nlab; g_labels[0] = l0; g_labels[1] = l1; g_cfg_entry = centry; g_lab = lab; \
  g_pre_has = pre_has & 1; g_pre_val = pre_val; g_post_has = post_has & 1; g_post_val = post_val;   /* stale content of an earlier run */ \
  g_accepts = 0; g_first_ok = 0; g_second_ok = 0; g_want_init = init
void h_run_init(void){ MK_SCENARIO; g_want_entry = centry; g_want_assumptions = 0; RUN1(&h_it, init); REACH; }
/* run(entry, init, assumptions): start block and assumption map as requested */
//@check id=run_entry fn=_ZN4ikos33interleaved_fwd_fixpoint_iteratorI4TCFG2GVE3runEmS2_RKSt13unordered_mapImS2_St4hashImESt8equal_toImESaISt4pairIKmS2_EEE props=C06 unwind=4 bounded="CFG with at most 2 blocks (the loop over the blocks is unwound); the invariant tables are watched at one arbitrary label"
void RUN3(IT *self, uint64_t entry, uint64_t init, TAB *assumptions)
__CPROVER_requires(RUN_PRE(self) && g_want_entry == entry && g_want_init == init && g_want_assumptions == assumptions)
__CPROVER_assigns(RUN_ASSIGNS)
__CPROVER_ensures(RUN_POST(self));
void h_run_entry(void){ MK_SCENARIO; GHOST(uint64_t, entry); g_want_entry = entry; g_want_assumptions = &h_amap; RUN3(&h_it, entry, init, &h_amap); REACH; }
