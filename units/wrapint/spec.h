/* Specification vocabulary for crab::wrapint (lib/wrapint.cpp).  Shared by contracts.c (CBMC) and
 * replay.cpp (native).  W is the compiler's own lowering of the class: f0=_n, f1=_width, f2=_mod. */
#ifndef WRAPINT_SPEC_H
#define WRAPINT_SPEC_H
#include "verif.h"
#include "unit_types.h"
typedef struct S_class_crab__wrapint W;
static inline uint64_t msk(uint64_t w){ return w >= 64 ? ~(uint64_t)0 : (((uint64_t)1 << w) - 1); }
/* representation invariant: 1 <= width <= 64, n < 2^width, mod = 2^width (0 when width = 64) */
static inline bool w_ok(W x){ return x.f1 >= 1 && x.f1 <= 64 && x.f0 <= msk(x.f1) && x.f2 == (x.f1 == 64 ? 0 : ((uint64_t)1 << x.f1)); }
static inline bool w_is(W x, uint64_t w, uint64_t n){ return w_ok(x) && x.f1 == w && x.f0 == n; }
/* signed view of an n < 2^w */
static inline i128 sxv(uint64_t n, uint64_t w){ return ((n >> (w - 1)) & 1) ? (i128)n - ((i128)1 << w) : (i128)n; }
/* reduction of a mathematical integer modulo 2^w */
static inline uint64_t wrapz(i128 v, uint64_t w){ return (uint64_t)(u128)v & msk(w); }
/* floor shift of a mathematical integer */
static inline i128 fshr(i128 v, uint64_t k){ return v < 0 ? ~((~v) >> k) : (v >> k); }
#ifdef __cplusplus
static inline i128 ZM_div(i128 a, i128 b){ return a / b; }
static inline i128 ZM_rem(i128 a, i128 b){ return a % b; }
#else
i128 ZM_div(i128 a, i128 b); i128 ZM_rem(i128 a, i128 b);
#endif
#ifdef WID
#define FIXW(w) ((w) == WID)
#else
#define FIXW(w) 1
#endif
#define PRE2(self, x) (w_ok(*(self)) && w_ok(*(x)) && (self)->f1 == (x)->f1 && FIXW((self)->f1))
#define PRE1(self) (w_ok(*(self)) && FIXW((self)->f1))
#define N(p) ((p)->f0)
#define WD(p) ((p)->f1)

#define POST_add(r,s,x)   w_is(*(r), WD(s), (N(s) + N(x)) & msk(WD(s)))
#define POST_sub(r,s,x)   w_is(*(r), WD(s), (N(s) - N(x)) & msk(WD(s)))
/* low 64 bits of the product are the product modulo 2^64, hence modulo 2^w */
#define POST_mul(r,s,x)   w_is(*(r), WD(s), (N(s) * N(x)) & msk(WD(s)))
#define POST_neg(r,s)     w_is(*(r), WD(s), ((uint64_t)0 - N(s)) & msk(WD(s)))
/* quotient and remainder never exceed the dividend; the mask states "modulo 2^w" literally */
#define POST_udiv(r,s,x)  w_is(*(r), WD(s), (N(s) / N(x)) & msk(WD(s)))
#define POST_urem(r,s,x)  w_is(*(r), WD(s), (N(s) % N(x)) & msk(WD(s)))
#define POST_sdiv(r,s,x)  w_is(*(r), WD(s), wrapz(ZM_div(sxv(N(s), WD(s)), sxv(N(x), WD(s))), WD(s)))
#define POST_srem(r,s,x)  w_is(*(r), WD(s), wrapz(ZM_rem(sxv(N(s), WD(s)), sxv(N(x), WD(s))), WD(s)))
#define POST_and(r,s,x)   w_is(*(r), WD(s), N(s) & N(x))
#define POST_or(r,s,x)    w_is(*(r), WD(s), N(s) | N(x))
#define POST_xor(r,s,x)   w_is(*(r), WD(s), N(s) ^ N(x))
#define POST_shl(r,s,x)   w_is(*(r), WD(s), (N(s) << N(x)) & msk(WD(s)))
#define POST_lshr(r,s,x)  w_is(*(r), WD(s), N(s) >> N(x))
#define POST_ashr(r,s,x)  w_is(*(r), WD(s), wrapz(fshr(sxv(N(s), WD(s)), N(x)), WD(s)))
#define POST_sext(r,s,b)  w_is(*(r), WD(s) + (b), wrapz(sxv(N(s), WD(s)), WD(s) + (b)))
#define POST_zext(r,s,b)  w_is(*(r), WD(s) + (b), N(s))
#define POST_keep_lower(r,s,b) ((b) >= WD(s) ? w_is(*(r), WD(s), N(s)) : w_is(*(r), (b), N(s) & msk(b)))
#define POST_ctor_nw(s,n,w) w_is(*(s), (w), (n) & msk(w))
#define POST_smax(r,w)    w_is(*(r), (w), msk(w) >> 1)
#define POST_smin(r,w)    w_is(*(r), (w), (uint64_t)1 << ((w) - 1))
#define POST_umax(r,w)    w_is(*(r), (w), msk(w))
#define POST_umin(r,w)    w_is(*(r), (w), 0)
#endif
