/* Contracts of crab::wrapint (declarations only).  Proved in unit wrapint (contracts.c includes this file and adds
 * the harnesses); other units include it to REPLACE wrapint calls by these contracts (then they are assumptions of
 * that unit, discharged here). */
#ifndef WRAPINT_CONTRACTS_H
#define WRAPINT_CONTRACTS_H
#include "spec.h"
#include "zmodel.h"
typedef struct S_class_ikos__q_number Q;
#define BIN_CONTRACT(tag, fn, EXTRA, POST) \
void fn(W *ret, W *self, W *x) \
__CPROVER_requires(FRESH(tag, ret, sizeof(W)) && FRESH(tag, self, sizeof(W)) && FRESH(tag, x, sizeof(W))) \
__CPROVER_requires(PRE2(self, x) && (EXTRA)) \
__CPROVER_assigns(*ret) \
__CPROVER_ensures(POST(ret, self, x));
#define CMP_CONTRACT(tag, fn, OP) \
unsigned char fn(W *self, W *x) \
__CPROVER_requires(FRESH(tag, self, sizeof(W)) && FRESH(tag, x, sizeof(W))) \
__CPROVER_requires(PRE2(self, x)) \
__CPROVER_assigns() \
__CPROVER_ensures(__CPROVER_return_value == (N(self) OP N(x)));
#define ASG_CONTRACT(tag, fn, OP) \
W *fn(W *self, W *x) \
__CPROVER_requires(FRESH(tag, self, sizeof(W)) && FRESH(tag, x, sizeof(W))) \
__CPROVER_requires(PRE2(self, x)) \
__CPROVER_assigns(*self) \
__CPROVER_ensures(__CPROVER_return_value == self) \
__CPROVER_ensures(w_is(*self, __CPROVER_old(self->f1), (__CPROVER_old(self->f0) OP N(x)) & msk(__CPROVER_old(self->f1))));
#define STATICW_CONTRACT(tag, fn, POST) \
void fn(W *ret, uint64_t w) \
__CPROVER_requires(FRESH(tag, ret, sizeof(W)) && w >= 1 && w <= 64 && FIXW(w)) \
__CPROVER_assigns(*ret) \
__CPROVER_ensures(POST(ret, w));
#define QUERY_CONTRACT(tag, fn, RT, EXPR) \
RT fn(W *self) \
__CPROVER_requires(FRESH(tag, self, sizeof(W)) && PRE1(self)) \
__CPROVER_assigns() \
__CPROVER_ensures(__CPROVER_return_value == (EXPR));
BIN_CONTRACT(add, _ZNK4crab7wrapintplES0_, 1, POST_add)
BIN_CONTRACT(sub, _ZNK4crab7wrapintmiES0_, 1, POST_sub)
BIN_CONTRACT(mul, _ZNK4crab7wrapintmlES0_, 1, POST_mul)
BIN_CONTRACT(udiv, _ZNK4crab7wrapint4udivES0_, N(x) != 0, POST_udiv)
BIN_CONTRACT(urem, _ZNK4crab7wrapint4uremES0_, N(x) != 0, POST_urem)
BIN_CONTRACT(sdiv, _ZNK4crab7wrapint4sdivES0_, N(x) != 0, POST_sdiv)
BIN_CONTRACT(srem, _ZNK4crab7wrapint4sremES0_, N(x) != 0, POST_srem)
BIN_CONTRACT(div_op, _ZNK4crab7wrapintdvES0_, N(x) != 0, POST_sdiv)
BIN_CONTRACT(rem_op, _ZNK4crab7wrapintrmES0_, N(x) != 0, POST_srem)
BIN_CONTRACT(and, _ZNK4crab7wrapintanES0_, 1, POST_and)
BIN_CONTRACT(or, _ZNK4crab7wrapintorES0_, 1, POST_or)
BIN_CONTRACT(xor, _ZNK4crab7wrapinteoES0_, 1, POST_xor)
BIN_CONTRACT(shl, _ZNK4crab7wrapintlsES0_, N(x) < WD(self), POST_shl)
BIN_CONTRACT(lshr, _ZNK4crab7wrapint4lshrES0_, N(x) < WD(self), POST_lshr)
BIN_CONTRACT(ashr, _ZNK4crab7wrapint4ashrES0_, N(x) < WD(self), POST_ashr)
CMP_CONTRACT(eq, _ZNK4crab7wrapinteqES0_, ==)
CMP_CONTRACT(ne, _ZNK4crab7wrapintneES0_, !=)
CMP_CONTRACT(lt, _ZNK4crab7wrapintltES0_, <)
CMP_CONTRACT(le, _ZNK4crab7wrapintleES0_, <=)
CMP_CONTRACT(gt, _ZNK4crab7wrapintgtES0_, >)
CMP_CONTRACT(ge, _ZNK4crab7wrapintgeES0_, >=)
ASG_CONTRACT(add_asg, _ZN4crab7wrapintpLES0_, +)
ASG_CONTRACT(sub_asg, _ZN4crab7wrapintmIES0_, -)
ASG_CONTRACT(mul_asg, _ZN4crab7wrapintmLES0_, *)
void _ZNK4crab7wrapintngEv(W *ret, W *self)
__CPROVER_requires(FRESH(neg, ret, sizeof(W)) && FRESH(neg, self, sizeof(W)) && PRE1(self))
__CPROVER_assigns(*ret)
__CPROVER_ensures(POST_neg(ret, self));
W *_ZN4crab7wrapintppEv(W *self)
__CPROVER_requires(FRESH(preinc, self, sizeof(W)) && PRE1(self))
__CPROVER_assigns(*self)
__CPROVER_ensures(__CPROVER_return_value == self && w_is(*self, __CPROVER_old(self->f1), (__CPROVER_old(self->f0) + 1) & msk(__CPROVER_old(self->f1))));
W *_ZN4crab7wrapintmmEv(W *self)
__CPROVER_requires(FRESH(predec, self, sizeof(W)) && PRE1(self))
__CPROVER_assigns(*self)
__CPROVER_ensures(__CPROVER_return_value == self && w_is(*self, __CPROVER_old(self->f1), (__CPROVER_old(self->f0) - 1) & msk(__CPROVER_old(self->f1))));
void _ZN4crab7wrapintppEi(W *ret, W *self, uint32_t dummy)
__CPROVER_requires(FRESH(postinc, ret, sizeof(W)) && FRESH(postinc, self, sizeof(W)) && PRE1(self))
__CPROVER_assigns(*ret, *self)
__CPROVER_ensures(w_is(*ret, __CPROVER_old(self->f1), __CPROVER_old(self->f0)))
__CPROVER_ensures(w_is(*self, __CPROVER_old(self->f1), (__CPROVER_old(self->f0) + 1) & msk(__CPROVER_old(self->f1))));
void _ZN4crab7wrapintmmEi(W *ret, W *self, uint32_t dummy)
__CPROVER_requires(FRESH(postdec, ret, sizeof(W)) && FRESH(postdec, self, sizeof(W)) && PRE1(self))
__CPROVER_assigns(*ret, *self)
__CPROVER_ensures(w_is(*ret, __CPROVER_old(self->f1), __CPROVER_old(self->f0)))
__CPROVER_ensures(w_is(*self, __CPROVER_old(self->f1), (__CPROVER_old(self->f0) - 1) & msk(__CPROVER_old(self->f1))));
void _ZNK4crab7wrapint4sextEm(W *ret, W *self, uint64_t bits)
__CPROVER_requires(FRESH(sext, ret, sizeof(W)) && FRESH(sext, self, sizeof(W)) && PRE1(self) && bits <= 64 && WD(self) + bits <= 64)
__CPROVER_assigns(*ret)
__CPROVER_ensures(POST_sext(ret, self, bits));
void _ZNK4crab7wrapint4zextEm(W *ret, W *self, uint64_t bits)
__CPROVER_requires(FRESH(zext, ret, sizeof(W)) && FRESH(zext, self, sizeof(W)) && PRE1(self) && bits <= 64 && WD(self) + bits <= 64)
__CPROVER_assigns(*ret)
__CPROVER_ensures(POST_zext(ret, self, bits));
void _ZNK4crab7wrapint10keep_lowerEm(W *ret, W *self, uint64_t bits)
__CPROVER_requires(FRESH(keep_lower, ret, sizeof(W)) && FRESH(keep_lower, self, sizeof(W)) && PRE1(self) && bits >= 1)
__CPROVER_assigns(*ret)
__CPROVER_ensures(POST_keep_lower(ret, self, bits));
void _ZN4crab7wrapintC2Emm(W *self, uint64_t n, uint64_t w)
__CPROVER_requires(FRESH(ctor_nw, self, sizeof(W)) && w >= 1 && w <= 64 && FIXW(w))
__CPROVER_assigns(*self)
__CPROVER_ensures(POST_ctor_nw(self, n, w));
void _ZN4crab7wrapintC2EN4ikos8z_numberEm(W *self, Z *n, uint64_t w)
__CPROVER_requires(FRESH(ctor_z, self, sizeof(W)) && FRESH(ctor_z, n, sizeof(Z)) && w >= 1 && w <= 64 && FIXW(w))
__CPROVER_requires(ZV(n) >= -((i128)1 << 63) && ZV(n) < ((i128)1 << 63))
__CPROVER_assigns(*self)
__CPROVER_ensures(w_is(*self, w, wrapz(ZV(n), w)));
i128 QM_ceil(i128, i128);
#define QV(q, i) ((i128)(((u128)(q)->f0.a.i.f1 << 64) | (u128)(q)->f0.a.i.f0))
void _ZN4crab7wrapintC2EN4ikos8q_numberEm(W *self, Q *n, uint64_t w)
__CPROVER_requires(FRESH(ctor_q, self, sizeof(W)) && FRESH(ctor_q, n, sizeof(Q)) && w >= 1 && w <= 64 && FIXW(w))
__CPROVER_requires(QM_ceil(QV(n, f0), QV(n, f1)) >= -((i128)1 << 63) && QM_ceil(QV(n, f0), QV(n, f1)) < ((i128)1 << 63))
__CPROVER_assigns(*self)
__CPROVER_ensures(w_is(*self, w, wrapz(QM_ceil(QV(n, f0), QV(n, f1)), w)));
STATICW_CONTRACT(smax, _ZN4crab7wrapint14get_signed_maxEm, POST_smax)
STATICW_CONTRACT(smin, _ZN4crab7wrapint14get_signed_minEm, POST_smin)
STATICW_CONTRACT(umax, _ZN4crab7wrapint16get_unsigned_maxEm, POST_umax)
STATICW_CONTRACT(umin, _ZN4crab7wrapint16get_unsigned_minEm, POST_umin)
QUERY_CONTRACT(msb, _ZNK4crab7wrapint3msbEv, unsigned char, (N(self) >> (WD(self) - 1)) & 1)
QUERY_CONTRACT(is_zero, _ZNK4crab7wrapint7is_zeroEv, unsigned char, N(self) == 0)
QUERY_CONTRACT(get_uint64, _ZNK4crab7wrapint12get_uint64_tEv, uint64_t, N(self))
QUERY_CONTRACT(get_bitwidth, _ZNK4crab7wrapint12get_bitwidthEv, uint64_t, WD(self))
void _ZNK4crab7wrapint19get_unsigned_bignumEv(Z *ret, W *self)
__CPROVER_requires(FRESH(ubignum, ret, sizeof(Z)) && FRESH(ubignum, self, sizeof(W)) && PRE1(self))
__CPROVER_assigns(*ret)
__CPROVER_ensures(ZV(ret) == (i128)(u128)N(self));
void _ZNK4crab7wrapint17get_signed_bignumEv(Z *ret, W *self)
__CPROVER_requires(FRESH(sbignum, ret, sizeof(Z)) && FRESH(sbignum, self, sizeof(W)) && PRE1(self))
__CPROVER_assigns(*ret)
__CPROVER_ensures(ZV(ret) == sxv(N(self), WD(self)));
unsigned char _ZN4crab7wrapint12fits_wrapintEN4ikos8z_numberEm(Z *n, uint64_t w)
__CPROVER_requires(FRESH(fits_z, n, sizeof(Z)))
__CPROVER_assigns()
__CPROVER_ensures(__CPROVER_return_value == (w <= 64 && ZV(n) >= -((i128)1 << 63) && ZV(n) < ((i128)1 << 63)));
#endif
