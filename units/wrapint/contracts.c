/* Contracts for crab::wrapint (lib/wrapint.cpp) — property C13, value level.
 * Every function is proved for ALL widths 1..64 and all operands in one query unless WID fixes the width.
 * The contract declarations live in wrapint_contracts.h (shared with units that replace wrapint calls). */
#include "wrapint_contracts.h"

#define BIN(tag, fn, EXTRA, POST) void h_##tag(void){ IN(W, a); IN(W, b); W r; fn(&r, &a, &b); REACH; }
#define CMP(tag, fn, OP) void h_##tag(void){ IN(W, a); IN(W, b); fn(&a, &b); REACH; }
#define ASG(tag, fn, OP) void h_##tag(void){ IN(W, a); IN(W, b); fn(&a, &b); REACH; }
#define STATICW(tag, fn, POST) void h_##tag(void){ GHOST(uint64_t, w); W r; fn(&r, w); REACH; }
#define QUERY(tag, fn, RT, EXPR) void h_##tag(void){ IN(W, a); fn(&a); REACH; }



/* compound assignment: returns this, *this updated, nothing else */


//@check id=add fn=_ZNK4crab7wrapintplES0_ props=C13
BIN(add, _ZNK4crab7wrapintplES0_, 1, POST_add)
//@check id=sub fn=_ZNK4crab7wrapintmiES0_ props=C13
BIN(sub, _ZNK4crab7wrapintmiES0_, 1, POST_sub)
//@check id=mul fn=_ZNK4crab7wrapintmlES0_ props=C13 backends=minisat,kissat,cvc5,z3 first_timeout=30 timeout=400 cost=5
BIN(mul, _ZNK4crab7wrapintmlES0_, 1, POST_mul)
//@check id=udiv fn=_ZNK4crab7wrapint4udivES0_ props=C13 backends=cvc5,z3,kissat timeout=400 first_timeout=200 cost=5
BIN(udiv, _ZNK4crab7wrapint4udivES0_, N(x) != 0, POST_udiv)
//@check id=urem fn=_ZNK4crab7wrapint4uremES0_ props=C13 backends=cvc5,z3,kissat timeout=400 first_timeout=200 cost=5
BIN(urem, _ZNK4crab7wrapint4uremES0_, N(x) != 0, POST_urem)
//@check id=sdiv fn=_ZNK4crab7wrapint4sdivES0_ props=C13 backends=cvc5,minisat timeout=400 first_timeout=200 cost=5
BIN(sdiv, _ZNK4crab7wrapint4sdivES0_, N(x) != 0, POST_sdiv)
//@check id=srem fn=_ZNK4crab7wrapint4sremES0_ props=C13 timeout=400 cost=5
BIN(srem, _ZNK4crab7wrapint4sremES0_, N(x) != 0, POST_srem)
//@check id=div_op fn=_ZNK4crab7wrapintdvES0_ props=C13 timeout=400 cost=5
BIN(div_op, _ZNK4crab7wrapintdvES0_, N(x) != 0, POST_sdiv)
//@check id=rem_op fn=_ZNK4crab7wrapintrmES0_ props=C13 timeout=400 cost=5
BIN(rem_op, _ZNK4crab7wrapintrmES0_, N(x) != 0, POST_srem)
//@check id=and fn=_ZNK4crab7wrapintanES0_ props=C13
BIN(and, _ZNK4crab7wrapintanES0_, 1, POST_and)
//@check id=or fn=_ZNK4crab7wrapintorES0_ props=C13
BIN(or, _ZNK4crab7wrapintorES0_, 1, POST_or)
//@check id=xor fn=_ZNK4crab7wrapinteoES0_ props=C13
BIN(xor, _ZNK4crab7wrapinteoES0_, 1, POST_xor)
/* shifts: amount < width (as for LLVM/C shifts; larger amounts are outside the class's defined behaviour) */
//@check id=shl fn=_ZNK4crab7wrapintlsES0_ props=C13
BIN(shl, _ZNK4crab7wrapintlsES0_, N(x) < WD(self), POST_shl)
//@check id=lshr fn=_ZNK4crab7wrapint4lshrES0_ props=C13
BIN(lshr, _ZNK4crab7wrapint4lshrES0_, N(x) < WD(self), POST_lshr)
//@check id=ashr fn=_ZNK4crab7wrapint4ashrES0_ props=C13
BIN(ashr, _ZNK4crab7wrapint4ashrES0_, N(x) < WD(self), POST_ashr)

//@check id=eq fn=_ZNK4crab7wrapinteqES0_ props=C13
CMP(eq, _ZNK4crab7wrapinteqES0_, ==)
//@check id=ne fn=_ZNK4crab7wrapintneES0_ props=C13
CMP(ne, _ZNK4crab7wrapintneES0_, !=)
//@check id=lt fn=_ZNK4crab7wrapintltES0_ props=C13
CMP(lt, _ZNK4crab7wrapintltES0_, <)
//@check id=le fn=_ZNK4crab7wrapintleES0_ props=C13
CMP(le, _ZNK4crab7wrapintleES0_, <=)
//@check id=gt fn=_ZNK4crab7wrapintgtES0_ props=C13
CMP(gt, _ZNK4crab7wrapintgtES0_, >)
//@check id=ge fn=_ZNK4crab7wrapintgeES0_ props=C13
CMP(ge, _ZNK4crab7wrapintgeES0_, >=)

//@check id=add_asg fn=_ZN4crab7wrapintpLES0_ props=C13
ASG(add_asg, _ZN4crab7wrapintpLES0_, +)
//@check id=sub_asg fn=_ZN4crab7wrapintmIES0_ props=C13
ASG(sub_asg, _ZN4crab7wrapintmIES0_, -)
//@check id=mul_asg fn=_ZN4crab7wrapintmLES0_ props=C13 backends=minisat,kissat,cvc5,z3 first_timeout=30 timeout=400 cost=5
ASG(mul_asg, _ZN4crab7wrapintmLES0_, *)

//@check id=neg fn=_ZNK4crab7wrapintngEv props=C13
void h_neg(void){ IN(W, a); W r; _ZNK4crab7wrapintngEv(&r, &a); REACH; }

/* ++x / --x */
//@check id=preinc fn=_ZN4crab7wrapintppEv props=C13
void h_preinc(void){ IN(W, a); _ZN4crab7wrapintppEv(&a); REACH; }
//@check id=predec fn=_ZN4crab7wrapintmmEv props=C13
void h_predec(void){ IN(W, a); _ZN4crab7wrapintmmEv(&a); REACH; }
/* x++ / x-- : returns the old value */
//@check id=postinc fn=_ZN4crab7wrapintppEi props=C13
void h_postinc(void){ IN(W, a); W r; _ZN4crab7wrapintppEi(&r, &a, 0); REACH; }
//@check id=postdec fn=_ZN4crab7wrapintmmEi props=C13
void h_postdec(void){ IN(W, a); W r; _ZN4crab7wrapintmmEi(&r, &a, 0); REACH; }

/* extensions and truncation */
//@check id=sext fn=_ZNK4crab7wrapint4sextEm props=C13
void h_sext(void){ IN(W, a); GHOST(uint64_t, bits); W r; _ZNK4crab7wrapint4sextEm(&r, &a, bits); REACH; }
//@check id=zext fn=_ZNK4crab7wrapint4zextEm props=C13
void h_zext(void){ IN(W, a); GHOST(uint64_t, bits); W r; _ZNK4crab7wrapint4zextEm(&r, &a, bits); REACH; }
/* keep_lower(k): truncation to the k low bits, 1 <= k (k >= width: unchanged) */
//@check id=keep_lower fn=_ZNK4crab7wrapint10keep_lowerEm props=C13
void h_keep_lower(void){ IN(W, a); GHOST(uint64_t, bits); W r; _ZNK4crab7wrapint10keep_lowerEm(&r, &a, bits); REACH; }

/* constructors, constants, queries */
//@check id=ctor_nw fn=_ZN4crab7wrapintC2Emm props=C13
void h_ctor_nw(void){ GHOST(uint64_t, n); GHOST(uint64_t, w); W r; _ZN4crab7wrapintC2Emm(&r, n, w); REACH; }
/* from a big integer that fits int64 (otherwise the constructor exits with CRAB_ERROR): value modulo 2^w */
//@check id=ctor_z fn=_ZN4crab7wrapintC2EN4ikos8z_numberEm props=C13
void h_ctor_z(void){ IN(Z, n); GHOST(uint64_t, w); W r; _ZN4crab7wrapintC2EN4ikos8z_numberEm(&r, &n, w); REACH; }
/* from a rational: ceil(q) modulo 2^w */
//@check id=ctor_q fn=_ZN4crab7wrapintC2EN4ikos8q_numberEm props=C13
void h_ctor_q(void){ Q n; GHOST(uint64_t, w); W r; _ZN4crab7wrapintC2EN4ikos8q_numberEm(&r, &n, w); REACH; }

//@check id=smax fn=_ZN4crab7wrapint14get_signed_maxEm props=C13
STATICW(smax, _ZN4crab7wrapint14get_signed_maxEm, POST_smax)
//@check id=smin fn=_ZN4crab7wrapint14get_signed_minEm props=C13
STATICW(smin, _ZN4crab7wrapint14get_signed_minEm, POST_smin)
//@check id=umax fn=_ZN4crab7wrapint16get_unsigned_maxEm props=C13
STATICW(umax, _ZN4crab7wrapint16get_unsigned_maxEm, POST_umax)
//@check id=umin fn=_ZN4crab7wrapint16get_unsigned_minEm props=C13
STATICW(umin, _ZN4crab7wrapint16get_unsigned_minEm, POST_umin)

//@check id=msb fn=_ZNK4crab7wrapint3msbEv props=C13
QUERY(msb, _ZNK4crab7wrapint3msbEv, unsigned char, (N(self) >> (WD(self) - 1)) & 1)
//@check id=is_zero fn=_ZNK4crab7wrapint7is_zeroEv props=C13
QUERY(is_zero, _ZNK4crab7wrapint7is_zeroEv, unsigned char, N(self) == 0)
//@check id=get_uint64 fn=_ZNK4crab7wrapint12get_uint64_tEv props=C13
QUERY(get_uint64, _ZNK4crab7wrapint12get_uint64_tEv, uint64_t, N(self))
//@check id=get_bitwidth fn=_ZNK4crab7wrapint12get_bitwidthEv props=C13
QUERY(get_bitwidth, _ZNK4crab7wrapint12get_bitwidthEv, uint64_t, WD(self))

/* conversions to big integers */
//@check id=ubignum fn=_ZNK4crab7wrapint19get_unsigned_bignumEv props=C13
void h_ubignum(void){ IN(W, a); Z r; _ZNK4crab7wrapint19get_unsigned_bignumEv(&r, &a); REACH; }
//@check id=sbignum fn=_ZNK4crab7wrapint17get_signed_bignumEv props=C13
void h_sbignum(void){ IN(W, a); Z r; _ZNK4crab7wrapint17get_signed_bignumEv(&r, &a); REACH; }
/* fits_wrapint(z, w): w <= 64 and z fits a signed 64-bit integer */
//@check id=fits_z fn=_ZN4crab7wrapint12fits_wrapintEN4ikos8z_numberEm props=C13
void h_fits_z(void){ IN(Z, n); GHOST(uint64_t, w); _ZN4crab7wrapint12fits_wrapintEN4ikos8z_numberEm(&n, w); REACH; }

