// Native replay for unit wrapint: real crab::wrapint of the working tree, same POST_* macros as the contracts.
#include <crab/numbers/wrapint.hpp>
#include "replay.h"
#include "spec.h"
using crab::wrapint;
using ikos::z_number;
static wrapint mkw(const Wit &w, const char *n) {           // raw object with exactly the witness fields
  return wrapint(w.u(std::string(n) + ".f0"), w.u(std::string(n) + ".f1"), w.u(std::string(n) + ".f2"));
}
static W *L(wrapint &x) { return reinterpret_cast<W *>(&x); }  // W is the compiler's own lowering of the class
static void show(const char *what, wrapint &x) { printf("  %s = {n=%llu, width=%llu, mod=%llu}\n", what, (unsigned long long)L(x)->f0, (unsigned long long)L(x)->f1, (unsigned long long)L(x)->f2); }
static i128 zval(const z_number &z) {                        // exact value of a z_number below 2^126
  z_number a = z < z_number(0) ? -z : z; i128 r = 0, m = 1;
  z_number base(1); base = base << z_number(32);
  while (a > z_number(0)) { r += m * (i128)(int64_t)(a % base); a = a / base; m <<= 32; }
  return z < z_number(0) ? -r : r;
}
#define RBIN(id, EXPR, POST) REPLAY(id) { wrapint a = mkw(wit, "a"), b = mkw(wit, "b"); show("self", a); show("x", b); wrapint r = EXPR; show("result", r); return POST(L(r), L(a), L(b)); }
RBIN(add, a + b, POST_add) RBIN(sub, a - b, POST_sub) RBIN(mul, a * b, POST_mul)
RBIN(udiv, a.udiv(b), POST_udiv) RBIN(urem, a.urem(b), POST_urem) RBIN(sdiv, a.sdiv(b), POST_sdiv) RBIN(srem, a.srem(b), POST_srem)
RBIN(div_op, a / b, POST_sdiv) RBIN(rem_op, a % b, POST_srem)
RBIN(and, a & b, POST_and) RBIN(or, a | b, POST_or) RBIN(xor, a ^ b, POST_xor)
RBIN(shl, a << b, POST_shl) RBIN(lshr, a.lshr(b), POST_lshr) RBIN(ashr, a.ashr(b), POST_ashr)
#define RCMP(id, OP) REPLAY(id) { wrapint a = mkw(wit, "a"), b = mkw(wit, "b"); show("self", a); show("x", b); bool r = a OP b; printf("  result = %d\n", r); return r == (L(a)->f0 OP L(b)->f0); }
RCMP(eq, ==) RCMP(ne, !=) RCMP(lt, <) RCMP(le, <=) RCMP(gt, >) RCMP(ge, >=)
#define RASG(id, OP, COP) REPLAY(id) { wrapint a = mkw(wit, "a"), b = mkw(wit, "b"); wrapint o = a; show("self", a); show("x", b); wrapint &r = (a OP b); show("self'", a); \
  return &r == &a && w_is(*L(a), L(o)->f1, (L(o)->f0 COP L(b)->f0) & msk(L(o)->f1)); }
RASG(add_asg, +=, +) RASG(sub_asg, -=, -) RASG(mul_asg, *=, *)
REPLAY(neg) { wrapint a = mkw(wit, "a"); show("self", a); wrapint r = -a; show("result", r); return POST_neg(L(r), L(a)); }
REPLAY(preinc) { wrapint a = mkw(wit, "a"), o = a; wrapint &r = ++a; show("self'", a); return &r == &a && w_is(*L(a), L(o)->f1, (L(o)->f0 + 1) & msk(L(o)->f1)); }
REPLAY(predec) { wrapint a = mkw(wit, "a"), o = a; wrapint &r = --a; show("self'", a); return &r == &a && w_is(*L(a), L(o)->f1, (L(o)->f0 - 1) & msk(L(o)->f1)); }
REPLAY(postinc) { wrapint a = mkw(wit, "a"), o = a; wrapint r = a++; show("self'", a); show("result", r); return w_is(*L(r), L(o)->f1, L(o)->f0) && w_is(*L(a), L(o)->f1, (L(o)->f0 + 1) & msk(L(o)->f1)); }
REPLAY(postdec) { wrapint a = mkw(wit, "a"), o = a; wrapint r = a--; show("self'", a); show("result", r); return w_is(*L(r), L(o)->f1, L(o)->f0) && w_is(*L(a), L(o)->f1, (L(o)->f0 - 1) & msk(L(o)->f1)); }
REPLAY(sext) { wrapint a = mkw(wit, "a"); uint64_t bits = wit.u("bits"); show("self", a); printf("  bits = %llu\n", (unsigned long long)bits); wrapint r = a.sext(bits); show("result", r); return POST_sext(L(r), L(a), bits); }
REPLAY(zext) { wrapint a = mkw(wit, "a"); uint64_t bits = wit.u("bits"); show("self", a); printf("  bits = %llu\n", (unsigned long long)bits); wrapint r = a.zext(bits); show("result", r); return POST_zext(L(r), L(a), bits); }
REPLAY(keep_lower) { wrapint a = mkw(wit, "a"); uint64_t bits = wit.u("bits"); show("self", a); printf("  bits = %llu\n", (unsigned long long)bits); wrapint r = a.keep_lower(bits); show("result", r); return POST_keep_lower(L(r), L(a), bits); }
REPLAY(ctor_nw) { uint64_t n = wit.u("n"), w = wit.u("w"); printf("  n=%llu w=%llu\n", (unsigned long long)n, (unsigned long long)w); wrapint r(n, w); show("result", r); return POST_ctor_nw(L(r), n, w); }
REPLAY(ctor_z) { int64_t n = (int64_t)wit.u("n.f0.a.f0"); uint64_t w = wit.u("w"); printf("  z=%lld w=%llu\n", (long long)n, (unsigned long long)w); wrapint r(z_number(n), w); show("result", r); return w_is(*L(r), w, wrapz((i128)n, w)); }
#define RSTAT(id, F, POST) REPLAY(id) { uint64_t w = wit.u("w"); printf("  w=%llu\n", (unsigned long long)w); wrapint r = wrapint::F(w); show("result", r); return POST(L(r), w); }
RSTAT(smax, get_signed_max, POST_smax) RSTAT(smin, get_signed_min, POST_smin) RSTAT(umax, get_unsigned_max, POST_umax) RSTAT(umin, get_unsigned_min, POST_umin)
REPLAY(msb) { wrapint a = mkw(wit, "a"); show("self", a); return a.msb() == (((L(a)->f0) >> (L(a)->f1 - 1)) & 1); }
REPLAY(is_zero) { wrapint a = mkw(wit, "a"); return a.is_zero() == (L(a)->f0 == 0); }
REPLAY(get_uint64) { wrapint a = mkw(wit, "a"); return a.get_uint64_t() == L(a)->f0; }
REPLAY(get_bitwidth) { wrapint a = mkw(wit, "a"); return a.get_bitwidth() == L(a)->f1; }
REPLAY(ubignum) { wrapint a = mkw(wit, "a"); show("self", a); return zval(a.get_unsigned_bignum()) == (i128)(u128)L(a)->f0; }
REPLAY(sbignum) { wrapint a = mkw(wit, "a"); show("self", a); return zval(a.get_signed_bignum()) == sxv(L(a)->f0, L(a)->f1); }
REPLAY(fits_z) { int64_t n = (int64_t)wit.u("n.f0.a.f0"); uint64_t w = wit.u("w"); if (wit.u("n.f0.a.f1") != (n < 0 ? ~0ULL : 0ULL)) return true; /* beyond int64: not rebuilt */ return wrapint::fits_wrapint(z_number(n), w) == (w <= 64); }
int main(int argc, char **argv) { return replay_main(argc, argv); }
