// Native replay for unit bignums: real ikos::z_number / q_number of the working tree on the REAL GMP.  A witness is the
// model value of each operand (<name>_size, <name>_d0, <name>_d1: sign * limb count and two 64-bit limbs); the real
// numbers are rebuilt from it with mpz_import, the real member is called and the SAME specification functions (spec.h)
// are evaluated on the real result: the real __mpz_struct has the layout the spec functions read.
//
// lib/bignums.cpp is compiled INTO this file (path relative to the -I <repo>/include of the driver, so it is the working
// tree's source) with trapping signed arithmetic: a signed overflow in the real code (undefined behaviour that usually
// "works" because the machine wraps) aborts and is reported as VIOLATED instead of passing unnoticed.
#pragma GCC push_options
#pragma GCC optimize ("trapv")
#include <../lib/bignums.cpp>
#pragma GCC pop_options
#include <crab/numbers/bignums.hpp>
#include <csignal>
#include "replay.h"
#include "spec.h"
using ikos::z_number;
using ikos::q_number;
typedef long long ll;
static void on_sig(int s) { printf("REPLAY: VIOLATED (the real function raised signal %d: %s)\n", s, s == SIGFPE ? "division by zero inside GMP" : s == SIGABRT ? "signed integer overflow trapped in lib/bignums.cpp (-ftrapv)" : "crash inside GMP"); fflush(stdout); _Exit(1); }
static std::string s128(i128 v) { if (v == 0) return "0"; bool n = v < 0; u128 u = n ? (u128)0 - (u128)v : (u128)v; std::string s; while (u) { s.insert(s.begin(), char('0' + (int)(u % 10))); u /= 10; } return (n ? "-" : "") + s; }
static bool flat(const Wit &w) { return w.defs.count("GM_FLAT") != 0; }
// model value of a witness triple
static i128 wval(const Wit &w, const std::string &n) {
  uint64_t d1 = w.u(n + "_d1"); if (flat(w)) d1 &= 0xffffffffULL;
  return v3((uint32_t)w.u(n + "_size"), w.u(n + "_d0"), d1); }
static void setz(mpz_t z, i128 v) { uint64_t l[2]; u128 m = v < 0 ? (u128)0 - (u128)v : (u128)v; l[0] = (uint64_t)m; l[1] = (uint64_t)(m >> 64); mpz_import(z, 2, -1, 8, 0, 0, l); if (v < 0) mpz_neg(z, z); }
static z_number mkz(i128 v) { z_number z; setz(z._n, v); return z; }
static q_number mkq(i128 n, i128 d) { q_number q; setz(mpq_numref(q._n), n); setz(mpq_denref(q._n), d); return q; }   // raw, not canonicalised
static Z *L(z_number &z) { return reinterpret_cast<Z *>(&z); }
static Q *L(q_number &q) { return reinterpret_cast<Q *>(&q); }
static bool okz(z_number &z) { return Z_OK(L(z), P2(127)); }
static i128 V(z_number &z) { return ZV(L(z)); }
static void show(const char *w, z_number &z) { printf("  %s = %s\n", w, z.get_str().c_str()); }
static void show(const char *w, q_number &q) { printf("  %s = %s / %s\n", w, q.numerator().get_str().c_str(), q.denominator().get_str().c_str()); }
#define ZA z_number a = mkz(wval(wit, "a")); i128 va = V(a); show("self", a)
#define ZAB ZA; z_number b = mkz(wval(wit, "b")); i128 vb = V(b); show("x", b)
#define UNCH (V(a) == va && V(b) == vb)
#define ALIAS(id, of) REPLAY(id) { return replay_##of(wit); }

REPLAY(z_ctor0) { z_number r; show("result", r); return okz(r) && V(r) == 0; }
REPLAY(z_ctor_i64) { int64_t n = (int64_t)wit.u("n"); z_number r(n); printf("  n = %lld\n", (ll)n); show("result", r); return okz(r) && V(r) == (i128)n; }
REPLAY(z_from_u64) { uint64_t n = wit.u("n"); z_number r = z_number::from_uint64(n); printf("  n = %llu\n", (unsigned long long)n); show("result", r); return okz(r) && V(r) == (i128)(u128)n; }
REPLAY(z_copy) { z_number b = mkz(wval(wit, "b")); i128 vb = V(b); z_number r(b); return okz(r) && V(r) == vb && V(b) == vb && MP(L(r))->f2 != MP(L(b))->f2; }
REPLAY(z_move) { z_number b = mkz(wval(wit, "b")); i128 vb = V(b); z_number r(std::move(b)); return okz(r) && V(r) == vb && okz(b) && V(b) == 0 && MP(L(r))->f2 != MP(L(b))->f2; }
REPLAY(z_assign) { ZAB; z_number &r = (a = b); return &r == &a && okz(a) && V(a) == vb && V(b) == vb; }
REPLAY(z_assign_self) { ZA; z_number &r = (a = a); return &r == &a && V(a) == va; }
REPLAY(z_move_assign) { ZAB; z_number &r = (a = std::move(b)); return &r == &a && okz(a) && okz(b) && V(a) == vb && V(b) == va; }
REPLAY(z_dtor) { { ZA; } return true; }
REPLAY(z_to_i64) { ZA; fflush(stdout); int64_t r = (int64_t)a; printf("  result = %lld\n", (ll)r); return (i128)r == va && V(a) == va; }
ALIAS(z_to_i64_noexit, z_to_i64)
REPLAY(z_fits_int64) { ZA; bool r = a.fits_int64(); printf("  result = %d\n", r); return r == fits64(va); }
REPLAY(z_fits_sint) { ZA; bool r = a.fits_sint(); return r == (va >= -P2(31) && va < P2(31)); }
REPLAY(z_fits_slong) { ZA; bool r = a.fits_slong(); return r == fits64(va); }
static u128 rawv(const uint64_t *w, uint64_t n, bool msf) { return n == 0 ? (u128)0 : n == 1 ? (u128)w[0] : (msf ? (((u128)w[0] << 64) | w[1]) : (((u128)w[1] << 64) | w[0])); }
REPLAY(z_from_raw) { uint64_t w[2] = { wit.u("data.w[0]"), wit.u("data.w[1]") }; uint64_t n = wit.u("num_words"); bool o = wit.u("order") != 0;
  z_number r = z_number::from_raw_data(w, n, o); printf("  words = {%llu, %llu} num_words = %llu order = %d\n", (unsigned long long)w[0], (unsigned long long)w[1], (unsigned long long)n, o); show("result", r);
  return okz(r) && V(r) == (i128)rawv(w, n, o); }
REPLAY(z_to_raw) { ZA; bool o = wit.u("order") != 0; size_t nw = 77; bool sg = false; uint64_t *p = a.to_raw_data(nw, sg, o);
  printf("  num_words = %zu sign = %d\n", nw, sg); bool r = sg == (va >= 0) && nw == m_n(MP(L(a))) && rawv(p, nw, o) == (u128)(va < 0 ? -va : va); free(p); return r; }
#define RZBIN(id, EXPR, EXPECT) REPLAY(id) { ZAB; fflush(stdout); z_number r = EXPR; show("result", r); printf("  required = %s\n", s128(EXPECT).c_str()); return okz(r) && V(r) == (EXPECT) && UNCH; }
RZBIN(z_add, a + b, va + vb) RZBIN(z_sub, a - b, va - vb) RZBIN(z_mul, a * b, GM_mul(va, vb)) ALIAS(z_mul_precise, z_mul)
RZBIN(z_div, a / b, GM_tdiv(va, vb)) ALIAS(z_div_noexit, z_div) ALIAS(z_div_precise, z_div)
RZBIN(z_rem, a % b, GM_trem(va, vb)) ALIAS(z_rem_noexit, z_rem) ALIAS(z_rem_precise, z_rem)
RZBIN(z_and, a & b, va & vb) RZBIN(z_or, a | b, va | vb) RZBIN(z_xor, a ^ b, va ^ vb)
RZBIN(z_shl, a << b, s_shl(va, (uint64_t)vb)) RZBIN(z_shr, a >> b, s_fshr(va, (uint64_t)vb))
REPLAY(z_neg) { ZA; z_number r = -a; show("result", r); return okz(r) && V(r) == -va && V(a) == va; }
#define RZASG(id, OP, EXPECT) REPLAY(id) { ZAB; fflush(stdout); z_number &r = (a OP b); show("self'", a); printf("  required = %s\n", s128(EXPECT).c_str()); return &r == &a && okz(a) && V(a) == (EXPECT) && V(b) == vb; }
RZASG(z_add_asg, +=, va + vb) RZASG(z_sub_asg, -=, va - vb) RZASG(z_mul_asg, *=, GM_mul(va, vb))
RZASG(z_div_asg, /=, GM_tdiv(va, vb)) ALIAS(z_div_asg_noexit, z_div_asg) RZASG(z_rem_asg, %=, GM_trem(va, vb)) ALIAS(z_rem_asg_noexit, z_rem_asg)
REPLAY(z_preinc) { ZA; z_number &r = ++a; return &r == &a && okz(a) && V(a) == va + 1; }
REPLAY(z_predec) { ZA; z_number &r = --a; return &r == &a && okz(a) && V(a) == va - 1; }
REPLAY(z_postinc) { ZA; z_number r = a++; return okz(r) && V(r) == va && okz(a) && V(a) == va + 1; }
REPLAY(z_postdec) { ZA; z_number r = a--; return okz(r) && V(r) == va && okz(a) && V(a) == va - 1; }
#define RZCMP(id, OP) REPLAY(id) { ZAB; bool r = a OP b; printf("  result = %d\n", r); return r == (va OP vb) && UNCH; }
RZCMP(z_eq, ==) RZCMP(z_ne, !=) RZCMP(z_lt, <) RZCMP(z_le, <=) RZCMP(z_gt, >) RZCMP(z_ge, >=)
REPLAY(z_fill_ones) { ZA; if (va < 0) return true; z_number r = a.fill_ones(); show("result", r); return okz(r) && V(r) == s_fill(va) && V(a) == va; }

// ---- q_number
#define QA q_number a = mkq(wval(wit, "an"), wval(wit, "ad")); i128 an = QN(L(a)), ad = QD(L(a)); show("self", a)
#define QAB QA; q_number b = mkq(wval(wit, "bn"), wval(wit, "bd")); i128 bn = QN(L(b)), bd = QD(L(b)); show("x", b)
static bool okq(q_number &q) { return Q_OK(L(q), P2(127)); }
static bool isq(q_number &q, i128 n, i128 d) { return okq(q) && QN(L(q)) == n && QD(L(q)) == d; }
REPLAY(q_ctor0) { q_number r; return isq(r, 0, 1); }
REPLAY(q_ctor_z) { z_number b = mkz(wval(wit, "b")); i128 vb = V(b); q_number r(b); return isq(r, vb, 1); }
REPLAY(q_ctor_zz) { ZAB; fflush(stdout); q_number r(a, b); show("result", r); if (vb == 0) return false;
  printf("  required = %s / %s\n", s128(GM_cann(va, vb)).c_str(), s128(GM_cand(va, vb)).c_str());
  return okq(r) && QD(L(r)) > 0 && Q_CANON(L(r)) && isq(r, GM_cann(va, vb), GM_cand(va, vb)); }
ALIAS(q_ctor_zz_noexit, q_ctor_zz)
REPLAY(q_copy) { q_number b = mkq(wval(wit, "bn"), wval(wit, "bd")); i128 bn = QN(L(b)), bd = QD(L(b)); q_number r(b); return isq(r, bn, bd) && isq(b, bn, bd); }
REPLAY(q_move) { q_number b = mkq(wval(wit, "bn"), wval(wit, "bd")); i128 bn = QN(L(b)), bd = QD(L(b)); q_number r(std::move(b)); return isq(r, bn, bd) && isq(b, 0, 1); }
REPLAY(q_assign) { QAB; q_number &r = (a = b); return &r == &a && isq(a, bn, bd) && isq(b, bn, bd); }
REPLAY(q_move_assign) { QAB; q_number &r = (a = std::move(b)); return &r == &a && isq(a, bn, bd) && isq(b, an, ad); }
REPLAY(q_dtor) { { QA; } return true; }
REPLAY(q_numerator) { QA; z_number r = a.numerator(); return okz(r) && V(r) == an; }
REPLAY(q_denominator) { QA; z_number r = a.denominator(); return okz(r) && V(r) == ad; }
#define RQCMP(id, OP, EXPR) REPLAY(id) { QAB; bool r = a OP b; printf("  result = %d\n", r); return r == (EXPR); }
RQCMP(q_eq, ==, s_qeq(an, ad, bn, bd)) RQCMP(q_ne, !=, !s_qeq(an, ad, bn, bd)) RQCMP(q_lt, <, s_qlt(an, ad, bn, bd)) RQCMP(q_le, <=, !s_qlt(bn, bd, an, ad))
RQCMP(q_gt, >, s_qlt(bn, bd, an, ad)) RQCMP(q_ge, >=, !s_qlt(an, ad, bn, bd))
#define RQBIN(id, EXPR, op) REPLAY(id) { QAB; fflush(stdout); q_number r = EXPR; show("result", r); printf("  required = %s / %s\n", s128(GM_qopn(op, an, ad, bn, bd)).c_str(), s128(GM_qopd(op, an, ad, bn, bd)).c_str()); \
  return (op != 3 || bn != 0) && Q_CANON(L(r)) && isq(r, GM_qopn(op, an, ad, bn, bd), GM_qopd(op, an, ad, bn, bd)) && isq(a, an, ad); }
RQBIN(q_add, a + b, 0) RQBIN(q_sub, a - b, 1) RQBIN(q_mul, a * b, 2) RQBIN(q_div, a / b, 3) ALIAS(q_div_noexit, q_div)
REPLAY(q_neg) { QA; q_number r = -a; show("result", r); return isq(r, -an, ad) && isq(a, an, ad); }
#define RQASG(id, OP, op) REPLAY(id) { QAB; fflush(stdout); q_number &r = (a OP b); show("self'", a); return &r == &a && (op != 3 || bn != 0) && Q_CANON(L(a)) && isq(a, GM_qopn(op, an, ad, bn, bd), GM_qopd(op, an, ad, bn, bd)); }
RQASG(q_add_asg, +=, 0) RQASG(q_sub_asg, -=, 1) RQASG(q_mul_asg, *=, 2) RQASG(q_div_asg, /=, 3) ALIAS(q_div_asg_noexit, q_div_asg)
REPLAY(q_preinc) { QA; q_number &r = ++a; return &r == &a && isq(a, an + ad, ad); }
REPLAY(q_predec) { QA; q_number &r = --a; return &r == &a && isq(a, an - ad, ad); }
REPLAY(q_postinc) { QA; q_number r = a++; return isq(r, an, ad) && isq(a, an + ad, ad); }
REPLAY(q_postdec) { QA; q_number r = a--; return isq(r, an, ad) && isq(a, an - ad, ad); }
REPLAY(q_shl) { QAB; fflush(stdout); q_number r = a << b; show("result", r); return isq(r, s_shl(an, (uint64_t)bn), 1); }
REPLAY(q_round_upper) { QA; z_number r = a.round_to_upper(); show("result", r); printf("  required = %s\n", s128(s_cdiv(an, ad)).c_str()); return okz(r) && V(r) == s_cdiv(an, ad); }
REPLAY(q_round_lower) { QA; z_number r = a.round_to_lower(); show("result", r); printf("  required = %s\n", s128(s_fdiv(an, ad)).c_str()); return okz(r) && V(r) == s_fdiv(an, ad); }
// no-leak checks: count the blocks GMP allocates and frees around the call (operands and result destroyed inside)
static long live_blocks = 0;
static void *cnt_alloc(size_t n) { live_blocks++; return malloc(n); }
static void *cnt_realloc(void *p, size_t, size_t n) { return realloc(p, n); }
static void cnt_free(void *p, size_t) { live_blocks--; free(p); }
#define RLEAK(id, STMT) REPLAY(id) { mp_set_memory_functions(cnt_alloc, cnt_realloc, cnt_free); long before = live_blocks; { QAB; { STMT; } } \
  printf("  GMP blocks still allocated after operands and result were destroyed: %ld\n", live_blocks - before); return live_blocks == before; }
RLEAK(q_add_noleak, q_number r = a + b) RLEAK(q_sub_noleak, q_number r = a - b) RLEAK(q_mul_noleak, q_number r = a * b)
REPLAY(q_neg_noleak) { mp_set_memory_functions(cnt_alloc, cnt_realloc, cnt_free); long before = live_blocks; { QA; { q_number r = -a; } }
  printf("  GMP blocks still allocated after operand and result were destroyed: %ld\n", live_blocks - before); return live_blocks == before; }
int main(int argc, char **argv) { signal(SIGFPE, on_sig); signal(SIGSEGV, on_sig); signal(SIGABRT, on_sig); return replay_main(argc, argv); }
