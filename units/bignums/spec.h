/* Specification vocabulary for ikos::z_number and ikos::q_number (lib/bignums.cpp), property C20.
 * Shared by contracts.c (CBMC, against models/gmpmodel.c) and replay.cpp (native, against the real GMP: the real
 * __mpz_struct has the same layout, so the same value functions read real z_numbers).
 * Z = lowering of z_number: f0.a[0] is the __mpz_struct { f0 = _mp_alloc, f1 = _mp_size, f2 = _mp_d }.
 * Q = lowering of q_number: f0.a[0] is the __mpq_struct { f0 = _mp_num, f1 = _mp_den }. */
#ifndef BIGNUMS_SPEC_H
#define BIGNUMS_SPEC_H
#include "verif.h"
#include "unit_types.h"
typedef struct S_class_ikos__z_number Z;
typedef struct S_class_ikos__q_number Q;
typedef struct S_struct___mpz_struct MPZ;
typedef struct S_struct___mpq_struct MPQ;
#define MP(z) (&(z)->f0.a[0])
#define QNUM(q) (&(q)->f0.a[0].f0)
#define QDEN(q) (&(q)->f0.a[0].f1)
#define NLIMB 2
#define LIMBBYTES (NLIMB * sizeof(uint64_t))
#define P2(k) (((i128)1) << (k))
/* number of significant limbs and magnitude of an mpz (limbs beyond |_mp_size| are garbage and never read) */
static inline uint32_t m_n(const MPZ *m){ int32_t s = (int32_t)m->f1; return s < 0 ? (uint32_t)0 - (uint32_t)s : (uint32_t)s; }
#ifdef __cplusplus
/* native (real GMP): only the significant limbs exist */
static inline u128 m_mag(const MPZ *m){ uint32_t n = m_n(m); u128 v = 0; if (n >= 1) v = m->f2[0]; if (n >= 2) v |= (u128)m->f2[1] << 64; return v; }
static inline uint64_t m_top(const MPZ *m){ uint32_t n = m_n(m); return n == 0 ? 1 : m->f2[n - 1]; }
#else
/* model: the limb array always has 2 limbs; both are read, only the significant ones are used */
static inline u128 m_mag(const MPZ *m){ uint32_t n = m_n(m); uint64_t d0 = m->f2[0], d1 = m->f2[1]; return n == 0 ? (u128)0 : (n == 1 ? (u128)d0 : (((u128)d1 << 64) | d0)); }
static inline uint64_t m_top(const MPZ *m){ uint32_t n = m_n(m); uint64_t d0 = m->f2[0], d1 = m->f2[1]; return n == 0 ? 1 : (n == 1 ? d0 : d1); }
#endif
/* the mathematical integer denoted by an mpz with at most 2 limbs and magnitude below 2^127 */
static inline i128 m_val(const MPZ *m){ return (int32_t)m->f1 < 0 ? -(i128)m_mag(m) : (i128)m_mag(m); }
/* representation invariant (GMP's own): |_mp_size| limbs are significant, the top one is not zero; model: at most 2 limbs,
 * 2 allocated; lim bounds the magnitude */
static inline bool m_ok(const MPZ *m, i128 lim){
  uint32_t n = m_n(m);
  return n <= NLIMB && (int32_t)m->f0 >= NLIMB && m_top(m) != 0 && m_mag(m) < (u128)lim; }
/* the same value from the three scalars (used with __CPROVER_old, which cannot wrap a function call) */
static inline i128 v3(uint32_t size, uint64_t d0, uint64_t d1){
  int32_t s = (int32_t)size; uint32_t n = s < 0 ? (uint32_t)0 - (uint32_t)s : (uint32_t)s;
  u128 v = 0; if (n >= 1) v = d0; if (n >= 2) v |= (u128)d1 << 64;
  return s < 0 ? -(i128)v : (i128)v; }
#define ZV(z) m_val(MP(z))
#define Z_OK(z, lim) m_ok(MP(z), lim)
#define ZLIM P2(126)              /* range of the GMP model: results */
#define ZB P2(125)                /* default bound of inputs of linear operations */
#define ZMULB P2(63)              /* inputs of multiplications */
#define I64MIN (-P2(63))
#define I64MAX (P2(63) - 1)
static inline bool fits64(i128 v){ return v >= I64MIN && v <= I64MAX; }
/* ---- the mathematical operations of the property, on model integers */
/* product, truncating quotient and its remainder: the symbols of models/gmpmodel.c (uninterpreted with integer axioms, or
 * C's * / % with -DGM_PRECISE); natively (replay) they are C's operators: C11 6.5.5p6: the quotient is rounded towards
 * zero and (a/b)*b + a%b == a */
#ifdef __cplusplus
static inline i128 GM_mul(i128 a, i128 b){ return a * b; }
static inline i128 GM_tdiv(i128 a, i128 b){ return a / b; }
static inline i128 GM_trem(i128 a, i128 b){ return a % b; }
#else
i128 GM_mul(i128 a, i128 b); i128 GM_tdiv(i128 a, i128 b); i128 GM_trem(i128 a, i128 b);
#endif
/* floor and ceiling of a / b, b != 0, derived from truncation: floor is one less than the truncated quotient exactly when
 * the division is inexact and the exact quotient is negative (remainder and divisor of opposite signs), ceiling is one
 * more exactly when it is inexact and positive */
static inline i128 s_fdiv(i128 a, i128 b){ i128 q = GM_tdiv(a, b), r = GM_trem(a, b); return (r != 0 && ((r < 0) != (b < 0))) ? q - 1 : q; }
static inline i128 s_cdiv(i128 a, i128 b){ i128 q = GM_tdiv(a, b), r = GM_trem(a, b); return (r != 0 && ((r < 0) == (b < 0))) ? q + 1 : q; }
/* floor(v / 2^k): two's complement arithmetic shift, written without relying on >> of negative values */
static inline i128 s_fshr(i128 v, uint64_t k){ return k >= 127 ? (v < 0 ? (i128)-1 : (i128)0) : (v < 0 ? ~((~v) >> k) : (v >> k)); }
/* v * 2^k for k < 126 and |v| < 2^(126-k) */
static inline i128 s_shl(i128 v, uint64_t k){ return v < 0 ? -(i128)((u128)(-v) << k) : (i128)((u128)v << k); }
/* smallest 2^k - 1 >= x, for x > 0 */
static inline i128 s_fill(i128 x){ i128 y = x; y |= y >> 1; y |= y >> 2; y |= y >> 4; y |= y >> 8; y |= y >> 16; y |= y >> 32; y |= y >> 64; return y; }
#endif
