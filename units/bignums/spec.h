/* Specification vocabulary for ikos::z_number and ikos::q_number (lib/bignums.cpp), property C20.
 * Shared by contracts.c (CBMC, against models/gmpmodel.c) and replay.cpp (native, against the real GMP: the real
 * __mpz_struct has the same layout, so the same value functions read real z_numbers).
 * Z = lowering of z_number: f0.a is the __mpz_struct { f0 = _mp_alloc, f1 = _mp_size, f2 = _mp_d }.
 * Q = lowering of q_number: f0.a is the __mpq_struct { f0 = _mp_num, f1 = _mp_den }. */
#ifndef BIGNUMS_SPEC_H
#define BIGNUMS_SPEC_H
#include "verif.h"
#include "unit_types.h"
typedef struct S_class_ikos__z_number Z;
typedef struct S_class_ikos__q_number Q;
typedef struct S_struct___mpz_struct MPZ;
typedef struct S_struct___mpq_struct MPQ;
#define MP(z) (&(z)->f0.a)
#define QNUM(q) (&(q)->f0.a.f0)
#define QDEN(q) (&(q)->f0.a.f1)
#define NLIMB 2
#define LIMBBYTES (NLIMB * sizeof(uint64_t))
#define P2(k) (((i128)1) << (k))
/* number of significant limbs and magnitude of an mpz (limbs beyond |_mp_size| are garbage and never read) */
static inline uint32_t m_n(const MPZ *m){ int32_t s = (int32_t)m->f1; return s < 0 ? (uint32_t)0 - (uint32_t)s : (uint32_t)s; }
#if defined(__cplusplus)
/* native (real GMP): only the significant limbs exist */
static inline u128 m_mag(const MPZ *m){ uint32_t n = m_n(m); u128 v = 0; if (n >= 1) v = m->f2[0]; if (n >= 2) v |= (u128)m->f2[1] << 64; return v; }
static inline uint64_t m_top(const MPZ *m){ uint32_t n = m_n(m); return n == 0 ? 1 : m->f2[n - 1]; }
#else
/* model: two limbs; both are read, only the significant ones are used.  Heap representation: the 2-limb array _mp_d points
 * to; -DGM_FLAT (composite functions, see models/gmpmodel.c): limb 0 in the bits of the _mp_d field, limb 1 in _mp_alloc */
#ifdef GM_FLAT
#define M_D0(m) ((uint64_t)(m)->f2)
#define M_D1(m) ((uint64_t)(m)->f0)
#else
#define M_D0(m) ((m)->f2[0])
#define M_D1(m) ((m)->f2[1])
#endif
static inline u128 m_mag(const MPZ *m){ uint32_t n = m_n(m); uint64_t d0 = M_D0(m), d1 = M_D1(m); return n == 0 ? (u128)0 : (n == 1 ? (u128)d0 : (((u128)d1 << 64) | d0)); }
static inline uint64_t m_top(const MPZ *m){ uint32_t n = m_n(m); uint64_t d0 = M_D0(m), d1 = M_D1(m); return n == 0 ? 1 : (n == 1 ? d0 : d1); }
#endif
/* the mathematical integer denoted by an mpz with at most 2 limbs and magnitude below 2^127 */
static inline i128 m_val(const MPZ *m){ return (int32_t)m->f1 < 0 ? -(i128)m_mag(m) : (i128)m_mag(m); }
/* representation invariant (GMP's own): |_mp_size| limbs are significant, the top one is not zero; model: at most 2 limbs,
 * 2 allocated; lim bounds the magnitude */
static inline bool m_ok(const MPZ *m, i128 lim){
  uint32_t n = m_n(m);
#if defined(__cplusplus) || defined(GM_FLAT)
  /* native (real GMP allocates only what it needs) and flat model: no allocation count */
  return n <= NLIMB && m_top(m) != 0 && m_mag(m) < (u128)lim; }
#else
  return n <= NLIMB && (int32_t)m->f0 >= NLIMB && m_top(m) != 0 && m_mag(m) < (u128)lim; }
#endif
/* the same value from the three scalars (used with __CPROVER_old, which cannot wrap a function call) */
static inline i128 v3(uint32_t size, uint64_t d0, uint64_t d1){
  int32_t s = (int32_t)size; uint32_t n = s < 0 ? (uint32_t)0 - (uint32_t)s : (uint32_t)s;
  u128 v = 0; if (n >= 1) v = d0; if (n >= 2) v |= (u128)d1 << 64;
  return s < 0 ? -(i128)v : (i128)v; }
#define ZV(z) m_val(MP(z))
#define Z_OK(z, lim) m_ok(MP(z), lim)
#ifdef GM_FLAT
#define ZBITS 94
#define ZMULB P2(46)              /* inputs of multiplications */
#else
#define ZBITS 126
#define ZMULB P2(63)              /* inputs of multiplications */
#endif
#define ZLIM P2(ZBITS)            /* range of the GMP model: results */
#define ZB P2(ZBITS - 1)          /* default bound of inputs of linear operations */
#define I64MIN (-P2(63))
#define I64MAX (P2(63) - 1)
static inline bool fits64(i128 v){ return v >= I64MIN && v <= I64MAX; }
/* ---- the mathematical operations of the property, on model integers */
/* product, truncating quotient and its remainder: the symbols of models/gmpmodel.c (uninterpreted with integer axioms, or
 * C's * / % with -DGM_PRECISE); natively (replay) they are C's operators: C11 6.5.5p6: the quotient is rounded towards
 * zero and (a/b)*b + a%b == a */
#ifdef __cplusplus
static inline i128 GM_mul(i128 a, i128 b){ return a * b; }
static inline i128 GM_tdiv(i128 a, i128 b){ return a / b; }
static inline i128 GM_trem(i128 a, i128 b){ return a % b; }
#else
i128 GM_mul(i128 a, i128 b); i128 GM_tdiv(i128 a, i128 b); i128 GM_trem(i128 a, i128 b);
#endif
/* floor and ceiling of a / b, b != 0, derived from truncation: floor is one less than the truncated quotient exactly when
 * the division is inexact and the exact quotient is negative (remainder and divisor of opposite signs), ceiling is one
 * more exactly when it is inexact and positive */
static inline i128 s_fdiv(i128 a, i128 b){ i128 q = GM_tdiv(a, b), r = GM_trem(a, b); return (r != 0 && ((r < 0) != (b < 0))) ? q - 1 : q; }
static inline i128 s_cdiv(i128 a, i128 b){ i128 q = GM_tdiv(a, b), r = GM_trem(a, b); return (r != 0 && ((r < 0) == (b < 0))) ? q + 1 : q; }
/* floor(v / 2^k): two's complement arithmetic shift, written without relying on >> of negative values */
static inline i128 s_fshr(i128 v, uint64_t k){ return k >= 127 ? (v < 0 ? (i128)-1 : (i128)0) : (v < 0 ? ~((~v) >> k) : (v >> k)); }
/* v * 2^k for k < 126 and |v| < 2^(126-k) */
static inline i128 s_shl(i128 v, uint64_t k){ return v < 0 ? -(i128)((u128)(-v) << k) : (i128)((u128)v << k); }
/* ---- rationals: canonical form, canonical representative and canonical results of + - * / (op 0..3): the symbols of
 * models/gmpmodel.c (uninterpreted with axioms); natively they are computed exactly */
#ifdef __cplusplus
static inline i128 s_abs(i128 a){ return a < 0 ? -a : a; }
static inline i128 s_gcd(i128 a, i128 b){ a = s_abs(a); b = s_abs(b); while (b) { i128 t = a % b; a = b; b = t; } return a; }
static inline bool GM_coprime(i128 n, i128 d){ return s_gcd(n, d) == 1; }
static inline bool GM_canon(i128 n, i128 d){ return d > 0 && GM_coprime(n, d); }
static inline i128 GM_cann(i128 n, i128 d){ i128 g = s_gcd(n, d); return (d < 0 ? -n : n) / g; }
static inline i128 GM_cand(i128 n, i128 d){ i128 g = s_gcd(n, d); return s_abs(d) / g; }
static inline void s_qop(int op, i128 an, i128 ad, i128 bn, i128 bd, i128 *rn, i128 *rd){
  i128 n, d;
  if (op == 0) { n = an * bd + bn * ad; d = ad * bd; } else if (op == 1) { n = an * bd - bn * ad; d = ad * bd; }
  else if (op == 2) { n = an * bn; d = ad * bd; } else { n = an * bd; d = ad * bn; }
  *rn = GM_cann(n, d); *rd = GM_cand(n, d); }
static inline i128 GM_qopn(int op, i128 an, i128 ad, i128 bn, i128 bd){ i128 n, d; s_qop(op, an, ad, bn, bd, &n, &d); return n; }
static inline i128 GM_qopd(int op, i128 an, i128 ad, i128 bn, i128 bd){ i128 n, d; s_qop(op, an, ad, bn, bd, &n, &d); return d; }
#else
bool GM_coprime(i128 n, i128 d); bool GM_canon(i128 n, i128 d);
i128 GM_cann(i128 n, i128 d); i128 GM_cand(i128 n, i128 d);
i128 GM_qopn(int op, i128 an, i128 ad, i128 bn, i128 bd); i128 GM_qopd(int op, i128 an, i128 ad, i128 bn, i128 bd);
#endif
#define QN(q) m_val(QNUM(q))
#define QD(q) m_val(QDEN(q))
#define Q_OK(q, lim) (m_ok(QNUM(q), lim) && m_ok(QDEN(q), lim))
#define Q_CANON(q) GM_canon(QN(q), QD(q))
#define QB P2(31)                 /* bound of numerators and denominators of rational operands */
/* a/b < c/d for positive denominators: a*d < c*b */
static inline bool s_qlt(i128 an, i128 ad, i128 bn, i128 bd){ return GM_mul(an, bd) < GM_mul(bn, ad); }
static inline bool s_qeq(i128 an, i128 ad, i128 bn, i128 bd){ return GM_mul(an, bd) == GM_mul(bn, ad); }
/* smallest 2^k - 1 >= x, for x > 0 */
static inline i128 s_fill(i128 x){ i128 y = x; y |= y >> 1; y |= y >> 2; y |= y >> 4; y |= y >> 8; y |= y >> 16; y |= y >> 32; y |= y >> 64; return y; }
#endif
