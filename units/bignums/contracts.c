/* Contracts for ikos::z_number and ikos::q_number (lib/bignums.cpp) against the GMP model (models/gmpmodel.c) — C20:
 * "Big integers and rationals agree with mathematical arithmetic (truncating signed division and remainder, floor right
 *  shifts, infinite-precision two's-complement bitwise operations, exact int64/uint64/string round trips, correct rounding
 *  of rationals) ..."
 * Given GMP's documented behaviour, every member below IS the mathematical operation.  Values are read with ZV (spec.h):
 * sign * (d[0] + 2^64 d[1]).  Inputs are arbitrary well-formed mpz objects with heap limb arrays, built by the harness from
 * witness scalars (<name>_size, <name>_d0, <name>_d1) and constrained only by the contract's precondition.
 * Frames: `assigns` lists the objects a member may write; limb arrays of operands are NOT in it unless stated, so "operands
 * are left unchanged" is checked by every contract; results must own a fresh limb array (ZOUT).
 * Error exits: allow_error=1 + postcondition "returns ==> defined and exact", and a twin <id>_noexit that proves that the
 * call does not reach CRAB_ERROR when the operation is defined. */
#include <stdlib.h>
#include "spec.h"

/* ---- harness side: build an arbitrary mpz from witness scalars (heap limb array as GMP does; GM_FLAT: no array, see spec.h) */
#ifdef GM_FLAT
static void z_build(Z *z, uint32_t size, uint64_t d0, uint64_t d1){ MP(z)->f0 = (uint32_t)d1; MP(z)->f1 = size; MP(z)->f2 = (uint64_t *)d0; }
#define ZFRESH(tag, p) FRESH(tag, p, sizeof(Z))
#define ZOUT(r) 1
#define ZLIMBS_(p)
#define OLDZ(p) v3(OLD(MP(p)->f1), (uint64_t)OLD(MP(p)->f2), (uint64_t)OLD(MP(p)->f0))
#define ZSAME(p) 1
#else
static void z_build(Z *z, uint32_t size, uint64_t d0, uint64_t d1){
  uint64_t *d = (uint64_t *)malloc(LIMBBYTES);
  __CPROVER_assume(d != 0);          /* environment: the allocation of the INPUT succeeded (cbmc 6: malloc may return NULL) */
  d[0] = d0; d[1] = d1;
  MP(z)->f0 = NLIMB; MP(z)->f1 = size; MP(z)->f2 = d; }
/* pointer preconditions: the object and its limb array (harness-owned when enforced, is_fresh when the contract replaces a call) */
#define ZFRESH(tag, p) (FRESH(tag, p, sizeof(Z)) && FRESH(tag, MP(p)->f2, LIMBBYTES))
/* a result owns a valid limb array of its own (not shared with an operand) */
#define ZOUT(r) (__CPROVER_is_fresh(MP(r)->f2, LIMBBYTES))
#define ZLIMBS_(p) , __CPROVER_object_whole(MP(p)->f2)
/* value of *p in the pre-state */
#define OLDZ(p) v3(OLD(MP(p)->f1), OLD(MP(p)->f2[0]), OLD(MP(p)->f2[1]))
/* p still owns the same limb array */
#define ZSAME(p) (MP(p)->f2 == OLD(MP(p)->f2))
#endif
#define INZ(a) GHOST(uint32_t, a##_size); GHOST(uint64_t, a##_d0); GHOST(uint64_t, a##_d1); Z a; z_build(&a, a##_size, a##_d0, a##_d1)
#define RET __CPROVER_return_value
#define OLD __CPROVER_old
/* NOEXIT(id, e): extra precondition that only exists in the twin check <id>_noexit */
#define IN1(lim) Z_OK(self, lim)
#define IN2(lim) (Z_OK(self, lim) && Z_OK(x, lim))

/* ================================================================== construction, copy, move, destruction */
//@check id=z_ctor0 fn=_ZN4ikos8z_numberC2Ev props=C20 backends=minisat,z3,cvc5 first_timeout=60
void _ZN4ikos8z_numberC2Ev(Z *self)
__CPROVER_requires(FRESH(z_ctor0, self, sizeof(Z)))
__CPROVER_assigns(*self)
__CPROVER_ensures(ZOUT(self) && Z_OK(self, ZLIM) && ZV(self) == 0);
void h_z_ctor0(void){ Z r; _ZN4ikos8z_numberC2Ev(&r); REACH; }

/* z_number(int64_t): exact for every int64, INT64_MIN included */
//@check id=z_ctor_i64 fn=_ZN4ikos8z_numberC2El props=C20 backends=minisat,z3,cvc5 first_timeout=60
void _ZN4ikos8z_numberC2El(Z *self, uint64_t n)
__CPROVER_requires(FRESH(z_ctor_i64, self, sizeof(Z)))
__CPROVER_assigns(*self)
__CPROVER_ensures(ZOUT(self) && Z_OK(self, ZLIM) && ZV(self) == (i128)(int64_t)n);
void h_z_ctor_i64(void){ Z r; GHOST(uint64_t, n); _ZN4ikos8z_numberC2El(&r, n); REACH; }

/* from_uint64: exact for every uint64 (values >= 2^63 stay positive) */
//@check id=z_from_u64 fn=_ZN4ikos8z_number11from_uint64Em props=C20 backends=minisat,z3,cvc5 first_timeout=60
void _ZN4ikos8z_number11from_uint64Em(Z *ret, uint64_t n)
__CPROVER_requires(FRESH(z_from_u64, ret, sizeof(Z)))
__CPROVER_assigns(*ret)
__CPROVER_ensures(ZOUT(ret) && Z_OK(ret, ZLIM) && ZV(ret) == (i128)(u128)n);
void h_z_from_u64(void){ Z r; GHOST(uint64_t, n); _ZN4ikos8z_number11from_uint64Em(&r, n); REACH; }

/* copy constructor: same value, own limb array, source untouched */
//@check id=z_copy fn=_ZN4ikos8z_numberC2ERKS0_ props=C20 backends=minisat,z3,cvc5 first_timeout=60
void _ZN4ikos8z_numberC2ERKS0_(Z *self, Z *x)
__CPROVER_requires(FRESH(z_copy, self, sizeof(Z)) && ZFRESH(z_copy, x) && Z_OK(x, ZLIM))
__CPROVER_assigns(*self)
__CPROVER_ensures(ZOUT(self) && MP(self)->f2 != MP(x)->f2 && Z_OK(self, ZLIM) && ZV(self) == ZV(x));
void h_z_copy(void){ Z r; INZ(b); _ZN4ikos8z_numberC2ERKS0_(&r, &b); REACH; }

/* move constructor: the value (and the limb array) moves, the source becomes a valid zero with an array of its own */
//@check id=z_move fn=_ZN4ikos8z_numberC2EOS0_ props=C20 backends=minisat,z3,cvc5 first_timeout=60
void _ZN4ikos8z_numberC2EOS0_(Z *self, Z *x)
__CPROVER_requires(FRESH(z_move, self, sizeof(Z)) && ZFRESH(z_move, x) && Z_OK(x, ZLIM))
__CPROVER_assigns(*self, *x)
__CPROVER_ensures(Z_OK(self, ZLIM) && ZV(self) == OLDZ(x) && MP(self)->f2 == OLD(MP(x)->f2))
__CPROVER_ensures(ZOUT(x) && MP(x)->f2 != MP(self)->f2 && Z_OK(x, ZLIM) && ZV(x) == 0);
void h_z_move(void){ Z r; INZ(b); _ZN4ikos8z_numberC2EOS0_(&r, &b); REACH; }

/* copy assignment: value copied into the existing object, returns *this */
//@check id=z_assign fn=_ZN4ikos8z_numberaSERKS0_ props=C20 backends=minisat,z3,cvc5 first_timeout=60
Z *_ZN4ikos8z_numberaSERKS0_(Z *self, Z *x)
__CPROVER_requires(ZFRESH(z_assign, self) && ZFRESH(z_assign, x) && IN2(ZLIM))
__CPROVER_assigns(*self ZLIMBS_(self))
__CPROVER_ensures(RET == self && Z_OK(self, ZLIM) && ZV(self) == ZV(x) && (self == x || MP(self)->f2 != MP(x)->f2) && ZSAME(self));
void h_z_assign(void){ INZ(a); INZ(b); _ZN4ikos8z_numberaSERKS0_(&a, &b); REACH; }
/* self assignment keeps the value */
//@check id=z_assign_self fn=_ZN4ikos8z_numberaSERKS0_ tag=z_assign props=C20 backends=minisat,z3,cvc5 first_timeout=60
void h_z_assign_self(void){ INZ(a); __CPROVER_assume(Z_OK(&a, ZLIM)); i128 v = ZV(&a); Z *r = _ZN4ikos8z_numberaSERKS0_(&a, &a); __CPROVER_assert(r == &a && ZV(&a) == v, "x = x keeps the value"); REACH; }

/* move assignment: the two values are exchanged (each object keeps owning exactly one array) */
//@check id=z_move_assign fn=_ZN4ikos8z_numberaSEOS0_ props=C20 backends=minisat,z3,cvc5 first_timeout=60
Z *_ZN4ikos8z_numberaSEOS0_(Z *self, Z *x)
__CPROVER_requires(ZFRESH(z_move_assign, self) && ZFRESH(z_move_assign, x) && IN2(ZLIM))
__CPROVER_assigns(*self, *x)
__CPROVER_ensures(RET == self && Z_OK(self, ZLIM) && Z_OK(x, ZLIM) && ZV(self) == OLDZ(x) && ZV(x) == OLDZ(self))
__CPROVER_ensures(MP(self)->f2 == OLD(MP(x)->f2) && MP(x)->f2 == OLD(MP(self)->f2));
void h_z_move_assign(void){ INZ(a); INZ(b); _ZN4ikos8z_numberaSEOS0_(&a, &b); REACH; }

/* destructor: releases exactly the limb array */
//@check id=z_dtor fn=_ZN4ikos8z_numberD2Ev props=C20 backends=minisat,z3,cvc5 first_timeout=60
void _ZN4ikos8z_numberD2Ev(Z *self)
__CPROVER_requires(ZFRESH(z_dtor, self) && IN1(ZLIM))
__CPROVER_assigns()
__CPROVER_frees(MP(self)->f2)
__CPROVER_ensures(__CPROVER_was_freed(MP(self)->f2));
void h_z_dtor(void){ INZ(a); _ZN4ikos8z_numberD2Ev(&a); REACH; }

/* ================================================================== conversions */
/* explicit operator int64_t: all three branches (fits int / fits int64 through mpz_export / CRAB_ERROR).
 * If it returns, the value fitted and the result is exact; it returns whenever the value fits (twin).
 * The call to fits_int64() is replaced by its contract (proved by check z_fits_int64): its two temporaries with
 * conditional destruction make the in-line formula ten times larger (measured). */
#ifdef CHECK_z_to_i64_noexit
#define NOEXIT_z_to_i64 fits64(ZV(self))
#else
#define NOEXIT_z_to_i64 1
#endif
//@check id=z_to_i64 fn=_ZNK4ikos8z_numbercvlEv props=C20 allow_error=1 backends=minisat,z3,cvc5 first_timeout=60 replace=_ZNK4ikos8z_number10fits_int64Ev
//@check id=z_to_i64_noexit fn=_ZNK4ikos8z_numbercvlEv tag=z_to_i64 harness=h_z_to_i64 props=C20 backends=minisat,z3,cvc5 first_timeout=60 replace=_ZNK4ikos8z_number10fits_int64Ev
uint64_t _ZNK4ikos8z_numbercvlEv(Z *self)
__CPROVER_requires(ZFRESH(z_to_i64, self) && IN1(ZLIM) && (NOEXIT_z_to_i64))
__CPROVER_assigns()
__CPROVER_ensures((i128)(int64_t)RET == ZV(self));
void h_z_to_i64(void){ INZ(a); _ZNK4ikos8z_numbercvlEv(&a); REACH; }

//@check id=z_fits_int64 fn=_ZNK4ikos8z_number10fits_int64Ev props=C20 backends=z3,minisat,cvc5 first_timeout=60
unsigned char _ZNK4ikos8z_number10fits_int64Ev(Z *self)
__CPROVER_requires(ZFRESH(z_fits_int64, self) && IN1(ZLIM))
__CPROVER_assigns()
__CPROVER_ensures(RET == (fits64(ZV(self)) ? 1 : 0));
void h_z_fits_int64(void){ INZ(a); _ZNK4ikos8z_number10fits_int64Ev(&a); REACH; }
//@check id=z_fits_sint fn=_ZNK4ikos8z_number9fits_sintEv props=C20 backends=minisat,z3,cvc5 first_timeout=60
unsigned char _ZNK4ikos8z_number9fits_sintEv(Z *self)
__CPROVER_requires(ZFRESH(z_fits_sint, self) && IN1(ZLIM))
__CPROVER_assigns()
__CPROVER_ensures(RET == ((ZV(self) >= -P2(31) && ZV(self) < P2(31)) ? 1 : 0));
void h_z_fits_sint(void){ INZ(a); _ZNK4ikos8z_number9fits_sintEv(&a); REACH; }
//@check id=z_fits_slong fn=_ZNK4ikos8z_number10fits_slongEv props=C20 backends=minisat,z3,cvc5 first_timeout=60
unsigned char _ZNK4ikos8z_number10fits_slongEv(Z *self)
__CPROVER_requires(ZFRESH(z_fits_slong, self) && IN1(ZLIM))
__CPROVER_assigns()
__CPROVER_ensures(RET == (fits64(ZV(self)) ? 1 : 0));
void h_z_fits_slong(void){ INZ(a); _ZNK4ikos8z_number10fits_slongEv(&a); REACH; }

/* from_raw_data(data, num_words, order): the unsigned number made of num_words 64-bit words, most significant word first
 * iff order; proved for num_words <= 2 (the model's two limbs) */
static inline u128 raw_value(const uint64_t *w, uint64_t n, bool msf){
  return n == 0 ? (u128)0 : n == 1 ? (u128)w[0] : (msf ? (((u128)w[0] << 64) | w[1]) : (((u128)w[1] << 64) | w[0])); }
//@check id=z_from_raw fn=_ZN4ikos8z_number13from_raw_dataEPKmmb props=C20 backends=minisat,z3,cvc5 first_timeout=60
void _ZN4ikos8z_number13from_raw_dataEPKmmb(Z *ret, uint64_t *data, uint64_t num_words, unsigned char order)
__CPROVER_requires(FRESH(z_from_raw, ret, sizeof(Z)) && FRESH(z_from_raw, data, 2 * sizeof(uint64_t)) && num_words <= 2 && order <= 1)
__CPROVER_requires(raw_value(data, num_words, order) < (u128)ZLIM)
__CPROVER_assigns(*ret)
__CPROVER_ensures(ZOUT(ret) && Z_OK(ret, ZLIM) && ZV(ret) == (i128)raw_value(data, num_words, order));
struct raw2 { uint64_t w[2]; };
void h_z_from_raw(void){ IN(struct raw2, data); GHOST(uint64_t, num_words); GHOST(unsigned char, order); Z r; _ZN4ikos8z_number13from_raw_dataEPKmmb(&r, data.w, num_words, order); REACH; }
/* to_raw_data(num_words, sign, order): |this| as the minimal number of words (none for 0), sign = (this >= 0), in a fresh array */
//@check id=z_to_raw fn=_ZN4ikos8z_number11to_raw_dataERmRbb props=C20 backends=minisat,z3,cvc5 first_timeout=60
uint64_t *_ZN4ikos8z_number11to_raw_dataERmRbb(Z *self, uint64_t *num_words, uint8_t *sign, unsigned char order)
__CPROVER_requires(ZFRESH(z_to_raw, self) && FRESH(z_to_raw, num_words, sizeof(uint64_t)) && FRESH(z_to_raw, sign, 1) && IN1(ZLIM) && order <= 1)
__CPROVER_assigns(*num_words, *sign)
__CPROVER_ensures(*sign == (ZV(self) >= 0 ? 1 : 0) && *num_words == m_n(MP(self)))
__CPROVER_ensures(__CPROVER_is_fresh(RET, *num_words ? *num_words * 8 : 1))
__CPROVER_ensures(raw_value(RET, *num_words, order) == (u128)(ZV(self) < 0 ? -ZV(self) : ZV(self)));
void h_z_to_raw(void){ INZ(a); uint64_t nw; uint8_t sg; GHOST(unsigned char, order); _ZN4ikos8z_number11to_raw_dataERmRbb(&a, &nw, &sg, order); REACH; }

/* ================================================================== arithmetic */
#define ZBIN(tag, fn, PRE, POST) \
void fn(Z *ret, Z *self, Z *x) \
__CPROVER_requires(FRESH(tag, ret, sizeof(Z)) && ZFRESH(tag, self) && ZFRESH(tag, x)) \
__CPROVER_requires(PRE) \
__CPROVER_assigns(*ret) \
__CPROVER_ensures(ZOUT(ret) && Z_OK(ret, ZLIM) && (POST)); \
void h_##tag(void){ INZ(a); INZ(b); Z r; fn(&r, &a, &b); REACH; }
/* compound assignment: returns this, *this updated in place (its own limb array), x untouched */
#define ZASG(tag, fn, PRE, POST) \
Z *fn(Z *self, Z *x) \
__CPROVER_requires(ZFRESH(tag, self) && ZFRESH(tag, x)) \
__CPROVER_requires(PRE) \
__CPROVER_assigns(*self ZLIMBS_(self)) \
__CPROVER_ensures(RET == self && Z_OK(self, ZLIM) && ZSAME(self) && (POST)); \
void h_##tag(void){ INZ(a); INZ(b); fn(&a, &b); REACH; }
#define OLDV OLDZ(self)

//@check id=z_add fn=_ZNK4ikos8z_numberplES0_ props=C20 backends=minisat,z3,cvc5 first_timeout=60
ZBIN(z_add, _ZNK4ikos8z_numberplES0_, IN2(ZB), ZV(ret) == ZV(self) + ZV(x))
//@check id=z_sub fn=_ZNK4ikos8z_numbermiES0_ props=C20 backends=minisat,z3,cvc5 first_timeout=60
ZBIN(z_sub, _ZNK4ikos8z_numbermiES0_, IN2(ZB), ZV(ret) == ZV(self) - ZV(x))
/* multiplication: operands below 2^63 (GM_mul: see gmpmodel.c); bit-precise cross-check for operands below 2^8 in z_mul_precise */
#ifdef GM_PRECISE
#define MULB P2(8)
#define DIVB P2(8)
#else
#define MULB ZMULB
#define DIVB ZB
#endif
//@check id=z_mul fn=_ZNK4ikos8z_numbermlES0_ props=C20 backends=minisat,z3,cvc5 first_timeout=60
//@check id=z_mul_precise fn=_ZNK4ikos8z_numbermlES0_ tag=z_mul harness=h_z_mul props=C20 defs=GM_PRECISE,GM_FLAT tier=thorough backends=minisat,cvc5 first_timeout=400 timeout=600 bounded="bit-precise small arithmetic: operands below 2^k in magnitude only"
ZBIN(z_mul, _ZNK4ikos8z_numbermlES0_, IN2(MULB), ZV(ret) == GM_mul(ZV(self), ZV(x)))
//@check id=z_neg fn=_ZNK4ikos8z_numberngEv props=C20 backends=minisat,z3,cvc5 first_timeout=60
void _ZNK4ikos8z_numberngEv(Z *ret, Z *self)
__CPROVER_requires(FRESH(z_neg, ret, sizeof(Z)) && ZFRESH(z_neg, self) && IN1(ZLIM))
__CPROVER_assigns(*ret)
__CPROVER_ensures(ZOUT(ret) && Z_OK(ret, ZLIM) && ZV(ret) == -ZV(self));
void h_z_neg(void){ INZ(a); Z r; _ZNK4ikos8z_numberngEv(&r, &a); REACH; }

/* division and remainder: TRUNCATING (quotient towards zero, remainder with the sign of the dividend).
 * Division by zero is CRAB_ERROR: "returns ==> divisor non-zero and result exact", twin: a non-zero divisor never exits. */
#if defined(CHECK_z_div_noexit) || defined(CHECK_z_rem_noexit) || defined(CHECK_z_div_asg_noexit) || defined(CHECK_z_rem_asg_noexit)
#define NOEXIT_DIV (ZV(x) != 0)
#else
#define NOEXIT_DIV 1
#endif
//@check id=z_div fn=_ZNK4ikos8z_numberdvES0_ props=C20 allow_error=1 backends=minisat,z3,cvc5 first_timeout=60
//@check id=z_div_noexit fn=_ZNK4ikos8z_numberdvES0_ tag=z_div harness=h_z_div props=C20 backends=minisat,z3,cvc5 first_timeout=60
//@check id=z_div_precise fn=_ZNK4ikos8z_numberdvES0_ tag=z_div harness=h_z_div props=C20 allow_error=1 defs=GM_PRECISE,GM_FLAT tier=thorough backends=minisat,cvc5 first_timeout=400 timeout=600 bounded="bit-precise small arithmetic: operands below 2^k in magnitude only"
ZBIN(z_div, _ZNK4ikos8z_numberdvES0_, IN2(DIVB) && NOEXIT_DIV, ZV(x) != 0 && ZV(ret) == GM_tdiv(ZV(self), ZV(x)))
//@check id=z_rem fn=_ZNK4ikos8z_numberrmES0_ props=C20 allow_error=1 backends=minisat,z3,cvc5 first_timeout=60
//@check id=z_rem_noexit fn=_ZNK4ikos8z_numberrmES0_ tag=z_rem harness=h_z_rem props=C20 backends=minisat,z3,cvc5 first_timeout=60
//@check id=z_rem_precise fn=_ZNK4ikos8z_numberrmES0_ tag=z_rem harness=h_z_rem props=C20 allow_error=1 defs=GM_PRECISE,GM_FLAT tier=thorough backends=minisat,cvc5 first_timeout=400 timeout=600 bounded="bit-precise small arithmetic: operands below 2^k in magnitude only"
ZBIN(z_rem, _ZNK4ikos8z_numberrmES0_, IN2(DIVB) && NOEXIT_DIV, ZV(x) != 0 && ZV(ret) == GM_trem(ZV(self), ZV(x)))

//@check id=z_add_asg fn=_ZN4ikos8z_numberpLES0_ props=C20 backends=minisat,z3,cvc5 first_timeout=60
ZASG(z_add_asg, _ZN4ikos8z_numberpLES0_, IN2(ZB), ZV(self) == OLDV + ZV(x))
//@check id=z_sub_asg fn=_ZN4ikos8z_numbermIES0_ props=C20 backends=minisat,z3,cvc5 first_timeout=60
ZASG(z_sub_asg, _ZN4ikos8z_numbermIES0_, IN2(ZB), ZV(self) == OLDV - ZV(x))
//@check id=z_mul_asg fn=_ZN4ikos8z_numbermLES0_ props=C20 backends=minisat,z3,cvc5 first_timeout=60
ZASG(z_mul_asg, _ZN4ikos8z_numbermLES0_, IN2(MULB), ZV(self) == GM_mul(OLDV, ZV(x)))
//@check id=z_div_asg fn=_ZN4ikos8z_numberdVES0_ props=C20 allow_error=1 backends=minisat,z3,cvc5 first_timeout=60
//@check id=z_div_asg_noexit fn=_ZN4ikos8z_numberdVES0_ tag=z_div_asg harness=h_z_div_asg props=C20 backends=minisat,z3,cvc5 first_timeout=60
ZASG(z_div_asg, _ZN4ikos8z_numberdVES0_, IN2(DIVB) && NOEXIT_DIV, ZV(x) != 0 && ZV(self) == GM_tdiv(OLDV, ZV(x)))
//@check id=z_rem_asg fn=_ZN4ikos8z_numberrMES0_ props=C20 allow_error=1 backends=minisat,z3,cvc5 first_timeout=60
//@check id=z_rem_asg_noexit fn=_ZN4ikos8z_numberrMES0_ tag=z_rem_asg harness=h_z_rem_asg props=C20 backends=minisat,z3,cvc5 first_timeout=60
ZASG(z_rem_asg, _ZN4ikos8z_numberrMES0_, IN2(DIVB) && NOEXIT_DIV, ZV(x) != 0 && ZV(self) == GM_trem(OLDV, ZV(x)))

/* ++x --x (return this) and x++ x-- (return the old value) */
#define ZPRE(tag, fn, POST) \
Z *fn(Z *self) \
__CPROVER_requires(ZFRESH(tag, self) && IN1(ZB)) \
__CPROVER_assigns(*self ZLIMBS_(self)) \
__CPROVER_ensures(RET == self && Z_OK(self, ZLIM) && ZSAME(self) && (POST)); \
void h_##tag(void){ INZ(a); fn(&a); REACH; }
//@check id=z_preinc fn=_ZN4ikos8z_numberppEv props=C20 backends=minisat,z3,cvc5 first_timeout=60
ZPRE(z_preinc, _ZN4ikos8z_numberppEv, ZV(self) == OLDV + 1)
//@check id=z_predec fn=_ZN4ikos8z_numbermmEv props=C20 backends=minisat,z3,cvc5 first_timeout=60
ZPRE(z_predec, _ZN4ikos8z_numbermmEv, ZV(self) == OLDV - 1)
#define ZPOSTOP(tag, fn, POST) \
void fn(Z *ret, Z *self, uint32_t dummy) \
__CPROVER_requires(FRESH(tag, ret, sizeof(Z)) && ZFRESH(tag, self) && IN1(ZB)) \
__CPROVER_assigns(*ret, *self ZLIMBS_(self)) \
__CPROVER_ensures(ZOUT(ret) && MP(ret)->f2 != MP(self)->f2 && Z_OK(ret, ZLIM) && ZV(ret) == OLDV) \
__CPROVER_ensures(Z_OK(self, ZLIM) && ZSAME(self) && (POST)); \
void h_##tag(void){ INZ(a); Z r; fn(&r, &a, 0); REACH; }
//@check id=z_postinc fn=_ZN4ikos8z_numberppEi props=C20 backends=minisat,z3,cvc5 first_timeout=60
ZPOSTOP(z_postinc, _ZN4ikos8z_numberppEi, ZV(self) == OLDV + 1)
//@check id=z_postdec fn=_ZN4ikos8z_numbermmEi props=C20 backends=minisat,z3,cvc5 first_timeout=60
ZPOSTOP(z_postdec, _ZN4ikos8z_numbermmEi, ZV(self) == OLDV - 1)

/* ================================================================== comparisons: the order of the integers */
#define ZCMP(tag, fn, OP) \
unsigned char fn(Z *self, Z *x) \
__CPROVER_requires(ZFRESH(tag, self) && ZFRESH(tag, x) && IN2(ZLIM)) \
__CPROVER_assigns() \
__CPROVER_ensures(RET == ((ZV(self) OP ZV(x)) ? 1 : 0)); \
void h_##tag(void){ INZ(a); INZ(b); fn(&a, &b); REACH; }
//@check id=z_eq fn=_ZNK4ikos8z_numbereqES0_ props=C20 backends=minisat,z3,cvc5 first_timeout=60
ZCMP(z_eq, _ZNK4ikos8z_numbereqES0_, ==)
//@check id=z_ne fn=_ZNK4ikos8z_numberneES0_ props=C20 backends=minisat,z3,cvc5 first_timeout=60
ZCMP(z_ne, _ZNK4ikos8z_numberneES0_, !=)
//@check id=z_lt fn=_ZNK4ikos8z_numberltES0_ props=C20 backends=minisat,z3,cvc5 first_timeout=60
ZCMP(z_lt, _ZNK4ikos8z_numberltES0_, <)
//@check id=z_le fn=_ZNK4ikos8z_numberleES0_ props=C20 backends=minisat,z3,cvc5 first_timeout=60
ZCMP(z_le, _ZNK4ikos8z_numberleES0_, <=)
//@check id=z_gt fn=_ZNK4ikos8z_numbergtES0_ props=C20 backends=minisat,z3,cvc5 first_timeout=60
ZCMP(z_gt, _ZNK4ikos8z_numbergtES0_, >)
//@check id=z_ge fn=_ZNK4ikos8z_numbergeES0_ props=C20 backends=minisat,z3,cvc5 first_timeout=60
ZCMP(z_ge, _ZNK4ikos8z_numbergeES0_, >=)

/* ================================================================== bitwise: two's complement with infinite sign extension,
 * operands of ARBITRARY sign; on values below 2^125 in magnitude that is the 128-bit two's complement operation */
//@check id=z_and fn=_ZNK4ikos8z_numberanES0_ props=C20 backends=minisat,z3,cvc5 first_timeout=60
ZBIN(z_and, _ZNK4ikos8z_numberanES0_, IN2(ZB), ZV(ret) == (ZV(self) & ZV(x)))
//@check id=z_or fn=_ZNK4ikos8z_numberorES0_ props=C20 backends=minisat,z3,cvc5 first_timeout=60
ZBIN(z_or, _ZNK4ikos8z_numberorES0_, IN2(ZB), ZV(ret) == (ZV(self) | ZV(x)))
//@check id=z_xor fn=_ZNK4ikos8z_numbereoES0_ props=C20 backends=minisat,z3,cvc5 first_timeout=60
ZBIN(z_xor, _ZNK4ikos8z_numbereoES0_, IN2(ZB), ZV(ret) == (ZV(self) ^ ZV(x)))

/* ================================================================== shifts.  The amount is a z_number that the code reads with
 * mpz_get_ui (|x| mod 2^64, no check: "TODO: check for potential overflow" in the source): defined for 0 <= x < 2^64.
 *  <<  : this * 2^x exactly (model range: x < 126 and the result below 2^126)
 *  >>  : floor(this / 2^x), also for negative this (arithmetic shift), for EVERY amount 0 <= x < 2^64 */
#define SHAMT ((uint64_t)ZV(x))
//@check id=z_shl fn=_ZNK4ikos8z_numberlsES0_ props=C20 backends=minisat,z3,cvc5 first_timeout=60
ZBIN(z_shl, _ZNK4ikos8z_numberlsES0_, IN2(ZLIM) && ZV(x) >= 0 && ZV(x) < 126 && ZV(self) > -(ZLIM >> SHAMT) && ZV(self) < (ZLIM >> SHAMT), ZV(ret) == s_shl(ZV(self), SHAMT))
//@check id=z_shr fn=_ZNK4ikos8z_numberrsES0_ props=C20 backends=minisat,z3,cvc5 first_timeout=60
ZBIN(z_shr, _ZNK4ikos8z_numberrsES0_, IN2(ZLIM) && ZV(x) >= 0 && ZV(x) < P2(64), ZV(ret) == s_fshr(ZV(self), SHAMT))

/* ================================================================== fill_ones: smallest 2^k - 1 >= this, for this >= 0 (the source asserts
 * this >= 0; the assert is compiled out under NDEBUG, so it is the precondition).  The loop doubles `result` until it
 * reaches x: at most FILLBITS iterations for x < 2^FILLBITS (structural bound, unwinding assertion proved).  The loop
 * multiplies by the z_number 2: GM_PRECISE makes that product bit-precise (a multiplication by a constant).
 * z_fill_ones (thorough): bounded cross-check by unwinding, x < 2^8.  z_fill_ones_loop (quick): loop contract, x < 2^62.
 * Both use the GM_FLAT representation: with a malloc/free per temporary (7 per iteration) no back end finishes (measured:
 * unwind 10 > 10 min). */
#ifndef FILLBITS
#define FILLBITS 8
#endif
//@check id=z_fill_ones fn=_ZNK4ikos8z_number9fill_onesEv props=C20 tier=thorough defs=GM_FLAT,GM_PRECISE,FILLBITS=8 unwind=10 backends=minisat,z3 first_timeout=600 timeout=600 bounded="bit-precise small arithmetic: operands below 2^k in magnitude only"
void _ZNK4ikos8z_number9fill_onesEv(Z *ret, Z *self)
__CPROVER_requires(FRESH(z_fill_ones, ret, sizeof(Z)) && ZFRESH(z_fill_ones, self) && IN1(P2(FILLBITS)) && ZV(self) >= 0)
__CPROVER_assigns(*ret)
__CPROVER_ensures(ZOUT(ret) && Z_OK(ret, ZLIM) && ZV(ret) == s_fill(ZV(self)));
void h_z_fill_ones(void){ INZ(a); Z r; _ZNK4ikos8z_number9fill_onesEv(&r, &a); REACH; }

/* ================================================================== q_number
 * A q_number is the pair (numerator, denominator) of an mpq.  GMP: "All rational arithmetic functions assume operands have a
 * canonical form" (denominator > 0, no common factor): Q_CANON is the precondition of comparisons and rounding, and what
 * constructors and arithmetic must deliver.  QN / QD read numerator and denominator. */
#ifdef GM_FLAT
static void q_build(Q *q, uint32_t ns, uint64_t n0, uint64_t n1, uint32_t ds, uint64_t d0, uint64_t d1){
  QNUM(q)->f0 = (uint32_t)n1; QNUM(q)->f1 = ns; QNUM(q)->f2 = (uint64_t *)n0;
  QDEN(q)->f0 = (uint32_t)d1; QDEN(q)->f1 = ds; QDEN(q)->f2 = (uint64_t *)d0; }
#define QFRESH(tag, p) FRESH(tag, p, sizeof(Q))
#define QOUT(r) 1
#define QLIMBS_(p)
#define OLDQN(p) v3(OLD(QNUM(p)->f1), (uint64_t)OLD(QNUM(p)->f2), (uint64_t)OLD(QNUM(p)->f0))
#define OLDQD(p) v3(OLD(QDEN(p)->f1), (uint64_t)OLD(QDEN(p)->f2), (uint64_t)OLD(QDEN(p)->f0))
#define SAMEARRAYS(q) 1
#else
static void q_build(Q *q, uint32_t ns, uint64_t n0, uint64_t n1, uint32_t ds, uint64_t d0, uint64_t d1){
  uint64_t *n = (uint64_t *)malloc(LIMBBYTES), *d = (uint64_t *)malloc(LIMBBYTES);
  __CPROVER_assume(n != 0 && d != 0);   /* environment: the allocation of the INPUT succeeded */
  n[0] = n0; n[1] = n1; d[0] = d0; d[1] = d1;
  QNUM(q)->f0 = NLIMB; QNUM(q)->f1 = ns; QNUM(q)->f2 = n;
  QDEN(q)->f0 = NLIMB; QDEN(q)->f1 = ds; QDEN(q)->f2 = d; }
#define QFRESH(tag, p) (FRESH(tag, p, sizeof(Q)) && FRESH(tag, QNUM(p)->f2, LIMBBYTES) && FRESH(tag, QDEN(p)->f2, LIMBBYTES))
#define QOUT(r) (__CPROVER_is_fresh(QNUM(r)->f2, LIMBBYTES) && __CPROVER_is_fresh(QDEN(r)->f2, LIMBBYTES))
#define QLIMBS_(p) , __CPROVER_object_whole(QNUM(p)->f2), __CPROVER_object_whole(QDEN(p)->f2)
#define OLDQN(p) v3(OLD(QNUM(p)->f1), OLD(QNUM(p)->f2[0]), OLD(QNUM(p)->f2[1]))
#define OLDQD(p) v3(OLD(QDEN(p)->f1), OLD(QDEN(p)->f2[0]), OLD(QDEN(p)->f2[1]))
#define SAMEARRAYS(q) (QNUM(q)->f2 == OLD(QNUM(q)->f2) && QDEN(q)->f2 == OLD(QDEN(q)->f2))
#endif
#define INQ(a) GHOST(uint32_t, a##n_size); GHOST(uint64_t, a##n_d0); GHOST(uint64_t, a##n_d1); GHOST(uint32_t, a##d_size); GHOST(uint64_t, a##d_d0); GHOST(uint64_t, a##d_d1); \
  Q a; q_build(&a, a##n_size, a##n_d0, a##n_d1, a##d_size, a##d_d0, a##d_d1)
#define Q_INV(q, lim) (Q_OK(q, lim) && Q_CANON(q))     /* class invariant of q_number: canonical form */
#define Q_IS(q, n, d) (Q_OK(q, ZLIM) && QN(q) == (n) && QD(q) == (d))

//@check id=q_ctor0 fn=_ZN4ikos8q_numberC2Ev props=C20 backends=minisat,z3,cvc5 first_timeout=60
void _ZN4ikos8q_numberC2Ev(Q *self)
__CPROVER_requires(FRESH(q_ctor0, self, sizeof(Q)))
__CPROVER_assigns(*self)
__CPROVER_ensures(QOUT(self) && Q_IS(self, 0, 1));
void h_q_ctor0(void){ Q r; _ZN4ikos8q_numberC2Ev(&r); REACH; }
//@check id=q_ctor_z fn=_ZN4ikos8q_numberC2ERKNS_8z_numberE props=C20 backends=minisat,z3,cvc5 first_timeout=60
void _ZN4ikos8q_numberC2ERKNS_8z_numberE(Q *self, Z *x)
__CPROVER_requires(FRESH(q_ctor_z, self, sizeof(Q)) && ZFRESH(q_ctor_z, x) && Z_OK(x, ZLIM))
__CPROVER_assigns(*self)
__CPROVER_ensures(QOUT(self) && Q_IS(self, ZV(x), 1));
void h_q_ctor_z(void){ Q r; INZ(b); _ZN4ikos8q_numberC2ERKNS_8z_numberE(&r, &b); REACH; }
/* q_number(num, den): the rational num/den, in canonical form (it is passed to the comparison, rounding and arithmetic
 * members, whose GMP calls assume it); den = 0 is not a rational: if the call returns, den != 0 */
#ifdef CHECK_q_ctor_zz_noexit
#define NOEXIT_q_ctor_zz (ZV(d) != 0)
#else
#define NOEXIT_q_ctor_zz 1
#endif
//@check id=q_ctor_zz fn=_ZN4ikos8q_numberC2ERKNS_8z_numberES3_ props=C20 allow_error=1 backends=minisat,z3,cvc5 first_timeout=60
//@check id=q_ctor_zz_noexit fn=_ZN4ikos8q_numberC2ERKNS_8z_numberES3_ tag=q_ctor_zz harness=h_q_ctor_zz props=C20 backends=minisat,z3,cvc5 first_timeout=60
void _ZN4ikos8q_numberC2ERKNS_8z_numberES3_(Q *self, Z *n, Z *d)
__CPROVER_requires(FRESH(q_ctor_zz, self, sizeof(Q)) && ZFRESH(q_ctor_zz, n) && ZFRESH(q_ctor_zz, d) && Z_OK(n, ZLIM) && Z_OK(d, ZLIM) && (NOEXIT_q_ctor_zz))
__CPROVER_assigns(*self)
__CPROVER_ensures(QOUT(self) && Q_OK(self, ZLIM))
__CPROVER_ensures(ZV(d) != 0 && QD(self) > 0)
__CPROVER_ensures(Q_CANON(self) && QN(self) == GM_cann(ZV(n), ZV(d)) && QD(self) == GM_cand(ZV(n), ZV(d)));
void h_q_ctor_zz(void){ Q r; INZ(a); INZ(b); _ZN4ikos8q_numberC2ERKNS_8z_numberES3_(&r, &a, &b); REACH; }

//@check id=q_copy fn=_ZN4ikos8q_numberC2ERKS0_ props=C20 backends=minisat,z3,cvc5 first_timeout=60
void _ZN4ikos8q_numberC2ERKS0_(Q *self, Q *x)
__CPROVER_requires(FRESH(q_copy, self, sizeof(Q)) && QFRESH(q_copy, x) && Q_OK(x, ZLIM))
__CPROVER_assigns(*self)
__CPROVER_ensures(QOUT(self) && QNUM(self)->f2 != QNUM(x)->f2 && QDEN(self)->f2 != QDEN(x)->f2 && Q_IS(self, QN(x), QD(x)));
void h_q_copy(void){ Q r; INQ(b); _ZN4ikos8q_numberC2ERKS0_(&r, &b); REACH; }
//@check id=q_move fn=_ZN4ikos8q_numberC2EOS0_ props=C20 backends=minisat,z3,cvc5 first_timeout=60
void _ZN4ikos8q_numberC2EOS0_(Q *self, Q *x)
__CPROVER_requires(FRESH(q_move, self, sizeof(Q)) && QFRESH(q_move, x) && Q_OK(x, ZLIM))
__CPROVER_assigns(*self, *x)
__CPROVER_ensures(Q_IS(self, OLDQN(x), OLDQD(x)) && QNUM(self)->f2 == OLD(QNUM(x)->f2) && QDEN(self)->f2 == OLD(QDEN(x)->f2))
__CPROVER_ensures(QOUT(x) && Q_IS(x, 0, 1));
void h_q_move(void){ Q r; INQ(b); _ZN4ikos8q_numberC2EOS0_(&r, &b); REACH; }
//@check id=q_assign fn=_ZN4ikos8q_numberaSERKS0_ props=C20 backends=minisat,z3,cvc5 first_timeout=60
Q *_ZN4ikos8q_numberaSERKS0_(Q *self, Q *x)
__CPROVER_requires(QFRESH(q_assign, self) && QFRESH(q_assign, x) && Q_OK(self, ZLIM) && Q_INV(x, ZLIM))
__CPROVER_assigns(*self QLIMBS_(self))
__CPROVER_ensures(RET == self && SAMEARRAYS(self) && Q_IS(self, QN(x), QD(x)));
void h_q_assign(void){ INQ(a); INQ(b); _ZN4ikos8q_numberaSERKS0_(&a, &b); REACH; }
/* move assignment swaps the two mpq (std::swap of a 1-element array: loop of 1 iteration, unwound) */
//@check id=q_move_assign fn=_ZN4ikos8q_numberaSEOS0_ props=C20 unwind=2 backends=minisat,z3,cvc5 first_timeout=60
Q *_ZN4ikos8q_numberaSEOS0_(Q *self, Q *x)
__CPROVER_requires(QFRESH(q_move_assign, self) && QFRESH(q_move_assign, x) && Q_OK(self, ZLIM) && Q_OK(x, ZLIM))
__CPROVER_assigns(*self, *x)
__CPROVER_ensures(RET == self && Q_IS(self, OLDQN(x), OLDQD(x)) && Q_IS(x, OLDQN(self), OLDQD(self)))
__CPROVER_ensures(QNUM(self)->f2 == OLD(QNUM(x)->f2) && QDEN(self)->f2 == OLD(QDEN(x)->f2) && QNUM(x)->f2 == OLD(QNUM(self)->f2) && QDEN(x)->f2 == OLD(QDEN(self)->f2));
void h_q_move_assign(void){ INQ(a); INQ(b); _ZN4ikos8q_numberaSEOS0_(&a, &b); REACH; }
//@check id=q_dtor fn=_ZN4ikos8q_numberD2Ev props=C20 backends=z3,minisat,cvc5 first_timeout=60
void _ZN4ikos8q_numberD2Ev(Q *self)
__CPROVER_requires(QFRESH(q_dtor, self) && Q_OK(self, ZLIM))
__CPROVER_assigns()
__CPROVER_frees(QNUM(self)->f2, QDEN(self)->f2)
__CPROVER_ensures(__CPROVER_was_freed(QNUM(self)->f2) && __CPROVER_was_freed(QDEN(self)->f2));
void h_q_dtor(void){ INQ(a); _ZN4ikos8q_numberD2Ev(&a); REACH; }

#define QGET(tag, fn, FIELD) \
void fn(Z *ret, Q *self) \
__CPROVER_requires(FRESH(tag, ret, sizeof(Z)) && QFRESH(tag, self) && Q_OK(self, ZLIM)) \
__CPROVER_assigns(*ret) \
__CPROVER_ensures(ZOUT(ret) && Z_OK(ret, ZLIM) && ZV(ret) == FIELD(self)); \
void h_##tag(void){ INQ(a); Z r; fn(&r, &a); REACH; }
//@check id=q_numerator fn=_ZNK4ikos8q_number9numeratorEv props=C20 backends=minisat,z3,cvc5 first_timeout=60
QGET(q_numerator, _ZNK4ikos8q_number9numeratorEv, QN)
//@check id=q_denominator fn=_ZNK4ikos8q_number11denominatorEv props=C20 backends=minisat,z3,cvc5 first_timeout=60
QGET(q_denominator, _ZNK4ikos8q_number11denominatorEv, QD)

/* comparisons of canonical rationals: the order of the rationals, by cross multiplication (denominators are positive) */
#define QIN2 (Q_OK(self, QB) && Q_OK(x, QB) && Q_CANON(self) && Q_CANON(x))
#define QCMP(tag, fn, EXPR) \
unsigned char fn(Q *self, Q *x) \
__CPROVER_requires(QFRESH(tag, self) && QFRESH(tag, x) && QIN2) \
__CPROVER_assigns() \
__CPROVER_ensures(RET == ((EXPR) ? 1 : 0)); \
void h_##tag(void){ INQ(a); INQ(b); fn(&a, &b); REACH; }
#define SLT s_qlt(QN(self), QD(self), QN(x), QD(x))
#define SGT s_qlt(QN(x), QD(x), QN(self), QD(self))
#define SEQ s_qeq(QN(self), QD(self), QN(x), QD(x))
//@check id=q_eq fn=_ZNK4ikos8q_numbereqES0_ props=C20 backends=minisat,z3,cvc5 first_timeout=60
QCMP(q_eq, _ZNK4ikos8q_numbereqES0_, SEQ)
//@check id=q_ne fn=_ZNK4ikos8q_numberneES0_ props=C20 backends=minisat,z3,cvc5 first_timeout=60
QCMP(q_ne, _ZNK4ikos8q_numberneES0_, !SEQ)
//@check id=q_lt fn=_ZNK4ikos8q_numberltES0_ props=C20 backends=minisat,z3,cvc5 first_timeout=60
QCMP(q_lt, _ZNK4ikos8q_numberltES0_, SLT)
//@check id=q_le fn=_ZNK4ikos8q_numberleES0_ props=C20 backends=minisat,z3,cvc5 first_timeout=60
QCMP(q_le, _ZNK4ikos8q_numberleES0_, !SGT)
//@check id=q_gt fn=_ZNK4ikos8q_numbergtES0_ props=C20 backends=minisat,z3,cvc5 first_timeout=60
QCMP(q_gt, _ZNK4ikos8q_numbergtES0_, SGT)
//@check id=q_ge fn=_ZNK4ikos8q_numbergeES0_ props=C20 backends=minisat,z3,cvc5 first_timeout=60
QCMP(q_ge, _ZNK4ikos8q_numbergeES0_, !SLT)

/* ---- arithmetic.  Class invariant of q_number: canonical form (Q_INV): required of operands, ensured of results.
 * ret = the canonical form of self (op) x: GM_qopn / GM_qopd, see models/gmpmodel.c; on integers (denominators 1) that is
 * the integer operation (second clause).  x is passed by value: the callee may canonicalise that temporary in place. */
#define QRES(r, op, an, ad, bn, bd) (Q_OK(r, ZLIM) && Q_CANON(r) && QN(r) == GM_qopn(op, an, ad, bn, bd) && QD(r) == GM_qopd(op, an, ad, bn, bd))
#define QINT(r, op, an, ad, bn, bd) ((ad) != 1 || (bd) != 1 || (QD(r) == 1 && QN(r) == ((op) == 0 ? (an) + (bn) : (op) == 1 ? (an) - (bn) : GM_mul(an, bn))))
#define QBIN(tag, fn, op, NOEXIT) \
void fn(Q *ret, Q *self, Q *x) \
__CPROVER_requires(FRESH(tag, ret, sizeof(Q)) && QFRESH(tag, self) && QFRESH(tag, x) && Q_INV(self, QB) && Q_INV(x, QB) && (NOEXIT)) \
__CPROVER_assigns(*ret, *x QLIMBS_(x)) \
__CPROVER_ensures(QOUT(ret) && ((op) != 3 || OLDQN(x) != 0)) \
__CPROVER_ensures(QRES(ret, op, QN(self), QD(self), OLDQN(x), OLDQD(x))) \
__CPROVER_ensures((op) == 3 || QINT(ret, op, QN(self), QD(self), OLDQN(x), OLDQD(x))); \
void h_##tag(void){ INQ(a); INQ(b); Q r; fn(&r, &a, &b); REACH; }
//@check id=q_add fn=_ZNK4ikos8q_numberplES0_ props=C20 backends=minisat,z3,cvc5 first_timeout=100
QBIN(q_add, _ZNK4ikos8q_numberplES0_, 0, 1)
//@check id=q_sub fn=_ZNK4ikos8q_numbermiES0_ props=C20 backends=minisat,z3,cvc5 first_timeout=100
QBIN(q_sub, _ZNK4ikos8q_numbermiES0_, 1, 1)
//@check id=q_mul fn=_ZNK4ikos8q_numbermlES0_ props=C20 backends=minisat,z3,cvc5 first_timeout=100
QBIN(q_mul, _ZNK4ikos8q_numbermlES0_, 2, 1)
#if defined(CHECK_q_div_noexit) || defined(CHECK_q_div_asg_noexit)
#define NOEXIT_QDIV (QN(x) != 0)
#else
#define NOEXIT_QDIV 1
#endif
//@check id=q_div fn=_ZNK4ikos8q_numberdvES0_ props=C20 allow_error=1 defs=GM_FLAT backends=minisat,z3,cvc5 first_timeout=100
//@check id=q_div_noexit fn=_ZNK4ikos8q_numberdvES0_ tag=q_div harness=h_q_div props=C20 defs=GM_FLAT backends=minisat,z3,cvc5 first_timeout=100
QBIN(q_div, _ZNK4ikos8q_numberdvES0_, 3, NOEXIT_QDIV)
//@check id=q_neg fn=_ZNK4ikos8q_numberngEv props=C20 backends=minisat,z3,cvc5 first_timeout=100
void _ZNK4ikos8q_numberngEv(Q *ret, Q *self)
__CPROVER_requires(FRESH(q_neg, ret, sizeof(Q)) && QFRESH(q_neg, self) && Q_INV(self, QB))
__CPROVER_assigns(*ret)
__CPROVER_ensures(QOUT(ret) && Q_IS(ret, -QN(self), QD(self)) && Q_CANON(ret));
void h_q_neg(void){ INQ(a); Q r; _ZNK4ikos8q_numberngEv(&r, &a); REACH; }

/* rounding of a canonical rational to an integer: floor and ceiling of num/den */
#define QROUND(tag, fn, SPEC) \
void fn(Z *ret, Q *self) \
__CPROVER_requires(FRESH(tag, ret, sizeof(Z)) && QFRESH(tag, self) && Q_INV(self, ZB)) \
__CPROVER_assigns(*ret) \
__CPROVER_ensures(ZOUT(ret) && Z_OK(ret, ZLIM) && ZV(ret) == SPEC(QN(self), QD(self))); \
void h_##tag(void){ INQ(a); Z r; fn(&r, &a); REACH; }
//@check id=q_round_upper fn=_ZNK4ikos8q_number14round_to_upperEv props=C20 defs=GM_FLAT backends=minisat,z3,cvc5 first_timeout=200 timeout=300
QROUND(q_round_upper, _ZNK4ikos8q_number14round_to_upperEv, s_cdiv)
//@check id=q_round_lower fn=_ZNK4ikos8q_number14round_to_lowerEv props=C20 defs=GM_FLAT backends=minisat,z3,cvc5 first_timeout=200 timeout=300
QROUND(q_round_lower, _ZNK4ikos8q_number14round_to_lowerEv, s_fdiv)

/* compound assignment: *this (canonicalised first) op= x, in place; returns this */
#define QASG(tag, fn, op, NOEXIT) \
Q *fn(Q *self, Q *x) \
__CPROVER_requires(QFRESH(tag, self) && QFRESH(tag, x) && Q_INV(self, QB) && Q_INV(x, QB) && (NOEXIT)) \
__CPROVER_assigns(*self, *x QLIMBS_(self) QLIMBS_(x)) \
__CPROVER_ensures(RET == self && SAMEARRAYS(self) && ((op) != 3 || OLDQN(x) != 0)) \
__CPROVER_ensures(QRES(self, op, OLDQN(self), OLDQD(self), OLDQN(x), OLDQD(x))) \
__CPROVER_ensures((op) == 3 || QINT(self, op, OLDQN(self), OLDQD(self), OLDQN(x), OLDQD(x))); \
void h_##tag(void){ INQ(a); INQ(b); fn(&a, &b); REACH; }
//@check id=q_add_asg fn=_ZN4ikos8q_numberpLES0_ props=C20 backends=minisat,z3,cvc5 first_timeout=100
QASG(q_add_asg, _ZN4ikos8q_numberpLES0_, 0, 1)
//@check id=q_sub_asg fn=_ZN4ikos8q_numbermIES0_ props=C20 backends=minisat,z3,cvc5 first_timeout=100
QASG(q_sub_asg, _ZN4ikos8q_numbermIES0_, 1, 1)
//@check id=q_mul_asg fn=_ZN4ikos8q_numbermLES0_ props=C20 backends=minisat,z3,cvc5 first_timeout=100
QASG(q_mul_asg, _ZN4ikos8q_numbermLES0_, 2, 1)
//@check id=q_div_asg fn=_ZN4ikos8q_numberdVES0_ props=C20 allow_error=1 defs=GM_FLAT backends=minisat,z3,cvc5 first_timeout=100
//@check id=q_div_asg_noexit fn=_ZN4ikos8q_numberdVES0_ tag=q_div_asg harness=h_q_div_asg props=C20 defs=GM_FLAT backends=minisat,z3,cvc5 first_timeout=100
QASG(q_div_asg, _ZN4ikos8q_numberdVES0_, 3, NOEXIT_QDIV)

/* ++q / --q: (n + d)/d and (n - d)/d, in place (gcd(n +- d, d) = gcd(n, d): the result is canonical again; that last
 * step is arithmetic the uninterpreted coprimality symbol does not know, so it is stated here, not proved) */
#define QPRE(tag, fn, SGN) \
Q *fn(Q *self) \
__CPROVER_requires(QFRESH(tag, self) && Q_INV(self, ZB)) \
__CPROVER_assigns(*self QLIMBS_(self)) \
__CPROVER_ensures(RET == self && SAMEARRAYS(self) && Q_IS(self, OLDQN(self) SGN OLDQD(self), OLDQD(self))); \
void h_##tag(void){ INQ(a); fn(&a); REACH; }
//@check id=q_preinc fn=_ZN4ikos8q_numberppEv props=C20 backends=minisat,z3,cvc5 first_timeout=100
QPRE(q_preinc, _ZN4ikos8q_numberppEv, +)
//@check id=q_predec fn=_ZN4ikos8q_numbermmEv props=C20 backends=minisat,z3,cvc5 first_timeout=100
QPRE(q_predec, _ZN4ikos8q_numbermmEv, -)
#define QPOSTOP(tag, fn, SGN) \
void fn(Q *ret, Q *self, uint32_t dummy) \
__CPROVER_requires(FRESH(tag, ret, sizeof(Q)) && QFRESH(tag, self) && Q_INV(self, ZB)) \
__CPROVER_assigns(*ret, *self QLIMBS_(self)) \
__CPROVER_ensures(QOUT(ret) && Q_IS(ret, OLDQN(self), OLDQD(self))) \
__CPROVER_ensures(SAMEARRAYS(self) && Q_IS(self, OLDQN(self) SGN OLDQD(self), OLDQD(self))); \
void h_##tag(void){ INQ(a); Q r; fn(&r, &a, 0); REACH; }
//@check id=q_postinc fn=_ZN4ikos8q_numberppEi props=C20 backends=minisat,z3,cvc5 first_timeout=100
QPOSTOP(q_postinc, _ZN4ikos8q_numberppEi, +)
//@check id=q_postdec fn=_ZN4ikos8q_numbermmEi props=C20 backends=minisat,z3,cvc5 first_timeout=100
QPOSTOP(q_postdec, _ZN4ikos8q_numbermmEi, -)

/* q << x for integers (denominators 1; a non-integral amount is CRAB_ERROR): this * 2^x, 0 <= x and the result in range */
//@check id=q_shl fn=_ZNK4ikos8q_numberlsES0_ props=C20 defs=GM_FLAT backends=minisat,z3,cvc5 first_timeout=200 timeout=300
void _ZNK4ikos8q_numberlsES0_(Q *ret, Q *self, Q *x)
__CPROVER_requires(FRESH(q_shl, ret, sizeof(Q)) && QFRESH(q_shl, self) && QFRESH(q_shl, x) && Q_INV(self, ZLIM) && Q_INV(x, ZLIM) && QD(self) == 1 && QD(x) == 1)
__CPROVER_requires(QN(x) >= 0 && QN(x) < ZBITS && QN(self) > -(ZLIM >> (uint64_t)QN(x)) && QN(self) < (ZLIM >> (uint64_t)QN(x)))
__CPROVER_assigns(*ret)
__CPROVER_ensures(QOUT(ret) && Q_IS(ret, s_shl(QN(self), (uint64_t)QN(x)), 1));
void h_q_shl(void){ INQ(a); INQ(b); Q r; _ZNK4ikos8q_numberlsES0_(&r, &a, &b); REACH; }

/* ---- no leak: operands and result are destroyed with the real destructors after the call; every block the call itself
 * allocated must have been released (cbmc --memory-leak-check).  Not part of the wording of C20 (a resource property). */
/* memory-leak checks of the q_number operators: a resource defect (the mpq_t temporaries are not cleared), reported in
 * pending_fixes/bignums-3-mpq-temporary-leak.*; it violates no listed property, so these checks are tagged NONE and do
 * not run with any property */
//@check id=q_add_noleak fn=_ZNK4ikos8q_numberplES0_ tag=q_add props=NONE cbmc=--memory-leak-check backends=minisat,z3,cvc5 first_timeout=200 timeout=300
#define NOLEAK2(tag, fn) void h_##tag(void){ INQ(a); INQ(b); Q r; fn(&r, &a, &b); _ZN4ikos8q_numberD2Ev(&r); _ZN4ikos8q_numberD2Ev(&a); _ZN4ikos8q_numberD2Ev(&b); REACH; }
NOLEAK2(q_add_noleak, _ZNK4ikos8q_numberplES0_)
//@check id=q_sub_noleak fn=_ZNK4ikos8q_numbermiES0_ tag=q_sub props=NONE cbmc=--memory-leak-check backends=minisat,z3,cvc5 first_timeout=200 timeout=300
NOLEAK2(q_sub_noleak, _ZNK4ikos8q_numbermiES0_)
//@check id=q_mul_noleak fn=_ZNK4ikos8q_numbermlES0_ tag=q_mul props=NONE cbmc=--memory-leak-check backends=minisat,z3,cvc5 first_timeout=200 timeout=300
NOLEAK2(q_mul_noleak, _ZNK4ikos8q_numbermlES0_)
//@check id=q_neg_noleak fn=_ZNK4ikos8q_numberngEv tag=q_neg props=NONE cbmc=--memory-leak-check backends=minisat,z3,cvc5 first_timeout=200 timeout=300
void h_q_neg_noleak(void){ INQ(a); Q r; _ZNK4ikos8q_numberngEv(&r, &a); _ZN4ikos8q_numberD2Ev(&r); _ZN4ikos8q_numberD2Ev(&a); REACH; }

/* fill_ones, unbounded number of iterations: loop contract (loops.json, written over the GM_FLAT representation: one positive
 * limb stored in the _mp_d field).  Invariant: result = 2^j - 1 >= 1 and (result >> 1) < x; variant: x - result.  At the
 * exit result >= x, so result is the smallest 2^j - 1 >= x.  Proved for every 0 <= x < 2^62. */
//@check id=z_fill_ones_loop fn=_ZNK4ikos8z_number9fill_onesEv tag=z_fill_ones harness=h_z_fill_ones props=C20 defs=GM_FLAT,GM_PRECISE,FILLBITS=62 loops=1 fallback_unwind=10 backends=minisat,z3 first_timeout=300 timeout=300 bounded="bit-precise small arithmetic: operands below 2^k in magnitude only"
