/* Contracts for ikos::z_number and ikos::q_number (lib/bignums.cpp) against the GMP model (models/gmpmodel.c) — C20:
 * "Big integers and rationals agree with mathematical arithmetic (truncating signed division and remainder, floor right
 *  shifts, infinite-precision two's-complement bitwise operations, exact int64/uint64/string round trips, correct rounding
 *  of rationals) ..."
 * Given GMP's documented behaviour, every member below IS the mathematical operation.  Values are read with ZV (spec.h):
 * sign * (d[0] + 2^64 d[1]).  Inputs are arbitrary well-formed mpz objects with heap limb arrays, built by the harness from
 * witness scalars (<name>_size, <name>_d0, <name>_d1) and constrained only by the contract's precondition.
 * Frames: `assigns` lists the objects a member may write; limb arrays of operands are NOT in it unless stated, so "operands
 * are left unchanged" is checked by every contract; results must own a fresh limb array (ZOUT).
 * Error exits: allow_error=1 + postcondition "returns ==> defined and exact", and a twin <id>_noexit that proves that the
 * call does not reach CRAB_ERROR when the operation is defined. */
#include <stdlib.h>
#include "spec.h"

/* ---- harness side: build an arbitrary mpz (heap limb array as GMP does) from witness scalars */
static void z_build(Z *z, uint32_t size, uint64_t d0, uint64_t d1){
  uint64_t *d = (uint64_t *)malloc(LIMBBYTES);
  __CPROVER_assume(d != 0);          /* environment: the allocation of the INPUT succeeded (cbmc 6: malloc may return NULL) */
  d[0] = d0; d[1] = d1;
  MP(z)->f0 = NLIMB; MP(z)->f1 = size; MP(z)->f2 = d; }
#define INZ(a) GHOST(uint32_t, a##_size); GHOST(uint64_t, a##_d0); GHOST(uint64_t, a##_d1); Z a; z_build(&a, a##_size, a##_d0, a##_d1)
/* pointer preconditions: the object and its limb array (harness-owned when enforced, is_fresh when the contract replaces a call) */
#define ZFRESH(tag, p) (FRESH(tag, p, sizeof(Z)) && FRESH(tag, MP(p)->f2, LIMBBYTES))
/* a result owns a valid limb array of its own (not shared with an operand) */
#define ZOUT(r) (__CPROVER_is_fresh(MP(r)->f2, LIMBBYTES))
#define ZLIMBS(p) __CPROVER_object_whole(MP(p)->f2)
#define RET __CPROVER_return_value
#define OLD __CPROVER_old
/* value of *p in the pre-state */
#define OLDZ(p) v3(OLD(MP(p)->f1), OLD(MP(p)->f2[0]), OLD(MP(p)->f2[1]))
/* NOEXIT(id, e): extra precondition that only exists in the twin check <id>_noexit */
#define IN1(lim) Z_OK(self, lim)
#define IN2(lim) (Z_OK(self, lim) && Z_OK(x, lim))

/* ================================================================== construction, copy, move, destruction */
//@check id=z_ctor0 fn=_ZN4ikos8z_numberC2Ev props=C20 backends=minisat,z3,cvc5 first_timeout=60
void _ZN4ikos8z_numberC2Ev(Z *self)
__CPROVER_requires(FRESH(z_ctor0, self, sizeof(Z)))
__CPROVER_assigns(*self)
__CPROVER_ensures(ZOUT(self) && Z_OK(self, ZLIM) && ZV(self) == 0);
void h_z_ctor0(void){ Z r; _ZN4ikos8z_numberC2Ev(&r); REACH; }

/* z_number(int64_t): exact for every int64, INT64_MIN included */
//@check id=z_ctor_i64 fn=_ZN4ikos8z_numberC2El props=C20 backends=minisat,z3,cvc5 first_timeout=60
void _ZN4ikos8z_numberC2El(Z *self, uint64_t n)
__CPROVER_requires(FRESH(z_ctor_i64, self, sizeof(Z)))
__CPROVER_assigns(*self)
__CPROVER_ensures(ZOUT(self) && Z_OK(self, ZLIM) && ZV(self) == (i128)(int64_t)n);
void h_z_ctor_i64(void){ Z r; GHOST(uint64_t, n); _ZN4ikos8z_numberC2El(&r, n); REACH; }

/* from_uint64: exact for every uint64 (values >= 2^63 stay positive) */
//@check id=z_from_u64 fn=_ZN4ikos8z_number11from_uint64Em props=C20 backends=minisat,z3,cvc5 first_timeout=60
void _ZN4ikos8z_number11from_uint64Em(Z *ret, uint64_t n)
__CPROVER_requires(FRESH(z_from_u64, ret, sizeof(Z)))
__CPROVER_assigns(*ret)
__CPROVER_ensures(ZOUT(ret) && Z_OK(ret, ZLIM) && ZV(ret) == (i128)(u128)n);
void h_z_from_u64(void){ Z r; GHOST(uint64_t, n); _ZN4ikos8z_number11from_uint64Em(&r, n); REACH; }

/* copy constructor: same value, own limb array, source untouched */
//@check id=z_copy fn=_ZN4ikos8z_numberC2ERKS0_ props=C20 backends=minisat,z3,cvc5 first_timeout=60
void _ZN4ikos8z_numberC2ERKS0_(Z *self, Z *x)
__CPROVER_requires(FRESH(z_copy, self, sizeof(Z)) && ZFRESH(z_copy, x) && Z_OK(x, ZLIM))
__CPROVER_assigns(*self)
__CPROVER_ensures(ZOUT(self) && MP(self)->f2 != MP(x)->f2 && Z_OK(self, ZLIM) && ZV(self) == ZV(x));
void h_z_copy(void){ Z r; INZ(b); _ZN4ikos8z_numberC2ERKS0_(&r, &b); REACH; }

/* move constructor: the value (and the limb array) moves, the source becomes a valid zero with an array of its own */
//@check id=z_move fn=_ZN4ikos8z_numberC2EOS0_ props=C20 backends=minisat,z3,cvc5 first_timeout=60
void _ZN4ikos8z_numberC2EOS0_(Z *self, Z *x)
__CPROVER_requires(FRESH(z_move, self, sizeof(Z)) && ZFRESH(z_move, x) && Z_OK(x, ZLIM))
__CPROVER_assigns(*self, *x)
__CPROVER_ensures(Z_OK(self, ZLIM) && ZV(self) == OLDZ(x) && MP(self)->f2 == OLD(MP(x)->f2))
__CPROVER_ensures(ZOUT(x) && MP(x)->f2 != MP(self)->f2 && Z_OK(x, ZLIM) && ZV(x) == 0);
void h_z_move(void){ Z r; INZ(b); _ZN4ikos8z_numberC2EOS0_(&r, &b); REACH; }

/* copy assignment: value copied into the existing object, returns *this */
//@check id=z_assign fn=_ZN4ikos8z_numberaSERKS0_ props=C20 backends=minisat,z3,cvc5 first_timeout=60
Z *_ZN4ikos8z_numberaSERKS0_(Z *self, Z *x)
__CPROVER_requires(ZFRESH(z_assign, self) && ZFRESH(z_assign, x) && IN2(ZLIM))
__CPROVER_assigns(*self, ZLIMBS(self))
__CPROVER_ensures(RET == self && Z_OK(self, ZLIM) && ZV(self) == ZV(x) && (self == x || MP(self)->f2 != MP(x)->f2) && MP(self)->f2 == OLD(MP(self)->f2));
void h_z_assign(void){ INZ(a); INZ(b); _ZN4ikos8z_numberaSERKS0_(&a, &b); REACH; }
/* self assignment keeps the value */
//@check id=z_assign_self fn=_ZN4ikos8z_numberaSERKS0_ tag=z_assign props=C20 backends=minisat,z3,cvc5 first_timeout=60
void h_z_assign_self(void){ INZ(a); __CPROVER_assume(Z_OK(&a, ZLIM)); i128 v = ZV(&a); Z *r = _ZN4ikos8z_numberaSERKS0_(&a, &a); __CPROVER_assert(r == &a && ZV(&a) == v, "x = x keeps the value"); REACH; }

/* move assignment: the two values are exchanged (each object keeps owning exactly one array) */
//@check id=z_move_assign fn=_ZN4ikos8z_numberaSEOS0_ props=C20 backends=minisat,z3,cvc5 first_timeout=60
Z *_ZN4ikos8z_numberaSEOS0_(Z *self, Z *x)
__CPROVER_requires(ZFRESH(z_move_assign, self) && ZFRESH(z_move_assign, x) && IN2(ZLIM))
__CPROVER_assigns(*self, *x)
__CPROVER_ensures(RET == self && Z_OK(self, ZLIM) && Z_OK(x, ZLIM) && ZV(self) == OLDZ(x) && ZV(x) == OLDZ(self))
__CPROVER_ensures(MP(self)->f2 == OLD(MP(x)->f2) && MP(x)->f2 == OLD(MP(self)->f2));
void h_z_move_assign(void){ INZ(a); INZ(b); _ZN4ikos8z_numberaSEOS0_(&a, &b); REACH; }

/* destructor: releases exactly the limb array */
//@check id=z_dtor fn=_ZN4ikos8z_numberD2Ev props=C20 backends=minisat,z3,cvc5 first_timeout=60
void _ZN4ikos8z_numberD2Ev(Z *self)
__CPROVER_requires(ZFRESH(z_dtor, self) && IN1(ZLIM))
__CPROVER_assigns()
__CPROVER_frees(MP(self)->f2)
__CPROVER_ensures(__CPROVER_was_freed(MP(self)->f2));
void h_z_dtor(void){ INZ(a); _ZN4ikos8z_numberD2Ev(&a); REACH; }

/* ================================================================== conversions */
/* explicit operator int64_t: all three branches (fits int / fits int64 through mpz_export / CRAB_ERROR).
 * If it returns, the value fitted and the result is exact; it returns whenever the value fits (twin). */
#ifdef CHECK_z_to_i64_noexit
#define NOEXIT_z_to_i64 fits64(ZV(self))
#else
#define NOEXIT_z_to_i64 1
#endif
//@check id=z_to_i64 fn=_ZNK4ikos8z_numbercvlEv props=C20 allow_error=1 backends=z3,minisat,cvc5 first_timeout=60
//@check id=z_to_i64_noexit fn=_ZNK4ikos8z_numbercvlEv tag=z_to_i64 harness=h_z_to_i64 props=C20 backends=z3,minisat,cvc5 first_timeout=60
uint64_t _ZNK4ikos8z_numbercvlEv(Z *self)
__CPROVER_requires(ZFRESH(z_to_i64, self) && IN1(ZLIM) && (NOEXIT_z_to_i64))
__CPROVER_assigns()
__CPROVER_ensures((i128)(int64_t)RET == ZV(self));
void h_z_to_i64(void){ INZ(a); _ZNK4ikos8z_numbercvlEv(&a); REACH; }

//@check id=z_fits_int64 fn=_ZNK4ikos8z_number10fits_int64Ev props=C20 backends=z3,minisat,cvc5 first_timeout=60
unsigned char _ZNK4ikos8z_number10fits_int64Ev(Z *self)
__CPROVER_requires(ZFRESH(z_fits_int64, self) && IN1(ZLIM))
__CPROVER_assigns()
__CPROVER_ensures(RET == (fits64(ZV(self)) ? 1 : 0));
void h_z_fits_int64(void){ INZ(a); _ZNK4ikos8z_number10fits_int64Ev(&a); REACH; }
//@check id=z_fits_sint fn=_ZNK4ikos8z_number9fits_sintEv props=C20 backends=minisat,z3,cvc5 first_timeout=60
unsigned char _ZNK4ikos8z_number9fits_sintEv(Z *self)
__CPROVER_requires(ZFRESH(z_fits_sint, self) && IN1(ZLIM))
__CPROVER_assigns()
__CPROVER_ensures(RET == ((ZV(self) >= -P2(31) && ZV(self) < P2(31)) ? 1 : 0));
void h_z_fits_sint(void){ INZ(a); _ZNK4ikos8z_number9fits_sintEv(&a); REACH; }
//@check id=z_fits_slong fn=_ZNK4ikos8z_number10fits_slongEv props=C20 backends=minisat,z3,cvc5 first_timeout=60
unsigned char _ZNK4ikos8z_number10fits_slongEv(Z *self)
__CPROVER_requires(ZFRESH(z_fits_slong, self) && IN1(ZLIM))
__CPROVER_assigns()
__CPROVER_ensures(RET == (fits64(ZV(self)) ? 1 : 0));
void h_z_fits_slong(void){ INZ(a); _ZNK4ikos8z_number10fits_slongEv(&a); REACH; }

/* from_raw_data(data, num_words, order): the unsigned number made of num_words 64-bit words, most significant word first
 * iff order; proved for num_words <= 2 (the model's two limbs) */
static inline u128 raw_value(const uint64_t *w, uint64_t n, bool msf){
  return n == 0 ? (u128)0 : n == 1 ? (u128)w[0] : (msf ? (((u128)w[0] << 64) | w[1]) : (((u128)w[1] << 64) | w[0])); }
//@check id=z_from_raw fn=_ZN4ikos8z_number13from_raw_dataEPKmmb props=C20 backends=minisat,z3,cvc5 first_timeout=60
void _ZN4ikos8z_number13from_raw_dataEPKmmb(Z *ret, uint64_t *data, uint64_t num_words, unsigned char order)
__CPROVER_requires(FRESH(z_from_raw, ret, sizeof(Z)) && FRESH(z_from_raw, data, 2 * sizeof(uint64_t)) && num_words <= 2 && order <= 1)
__CPROVER_requires(raw_value(data, num_words, order) < (u128)ZLIM)
__CPROVER_assigns(*ret)
__CPROVER_ensures(ZOUT(ret) && Z_OK(ret, ZLIM) && ZV(ret) == (i128)raw_value(data, num_words, order));
struct raw2 { uint64_t w[2]; };
void h_z_from_raw(void){ IN(struct raw2, data); GHOST(uint64_t, num_words); GHOST(unsigned char, order); Z r; _ZN4ikos8z_number13from_raw_dataEPKmmb(&r, data.w, num_words, order); REACH; }
/* to_raw_data(num_words, sign, order): |this| as the minimal number of words (none for 0), sign = (this >= 0), in a fresh array */
//@check id=z_to_raw fn=_ZN4ikos8z_number11to_raw_dataERmRbb props=C20 backends=minisat,z3,cvc5 first_timeout=60
uint64_t *_ZN4ikos8z_number11to_raw_dataERmRbb(Z *self, uint64_t *num_words, uint8_t *sign, unsigned char order)
__CPROVER_requires(ZFRESH(z_to_raw, self) && FRESH(z_to_raw, num_words, sizeof(uint64_t)) && FRESH(z_to_raw, sign, 1) && IN1(ZLIM) && order <= 1)
__CPROVER_assigns(*num_words, *sign)
__CPROVER_ensures(*sign == (ZV(self) >= 0 ? 1 : 0) && *num_words == m_n(MP(self)))
__CPROVER_ensures(__CPROVER_is_fresh(RET, *num_words ? *num_words * 8 : 1))
__CPROVER_ensures(raw_value(RET, *num_words, order) == (u128)(ZV(self) < 0 ? -ZV(self) : ZV(self)));
void h_z_to_raw(void){ INZ(a); uint64_t nw; uint8_t sg; GHOST(unsigned char, order); _ZN4ikos8z_number11to_raw_dataERmRbb(&a, &nw, &sg, order); REACH; }

/* ================================================================== arithmetic */
#define ZBIN(tag, fn, PRE, POST) \
void fn(Z *ret, Z *self, Z *x) \
__CPROVER_requires(FRESH(tag, ret, sizeof(Z)) && ZFRESH(tag, self) && ZFRESH(tag, x)) \
__CPROVER_requires(PRE) \
__CPROVER_assigns(*ret) \
__CPROVER_ensures(ZOUT(ret) && Z_OK(ret, ZLIM) && (POST)); \
void h_##tag(void){ INZ(a); INZ(b); Z r; fn(&r, &a, &b); REACH; }
/* compound assignment: returns this, *this updated in place (its own limb array), x untouched */
#define ZASG(tag, fn, PRE, POST) \
Z *fn(Z *self, Z *x) \
__CPROVER_requires(ZFRESH(tag, self) && ZFRESH(tag, x)) \
__CPROVER_requires(PRE) \
__CPROVER_assigns(*self, ZLIMBS(self)) \
__CPROVER_ensures(RET == self && Z_OK(self, ZLIM) && MP(self)->f2 == OLD(MP(self)->f2) && (POST)); \
void h_##tag(void){ INZ(a); INZ(b); fn(&a, &b); REACH; }
#define OLDV OLDZ(self)

//@check id=z_add fn=_ZNK4ikos8z_numberplES0_ props=C20 backends=minisat,z3,cvc5 first_timeout=60
ZBIN(z_add, _ZNK4ikos8z_numberplES0_, IN2(ZB), ZV(ret) == ZV(self) + ZV(x))
//@check id=z_sub fn=_ZNK4ikos8z_numbermiES0_ props=C20 backends=minisat,z3,cvc5 first_timeout=60
ZBIN(z_sub, _ZNK4ikos8z_numbermiES0_, IN2(ZB), ZV(ret) == ZV(self) - ZV(x))
/* multiplication: operands below 2^63 (GM_mul: see gmpmodel.c); bit-precise cross-check for operands below 2^8 in z_mul_precise */
#ifdef GM_PRECISE
#define MULB P2(8)
#define DIVB P2(8)
#else
#define MULB ZMULB
#define DIVB ZB
#endif
//@check id=z_mul fn=_ZNK4ikos8z_numbermlES0_ props=C20 backends=minisat,z3,cvc5 first_timeout=60
//@check id=z_mul_precise fn=_ZNK4ikos8z_numbermlES0_ tag=z_mul harness=h_z_mul props=C20 defs=GM_PRECISE tier=thorough timeout=600 first_timeout=300 backends=minisat,z3,cvc5 first_timeout=60
ZBIN(z_mul, _ZNK4ikos8z_numbermlES0_, IN2(MULB), ZV(ret) == GM_mul(ZV(self), ZV(x)))
//@check id=z_neg fn=_ZNK4ikos8z_numberngEv props=C20 backends=minisat,z3,cvc5 first_timeout=60
void _ZNK4ikos8z_numberngEv(Z *ret, Z *self)
__CPROVER_requires(FRESH(z_neg, ret, sizeof(Z)) && ZFRESH(z_neg, self) && IN1(ZLIM))
__CPROVER_assigns(*ret)
__CPROVER_ensures(ZOUT(ret) && Z_OK(ret, ZLIM) && ZV(ret) == -ZV(self));
void h_z_neg(void){ INZ(a); Z r; _ZNK4ikos8z_numberngEv(&r, &a); REACH; }

/* division and remainder: TRUNCATING (quotient towards zero, remainder with the sign of the dividend).
 * Division by zero is CRAB_ERROR: "returns ==> divisor non-zero and result exact", twin: a non-zero divisor never exits. */
#if defined(CHECK_z_div_noexit) || defined(CHECK_z_rem_noexit) || defined(CHECK_z_div_asg_noexit) || defined(CHECK_z_rem_asg_noexit)
#define NOEXIT_DIV (ZV(x) != 0)
#else
#define NOEXIT_DIV 1
#endif
//@check id=z_div fn=_ZNK4ikos8z_numberdvES0_ props=C20 allow_error=1 backends=minisat,z3,cvc5 first_timeout=60
//@check id=z_div_noexit fn=_ZNK4ikos8z_numberdvES0_ tag=z_div harness=h_z_div props=C20 backends=minisat,z3,cvc5 first_timeout=60
//@check id=z_div_precise fn=_ZNK4ikos8z_numberdvES0_ tag=z_div harness=h_z_div props=C20 allow_error=1 defs=GM_PRECISE tier=thorough timeout=600 first_timeout=300 backends=minisat,z3,cvc5 first_timeout=60
ZBIN(z_div, _ZNK4ikos8z_numberdvES0_, IN2(DIVB) && NOEXIT_DIV, ZV(x) != 0 && ZV(ret) == GM_tdiv(ZV(self), ZV(x)))
//@check id=z_rem fn=_ZNK4ikos8z_numberrmES0_ props=C20 allow_error=1 backends=minisat,z3,cvc5 first_timeout=60
//@check id=z_rem_noexit fn=_ZNK4ikos8z_numberrmES0_ tag=z_rem harness=h_z_rem props=C20 backends=minisat,z3,cvc5 first_timeout=60
//@check id=z_rem_precise fn=_ZNK4ikos8z_numberrmES0_ tag=z_rem harness=h_z_rem props=C20 allow_error=1 defs=GM_PRECISE tier=thorough timeout=600 first_timeout=300 backends=minisat,z3,cvc5 first_timeout=60
ZBIN(z_rem, _ZNK4ikos8z_numberrmES0_, IN2(DIVB) && NOEXIT_DIV, ZV(x) != 0 && ZV(ret) == GM_trem(ZV(self), ZV(x)))

//@check id=z_add_asg fn=_ZN4ikos8z_numberpLES0_ props=C20 backends=minisat,z3,cvc5 first_timeout=60
ZASG(z_add_asg, _ZN4ikos8z_numberpLES0_, IN2(ZB), ZV(self) == OLDV + ZV(x))
//@check id=z_sub_asg fn=_ZN4ikos8z_numbermIES0_ props=C20 backends=minisat,z3,cvc5 first_timeout=60
ZASG(z_sub_asg, _ZN4ikos8z_numbermIES0_, IN2(ZB), ZV(self) == OLDV - ZV(x))
//@check id=z_mul_asg fn=_ZN4ikos8z_numbermLES0_ props=C20 backends=minisat,z3,cvc5 first_timeout=60
ZASG(z_mul_asg, _ZN4ikos8z_numbermLES0_, IN2(MULB), ZV(self) == GM_mul(OLDV, ZV(x)))
//@check id=z_div_asg fn=_ZN4ikos8z_numberdVES0_ props=C20 allow_error=1 backends=minisat,z3,cvc5 first_timeout=60
//@check id=z_div_asg_noexit fn=_ZN4ikos8z_numberdVES0_ tag=z_div_asg harness=h_z_div_asg props=C20 backends=minisat,z3,cvc5 first_timeout=60
ZASG(z_div_asg, _ZN4ikos8z_numberdVES0_, IN2(DIVB) && NOEXIT_DIV, ZV(x) != 0 && ZV(self) == GM_tdiv(OLDV, ZV(x)))
//@check id=z_rem_asg fn=_ZN4ikos8z_numberrMES0_ props=C20 allow_error=1 backends=minisat,z3,cvc5 first_timeout=60
//@check id=z_rem_asg_noexit fn=_ZN4ikos8z_numberrMES0_ tag=z_rem_asg harness=h_z_rem_asg props=C20 backends=minisat,z3,cvc5 first_timeout=60
ZASG(z_rem_asg, _ZN4ikos8z_numberrMES0_, IN2(DIVB) && NOEXIT_DIV, ZV(x) != 0 && ZV(self) == GM_trem(OLDV, ZV(x)))

/* ++x --x (return this) and x++ x-- (return the old value) */
#define ZPRE(tag, fn, POST) \
Z *fn(Z *self) \
__CPROVER_requires(ZFRESH(tag, self) && IN1(ZB)) \
__CPROVER_assigns(*self, ZLIMBS(self)) \
__CPROVER_ensures(RET == self && Z_OK(self, ZLIM) && MP(self)->f2 == OLD(MP(self)->f2) && (POST)); \
void h_##tag(void){ INZ(a); fn(&a); REACH; }
//@check id=z_preinc fn=_ZN4ikos8z_numberppEv props=C20 backends=minisat,z3,cvc5 first_timeout=60
ZPRE(z_preinc, _ZN4ikos8z_numberppEv, ZV(self) == OLDV + 1)
//@check id=z_predec fn=_ZN4ikos8z_numbermmEv props=C20 backends=minisat,z3,cvc5 first_timeout=60
ZPRE(z_predec, _ZN4ikos8z_numbermmEv, ZV(self) == OLDV - 1)
#define ZPOSTOP(tag, fn, POST) \
void fn(Z *ret, Z *self, uint32_t dummy) \
__CPROVER_requires(FRESH(tag, ret, sizeof(Z)) && ZFRESH(tag, self) && IN1(ZB)) \
__CPROVER_assigns(*ret, *self, ZLIMBS(self)) \
__CPROVER_ensures(ZOUT(ret) && MP(ret)->f2 != MP(self)->f2 && Z_OK(ret, ZLIM) && ZV(ret) == OLDV) \
__CPROVER_ensures(Z_OK(self, ZLIM) && MP(self)->f2 == OLD(MP(self)->f2) && (POST)); \
void h_##tag(void){ INZ(a); Z r; fn(&r, &a, 0); REACH; }
//@check id=z_postinc fn=_ZN4ikos8z_numberppEi props=C20 backends=minisat,z3,cvc5 first_timeout=60
ZPOSTOP(z_postinc, _ZN4ikos8z_numberppEi, ZV(self) == OLDV + 1)
//@check id=z_postdec fn=_ZN4ikos8z_numbermmEi props=C20 backends=minisat,z3,cvc5 first_timeout=60
ZPOSTOP(z_postdec, _ZN4ikos8z_numbermmEi, ZV(self) == OLDV - 1)

/* ================================================================== comparisons: the order of the integers */
#define ZCMP(tag, fn, OP) \
unsigned char fn(Z *self, Z *x) \
__CPROVER_requires(ZFRESH(tag, self) && ZFRESH(tag, x) && IN2(ZLIM)) \
__CPROVER_assigns() \
__CPROVER_ensures(RET == ((ZV(self) OP ZV(x)) ? 1 : 0)); \
void h_##tag(void){ INZ(a); INZ(b); fn(&a, &b); REACH; }
//@check id=z_eq fn=_ZNK4ikos8z_numbereqES0_ props=C20 backends=minisat,z3,cvc5 first_timeout=60
ZCMP(z_eq, _ZNK4ikos8z_numbereqES0_, ==)
//@check id=z_ne fn=_ZNK4ikos8z_numberneES0_ props=C20 backends=minisat,z3,cvc5 first_timeout=60
ZCMP(z_ne, _ZNK4ikos8z_numberneES0_, !=)
//@check id=z_lt fn=_ZNK4ikos8z_numberltES0_ props=C20 backends=minisat,z3,cvc5 first_timeout=60
ZCMP(z_lt, _ZNK4ikos8z_numberltES0_, <)
//@check id=z_le fn=_ZNK4ikos8z_numberleES0_ props=C20 backends=minisat,z3,cvc5 first_timeout=60
ZCMP(z_le, _ZNK4ikos8z_numberleES0_, <=)
//@check id=z_gt fn=_ZNK4ikos8z_numbergtES0_ props=C20 backends=minisat,z3,cvc5 first_timeout=60
ZCMP(z_gt, _ZNK4ikos8z_numbergtES0_, >)
//@check id=z_ge fn=_ZNK4ikos8z_numbergeES0_ props=C20 backends=minisat,z3,cvc5 first_timeout=60
ZCMP(z_ge, _ZNK4ikos8z_numbergeES0_, >=)

/* ================================================================== bitwise: two's complement with infinite sign extension,
 * operands of ARBITRARY sign; on values below 2^125 in magnitude that is the 128-bit two's complement operation */
//@check id=z_and fn=_ZNK4ikos8z_numberanES0_ props=C20 backends=minisat,z3,cvc5 first_timeout=60
ZBIN(z_and, _ZNK4ikos8z_numberanES0_, IN2(ZB), ZV(ret) == (ZV(self) & ZV(x)))
//@check id=z_or fn=_ZNK4ikos8z_numberorES0_ props=C20 backends=minisat,z3,cvc5 first_timeout=60
ZBIN(z_or, _ZNK4ikos8z_numberorES0_, IN2(ZB), ZV(ret) == (ZV(self) | ZV(x)))
//@check id=z_xor fn=_ZNK4ikos8z_numbereoES0_ props=C20 backends=minisat,z3,cvc5 first_timeout=60
ZBIN(z_xor, _ZNK4ikos8z_numbereoES0_, IN2(ZB), ZV(ret) == (ZV(self) ^ ZV(x)))

/* ================================================================== shifts.  The amount is a z_number that the code reads with
 * mpz_get_ui (|x| mod 2^64, no check: "TODO: check for potential overflow" in the source): defined for 0 <= x < 2^64.
 *  <<  : this * 2^x exactly (model range: x < 126 and the result below 2^126)
 *  >>  : floor(this / 2^x), also for negative this (arithmetic shift), for EVERY amount 0 <= x < 2^64 */
#define SHAMT ((uint64_t)ZV(x))
//@check id=z_shl fn=_ZNK4ikos8z_numberlsES0_ props=C20 backends=minisat,z3,cvc5 first_timeout=60
ZBIN(z_shl, _ZNK4ikos8z_numberlsES0_, IN2(ZLIM) && ZV(x) >= 0 && ZV(x) < 126 && ZV(self) > -(ZLIM >> SHAMT) && ZV(self) < (ZLIM >> SHAMT), ZV(ret) == s_shl(ZV(self), SHAMT))
//@check id=z_shr fn=_ZNK4ikos8z_numberrsES0_ props=C20 backends=minisat,z3,cvc5 first_timeout=60
ZBIN(z_shr, _ZNK4ikos8z_numberrsES0_, IN2(ZLIM) && ZV(x) >= 0 && ZV(x) < P2(64), ZV(ret) == s_fshr(ZV(self), SHAMT))

/* ================================================================== fill_ones: smallest 2^k - 1 >= this, for this >= 0 (the source asserts
 * this >= 0; the assert is compiled out under NDEBUG, so it is the precondition).  The loop doubles `result` until it
 * reaches x: at most FILLBITS iterations for x < 2^FILLBITS (structural bound, unwinding assertion proved).  The loop
 * multiplies by the z_number 2: GM_PRECISE makes that product bit-precise (a multiplication by a constant). */
#ifndef FILLBITS
#define FILLBITS 8
#endif
//@check id=z_fill_ones fn=_ZNK4ikos8z_number9fill_onesEv props=C20 defs=GM_PRECISE,FILLBITS=8 unwind=10 backends=z3,minisat,cvc5 first_timeout=200 timeout=300
void _ZNK4ikos8z_number9fill_onesEv(Z *ret, Z *self)
__CPROVER_requires(FRESH(z_fill_ones, ret, sizeof(Z)) && ZFRESH(z_fill_ones, self) && IN1(P2(FILLBITS)) && ZV(self) >= 0)
__CPROVER_assigns(*ret)
__CPROVER_ensures(ZOUT(ret) && Z_OK(ret, ZLIM) && ZV(ret) == s_fill(ZV(self)));
void h_z_fill_ones(void){ INZ(a); Z r; _ZNK4ikos8z_number9fill_onesEv(&r, &a); REACH; }
