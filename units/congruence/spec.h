/* Specification vocabulary for ikos::congruence<z_number> (include/crab/domains/congruence_impl.hpp,
 * lib/congruence.cpp).  Shared by contracts.c (CBMC) and replay.cpp (native): the POST_* / SOUND_* macros below are
 * the postconditions of the contracts, word for word.
 * C is the compiler's lowering of the class with z_number replaced by the integer model (models/zmodel.h):
 *   C = { f0 = m_is_bottom, f1 = m_a (modulus), f2 = m_b (remainder) }.
 *
 * Three arithmetic modes (the non-linear operations `*`, `/`, `%` of the number model):
 *   default       UNBOUNDED.  They are the uninterpreted symbols of models/zmodel.c with its sign/unit axioms.  A
 *                 check is then a proof for all inputs below 2^ZBITS = 2^40 in magnitude (DESIGN 2.4a); whatever it
 *                 needs to know about divisibility enters as explicit instances T_* of the schemas proved in
 *                 lemmas.smt2, written as hypotheses LEM(...) of the postcondition.
 *   -DZM_SMALL=n  BOUNDED cross-check: machine arithmetic on n bits (zsmall.c), inputs below 2^ZBITS (ZBITS = 3).
 *                 SAT has to enumerate: 2^20 input combinations take about 30 s, hence the small bound.
 *   C++           native replay: machine arithmetic on __int128.
 */
#ifndef CONGRUENCE_SPEC_H
#define CONGRUENCE_SPEC_H
#include "verif.h"
#include "unit_types.h"
#ifndef __cplusplus
#include "zmodel.h"
#else
typedef struct S_class_ikos__z_number Z;
#define ZLIM (((i128)1) << 100)
#endif
typedef struct S_class_ikos__congruence C;
#ifndef ZBITS
#define ZBITS 40
#endif
#define ZB (((i128)1) << ZBITS)     /* modulus and remainder of INPUTS lie strictly inside (-ZB, ZB) */
#define ZB2 (ZB * ZB * 4)           /* products of two inputs */
#ifndef CTBITS
#define CTBITS (2 * ZBITS + 2)
#endif
#define CTB (((i128)1) << CTBITS)   /* magnitudes accepted by the private (a, b) constructor and the gcd helpers */
#define IMP(p, q) (!(p) || (q))

/* S_mul / S_div / S_rem: the specification's own reading of the three non-linear model operations.  They denote the
 * same mathematical functions as ZM_mul / ZM_div / ZM_rem of the model but are separate C functions: the model's are
 * instrumented by goto-instrument (frame checking) because the code under contract calls them, and can then not be
 * called from a contract clause. */
#if defined(__cplusplus)
static inline i128 S_mul(i128 a, i128 b){ return a * b; }
static inline i128 S_div(i128 a, i128 b){ return b == 0 ? 0 : a / b; }
static inline i128 S_rem(i128 a, i128 b){ return b == 0 ? 0 : a % b; }
#elif defined(ZM_SMALL)
/* bounded mode (zsmall.c): schoolbook shift-and-subtract division on ZM_SMALL-bit magnitudes.  Every value the
 * specification feeds them is bounded by a precondition (GRANGE, CTB) below 2^(ZM_SMALL-2). */
#if ZM_SMALL == 16
typedef uint16_t su_t; typedef int32_t sw_t;
#else
typedef uint32_t su_t; typedef int64_t sw_t;
#endif
static inline void s_udivrem(su_t n, su_t d, su_t *q, su_t *r){
  su_t qq = 0, rr = 0;
  for (int i = ZM_SMALL - 3; i >= 0; i--) { rr = (su_t)((rr << 1) | ((n >> i) & 1)); if (rr >= d) { rr = (su_t)(rr - d); qq |= (su_t)((su_t)1 << i); } }
  *q = qq; *r = rr; }
static inline i128 S_mul(i128 a, i128 b){ return (i128)((sw_t)a * (sw_t)b); }
static inline i128 S_div(i128 a, i128 b){ su_t q, r; s_udivrem((su_t)(a < 0 ? -a : a), (su_t)(b < 0 ? -b : b), &q, &r); return ((a < 0) != (b < 0)) ? -(i128)q : (i128)q; }
static inline i128 S_rem(i128 a, i128 b){ su_t q, r; s_udivrem((su_t)(a < 0 ? -a : a), (su_t)(b < 0 ? -b : b), &q, &r); return a < 0 ? -(i128)r : (i128)r; }
#else
/* unbounded mode: the same uninterpreted symbols and the same special cases as models/zmodel.c */
i128 __CPROVER_uninterpreted_zmul(i128, i128);
i128 __CPROVER_uninterpreted_zdiv(i128, i128);
i128 __CPROVER_uninterpreted_zrem(i128, i128);
static inline i128 s_abs(i128 a){ return a < 0 ? -a : a; }
static inline i128 S_mul(i128 a, i128 b){
  if (a == 0 || b == 0) return 0;
  if (a == 1) return b;  if (b == 1) return a;
  if (a == -1) return -b; if (b == -1) return -a;
  return __CPROVER_uninterpreted_zmul(a, b); }
static inline i128 S_div(i128 a, i128 b){
  if (a == 0) return 0;
  if (b == 1) return a; if (b == -1) return -a;
  if (s_abs(a) < s_abs(b)) return 0;
  if (a == b) return 1; if (a == -b) return -1;
  return __CPROVER_uninterpreted_zdiv(a, b); }
static inline i128 S_rem(i128 a, i128 b){
  if (a == 0 || b == 1 || b == -1) return 0;
  if (s_abs(a) < s_abs(b)) return a;
  if (a == b || a == -b) return 0;
  return __CPROVER_uninterpreted_zrem(a, b); }
#endif
static inline i128 zraw(Z z){ return (i128)(((u128)z.f0.a.f1 << 64) | (u128)z.f0.a.f0); }
static inline Z mkz(i128 v){ Z z; z.f0.a.f0 = (uint64_t)(u128)v; z.f0.a.f1 = (uint64_t)((u128)v >> 64); return z; }
static inline i128 iabs(i128 v){ return v < 0 ? -v : v; }
static inline i128 imin(i128 p, i128 q){ return p <= q ? p : q; }
static inline i128 imax(i128 p, i128 q){ return p <= q ? q : p; }
static inline bool inb(i128 v, i128 z){ return v > -z && v < z; }

/* ---- divisibility on the integers:  a | x  (0 | x iff x = 0) */
static inline bool dvd(i128 a, i128 x){ return a == 0 ? x == 0 : S_rem(x, a) == 0; }
/* x mod |a| in [0, |a|) for a != 0 (the remainder of a normal form) */
static inline i128 fmod_(i128 x, i128 a){ i128 r = S_rem(x, iabs(a)); return r < 0 ? r + iabs(a) : r; }

/* ---- the class */
static inline bool c_bot(C c){ return c.f0 != 0; }
static inline i128 c_a(C c){ return zraw(c.f1); }
static inline i128 c_b(C c){ return zraw(c.f2); }
/* representation invariant ("aZ + b, b in Z and a in N", "standard form 0 <= b < a for a != 0"; bottom is only ever
 * made by congruence(false), i.e. flag + 1Z+0, which is what makes operator== an equality of values); z bounds the
 * magnitudes (a model matter, not a property of the class) */
static inline bool c_okz(C c, i128 z){
  return c.f0 <= 1 && inb(c_a(c), z) && inb(c_b(c), z) && c_a(c) >= 0 && (c_a(c) == 0 || (0 <= c_b(c) && c_b(c) < c_a(c)))
      && (c.f0 == 0 || (c_a(c) == 1 && c_b(c) == 0)); }
static inline bool c_ok(C c){ return c_okz(c, ZB); }
/* concretisation: v is described by aZ+b:   a = 0 ? v = b : (v - b) mod a = 0 */
static inline bool ab_has(i128 a, i128 b, i128 v){ return dvd(iabs(a), v - b); }
static inline bool c_has(C c, i128 v){ return !c_bot(c) && ab_has(c_a(c), c_b(c), v); }
static inline bool c_top(C c){ return !c_bot(c) && c_a(c) == 1; }
static inline bool c_single(C c){ return !c_bot(c) && c_a(c) == 0; }
/* exactly the value aZ+b in normal form (|a|, b mod |a|) */
static inline bool c_is(C c, i128 a, i128 b){ return !c_bot(c) && c_a(c) == iabs(a) && c_b(c) == (a == 0 ? b : fmod_(b, a)); }
static inline bool c_eq(C x, C y){ return c_bot(x) == c_bot(y) && c_a(x) == c_a(y) && c_b(x) == c_b(y); }
/* inclusion of concretisations, decided on normal forms: aZ+b within a'Z+b' iff a' | a and a' | b - b' */
static inline bool c_leq(C x, C y){ return c_bot(x) || (!c_bot(y) && dvd(c_a(y), c_a(x)) && dvd(c_a(y), c_b(x) - c_b(y))); }

/* ---- concrete operations on integers */
/* floor shift right */
static inline i128 fshr(i128 v, i128 k){ return k >= 127 ? (v < 0 ? -1 : 0) : (v < 0 ? ~((~v) >> (unsigned)k) : (v >> (unsigned)k)); }
/* v * 2^k for 0 <= k < 100 */
static inline i128 shl_(i128 v, i128 k){ return (i128)((u128)v << (unsigned)k); }

/* ================================================================ divisibility facts (lemmas.smt2), as instances
 * Every T_* below is a valid statement about the integers for all arguments.  lemmas.smt2 proves each in two layers, both
 * discharged by z3 and cvc5 on every run: (1) five kernel facts about the real `*`, truncating `/` and `%` (division
 * identity, uniqueness of the quotient, distributivity, associativity, commutativity, units); (2) each T_* schema from
 * finitely many kernel instances, with `*`, `/`, `%` uninterpreted (linear arithmetic + congruence closure only).
 * LEM(e) makes an instance a hypothesis of a postcondition in the unbounded mode and drops it (it is true) in the
 * bounded mode. */
#define M_ S_mul
#define D_ S_div
#define R_ S_rem
/* (an instance is vacuous when an argument, or an uninterpreted result it mentions, lies outside the modelled range:
 * inside, the C arithmetic of the instance cannot wrap) */
#define RNG(v) inb(v, ZLIM)
/* d | a, a | x  ==>  d | x */
static inline bool T_TRANS(i128 d, i128 a, i128 x){ return !(RNG(d) && RNG(a) && RNG(x)) || IMP(dvd(d, a) && dvd(a, x), dvd(d, x)); }
/* w = u + v (w = u - v), d | u, d | v  ==>  d | w */
static inline bool T_SUM(i128 d, i128 u, i128 v, i128 w){ return !(RNG(d) && RNG(u) && RNG(v) && RNG(w)) || IMP(w == u + v && dvd(d, u) && dvd(d, v), dvd(d, w)); }
static inline bool T_DIFF(i128 d, i128 u, i128 v, i128 w){ return !(RNG(d) && RNG(u) && RNG(v) && RNG(w)) || IMP(w == u - v && dvd(d, u) && dvd(d, v), dvd(d, w)); }
/* normal form: for a != 0, rb = b mod |a| lies in [0, |a|) and |a| | v - rb  <=>  |a| | v - b */
static inline bool T_NF(i128 a, i128 b, i128 v){ return !(RNG(a) && RNG(b) && RNG(v)) || a == 0 || (0 <= fmod_(b, a) && fmod_(b, a) < iabs(a) && dvd(iabs(a), v - fmod_(b, a)) == dvd(iabs(a), v - b)); }
/* d | u, |u| < |d|  ==>  u = 0 */
static inline bool T_SMALL(i128 d, i128 u){ return !(RNG(d) && RNG(u)) || IMP(dvd(d, u) && iabs(u) < iabs(d), u == 0); }
/* d | u  ==>  d | u * c  and  d * c | u * c */
static inline bool T_MULR(i128 d, i128 u, i128 c){ return !(RNG(d) && RNG(u) && RNG(c) && RNG(M_(u, c))) || IMP(dvd(d, u), dvd(d, M_(u, c))); }
static inline bool T_MULB(i128 d, i128 u, i128 c){ return !(RNG(d) && RNG(u) && RNG(c) && RNG(M_(u, c)) && RNG(M_(d, c))) || IMP(dvd(d, u), dvd(M_(d, c), M_(u, c))); }
/* y != 0  ==>  x = y * (x / y) + x % y,  |y * (x / y)| <= |x|,  |x / y| <= |x|,  |x % y| < |y|, x % y is 0 or of the sign of x */
static inline bool T_DIVID(i128 x, i128 y){
  return !(RNG(x) && RNG(y)) || y == 0 || (inb(M_(y, D_(x, y)), iabs(x) + 1) && inb(D_(x, y), iabs(x) + 1) && inb(R_(x, y), iabs(y)) && x == M_(y, D_(x, y)) + R_(x, y) && (R_(x, y) == 0 || (R_(x, y) > 0) == (x > 0))); }
#if defined(ZM_SMALL)
#define LEM(e) 1
#else
#define LEM(e) (e)
#endif
#endif
