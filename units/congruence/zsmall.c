/* Unit-local front of the shared z_number model models/zmodel.c (which is included verbatim, not copied).
 *
 *   default            : models/zmodel.c as it is: `*`, `/`, `%` are the uninterpreted symbols with sign/unit axioms
 *                        (checks are then proofs for all magnitudes the preconditions admit; divisibility facts enter
 *                        through lemma instances);
 *   -DZM_SMALL=16|32   : BOUNDED cross-check mode.  The three uninterpreted symbols are replaced by the machine
 *                        operations on ZM_SMALL-bit signed integers, with the obligation that the operands fit
 *                        ("z model range: small-precise operands fit").  Everything else of zmodel.c (the special
 *                        cases, the sign axioms - now facts about the machine result - and the range obligations) is
 *                        unchanged.  Division is schoolbook shift-and-subtract (unwound ZM_SMALL-2 times): cbmc encodes
 *                        `/` as the multiplier relation q*b+r = a, through which SAT does not propagate; measured on the
 *                        (a,b) constructor: > 8 min with models/zmodel.c's 128-bit -DZM_PRECISE and also with 16-bit `/`.
 */
#ifdef ZM_SMALL
#include <stdint.h>
#if ZM_SMALL == 16
typedef int16_t zs_t; typedef int32_t zw_t; typedef uint16_t zu_t;
#elif ZM_SMALL == 32
typedef int32_t zs_t; typedef int64_t zw_t; typedef uint32_t zu_t;
#else
#error "ZM_SMALL must be 16 or 32"
#endif
#define ZS_LIM (((__int128)1) << (ZM_SMALL - 2))
static inline int zs_fits(__int128 v){ return v > -ZS_LIM && v < ZS_LIM; }
static __int128 zs_mul(__int128 a, __int128 b){
  __CPROVER_assert(zs_fits(a) && zs_fits(b), "z model range: small-precise operands fit ZM_SMALL-2 bits");
  return (__int128)((zw_t)(zs_t)a * (zw_t)(zs_t)b); }
static void zs_udivrem(zu_t n, zu_t d, zu_t *q, zu_t *r){   /* shift-and-subtract: propagates forward in SAT */
  zu_t qq = 0, rr = 0;
  for (int i = ZM_SMALL - 3; i >= 0; i--) { rr = (zu_t)((rr << 1) | ((n >> i) & 1)); if (rr >= d) { rr = (zu_t)(rr - d); qq |= (zu_t)((zu_t)1 << i); } }
  *q = qq; *r = rr; }
static __int128 zs_div(__int128 a, __int128 b){
  __CPROVER_assert(zs_fits(a) && zs_fits(b) && b != 0, "z model range: small-precise operands fit ZM_SMALL-2 bits");
  __CPROVER_assume(b != 0);
  zu_t q, r; zs_udivrem((zu_t)(a < 0 ? -a : a), (zu_t)(b < 0 ? -b : b), &q, &r);
  return ((a < 0) != (b < 0)) ? -(__int128)q : (__int128)q; }
static __int128 zs_rem(__int128 a, __int128 b){
  __CPROVER_assert(zs_fits(a) && zs_fits(b) && b != 0, "z model range: small-precise operands fit ZM_SMALL-2 bits");
  __CPROVER_assume(b != 0);
  zu_t q, r; zs_udivrem((zu_t)(a < 0 ? -a : a), (zu_t)(b < 0 ? -b : b), &q, &r);
  return a < 0 ? -(__int128)r : (__int128)r; }
#define __CPROVER_uninterpreted_zmul zs_mul
#define __CPROVER_uninterpreted_zdiv zs_div
#define __CPROVER_uninterpreted_zrem zs_rem
#endif
#include "zmodel.c"
