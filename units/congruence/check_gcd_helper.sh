#!/bin/bash
# Inductive check of the recursive congruence::gcd_helper against its own contract (contracts.c, //@manual id=gcd_helper).
# The driver cannot run it: it always passes --enforce-contract, which forbids recursion in the checked function;
# this script repeats the driver's steps with --enforce-contract-rec (the recursive call is replaced by the contract).
#   usage: check_gcd_helper.sh [repo (default /repo)] [extra -D definitions, e.g. ZM_SMALL=16 ZBITS=3 for the bounded mode]
# Expected: every obligation SUCCESS except the must-fail `reach` guard (unbounded mode: 446 obligations, about 4 min).
set -e
REPO=${1:-/repo}; shift || true
V=/verif; U=$V/units/congruence; FN=_ZNK4ikos10congruenceINS_8z_numberEE10gcd_helperES1_S1_; H=h_gcd_helper
W=$(mktemp -d /tmp/congruence_gcdh_XXXXXX); trap 'rm -rf "$W"' EXIT
DD=""; for d in "$@"; do DD="$DD -D$d"; done
clang++ -std=c++14 -O0 -DNDEBUG -fno-exceptions -fno-rtti -fno-discard-value-names -fno-access-control -emit-llvm -S -w -DCRAB_VERIF \
  -I$REPO/include -I$V/units/config -I$U $REPO/lib/congruence.cpp -o $W/unit.ll
echo '{"types": {"%struct.__mpz_struct": "{ i64, i64 }"}}' > $W/ov.json
python3 $V/tools/ll2c.py $W/unit.ll --out $W/unit.c --types $W/unit_types.h --override $W/ov.json --info $W/info.json
goto-cc -c -w $W/unit.c -o $W/unit.gb
# tag selection as the driver writes it: the enforced tag is gcd_helper
{ for t in $( (grep -o 'FRESH(\s*\w*\s*,' $U/contracts.c | sed 's/FRESH(\s*//;s/\s*,//'; grep -o '//@check id=\w*' $U/contracts.c | sed 's/.*id=//'; grep -o 'tag=\w*' $U/contracts.c | sed 's/tag=//') | sort -u); do
    if [ "$t" = gcd_helper ]; then echo "#define ENF_$t 1"; else echo "#define ENF_$t 0"; fi; done
  echo "#define CHECK_gcd_helper 1"
  for t in $(grep -o '//@check id=\w*' $U/contracts.c | sed 's/.*id=//'); do echo "#define KF_$t 1"; done; } > $W/check_sel.h
INC="-I$W -I$V/tools -I$U -I$V/units -I$V/models"
goto-cc -c -w $INC $DD -include check_sel.h $U/contracts.c -o $W/spec.gb
goto-cc -c -w $INC $DD $V/models/rt.c -o $W/rt.gb
goto-cc -c -w $INC $DD $U/zsmall.c -o $W/zm.gb
goto-cc --function $H $W/unit.gb $W/spec.gb $W/rt.gb $W/zm.gb -o $W/all.gb
goto-instrument --dfcc $H --enforce-contract-rec $FN $W/all.gb $W/inst.gb > $W/gi.log 2>&1 || { tail -5 $W/gi.log; exit 2; }
cbmc $W/inst.gb --bounds-check --pointer-check --signed-overflow-check --undefined-shift-check --div-by-zero-check --object-bits 12 > $W/cbmc.log 2>&1 || true
echo "SUCCESS obligations: $(grep -c ': SUCCESS$' $W/cbmc.log)"
echo "FAILED obligations (only the reach guard may appear):"; grep ': FAILURE$' $W/cbmc.log | cut -c1-200
F=$(grep ': FAILURE$' $W/cbmc.log | grep -vc ' reach: FAILURE$' || true)
if [ "$F" = 0 ] && grep -q ' reach: FAILURE$' $W/cbmc.log; then echo "gcd_helper: contract holds (inductive step)"; exit 0; else echo "gcd_helper: NOT proved"; exit 1; fi
