/* Postconditions of the congruence contracts, shared word for word by contracts.c (CBMC) and replay.cpp (native).
 * r = result, s = *this, x = argument (struct values of type C); g_x, g_y, g_d are the ghost points.
 * Every SOUND_* has the shape  IMP(membership hypotheses && LEM(lemma instances), membership of the concrete result). */
#ifndef CONGRUENCE_POST_H
#define CONGRUENCE_POST_H
#include "spec.h"
extern i128 g_x, g_y, g_d;
#define ANYBOT(s, x) (c_bot(s) || c_bot(x))
#define IN2(s, x) (c_has(s, g_x) && c_has(x, g_y))
#define BOTSTRICT(r, s, x) IMP(ANYBOT(s, x), c_bot(r))

/* ---------------------------------------------------------------- lemma sets (unbounded mode only; all are true) */
/* normal form: for m = |a| != 0 and rb = fmod_(b, a):  b - rb = m * qq with qq = b / m or b / m - 1 */
static inline bool LS_NF(i128 a, i128 b){ i128 m = iabs(a); return K_DIV(b, m) && L_MULM1(m, D_(b, m)); }
static inline i128 NFQ(i128 a, i128 b){ i128 m = iabs(a); return S_rem(b, m) < 0 ? D_(b, m) - 1 : D_(b, m); }
/* the (a, b) constructor: rb = fmod_(b, a), m = |a|: m | v - rb  <=>  m | v - b */
static inline bool LS_CTOR(i128 a, i128 b, i128 rb, i128 v){
  i128 m = iabs(a), qq = NFQ(a, b), k = COF(m, v - b), k2 = COF(m, v - rb);
  return LS_NF(a, b) && L_EXP(m, v - b) && K_DIST(m, k, qq) && L_CON(m, v - rb, k + qq)
      && L_EXP(m, v - rb) && L_NEG(m, qq) && K_DIST(m, k2, -qq) && L_CON(m, v - b, k2 - qq); }
/* r = gZ + (sb mod g) with g | a, g | a2, and v - sb = a*k + sg*a2*k2  ==>  g | v - r.b
 * (sum and difference: sb = b + sg*b2, k = (gx - b)/a, k2 = (gy - b2)/a2) */
static inline bool LS_LIN(i128 g, i128 rb, i128 a, i128 a2, i128 k, i128 k2, i128 sg, i128 sb, i128 v){
  i128 p = COF(g, a), p2 = COF(g, a2), w = M_(p, k), w2 = M_(p2, k2), t = w + (sg > 0 ? w2 : -w2), q = D_(sb, g);
  return L_EXP(g, a) && L_EXP(g, a2) && K_ASSOC(g, p, k) && K_ASSOC(g, p2, k2) && L_NEG(g, w2) && K_DIST(g, w, sg > 0 ? w2 : -w2)
      && LS_NF(g, sb) && K_DIST(g, t, q) && K_DIST(g, t, q - 1) && L_CON(g, v - rb, t + q) && L_CON(g, v - rb, t + q - 1); }
/* gcd_helper, inductive step (used only by the manual --enforce-contract-rec run): TODO instances */
#define LS_GCDH(x, y, r, d) 1
#define KX(s) COF(c_a(s), g_x - c_b(s))
#define KY(x) COF(c_a(x), g_y - c_b(x))
#define LS_MEMB(s, x) (L_EXP(c_a(s), g_x - c_b(s)) && L_EXP(c_a(x), g_y - c_b(x)))

/* ---------------------------------------------------------------- constructors */
#define POST_ctor_ab(r, a, b) (c_okz(r, CTB) && c_is(r, a, b))
#define SOUND_ctor_ab(r, a, b) IMP(LEM(LS_CTOR(a, b, c_b(r), g_x)), c_has(r, g_x) == ab_has(a, b, g_x))

/* ---------------------------------------------------------------- lattice */
#define OKZ_join (2 * ZB)
#define EXTRA_join(r, s, x) 1
#define SOUND_join(r, s, x) IMP(c_has(s, g_x) || c_has(x, g_x), c_has(r, g_x))
#define OKZ_meet ZB2
#define EXTRA_meet(r, s, x) 1
#define SOUND_meet(r, s, x) IMP(c_has(s, g_x) && c_has(x, g_x), c_has(r, g_x))
/* widening (= join: the lattice has no infinite ascending chain).  Upper bound of both arguments; stationary when the
 * argument is included; otherwise the result is strictly higher in the well-founded order
 *   bottom  <  singletons (a = 0)  <  a > 0 ordered by "proper divisor of",
 * i.e. self was bottom, or self was a singleton and the result is not, or the modulus became a proper divisor
 * (1 <= ret.a < self.a and ret.a | self.a): every chain of widenings is stationary after finitely many steps. */
#define WIDEN_RANK(r, s) (c_eq(r, s) || c_bot(s) || (!c_bot(r) && (c_a(s) == 0 ? c_a(r) > 0 : (c_a(r) >= 1 && c_a(r) < c_a(s) && dvd(c_a(r), c_a(s))))))
#define OKZ_widen (2 * ZB)
#define EXTRA_widen(r, s, x) (IMP(c_leq(x, s), c_eq(r, s)) && WIDEN_RANK(r, s))
#define SOUND_widen(r, s, x) SOUND_join(r, s, x)
/* narrowing of a decreasing pair still describes every state of its second argument (and stays below the first) */
#define OKZ_narrow ZB
#define EXTRA_narrow(r, s, x) IMP(c_leq(x, s), c_leq(r, s) && c_leq(x, r))
#define SOUND_narrow(r, s, x) IMP(c_leq(x, s) && c_has(x, g_x), c_has(r, g_x))

/* ---------------------------------------------------------------- arithmetic */
#define OKZ_add ZB2
#define EXTRA_add BOTSTRICT
#define SOUND_add(r, s, x) IMP(IN2(s, x) && LEM(LS_MEMB(s, x) && LS_LIN(c_a(r), c_b(r), c_a(s), c_a(x), KX(s), KY(x), 1, c_b(s) + c_b(x), g_x + g_y)), c_has(r, g_x + g_y))
#define OKZ_sub ZB2
#define EXTRA_sub BOTSTRICT
#define SOUND_sub(r, s, x) IMP(IN2(s, x) && LEM(LS_MEMB(s, x) && LS_LIN(c_a(r), c_b(r), c_a(s), c_a(x), KX(s), KY(x), -1, c_b(s) - c_b(x), g_x - g_y)), c_has(r, g_x - g_y))
#define OKZ_mul ZB2
#define EXTRA_mul BOTSTRICT
#define SOUND_mul(r, s, x) IMP(IN2(s, x), c_has(r, S_mul(g_x, g_y)))
/* signed (truncating) division and remainder; division by zero has no result */
#define OKZ_div ZB2
#define EXTRA_div BOTSTRICT
#define SOUND_div(r, s, x) IMP(IN2(s, x) && g_y != 0, c_has(r, S_div(g_x, g_y)))
#define OKZ_rem ZB2
#define EXTRA_rem BOTSTRICT
#define SOUND_rem(r, s, x) IMP(IN2(s, x) && g_y != 0, c_has(r, S_rem(g_x, g_y)))
/* unsigned division / remainder depend on a bit width the class does not know: any integer must be described */
#define OKZ_udiv ZB
#define EXTRA_udiv(r, s, x) 1
#define SOUND_udiv(r, s, x) c_has(r, g_x)
#define OKZ_urem ZB
#define EXTRA_urem(r, s, x) 1
#define SOUND_urem(r, s, x) c_has(r, g_x)
#define POST_neg(r, s) (c_okz(r, ZB2) && IMP(c_bot(s), c_bot(r)))
#define SOUND_neg(r, s) IMP(c_has(s, g_x), c_has(r, -g_x))

/* ---------------------------------------------------------------- bitwise (infinite-precision two's complement), shifts */
#define OKZ_and (2 * ZB)
#define EXTRA_and BOTSTRICT
#define SOUND_and(r, s, x) IMP(IN2(s, x), c_has(r, g_x & g_y))
#define OKZ_or (2 * ZB)
#define EXTRA_or BOTSTRICT
#define SOUND_or(r, s, x) IMP(IN2(s, x), c_has(r, g_x | g_y))
#define OKZ_xor (2 * ZB)
#define EXTRA_xor BOTSTRICT
#define SOUND_xor(r, s, x) IMP(IN2(s, x), c_has(r, g_x ^ g_y))
/* x << k = x * 2^k for k >= 0 (negative amounts have no result) */
#define OKZ_shl ZLIM
#define EXTRA_shl BOTSTRICT
#define SOUND_shl(r, s, x) IMP(IN2(s, x) && g_y >= 0, c_has(r, shl_(g_x, g_y)))
/* x >> k rounds towards minus infinity, k >= 0 */
#define OKZ_ashr ZLIM
#define EXTRA_ashr BOTSTRICT
#define SOUND_ashr(r, s, x) IMP(IN2(s, x) && g_y >= 0, c_has(r, fshr(g_x, g_y)))
/* logical shift right: the class ignores the bit width, so only non-negative values have a width-independent result */
#define OKZ_lshr ZLIM
#define EXTRA_lshr BOTSTRICT
#define SOUND_lshr(r, s, x) IMP(IN2(s, x) && g_y >= 0 && g_x >= 0, c_has(r, fshr(g_x, g_y)))

/* ---------------------------------------------------------------- inclusion */
#define SOUND_leq(rv, s, x) IMP((rv) && c_has(s, g_x), c_has(x, g_x))
#endif
