/* Postconditions of the congruence contracts, shared word for word by contracts.c (CBMC) and replay.cpp (native).
 * r = result, s = *this, x = argument (struct values of type C); g_x, g_y, g_d are the ghost points.
 * Every SOUND_* has the shape  IMP(membership hypotheses && LEM(lemma instances), membership of the concrete result). */
#ifndef CONGRUENCE_POST_H
#define CONGRUENCE_POST_H
#include "spec.h"
extern i128 g_x, g_y, g_d, g_e;
#define ANYBOT(s, x) (c_bot(s) || c_bot(x))
#define IN2(s, x) (c_has(s, g_x) && c_has(x, g_y))
#define BOTSTRICT(r, s, x) IMP(ANYBOT(s, x), c_bot(r))

/* ---------------------------------------------------------------- lemma sets (unbounded mode only; all are true) */
/* r = gZ + (sb mod g) with g | a, g | a2;  gx in aZ+b, gy in a2Z+b2;  w = (gx - b) +/- (gy - b2) = v - sb  ==>  g | v - r.b */
static inline bool LS_LIN(i128 g, i128 a, i128 b, i128 a2, i128 b2, i128 gx, i128 gy, i128 sg, i128 sb, i128 v){
  return T_TRANS(g, a, gx - b) && T_TRANS(g, a2, gy - b2) && (sg > 0 ? T_SUM(g, gx - b, gy - b2, v - sb) : T_DIFF(g, gx - b, gy - b2, v - sb)) && T_NF(g, sb, v); }
/* join: G = r.a divides a, a2 and |b - b2|; r.b = min(b, b2) mod G */
static inline bool LS_JOIN(C r, C s, C x, i128 v){
  i128 G = c_a(r), a = c_a(s), b = c_b(s), a2 = c_a(x), b2 = c_b(x), mn = imin(b, b2);
  return T_TRANS(G, a, v - b) && T_TRANS(G, a2, v - b2) && T_SUM(G, v - b, b - mn, v - mn) && T_SUM(G, v - b2, b2 - mn, v - mn) && T_NF(G, mn, v); }
/* widening: rank and stationarity */
static inline bool LS_WIDEN(C r, C s, C x){
  i128 G = c_a(r), a = c_a(s), b = c_b(s), b2 = c_b(x), mn = imin(b, b2);
  return T_SMALL(a, iabs(b - b2)) && T_DIFF(a, 0, b2 - b, b - b2) && T_SMALL(a, G) && T_NF(a, mn, b) && (RNG(fmod_(mn, a)) ? T_SMALL(a, b - fmod_(mn, a)) : 1); }
/* aZ+b <= a2Z+b2 (a2 | a, a2 | b - b2) and v in aZ+b  ==>  v in a2Z+b2 */
static inline bool LS_LEQ(C s, C x, i128 v){ return T_TRANS(c_a(x), c_a(s), v - c_b(s)) && T_SUM(c_a(x), v - c_b(s), c_b(s) - c_b(x), v - c_b(x)); }
/* -(aZ+b) = aZ + (a - b) */
static inline bool LS_NEG(C s, i128 gx){
  i128 a = c_a(s), b = c_b(s), u = gx - b, sb = -b + a, v = -gx;
  return T_DIFF(a, 0, u, -u) && T_DIFF(a, -u, a, v - sb) && T_NF(a, sb, v); }

/* ---------------------------------------------------------------- constructors */
#define POST_ctor_ab(r, a, b) (c_okz(r, CTB) && c_is(r, a, b))
#define SOUND_ctor_ab(r, a, b) IMP(LEM(T_NF(a, b, g_x)), c_has(r, g_x) == ab_has(a, b, g_x))

/* ---------------------------------------------------------------- lattice */
#define OKZ_join (2 * ZB)
#define EXTRA_join(r, s, x) 1
#define SOUND_join(r, s, x) IMP((c_has(s, g_x) || c_has(x, g_x)) && LEM(LS_JOIN(r, s, x, g_x)), c_has(r, g_x))
#define OKZ_meet ZB2
#define EXTRA_meet(r, s, x) 1
#define SOUND_meet(r, s, x) IMP(c_has(s, g_x) && c_has(x, g_x), c_has(r, g_x))
/* widening (= join: the lattice has no infinite ascending chain).  Upper bound of both arguments; stationary when the
 * argument is included; otherwise the result is strictly higher in the well-founded order
 *   bottom  <  singletons (a = 0)  <  a > 0 ordered by "proper divisor of",
 * i.e. self was bottom, or self was a singleton and the result is not, or the modulus became a proper divisor
 * (1 <= ret.a < self.a and ret.a | self.a): every chain of widenings is stationary after finitely many steps. */
#define WIDEN_RANK(r, s) (c_eq(r, s) || c_bot(s) || (!c_bot(r) && (c_a(s) == 0 ? c_a(r) > 0 : (c_a(r) >= 1 && c_a(r) < c_a(s) && dvd(c_a(r), c_a(s))))))
#define OKZ_widen (2 * ZB)
/* (g_d is the ghost at which the gcd contracts state "greatest"; it is arbitrary, so the clause holds for g_d = self.a) */
#define EXTRA_widen(r, s, x) IMP(LEM(LS_WIDEN(r, s, x)), IMP(c_leq(x, s) && g_d == c_a(s), c_eq(r, s)) && WIDEN_RANK(r, s))
#define SOUND_widen(r, s, x) SOUND_join(r, s, x)
/* narrowing of a decreasing pair still describes every state of its second argument (and stays below the first) */
#define OKZ_narrow ZB
#define EXTRA_narrow(r, s, x) IMP(c_leq(x, s), c_leq(r, s) && c_leq(x, r))
#define SOUND_narrow(r, s, x) IMP(c_leq(x, s) && c_has(x, g_x) && LEM(LS_LEQ(x, s, g_x)), c_has(r, g_x))

/* ---------------------------------------------------------------- arithmetic */
#define OKZ_add ZB2
#define EXTRA_add BOTSTRICT
#define SOUND_add(r, s, x) IMP(IN2(s, x) && LEM(LS_LIN(c_a(r), c_a(s), c_b(s), c_a(x), c_b(x), g_x, g_y, 1, c_b(s) + c_b(x), g_x + g_y)), c_has(r, g_x + g_y))
#define OKZ_sub ZB2
#define EXTRA_sub BOTSTRICT
#define SOUND_sub(r, s, x) IMP(IN2(s, x) && LEM(LS_LIN(c_a(r), c_a(s), c_b(s), c_a(x), c_b(x), g_x, g_y, -1, c_b(s) - c_b(x), g_x - g_y)), c_has(r, g_x - g_y))
#define OKZ_mul ZB2
#define EXTRA_mul BOTSTRICT
#define SOUND_mul(r, s, x) IMP(IN2(s, x), c_has(r, S_mul(g_x, g_y)))
/* signed (truncating) division and remainder; division by zero has no result */
#define OKZ_div ZB2
#define EXTRA_div BOTSTRICT
#define SOUND_div(r, s, x) IMP(IN2(s, x) && g_y != 0, c_has(r, S_div(g_x, g_y)))
#define OKZ_rem ZB2
#define EXTRA_rem BOTSTRICT
#define SOUND_rem(r, s, x) IMP(IN2(s, x) && g_y != 0, c_has(r, S_rem(g_x, g_y)))
/* unsigned division / remainder depend on a bit width the class does not know: any integer must be described */
#define OKZ_udiv ZB
#define EXTRA_udiv(r, s, x) 1
#define SOUND_udiv(r, s, x) c_has(r, g_x)
#define OKZ_urem ZB
#define EXTRA_urem(r, s, x) 1
#define SOUND_urem(r, s, x) c_has(r, g_x)
#define POST_neg(r, s) (c_okz(r, ZB2) && IMP(c_bot(s), c_bot(r)))
#define SOUND_neg(r, s) IMP(c_has(s, g_x) && LEM(LS_NEG(s, g_x)), c_has(r, -g_x))

/* ---------------------------------------------------------------- bitwise (infinite-precision two's complement), shifts */
#define OKZ_and (2 * ZB)
#define EXTRA_and BOTSTRICT
#define SOUND_and(r, s, x) IMP(IN2(s, x), c_has(r, g_x & g_y))
#define OKZ_or (2 * ZB)
#define EXTRA_or BOTSTRICT
#define SOUND_or(r, s, x) IMP(IN2(s, x), c_has(r, g_x | g_y))
#define OKZ_xor (2 * ZB)
#define EXTRA_xor BOTSTRICT
#define SOUND_xor(r, s, x) IMP(IN2(s, x), c_has(r, g_x ^ g_y))
/* x << k = x * 2^k for k >= 0 (negative amounts have no result) */
#define OKZ_shl ZLIM
#define EXTRA_shl BOTSTRICT
#define SOUND_shl(r, s, x) IMP(IN2(s, x) && g_y >= 0, c_has(r, shl_(g_x, g_y)))
/* x >> k rounds towards minus infinity, k >= 0 */
#define OKZ_ashr ZLIM
#define EXTRA_ashr BOTSTRICT
#define SOUND_ashr(r, s, x) IMP(IN2(s, x) && g_y >= 0, c_has(r, fshr(g_x, g_y)))
/* logical shift right: the class ignores the bit width, so only non-negative values have a width-independent result */
#define OKZ_lshr ZLIM
#define EXTRA_lshr BOTSTRICT
#define SOUND_lshr(r, s, x) IMP(IN2(s, x) && g_y >= 0 && g_x >= 0, c_has(r, fshr(g_x, g_y)))

/* ---------------------------------------------------------------- inclusion */
#define SOUND_leq(rv, s, x) IMP((rv) && c_has(s, g_x) && LEM(LS_LEQ(s, x, g_x)), c_has(x, g_x))
#endif
