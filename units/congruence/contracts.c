/* Contracts for ikos::congruence<z_number> — properties C08 (soundness of every operation), C04 (inclusion test
 * and lattice operations agree with the concretisation), C05 (widening / narrowing, operator level).
 *
 * Reading guide.  A check without defs= runs in the UNBOUNDED mode of spec.h (proof for all magnitudes below 2^40; the
 * linear operations need no lemma, the others name their kernel-lemma instances in post.h).  A check with
 * defs=ZM_SMALL=..,ZBITS=3 is BOUNDED: moduli and remainders below 2^3 = 8, ghost points below 2^5 = 32 in magnitude,
 * machine arithmetic; it is complete for that range and nothing more.  Where both exist for one function the bounded
 * one (suffix _b) is the cross-check of the lemma set. */
#include "post.h"
i128 g_x, g_y;                      /* ghost concrete points: arbitrary, never assigned by the code */
i128 g_d;                           /* ghost candidate divisor / multiple for the gcd / lcm helpers ("greatest", "least") */
Z *g_top_x;                         /* ghost: first-argument object of the outermost gcd_helper call (manual inductive check only) */
i128 g_e;                           /* ghost divisor of a gcd result ("whatever divides the gcd divides the arguments") */
#ifndef GBITS
#define GBITS (ZBITS + 2)
#endif
#define GB (((i128)1) << GBITS)
#define GRANGE (inb(g_x, GB) && inb(g_y, GB) && inb(g_d, GB) && inb(g_e, GB))
#define HGHOSTS GHOSTG(i128, g_x); GHOSTG(i128, g_y); GHOSTG(i128, g_d); GHOSTG(i128, g_e)
#define CFRESH2(tag) (FRESH(tag, self, sizeof(C)) && FRESH(tag, x, sizeof(C)))
#define RV __CPROVER_return_value
#define OLDZ(z) ((i128)(((u128)__CPROVER_old((z).f0.a.f1) << 64) | (u128)__CPROVER_old((z).f0.a.f0)))
/* mangled names used in replace= lists */
#define N_CTOR _ZN4ikos10congruenceINS_8z_numberEEC2ES1_S1_
#define N_GCDH _ZNK4ikos10congruenceINS_8z_numberEE10gcd_helperES1_S1_
#define N_GCD2 _ZNK4ikos10congruenceINS_8z_numberEE3gcdES1_S1_
#define N_GCD3 _ZNK4ikos10congruenceINS_8z_numberEE3gcdES1_S1_S1_
#define N_LCM _ZNK4ikos10congruenceINS_8z_numberEE3lcmES1_S1_

/* ================================================================ gcd / lcm helpers [private] */
#define X zraw(*x)
#define Y zraw(*y)
#define W zraw(*z)
#define R zraw(*ret)
/* r is the greatest common divisor of x and y (r >= 0, gcd(0,0) = 0): a common divisor; every common divisor g_d
 * divides it; every divisor g_e of it divides x and y.  g_d and g_e are arbitrary ghosts that are KEPT when the
 * contract replaces a call: the caller reads the clauses at the ghosts of its own harness.
 * WHEN(tag, e): a hypothesis that exists only while the contract is the enforced one: the lemma instances LEM(..) (valid
 * facts, lemmas.smt2) and ghost alignments such as g_e == R (the ghost is arbitrary, so the guarded clause is the
 * unguarded one).  When the contract replaces a call the clause is used without them. */
#define WHEN(tag, e) TOP(tag, e)
#define IS_GCD(r, x, y) ((r) >= 0 && dvd(r, x) && dvd(r, y) && (((r) == 0) == ((x) == 0 && (y) == 0)) \
   && IMP((x) != 0, (r) <= iabs(x)) && IMP((y) != 0, (r) <= iabs(y)))
#define GCD_GREATEST(r, x, y) IMP(dvd(g_d, x) && dvd(g_d, y), dvd(g_d, r))
#define GCD_LOWER(r, x, y) IMP(dvd(g_e, r), dvd(g_e, x) && dvd(g_e, y))
/* gcd_helper(x, y) = (y == 0) ? x : gcd_helper(y, x % y): Euclid on non-negative arguments.  Inductive check (rec=1:
 * goto-instrument --enforce-contract-rec): the recursive call is replaced by this very contract.  Partial correctness;
 * it terminates because 0 <= x % y < y (not machine-checked).  gcd2_unwound runs the real recursion, bounded.
 * (units/congruence/check_gcd_helper.sh does the same by hand, for drivers without rec=.) */
static inline bool LS_GCDH(i128 x, i128 y, i128 r){
  i128 q = D_(x, y), m = R_(x, y);
  return T_DIVID(x, y) && T_MULR(r, y, q) && T_SUM(r, M_(y, q), m, x) && T_MULR(g_d, y, q) && T_DIFF(g_d, x, M_(y, q), m) && T_SMALL(r, x) && T_SMALL(r, y)
      && T_TRANS(g_e, r, x) && T_TRANS(g_e, r, y); }
//@check id=gcd_helper fn=_ZNK4ikos10congruenceINS_8z_numberEE10gcd_helperES1_S1_ props=C08 rec=1 cost=9 backends=minisat,kissat first_timeout=900 timeout=900
//@check id=gcd_helper_b fn=_ZNK4ikos10congruenceINS_8z_numberEE10gcd_helperES1_S1_ tag=gcd_helper harness=h_gcd_helper props=C08 rec=1 defs=ZM_SMALL=16,ZBITS=3 tier=thorough backends=minisat,kissat first_timeout=400 timeout=600 bounded="bit-precise small arithmetic: operands below 2^3 in magnitude only"
void _ZNK4ikos10congruenceINS_8z_numberEE10gcd_helperES1_S1_(Z *ret, C *self, Z *x, Z *y)
__CPROVER_requires(FRESH(gcd_helper, ret, sizeof(Z)) && FRESH(gcd_helper, x, sizeof(Z)) && FRESH(gcd_helper, y, sizeof(Z)))
__CPROVER_requires(X >= 0 && Y >= 0 && X < CTB && Y < CTB && inb(g_d, CTB) && inb(g_e, CTB))
__CPROVER_assigns(*ret)
/* (under --enforce-contract-rec the recursive call is replaced by this same contract; the induction hypothesis must be
 * the unconditional clause, so the lemma hypothesis is tied to the outermost call, recognised by its argument object
 * (the result object is shared by all levels: the recursive call constructs into the caller's return slot)) */
__CPROVER_ensures(IMP(x != g_top_x || WHEN(gcd_helper, LEM(LS_GCDH(X, Y, R))), IS_GCD(R, X, Y) && GCD_GREATEST(R, X, Y) && GCD_LOWER(R, X, Y)));
void h_gcd_helper(void){ IN(Z, a); IN(Z, b); HGHOSTS; C c; Z r; g_top_x = &a; _ZNK4ikos10congruenceINS_8z_numberEE10gcd_helperES1_S1_(&r, &c, &a, &b); REACH; }

/* gcd(x, y) = gcd_helper(|x|, |y|) */
static inline bool LS_GCD2(i128 x, i128 y, i128 r){
  return T_DIFF(r, 0, -x, x) && T_DIFF(r, 0, -y, y) && T_DIFF(g_d, 0, x, -x) && T_DIFF(g_d, 0, y, -y) && T_TRANS(g_e, r, x) && T_TRANS(g_e, r, y); }
//@check id=gcd2 fn=_ZNK4ikos10congruenceINS_8z_numberEE3gcdES1_S1_ props=C08 replace=_ZNK4ikos10congruenceINS_8z_numberEE10gcd_helperES1_S1_ backends=minisat,kissat first_timeout=900 timeout=900
//@check id=gcd2_b fn=_ZNK4ikos10congruenceINS_8z_numberEE3gcdES1_S1_ tag=gcd2 harness=h_gcd2 props=C08 defs=ZM_SMALL=16,ZBITS=3 replace=_ZNK4ikos10congruenceINS_8z_numberEE10gcd_helperES1_S1_ tier=thorough backends=minisat,kissat first_timeout=400 timeout=600 bounded="bit-precise small arithmetic: operands below 2^3 in magnitude only"
void _ZNK4ikos10congruenceINS_8z_numberEE3gcdES1_S1_(Z *ret, C *self, Z *x, Z *y)
__CPROVER_requires(FRESH(gcd2, ret, sizeof(Z)) && FRESH(gcd2, x, sizeof(Z)) && FRESH(gcd2, y, sizeof(Z)))
__CPROVER_requires(inb(X, CTB) && inb(Y, CTB) && inb(g_d, CTB) && inb(g_e, CTB))
__CPROVER_assigns(*ret)
__CPROVER_ensures(IMP(WHEN(gcd2, LEM(LS_GCD2(X, Y, R))), IS_GCD(R, X, Y) && GCD_GREATEST(R, X, Y) && GCD_LOWER(R, X, Y)));
void h_gcd2(void){ IN(Z, a); IN(Z, b); HGHOSTS; C c; Z r; _ZNK4ikos10congruenceINS_8z_numberEE3gcdES1_S1_(&r, &c, &a, &b); REACH; }
/* BOUNDED: the same contract with the real recursive gcd_helper in line (Euclid on values below 2^4 makes at most 6
 * recursive calls) */
//@check id=gcd2_unwound fn=_ZNK4ikos10congruenceINS_8z_numberEE3gcdES1_S1_ tag=gcd2 harness=h_gcd2 props=C08 noauto=1 defs=ZM_SMALL=16,ZBITS=3,CTBITS=4 unwind=8 cbmc=--unwindset,zs_udivrem.0:15,--unwindset,s_udivrem.0:15 backends=minisat,kissat first_timeout=400 timeout=600 bounded="bit-precise small arithmetic: operands below 2^3 in magnitude only"
/* gcd(x, y, z) = gcd(x, gcd(y, z)).  That the result divides y and z comes from GCD_LOWER of the inner call at
 * g_e = result: the enforced form is guarded by that alignment. */
//@check id=gcd3 fn=_ZNK4ikos10congruenceINS_8z_numberEE3gcdES1_S1_S1_ props=C08 replace=_ZNK4ikos10congruenceINS_8z_numberEE3gcdES1_S1_ backends=minisat,kissat first_timeout=900 timeout=900
//@check id=gcd3_b fn=_ZNK4ikos10congruenceINS_8z_numberEE3gcdES1_S1_S1_ tag=gcd3 harness=h_gcd3 props=C08 defs=ZM_SMALL=16,ZBITS=3 replace=_ZNK4ikos10congruenceINS_8z_numberEE3gcdES1_S1_ tier=thorough backends=minisat,kissat first_timeout=400 timeout=600 bounded="bit-precise small arithmetic: operands below 2^3 in magnitude only"
void _ZNK4ikos10congruenceINS_8z_numberEE3gcdES1_S1_S1_(Z *ret, C *self, Z *x, Z *y, Z *z)
__CPROVER_requires(FRESH(gcd3, ret, sizeof(Z)) && FRESH(gcd3, x, sizeof(Z)) && FRESH(gcd3, y, sizeof(Z)) && FRESH(gcd3, z, sizeof(Z)))
__CPROVER_requires(inb(X, CTB) && inb(Y, CTB) && inb(W, CTB) && inb(g_d, CTB) && inb(g_e, CTB))
__CPROVER_assigns(*ret)
__CPROVER_ensures(R >= 0 && dvd(R, X) && ((R == 0) == (X == 0 && Y == 0 && W == 0)))
__CPROVER_ensures(IMP(WHEN(gcd3, g_e == R), dvd(R, Y) && dvd(R, W)))
__CPROVER_ensures(IMP(X != 0, R <= iabs(X)) && IMP(Y != 0, R <= iabs(Y)) && IMP(W != 0, R <= iabs(W)))
__CPROVER_ensures(IMP(dvd(g_d, X) && dvd(g_d, Y) && dvd(g_d, W), dvd(g_d, R)));
void h_gcd3(void){ IN(Z, a); IN(Z, b); IN(Z, c); HGHOSTS; C s; Z r; _ZNK4ikos10congruenceINS_8z_numberEE3gcdES1_S1_S1_(&r, &s, &a, &b, &c); REACH; }
/* lcm(x, y) = |x * y| / gcd(x, y) for x, y != 0 (the only use): a positive common multiple that divides every common
 * multiple g_d.  BOUNDED: the real gcd / gcd_helper in line ("least" needs "greatest" at another point than g_d). */
//@check id=lcm noauto=1 fn=_ZNK4ikos10congruenceINS_8z_numberEE3lcmES1_S1_ props=C08 defs=ZM_SMALL=16,ZBITS=3 unwind=8 cbmc=--unwindset,zs_udivrem.0:15,--unwindset,s_udivrem.0:15 backends=minisat,kissat first_timeout=400 timeout=600 bounded="bit-precise small arithmetic: operands below 2^3 in magnitude only"
void _ZNK4ikos10congruenceINS_8z_numberEE3lcmES1_S1_(Z *ret, C *self, Z *x, Z *y)
__CPROVER_requires(FRESH(lcm, ret, sizeof(Z)) && FRESH(lcm, x, sizeof(Z)) && FRESH(lcm, y, sizeof(Z)))
__CPROVER_requires(inb(X, ZB) && inb(Y, ZB) && X != 0 && Y != 0 && inb(g_d, ZB2))
__CPROVER_assigns(*ret)
__CPROVER_ensures(R > 0 && R < ZB2 && dvd(X, R) && dvd(Y, R) && R >= iabs(X) && R >= iabs(Y))
__CPROVER_ensures(IMP(dvd(X, g_d) && dvd(Y, g_d), dvd(R, g_d)));
void h_lcm(void){ IN(Z, a); IN(Z, b); HGHOSTS; C s; Z r; _ZNK4ikos10congruenceINS_8z_numberEE3lcmES1_S1_(&r, &s, &a, &b); REACH; }
#define ZUN(tag, fn, EXPR) \
void fn(Z *ret, C *self, Z *x) \
__CPROVER_requires(FRESH(tag, ret, sizeof(Z)) && FRESH(tag, x, sizeof(Z)) && inb(X, CTB)) \
__CPROVER_assigns(*ret) \
__CPROVER_ensures(R == (EXPR)); \
void h_##tag(void){ IN(Z, a); C s; Z r; fn(&r, &s, &a); REACH; }
#define ZBI(tag, fn, EXPR) \
void fn(Z *ret, C *self, Z *x, Z *y) \
__CPROVER_requires(FRESH(tag, ret, sizeof(Z)) && FRESH(tag, x, sizeof(Z)) && FRESH(tag, y, sizeof(Z)) && inb(X, CTB) && inb(Y, CTB)) \
__CPROVER_assigns(*ret) \
__CPROVER_ensures(R == (EXPR)); \
void h_##tag(void){ IN(Z, a); IN(Z, b); C s; Z r; fn(&r, &s, &a, &b); REACH; }
//@check id=abs fn=_ZNK4ikos10congruenceINS_8z_numberEE3absES1_ props=C08
ZUN(abs, _ZNK4ikos10congruenceINS_8z_numberEE3absES1_, iabs(X))
//@check id=min fn=_ZNK4ikos10congruenceINS_8z_numberEE3minES1_S1_ props=C08
ZBI(min, _ZNK4ikos10congruenceINS_8z_numberEE3minES1_S1_, imin(X, Y))
//@check id=max fn=_ZNK4ikos10congruenceINS_8z_numberEE3maxES1_S1_ props=C08
ZBI(max, _ZNK4ikos10congruenceINS_8z_numberEE3maxES1_S1_, imax(X, Y))

/* ================================================================ constructors, normal form */
/* congruence(Number a, Number b) [private]: the value aZ+b in normal form.  a may have either sign
 * (operator/ passes m_a / o.m_b). */
//@check id=ctor_ab fn=_ZN4ikos10congruenceINS_8z_numberEEC2ES1_S1_ props=C08,C04 backends=minisat,kissat first_timeout=900 timeout=900
//@check id=ctor_ab_b fn=_ZN4ikos10congruenceINS_8z_numberEEC2ES1_S1_ tag=ctor_ab harness=h_ctor_ab props=C08,C04 defs=ZM_SMALL=16,ZBITS=3 backends=minisat,kissat first_timeout=400 timeout=600 bounded="bit-precise small arithmetic: operands below 2^3 in magnitude only"
void _ZN4ikos10congruenceINS_8z_numberEEC2ES1_S1_(C *self, Z *a, Z *b)
__CPROVER_requires(FRESH(ctor_ab, self, sizeof(C)) && FRESH(ctor_ab, a, sizeof(Z)) && FRESH(ctor_ab, b, sizeof(Z)))
__CPROVER_requires(inb(zraw(*a), CTB) && inb(zraw(*b), CTB) && TOP(ctor_ab, GRANGE))
__CPROVER_assigns(*self)
__CPROVER_ensures(POST_ctor_ab(*self, zraw(*a), zraw(*b)))
__CPROVER_ensures(TOP(ctor_ab, SOUND_ctor_ab(*self, zraw(*a), zraw(*b))));
void h_ctor_ab(void){ IN(Z, a); IN(Z, b); HGHOSTS; C r; _ZN4ikos10congruenceINS_8z_numberEEC2ES1_S1_(&r, &a, &b); REACH; }

/* normalize() [private, only called by the (a, b) constructor on a non-bottom value]: brings the modulus to |a| and the
 * remainder into [0, |a|) and leaves the described set unchanged */
//@check id=normalize fn=_ZN4ikos10congruenceINS_8z_numberEE9normalizeEv props=C08,C04 backends=minisat,kissat first_timeout=900 timeout=900
//@check id=normalize_b fn=_ZN4ikos10congruenceINS_8z_numberEE9normalizeEv tag=normalize harness=h_normalize props=C08,C04 defs=ZM_SMALL=16,ZBITS=3 backends=minisat,kissat first_timeout=400 timeout=600 bounded="bit-precise small arithmetic: operands below 2^3 in magnitude only"
void _ZN4ikos10congruenceINS_8z_numberEE9normalizeEv(C *self)
__CPROVER_requires(FRESH(normalize, self, sizeof(C)) && self->f0 == 0 && inb(c_a(*self), CTB) && inb(c_b(*self), CTB) && TOP(normalize, GRANGE))
__CPROVER_assigns(*self)
__CPROVER_ensures(c_okz(*self, CTB) && self->f0 == __CPROVER_old(self->f0))
__CPROVER_ensures(c_a(*self) == iabs(OLDZ(self->f1)) && c_b(*self) == (OLDZ(self->f1) == 0 ? OLDZ(self->f2) : fmod_(OLDZ(self->f2), OLDZ(self->f1))))
__CPROVER_ensures(TOP(normalize, IMP(LEM(T_NF(OLDZ(self->f1), OLDZ(self->f2), g_x)), ab_has(c_a(*self), c_b(*self), g_x) == ab_has(OLDZ(self->f1), OLDZ(self->f2), g_x))));
void h_normalize(void){ IN(C, a); HGHOSTS; _ZN4ikos10congruenceINS_8z_numberEE9normalizeEv(&a); REACH; }

/* congruence(): top */
//@check id=ctor_default fn=_ZN4ikos10congruenceINS_8z_numberEEC2Ev props=C08,C04
void _ZN4ikos10congruenceINS_8z_numberEEC2Ev(C *self)
__CPROVER_requires(FRESH(ctor_default, self, sizeof(C)))
__CPROVER_assigns(*self)
__CPROVER_ensures(c_ok(*self) && c_top(*self) && c_b(*self) == 0);
void h_ctor_default(void){ C r; _ZN4ikos10congruenceINS_8z_numberEEC2Ev(&r); REACH; }
/* congruence(Number n): the singleton {n} */
//@check id=ctor_n fn=_ZN4ikos10congruenceINS_8z_numberEEC2ES1_ props=C08,C04
void _ZN4ikos10congruenceINS_8z_numberEEC2ES1_(C *self, Z *n)
__CPROVER_requires(FRESH(ctor_n, self, sizeof(C)) && FRESH(ctor_n, n, sizeof(Z)) && inb(zraw(*n), ZLIM) && TOP(ctor_n, GRANGE))
__CPROVER_assigns(*self)
__CPROVER_ensures(c_okz(*self, ZLIM) && c_single(*self) && c_b(*self) == zraw(*n))
__CPROVER_ensures(TOP(ctor_n, c_has(*self, g_x) == (g_x == zraw(*n))));
void h_ctor_n(void){ IN(Z, n); HGHOSTS; C r; _ZN4ikos10congruenceINS_8z_numberEEC2ES1_(&r, &n); REACH; }
/* congruence(int n) [private]: the singleton {n} */
//@check id=ctor_int fn=_ZN4ikos10congruenceINS_8z_numberEEC2Ei props=C08,C04
void _ZN4ikos10congruenceINS_8z_numberEEC2Ei(C *self, uint32_t n)
__CPROVER_requires(FRESH(ctor_int, self, sizeof(C)) && inb((i128)(int32_t)n, ZB))
__CPROVER_assigns(*self)
__CPROVER_ensures(c_ok(*self) && c_single(*self) && c_b(*self) == (i128)(int32_t)n);
void h_ctor_int(void){ GHOST(uint32_t, n); C r; _ZN4ikos10congruenceINS_8z_numberEEC2Ei(&r, n); REACH; }
/* congruence(bool b) [private]: top if b, bottom otherwise */
//@check id=ctor_bool fn=_ZN4ikos10congruenceINS_8z_numberEEC2Eb props=C08,C04
void _ZN4ikos10congruenceINS_8z_numberEEC2Eb(C *self, unsigned char b)
__CPROVER_requires(FRESH(ctor_bool, self, sizeof(C)) && b <= 1)
__CPROVER_assigns(*self)
__CPROVER_ensures(c_ok(*self) && (b ? c_top(*self) : c_bot(*self)) && c_a(*self) == 1 && c_b(*self) == 0);
void h_ctor_bool(void){ GHOST(unsigned char, b); C r; _ZN4ikos10congruenceINS_8z_numberEEC2Eb(&r, b); REACH; }

//@check id=top fn=_ZN4ikos10congruenceINS_8z_numberEE3topEv props=C08,C04
void _ZN4ikos10congruenceINS_8z_numberEE3topEv(C *ret)
__CPROVER_requires(FRESH(top, ret, sizeof(C)) && TOP(top, GRANGE))
__CPROVER_assigns(*ret)
__CPROVER_ensures(c_ok(*ret) && c_top(*ret) && !c_bot(*ret) && c_b(*ret) == 0)
__CPROVER_ensures(TOP(top, c_has(*ret, g_x)));
void h_top(void){ HGHOSTS; C r; _ZN4ikos10congruenceINS_8z_numberEE3topEv(&r); REACH; }
//@check id=bottom fn=_ZN4ikos10congruenceINS_8z_numberEE6bottomEv props=C08,C04
void _ZN4ikos10congruenceINS_8z_numberEE6bottomEv(C *ret)
__CPROVER_requires(FRESH(bottom, ret, sizeof(C)) && TOP(bottom, GRANGE))
__CPROVER_assigns(*ret)
__CPROVER_ensures(c_ok(*ret) && c_bot(*ret) && !c_top(*ret) && c_a(*ret) == 1 && c_b(*ret) == 0)
__CPROVER_ensures(TOP(bottom, !c_has(*ret, g_x)));
void h_bottom(void){ HGHOSTS; C r; _ZN4ikos10congruenceINS_8z_numberEE6bottomEv(&r); REACH; }

/* ================================================================ queries */
#define CQUERY(tag, fn, EXPR, SEM) \
unsigned char fn(C *self) \
__CPROVER_requires(FRESH(tag, self, sizeof(C)) && c_ok(*self) && TOP(tag, GRANGE)) \
__CPROVER_assigns() \
__CPROVER_ensures((RV != 0) == (EXPR)) \
__CPROVER_ensures(TOP(tag, SEM)); \
void h_##tag(void){ IN(C, a); HGHOSTS; fn(&a); REACH; }
/* is_bottom() <=> no integer is described (witness of non-emptiness: the remainder itself) */
//@check id=is_bottom fn=_ZNK4ikos10congruenceINS_8z_numberEE9is_bottomEv props=C08,C04
CQUERY(is_bottom, _ZNK4ikos10congruenceINS_8z_numberEE9is_bottomEv, c_bot(*self), RV ? !c_has(*self, g_x) : c_has(*self, c_b(*self)))
/* is_top() => every integer is described; in particular bottom is not top */
//@check id=is_top fn=_ZNK4ikos10congruenceINS_8z_numberEE6is_topEv props=C08,C04
CQUERY(is_top, _ZNK4ikos10congruenceINS_8z_numberEE6is_topEv, c_top(*self), !RV || c_has(*self, g_x))
/* is_bottom / is_top agree with bottom() / top(): the real objects made by the real functions */
//@check id=is_top_of_bottom fn=_ZNK4ikos10congruenceINS_8z_numberEE6is_topEv tag=is_top props=C04
void h_is_top_of_bottom(void){ HGHOSTS; C r; _ZN4ikos10congruenceINS_8z_numberEE6bottomEv(&r);
  unsigned char t = _ZNK4ikos10congruenceINS_8z_numberEE6is_topEv(&r); __CPROVER_assert(!t, "bottom().is_top() is false"); REACH; }
//@check id=is_top_of_top fn=_ZNK4ikos10congruenceINS_8z_numberEE6is_topEv tag=is_top props=C04
void h_is_top_of_top(void){ HGHOSTS; C r; _ZN4ikos10congruenceINS_8z_numberEE3topEv(&r);
  unsigned char t = _ZNK4ikos10congruenceINS_8z_numberEE6is_topEv(&r); __CPROVER_assert(t, "top().is_top() is true"); REACH; }
//@check id=is_bottom_of_bottom fn=_ZNK4ikos10congruenceINS_8z_numberEE9is_bottomEv tag=is_bottom props=C04
void h_is_bottom_of_bottom(void){ HGHOSTS; C r; _ZN4ikos10congruenceINS_8z_numberEE6bottomEv(&r);
  unsigned char t = _ZNK4ikos10congruenceINS_8z_numberEE9is_bottomEv(&r); __CPROVER_assert(t, "bottom().is_bottom() is true"); REACH; }
//@check id=is_bottom_of_top fn=_ZNK4ikos10congruenceINS_8z_numberEE9is_bottomEv tag=is_bottom props=C04
void h_is_bottom_of_top(void){ HGHOSTS; C r; _ZN4ikos10congruenceINS_8z_numberEE3topEv(&r);
  unsigned char t = _ZNK4ikos10congruenceINS_8z_numberEE9is_bottomEv(&r); __CPROVER_assert(!t, "top().is_bottom() is false"); REACH; }
//@check id=is_zero fn=_ZNK4ikos10congruenceINS_8z_numberEE7is_zeroEv props=C08
CQUERY(is_zero, _ZNK4ikos10congruenceINS_8z_numberEE7is_zeroEv, c_single(*self) && c_b(*self) == 0, !RV || (c_has(*self, g_x) == (g_x == 0)))
//@check id=all_ones fn=_ZNK4ikos10congruenceINS_8z_numberEE8all_onesEv props=C08
CQUERY(all_ones, _ZNK4ikos10congruenceINS_8z_numberEE8all_onesEv, c_single(*self) && c_b(*self) == -1, !RV || (c_has(*self, g_x) == (g_x == -1)))

#define ZGET(tag, fn, EXPR) \
void fn(Z *ret, C *self) \
__CPROVER_requires(FRESH(tag, ret, sizeof(Z)) && FRESH(tag, self, sizeof(C)) && c_ok(*self)) \
__CPROVER_assigns(*ret) \
__CPROVER_ensures(zraw(*ret) == (EXPR)); \
void h_##tag(void){ IN(C, a); Z r; fn(&r, &a); REACH; }
//@check id=get_modulo fn=_ZNK4ikos10congruenceINS_8z_numberEE10get_moduloEv props=C08
ZGET(get_modulo, _ZNK4ikos10congruenceINS_8z_numberEE10get_moduloEv, c_a(*self))
//@check id=get_remainder fn=_ZNK4ikos10congruenceINS_8z_numberEE13get_remainderEv props=C08
ZGET(get_remainder, _ZNK4ikos10congruenceINS_8z_numberEE13get_remainderEv, c_b(*self))

/* singleton(): Some(b) exactly when one integer is described */
typedef struct S_class_boost__optional OPT;
static inline bool opt_some(const OPT *o){ return o->f0.f0 != 0; }
static inline i128 opt_val(const OPT *o){ return zraw(*(const Z *)&o->f0.f2); }
//@check id=singleton fn=_ZNK4ikos10congruenceINS_8z_numberEE9singletonEv props=C08
void _ZNK4ikos10congruenceINS_8z_numberEE9singletonEv(OPT *ret, C *self)
__CPROVER_requires(FRESH(singleton, ret, sizeof(OPT)) && FRESH(singleton, self, sizeof(C)) && c_ok(*self) && TOP(singleton, GRANGE))
__CPROVER_assigns(*ret)
__CPROVER_ensures(opt_some(ret) == c_single(*self) && (opt_some(ret) ==> opt_val(ret) == c_b(*self)))
__CPROVER_ensures(TOP(singleton, opt_some(ret) ==> (c_has(*self, g_x) == (g_x == opt_val(ret)))));
void h_singleton(void){ IN(C, a); HGHOSTS; OPT r; _ZNK4ikos10congruenceINS_8z_numberEE9singletonEv(&r, &a); REACH; }

/* ================================================================ equality, inclusion */
//@check id=eq fn=_ZNK4ikos10congruenceINS_8z_numberEEeqERKS2_ props=C08,C04
unsigned char _ZNK4ikos10congruenceINS_8z_numberEEeqERKS2_(C *self, C *x)
__CPROVER_requires(CFRESH2(eq) && c_ok(*self) && c_ok(*x))
__CPROVER_assigns()
__CPROVER_ensures((RV != 0) == c_eq(*self, *x));
void h_eq(void){ IN(C, a); IN(C, b); _ZNK4ikos10congruenceINS_8z_numberEEeqERKS2_(&a, &b); REACH; }
//@check id=ne fn=_ZNK4ikos10congruenceINS_8z_numberEEneERKS2_ props=C08,C04
unsigned char _ZNK4ikos10congruenceINS_8z_numberEEneERKS2_(C *self, C *x)
__CPROVER_requires(CFRESH2(ne) && c_ok(*self) && c_ok(*x))
__CPROVER_assigns()
__CPROVER_ensures((RV != 0) == !c_eq(*self, *x));
void h_ne(void){ IN(C, a); IN(C, b); _ZNK4ikos10congruenceINS_8z_numberEEneERKS2_(&a, &b); REACH; }

/* inclusion: yes on equal values, with bottom on the left, with top on the right; a yes means inclusion of the
 * described sets.  Check leq_exact adds PRECISION, which C04 does not demand: a no means non-inclusion (the answer is
 * the divisibility characterisation a' | a and a' | b - b'). */
#ifdef CHECK_leq_exact
#define LEQ_EXACT ((RV != 0) == c_leq(*self, *x))
#else
#define LEQ_EXACT 1
#endif
//@check id=leq fn=_ZNK4ikos10congruenceINS_8z_numberEEleERKS2_ props=C08,C04 backends=minisat,kissat first_timeout=900 timeout=900
//@check id=leq_b fn=_ZNK4ikos10congruenceINS_8z_numberEEleERKS2_ tag=leq harness=h_leq props=C08,C04 defs=ZM_SMALL=16,ZBITS=3 backends=minisat,kissat first_timeout=400 timeout=600 bounded="bit-precise small arithmetic: operands below 2^3 in magnitude only"
//@check id=leq_exact fn=_ZNK4ikos10congruenceINS_8z_numberEEleERKS2_ tag=leq harness=h_leq props=C04 defs=ZM_SMALL=16,ZBITS=3 backends=minisat,kissat first_timeout=400 timeout=600 bounded="bit-precise small arithmetic: operands below 2^3 in magnitude only"
unsigned char _ZNK4ikos10congruenceINS_8z_numberEEleERKS2_(C *self, C *x)
__CPROVER_requires(CFRESH2(leq) && c_ok(*self) && c_ok(*x) && TOP(leq, GRANGE))
__CPROVER_assigns()
__CPROVER_ensures(TOP(leq, SOUND_leq(RV, *self, *x)))
__CPROVER_ensures(c_bot(*self) ==> RV)
__CPROVER_ensures(c_top(*x) ==> RV)
__CPROVER_ensures(c_eq(*self, *x) ==> RV)
__CPROVER_ensures(LEQ_EXACT);
void h_leq(void){ IN(C, a); IN(C, b); HGHOSTS; _ZNK4ikos10congruenceINS_8z_numberEEleERKS2_(&a, &b); REACH; }
/* reflexivity: the same object on both sides */
//@check id=leq_refl fn=_ZNK4ikos10congruenceINS_8z_numberEEleERKS2_ tag=leq props=C04 defs=ZM_SMALL=16,ZBITS=3 backends=minisat,kissat first_timeout=400 timeout=600 bounded="bit-precise small arithmetic: operands below 2^3 in magnitude only"
void h_leq_refl(void){ IN(C, a); HGHOSTS; unsigned char r = _ZNK4ikos10congruenceINS_8z_numberEEleERKS2_(&a, &a); __CPROVER_assert(r, "x <= x"); REACH; }

/* ================================================================ binary operations */
#define CBINP(tag, op, fn, PRE) \
void fn(C *ret, C *self, C *x) \
__CPROVER_requires(FRESH(tag, ret, sizeof(C)) && CFRESH2(tag) && c_ok(*self) && c_ok(*x) && (PRE) && TOP(tag, GRANGE)) \
__CPROVER_assigns(*ret) \
__CPROVER_ensures(c_okz(*ret, OKZ_##op)) \
__CPROVER_ensures(EXTRA_##op(*ret, *self, *x)) \
__CPROVER_ensures(TOP(tag, SOUND_##op(*ret, *self, *x))); \
void h_##tag(void){ IN(C, a); IN(C, b); HGHOSTS; C r; fn(&r, &a, &b); REACH; }
#define CBIN(tag, fn) CBINP(tag, tag, fn, 1)

/* join: describes at least both operands */
//@check id=join fn=_ZNK4ikos10congruenceINS_8z_numberEEorERKS2_ props=C08,C04 cost=5 replace=_ZN4ikos10congruenceINS_8z_numberEEC2ES1_S1_,_ZNK4ikos10congruenceINS_8z_numberEE3gcdES1_S1_S1_ backends=minisat,kissat first_timeout=900 timeout=900
//@check id=join_b fn=_ZNK4ikos10congruenceINS_8z_numberEEorERKS2_ tag=join harness=h_join props=C08,C04 defs=ZM_SMALL=16,ZBITS=3 replace=_ZN4ikos10congruenceINS_8z_numberEEC2ES1_S1_,_ZNK4ikos10congruenceINS_8z_numberEE3gcdES1_S1_S1_ tier=thorough backends=minisat,kissat first_timeout=400 timeout=600 bounded="bit-precise small arithmetic: operands below 2^3 in magnitude only"
CBIN(join, _ZNK4ikos10congruenceINS_8z_numberEEorERKS2_)
/* meet: describes at least the integers common to both operands.  The loop (extended Euclid, after repair) runs fewer
 * than 2*ZBITS+2 times on moduli below 2^ZBITS. */
//@check id=meet noauto=1 fn=_ZNK4ikos10congruenceINS_8z_numberEEanERKS2_ props=C08,C04 defs=ZM_SMALL=16,ZBITS=3 unwind=8 replace=_ZN4ikos10congruenceINS_8z_numberEEC2ES1_S1_ cbmc=--unwindset,zs_udivrem.0:15,--unwindset,s_udivrem.0:15 backends=minisat,kissat first_timeout=400 timeout=600 bounded="bit-precise small arithmetic: operands below 2^3 in magnitude only"
CBIN(meet, _ZNK4ikos10congruenceINS_8z_numberEEanERKS2_)
/* widening: the same function checked twice in the unbounded mode, once for "describes at least both arguments" (widen)
 * and once for the termination argument (widen_rank: stationary on an included argument, otherwise strictly higher in
 * the well-founded order of post.h); the bounded cross-check widen_b does both at once */
//@check id=widen fn=_ZNK4ikos10congruenceINS_8z_numberEEooERKS2_ props=C08,C05 cost=5 replace=_ZN4ikos10congruenceINS_8z_numberEEC2ES1_S1_,_ZNK4ikos10congruenceINS_8z_numberEE3gcdES1_S1_S1_ backends=minisat,kissat first_timeout=900 timeout=900
//@check id=widen_rank fn=_ZNK4ikos10congruenceINS_8z_numberEEooERKS2_ tag=widen harness=h_widen props=C05 cost=9 replace=_ZN4ikos10congruenceINS_8z_numberEEC2ES1_S1_,_ZNK4ikos10congruenceINS_8z_numberEE3gcdES1_S1_S1_ backends=minisat,kissat first_timeout=900 timeout=900
//@check id=widen_b fn=_ZNK4ikos10congruenceINS_8z_numberEEooERKS2_ tag=widen harness=h_widen props=C08,C05 defs=ZM_SMALL=16,ZBITS=3 replace=_ZN4ikos10congruenceINS_8z_numberEEC2ES1_S1_,_ZNK4ikos10congruenceINS_8z_numberEE3gcdES1_S1_S1_ backends=minisat,kissat first_timeout=400 timeout=600 bounded="bit-precise small arithmetic: operands below 2^3 in magnitude only"
#if defined(CHECK_widen_rank)
#define OKZ_widen_sel OKZ_widen
#define EXTRA_widen_sel EXTRA_widen
#define SOUND_widen_sel(r, s, x) 1
#elif defined(CHECK_widen)
#define OKZ_widen_sel OKZ_widen
#define EXTRA_widen_sel(r, s, x) 1
#define SOUND_widen_sel SOUND_widen
#else
#define OKZ_widen_sel OKZ_widen
#define EXTRA_widen_sel EXTRA_widen
#define SOUND_widen_sel SOUND_widen
#endif
CBINP(widen, widen_sel, _ZNK4ikos10congruenceINS_8z_numberEEooERKS2_, 1)
//@check id=narrow fn=_ZNK4ikos10congruenceINS_8z_numberEEaaERKS2_ props=C08,C05 backends=minisat,kissat first_timeout=900 timeout=900
//@check id=narrow_b fn=_ZNK4ikos10congruenceINS_8z_numberEEaaERKS2_ tag=narrow harness=h_narrow props=C08,C05 defs=ZM_SMALL=16,ZBITS=3 tier=thorough backends=minisat,kissat first_timeout=400 timeout=600 bounded="bit-precise small arithmetic: operands below 2^3 in magnitude only"
CBIN(narrow, _ZNK4ikos10congruenceINS_8z_numberEEaaERKS2_)

/* ---------------------------------------------------------------- arithmetic */
//@check id=add fn=_ZNK4ikos10congruenceINS_8z_numberEEplERKS2_ props=C08 cost=5 replace=_ZN4ikos10congruenceINS_8z_numberEEC2ES1_S1_,_ZNK4ikos10congruenceINS_8z_numberEE3gcdES1_S1_ backends=minisat,kissat first_timeout=900 timeout=900
//@check id=add_b fn=_ZNK4ikos10congruenceINS_8z_numberEEplERKS2_ tag=add harness=h_add props=C08 defs=ZM_SMALL=16,ZBITS=3 replace=_ZN4ikos10congruenceINS_8z_numberEEC2ES1_S1_,_ZNK4ikos10congruenceINS_8z_numberEE3gcdES1_S1_ tier=thorough backends=minisat,kissat first_timeout=400 timeout=600 bounded="bit-precise small arithmetic: operands below 2^3 in magnitude only"
CBIN(add, _ZNK4ikos10congruenceINS_8z_numberEEplERKS2_)
//@check id=sub fn=_ZNK4ikos10congruenceINS_8z_numberEEmiERKS2_ props=C08 cost=5 replace=_ZN4ikos10congruenceINS_8z_numberEEC2ES1_S1_,_ZNK4ikos10congruenceINS_8z_numberEE3gcdES1_S1_ backends=minisat,kissat first_timeout=900 timeout=900
//@check id=sub_b fn=_ZNK4ikos10congruenceINS_8z_numberEEmiERKS2_ tag=sub harness=h_sub props=C08 defs=ZM_SMALL=16,ZBITS=3 replace=_ZN4ikos10congruenceINS_8z_numberEEC2ES1_S1_,_ZNK4ikos10congruenceINS_8z_numberEE3gcdES1_S1_ tier=thorough backends=minisat,kissat first_timeout=400 timeout=600 bounded="bit-precise small arithmetic: operands below 2^3 in magnitude only"
CBIN(sub, _ZNK4ikos10congruenceINS_8z_numberEEmiERKS2_)
//@check id=mul fn=_ZNK4ikos10congruenceINS_8z_numberEEmlERKS2_ props=C08 defs=ZM_SMALL=16,ZBITS=3 replace=_ZN4ikos10congruenceINS_8z_numberEEC2ES1_S1_,_ZNK4ikos10congruenceINS_8z_numberEE3gcdES1_S1_S1_ backends=minisat,kissat first_timeout=400 timeout=600 bounded="bit-precise small arithmetic: operands below 2^3 in magnitude only"
CBIN(mul, _ZNK4ikos10congruenceINS_8z_numberEEmlERKS2_)
//@check id=div fn=_ZNK4ikos10congruenceINS_8z_numberEEdvERKS2_ props=C08 defs=ZM_SMALL=16,ZBITS=3 replace=_ZN4ikos10congruenceINS_8z_numberEEC2ES1_S1_ backends=minisat,kissat first_timeout=400 timeout=600 bounded="bit-precise small arithmetic: operands below 2^3 in magnitude only"
CBIN(div, _ZNK4ikos10congruenceINS_8z_numberEEdvERKS2_)
//@check id=rem fn=_ZNK4ikos10congruenceINS_8z_numberEErmERKS2_ props=C08 defs=ZM_SMALL=16,ZBITS=3 replace=_ZN4ikos10congruenceINS_8z_numberEEC2ES1_S1_,_ZNK4ikos10congruenceINS_8z_numberEE3gcdES1_S1_,_ZNK4ikos10congruenceINS_8z_numberEE3gcdES1_S1_S1_ backends=minisat,kissat first_timeout=400 timeout=600 bounded="bit-precise small arithmetic: operands below 2^3 in magnitude only"
CBIN(rem, _ZNK4ikos10congruenceINS_8z_numberEErmERKS2_)
//@check id=sdiv fn=_ZNK4ikos10congruenceINS_8z_numberEE4SDivERKS2_ props=C08 defs=ZM_SMALL=16,ZBITS=3 replace=_ZN4ikos10congruenceINS_8z_numberEEC2ES1_S1_ backends=minisat,kissat first_timeout=400 timeout=600 bounded="bit-precise small arithmetic: operands below 2^3 in magnitude only"
CBINP(sdiv, div, _ZNK4ikos10congruenceINS_8z_numberEE4SDivERKS2_, 1)
//@check id=srem fn=_ZNK4ikos10congruenceINS_8z_numberEE4SRemERKS2_ props=C08 defs=ZM_SMALL=16,ZBITS=3 replace=_ZN4ikos10congruenceINS_8z_numberEEC2ES1_S1_,_ZNK4ikos10congruenceINS_8z_numberEE3gcdES1_S1_,_ZNK4ikos10congruenceINS_8z_numberEE3gcdES1_S1_S1_ backends=minisat,kissat first_timeout=400 timeout=600 bounded="bit-precise small arithmetic: operands below 2^3 in magnitude only"
CBINP(srem, rem, _ZNK4ikos10congruenceINS_8z_numberEE4SRemERKS2_, 1)
//@check id=udiv fn=_ZNK4ikos10congruenceINS_8z_numberEE4UDivERKS2_ props=C08
CBIN(udiv, _ZNK4ikos10congruenceINS_8z_numberEE4UDivERKS2_)
//@check id=urem fn=_ZNK4ikos10congruenceINS_8z_numberEE4URemERKS2_ props=C08
CBIN(urem, _ZNK4ikos10congruenceINS_8z_numberEE4URemERKS2_)

//@check id=neg fn=_ZNK4ikos10congruenceINS_8z_numberEEngEv props=C08 replace=_ZN4ikos10congruenceINS_8z_numberEEC2ES1_S1_ backends=minisat,kissat first_timeout=900 timeout=900
//@check id=neg_b fn=_ZNK4ikos10congruenceINS_8z_numberEEngEv tag=neg harness=h_neg props=C08 defs=ZM_SMALL=16,ZBITS=3 replace=_ZN4ikos10congruenceINS_8z_numberEEC2ES1_S1_ tier=thorough backends=minisat,kissat first_timeout=400 timeout=600 bounded="bit-precise small arithmetic: operands below 2^3 in magnitude only"
void _ZNK4ikos10congruenceINS_8z_numberEEngEv(C *ret, C *self)
__CPROVER_requires(FRESH(neg, ret, sizeof(C)) && FRESH(neg, self, sizeof(C)) && c_ok(*self) && TOP(neg, GRANGE))
__CPROVER_assigns(*ret)
__CPROVER_ensures(POST_neg(*ret, *self))
__CPROVER_ensures(TOP(neg, SOUND_neg(*ret, *self)));
void h_neg(void){ IN(C, a); HGHOSTS; C r; _ZNK4ikos10congruenceINS_8z_numberEEngEv(&r, &a); REACH; }

/* ---------------------------------------------------------------- bitwise: results are singletons, an operand or top (no lemma) */
//@check id=and fn=_ZNK4ikos10congruenceINS_8z_numberEE3AndERKS2_ props=C08
CBIN(and, _ZNK4ikos10congruenceINS_8z_numberEE3AndERKS2_)
//@check id=or fn=_ZNK4ikos10congruenceINS_8z_numberEE2OrERKS2_ props=C08
CBIN(or, _ZNK4ikos10congruenceINS_8z_numberEE2OrERKS2_)
//@check id=xor fn=_ZNK4ikos10congruenceINS_8z_numberEE3XorERKS2_ props=C08
CBIN(xor, _ZNK4ikos10congruenceINS_8z_numberEE3XorERKS2_)

/* ---------------------------------------------------------------- shifts */
/* Model restriction for Shl: amounts and moduli of the right operand below SHB so that 2^k stays inside the modelled
 * magnitudes. */
#ifndef SHB
#define SHB 20
#endif
//@check id=shl fn=_ZNK4ikos10congruenceINS_8z_numberEE3ShlERKS2_ props=C08 defs=ZM_SMALL=32,ZBITS=3,SHB=16,CTBITS=26 replace=_ZN4ikos10congruenceINS_8z_numberEEC2ES1_S1_,_ZNK4ikos10congruenceINS_8z_numberEE3gcdES1_S1_ backends=minisat,kissat first_timeout=400 timeout=600 bounded="bit-precise small arithmetic: operands below 2^3 in magnitude only"
CBINP(shl, shl, _ZNK4ikos10congruenceINS_8z_numberEE3ShlERKS2_, c_a(*x) < SHB && c_b(*x) < SHB && TOP(shl, g_y < SHB))

/* AShr / LShr delegate to interval<z_number>::AShr / LShr on singletons.  The four interval functions they call are
 * defined in lib/interval.cpp, not in this unit: their contracts below are ASSUMED here (listed in unit.json) and are
 * instances, at the single points n and k, of the soundness contracts of the interval unit. */
typedef struct S_class_ikos__interval IV;
static inline bool iv_fin(IV i){ return i.f0.f0 == 0 && i.f1.f0 == 0; }
static inline bool iv_single(IV i, i128 n){ return iv_fin(i) && zraw(i.f0.f1) == n && zraw(i.f1.f1) == n; }
static inline bool iv_flags(IV i){ return i.f0.f0 <= 1 && i.f1.f0 <= 1 && inb(zraw(i.f0.f1), ZLIM) && inb(zraw(i.f1.f1), ZLIM); }
static inline bool iv_has(IV i, i128 v){ return (i.f0.f0 ? zraw(i.f0.f1) < 0 : zraw(i.f0.f1) <= v) && (i.f1.f0 ? zraw(i.f1.f1) > 0 : v <= zraw(i.f1.f1)); }
#define IV_N zraw(self->f0.f1)
#define IV_K zraw(x->f0.f1)
#define IV_SINGLES (iv_single(*self, IV_N) && iv_single(*x, IV_K))
void _ZN4ikos8intervalINS_8z_numberEEC1ES1_(IV *self, Z *n)
__CPROVER_requires(FRESH(iv_ctor, self, sizeof(IV)) && FRESH(iv_ctor, n, sizeof(Z)) && inb(zraw(*n), ZLIM))
__CPROVER_assigns(*self)
__CPROVER_ensures(iv_flags(*self) && iv_single(*self, zraw(*n)));
void _ZNK4ikos8intervalINS_8z_numberEE4AShrERKS2_(IV *ret, IV *self, IV *x)
__CPROVER_requires(FRESH(iv_ashr, ret, sizeof(IV)) && FRESH(iv_ashr, self, sizeof(IV)) && FRESH(iv_ashr, x, sizeof(IV)) && iv_flags(*self) && iv_flags(*x))
__CPROVER_assigns(*ret)
__CPROVER_ensures(iv_flags(*ret) && IMP(IV_SINGLES && IV_K >= 0, iv_has(*ret, fshr(IV_N, IV_K))));
void _ZNK4ikos8intervalINS_8z_numberEE4LShrERKS2_(IV *ret, IV *self, IV *x)
__CPROVER_requires(FRESH(iv_lshr, ret, sizeof(IV)) && FRESH(iv_lshr, self, sizeof(IV)) && FRESH(iv_lshr, x, sizeof(IV)) && iv_flags(*self) && iv_flags(*x))
__CPROVER_assigns(*ret)
__CPROVER_ensures(iv_flags(*ret) && IMP(IV_SINGLES && IV_K >= 0 && IV_N >= 0, iv_has(*ret, fshr(IV_N, IV_K))));
void _ZNK4ikos8intervalINS_8z_numberEE9singletonEv(OPT *ret, IV *self)
__CPROVER_requires(FRESH(iv_singleton, ret, sizeof(OPT)) && FRESH(iv_singleton, self, sizeof(IV)) && iv_flags(*self))
__CPROVER_assigns(*ret)
__CPROVER_ensures(opt_some(ret) == (iv_fin(*self) && zraw(self->f0.f1) == zraw(self->f1.f1)) && (opt_some(ret) ==> opt_val(ret) == zraw(self->f0.f1)));
//@check id=ashr fn=_ZNK4ikos10congruenceINS_8z_numberEE4AShrERKS2_ props=C08 replace=_ZN4ikos8intervalINS_8z_numberEEC1ES1_,_ZNK4ikos8intervalINS_8z_numberEE4AShrERKS2_,_ZNK4ikos8intervalINS_8z_numberEE9singletonEv
CBIN(ashr, _ZNK4ikos10congruenceINS_8z_numberEE4AShrERKS2_)
//@check id=lshr fn=_ZNK4ikos10congruenceINS_8z_numberEE4LShrERKS2_ props=C08 replace=_ZN4ikos8intervalINS_8z_numberEEC1ES1_,_ZNK4ikos8intervalINS_8z_numberEE4LShrERKS2_,_ZNK4ikos8intervalINS_8z_numberEE9singletonEv
CBIN(lshr, _ZNK4ikos10congruenceINS_8z_numberEE4LShrERKS2_)
