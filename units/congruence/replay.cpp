// Native replay for unit congruence: the real ikos::congruence<z_number> of the working tree, evaluated against the SAME
// postcondition macros (post.h) as the contracts.  Inputs are rebuilt field by field from the counterexample
// (-fno-access-control), also when they violate nothing: a witness always satisfies the contract's precondition.
#include <crab/domains/congruence.hpp>
#include <crab/numbers/bignums.hpp>
#include "replay.h"
#include "post.h"
i128 g_x, g_y, g_d, g_e;
using ikos::z_number;
typedef ikos::congruence<z_number> RC;

static i128 zval(const z_number &z) {                        // exact value of a z_number below 2^126
  z_number a = z < z_number(0) ? -z : z; i128 r = 0, m = 1;
  z_number base(1); base = base << z_number(32);
  while (a > z_number(0)) { r += m * (i128)(int64_t)(a % base); a = a / base; m <<= 32; }
  return z < z_number(0) ? -r : r;
}
static z_number tz(i128 v) {
  bool neg = v < 0; u128 m = neg ? (u128)0 - (u128)v : (u128)v;
  z_number base(1); base = base << z_number(32);
  z_number r(0);
  for (int i = 3; i >= 0; i--) r = r * base + z_number((long)(uint32_t)(m >> (32 * i)));
  return neg ? -r : r;
}
static i128 wz(const Wit &w, const std::string &p) { return (i128)(((u128)w.u(p + ".f0.a.f1") << 64) | (u128)w.u(p + ".f0.a.f0")); }
static RC mkc(const Wit &w, const char *n) {                 // raw object with exactly the witness fields
  RC c; std::string p(n);
  c.m_is_bottom = w.u(p + ".f0") != 0; c.m_a = tz(wz(w, p + ".f1")); c.m_b = tz(wz(w, p + ".f2"));
  return c;
}
static C low(const RC &c) { C s; memset(&s, 0, sizeof s); s.f0 = c.m_is_bottom ? 1 : 0; s.f1 = mkz(zval(c.m_a)); s.f2 = mkz(zval(c.m_b)); return s; }
static void p128(const char *what, i128 v) { printf("%s%s%llu", what, v < 0 ? "-" : "", (unsigned long long)(v < 0 ? -v : v)); }
static void show(const char *what, const RC &c) {
  printf("  %s = %s", what, c.m_is_bottom ? "bottom " : ""); p128("{a=", zval(c.m_a)); p128(", b=", zval(c.m_b)); printf("}\n"); }
static void ghosts(const Wit &w) {
  g_x = w.has("g_x") ? (i128)w.s("g_x") : 0; g_y = w.has("g_y") ? (i128)w.s("g_y") : 0;
  g_d = w.has("g_d") ? (i128)w.s("g_d") : 0; g_e = w.has("g_e") ? (i128)w.s("g_e") : 0;
  p128("  ghosts g_x=", g_x); p128(" g_y=", g_y); p128(" g_d=", g_d); p128(" g_e=", g_e); printf("\n"); }
#define ALIAS(id, of) static Reg reg_alias_##id(#id, replay_##of);

// ---- binary operations: representation invariant, strictness, soundness at the ghost points
#define RBIN(id, op, EXPR) REPLAY(id) { ghosts(wit); RC a = mkc(wit, "a"), b = mkc(wit, "b"); show("self", a); show("x", b); RC r = EXPR; show("result", r); \
  C lr = low(r), la = low(a), lb = low(b); return c_okz(lr, OKZ_##op) && EXTRA_##op(lr, la, lb) && SOUND_##op(lr, la, lb); }
RBIN(join, join, a | b) ALIAS(join_b, join)
RBIN(meet, meet, a & b) ALIAS(meet_b, meet)
RBIN(widen, widen, a || b) ALIAS(widen_b, widen) ALIAS(widen_rank, widen)
RBIN(narrow, narrow, a && b) ALIAS(narrow_b, narrow)
RBIN(add, add, a + b) ALIAS(add_b, add)
RBIN(sub, sub, a - b) ALIAS(sub_b, sub)
RBIN(mul, mul, a * b) ALIAS(mul_b, mul)
RBIN(div, div, a / b) ALIAS(div_b, div)
RBIN(rem, rem, a % b) ALIAS(rem_b, rem)
RBIN(sdiv, div, a.SDiv(b)) RBIN(srem, rem, a.SRem(b)) RBIN(udiv, udiv, a.UDiv(b)) RBIN(urem, urem, a.URem(b))
RBIN(and, and, a.And(b)) RBIN(or, or, a.Or(b)) RBIN(xor, xor, a.Xor(b))
RBIN(shl, shl, a.Shl(b)) RBIN(ashr, ashr, a.AShr(b)) RBIN(lshr, lshr, a.LShr(b))
REPLAY(neg) { ghosts(wit); RC a = mkc(wit, "a"); show("self", a); RC r = -a; show("result", r); C lr = low(r), la = low(a); return POST_neg(lr, la) && SOUND_neg(lr, la); }
ALIAS(neg_b, neg)

// ---- inclusion and equality
static bool leq_common(const Wit &wit, bool exact) {
  ghosts(wit); RC a = mkc(wit, "a"), b = mkc(wit, "b"); show("self", a); show("x", b); bool r = a <= b; printf("  result = %d\n", r);
  C la = low(a), lb = low(b);
  return SOUND_leq(r, la, lb) && IMP(c_bot(la), r) && IMP(c_top(lb), r) && IMP(c_eq(la, lb), r) && (!exact || r == c_leq(la, lb)); }
REPLAY(leq) { return leq_common(wit, false); } ALIAS(leq_b, leq)
REPLAY(leq_exact) { return leq_common(wit, true); }
REPLAY(leq_refl) { RC a = mkc(wit, "a"); show("x", a); bool r = a <= a; printf("  x <= x = %d\n", r); return r; }
REPLAY(eq) { RC a = mkc(wit, "a"), b = mkc(wit, "b"); show("self", a); show("x", b); bool r = a == b; printf("  result = %d\n", r); return r == c_eq(low(a), low(b)); }
REPLAY(ne) { RC a = mkc(wit, "a"), b = mkc(wit, "b"); show("self", a); show("x", b); bool r = a != b; printf("  result = %d\n", r); return r == !c_eq(low(a), low(b)); }

// ---- queries, constants
REPLAY(is_bottom) { ghosts(wit); RC a = mkc(wit, "a"); show("self", a); bool r = a.is_bottom(); printf("  result = %d\n", r); C la = low(a);
  return r == c_bot(la) && (r ? !c_has(la, g_x) : c_has(la, c_b(la))); }
REPLAY(is_top) { ghosts(wit); RC a = mkc(wit, "a"); show("self", a); bool r = a.is_top(); printf("  result = %d\n", r); C la = low(a);
  return r == c_top(la) && (!r || c_has(la, g_x)); }
REPLAY(is_top_of_bottom) { RC b = RC::bottom(); show("bottom()", b); bool r = b.is_top(); printf("  bottom().is_top() = %d\n", r); return !r; }
REPLAY(is_top_of_top) { RC t = RC::top(); show("top()", t); return t.is_top(); }
REPLAY(is_bottom_of_bottom) { return RC::bottom().is_bottom(); }
REPLAY(is_bottom_of_top) { return !RC::top().is_bottom(); }
REPLAY(top) { ghosts(wit); RC t = RC::top(); show("top()", t); C l = low(t); return c_ok(l) && c_top(l) && !c_bot(l) && c_b(l) == 0 && c_has(l, g_x); }
REPLAY(bottom) { ghosts(wit); RC t = RC::bottom(); show("bottom()", t); C l = low(t); return c_ok(l) && c_bot(l) && !c_top(l) && c_a(l) == 1 && c_b(l) == 0 && !c_has(l, g_x); }
REPLAY(is_zero) { ghosts(wit); RC a = mkc(wit, "a"); show("self", a); bool r = a.is_zero(); C la = low(a); return r == (c_single(la) && c_b(la) == 0) && (!r || (c_has(la, g_x) == (g_x == 0))); }
REPLAY(all_ones) { ghosts(wit); RC a = mkc(wit, "a"); show("self", a); bool r = a.all_ones(); C la = low(a); return r == (c_single(la) && c_b(la) == -1) && (!r || (c_has(la, g_x) == (g_x == -1))); }
REPLAY(get_modulo) { RC a = mkc(wit, "a"); return zval(a.get_modulo()) == c_a(low(a)); }
REPLAY(get_remainder) { RC a = mkc(wit, "a"); return zval(a.get_remainder()) == c_b(low(a)); }
REPLAY(singleton) { ghosts(wit); RC a = mkc(wit, "a"); show("self", a); boost::optional<z_number> r = a.singleton(); C la = low(a);
  return (bool)r == c_single(la) && (!r || (zval(*r) == c_b(la) && (c_has(la, g_x) == (g_x == zval(*r))))); }

// ---- constructors, normal form
REPLAY(ctor_ab) { ghosts(wit); i128 a = wz(wit, "a"), b = wz(wit, "b"); p128("  a=", a); p128(" b=", b); printf("\n"); RC r(tz(a), tz(b)); show("result", r); C lr = low(r);
  return POST_ctor_ab(lr, a, b) && SOUND_ctor_ab(lr, a, b); }
ALIAS(ctor_ab_b, ctor_ab)
REPLAY(normalize) { ghosts(wit); RC c = mkc(wit, "a"); show("self", c); C o = low(c); c.normalize(); show("self'", c); C l = low(c);
  return c_okz(l, CTB) && l.f0 == o.f0 && c_a(l) == iabs(c_a(o)) && c_b(l) == (c_a(o) == 0 ? c_b(o) : fmod_(c_b(o), c_a(o)))
      && ab_has(c_a(l), c_b(l), g_x) == ab_has(c_a(o), c_b(o), g_x); }
ALIAS(normalize_b, normalize)
REPLAY(ctor_default) { RC r; show("result", r); C l = low(r); return c_ok(l) && c_top(l) && c_b(l) == 0; }
REPLAY(ctor_n) { ghosts(wit); i128 n = wz(wit, "n"); RC r(tz(n)); show("result", r); C l = low(r); return c_okz(l, ZLIM) && c_single(l) && c_b(l) == n && (c_has(l, g_x) == (g_x == n)); }
REPLAY(ctor_int) { int n = (int)(int32_t)wit.u("n"); RC r(n); show("result", r); C l = low(r); return c_ok(l) && c_single(l) && c_b(l) == (i128)n; }
REPLAY(ctor_bool) { bool b = wit.u("b") != 0; RC r(b); show("result", r); C l = low(r); return c_ok(l) && (b ? c_top(l) : c_bot(l)) && c_a(l) == 1 && c_b(l) == 0; }

// ---- gcd / lcm helpers (the ghost clauses are evaluated at the witness ghosts)
static bool is_gcd(i128 r, i128 x, i128 y) { return r >= 0 && dvd(r, x) && dvd(r, y) && ((r == 0) == (x == 0 && y == 0)) && IMP(x != 0, r <= iabs(x)) && IMP(y != 0, r <= iabs(y)) && IMP(dvd(g_d, x) && dvd(g_d, y), dvd(g_d, r)) && IMP(dvd(g_e, r), dvd(g_e, x) && dvd(g_e, y)); }
REPLAY(gcd2) { ghosts(wit); i128 a = wz(wit, "a"), b = wz(wit, "b"); RC c; i128 r = zval(c.gcd(tz(a), tz(b))); p128("  gcd(", a); p128(", ", b); p128(") = ", r); printf("\n"); return is_gcd(r, a, b); }
ALIAS(gcd2_b, gcd2) ALIAS(gcd2_unwound, gcd2)
REPLAY(gcd3) { ghosts(wit); i128 a = wz(wit, "a"), b = wz(wit, "b"), c3 = wz(wit, "c"); RC c; i128 r = zval(c.gcd(tz(a), tz(b), tz(c3))); p128("  gcd3 = ", r); printf("\n");
  return r >= 0 && dvd(r, a) && dvd(r, b) && dvd(r, c3) && ((r == 0) == (a == 0 && b == 0 && c3 == 0)) && IMP(dvd(g_d, a) && dvd(g_d, b) && dvd(g_d, c3), dvd(g_d, r)); }
ALIAS(gcd3_b, gcd3)
REPLAY(lcm) { ghosts(wit); i128 a = wz(wit, "a"), b = wz(wit, "b"); RC c; i128 r = zval(c.lcm(tz(a), tz(b))); p128("  lcm = ", r); printf("\n");
  return r > 0 && dvd(a, r) && dvd(b, r) && r >= iabs(a) && r >= iabs(b) && IMP(dvd(a, g_d) && dvd(b, g_d), dvd(r, g_d)); }
int main(int argc, char **argv) { return replay_main(argc, argv); }
