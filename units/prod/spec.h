/* Specification vocabulary for crab::domains::basic_domain_product2<D1,D2> (combined_domains.hpp): the product of two
 * arbitrary lattices with a canonical bottom flag -- C04 anchor "component-wise order and canonical bottom in products".
 * D1 / D2 are GHOST component domains: opaque handles whose operations are uninterpreted symbols constrained only by the
 * LATTICE HYPOTHESES a component must satisfy for C04 / C05 to make sense, instantiated at the ghost concrete point g_x
 * (pmodel.c); they are the universally quantified parameter of the proof.
 * P = { f0 v-table pointer, f1 m_is_bottom, f2 m_first, f3 m_second }. */
#ifndef PROD_SPEC_H
#define PROD_SPEC_H
#include "verif.h"
#ifndef __cplusplus
#include "unit_types.h"
typedef struct S_class_crab__domains__basic_domain_product2 P;
typedef struct S_struct_D1 D1;
typedef struct S_struct_D2 D2;
extern const struct anon_82f23bd9d1 _ZTVN4crab7domains21basic_domain_product2I2D12D2EE;
#define P_VPTR ((void *)&_ZTVN4crab7domains21basic_domain_product2I2D12D2EE.f0.a[2])
extern uint64_t g_x;                                                 /* the ghost concrete point */
uint64_t __CPROVER_uninterpreted_pd_in(uint64_t, uint64_t, uint64_t);   /* (component, value, point): bit 0 = membership */
uint64_t __CPROVER_uninterpreted_pd_bot(uint64_t, uint64_t);
uint64_t __CPROVER_uninterpreted_pd_top(uint64_t, uint64_t);
uint64_t __CPROVER_uninterpreted_pd_leq(uint64_t, uint64_t, uint64_t);
uint64_t __CPROVER_uninterpreted_pd_join(uint64_t, uint64_t, uint64_t);
uint64_t __CPROVER_uninterpreted_pd_meet(uint64_t, uint64_t, uint64_t);
uint64_t __CPROVER_uninterpreted_pd_widen(uint64_t, uint64_t, uint64_t);
uint64_t __CPROVER_uninterpreted_pd_narrow(uint64_t, uint64_t, uint64_t);
uint64_t __CPROVER_uninterpreted_pd_const(uint64_t, uint64_t);          /* (component, 0 = bottom value / 1 = top value) */
#define D_IN(k, v) ((__CPROVER_uninterpreted_pd_in(k, v, g_x) & 1) != 0)
#define D_BOT(k, v) ((__CPROVER_uninterpreted_pd_bot(k, v) & 1) != 0)
#define D_TOP(k, v) ((__CPROVER_uninterpreted_pd_top(k, v) & 1) != 0)
#define D_LEQ(k, a, b) ((__CPROVER_uninterpreted_pd_leq(k, a, b) & 1) != 0)
/* concretisation of a product at the ghost point, emptiness and top as the CLASS's meaning dictates */
#define P_IN(p) ((p)->f1 == 0 && D_IN(1, (p)->f2.f0) && D_IN(2, (p)->f3.f0))
#define P_ISBOT(p) ((p)->f1 != 0 || D_BOT(1, (p)->f2.f0) || D_BOT(2, (p)->f3.f0))
#define P_ISTOP(p) (D_TOP(1, (p)->f2.f0) && D_TOP(2, (p)->f3.f0))
/* the same predicates on the entry state (cbmc's __CPROVER_old accepts only plain lvalues) */
#define P_IN_OLD(p) (__CPROVER_old((p)->f1) == 0 && D_IN(1, __CPROVER_old((p)->f2.f0)) && D_IN(2, __CPROVER_old((p)->f3.f0)))
#define P_ISBOT_OLD(p) (__CPROVER_old((p)->f1) != 0 || D_BOT(1, __CPROVER_old((p)->f2.f0)) || D_BOT(2, __CPROVER_old((p)->f3.f0)))
/* representation invariant: real v-table, the flag is a bool, a raised flag means both components were set to bottom */
#define P_OK(p) ((p)->f0.f0 == P_VPTR && (p)->f1 <= 1 && ((p)->f1 == 0 || (D_BOT(1, (p)->f2.f0) && D_BOT(2, (p)->f3.f0))))
#endif
#endif
