/* Contracts for crab::domains::basic_domain_product2<D1,D2> -- property C04 (inclusion test, join, meet, is_bottom / is_top of
 * the product agree with the concretisation gamma(p) = gamma1(first) /\ gamma2(second), empty when the bottom flag is up) and
 * C05 (widening covers both arguments, narrowing keeps the common points).  Stated at a ghost concrete point g_x; the
 * virtual calls inside the members (is_bottom(), is_top()) go through the REAL v-table. */
#include "spec.h"
#define PN(s) _ZN4crab7domains21basic_domain_product2I2D12D2E##s
#define PK(s) _ZNK4crab7domains21basic_domain_product2I2D12D2E##s
#define MKP(a) IN(P, a); a.f0.f0 = P_VPTR
#define GX GHOSTG(uint64_t, g_x)

/* is_bottom(): yes exactly when the flag is up or a component is bottom; a yes means the concretisation is empty */
//@check id=p_is_bottom fn=_ZNK4crab7domains21basic_domain_product2I2D12D2E9is_bottomEv props=C04
unsigned char PK(9is_bottomEv)(P *self)
__CPROVER_requires(FRESH(p_is_bottom, self, sizeof(P)) && P_OK(self))
__CPROVER_assigns()
__CPROVER_ensures((__CPROVER_return_value != 0) == P_ISBOT(self))
__CPROVER_ensures(__CPROVER_return_value ==> !P_IN(self));
void h_p_is_bottom(void){ MKP(a); GX; PK(9is_bottomEv)(&a); REACH; }
/* is_top(): a yes means every point is described */
//@check id=p_is_top fn=_ZNK4crab7domains21basic_domain_product2I2D12D2E6is_topEv props=C04
unsigned char PK(6is_topEv)(P *self)
__CPROVER_requires(FRESH(p_is_top, self, sizeof(P)) && P_OK(self))
__CPROVER_assigns()
__CPROVER_ensures((__CPROVER_return_value != 0) == P_ISTOP(self))
__CPROVER_ensures(__CPROVER_return_value ==> P_IN(self));
void h_p_is_top(void){ MKP(a); GX; PK(6is_topEv)(&a); REACH; }
/* set_to_bottom / set_to_top agree with is_bottom / is_top */
//@check id=p_set_bottom fn=_ZN4crab7domains21basic_domain_product2I2D12D2E13set_to_bottomEv props=C04
void PN(13set_to_bottomEv)(P *self)
__CPROVER_requires(FRESH(p_set_bottom, self, sizeof(P)) && P_OK(self))
__CPROVER_assigns(self->f1, self->f2, self->f3)
__CPROVER_ensures(P_OK(self) && P_ISBOT(self) && !P_IN(self) && !P_ISTOP(self));
void h_p_set_bottom(void){ MKP(a); GX; PN(13set_to_bottomEv)(&a); REACH; }
//@check id=p_set_top fn=_ZN4crab7domains21basic_domain_product2I2D12D2E10set_to_topEv props=C04
void PN(10set_to_topEv)(P *self)
__CPROVER_requires(FRESH(p_set_top, self, sizeof(P)) && P_OK(self))
__CPROVER_assigns(self->f1, self->f2, self->f3)
__CPROVER_ensures(P_OK(self) && P_ISTOP(self) && P_IN(self) && !P_ISBOT(self));
void h_p_set_top(void){ MKP(a); GX; PN(10set_to_topEv)(&a); REACH; }
//@check id=p_make_bottom fn=_ZNK4crab7domains21basic_domain_product2I2D12D2E11make_bottomEv props=C04
void PK(11make_bottomEv)(P *ret, P *self)
__CPROVER_requires(FRESH(p_make_bottom, ret, sizeof(P)) && FRESH(p_make_bottom, self, sizeof(P)) && P_OK(self))
__CPROVER_assigns(*ret)
__CPROVER_ensures(P_OK(ret) && P_ISBOT(ret) && !P_IN(ret));
void h_p_make_bottom(void){ MKP(a); GX; P r; PK(11make_bottomEv)(&r, &a); REACH; }
//@check id=p_make_top fn=_ZNK4crab7domains21basic_domain_product2I2D12D2E8make_topEv props=C04
void PK(8make_topEv)(P *ret, P *self)
__CPROVER_requires(FRESH(p_make_top, ret, sizeof(P)) && FRESH(p_make_top, self, sizeof(P)) && P_OK(self))
__CPROVER_assigns(*ret)
__CPROVER_ensures(P_OK(ret) && P_ISTOP(ret) && P_IN(ret));
void h_p_make_top(void){ MKP(a); GX; P r; PK(8make_topEv)(&r, &a); REACH; }
/* canonicalize(): the described set does not change; afterwards the flag tells whether the value is bottom */
//@check id=p_canonicalize fn=_ZN4crab7domains21basic_domain_product2I2D12D2E12canonicalizeEv props=C04
void PN(12canonicalizeEv)(P *self)
__CPROVER_requires(FRESH(p_canonicalize, self, sizeof(P)) && P_OK(self))
__CPROVER_assigns(self->f1, self->f2, self->f3)
__CPROVER_ensures(P_OK(self) && P_IN(self) == P_IN_OLD(self) && (self->f1 != 0) == P_ISBOT_OLD(self) && P_ISBOT(self) == P_ISBOT_OLD(self));
void h_p_canonicalize(void){ MKP(a); GX; PN(12canonicalizeEv)(&a); REACH; }

/* operator<= : bottom on the left => yes; top on the right => yes (unless ... no exception); a yes => inclusion */
//@check id=p_leq fn=_ZNK4crab7domains21basic_domain_product2I2D12D2EleERKS4_ props=C04
unsigned char PK(leERKS4_)(P *self, P *other)
__CPROVER_requires(FRESH(p_leq, self, sizeof(P)) && FRESH(p_leq, other, sizeof(P)) && P_OK(self) && P_OK(other))
__CPROVER_assigns()
__CPROVER_ensures(P_ISBOT(self) ==> __CPROVER_return_value)
__CPROVER_ensures((P_ISTOP(other) && !P_ISBOT(other)) ==> __CPROVER_return_value)
__CPROVER_ensures((__CPROVER_return_value && P_IN(self)) ==> P_IN(other));
void h_p_leq(void){ MKP(a); MKP(b); GX; PK(leERKS4_)(&a, &b); REACH; }
/* x <= x */
//@check id=p_leq_refl fn=_ZNK4crab7domains21basic_domain_product2I2D12D2EleERKS4_ tag=p_leq props=C04
void h_p_leq_refl(void){ MKP(a); GX; unsigned char r = PK(leERKS4_)(&a, &a); __CPROVER_assert(r, "x <= x"); REACH; }
/* operator| and |= : the result describes at least the points of both operands */
//@check id=p_join fn=_ZNK4crab7domains21basic_domain_product2I2D12D2EorERKS4_ props=C04
void PK(orERKS4_)(P *ret, P *self, P *other)
__CPROVER_requires(FRESH(p_join, ret, sizeof(P)) && FRESH(p_join, self, sizeof(P)) && FRESH(p_join, other, sizeof(P)) && P_OK(self) && P_OK(other))
__CPROVER_assigns(*ret)
__CPROVER_ensures(P_OK(ret) && ((P_IN(self) || P_IN(other)) ==> P_IN(ret)));
void h_p_join(void){ MKP(a); MKP(b); GX; P r; PK(orERKS4_)(&r, &a, &b); REACH; }
//@check id=p_join_with fn=_ZN4crab7domains21basic_domain_product2I2D12D2EoRERKS4_ props=C04
void PN(oRERKS4_)(P *self, P *other)
__CPROVER_requires(FRESH(p_join_with, self, sizeof(P)) && FRESH(p_join_with, other, sizeof(P)) && P_OK(self) && P_OK(other))
__CPROVER_assigns(*self)   /* the implicit copy assignment copies the padding too; the v-table pointer is pinned by P_OK */
__CPROVER_ensures(P_OK(self) && ((P_IN_OLD(self) || P_IN(other)) ==> P_IN(self)));
void h_p_join_with(void){ MKP(a); MKP(b); GX; PN(oRERKS4_)(&a, &b); REACH; }
/* operator& and &= : at least the common points */
//@check id=p_meet fn=_ZNK4crab7domains21basic_domain_product2I2D12D2EanERKS4_ props=C04
void PK(anERKS4_)(P *ret, P *self, P *other)
__CPROVER_requires(FRESH(p_meet, ret, sizeof(P)) && FRESH(p_meet, self, sizeof(P)) && FRESH(p_meet, other, sizeof(P)) && P_OK(self) && P_OK(other))
__CPROVER_assigns(*ret)
__CPROVER_ensures(P_OK(ret) && ((P_IN(self) && P_IN(other)) ==> P_IN(ret)));
void h_p_meet(void){ MKP(a); MKP(b); GX; P r; PK(anERKS4_)(&r, &a, &b); REACH; }
//@check id=p_meet_with fn=_ZN4crab7domains21basic_domain_product2I2D12D2EaNERKS4_ props=C04
void PN(aNERKS4_)(P *self, P *other)
__CPROVER_requires(FRESH(p_meet_with, self, sizeof(P)) && FRESH(p_meet_with, other, sizeof(P)) && P_OK(self) && P_OK(other))
__CPROVER_assigns(*self)
__CPROVER_ensures(P_OK(self) && ((P_IN_OLD(self) && P_IN(other)) ==> P_IN(self)));
void h_p_meet_with(void){ MKP(a); MKP(b); GX; PN(aNERKS4_)(&a, &b); REACH; }
/* C05: widening describes at least the points of both arguments; narrowing keeps the common points */
//@check id=p_widen fn=_ZNK4crab7domains21basic_domain_product2I2D12D2EooERKS4_ props=C05
void PK(ooERKS4_)(P *ret, P *self, P *other)
__CPROVER_requires(FRESH(p_widen, ret, sizeof(P)) && FRESH(p_widen, self, sizeof(P)) && FRESH(p_widen, other, sizeof(P)) && P_OK(self) && P_OK(other))
__CPROVER_assigns(*ret)
__CPROVER_ensures(P_OK(ret) && ((P_IN(self) || P_IN(other)) ==> P_IN(ret)));
void h_p_widen(void){ MKP(a); MKP(b); GX; P r; PK(ooERKS4_)(&r, &a, &b); REACH; }
//@check id=p_narrow fn=_ZNK4crab7domains21basic_domain_product2I2D12D2EaaERKS4_ props=C05
void PK(aaERKS4_)(P *ret, P *self, P *other)
__CPROVER_requires(FRESH(p_narrow, ret, sizeof(P)) && FRESH(p_narrow, self, sizeof(P)) && FRESH(p_narrow, other, sizeof(P)) && P_OK(self) && P_OK(other))
__CPROVER_assigns(*ret)
__CPROVER_ensures(P_OK(ret) && ((P_IN(self) && P_IN(other)) ==> P_IN(ret)));
void h_p_narrow(void){ MKP(a); MKP(b); GX; P r; PK(aaERKS4_)(&r, &a, &b); REACH; }
