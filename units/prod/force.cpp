// Forcing TU for crab::domains::basic_domain_product2<D1,D2> (include/crab/domains/combined_domains.hpp): the product of
// two ARBITRARY lattices with the canonical bottom.  No logic of its own: D1 / D2 are GHOST component domains (opaque
// handles; every operation only DECLARED, modelled on the C side as the universally quantified parameter of the proof),
// the real class template is instantiated explicitly (all members + v-table).
#include <crab/domains/combined_domains.hpp>
struct D1 {
  long id;
  void set_to_top(); void set_to_bottom();
  bool is_bottom() const; bool is_top() const;
  bool operator<=(const D1 &) const;
  void operator|=(const D1 &); D1 operator|(const D1 &) const; D1 operator||(const D1 &) const;
  void operator&=(const D1 &); D1 operator&(const D1 &) const; D1 operator&&(const D1 &) const;
  void write(crab::crab_os &o) const;
  std::string domain_name() const;
};
struct D2 {
  long id;
  void set_to_top(); void set_to_bottom();
  bool is_bottom() const; bool is_top() const;
  bool operator<=(const D2 &) const;
  void operator|=(const D2 &); D2 operator|(const D2 &) const; D2 operator||(const D2 &) const;
  void operator&=(const D2 &); D2 operator&(const D2 &) const; D2 operator&&(const D2 &) const;
  void write(crab::crab_os &o) const;
  std::string domain_name() const;
};
crab::crab_os &operator<<(crab::crab_os &o, const D1 &v);
crab::crab_os &operator<<(crab::crab_os &o, const D2 &v);
template class crab::domains::basic_domain_product2<D1, D2>;
