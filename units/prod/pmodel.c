/* Models for unit prod: the two GHOST component domains.  Every operation is an uninterpreted symbol; the __CPROVER_assume
 * lines are the LATTICE HYPOTHESES on a component (what C04 / C05 demand of every abstract domain), instantiated at the
 * ghost point g_x: is_bottom => empty, is_top => full, <= sound / reflexive / top on the right / bottom on the left, join and
 * widening contain both operands, meet and narrowing contain the common points, set_to_bottom / set_to_top produce a bottom /
 * top value.  They are hypotheses about the PARAMETER of the proof, not about crab code. */
#include "spec.h"
uint64_t g_x;

/* ---- component 1 */
unsigned char _ZNK2D19is_bottomEv(D1 *d){ unsigned char r = D_BOT(1, d->f0); __CPROVER_assume(!r || !D_IN(1, d->f0)); __CPROVER_assume(!r || !D_TOP(1, d->f0)); return r; }
unsigned char _ZNK2D16is_topEv(D1 *d){ unsigned char r = D_TOP(1, d->f0); __CPROVER_assume(!r || D_IN(1, d->f0)); __CPROVER_assume(!r || !D_BOT(1, d->f0)); return r; }
void _ZN2D113set_to_bottomEv(D1 *d){ d->f0 = __CPROVER_uninterpreted_pd_const(1, 0); __CPROVER_assume(D_BOT(1, d->f0) && !D_IN(1, d->f0) && !D_TOP(1, d->f0)); }
void _ZN2D110set_to_topEv(D1 *d){ d->f0 = __CPROVER_uninterpreted_pd_const(1, 1); __CPROVER_assume(D_TOP(1, d->f0) && D_IN(1, d->f0) && !D_BOT(1, d->f0)); }
unsigned char _ZNK2D1leERKS_(D1 *a, D1 *b){ unsigned char r = D_LEQ(1, a->f0, b->f0);
  __CPROVER_assume(!r || !D_IN(1, a->f0) || D_IN(1, b->f0));      /* a yes implies inclusion */
  __CPROVER_assume(a->f0 != b->f0 || r);                                  /* reflexive */
  __CPROVER_assume(!D_TOP(1, b->f0) || r);                            /* top on the right */
  __CPROVER_assume(!D_BOT(1, a->f0) || r);                            /* bottom on the left */
  return r; }
static uint64_t d1_join(uint64_t a, uint64_t b){ uint64_t r = __CPROVER_uninterpreted_pd_join(1, a, b); __CPROVER_assume((!D_IN(1, a) && !D_IN(1, b)) || D_IN(1, r)); return r; }
static uint64_t d1_widen(uint64_t a, uint64_t b){ uint64_t r = __CPROVER_uninterpreted_pd_widen(1, a, b); __CPROVER_assume((!D_IN(1, a) && !D_IN(1, b)) || D_IN(1, r)); return r; }
static uint64_t d1_meet(uint64_t a, uint64_t b){ uint64_t r = __CPROVER_uninterpreted_pd_meet(1, a, b); __CPROVER_assume(!(D_IN(1, a) && D_IN(1, b)) || D_IN(1, r)); return r; }
static uint64_t d1_narrow(uint64_t a, uint64_t b){ uint64_t r = __CPROVER_uninterpreted_pd_narrow(1, a, b); __CPROVER_assume(!(D_IN(1, a) && D_IN(1, b)) || D_IN(1, r)); return r; }
void _ZN2D1oRERKS_(D1 *a, D1 *b){ a->f0 = d1_join(a->f0, b->f0); }
uint64_t _ZNK2D1orERKS_(D1 *a, D1 *b){ return d1_join(a->f0, b->f0); }
uint64_t _ZNK2D1ooERKS_(D1 *a, D1 *b){ return d1_widen(a->f0, b->f0); }
void _ZN2D1aNERKS_(D1 *a, D1 *b){ a->f0 = d1_meet(a->f0, b->f0); }
uint64_t _ZNK2D1anERKS_(D1 *a, D1 *b){ return d1_meet(a->f0, b->f0); }
uint64_t _ZNK2D1aaERKS_(D1 *a, D1 *b){ return d1_narrow(a->f0, b->f0); }
void _ZNK2D15writeERN4crab7crab_osE(D1 *d, void *o){ }
void _ZNK2D111domain_nameB5cxx11Ev(void *ret, D1 *d){ __CPROVER_assert(0, "domain_name is outside the verified members"); __CPROVER_assume(0); }

/* ---- component 2 */
unsigned char _ZNK2D29is_bottomEv(D2 *d){ unsigned char r = D_BOT(2, d->f0); __CPROVER_assume(!r || !D_IN(2, d->f0)); __CPROVER_assume(!r || !D_TOP(2, d->f0)); return r; }
unsigned char _ZNK2D26is_topEv(D2 *d){ unsigned char r = D_TOP(2, d->f0); __CPROVER_assume(!r || D_IN(2, d->f0)); __CPROVER_assume(!r || !D_BOT(2, d->f0)); return r; }
void _ZN2D213set_to_bottomEv(D2 *d){ d->f0 = __CPROVER_uninterpreted_pd_const(2, 0); __CPROVER_assume(D_BOT(2, d->f0) && !D_IN(2, d->f0) && !D_TOP(2, d->f0)); }
void _ZN2D210set_to_topEv(D2 *d){ d->f0 = __CPROVER_uninterpreted_pd_const(2, 1); __CPROVER_assume(D_TOP(2, d->f0) && D_IN(2, d->f0) && !D_BOT(2, d->f0)); }
unsigned char _ZNK2D2leERKS_(D2 *a, D2 *b){ unsigned char r = D_LEQ(2, a->f0, b->f0);
  __CPROVER_assume(!r || !D_IN(2, a->f0) || D_IN(2, b->f0));      /* a yes implies inclusion */
  __CPROVER_assume(a->f0 != b->f0 || r);                                  /* reflexive */
  __CPROVER_assume(!D_TOP(2, b->f0) || r);                            /* top on the right */
  __CPROVER_assume(!D_BOT(2, a->f0) || r);                            /* bottom on the left */
  return r; }
static uint64_t d2_join(uint64_t a, uint64_t b){ uint64_t r = __CPROVER_uninterpreted_pd_join(2, a, b); __CPROVER_assume((!D_IN(2, a) && !D_IN(2, b)) || D_IN(2, r)); return r; }
static uint64_t d2_widen(uint64_t a, uint64_t b){ uint64_t r = __CPROVER_uninterpreted_pd_widen(2, a, b); __CPROVER_assume((!D_IN(2, a) && !D_IN(2, b)) || D_IN(2, r)); return r; }
static uint64_t d2_meet(uint64_t a, uint64_t b){ uint64_t r = __CPROVER_uninterpreted_pd_meet(2, a, b); __CPROVER_assume(!(D_IN(2, a) && D_IN(2, b)) || D_IN(2, r)); return r; }
static uint64_t d2_narrow(uint64_t a, uint64_t b){ uint64_t r = __CPROVER_uninterpreted_pd_narrow(2, a, b); __CPROVER_assume(!(D_IN(2, a) && D_IN(2, b)) || D_IN(2, r)); return r; }
void _ZN2D2oRERKS_(D2 *a, D2 *b){ a->f0 = d2_join(a->f0, b->f0); }
uint64_t _ZNK2D2orERKS_(D2 *a, D2 *b){ return d2_join(a->f0, b->f0); }
uint64_t _ZNK2D2ooERKS_(D2 *a, D2 *b){ return d2_widen(a->f0, b->f0); }
void _ZN2D2aNERKS_(D2 *a, D2 *b){ a->f0 = d2_meet(a->f0, b->f0); }
uint64_t _ZNK2D2anERKS_(D2 *a, D2 *b){ return d2_meet(a->f0, b->f0); }
uint64_t _ZNK2D2aaERKS_(D2 *a, D2 *b){ return d2_narrow(a->f0, b->f0); }
void _ZNK2D25writeERN4crab7crab_osE(D2 *d, void *o){ }
void _ZNK2D211domain_nameB5cxx11Ev(void *ret, D2 *d){ __CPROVER_assert(0, "domain_name is outside the verified members"); __CPROVER_assume(0); }
