// Forcing TU for ikos::separate_domain<Key,Value> (include/crab/domains/separate_domains.hpp).
// No logic of its own: a trivial indexable key K, an opaque GHOST value type GV whose lattice operations
// are only DECLARED (they are external functions for the verifier: units/sepdom/gvmodel.c gives them
// uninterpreted meanings), an opaque thresholds type TS, the explicit instantiation of the real class
// and one-line shims for the member template and for private members that nothing else names.
#include <crab/domains/separate_domains.hpp>
struct K : public crab::indexable {
  ikos::index_t i;
  K(ikos::index_t x) : i(x) {}
  ikos::index_t index() const override { return i; }
  void write(crab::crab_os &o) const override {}
  bool operator<(const K &o) const { return i < o.i; }
  bool operator==(const K &o) const { return i == o.i; }
};
struct TS;  // thresholds: opaque
struct GV { // ghost lattice value: an opaque handle, every operation external
  long id;
  static GV top();
  static GV bottom();
  bool is_top() const;
  bool is_bottom() const;
  GV operator|(const GV &) const;
  GV operator&(const GV &) const;
  GV operator||(const GV &) const;
  GV operator&&(const GV &) const;
  GV widening_thresholds(const GV &, const TS &) const;
  bool operator<=(const GV &) const;
  bool operator==(const GV &) const;
  void write(crab::crab_os &o) const;
};
crab::crab_os &operator<<(crab::crab_os &o, const GV &v);
crab::crab_os &operator<<(crab::crab_os &o, const K &v);
template class ikos::separate_domain<K, GV>;
// the set containers built on the same trees (discrete_domains.hpp, patricia_trees.hpp), instantiated BY USE:
//  * patricia_tree_set<K> cannot be instantiated explicitly: its operator+(const Element&) and
//    operator-(const Element&) do not compile (an lvalue tree is passed to the rvalue-only private
//    constructor), see pending_fixes/sepdom-2-*;
//  * union / intersection / insertion go through binary_op<K,bool>::apply, which returns the 3-byte
//    std::pair<bool, boost::optional<bool>> in an i24 register: tools/ll2c.py carries it in a uint32_t
//    (byte 0 = first, byte 1 = optional::m_initialized, byte 2 = the bool), see contracts_setops.c.
typedef ikos::separate_domain<K, GV> SD;
typedef ikos::patricia_tree_set<K> PS;
typedef ikos::discrete_domain<K> DD;
extern "C" {
bool ps_subset(const PS *a, const PS *b) { return *a <= *b; }
bool ps_superset(const PS *a, const PS *b) { return *a >= *b; }
bool ps_equal(const PS *a, const PS *b) { return *a == *b; }
bool ps_member(const PS *a, const K *e) { return (*a)[*e]; }
void ps_remove(PS *a, const K *e) { *a -= *e; }
bool ps_empty(const PS *a) { return a->empty(); }
std::size_t ps_size(const PS *a) { return a->size(); }
void dd_top(DD *r) { new (r) DD(DD::top()); }
void dd_bottom(DD *r) { new (r) DD(DD::bottom()); }
bool dd_is_top(const DD *a) { return a->is_top(); }
bool dd_is_bottom(const DD *a) { return a->is_bottom(); }
bool dd_leq(const DD *a, const DD *b) { return *a <= *b; }
bool dd_equal(const DD *a, const DD *b) { return *a == *b; }
bool dd_contain(DD *a, const K *e) { return a->contain(*e); }
void dd_remove(DD *a, const K *e) { *a -= *e; }
// union / intersection / insertion (instantiates union_op, intersection_op and patricia_tree<K,bool>::merge_with / insert)
void ps_union(PS *r, const PS *a, const PS *b) { new (r) PS(*a | *b); }
void ps_inter(PS *r, const PS *a, const PS *b) { new (r) PS(*a & *b); }
void ps_union_with(PS *a, const PS *b) { *a |= *b; }
void ps_inter_with(PS *a, const PS *b) { *a &= *b; }
void ps_insert(PS *a, const K *e) { *a += *e; }
void dd_union(DD *r, const DD *a, const DD *b) { new (r) DD(*a | *b); }
void dd_inter(DD *r, const DD *a, const DD *b) { new (r) DD(*a & *b); }
void dd_union_with(DD *a, const DD *b) { *a |= *b; }
void dd_insert(DD *a, const K *e) { *a += *e; }
void dd_plus(DD *r, DD *a, const K *e) { new (r) DD(*a + *e); }
void dd_minus(DD *r, DD *a, const K *e) { new (r) DD(*a - *e); }
void sd_widening_thresholds(SD *r, const SD *a, const SD *b, const TS *ts) { *r = a->widening_thresholds(*b, *ts); }
}
