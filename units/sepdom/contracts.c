/* Contracts for ikos::separate_domain<K,GV> (separate_domains.hpp) — the environment layer of C19 / C04 / C05.
 * PROVED: the real separate_domain code (flag logic, which tree operation with which operation object, what is
 * done with its result) and the real operation objects join_op, widening_op, widening_thresholds_op, meet_op,
 * narrowing_op, domain_po; the set containers patricia_tree_set / discrete_domain (contracts_set.c, contracts_setops.c).
 * ASSUMED (replace=, never enforced; listed in unit.json): the patricia_tree member functions, as a finite
 * map known through uninterpreted observers of the root pointer (spec.h), and shared_ptr ownership plumbing
 * (copy / move / destroy of a patricia_tree only move the root pointer around). */
#include "spec.h"
#define SDN(x) _ZN4ikos15separate_domainI1K2GVSt8equal_toIS2_EE##x
#define SDK(x) _ZNK4ikos15separate_domainI1K2GVSt8equal_toIS2_EE##x
#define PTN(x) _ZN4ikos13patricia_treeI1K2GVSt8equal_toIS2_EE##x
#define PTK(x) _ZNK4ikos13patricia_treeI1K2GVSt8equal_toIS2_EE##x
uint64_t g_k;      /* ghost key: an arbitrary OTHER key at which finite-map facts are instantiated */

/* ===================== ASSUMED: patricia_tree<K,GV> as a finite map ===================== */
/* copy constructor: the copy denotes the same map (shares the root) */
void PTN(C2ERKS5_)(PT *self, PT *o)
__CPROVER_requires(FRESH(pt_copy, self, sizeof(PT)) && FRESH(pt_copy, o, sizeof(PT)))
__CPROVER_assigns(*self)
__CPROVER_ensures(ROOT(*self) == ROOT(*o));
/* move constructor: the target takes the map, the source stays a valid (unspecified) tree */
void PTN(C2EOS5_)(PT *self, PT *o)
__CPROVER_requires(FRESH(pt_move, self, sizeof(PT)) && FRESH(pt_move, o, sizeof(PT)))
__CPROVER_assigns(*self, *o)
__CPROVER_ensures(ROOT(*self) == (void *)__CPROVER_old(o->f0.f0.f0));
/* move assignment */
PT *PTN(aSEOS5_)(PT *self, PT *o)
__CPROVER_requires(FRESH(pt_massign, self, sizeof(PT)) && FRESH(pt_massign, o, sizeof(PT)))
__CPROVER_assigns(*self, *o)
__CPROVER_ensures(__CPROVER_return_value == self && ROOT(*self) == (void *)__CPROVER_old(o->f0.f0.f0));
/* destructor: releases ownership, no map changes meaning */
void PTN(D2Ev)(PT *self)
__CPROVER_requires(FRESH(pt_dtor, self, sizeof(PT)))
__CPROVER_assigns()
__CPROVER_ensures(1);
/* size(): number of bindings; the empty shared_ptr is the empty map, and the only tree without bindings */
uint64_t PTK(4sizeEv)(PT *self)
__CPROVER_requires(FRESH(pt_size, self, sizeof(PT)))
__CPROVER_assigns()
__CPROVER_ensures(__CPROVER_return_value == M_size(ROOT(*self)))
__CPROVER_ensures((ROOT(*self) == 0) == (__CPROVER_return_value == 0));   /* a non-null tree is a leaf (1) or a node (>= 2) */
/* leq(t, po): the tree order for the partial-order class of po.  Two facts about tree::compare are assumed on
 * top: a tree is below itself (compare returns true on identical roots), and with default_is_top (domain_po)
 * every tree is below the empty tree. */
unsigned char PTK(3leqERKS5_RNS_13partial_orderIS2_EE)(PT *self, PT *t, PORD *po)
__CPROVER_requires(FRESH(pt_leq, self, sizeof(PT)) && FRESH(pt_leq, t, sizeof(PT)) && FRESH(pt_leq, po, sizeof(PORD)))
__CPROVER_assigns()
__CPROVER_ensures(__CPROVER_return_value == (M_leq(ROOT(*self), ROOT(*t), VPTR(po)) ? 1 : 0))
__CPROVER_ensures(ROOT(*self) != ROOT(*t) || __CPROVER_return_value == 1)
__CPROVER_ensures(!(VPTR(po) == VT_po && ROOT(*t) == 0) || __CPROVER_return_value == 1);
/* merge_with(t, op): returns "bottom"; otherwise *this becomes a merge of the two maps under op's class */
unsigned char PTN(10merge_withERKS5_RNS_9binary_opIS1_S2_EE)(PT *self, PT *t, BOP *op)
__CPROVER_requires(FRESH(pt_merge, self, sizeof(PT)) && FRESH(pt_merge, t, sizeof(PT)) && FRESH(pt_merge, op, sizeof(BOP)))
__CPROVER_assigns(*self)
__CPROVER_ensures(__CPROVER_return_value == (M_mbot((void *)__CPROVER_old(self->f0.f0.f0), ROOT(*t), VPTR(op)) ? 1 : 0))
__CPROVER_ensures(__CPROVER_return_value != 0 || M_merge(ROOT(*self), (void *)__CPROVER_old(self->f0.f0.f0), ROOT(*t), VPTR(op)))
/* tree::merge reports bottom only when some op.apply(..) returned first = true; the apply functions of join_op,
 * widening_op and widening_thresholds_op never do (PROVED below: checks join_apply, widening_apply, wt_apply) */
__CPROVER_ensures(!(VPTR(op) == VT_join || VPTR(op) == VT_widen || VPTR(op) == VT_wt) || __CPROVER_return_value == 0);
/* insert(k, v): k is bound to v, every other key g_k is as before */
void PTN(6insertERKS1_RKS2_)(PT *self, K *key, GV *value)
__CPROVER_requires(FRESH(pt_insert, self, sizeof(PT)) && FRESH(pt_insert, key, sizeof(K)) && FRESH(pt_insert, value, sizeof(GV)))
__CPROVER_assigns(*self)
__CPROVER_ensures(M_has(ROOT(*self), KIDX(key)) && M_val(ROOT(*self), KIDX(key)) == VID(value))
__CPROVER_ensures(g_k == KIDX(key) || (M_has(ROOT(*self), g_k) == M_has((void *)__CPROVER_old(self->f0.f0.f0), g_k) &&
                                        M_val(ROOT(*self), g_k) == M_val((void *)__CPROVER_old(self->f0.f0.f0), g_k)));
/* remove(k): k is unbound, every other key g_k is as before */
void PTN(6removeERKS1_)(PT *self, K *key)
__CPROVER_requires(FRESH(pt_remove, self, sizeof(PT)) && FRESH(pt_remove, key, sizeof(K)))
__CPROVER_assigns(*self)
__CPROVER_ensures(!M_has(ROOT(*self), KIDX(key)))
__CPROVER_ensures(g_k == KIDX(key) || (M_has(ROOT(*self), g_k) == M_has((void *)__CPROVER_old(self->f0.f0.f0), g_k) &&
                                        M_val(ROOT(*self), g_k) == M_val((void *)__CPROVER_old(self->f0.f0.f0), g_k)));
/* lookup(k): the binding of k, if any */
void PTK(6lookupERKS1_)(OPT *ret, PT *self, K *key)
__CPROVER_requires(FRESH(pt_lookup, ret, sizeof(OPT)) && FRESH(pt_lookup, self, sizeof(PT)) && FRESH(pt_lookup, key, sizeof(K)))
__CPROVER_assigns(*ret)
__CPROVER_ensures(ret->f0.f0 <= 1 && opt_some(ret) == M_has(ROOT(*self), KIDX(key)))
__CPROVER_ensures(!opt_some(ret) || opt_val(ret) == M_val(ROOT(*self), KIDX(key)));
/* find(k): pointer to the bound value, or null */
GV *PTK(4findERKS1_)(PT *self, K *key)
__CPROVER_requires(FRESH(pt_find, self, sizeof(PT)) && FRESH(pt_find, key, sizeof(K)))
__CPROVER_assigns()
__CPROVER_ensures((__CPROVER_return_value != 0) == M_has(ROOT(*self), KIDX(key)))
__CPROVER_ensures(__CPROVER_return_value == 0 || (__CPROVER_is_fresh(__CPROVER_return_value, sizeof(GV)) && VID(__CPROVER_return_value) == M_val(ROOT(*self), KIDX(key))));

/* ===================== PROVED: separate_domain<K,GV> ===================== */
#define R_COPY _ZN4ikos13patricia_treeI1K2GVSt8equal_toIS2_EEC2ERKS5_
#define R_MOVE _ZN4ikos13patricia_treeI1K2GVSt8equal_toIS2_EEC2EOS5_

//@check id=is_bottom fn=_ZNK4ikos15separate_domainI1K2GVSt8equal_toIS2_EE9is_bottomEv props=C19,C04
unsigned char SDK(9is_bottomEv)(SD *self)
__CPROVER_requires(FRESH(is_bottom, self, sizeof(SD)) && sd_ok(self))
__CPROVER_assigns()
__CPROVER_ensures(__CPROVER_return_value == (sd_bot(self) ? 1 : 0));
void h_is_bottom(void){ IN(SD, a); SDK(9is_bottomEv)(&a); REACH; }

/* is_top: not bottom and no binding */
//@check id=is_top fn=_ZNK4ikos15separate_domainI1K2GVSt8equal_toIS2_EE6is_topEv props=C19,C04 replace=_ZNK4ikos13patricia_treeI1K2GVSt8equal_toIS2_EE4sizeEv
unsigned char SDK(6is_topEv)(SD *self)
__CPROVER_requires(FRESH(is_top, self, sizeof(SD)) && sd_ok(self))
__CPROVER_assigns()
__CPROVER_ensures(__CPROVER_return_value == ((!sd_bot(self) && M_size(ROOT(self->f1)) == 0) ? 1 : 0))
__CPROVER_ensures(!sd_bot(self) || __CPROVER_return_value == 0);
void h_is_top(void){ IN(SD, a); SDK(6is_topEv)(&a); REACH; }

/* top(): not bottom, empty tree; is_top()/is_bottom() of the REAL code agree */
//@check id=top fn=_ZN4ikos15separate_domainI1K2GVSt8equal_toIS2_EE3topEv props=C19,C04 replace=_ZNK4ikos13patricia_treeI1K2GVSt8equal_toIS2_EE4sizeEv
void SDN(3topEv)(SD *ret)
__CPROVER_requires(FRESH(top, ret, sizeof(SD)))
__CPROVER_assigns(*ret)
__CPROVER_ensures(sd_same(ret, 0, (void *)0));
void h_top(void){ SD r; SDN(3topEv)(&r);
  __CPROVER_assert(SDK(6is_topEv)(&r) == 1, "top().is_top()");
  __CPROVER_assert(SDK(9is_bottomEv)(&r) == 0, "!top().is_bottom()");
  REACH; }

//@check id=bottom fn=_ZN4ikos15separate_domainI1K2GVSt8equal_toIS2_EE6bottomEv props=C19,C04 replace=_ZNK4ikos13patricia_treeI1K2GVSt8equal_toIS2_EE4sizeEv
void SDN(6bottomEv)(SD *ret)
__CPROVER_requires(FRESH(bottom, ret, sizeof(SD)))
__CPROVER_assigns(*ret)
__CPROVER_ensures(sd_same(ret, 1, (void *)0));
void h_bottom(void){ SD r; SDN(6bottomEv)(&r);
  __CPROVER_assert(SDK(9is_bottomEv)(&r) == 1, "bottom().is_bottom()");
  __CPROVER_assert(SDK(6is_topEv)(&r) == 0, "!bottom().is_top()");
  REACH; }

/* set_to_bottom(): bottom flag, empty tree; is_bottom()/is_top() agree */
//@check id=set_to_bottom fn=_ZN4ikos15separate_domainI1K2GVSt8equal_toIS2_EE13set_to_bottomEv props=C19,C04 replace=_ZNK4ikos13patricia_treeI1K2GVSt8equal_toIS2_EE4sizeEv,_ZN4ikos13patricia_treeI1K2GVSt8equal_toIS2_EEaSEOS5_,_ZN4ikos13patricia_treeI1K2GVSt8equal_toIS2_EED2Ev
void SDN(13set_to_bottomEv)(SD *self)
__CPROVER_requires(FRESH(set_to_bottom, self, sizeof(SD)) && sd_ok(self))
__CPROVER_assigns(*self)
__CPROVER_ensures(sd_same(self, 1, (void *)0));
void h_set_to_bottom(void){ IN(SD, a); SDN(13set_to_bottomEv)(&a);
  __CPROVER_assert(SDK(9is_bottomEv)(&a) == 1, "set_to_bottom(); is_bottom()");
  __CPROVER_assert(SDK(6is_topEv)(&a) == 0, "set_to_bottom(); !is_top()");
  REACH; }

/* operator<=: bottom on the left => yes; else bottom on the right => no; else the tree order under domain_po.
 * Consequences (given the assumed facts on tree::compare): yes on equal values, yes with top on the right. */
#define LEQ_SPEC(a, b) (sd_bot(a) ? 1 : (sd_bot(b) ? 0 : (M_leq(ROOT((a)->f1), ROOT((b)->f1), VT_po) ? 1 : 0)))
//@check id=leq fn=_ZNK4ikos15separate_domainI1K2GVSt8equal_toIS2_EEleERKS5_ props=C19,C04 replace=_ZNK4ikos13patricia_treeI1K2GVSt8equal_toIS2_EE3leqERKS5_RNS_13partial_orderIS2_EE
unsigned char SDK(leERKS5_)(SD *self, SD *e)
__CPROVER_requires(FRESH(leq, self, sizeof(SD)) && FRESH(leq, e, sizeof(SD)) && sd_ok(self) && sd_ok(e))
__CPROVER_assigns()
__CPROVER_ensures(__CPROVER_return_value == LEQ_SPEC(self, e))
__CPROVER_ensures(!sd_bot(self) || __CPROVER_return_value == 1)
__CPROVER_ensures(!(!sd_bot(self) && sd_bot(e)) || __CPROVER_return_value == 0)
__CPROVER_ensures(!(self->f0 == e->f0 && ROOT(self->f1) == ROOT(e->f1)) || __CPROVER_return_value == 1)
__CPROVER_ensures(!(!sd_bot(e) && ROOT(e->f1) == 0) || __CPROVER_return_value == 1);
void h_leq(void){ IN(SD, a); IN(SD, b); unsigned char r = SDK(leERKS5_)(&a, &b);
  SATGUARD(a.f0 && r); SATGUARD(!a.f0 && b.f0 && !r); SATGUARD(!a.f0 && !b.f0 && r); SATGUARD(!a.f0 && !b.f0 && !r); REACH; }

/* operator==: inclusion both ways */
//@check id=eq fn=_ZNK4ikos15separate_domainI1K2GVSt8equal_toIS2_EEeqERKS5_ props=C19,C04 replace=_ZNK4ikos13patricia_treeI1K2GVSt8equal_toIS2_EE3leqERKS5_RNS_13partial_orderIS2_EE
unsigned char SDK(eqERKS5_)(SD *self, SD *e)
__CPROVER_requires(FRESH(eq, self, sizeof(SD)) && FRESH(eq, e, sizeof(SD)) && sd_ok(self) && sd_ok(e))
__CPROVER_assigns()
__CPROVER_ensures(__CPROVER_return_value == ((LEQ_SPEC(self, e) && LEQ_SPEC(e, self)) ? 1 : 0))
__CPROVER_ensures(!(self->f0 == e->f0 && ROOT(self->f1) == ROOT(e->f1)) || __CPROVER_return_value == 1);
void h_eq(void){ IN(SD, a); IN(SD, b); unsigned char r = SDK(eqERKS5_)(&a, &b); SATGUARD(r); SATGUARD(!r); REACH; }

/* join-like operations (|, ||, widening_thresholds): bottom is neutral; otherwise the tree merge under the
 * operation object of the right class, never bottom */
#define JOINLIKE_POST(ret, self, e, VTX) \
  (sd_bot(self) ? sd_same(ret, e->f0, ROOT(e->f1)) : \
   sd_bot(e) ? sd_same(ret, self->f0, ROOT(self->f1)) : \
   (!sd_bot(ret) && M_merge(ROOT(ret->f1), ROOT(self->f1), ROOT(e->f1), VTX)))
#define PLUMB _ZN4ikos13patricia_treeI1K2GVSt8equal_toIS2_EEC2ERKS5_,_ZN4ikos13patricia_treeI1K2GVSt8equal_toIS2_EEC2EOS5_,_ZN4ikos13patricia_treeI1K2GVSt8equal_toIS2_EED2Ev
//@check id=join fn=_ZNK4ikos15separate_domainI1K2GVSt8equal_toIS2_EEorERKS5_ props=C19,C04 replace=_ZN4ikos13patricia_treeI1K2GVSt8equal_toIS2_EEC2ERKS5_,_ZN4ikos13patricia_treeI1K2GVSt8equal_toIS2_EEC2EOS5_,_ZN4ikos13patricia_treeI1K2GVSt8equal_toIS2_EED2Ev,_ZN4ikos13patricia_treeI1K2GVSt8equal_toIS2_EE10merge_withERKS5_RNS_9binary_opIS1_S2_EE
void SDK(orERKS5_)(SD *ret, SD *self, SD *e)
__CPROVER_requires(FRESH(join, ret, sizeof(SD)) && FRESH(join, self, sizeof(SD)) && FRESH(join, e, sizeof(SD)) && sd_ok(self) && sd_ok(e))
__CPROVER_assigns(*ret)
__CPROVER_ensures(sd_ok(ret) && JOINLIKE_POST(ret, self, e, VT_join));
void h_join(void){ IN(SD, a); IN(SD, b); SD r; SDK(orERKS5_)(&r, &a, &b);
  SATGUARD(a.f0 && b.f0); SATGUARD(a.f0 && !b.f0); SATGUARD(!a.f0 && b.f0); SATGUARD(!a.f0 && !b.f0); REACH; }

//@check id=widening fn=_ZNK4ikos15separate_domainI1K2GVSt8equal_toIS2_EEooERKS5_ props=C19,C05 replace=_ZN4ikos13patricia_treeI1K2GVSt8equal_toIS2_EEC2ERKS5_,_ZN4ikos13patricia_treeI1K2GVSt8equal_toIS2_EEC2EOS5_,_ZN4ikos13patricia_treeI1K2GVSt8equal_toIS2_EED2Ev,_ZN4ikos13patricia_treeI1K2GVSt8equal_toIS2_EE10merge_withERKS5_RNS_9binary_opIS1_S2_EE
void SDK(ooERKS5_)(SD *ret, SD *self, SD *e)
__CPROVER_requires(FRESH(widening, ret, sizeof(SD)) && FRESH(widening, self, sizeof(SD)) && FRESH(widening, e, sizeof(SD)) && sd_ok(self) && sd_ok(e))
__CPROVER_assigns(*ret)
__CPROVER_ensures(sd_ok(ret) && JOINLIKE_POST(ret, self, e, VT_widen));
void h_widening(void){ IN(SD, a); IN(SD, b); SD r; SDK(ooERKS5_)(&r, &a, &b);
  SATGUARD(a.f0 && b.f0); SATGUARD(a.f0 && !b.f0); SATGUARD(!a.f0 && b.f0); SATGUARD(!a.f0 && !b.f0); REACH; }

//@check id=widening_thresholds fn=_ZNK4ikos15separate_domainI1K2GVSt8equal_toIS2_EE19widening_thresholdsI2TSEES5_RKS5_RKT_ props=C19,C05 replace=_ZN4ikos13patricia_treeI1K2GVSt8equal_toIS2_EEC2ERKS5_,_ZN4ikos13patricia_treeI1K2GVSt8equal_toIS2_EEC2EOS5_,_ZN4ikos13patricia_treeI1K2GVSt8equal_toIS2_EED2Ev,_ZN4ikos13patricia_treeI1K2GVSt8equal_toIS2_EE10merge_withERKS5_RNS_9binary_opIS1_S2_EE
void SDK(19widening_thresholdsI2TSEES5_RKS5_RKT_)(SD *ret, SD *self, SD *e, TS *ts)
__CPROVER_requires(FRESH(widening_thresholds, ret, sizeof(SD)) && FRESH(widening_thresholds, self, sizeof(SD)) && FRESH(widening_thresholds, e, sizeof(SD)) && sd_ok(self) && sd_ok(e))
__CPROVER_assigns(*ret)
__CPROVER_ensures(sd_ok(ret) && JOINLIKE_POST(ret, self, e, VT_wt));
void h_widening_thresholds(void){ IN(SD, a); IN(SD, b); SD r; TS *ts; SDK(19widening_thresholdsI2TSEES5_RKS5_RKT_)(&r, &a, &b, ts);
  SATGUARD(a.f0 && b.f0); SATGUARD(a.f0 && !b.f0); SATGUARD(!a.f0 && b.f0); SATGUARD(!a.f0 && !b.f0); REACH; }

/* meet-like operations (&, &&): bottom is absorbing; a merge that signals bottom gives bottom; otherwise the
 * tree merge under the operation object of the right class */
#define MEETLIKE_POST(ret, self, e, VTX) \
  ((sd_bot(self) || sd_bot(e)) ? sd_same(ret, 1, (void *)0) : \
   M_mbot(ROOT(self->f1), ROOT(e->f1), VTX) ? sd_same(ret, 1, (void *)0) : \
   (!sd_bot(ret) && M_merge(ROOT(ret->f1), ROOT(self->f1), ROOT(e->f1), VTX)))
//@check id=meet fn=_ZNK4ikos15separate_domainI1K2GVSt8equal_toIS2_EEanERKS5_ props=C19,C04 replace=_ZN4ikos13patricia_treeI1K2GVSt8equal_toIS2_EEC2ERKS5_,_ZN4ikos13patricia_treeI1K2GVSt8equal_toIS2_EEC2EOS5_,_ZN4ikos13patricia_treeI1K2GVSt8equal_toIS2_EED2Ev,_ZN4ikos13patricia_treeI1K2GVSt8equal_toIS2_EE10merge_withERKS5_RNS_9binary_opIS1_S2_EE
void SDK(anERKS5_)(SD *ret, SD *self, SD *e)
__CPROVER_requires(FRESH(meet, ret, sizeof(SD)) && FRESH(meet, self, sizeof(SD)) && FRESH(meet, e, sizeof(SD)) && sd_ok(self) && sd_ok(e))
__CPROVER_assigns(*ret)
__CPROVER_ensures(sd_ok(ret) && MEETLIKE_POST(ret, self, e, VT_meet));
void h_meet(void){ IN(SD, a); IN(SD, b); SD r; SDK(anERKS5_)(&r, &a, &b);
  SATGUARD(a.f0); SATGUARD(!a.f0 && b.f0); SATGUARD(!a.f0 && !b.f0 && r.f0); SATGUARD(!a.f0 && !b.f0 && !r.f0); REACH; }

//@check id=narrowing fn=_ZNK4ikos15separate_domainI1K2GVSt8equal_toIS2_EEaaERKS5_ props=C19,C05 replace=_ZN4ikos13patricia_treeI1K2GVSt8equal_toIS2_EEC2ERKS5_,_ZN4ikos13patricia_treeI1K2GVSt8equal_toIS2_EEC2EOS5_,_ZN4ikos13patricia_treeI1K2GVSt8equal_toIS2_EED2Ev,_ZN4ikos13patricia_treeI1K2GVSt8equal_toIS2_EE10merge_withERKS5_RNS_9binary_opIS1_S2_EE
void SDK(aaERKS5_)(SD *ret, SD *self, SD *e)
__CPROVER_requires(FRESH(narrowing, ret, sizeof(SD)) && FRESH(narrowing, self, sizeof(SD)) && FRESH(narrowing, e, sizeof(SD)) && sd_ok(self) && sd_ok(e))
__CPROVER_assigns(*ret)
__CPROVER_ensures(sd_ok(ret) && MEETLIKE_POST(ret, self, e, VT_narrow));
void h_narrowing(void){ IN(SD, a); IN(SD, b); SD r; SDK(aaERKS5_)(&r, &a, &b);
  SATGUARD(a.f0); SATGUARD(!a.f0 && b.f0); SATGUARD(!a.f0 && !b.f0 && r.f0); SATGUARD(!a.f0 && !b.f0 && !r.f0); REACH; }

/* ---- point updates and look-ups: finite-map reading at the updated key and at an arbitrary other key g_k */
#define SAME_AT(self, oldroot, g) (M_has(ROOT((self)->f1), g) == M_has(oldroot, g) && M_val(ROOT((self)->f1), g) == M_val(oldroot, g))
#define OLDROOT(self) ((void *)__CPROVER_old((self)->f1.f0.f0.f0))
#define OLDBOT(self) (__CPROVER_old((self)->f0) != 0)
#define R_SET _ZN4ikos13patricia_treeI1K2GVSt8equal_toIS2_EE6removeERKS1_,_ZN4ikos13patricia_treeI1K2GVSt8equal_toIS2_EE6insertERKS1_RKS2_,_ZN4ikos13patricia_treeI1K2GVSt8equal_toIS2_EEaSEOS5_,_ZN4ikos13patricia_treeI1K2GVSt8equal_toIS2_EED2Ev

/* set(k, v): nothing on bottom; v bottom => the whole map is bottom; v top => k unbound (top is never stored);
 * otherwise k bound to v; every other key unchanged */
//@check id=set fn=_ZN4ikos15separate_domainI1K2GVSt8equal_toIS2_EE3setERKS1_RKS2_ props=C19,C04 replace=_ZN4ikos13patricia_treeI1K2GVSt8equal_toIS2_EE6removeERKS1_,_ZN4ikos13patricia_treeI1K2GVSt8equal_toIS2_EE6insertERKS1_RKS2_,_ZN4ikos13patricia_treeI1K2GVSt8equal_toIS2_EEaSEOS5_,_ZN4ikos13patricia_treeI1K2GVSt8equal_toIS2_EED2Ev
void SDN(3setERKS1_RKS2_)(SD *self, K *k, GV *v)
__CPROVER_requires(FRESH(set, self, sizeof(SD)) && FRESH(set, k, sizeof(K)) && FRESH(set, v, sizeof(GV)) && sd_ok(self))
__CPROVER_assigns(*self)
__CPROVER_ensures(sd_ok(self))
__CPROVER_ensures(!OLDBOT(self) || sd_same(self, 1, OLDROOT(self)))
__CPROVER_ensures(!(!OLDBOT(self) && GV_ISBOT(VID(v))) || sd_same(self, 1, (void *)0))
__CPROVER_ensures(!(!OLDBOT(self) && !GV_ISBOT(VID(v)) && GV_ISTOP(VID(v))) ||
                  (!sd_bot(self) && !M_has(ROOT(self->f1), KIDX(k)) && (g_k == KIDX(k) || SAME_AT(self, OLDROOT(self), g_k))))
__CPROVER_ensures(!(!OLDBOT(self) && !GV_ISBOT(VID(v)) && !GV_ISTOP(VID(v))) ||
                  (!sd_bot(self) && M_has(ROOT(self->f1), KIDX(k)) && M_val(ROOT(self->f1), KIDX(k)) == VID(v) && (g_k == KIDX(k) || SAME_AT(self, OLDROOT(self), g_k))));
void h_set(void){ IN(SD, a); IN(K, k); IN(GV, v); GHOSTG(uint64_t, g_k); SDN(3setERKS1_RKS2_)(&a, &k, &v);
  SATGUARD(wit_a.f0); SATGUARD(!wit_a.f0 && GV_ISBOT(v.f0)); SATGUARD(!wit_a.f0 && !GV_ISBOT(v.f0) && GV_ISTOP(v.f0)); SATGUARD(!wit_a.f0 && !GV_ISBOT(v.f0) && !GV_ISTOP(v.f0) && g_k != k.f1); REACH; }

/* operator-=(k) (forget): nothing on bottom; otherwise k unbound, every other key unchanged; returns *this */
//@check id=forget fn=_ZN4ikos15separate_domainI1K2GVSt8equal_toIS2_EEmIERKS1_ props=C19 replace=_ZN4ikos13patricia_treeI1K2GVSt8equal_toIS2_EE6removeERKS1_
SD *SDN(mIERKS1_)(SD *self, K *k)
__CPROVER_requires(FRESH(forget, self, sizeof(SD)) && FRESH(forget, k, sizeof(K)) && sd_ok(self))
__CPROVER_assigns(*self)
__CPROVER_ensures(__CPROVER_return_value == self && self->f0 == __CPROVER_old(self->f0))
__CPROVER_ensures(!OLDBOT(self) || ROOT(self->f1) == OLDROOT(self))
__CPROVER_ensures(OLDBOT(self) || (!M_has(ROOT(self->f1), KIDX(k)) && (g_k == KIDX(k) || SAME_AT(self, OLDROOT(self), g_k))));
void h_forget(void){ IN(SD, a); IN(K, k); GHOSTG(uint64_t, g_k); SDN(mIERKS1_)(&a, &k); SATGUARD(wit_a.f0); SATGUARD(!wit_a.f0 && g_k != k.f1); REACH; }

/* at(k): bottom map => Value::bottom(); unbound key => Value::top(); otherwise the bound value */
//@check id=at fn=_ZNK4ikos15separate_domainI1K2GVSt8equal_toIS2_EE2atERKS1_ props=C19,C04 replace=_ZNK4ikos13patricia_treeI1K2GVSt8equal_toIS2_EE6lookupERKS1_
uint64_t SDK(2atERKS1_)(SD *self, K *k)
__CPROVER_requires(FRESH(at, self, sizeof(SD)) && FRESH(at, k, sizeof(K)) && sd_ok(self))
__CPROVER_assigns()
__CPROVER_ensures(__CPROVER_return_value == (sd_bot(self) ? GV_BOTID : (M_has(ROOT(self->f1), KIDX(k)) ? M_val(ROOT(self->f1), KIDX(k)) : GV_TOPID)));
void h_at(void){ IN(SD, a); IN(K, k); uint64_t r = SDK(2atERKS1_)(&a, &k);
  SATGUARD(a.f0); SATGUARD(!a.f0 && M_has(ROOT(a.f1), k.f1)); SATGUARD(!a.f0 && !M_has(ROOT(a.f1), k.f1)); REACH; }

/* find(k): null exactly when k is unbound, else a pointer to the bound value */
//@check id=find fn=_ZNK4ikos15separate_domainI1K2GVSt8equal_toIS2_EE4findERKS1_ props=C19 replace=_ZNK4ikos13patricia_treeI1K2GVSt8equal_toIS2_EE4findERKS1_
GV *SDK(4findERKS1_)(SD *self, K *k)
__CPROVER_requires(FRESH(find, self, sizeof(SD)) && FRESH(find, k, sizeof(K)) && sd_ok(self) && !sd_bot(self))
__CPROVER_assigns()
__CPROVER_ensures((__CPROVER_return_value != 0) == M_has(ROOT(self->f1), KIDX(k)))
__CPROVER_ensures(__CPROVER_return_value == 0 || VID(__CPROVER_return_value) == M_val(ROOT(self->f1), KIDX(k)));
void h_find(void){ IN(SD, a); IN(K, k); GV *r = SDK(4findERKS1_)(&a, &k); SATGUARD(r != 0); SATGUARD(r == 0); REACH; }

/* join(k, v) (weak update): nothing on bottom; v bottom => bottom; v top => k unbound; k unbound (= top) stays
 * unbound; otherwise k bound to old | v -- unless that is top, then k is unbound (top is never stored: property C19,
 * 'iteration lists exactly the non-top bindings'); every other key unchanged */
//@check id=join_kv fn=_ZN4ikos15separate_domainI1K2GVSt8equal_toIS2_EE4joinERKS1_RKS2_ props=C19 replace=_ZN4ikos13patricia_treeI1K2GVSt8equal_toIS2_EE6removeERKS1_,_ZN4ikos13patricia_treeI1K2GVSt8equal_toIS2_EE6insertERKS1_RKS2_,_ZN4ikos13patricia_treeI1K2GVSt8equal_toIS2_EEaSEOS5_,_ZN4ikos13patricia_treeI1K2GVSt8equal_toIS2_EED2Ev,_ZNK4ikos13patricia_treeI1K2GVSt8equal_toIS2_EE4findERKS1_
void SDN(4joinERKS1_RKS2_)(SD *self, K *k, GV *v)
__CPROVER_requires(FRESH(join_kv, self, sizeof(SD)) && FRESH(join_kv, k, sizeof(K)) && FRESH(join_kv, v, sizeof(GV)) && sd_ok(self))
__CPROVER_assigns(*self)
__CPROVER_ensures(sd_ok(self))
__CPROVER_ensures(!OLDBOT(self) || sd_same(self, 1, OLDROOT(self)))
__CPROVER_ensures(!(!OLDBOT(self) && GV_ISBOT(VID(v))) || sd_same(self, 1, (void *)0))
__CPROVER_ensures(!(!OLDBOT(self) && !GV_ISBOT(VID(v))) || (!sd_bot(self) && (g_k == KIDX(k) || SAME_AT(self, OLDROOT(self), g_k))))
__CPROVER_ensures(!(!OLDBOT(self) && !GV_ISBOT(VID(v)) && (GV_ISTOP(VID(v)) || !M_has(OLDROOT(self), KIDX(k)))) || !M_has(ROOT(self->f1), KIDX(k)))
__CPROVER_ensures(!(!OLDBOT(self) && !GV_ISBOT(VID(v)) && !GV_ISTOP(VID(v)) && M_has(OLDROOT(self), KIDX(k))) ||
                  (GV_ISTOP(GV_JOIN(M_val(OLDROOT(self), KIDX(k)), VID(v)))
                     ? !M_has(ROOT(self->f1), KIDX(k))      /* C19: top is never stored (the code first stored it: fixed in /repo, see known_findings.json) */
                     : (M_has(ROOT(self->f1), KIDX(k)) && M_val(ROOT(self->f1), KIDX(k)) == GV_JOIN(M_val(OLDROOT(self), KIDX(k)), VID(v)))));
void h_join_kv(void){ IN(SD, a); IN(K, k); IN(GV, v); GHOSTG(uint64_t, g_k); SDN(4joinERKS1_RKS2_)(&a, &k, &v);
  SATGUARD(wit_a.f0); SATGUARD(!wit_a.f0 && GV_ISBOT(v.f0)); SATGUARD(!wit_a.f0 && !GV_ISBOT(v.f0) && GV_ISTOP(v.f0));
  SATGUARD(!wit_a.f0 && !GV_ISBOT(v.f0) && !GV_ISTOP(v.f0) && M_has(ROOT(wit_a.f1), k.f1)); SATGUARD(!wit_a.f0 && !GV_ISBOT(v.f0) && !GV_ISTOP(v.f0) && !M_has(ROOT(wit_a.f1), k.f1)); REACH; }

/* size(): 0 on bottom, number of bindings otherwise; CRAB_ERROR on top (the error exit is legal: allow_error) */
//@check id=size fn=_ZNK4ikos15separate_domainI1K2GVSt8equal_toIS2_EE4sizeEv props=C19 allow_error=1 replace=_ZNK4ikos13patricia_treeI1K2GVSt8equal_toIS2_EE4sizeEv
uint64_t SDK(4sizeEv)(SD *self)
__CPROVER_requires(FRESH(size, self, sizeof(SD)) && sd_ok(self))
__CPROVER_assigns()
__CPROVER_ensures(__CPROVER_return_value == (sd_bot(self) ? 0 : M_size(ROOT(self->f1))))
__CPROVER_ensures(sd_bot(self) || M_size(ROOT(self->f1)) != 0);
void h_size(void){ IN(SD, a); SDK(4sizeEv)(&a); SATGUARD(a.f0); SATGUARD(!a.f0); REACH; }

/* ===================== PROVED: the operation objects handed to the tree ===================== */
/* result_type = pair<bool, optional<Value>>: first = "bottom"; second empty = "top, drop the binding" */
#define PR_BOT(r) ((r)->f0 != 0)
#define PR_SOME(r) opt_some(&(r)->f2)
#define PR_VAL(r) opt_val(&(r)->f2)
/* join-like apply: never bottom; a top result drops the binding, anything else is stored */
#define JOINLIKE_APPLY(tag, fn, OPT_T, Z) \
void fn(PR *ret, OPT_T *self, K *key, GV *x, GV *y) \
__CPROVER_requires(FRESH(tag, ret, sizeof(PR)) && FRESH(tag, self, sizeof(OPT_T)) && FRESH(tag, key, sizeof(K)) && FRESH(tag, x, sizeof(GV)) && FRESH(tag, y, sizeof(GV))) \
__CPROVER_assigns(*ret) \
__CPROVER_ensures(!PR_BOT(ret)) \
__CPROVER_ensures(PR_SOME(ret) == !GV_ISTOP(Z)) \
__CPROVER_ensures(!PR_SOME(ret) || PR_VAL(ret) == (Z)); \
void h_##tag(void){ IN(K, k); IN(GV, x); IN(GV, y); OPT_T o; PR r; fn(&r, &o, &k, &x, &y); SATGUARD(PR_SOME(&r)); SATGUARD(!PR_SOME(&r)); REACH; }
/* meet-like apply: a bottom result signals bottom; anything else is stored */
#define MEETLIKE_APPLY(tag, fn, OPT_T, Z) \
void fn(PR *ret, OPT_T *self, K *key, GV *x, GV *y) \
__CPROVER_requires(FRESH(tag, ret, sizeof(PR)) && FRESH(tag, self, sizeof(OPT_T)) && FRESH(tag, key, sizeof(K)) && FRESH(tag, x, sizeof(GV)) && FRESH(tag, y, sizeof(GV))) \
__CPROVER_assigns(*ret) \
__CPROVER_ensures(PR_BOT(ret) == GV_ISBOT(Z)) \
__CPROVER_ensures(PR_SOME(ret) == !GV_ISBOT(Z)) \
__CPROVER_ensures(!PR_SOME(ret) || PR_VAL(ret) == (Z)); \
void h_##tag(void){ IN(K, k); IN(GV, x); IN(GV, y); OPT_T o; PR r; fn(&r, &o, &k, &x, &y); SATGUARD(PR_SOME(&r)); SATGUARD(!PR_SOME(&r)); REACH; }
#define FLAGFN(tag, fn, OPT_T, VAL) \
unsigned char fn(OPT_T *self) \
__CPROVER_requires(FRESH(tag, self, sizeof(OPT_T))) \
__CPROVER_assigns() \
__CPROVER_ensures(__CPROVER_return_value == (VAL)); \
void h_##tag(void){ OPT_T o; fn(&o); REACH; }
typedef struct S_class_ikos__separate_domain_K__GV___join_op OP_join;
typedef struct S_class_ikos__separate_domain_K__GV___widening_op OP_widen;
typedef struct S_class_ikos__separate_domain_K__GV___widening_thresholds_op OP_wt;
typedef struct S_class_ikos__separate_domain_K__GV___meet_op OP_meet;
typedef struct S_class_ikos__separate_domain_K__GV___narrowing_op OP_narrow;
typedef struct S_class_ikos__separate_domain_K__GV___domain_po OP_po;

//@check id=join_apply fn=_ZN4ikos15separate_domainI1K2GVSt8equal_toIS2_EE7join_op5applyERKS1_RKS2_SA_ props=C19,C04
JOINLIKE_APPLY(join_apply, SDN(7join_op5applyERKS1_RKS2_SA_), OP_join, GV_JOIN(VID(x), VID(y)))
//@check id=join_absorbing fn=_ZN4ikos15separate_domainI1K2GVSt8equal_toIS2_EE7join_op20default_is_absorbingEv props=C19,C04
FLAGFN(join_absorbing, SDN(7join_op20default_is_absorbingEv), OP_join, 1)
//@check id=widening_apply fn=_ZN4ikos15separate_domainI1K2GVSt8equal_toIS2_EE11widening_op5applyERKS1_RKS2_SA_ props=C19,C05
JOINLIKE_APPLY(widening_apply, SDN(11widening_op5applyERKS1_RKS2_SA_), OP_widen, GV_WIDEN(VID(x), VID(y)))
//@check id=widening_absorbing fn=_ZN4ikos15separate_domainI1K2GVSt8equal_toIS2_EE11widening_op20default_is_absorbingEv props=C19,C05
FLAGFN(widening_absorbing, SDN(11widening_op20default_is_absorbingEv), OP_widen, 1)
//@check id=meet_apply fn=_ZN4ikos15separate_domainI1K2GVSt8equal_toIS2_EE7meet_op5applyERKS1_RKS2_SA_ props=C19,C04
MEETLIKE_APPLY(meet_apply, SDN(7meet_op5applyERKS1_RKS2_SA_), OP_meet, GV_MEET(VID(x), VID(y)))
//@check id=meet_absorbing fn=_ZN4ikos15separate_domainI1K2GVSt8equal_toIS2_EE7meet_op20default_is_absorbingEv props=C19,C04
FLAGFN(meet_absorbing, SDN(7meet_op20default_is_absorbingEv), OP_meet, 0)
//@check id=narrowing_apply fn=_ZN4ikos15separate_domainI1K2GVSt8equal_toIS2_EE12narrowing_op5applyERKS1_RKS2_SA_ props=C19,C05
MEETLIKE_APPLY(narrowing_apply, SDN(12narrowing_op5applyERKS1_RKS2_SA_), OP_narrow, GV_NARROW(VID(x), VID(y)))
//@check id=narrowing_absorbing fn=_ZN4ikos15separate_domainI1K2GVSt8equal_toIS2_EE12narrowing_op20default_is_absorbingEv props=C19,C05
FLAGFN(narrowing_absorbing, SDN(12narrowing_op20default_is_absorbingEv), OP_narrow, 0)
/* widening_thresholds_op: uses the thresholds object it was constructed with (field m_ts) */
//@check id=wt_apply fn=_ZN4ikos15separate_domainI1K2GVSt8equal_toIS2_EE22widening_thresholds_opI2TSE5applyERKS1_RKS2_SC_ props=C19,C05
JOINLIKE_APPLY(wt_apply, SDN(22widening_thresholds_opI2TSE5applyERKS1_RKS2_SC_), OP_wt, GV_WT(VID(x), VID(y), self->f1))
//@check id=wt_absorbing fn=_ZN4ikos15separate_domainI1K2GVSt8equal_toIS2_EE22widening_thresholds_opI2TSE20default_is_absorbingEv props=C19,C05
FLAGFN(wt_absorbing, SDN(22widening_thresholds_opI2TSE20default_is_absorbingEv), OP_wt, 1)
/* domain_po: the value order, default (unbound key) is top */
//@check id=po_leq fn=_ZN4ikos15separate_domainI1K2GVSt8equal_toIS2_EE9domain_po3leqERKS2_S8_ props=C19,C04
unsigned char SDN(9domain_po3leqERKS2_S8_)(OP_po *self, GV *x, GV *y)
__CPROVER_requires(FRESH(po_leq, self, sizeof(OP_po)) && FRESH(po_leq, x, sizeof(GV)) && FRESH(po_leq, y, sizeof(GV)))
__CPROVER_assigns()
__CPROVER_ensures(__CPROVER_return_value == (GV_LEQ(VID(x), VID(y)) ? 1 : 0));
void h_po_leq(void){ IN(GV, x); IN(GV, y); OP_po o; SDN(9domain_po3leqERKS2_S8_)(&o, &x, &y); REACH; }
//@check id=po_default_top fn=_ZN4ikos15separate_domainI1K2GVSt8equal_toIS2_EE9domain_po14default_is_topEv props=C19,C04
FLAGFN(po_default_top, SDN(9domain_po14default_is_topEv), OP_po, 1)

/* ---- rename(from, to), BOUNDED (quick tier since the unit runs with mem2reg and every dropped tree function is replaced by
 * its contract: 10 - 30 s per run on cvc5; the SAT back ends spend minutes in cbmc's post-processing of the uninterpreted
 * observers): vectors of at most ONE key (loop unwound twice; the general case iterates the
 * vectors and needs the finite-map facts at more than one ghost key).  Sanity-check flag off (its default).
 * nothing on bottom / top; equal keys or an unbound source: nothing; otherwise the source is unbound afterwards,
 * the target carries the source's value unless that value is top, every other key unchanged. */
extern uint8_t _ZN4crab19CrabSanityCheckFlagE;   /* crab::CrabSanityCheckFlag, default false: precondition of the check */
typedef struct S_class_std__vector_3 VEC;            /* std::vector<K>: f0.f0.f0 = { begin, end, end_of_storage } */
#ifndef RN
#define RN 1
#endif
#define VBEG(v) ((v)->f0.f0.f0.f0)
#define VEND(v) ((v)->f0.f0.f0.f1)
#define VLEN(v) ((uint64_t)(VEND(v) - VBEG(v)))
#define REN_K(from) KIDX(&VBEG(from)[0])
#define REN_ACTIVE(self, from, to) (!OLDBOT(self) && M_size(OLDROOT(self)) != 0 && VLEN(from) == 1 && REN_K(from) != REN_K(to) && M_has(OLDROOT(self), REN_K(from)))
//@check id=rename1 fn=_ZN4ikos15separate_domainI1K2GVSt8equal_toIS2_EE6renameERKSt6vectorIS1_SaIS1_EESA_ props=C19 bounded="|from|=|to|<=1 (one run per length)" backends=cvc5 timeout=300 timeout_thorough=900 cost=5 unwind=2 vary=RN:0-1 replace=_ZNK4ikos13patricia_treeI1K2GVSt8equal_toIS2_EE4sizeEv,_ZNK4ikos13patricia_treeI1K2GVSt8equal_toIS2_EE6lookupERKS1_,_ZN4ikos13patricia_treeI1K2GVSt8equal_toIS2_EE6insertERKS1_RKS2_,_ZN4ikos13patricia_treeI1K2GVSt8equal_toIS2_EE6removeERKS1_
void SDN(6renameERKSt6vectorIS1_SaIS1_EESA_)(SD *self, VEC *from, VEC *to)
__CPROVER_requires(FRESH(rename1, self, sizeof(SD)) && FRESH(rename1, from, sizeof(VEC)) && FRESH(rename1, to, sizeof(VEC)) && sd_ok(self))
__CPROVER_requires(VLEN(from) == VLEN(to) && VLEN(from) <= 1 && _ZN4crab19CrabSanityCheckFlagE == 0)
__CPROVER_assigns(*self)
__CPROVER_ensures(self->f0 == __CPROVER_old(self->f0))
__CPROVER_ensures(REN_ACTIVE(self, from, to) || ROOT(self->f1) == OLDROOT(self))
__CPROVER_ensures(!REN_ACTIVE(self, from, to) || !M_has(ROOT(self->f1), REN_K(from)))
__CPROVER_ensures(!REN_ACTIVE(self, from, to) || g_k == REN_K(from) || g_k == REN_K(to) || SAME_AT(self, OLDROOT(self), g_k))
__CPROVER_ensures(!(REN_ACTIVE(self, from, to) && g_k == REN_K(to)) ||
                  (GV_ISTOP(M_val(OLDROOT(self), REN_K(from))) ? SAME_AT(self, OLDROOT(self), g_k)
                   : (M_has(ROOT(self->f1), g_k) && M_val(ROOT(self->f1), g_k) == M_val(OLDROOT(self), REN_K(from)))))
/* the same in the property's terms (total map with default top), at the ghost key: when the target is fresh (unbound, what
 * the real code's sanity check demands) the target afterwards reads what the source read before - top included: renaming
 * a key that is top leaves the target top - and the source (if it is another key) reads top */
__CPROVER_ensures(!(VLEN(from) == 1 && !OLDBOT(self) && g_k == REN_K(to) && !M_has(OLDROOT(self), REN_K(to)) && SD_INV_AT(OLDROOT(self), REN_K(from))) ||
                  AT_ROOT(ROOT(self->f1), g_k) == AT_ROOT(OLDROOT(self), REN_K(from)))
__CPROVER_ensures(!(VLEN(from) == 1 && !OLDBOT(self) && REN_K(from) != REN_K(to)) || !M_has(ROOT(self->f1), REN_K(from)));
void h_rename1(void){
  IN(SD, a); K fk0, tk0; K *fk = &fk0, *tk = &tk0; GHOSTG(uint64_t, g_k);
  static uint64_t wit_from, wit_to; wit_from = fk0.f1; wit_to = tk0.f1;
  VEC from, to;                                  /* RN = number of keys, fixed per run (vary=RN:0-1) */
  VBEG(&from) = fk; VEND(&from) = fk + RN; from.f0.f0.f0.f2 = fk + RN;
  VBEG(&to) = tk; VEND(&to) = tk + RN; to.f0.f0.f0.f2 = tk + RN;
  _ZN4crab19CrabSanityCheckFlagE = 0;           /* dfcc havocs statics: put the flag back to its default */
  SDN(6renameERKSt6vectorIS1_SaIS1_EESA_)(&a, &from, &to);
#if RN == 1
  SATGUARD(wit_a.f0); SATGUARD(!wit_a.f0 && fk[0].f1 == tk[0].f1);
  SATGUARD(!wit_a.f0 && fk[0].f1 != tk[0].f1 && M_size(ROOT(wit_a.f1)) != 0 && M_has(ROOT(wit_a.f1), fk[0].f1) && g_k == tk[0].f1);
  SATGUARD(!wit_a.f0 && fk[0].f1 != tk[0].f1 && M_size(ROOT(wit_a.f1)) != 0 && !M_has(ROOT(wit_a.f1), fk[0].f1));
#endif
  REACH; }

#include "contracts_iter.c"
#include "contracts_set.c"
#include "contracts_setops.c"
